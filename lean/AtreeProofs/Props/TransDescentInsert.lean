import AtreeProofs.Props.TransDescentGet
import AtreeProofs.Props.TransDescentRoute
import AtreeProofs.Props.TransSlabsDecide
import AtreeProofs.Props.TransSlabsTree
import AtreeProofs.Props.TransSafe
import AtreeProofs.Array.TreeOps
import AtreeProofs.Array.EffectsTree
/-
  TRANSLATION EQUIVALENCE, the DESCENT (WP12), part 3: `ArrayMetaDataSlab.Insert` / `ArraySlab.Insert` over a heap.

  The generated `ArrayMetaDataSlab_Insert` (Gen/TransSlabs.lean, regenerated from array_metadata_slab.go on every run)
  checks the index, routes it (`index == count`: the last child with its count as adjusted index; else
  `childSlabIndexInfo`), reads the child from the storage, calls `Insert` on it through dynamic dispatch, bumps its own
  count and the cumulative counts from the child's position (`.loop1`), copies the child's header, and then either
  splits the child (`SplitChildSlab`, if it became full) or stores itself (`storeSlab`).  On a heap that HOLDS a valid
  model tree (`Holds`, Trans/Descent.lean) it returns the translation of the model's `ATree.insert` result, the `Ctx`
  of the storage is the model's, and the heap satisfies `HeapPost`.

  1. `Sl_ArrayDataSlab_Insert_envH`: the leaf over the heap (port of `Sl_ArrayDataSlab_Insert_eq_model`).
  2. `Sl_Insert_loop1`, `Sl_Insert_loop1_trMeta`: the loop is the model's `bumpFrom k (· + 1)`.
  3. heaps: `ins_holdsChildren_after_child`, `ins_heapPost_parent`, `ins_heapPost_store_root`.
  4. `insert_entry_eq` (bounds check + both routings up to the join point `k1`), `insert_k1_eq` (`k1` up to the tail).
  5. `InsTailPre` / `InsSplitTail` (THE TAIL HYPOTHESIS: `SplitChildSlab` over a heap, proved elsewhere), `InsNoSplit`
     (path predicate: no child on the path becomes full), `InsTailHyp` (one or the other), `InsertDisp`, `InsertMeta`,
     `insertDisp_zero`, `insertMeta_of_disp` (the plain-store tail is proved here), `insertDisp_succ`, `insertDisp_all`.
  6. `Sl_ArraySlab_Insert_heap`, `Sl_ArraySlab_Insert_heap_oob`, `Sl_ArrayMetaDataSlab_Insert_heap`,
     `Sl_ArraySlab_Insert_heap_noSplit`, `Sl_ArraySlab_Insert_heap_data`, `Sl_ArrayMetaDataSlab_Insert_depth0`.
  7. `InsRoom`, `InsNoSplit.of_room`, `Sl_ArraySlab_Insert_heap_room` (unconditional), evaluated examples.
  Core Lean only.
-/
namespace Atree.TransEq
open Atree Atree.Gen

/-! ## 1. the leaf over the heap -/

/-- the storage after `ArrayDataSlab.Insert` on a heap: `Value.Storable` acts on the `Ctx`, then `storeSlab` writes the
    new slab under its identifier (unless the slab is inlined) -/
def insLeafSt (T : Nat) (s s' : DataSlab) (v : Elem) (st : HSt) : HSt :=
  if s.inlined then st.withCtx (toStorable T s.hdr.id.addr v st.ctx).2
  else (st.withCtx (toStorable T s.hdr.id.addr v st.ctx).2).store s.hdr.id (some (.dataSlab (trData s')))

/-- `ArrayDataSlab.Insert` over the heap environment (port of `Sl_ArrayDataSlab_Insert_eq_model`) -/
theorem Sl_ArrayDataSlab_Insert_envH (T : Nat) (s : DataSlab) (i : Nat) (v : Elem) (st : HSt)
    (hi : i < 2^64) (hlen : s.elems.length < 2^63) (hmax : maxInlineArr T < 2^32) :
    TransSl.ArrayDataSlab_Insert (envH T) (trData s) st s.hdr.id.addr (u64 i) (some v) =
      match s.insert T i v st.ctx with
      | .error e => some (some e, trData s, st)
      | .ok (s', _) => some (none, trData s', insLeafSt T s s' v st) := by
  have hidx : (u64 i).toNat = i := u64_toNat hi
  simp only [TransSl.ArrayDataSlab_Insert, DataSlab.insert, trData_elements, List.length_map, u64_len,
    u64_dgt hi (show s.elems.length < 2^64 by omega)]
  by_cases hgt : i > s.elems.length
  · simp [hgt]
  · simp only [hgt, decide_false, Bool.false_eq_true, if_false]
    simp only [envH_storable, envH_maxInline, hidx, u32_toNat hmax, toStorableMax_eq, Option.isSome_none,
      Bool.false_eq_true, if_false, goInsert_ofNat, List.length_map, envH_byteSize]
    have hle : i ≤ s.elems.length := by omega
    simp only [hle, if_true]
    unfold insLeafSt
    generalize hts : toStorable T s.hdr.id.addr v st.ctx = ts
    obtain ⟨e, c'⟩ := ts
    simp only
    have e1 : (1 : UInt32) = u32 1 := rfl
    simp only [storeSlab_envH, map_some_insertIdx _ _ _ hle, trData_header, trHdr_size, trHdr_count, trHdr_slabID,
      u32_add', e1, trData_inlined, trData_next, trData_extraData, Option.isSome_none,
      Bool.false_eq_true, if_false]
    cases hin : s.inlined <;> simp [trData, trHdr, TransSl.ArraySlab_SlabID, TransSl.ArrayDataSlab_SlabID]

/-- the `Ctx` component of the storage after the leaf insertion is the model's -/
theorem insLeafSt_ctx (T : Nat) (s s' : DataSlab) (i : Nat) (v : Elem) (st : HSt) (c' : Ctx)
    (h : s.insert T i v st.ctx = .ok (s', c')) : (insLeafSt T s s' v st).ctx = c' := by
  unfold DataSlab.insert at h
  split at h
  · cases h
  · simp only [Except.ok.injEq, Prod.mk.injEq] at h
    obtain ⟨hs', hc'⟩ := h
    rw [← hc', ← hs']
    unfold insLeafSt DataSlab.storeIfNotInlined
    cases s.inlined <;> simp

/-! ## 2. the loop `for i := childHeaderIndex; i < len(a.childrenCountSum); i++ { a.childrenCountSum[i]++ }` -/

theorem ins_bumpFrom_step (f : Nat → Nat) (l : List Nat) (k : Nat) (hk : k < l.length) :
    MetaSlab.bumpFrom (k + 1) f (l.set k (f l[k])) = MetaSlab.bumpFrom k f l := by
  apply List.ext_getElem?
  intro j
  simp only [MetaSlab.bumpFrom, List.getElem?_mapIdx, List.getElem?_set]
  by_cases hj : k = j
  · subst hj
    simp [hk]
    intro h; omega
  · simp only [hj, if_false]
    cases l[j]? with
    | none => rfl
    | some x =>
      simp only [Option.map_some]
      by_cases h1 : j ≥ k + 1
      · have : j ≥ k := by omega
        simp [h1, this]
      · have : ¬ j ≥ k := by omega
        simp [h1, this]

theorem ins_bumpFrom_ge (f : Nat → Nat) (l : List Nat) (k : Nat) (hk : l.length ≤ k) :
    MetaSlab.bumpFrom k f l = l := by
  apply List.ext_getElem?
  intro j
  simp only [MetaSlab.bumpFrom, List.getElem?_mapIdx]
  by_cases hj : j < l.length
  · have : ¬ j ≥ k := by omega
    simp [List.getElem?_eq_getElem hj, this]
  · simp [List.getElem?_eq_none (Nat.le_of_not_lt hj)]

/-- the loop of `ArrayMetaDataSlab.Insert` -/
theorem Sl_Insert_loop1 (T : Nat) : ∀ (n k : Nat) (l : List Nat) (a : GMeta), a.childrenCountSum = l.map u32 →
    n = l.length - k →
    TransSl.ArrayMetaDataSlab_Insert.loop1 (ε := AErr) (S := HSt) (envH T) n (Int.ofNat k) a =
      .done { a with childrenCountSum := (MetaSlab.bumpFrom k (· + 1) l).map u32 }
  | 0, k, l, a, ha, hn => by
    rw [ins_bumpFrom_ge _ _ _ (by omega), ← ha]
    rfl
  | n + 1, k, l, a, ha, hn => by
    have hk : k < l.length := by omega
    have e1 : (1 : UInt32) = u32 1 := rfl
    have hlt : decide (Int.ofNat k < Int.ofNat (l.map u32).length) = true := by
      simp [hk]
    simp only [TransSl.ArrayMetaDataSlab_Insert.loop1, ha, hlt, if_true, goIdx_map, List.getElem?_eq_getElem hk,
      Option.map_some, e1, u32_add', goSet_map, hk, ofNat_succ']
    rw [Sl_Insert_loop1 T n (k + 1) (l.set k (l[k] + 1)) _ rfl (by simp; omega)]
    rw [ins_bumpFrom_step (· + 1) l k hk]
/-- the loop on the translation of a model index slab -/
theorem Sl_Insert_loop1_trMeta (T : Nat) {α : Type} (m : MetaSlab α) (n k : Nat) (hn : n = m.countSum.length - k) :
    TransSl.ArrayMetaDataSlab_Insert.loop1 (ε := AErr) (S := HSt) (envH T) n (Int.ofNat k) (trMeta m) =
      .done (trMeta { m with countSum := MetaSlab.bumpFrom k (· + 1) m.countSum }) :=
  Sl_Insert_loop1 T n k m.countSum (trMeta m) rfl hn

/-! ## 3. heaps: composing the post-condition of the child operation with that of the tail -/

section heap
variable {d : Nat}

theorem ins_mem_ids_meta (m : MetaSlab (ATree d)) (id : SlabID) :
    id ∈ ATree.slabIds (d + 1) (ofMeta m) ↔ id = m.hdr.id ∨ ∃ c ∈ m.children, id ∈ ATree.slabIds d c := by
  simp [List.mem_flatMap]

/-- what `Nodup` of the identifiers of an index slab says about one child and its siblings -/
theorem ins_nodup_mid {A B : List (ATree d)} {x : ATree d} {r : SlabID}
    (h : (r :: (A ++ x :: B).flatMap (ATree.slabIds d)).Nodup) :
    (∀ id ∈ ATree.slabIds d x, id ≠ r) ∧
    ∀ c, (c ∈ A ∨ c ∈ B) → ∀ id ∈ ATree.slabIds d c, id ∉ ATree.slabIds d x ∧ id ≠ r := by
  obtain ⟨hr, hl⟩ := List.nodup_cons.1 h
  simp only [List.flatMap_append, List.flatMap_cons] at hr hl
  obtain ⟨_, h2, h3⟩ := List.nodup_append.1 hl
  obtain ⟨_, _, h4⟩ := List.nodup_append.1 h2
  refine ⟨fun id hid e => hr (by subst e; simp [hid]), ?_⟩
  intro c hc id hid
  rcases hc with hc | hc
  · have hmem : id ∈ A.flatMap (ATree.slabIds d) := List.mem_flatMap.2 ⟨c, hc, hid⟩
    refine ⟨fun hx => h3 id hmem id (by simp [hx]) rfl, fun e => hr (by subst e; simp [hmem])⟩
  · have hmem : id ∈ B.flatMap (ATree.slabIds d) := List.mem_flatMap.2 ⟨c, hc, hid⟩
    refine ⟨fun hx => h4 id hx id hmem rfl, fun e => hr (by subst e; simp [hmem])⟩

/-- after the operation on child `k` the heap holds all children of the parent with the new child written back -/
theorem ins_holdsChildren_after_child {m m1 : MetaSlab (ATree d)} {A B : List (ATree d)} {child child' : ATree d}
    {h h1 : SlabID → Option GSlab}
    (hch : m.children = A ++ child :: B) (hch1 : m1.children = A ++ child' :: B)
    (hnd : (ATree.slabIds (d + 1) (ofMeta m)).Nodup) (hnd1 : (ATree.slabIds (d + 1) (ofMeta m1)).Nodup)
    (hh : HoldsChildren h m) (hp : HeapPost h h1 child child') : HoldsChildren h1 m1 := by
  rw [slabIds_succ, hch] at hnd
  rw [slabIds_succ, hch1] at hnd1
  intro c hc
  rw [hch1] at hc
  simp only [List.mem_append, List.mem_cons] at hc
  have sib : (c ∈ A ∨ c ∈ B) → Holds h1 d c := by
    intro hc'
    have hmem : c ∈ m.children := by
      rw [hch]; simp only [List.mem_append, List.mem_cons]
      rcases hc' with h' | h'
      · exact Or.inl h'
      · exact Or.inr (Or.inr h')
    refine (hh c hmem).congr (fun id hid => ?_)
    exact hp.frame id ((ins_nodup_mid hnd).2 c hc' id hid).1 ((ins_nodup_mid hnd1).2 c hc' id hid).1
  rcases hc with hc | rfl | hc
  · exact sib (Or.inl hc)
  · exact hp.holds
  · exact sib (Or.inr hc)

/-- the heap post-condition of the parent from that of the child and that of the tail -/
theorem ins_heapPost_parent {m m1 m2 : MetaSlab (ATree d)} {A B : List (ATree d)} {child child' : ATree d}
    {h h1 h2 : SlabID → Option GSlab}
    (hch : m.children = A ++ child :: B) (hch1 : m1.children = A ++ child' :: B) (hid : m1.hdr.id = m.hdr.id)
    (hp : HeapPost h h1 child child') (ht : HeapPost h1 h2 (ofMeta m1) (ofMeta m2))
    (hsub : ∀ id ∈ ATree.slabIds (d + 1) (ofMeta m1), id ∈ ATree.slabIds (d + 1) (ofMeta m2)) :
    HeapPost h h2 (ofMeta m) (ofMeta m2) := by
  have hc'1 : ∀ id ∈ ATree.slabIds d child', id ∈ ATree.slabIds (d + 1) (ofMeta m1) := by
    intro id hid
    rw [ins_mem_ids_meta]; exact Or.inr ⟨child', by rw [hch1]; simp, hid⟩
  have hc0 : ∀ id ∈ ATree.slabIds d child, id ∈ ATree.slabIds (d + 1) (ofMeta m) := by
    intro id hid
    rw [ins_mem_ids_meta]; exact Or.inr ⟨child, by rw [hch]; simp, hid⟩
  refine ⟨ht.holds, ?_, ?_⟩
  · intro id hid hn2
    have hn1 : id ∉ ATree.slabIds (d + 1) (ofMeta m1) := fun h' => hn2 (hsub id h')
    rw [ht.frame id hn1 hn2]
    rw [ins_mem_ids_meta] at hid
    have hinchild : id ∈ ATree.slabIds d child := by
      rcases hid with rfl | ⟨c, hc, hidc⟩
      · exact absurd (by rw [ins_mem_ids_meta, hid]; exact Or.inl rfl) hn1
      · rw [hch] at hc
        simp only [List.mem_append, List.mem_cons] at hc
        rcases hc with hc | rfl | hc
        · exact absurd (by rw [ins_mem_ids_meta]; exact Or.inr ⟨c, by rw [hch1]; simp [hc], hidc⟩) hn1
        · exact hidc
        · exact absurd (by rw [ins_mem_ids_meta]; exact Or.inr ⟨c, by rw [hch1]; simp [hc], hidc⟩) hn1
    exact hp.gone id hinchild (fun h' => hn1 (hc'1 id h'))
  · intro id hn hn2
    have hn1 : id ∉ ATree.slabIds (d + 1) (ofMeta m1) := fun h' => hn2 (hsub id h')
    rw [ht.frame id hn1 hn2]
    exact hp.frame id (fun h' => hn (hc0 id h')) (fun h' => hn1 (hc'1 id h'))

/-- the plain tail: `storeSlab(a)` of the parent -/
theorem ins_heapPost_store_root {m1 : MetaSlab (ATree d)} (s1 : HSt)
    (hnd1 : (ATree.slabIds (d + 1) (ofMeta m1)).Nodup) (hh : HoldsChildren s1.heap m1) :
    HeapPost s1.heap (s1.store m1.hdr.id (some (.metaSlab (trMeta m1)))).heap (ofMeta m1) (ofMeta m1) := by
  refine ⟨⟨by show (s1.store m1.hdr.id (some (.metaSlab (trMeta m1)))).heap m1.hdr.id = some (.metaSlab (trMeta m1)); simp, ?_⟩,
    fun id h1 h2 => absurd h1 h2, ?_⟩
  · intro c hc
    refine (hh c hc).congr (fun id hid => ?_)
    have : id ≠ m1.hdr.id := by
      rw [slabIds_succ] at hnd1
      intro e
      exact (List.nodup_cons.1 hnd1).1 (by rw [← e]; exact List.mem_flatMap.2 ⟨c, hc, hid⟩)
    simp [this]
  · intro id h1 _
    have : id ≠ m1.hdr.id := fun e => h1 (by rw [ins_mem_ids_meta]; exact Or.inl e)
    simp [this]
end heap
/-! ## 4. the entry (bounds check, routing) and the join point `k1` of `ArrayMetaDataSlab.Insert` -/

theorem ins_u64_deq {a b : Nat} (ha : a < 2^64) (hb : b < 2^64) : decide (u64 a = u64 b) = decide (a = b) := by
  have : (u64 a = u64 b) = (a = b) := by rw [← UInt64.toNat_inj, u64_toNat ha, u64_toNat hb]
  simp only [this]

/-- the entry of `ArrayMetaDataSlab.Insert`: bounds check and routing (append to the last child if
    `index == count`, else `childSlabIndexInfo`), up to the join point `k1` -/
theorem insert_entry_eq (T d depth : Nat) (m : MetaSlab (ATree d)) (i k adj : Nat) (child : ATree d)
    (s : HSt) (addr : Nat) (v : Elem) (hcnt : m.hdr.count < 2^32) (hle : i ≤ m.hdr.count)
    (hhdrs : m.childHdrs = m.children.map (ATree.hdr d)) (hc : m.children[k]? = some child)
    (hcc : (ATree.hdr d child).count < 2^32)
    (hroute : (i = m.hdr.count ∧ ∃ h, m.childHdrs.getLast? = some h ∧ k = m.childHdrs.length - 1 ∧ adj = h.count) ∨
      (i ≠ m.hdr.count ∧
        Trans.ArrayMetaDataSlab_childSlabIndexInfo (u32 m.hdr.count) (u32s m.countSum) (u32s (countsOf m.childHdrs))
          (u64 i) = some (Int.ofNat k, u64 adj))) :
    TransSl.ArrayMetaDataSlab_Insert (envH T) (depth + 1) (trMeta m) s addr (u64 i) (some v) =
      TransSl.ArrayMetaDataSlab_Insert.k1 (envH T) (trMeta m) s addr (some v)
        (TransSl.ArrayMetaDataSlab_Insert (envH T) depth) (ATree.hdr d child).id (Int.ofNat k) (u64 adj) := by
  have hi : i < 2^64 := by omega
  have hngt : ¬ i > m.hdr.count := by omega
  have hck : m.childHdrs[k]? = some (ATree.hdr d child) := by rw [hhdrs]; simp [hc]
  simp only [TransSl.ArrayMetaDataSlab_Insert, trMeta_header, trHdr_count, u32_toUInt64 hcnt,
    u64_dgt hi (show m.hdr.count < 2^64 by omega), hngt, decide_false, Bool.false_eq_true, if_false,
    ins_u64_deq hi (show m.hdr.count < 2^64 by omega)]
  rcases hroute with ⟨h0, h, hl, hk, hadj⟩ | ⟨h0, hr⟩
  · have hpos : 1 ≤ m.childHdrs.length := by
      cases hm : m.childHdrs with
      | nil => rw [hm] at hl; simp at hl
      | cons a t => simp
    have hidx : Int.ofNat (m.childHdrs.map trHdr).length - 1 = Int.ofNat k := by
      simp only [List.length_map, Int.ofNat_eq_natCast]; omega
    have hh : h = ATree.hdr d child := by
      rw [List.getLast?_eq_getElem?, ← hk, hck] at hl
      cases hl; rfl
    subst hh
    simp only [h0, decide_true, if_true, trMeta_childrenHeaders, hidx, goIdx_map, hck, Option.map_some,
      trHdr_slabID, trHdr_count, u32_toUInt64 hcc, hadj]
  · have e1 := childInfoOf_trMeta_ok m i k adj (some .indexOutOfBounds) hr
    have e2 := childID_of_hdrs m k child hhdrs hc
    simp only [h0, decide_false, Bool.false_eq_true, if_false, envH_childInfo, e1, e2, Option.isSome_none]
theorem insH_Header (T : Nat) (d : Nat) (t : ATree d) :
    TransSl.ArraySlab_Header (envH T) (trTree d t) = trHdr (ATree.hdr d t) := by
  cases d <;> rfl

theorem insH_IsFull (T : Nat) (d : Nat) (t : ATree d) (hs : (ATree.hdr d t).size < 2^32) (hT : maxThr T < 2^32) :
    TransSl.ArraySlab_IsFull (envH T) (trTree d t) = ATree.isFull T d t := by
  cases d with
  | zero =>
    show decide (u32 (t : DataSlab).hdr.size > u32 (maxThr T)) = decide ((t : DataSlab).hdr.size > maxThr T)
    exact u32_dgt hs hT
  | succ d =>
    show decide (u32 (t : MetaSlab (ATree d)).hdr.size > u32 (maxThr T)) =
      decide ((t : MetaSlab (ATree d)).hdr.size > maxThr T)
    exact u32_dgt hs hT

theorem insert_k1_eq (T d depth : Nat) (m : MetaSlab (ATree d)) (k adj : Nat) (child child' : ATree d)
    (s s1 : HSt) (addr : Nat) (v : Elem) (hk : k < m.childHdrs.length)
    (hroot : s.heap (ATree.hdr d child).id = some (trTree d child))
    (hgen : TransSl.ArraySlab_Insert (envH T) (TransSl.ArrayMetaDataSlab_Insert (envH T) depth) (trTree d child) s addr
      (u64 adj) (some v) = some (none, trTree d child', s1))
    (hsz : (ATree.hdr d child').size < 2^32) (hT : maxThr T < 2^32) :
    TransSl.ArrayMetaDataSlab_Insert.k1 (envH T) (trMeta m) s addr (some v)
        (TransSl.ArrayMetaDataSlab_Insert (envH T) depth) (ATree.hdr d child).id (Int.ofNat k) (u64 adj) =
      if ATree.isFull T d child' = true then
        match TransSl.ArrayMetaDataSlab_SplitChildSlab (envH T) (trMeta (insM1 m k child')) s1
            (some (trTree d child')) (Int.ofNat k) with
        | some r => some (r.1, r.2.1, r.2.2.1)
        | none => none
      else some (none, trMeta (insM1 m k child'),
        s1.store m.hdr.id (some (.metaSlab (trMeta (insM1 m k child'))))) := by
  have hfuel : (Int.ofNat (m.countSum.map u32).length - Int.ofNat k).toNat = m.countSum.length - k := by
    simp only [List.length_map, Int.ofNat_eq_natCast]; omega
  have e1 : (1 : UInt32) = u32 1 := rfl
  simp only [TransSl.ArrayMetaDataSlab_Insert.k1, envH_getArraySlab, hroot, Option.isSome_none, Bool.false_eq_true,
    if_false, hgen, trMeta_childrenCountSum, hfuel]
  rw [Sl_Insert_loop1 T _ k m.countSum _ rfl rfl]
  simp only [trMeta_childrenHeaders, insH_Header, goSet_map, hk, if_true, insH_IsFull T d child' hsz hT]
  have hrec : ({ header := { slabID := (trMeta m).header.slabID, size := (trMeta m).header.size,
                             count := (trMeta m).header.count + 1 },
                 childrenHeaders := List.map trHdr (m.childHdrs.set k (ATree.hdr d child')),
                 childrenCountSum := List.map u32 (MetaSlab.bumpFrom k (fun x => x + 1) m.countSum),
                 extraData := (trMeta m).extraData } : GMeta) = trMeta (insM1 m k child') := by
    simp only [trMeta, trHdr, insM1, e1, u32_add']
  rw [hrec, storeSlab_envH]
  by_cases hf : ATree.isFull T d child' = true
  · simp only [hf, if_true]
    cases TransSl.ArrayMetaDataSlab_SplitChildSlab (envH T) (trMeta (insM1 m k child')) s1 (some (trTree d child'))
      (Int.ofNat k) <;> rfl
  · simp only [hf]
    rfl

/-! ## 5. the tail as a hypothesis, the statements, the induction -/

section descent
open MetaSlab ATree

/-- what is known when the tail of `ArrayMetaDataSlab.Insert` runs on the parent `m1` (bookkeeping updated, the
    updated child `child'` written back at position `k`) over the storage `s1` -/
structure InsTailPre (T d : Nat) (m1 : MetaSlab (ATree d)) (child' : ATree d) (k : Nat) (s1 : HSt) (addr : Nat) :
    Prop where
  kids : ∃ A B, m1.children = A ++ child' :: B ∧ A.length = k ∧ (∀ t ∈ A, TreeInv T d false t) ∧
    (∀ t ∈ B, TreeInv T d false t)
  book : Book m1
  count_eq : m1.hdr.count = sumCounts m1.childHdrs
  count_lt : m1.hdr.count < 2^32
  holds : HoldsChildren s1.heap m1
  ids : IdsOk addr s1.ctx.ctr (slabIds (d + 1) (ofMeta m1))
  shape : Shape T d false child'
  full : maxThr T < (hdr d child').size
  size_le : (hdr d child').size ≤ maxThr T + maxInlineArr T

/-- THE TAIL HYPOTHESIS (proved in Props/TransDescentSplit.lean): when the updated child is full, the generated
    `SplitChildSlab` on the translated parent returns the model's `splitChildSlab` result; the heap after it holds the
    new parent and its children, the identifiers of the parent's tree are kept, everything else is untouched -/
def InsSplitTail (T d : Nat) : Prop :=
  ∀ (m1 : MetaSlab (ATree d)) (child' : ATree d) (k : Nat) (s1 : HSt) (addr : Nat) (m2 : MetaSlab (ATree d))
    (c2 : Ctx), InsTailPre T d m1 child' k s1 addr → m1.splitChildSlab child' k s1.ctx = .ok (m2, c2) →
    ∃ s2 out, TransSl.ArrayMetaDataSlab_SplitChildSlab (envH T) (trMeta m1) s1 (some (trTree d child'))
        (Int.ofNat k) = some (none, trMeta m2, s2, out) ∧ s2.ctx = c2 ∧
      HeapPost s1.heap s2.heap (ofMeta m1) (ofMeta m2) ∧
      ∀ id ∈ slabIds (d + 1) (ofMeta m1), id ∈ slabIds (d + 1) (ofMeta m2)

/-- no child on the path of the insertion becomes full (path predicate, in terms of the model) -/
def InsNoSplit (T : Nat) : (d : Nat) → ATree d → Nat → Elem → Ctx → Prop
  | 0, _, _, _, _ => True
  | d + 1, (m : MetaSlab (ATree d)), i, v, c =>
    ∀ k adj child child' c1, m.children[k]? = some child →
      ((i = m.hdr.count ∧ ∃ h, m.childHdrs.getLast? = some h ∧ k = m.childHdrs.length - 1 ∧ adj = h.count) ∨
        (i ≠ m.hdr.count ∧ m.childSlabIndexInfo i = .ok (k, adj))) →
      ATree.insert T d child adj v c = .ok (child', c1) →
      InsNoSplit T d child adj v c ∧ ATree.isFull T d child' = false

/-- either the tail hypothesis at every level below `d`, or no split on the path -/
def InsTailHyp (T d : Nat) (t : ATree d) (i : Nat) (v : Elem) (c : Ctx) : Prop :=
  (∀ d', d' < d → InsSplitTail T d') ∨ InsNoSplit T d t i v c

/-- the statement for the dispatcher at depth `d` (in-range index) -/
def InsertDisp (T d : Nat) : Prop :=
  ∀ (t : ATree d) (top : Bool) (i : Nat) (v : Elem) (s : HSt) (depth addr : Nat), d ≤ depth →
    TreeInv T d top t → NotInl d t → ValueOk v → IdsOk addr s.ctx.ctr (slabIds d t) → Holds s.heap d t →
    (hdr d t).count + 1 < 2^32 → i ≤ (flatten d t).length → InsTailHyp T d t i v s.ctx →
    ∃ t' c' s', ATree.insert T d t i v s.ctx = .ok (t', c') ∧
      TransSl.ArraySlab_Insert (envH T) (TransSl.ArrayMetaDataSlab_Insert (envH T) depth) (trTree d t) s addr
        (u64 i) (some v) = some (none, trTree d t', s') ∧
      s'.ctx = c' ∧ HeapPost s.heap s'.heap t t'

/-- the statement for an index slab whose children have depth `d` (in-range index) -/
def InsertMeta (T d : Nat) : Prop :=
  ∀ (m : MetaSlab (ATree d)) (top : Bool) (i : Nat) (v : Elem) (s : HSt) (depth addr : Nat), d ≤ depth →
    TreeInv T (d + 1) top (ofMeta m) → ValueOk v → IdsOk addr s.ctx.ctr (slabIds (d + 1) (ofMeta m)) →
    HoldsChildren s.heap m → m.hdr.count + 1 < 2^32 → i ≤ (flatten (d + 1) (ofMeta m)).length →
    InsTailHyp T (d + 1) (ofMeta m) i v s.ctx →
    ∃ m2 c' s', ATree.insert T (d + 1) (ofMeta m) i v s.ctx = .ok (ofMeta m2, c') ∧
      TransSl.ArrayMetaDataSlab_Insert (envH T) (depth + 1) (trMeta m) s addr (u64 i) (some v) =
        some (none, trMeta m2, s') ∧
      s'.ctx = c' ∧ HeapPost s.heap s'.heap (ofMeta m) (ofMeta m2)

theorem insertDisp_zero (T : Nat) (hT : legalThreshold T = true) : InsertDisp T 0 := by
  intro t top i v s depth addr _ hinv hni hv hids hh hcnt hi _
  revert hinv hni hids hh hcnt hi
  refine forall_ofData ?_ t
  intro t hinv hni hids hh hcnt hi
  have hinv' : DataInv T top t := (treeInv_zero T top t).1 hinv
  have hni' : t.inlined = false := hni
  have hlenc := hinv'.count_eq
  have hcnt' : t.hdr.count + 1 < 2^32 := hcnt
  have hi' : i ≤ t.elems.length := hi
  have haddr : t.hdr.id.addr = addr := (hids.2 t.hdr.id (by simp)).1
  have F := thrFacts hT
  have hmax : maxInlineArr T < 2^32 := by rw [F.inlE]; have := F.hi; omega
  have hgen := Sl_ArrayDataSlab_Insert_envH T t i v s (by omega) (by omega) hmax
  rw [haddr] at hgen
  obtain ⟨s', c', hins, _, _, hid, _⟩ :=
    DataSlab.insert_spec T hT top t i v s.ctx ((shape_zero T top t).1 (hinv.shape hni)) hv hi'
  rw [hins] at hgen
  refine ⟨ofData s', c', insLeafSt T t s' v s, hins, ?_, insLeafSt_ctx T t s' i v s c' hins, ?_⟩
  · show TransSl.ArraySlab_Insert (envH T) _ (.dataSlab (trData t)) s addr (u64 i) (some v) = _
    simp only [TransSl.ArraySlab_Insert, hgen]
    rfl
  · have hheap : ∀ j, (insLeafSt T t s' v s).heap j =
        if j = t.hdr.id then some (.dataSlab (trData s')) else s.heap j := by
      intro j; simp [insLeafSt, hni']
    refine ⟨?_, ?_, ?_⟩
    · show (insLeafSt T t s' v s).heap s'.hdr.id = some (.dataSlab (trData s'))
      rw [hheap, hid]; simp
    · intro id h1 h2
      simp only [slabIds_zero, List.mem_singleton] at h1 h2
      exact absurd (h1.trans hid.symm) h2
    · intro id h1 _
      simp only [slabIds_zero, List.mem_singleton] at h1
      rw [hheap]; simp [h1]

theorem insertMeta_of_disp (T d : Nat) (hT : legalThreshold T = true) (ih : InsertDisp T d) : InsertMeta T d := by
  intro m top i v s depth addr hd hinv hv hids hh hcnt hi htl
  have F := thrFacts hT
  have ht := thresholds_fit hT
  obtain ⟨hs, hmax, _, _⟩ := (treeInv_succ T d top m).1 hinv
  have hkids2 := two_kids hT hinv
  simp only [flatten_succ, ← hs.flat_length] at hi
  obtain ⟨A, child, B, adj, hch, hroute, hi2, hadj, hget⟩ := route_insert hT hs hkids2 i hi
  have hA : ∀ t ∈ A, TreeInv T d false t := fun t ht => hs.kids_inv t (by rw [hch]; simp [ht])
  have hB : ∀ t ∈ B, TreeInv T d false t := fun t ht => hs.kids_inv t (by rw [hch]; simp [ht])
  have hcmem : child ∈ m.children := by rw [hch]; simp
  have hc : TreeInv T d false child := hs.kids_inv child hcmem
  have hcc : (hdr d child).count ≤ m.hdr.count := by
    rw [hs.count_eq, hs.hdrs_eq]; exact count_le_sumCounts _ _ hcmem
  have hidc : IdsOk addr s.ctx.ctr (slabIds d child) := ids_child hch hids
  have hhc : Holds s.heap d child := hh child hcmem
  have hroute' : (i = m.hdr.count ∧ ∃ h, m.childHdrs.getLast? = some h ∧
      A.length = m.childHdrs.length - 1 ∧ adj = h.count) ∨
      (i ≠ m.hdr.count ∧ m.childSlabIndexInfo i = .ok (A.length, adj)) := hroute
  -- the tail hypothesis of the child
  have htlc : ∀ child' c1, ATree.insert T d child adj v s.ctx = .ok (child', c1) →
      InsTailHyp T d child adj v s.ctx ∧ ((∀ d', d' < d + 1 → InsSplitTail T d') ∨ ATree.isFull T d child' = false) := by
    intro child' c1 hins
    rcases htl with h | h
    · exact ⟨Or.inl (fun d' hd' => h d' (by omega)), Or.inl h⟩
    · have := h A.length adj child child' c1 hget hroute' hins
      exact ⟨Or.inr this.1, Or.inr this.2⟩
  obtain ⟨child', c1, hins0, hstep, hflat, hcnt', hsz1, hsz2⟩ :=
    insert_gen hT d child false adj v s.ctx hc hc.notInl_of_false hv hadj
  obtain ⟨htlc1, htlc2⟩ := htlc child' c1 hins0
  obtain ⟨child'', c1', s1, hins, hgen, hctx, hpost⟩ :=
    ih child false adj v s depth addr hd hc hc.notInl_of_false hv hidc hhc (by omega) hadj htlc1
  rw [hins0] at hins
  simp only [Except.ok.injEq, Prod.mk.injEq] at hins
  obtain ⟨rfl, rfl⟩ := hins
  -- the parent with the new child written back
  obtain ⟨b1, b2, b3⟩ := book_after (child' := child') hs hch rfl (· + 1) hcnt'
    (prefixSums_map_succ _ _) (by omega)
  have hbook1 : Book (insM1 m A.length child') :=
    ⟨by simp only [insM1, b1, b2], by simp only [insM1, b1, b3]⟩
  have hch1 : (insM1 m A.length child').children = A ++ child' :: B := b2
  have hcount1 : m.hdr.count + 1 = sumCounts ((A ++ child' :: B).map (hdr d)) := by
    rw [hs.count_eq, hs.hdrs_eq, hch]
    simp only [List.map_append, List.map_cons, sumCounts_append, sumCounts_cons, hcnt']; omega
  have ids1 : IdsOk addr c1.ctr (slabIds (d + 1) (ofMeta (insM1 m A.length child'))) :=
    ids_after_child (m1 := insM1 m A.length child') hch hch1 rfl hstep.repl hids
  have hh1 : HoldsChildren s1.heap (insM1 m A.length child') :=
    ins_holdsChildren_after_child hch hch1 hids.1 ids1.1 hh hpost
  -- the generated code up to the tail
  have hk : A.length < m.childHdrs.length := by rw [hs.hdrs_eq, hch]; simp
  have hgroute : (i = m.hdr.count ∧ ∃ h, m.childHdrs.getLast? = some h ∧ A.length = m.childHdrs.length - 1 ∧
        adj = h.count) ∨
      (i ≠ m.hdr.count ∧
        Trans.ArrayMetaDataSlab_childSlabIndexInfo (u32 m.hdr.count) (u32s m.countSum) (u32s (countsOf m.childHdrs))
          (u64 i) = some (Int.ofNat A.length, u64 adj)) := by
    rcases hroute' with h | ⟨h0, h1⟩
    · exact Or.inl h
    · obtain ⟨k', adj', hres', htr⟩ := safe_childSlabIndexInfo m hs.book hs.count_eq
        (fun t ht => (hs.kids_inv t ht).count_pos hT) (by omega) i (by omega)
      rw [h1] at hres'
      simp only [Except.ok.injEq, Prod.mk.injEq] at hres'
      obtain ⟨rfl, rfl⟩ := hres'
      exact Or.inr ⟨h0, htr⟩
  have hentry := insert_entry_eq T d depth m i A.length adj child s addr v (by omega) hi hs.hdrs_eq hget
    (by omega) hgroute
  have hcmax := hc.le_max
  have hszc' : (hdr d child').size < 2^32 := by
    have := F.hi; have := F.maxE; have := F.inlE; omega
  have hk1 := insert_k1_eq T d depth m A.length adj child child' s s1 addr v hk hhc.root hgen hszc' ht.2.2.1
  rw [hentry, hk1]
  have hi' : ¬ i > m.hdr.count := by omega
  by_cases hfull : ATree.isFull T d child' = true
  · have hlo := (isFull_iff T d child').1 hfull
    obtain ⟨m2, c2, hsp, hc2, _, _⟩ := tail_split hT _ A B child' A.length c1 hbook1 b2 rfl
      hA hB hstep.shape hlo (by omega)
    have htail : InsSplitTail T d := by
      rcases htlc2 with h | h
      · exact h d (by omega)
      · rw [hfull] at h; cases h
    have hpre : InsTailPre T d (insM1 m A.length child') child' A.length s1 addr :=
      ⟨⟨A, B, hch1, rfl, hA, hB⟩, hbook1,
        by show m.hdr.count + 1 = sumCounts (m.childHdrs.set A.length (hdr d child')); rw [b1]; exact hcount1,
        by show m.hdr.count + 1 < 2^32; exact hcnt, hh1, by rw [hctx]; exact ids1, hstep.shape, hlo, by omega⟩
    obtain ⟨s2, out, hg2, hctx2, hpost2, hsub⟩ := htail _ child' A.length s1 addr m2 c2 hpre
      (by rw [hctx]; exact hsp)
    refine ⟨m2, c2, s2, ?_, ?_, hctx2, ins_heapPost_parent hch hch1 rfl hpost hpost2 hsub⟩
    · exact insert_succ_ok m m2 i A.length adj v s.ctx c1 c2 child child' hi' hroute' hget hins0
        (by rw [if_pos hfull]; exact hsp)
    · rw [if_pos hfull, hg2]
  · refine ⟨insM1 m A.length child', c1.emit (.store m.hdr.id),
      s1.store m.hdr.id (some (.metaSlab (trMeta (insM1 m A.length child')))), ?_, ?_, ?_, ?_⟩
    · exact insert_succ_ok m _ i A.length adj v s.ctx c1 _ child child' hi' hroute' hget hins0
        (by rw [if_neg hfull])
    · rw [if_neg hfull]
    · simp [hctx]
    · exact ins_heapPost_parent hch hch1 rfl hpost (ins_heapPost_store_root s1 ids1.1 hh1) (fun _ h => h)

theorem insertDisp_succ (T d : Nat) (ih : InsertMeta T d) : InsertDisp T (d + 1) := by
  intro t top i v s depth addr hd hinv _ hv hids hh hcnt hi htl
  obtain ⟨depth, rfl⟩ : ∃ n, depth = n + 1 := ⟨depth - 1, by omega⟩
  obtain ⟨m2, c', s', h1, h2, h3, h4⟩ := ih t top i v s depth addr (by omega) hinv hv hids hh.2 hcnt hi htl
  refine ⟨ofMeta m2, c', s', h1, ?_, h3, h4⟩
  show TransSl.ArraySlab_Insert (envH T) _ (.metaSlab (trMeta t)) s addr (u64 i) (some v) = _
  simp only [TransSl.ArraySlab_Insert, h2]
  rfl

theorem insertDisp_all (T : Nat) (hT : legalThreshold T = true) : ∀ d, InsertDisp T d
  | 0 => insertDisp_zero T hT
  | d + 1 => insertDisp_succ T d (insertMeta_of_disp T d hT (insertDisp_all T hT d))

end descent

/-! ## 6. the final theorems -/

section final
open MetaSlab ATree

/-- an index past the end: `IndexOutOfBoundsError`, nothing is touched (the check is made by the slab the call enters) -/
theorem Sl_ArraySlab_Insert_heap_oob (T : Nat) (d : Nat) (top : Bool) (t : ATree d) (i : Nat) (v : Elem) (s : HSt)
    (depth addr : Nat) (hd : d ≤ depth) (hinv : TreeInv T d top t) (hni : NotInl d t)
    (hids : IdsOk addr s.ctx.ctr (slabIds d t)) (hcnt : (hdr d t).count < 2^32) (hi : i < 2^64)
    (hgt : (flatten d t).length < i) :
    TransSl.ArraySlab_Insert (envH T) (TransSl.ArrayMetaDataSlab_Insert (envH T) depth) (trTree d t) s addr (u64 i)
      (some v) = some (some .indexOutOfBounds, trTree d t, s) := by
  have hlen := Shape.count_eq_length (hinv.shape hni)
  cases d with
  | zero =>
    revert hinv hni hids hcnt hgt hlen
    refine forall_ofData ?_ t
    intro t _ _ hids hcnt hgt hlen
    simp only [hdr_zero, flatten_zero] at hcnt hgt hlen
    have haddr : t.hdr.id.addr = addr := (hids.2 t.hdr.id (by simp)).1
    show TransSl.ArraySlab_Insert (envH T) _ (.dataSlab (trData t)) s addr (u64 i) (some v) = _
    have hlt : t.elems.length < 2^64 := by omega
    simp only [TransSl.ArraySlab_Insert, TransSl.ArrayDataSlab_Insert, trData_elements, List.length_map, u64_len,
      u64_dgt hi hlt, hgt, decide_true, if_true, envH_ioob]
    rfl
  | succ d =>
    obtain ⟨depth, rfl⟩ : ∃ n, depth = n + 1 := ⟨depth - 1, by omega⟩
    revert hinv hni hids hcnt hgt hlen
    refine forall_ofMeta ?_ t
    intro m _ _ _ hcnt hgt hlen
    simp only [hdr_succ] at hcnt hlen
    rw [← hlen] at hgt
    show TransSl.ArraySlab_Insert (envH T) _ (.metaSlab (trMeta m)) s addr (u64 i) (some v) = _
    have hlt : m.hdr.count < 2^64 := by omega
    simp only [TransSl.ArraySlab_Insert, TransSl.ArrayMetaDataSlab_Insert, trMeta_header, trHdr_count,
      u32_toUInt64 hcnt, u64_dgt hi hlt, hgt, decide_true, if_true, envH_ioob]
    rfl

/-- **`ArraySlab.Insert` over a heap** (dynamic dispatch; an index slab descends through the storage, updates its
    bookkeeping and stores itself, or splits the child that became full).  On a heap that holds a valid tree, with a
    depth argument that covers the tree: the generated code returns the translation of the model's `ATree.insert`
    result, the `Ctx` component of the storage is the model's, and the heap holds the new tree, with everything outside
    the old and the new tree untouched; past the end it reports `IndexOutOfBoundsError` and touches nothing.
    `htl`: the tail (`SplitChildSlab` over a heap) is a hypothesis, or no child on the path becomes full. -/
theorem Sl_ArraySlab_Insert_heap (T : Nat) (hT : legalThreshold T = true) (d : Nat) (top : Bool) (t : ATree d)
    (i : Nat) (v : Elem) (s : HSt) (depth addr : Nat) (hd : d ≤ depth) (hinv : TreeInv T d top t) (hni : NotInl d t)
    (hv : ValueOk v) (hids : IdsOk addr s.ctx.ctr (slabIds d t)) (hh : Holds s.heap d t)
    (hcnt : (hdr d t).count + 1 < 2^32) (hi : i < 2^64) (htl : InsTailHyp T d t i v s.ctx) :
    match ATree.insert T d t i v s.ctx with
    | .ok (t', c') => ∃ s',
        TransSl.ArraySlab_Insert (envH T) (TransSl.ArrayMetaDataSlab_Insert (envH T) depth) (trTree d t) s addr
          (u64 i) (some v) = some (none, trTree d t', s') ∧
        s'.ctx = c' ∧ HeapPost s.heap s'.heap t t'
    | .error .indexOutOfBounds =>
        TransSl.ArraySlab_Insert (envH T) (TransSl.ArrayMetaDataSlab_Insert (envH T) depth) (trTree d t) s addr
          (u64 i) (some v) = some (some .indexOutOfBounds, trTree d t, s)
    | .error _ => True := by
  by_cases hle : i ≤ (flatten d t).length
  · obtain ⟨t', c', s', h1, h2, h3, h4⟩ :=
      insertDisp_all T hT d t top i v s depth addr hd hinv hni hv hids hh hcnt hle htl
    rw [h1]
    exact ⟨s', h2, h3, h4⟩
  · rw [insert_err_gen d t top i v s.ctx (hinv.shape hni) (by omega)]
    exact Sl_ArraySlab_Insert_heap_oob T d top t i v s depth addr hd hinv hni hids (by omega) hi (by omega)

/-- **`ArrayMetaDataSlab.Insert` over a heap**: the receiver is the translation of a model index slab (passed by
    value), its children are held by the heap; depth argument `depth + 1` for children of depth `d ≤ depth`; in-range
    index (`i ≤ count`). -/
theorem Sl_ArrayMetaDataSlab_Insert_heap (T : Nat) (hT : legalThreshold T = true) (d : Nat) (top : Bool)
    (m : MetaSlab (ATree d)) (i : Nat) (v : Elem) (s : HSt) (depth addr : Nat) (hd : d ≤ depth)
    (hinv : TreeInv T (d + 1) top (ofMeta m)) (hv : ValueOk v)
    (hids : IdsOk addr s.ctx.ctr (slabIds (d + 1) (ofMeta m))) (hh : HoldsChildren s.heap m)
    (hcnt : m.hdr.count + 1 < 2^32) (hi : i ≤ m.hdr.count) (htl : InsTailHyp T (d + 1) (ofMeta m) i v s.ctx) :
    ∃ m2 c' s', ATree.insert T (d + 1) (ofMeta m) i v s.ctx = .ok (ofMeta m2, c') ∧
      TransSl.ArrayMetaDataSlab_Insert (envH T) (depth + 1) (trMeta m) s addr (u64 i) (some v) =
        some (none, trMeta m2, s') ∧
      s'.ctx = c' ∧ HeapPost s.heap s'.heap (ofMeta m) (ofMeta m2) := by
  have hlen := Shape.count_eq_length (hinv.shape trivial)
  exact insertMeta_of_disp T d hT (insertDisp_all T hT d) m top i v s depth addr hd hinv hv hids hh hcnt
    (by rw [← hlen]; exact hi) htl

/-- the unconditional corollary: no child on the path becomes full (`InsNoSplit`), no hypothesis about the tail -/
theorem Sl_ArraySlab_Insert_heap_noSplit (T : Nat) (hT : legalThreshold T = true) (d : Nat) (top : Bool) (t : ATree d)
    (i : Nat) (v : Elem) (s : HSt) (depth addr : Nat) (hd : d ≤ depth) (hinv : TreeInv T d top t) (hni : NotInl d t)
    (hv : ValueOk v) (hids : IdsOk addr s.ctx.ctr (slabIds d t)) (hh : Holds s.heap d t)
    (hcnt : (hdr d t).count + 1 < 2^32) (hi : i ≤ (flatten d t).length) (hns : InsNoSplit T d t i v s.ctx) :
    ∃ t' c' s', ATree.insert T d t i v s.ctx = .ok (t', c') ∧
      TransSl.ArraySlab_Insert (envH T) (TransSl.ArrayMetaDataSlab_Insert (envH T) depth) (trTree d t) s addr
        (u64 i) (some v) = some (none, trTree d t', s') ∧
      s'.ctx = c' ∧ HeapPost s.heap s'.heap t t' :=
  insertDisp_all T hT d t top i v s depth addr hd hinv hni hv hids hh hcnt hi (Or.inr hns)

/-- a root data slab: unconditional -/
theorem Sl_ArraySlab_Insert_heap_data (T : Nat) (hT : legalThreshold T = true) (top : Bool) (t : DataSlab)
    (i : Nat) (v : Elem) (s : HSt) (depth addr : Nat) (hinv : DataInv T top t) (hni : t.inlined = false)
    (hv : ValueOk v) (hids : IdsOk addr s.ctx.ctr [t.hdr.id]) (hh : s.heap t.hdr.id = some (.dataSlab (trData t)))
    (hcnt : t.hdr.count + 1 < 2^32) (hi : i ≤ t.elems.length) :
    ∃ t' c' s', t.insert T i v s.ctx = .ok (t', c') ∧
      TransSl.ArraySlab_Insert (envH T) (TransSl.ArrayMetaDataSlab_Insert (envH T) depth) (.dataSlab (trData t)) s
        addr (u64 i) (some v) = some (none, .dataSlab (trData t'), s') ∧
      s'.ctx = c' ∧ HeapPost s.heap s'.heap (ofData t) (ofData t') :=
  insertDisp_all T hT 0 (ofData t) top i v s depth addr (Nat.zero_le _) ((treeInv_zero T top t).2 hinv) hni hv hids hh
    hcnt hi (Or.inr trivial)

/-- the depth argument is exhausted (the tree is deeper): the generated code leaves the modelled fragment -/
theorem Sl_ArrayMetaDataSlab_Insert_depth0 (T : Nat) (a : GMeta) (s : HSt) (addr : Nat) (i : UInt64) (v : Option Elem) :
    TransSl.ArrayMetaDataSlab_Insert (envH T) 0 a s addr i v = none := rfl

end final

/-! ## 7. a concrete sufficient condition for "no split", and non-vacuity -/

section room
open MetaSlab ATree

/-- every slab strictly below the root has room for one more element (resp. one more child header) -/
def InsRoom (T : Nat) : (d : Nat) → ATree d → Prop
  | 0, _ => True
  | d + 1, (m : MetaSlab (ATree d)) =>
    ∀ c ∈ m.children, (hdr d c).size + maxInlineArr T ≤ maxThr T ∧ InsRoom T d c

theorem InsNoSplit.of_room {T : Nat} (hT : legalThreshold T = true) : ∀ (d : Nat) (t : ATree d) (top : Bool) (i : Nat)
    (v : Elem) (c : Ctx), TreeInv T d top t → ValueOk v → InsRoom T d t → InsNoSplit T d t i v c
  | 0, _, _, _, _, _, _, _, _ => trivial
  | d + 1, t, top, i, v, c, hinv, hv, hroom => by
    revert hinv hroom
    refine forall_ofMeta ?_ t
    intro m hinv hroom
    obtain ⟨hs, _, _, _⟩ := (treeInv_succ T d top m).1 hinv
    intro k adj child child' c1 hget _ hins
    have hcmem : child ∈ m.children := List.mem_of_getElem? hget
    have hc : TreeInv T d false child := hs.kids_inv child hcmem
    obtain ⟨hr1, hr2⟩ := hroom child hcmem
    have hadj : adj ≤ (flatten d child).length := by
      rcases Nat.lt_or_ge (flatten d child).length adj with h | h
      · rw [insert_err_gen d child false adj v c hc.shape_false h] at hins; cases hins
      · exact h
    obtain ⟨child'', c1', hins', _, _, _, _, hsz2⟩ :=
      insert_gen hT d child false adj v c hc hc.notInl_of_false hv hadj
    rw [hins] at hins'
    simp only [Except.ok.injEq, Prod.mk.injEq] at hins'
    obtain ⟨rfl, rfl⟩ := hins'
    refine ⟨InsNoSplit.of_room hT d child false adj v c hc hv hr2, ?_⟩
    cases hf : ATree.isFull T d child' with
    | false => rfl
    | true =>
      have := (isFull_iff T d child').1 hf
      omega

/-- **unconditional**: every slab below the root has room for one more element - no hypothesis about the tail -/
theorem Sl_ArraySlab_Insert_heap_room (T : Nat) (hT : legalThreshold T = true) (d : Nat) (top : Bool) (t : ATree d)
    (i : Nat) (v : Elem) (s : HSt) (depth addr : Nat) (hd : d ≤ depth) (hinv : TreeInv T d top t) (hni : NotInl d t)
    (hv : ValueOk v) (hids : IdsOk addr s.ctx.ctr (slabIds d t)) (hh : Holds s.heap d t)
    (hcnt : (hdr d t).count + 1 < 2^32) (hi : i ≤ (flatten d t).length) (hroom : InsRoom T d t) :
    ∃ t' c' s', ATree.insert T d t i v s.ctx = .ok (t', c') ∧
      TransSl.ArraySlab_Insert (envH T) (TransSl.ArrayMetaDataSlab_Insert (envH T) depth) (trTree d t) s addr
        (u64 i) (some v) = some (none, trTree d t', s') ∧
      s'.ctx = c' ∧ HeapPost s.heap s'.heap t t' :=
  Sl_ArraySlab_Insert_heap_noSplit T hT d top t i v s depth addr hd hinv hni hv hids hh hcnt hi
    (InsNoSplit.of_room hT d t top i v s.ctx hinv hv hroom)

end room

/-- non-vacuity: the index slab `exMeta` (Props/TransSafe.lean: two leaves of four 50-byte elements, T = 256) over a
    heap that holds its leaves; inserting a 50-byte element at index 5 is routed to the second leaf (adjusted index
    1), the leaf grows to 271 bytes / 5 elements and is stored, the parent's count, cumulative counts and header copy
    are updated and the parent is stored -/
def exInsHeap : HSt :=
  ⟨fun id => if id = ⟨1, 2⟩ then some (.dataSlab (trData (exSlab 2)))
     else if id = ⟨1, 3⟩ then some (.dataSlab (trData (exSlab 3))) else none, ⟨3, [], []⟩⟩

example : (TransSl.ArrayMetaDataSlab_Insert (envH 256) 1 (trMeta exMeta) exInsHeap 1 (u64 5)
      (some ⟨50, .val 9⟩)).map
      (fun r => (r.1, r.2.1.header.count, r.2.1.childrenCountSum, r.2.1.childrenHeaders.map (·.size), r.2.2.ctx.eff,
        (r.2.2.heap ⟨1, 3⟩).map (fun x => ((TransSl.ArraySlab_Header (envH 256) x).size,
          (TransSl.ArraySlab_Header (envH 256) x).count)))) =
    some (none, 9, [4, 9], [221, 271], [.store ⟨1, 3⟩, .store ⟨1, 1⟩], some (271, 5)) := by
  rfl

/-- appending (`index == count`): routed to the last child with its count as adjusted index -/
example : (TransSl.ArrayMetaDataSlab_Insert (envH 256) 1 (trMeta exMeta) exInsHeap 1 (u64 8)
      (some ⟨50, .val 9⟩)).map (fun r => (r.1, r.2.1.header.count, r.2.1.childrenCountSum, r.2.2.ctx.eff)) =
    some (none, 9, [4, 9], [.store ⟨1, 3⟩, .store ⟨1, 1⟩]) := by
  rfl

/-- past the end: `IndexOutOfBoundsError`, no effect -/
example : (TransSl.ArrayMetaDataSlab_Insert (envH 256) 1 (trMeta exMeta) exInsHeap 1 (u64 9)
      (some ⟨50, .val 9⟩)).map (fun r => (r.1, r.2.1.header.count, r.2.2.ctx.eff)) =
    some (some .indexOutOfBounds, 8, []) := by
  rfl

theorem exIns_kids (c : ATree 0) (hc : c ∈ exMeta.children) : c = exSlab 2 ∨ c = exSlab 3 := by
  have h : exMeta.children = [exSlab 2, exSlab 3] := rfl
  rw [h] at hc
  rcases List.mem_cons.mp hc with h | h
  · exact Or.inl h
  · exact Or.inr (List.mem_singleton.mp h)

theorem exIns_inv : TreeInv 256 1 true (ofMeta exMeta) := by
  refine ⟨rfl, rfl, rfl, rfl, rfl, ?_, ?_, by decide, by simp, fun _ => by decide⟩
  · intro c hc
    rcases exIns_kids c hc with rfl | rfl <;> exact exSlab_inv _
  · intro c hc
    rcases exIns_kids c hc with rfl | rfl <;> rfl

/-- the hypotheses of `Sl_ArrayMetaDataSlab_Insert_heap` are satisfiable, with no tail hypothesis (the leaves have
    room: `InsNoSplit.of_room`) -/
example : ∃ m2 c' s', ATree.insert 256 1 (ofMeta exMeta) 5 ⟨50, .val 9⟩ exInsHeap.ctx = .ok (ofMeta m2, c') ∧
    TransSl.ArrayMetaDataSlab_Insert (envH 256) 1 (trMeta exMeta) exInsHeap 1 (u64 5) (some ⟨50, .val 9⟩) =
      some (none, trMeta m2, s') ∧
    s'.ctx = c' ∧ HeapPost exInsHeap.heap s'.heap (ofMeta exMeta) (ofMeta m2) :=
  Sl_ArrayMetaDataSlab_Insert_heap 256 (by decide) 0 true exMeta 5 ⟨50, .val 9⟩ exInsHeap 0 1 (Nat.le_refl _) exIns_inv
    ⟨by decide, 9, rfl⟩
    (by refine ⟨by decide, ?_⟩
        intro id hid
        have h : ATree.slabIds 1 (ofMeta exMeta) = [⟨1, 1⟩, ⟨1, 2⟩, ⟨1, 3⟩] := rfl
        rw [h] at hid
        simp only [List.mem_cons, List.not_mem_nil, or_false] at hid
        rcases hid with rfl | rfl | rfl <;> decide)
    (by intro c hc
        rcases exIns_kids c hc with rfl | rfl <;> rfl)
    (by decide) (by decide)
    (Or.inr (InsNoSplit.of_room (by decide) 1 (ofMeta exMeta) true 5 _ _ exIns_inv ⟨by decide, 9, rfl⟩
      (by intro c hc
          rcases exIns_kids c hc with rfl | rfl <;> exact ⟨by decide, trivial⟩)))

end Atree.TransEq
