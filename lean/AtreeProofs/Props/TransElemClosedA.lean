import AtreeProofs.Props.TransElemClosedBase
import AtreeProofs.Props.TransElemDispatch
/-
  WP13, part 3: the step "unit B under an environment with `EnvBOn` gives a unit-A environment (`mcl_envA`: the element
  methods are the GENERATED dispatchers) with `EnvAOn`" — `mcl_envA_on`, with the guards `mcl_Pg / mcl_Ps / mcl_Pr` on
  elements derived from the guards on the nested groups.  Core Lean only.
-/
namespace Atree.TransEq
open Atree

/-- a (result) element whose `uint` fields are in range, so that its translation can be decoded -/
def mcl_ElFit {α : Type} : MElemF α → Prop
  | .single x => x.size < 2^32
  | .inl _ => True
  | .ext _ sz s => sz < 2^32 ∧ s.hdr.size < 2^32 ∧ s.hdr.firstKey < 2^64

section stepA
variable {α X : Type} (o : ElemsOps α) (cfg : MCfg) (k : MKey) (v : Elem) (G : mcl_GOps α) (retr : mcl_Retr α X)
variable {Qg Qs Qr : α → Nat → Ctx → Prop} {Qn : Nat → SElem → Prop}

/-- guard of `element.Get`: the nested group satisfies the nested guard one level deeper; the storage returns the slab
    the model embeds in an external group -/
structure mcl_Pg (Qg : α → Nat → Ctx → Prop) (el : MElemF α) (lvl : Nat) (c : Ctx) : Prop where
  hl : lvl + 1 < 2^64
  nested : ∀ g, mei_nested el = some g → Qg g (lvl + 1) c
  ret : ∀ id sz s, el = .ext id sz s → retr c id = (.dataSlab (mei_cGroupSlab s), true, none, c)

/-- guard of `element.Remove` -/
structure mcl_Pr (Qr : α → Nat → Ctx → Prop) (el : MElemF α) (lvl : Nat) (c : Ctx) : Prop where
  hl : lvl + 1 < 2^64
  nested : ∀ g, mei_nested el = some g → Qr g (lvl + 1) c
  ret : ∀ id sz s, el = .ext id sz s → retr c id = (.dataSlab (mei_cGroupSlab s), true, none, c)
  cnt : ∀ g, mei_nested el = some g → ∀ rk rv g' c', o.remove cfg g (lvl + 1) k c = .ok (rk, rv, g', c') → o.count g' < 2^32
  res : ∀ rk rv el' c', el.remove o cfg lvl k c = .ok (rk, rv, some el', c') → mcl_ElFit el'

/-- guard of `element.Set` -/
structure mcl_Ps (Qs : α → Nat → Ctx → Prop) (Qn : Nat → SElem → Prop) (el : MElemF α) (lvl : Nat) (c : Ctx) : Prop where
  hl : lvl + 1 < 2^64
  nested : ∀ g, (mei_nested el = some g ∨ ∃ x, el = .single x ∧ o.newWith cfg (lvl + 1) x = .ok g) → Qs g (lvl + 1) c
  new : ∀ x, el = .single x → Qn (lvl + 1) x
  ret : ∀ id sz s, el = .ext id sz s → s.hdr.id.addr = cfg.addr ∧ retr c id = (.dataSlab (mei_cGroupSlab s), true, none, c)
  sz : ∀ g, (mei_nested el = some g ∨ ∃ x, el = .single x ∧ o.newWith cfg (lvl + 1) x = .ok g) →
      ∀ ks old g' c', o.set cfg g (lvl + 1) k v c = .ok (ks, old, g', c') → o.size g' + 2 < 2^32
  single : ∀ x, el = .single x → x.key.size < 2^32 ∧ x.size < 2^32 ∧
      (x.key.same k = false → ∃ g, o.newWith cfg (lvl + 1) x = .ok g)
  res : ∀ el' ks old c', el.set o cfg lvl k v c = .ok (el', ks, old, c') → mcl_ElFit el'

variable (hB : EnvBOn o cfg k v (mcl_envBG cfg G retr) Qg Qs Qr Qn)
include hB

theorem mcl_envA_size (el : MElemF α) :
    (mcl_envA cfg (mcl_envBG cfg G retr) k).element_Size el = u32 (el.size o) := by
  cases el with
  | single x => rfl
  | inl g =>
    show (UInt32.ofNat Gen.inlineCollisionGroupPrefixSize + (mcl_envBG cfg G retr).elements_Size g) = _
    rw [hB.gSize]; exact msl_u32_add' _ _
  | ext id sz s => rfl

theorem mcl_envA_count (el : MElemF α) (c : Ctx) :
    (mcl_envA cfg (mcl_envBG cfg G retr) k).element_Count el c = (u32 (el.count o), none, c) := by
  cases el with
  | single x => rfl
  | inl g =>
    show ((mcl_envBG cfg G retr).elements_Count g, none, c) = _
    rw [hB.gCount]; rfl
  | ext id sz s =>
    show ((mcl_envBG cfg G retr).elements_Count s.elems, none, c) = _
    rw [hB.gCount]; rfl

theorem mcl_envA_get (el : MElemF α) (c : Ctx) (lvl : Nat) (hk : UInt64) (hL : cfg.L < 2^64) (hP : mcl_Pg retr Qg el lvl c) :
    (mcl_envA cfg (mcl_envBG cfg G retr) k).element_Get el c (u64 lvl) hk (.key k) = mel_rGet c (el.get o cfg lvl k) := by
  show (match Gen.TransElem.element_Get (mcl_envBG cfg G retr) (mei_cEl el) c k (u64 lvl) hk (.key k) with
    | some r => r
    | none => (none, none, some .goPanic, c)) = _
  rw [element_Get_eq_model_on o cfg k v _ hB el c lvl hk hP.hl hL hP.ret (mcl_envBG_hget cfg G retr) hP.nested]
  show mei_rGet c (el.get o cfg lvl k) = mel_rGet c (el.get o cfg lvl k)
  cases el.get o cfg lvl k with
  | error e => rfl
  | ok r => rfl

/-- the slab of an external group after the generated `MapDataSlab_Remove` = the model's `groupSlabUpdate` -/
theorem mcl_slabAfterRemove_eq (s : GroupSlab α) (c : Ctx) (lvl : Nat) (hl : lvl + 1 < 2^64) (hQ : Qr s.elems (lvl + 1) c)
    (rk : MKey) (rv : Elem) (g' : α) (c' : Ctx) (hr : o.remove cfg s.elems (lvl + 1) k c = .ok (rk, rv, g', c'))
    (h1 : (MElemF.groupSlabUpdate o s g' c').1.hdr.size < 2^32) (h2 : (MElemF.groupSlabUpdate o s g' c').1.hdr.firstKey < 2^64) :
    mcl_slabAfterRemove (mcl_envBG cfg G retr) k s c (u64 lvl) (.key k) = (MElemF.groupSlabUpdate o s g' c').1 := by
  unfold mcl_slabAfterRemove
  rw [mei_u64_succ, hB.dig k (lvl + 1) hl, MapDataSlab_Remove_groupSlab_on o cfg k v _ hB s c (lvl + 1) hl hQ, hr]
  exact mcl_dGroupSlab_c _ h1 h2

theorem mcl_envA_remove (el : MElemF α) (c : Ctx) (lvl : Nat) (hk : UInt64) (hL : cfg.L < 2^64) (hP : mcl_Pr o cfg k retr Qr el lvl c) :
    (mcl_envA cfg (mcl_envBG cfg G retr) k).element_Remove el c (u64 lvl) hk (.key k) =
      mel_rERemove c (el.remove o cfg lvl k c) := by
  have hgen := element_Remove_eq_model_on o cfg k v _ hB el c lvl hk hP.hl hL hP.cnt hP.ret hP.nested
  show (match Gen.TransElem.element_Remove (mcl_envBG cfg G retr) (mei_cEl el) c k (u64 lvl) hk (.key k) with
    | some r => (r.1, r.2.1, mcl_dElR (mcl_envBG cfg G retr) k el c (u64 lvl) (.key k) r.2.2.1, r.2.2.2.1, r.2.2.2.2.2)
    | none => (none, none, none, some .goPanic, c)) = _
  rcases hrun : Gen.TransElem.element_Remove (mcl_envBG cfg G retr) (mei_cEl el) c k (u64 lvl) hk (.key k) with _ | r
  · rw [hrun] at hgen; exact absurd hgen (by simp)
  · rw [hrun, Option.map_some, Option.some.injEq] at hgen
    show (r.1, r.2.1, mcl_dElR (mcl_envBG cfg G retr) k el c (u64 lvl) (.key k) r.2.2.1, r.2.2.2.1, r.2.2.2.2.2) = _
    have e1 : r.1 = (mei_rERemove c (el.remove o cfg lvl k c)).1 := by rw [← hgen]
    have e2 : r.2.1 = (mei_rERemove c (el.remove o cfg lvl k c)).2.1 := by rw [← hgen]
    have e3 : r.2.2.1 = (mei_rERemove c (el.remove o cfg lvl k c)).2.2.1 := by rw [← hgen]
    have e4 : r.2.2.2.1 = (mei_rERemove c (el.remove o cfg lvl k c)).2.2.2.1 := by rw [← hgen]
    have e5 : r.2.2.2.2.2 = (mei_rERemove c (el.remove o cfg lvl k c)).2.2.2.2 := by rw [← hgen]
    rw [e1, e2, e3, e4, e5]
    have hres := hP.res
    rcases hm : el.remove o cfg lvl k c with err | ⟨rk, rv, el', c'⟩
    · rfl
    · rcases el' with _ | el'
      · rfl
      · have hfit := hres rk rv el' c' hm
        cases el' with
        | single x =>
          simp only [mei_rERemove, mei_cOptEl, mei_cEl, mcl_dElR, mel_rERemove, mei_il_inv_cE x hfit]
        | inl g => rfl
        | ext id' sz' s' =>
          obtain ⟨hf1, hf2, hf3⟩ := hfit
          cases el with
          | single x =>
            simp only [MElemF.remove] at hm
            split at hm <;> simp at hm
          | inl g =>
            simp only [MElemF.remove, bind, Except.bind, pure, Except.pure, throw, throwThe, MonadExceptOf.throw] at hm
            split at hm
            · simp at hm
            · rcases hr : o.remove cfg g (lvl + 1) k c with e | ⟨a, b, g2, c2⟩
              · rw [hr] at hm; simp at hm
              · rw [hr] at hm
                simp only at hm
                cases hso : o.soleSingle g2 <;> rw [hso] at hm <;> simp at hm
          | ext id sz s =>
            simp only [MElemF.remove, bind, Except.bind, pure, Except.pure, throw, throwThe, MonadExceptOf.throw] at hm
            split at hm
            · simp at hm
            · rcases hr : o.remove cfg s.elems (lvl + 1) k c with e | ⟨a, b, g2, c2⟩
              · rw [hr] at hm; simp at hm
              · rw [hr] at hm
                simp only at hm
                cases hso : o.soleSingle g2 with
                | some x => rw [hso] at hm; simp at hm
                | none =>
                  rw [hso] at hm
                  simp only [Except.ok.injEq, Prod.mk.injEq, Option.some.injEq, MElemF.ext.injEq] at hm
                  obtain ⟨_, _, ⟨hid, hsz', hs'⟩, _⟩ := hm
                  subst hid hsz'
                  have hslab := mcl_slabAfterRemove_eq o cfg k v G retr hB s c lvl hP.hl (hP.nested s.elems rfl)
                    a b g2 c2 hr (by rw [hs']; exact hf2) (by rw [hs']; exact hf3)
                  simp only [mei_rERemove, mei_cOptEl, mei_cEl, mcl_dElR, mel_rERemove, hslab, hs', u32_toNat hf1]

end stepA
end Atree.TransEq

namespace Atree.TransEq
open Atree

section assemble
variable {α X : Type} (o : ElemsOps α) (cfg : MCfg) (k : MKey) (v : Elem) (G : mcl_GOps α) (retr : mcl_Retr α X)
variable {Qg Qs Qr : α → Nat → Ctx → Prop} {Qn : Nat → SElem → Prop}

/-- the closed unit-A environment satisfies `EnvAOn` (the `Set` equation is a parameter: `mcl_envA_set`) -/
theorem mcl_envA_on (hB : EnvBOn o cfg k v (mcl_envBG cfg G retr) Qg Qs Qr Qn) (hL : cfg.L < 2^64)
    {Ps : MElemF α → Nat → Ctx → Prop}
    (hset : ∀ el c lvl hk, lvl < 2^64 → Ps el lvl c →
      (mcl_envA cfg (mcl_envBG cfg G retr) k).element_Set el c cfg.addr (u64 lvl) hk (.key k) (.val v) =
        mel_rESet c (el.set o cfg lvl k v c)) :
    EnvAOn o cfg k v (mcl_envA cfg (mcl_envBG cfg G retr) k) (mcl_Pg retr Qg) Ps (mcl_Pr o cfg k retr Qr) where
  levels := rfl
  climit := rfl
  size := mcl_envA_size o cfg k v G retr hB
  count := mcl_envA_count o cfg k v G retr hB
  get := fun el c lvl hk _ hP => mcl_envA_get o cfg k v G retr hB el c lvl hk hL hP
  set := hset
  remove := fun el c lvl hk _ hP => mcl_envA_remove o cfg k v G retr hB el c lvl hk hL hP
  newElem := fun _ => rfl
  inj := fun x hx => by
    show MElemF.single (mcl_dEA (mel_cE x)) = _
    rw [mcl_dEA_cE x hx]
  asKNF := fun _ => rfl
  eHashLevel := rfl
  eKeyNotFound := rfl
  eCollisionLimit := rfl
  eElementCount := rfl

end assemble
end Atree.TransEq
