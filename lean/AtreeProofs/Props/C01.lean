import AtreeProofs.ArrayInv
import AtreeProofs.ArrayLemmas
/-
  C01 — Array behaves as a plain sequence under every operation history.
  PROPERTY THEOREMS: refinement of `Arr` operations to `List` operations, for an arbitrary legal
  threshold, arbitrary values (any size ≥ 1), arbitrary positions; plus totality on in-range
  requests and root-ID stability.
-/
namespace Atree.C01
open Atree Gen

/-- What a value becomes when stored: itself if it fits, a 19-byte reference otherwise. -/
def storedForm (T : Nat) (a : Arr) (v : Elem) (c : Ctx) : Elem := (toStorable T a.addr v c).1

theorem get_refines (T : Nat) (hT : legalThreshold T = true) (a : Arr) (ctr : Nat) (h : ArrInv T a ctr) (i : Nat) :
    (i < a.toList.length → a.get i = .ok (a.toList.getD i default)) ∧
    (a.toList.length ≤ i → a.get i = .error .indexOutOfBounds) := by
  obtain ⟨d, t, ty⟩ := a
  exact get_gen hT d t true i h.shape

theorem insert_refines (T : Nat) (hT : legalThreshold T = true) (a : Arr) (c : Ctx) (i : Nat) (v : Elem)
    (hv : ValueOk v) (h : ArrInv T a c.ctr) (hcount : a.count < maxArrayElementCount) :
    (i ≤ a.toList.length →
      ∃ a' c', a.insert T i v c = .ok (a', c') ∧
        a'.toList = a.toList.insertIdx i (storedForm T a v c) ∧
        a'.rootID = a.rootID ∧ a'.ty = a.ty) ∧
    (a.toList.length < i → a.insert T i v c = .error .indexOutOfBounds) := by
  constructor
  · intro hi
    obtain ⟨a2, c2, heq, _, hl, hid, hty⟩ := arr_insert_ok hT a c i v hv h hcount hi
    exact ⟨a2, c2, heq, hl, hid, hty⟩
  · intro hi
    exact arr_insert_err a c i v h (by omega) hi

theorem set_refines (T : Nat) (hT : legalThreshold T = true) (a : Arr) (c : Ctx) (i : Nat) (v : Elem)
    (hv : ValueOk v) (h : ArrInv T a c.ctr) :
    (i < a.toList.length →
      ∃ a' c', a.set T i v c = .ok (a.toList.getD i default, a', c') ∧
        a'.toList = a.toList.set i (storedForm T a v c) ∧
        a'.rootID = a.rootID ∧ a'.ty = a.ty) ∧
    (a.toList.length ≤ i → a.set T i v c = .error .indexOutOfBounds) := by
  constructor
  · intro hi
    obtain ⟨a2, c2, heq, _, hl, hid, hty⟩ := arr_set_ok hT a c i v hv h hi
    exact ⟨a2, c2, heq, hl, hid, hty⟩
  · intro hi
    exact arr_set_err a c i v h hi

theorem remove_refines (T : Nat) (hT : legalThreshold T = true) (a : Arr) (c : Ctx) (i : Nat)
    (h : ArrInv T a c.ctr) :
    (i < a.toList.length →
      ∃ a' c', a.remove T i c = .ok (a.toList.getD i default, a', c') ∧
        a'.toList = a.toList.eraseIdx i ∧
        a'.rootID = a.rootID ∧ a'.ty = a.ty) ∧
    (a.toList.length ≤ i → a.remove T i c = .error .indexOutOfBounds) := by
  constructor
  · intro hi
    obtain ⟨a2, c2, heq, _, hl, hid, hty⟩ := arr_remove_ok hT a c i h hi
    exact ⟨a2, c2, heq, hl, hid, hty⟩
  · intro hi
    exact arr_remove_err a c i h hi

theorem pop_refines (T : Nat) (hT : legalThreshold T = true) (a : Arr) (c : Ctx) (h : ArrInv T a c.ctr) :
    (a.popIterate c).1 = a.toList.reverse ∧
    (a.popIterate c).2.1.toList = [] ∧
    (a.popIterate c).2.1.rootID = a.rootID ∧ (a.popIterate c).2.1.ty = a.ty := by
  have _ := hT; have _ := h
  exact arr_popIterate_refines a c

theorem count_refines (T : Nat) (a : Arr) (ctr : Nat) (h : ArrInv T a ctr) :
    a.count = a.toList.length := by
  obtain ⟨d, t, ty⟩ := a
  exact h.shape.count_eq_length

theorem setType_refines (T : Nat) (a : Arr) (c : Ctx) (ty : Nat) :
    (a.setType ty c).1.toList = a.toList ∧ (a.setType ty c).1.ty = ty ∧
    (a.setType ty c).1.rootID = a.rootID := by
  have _ := T
  exact ⟨rfl, rfl, rfl⟩

/-- The two routing branches of `childSlabIndexInfo` (linear scan / binary search) agree on every
    valid cumulative-count table, so the answer does not depend on the number of children. -/
theorem route_linear_eq_binary (cs : List Nat) (index : Nat)
    (hmono : cs.Pairwise (· < ·)) (hin : ∃ last ∈ cs.getLast?, index < last) :
    MetaSlab.scanLinear index cs 0 = MetaSlab.scanBinary index cs 0 cs.length (cs.length + 1) := by
  have hb := MetaSlab.scanBinary_spec index cs hmono hin (cs.length + 1) 0 cs.length
    (Nat.zero_le _) (Nat.le_refl _) (by omega) (by intro j hj; omega) (by intro j h1 h2; omega)
  rw [MetaSlab.scanLinear_of_ans index cs 0 _ hb]; omega

/-! ### Non-vacuity

The theorems above instantiated on `Atree.Example.arr4`, the two-level array (root index slab over
two data slabs, `T = 256`) produced by running the model, for which `ArrInv` is proved directly. -/
section NonVacuity
open Atree.Example

example : run4 = .ok (arr4, 3) := run4_eq
example : arr4.d = 1 := rfl
example : ArrInv T0 arr4 3 := arr4_inv
example : arr4.toList = [elem 0, elem 1, elem 2, elem 3] := rfl

example : arr4.get 2 = .ok (elem 2) := (get_refines T0 legal arr4 3 arr4_inv 2).1 (by decide)
example : arr4.get 4 = .error .indexOutOfBounds := (get_refines T0 legal arr4 3 arr4_inv 4).2 (by decide)
example : arr4.count = 4 := count_refines T0 arr4 3 arr4_inv

/-- insertion in the middle of the two-level tree refines `List.insertIdx` -/
example : ∃ a' c', arr4.insert T0 2 (elem 9) ⟨3, [], []⟩ = .ok (a', c') ∧
    a'.toList = [elem 0, elem 1, elem 9, elem 2, elem 3] ∧ a'.rootID = ⟨1, 1⟩ := by
  obtain ⟨a', c', h1, h2, h3, _⟩ :=
    (insert_refines T0 legal arr4 ⟨3, [], []⟩ 2 (elem 9) (value_ok 9) arr4_inv (by decide)).1 (by decide)
  exact ⟨a', c', h1, h2, h3⟩

/-- removal that makes the root index slab collapse back to a single data slab -/
example : ∃ a' c', arr4.remove T0 0 ⟨3, [], []⟩ = .ok (elem 0, a', c') ∧
    a'.toList = [elem 1, elem 2, elem 3] := by
  obtain ⟨a', c', h1, h2, _⟩ := (remove_refines T0 legal arr4 ⟨3, [], []⟩ 0 arr4_inv).1 (by decide)
  exact ⟨a', c', h1, h2⟩

/-- a value too large to inline is stored as a 19-byte reference -/
example : storedForm T0 arr4 ⟨5000, .val 7⟩ ⟨3, [], []⟩ = ⟨19, .ref ⟨1, 4⟩⟩ := by decide

example : MetaSlab.scanLinear 5 [2, 4, 7, 9] 0 = MetaSlab.scanBinary 5 [2, 4, 7, 9] 0 4 5 :=
  route_linear_eq_binary [2, 4, 7, 9] 5 (by decide) ⟨9, by simp, by decide⟩

end NonVacuity

end Atree.C01
