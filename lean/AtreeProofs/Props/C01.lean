import AtreeProofs.ArrayInv
import AtreeProofs.ArrayLemmas
/-
  C01 — Array behaves as a plain sequence under every operation history.
  PROPERTY THEOREMS: refinement of `Arr` operations to `List` operations, for an arbitrary legal
  threshold, arbitrary values (any size ≥ 1), arbitrary positions; plus totality on in-range
  requests and root-ID stability.
-/
namespace Atree.C01
open Atree Gen

/-- What a value becomes when stored: itself if it fits, a 19-byte reference otherwise. -/
def storedForm (T : Nat) (a : Arr) (v : Elem) (c : Ctx) : Elem := (toStorable T a.addr v c).1

theorem get_refines (T : Nat) (hT : legalThreshold T = true) (a : Arr) (ctr : Nat) (h : ArrInv T a ctr) (i : Nat) :
    (i < a.toList.length → a.get i = .ok (a.toList.getD i default)) ∧
    (a.toList.length ≤ i → a.get i = .error .indexOutOfBounds) := by
  obtain ⟨d, t, ty⟩ := a
  exact get_gen hT d t true i h.shape

theorem insert_refines (T : Nat) (hT : legalThreshold T = true) (a : Arr) (c : Ctx) (i : Nat) (v : Elem)
    (hv : ValueOk v) (h : ArrInv T a c.ctr) (hcount : a.count < maxArrayElementCount) :
    (i ≤ a.toList.length →
      ∃ a' c', a.insert T i v c = .ok (a', c') ∧
        a'.toList = a.toList.insertIdx i (storedForm T a v c) ∧
        a'.rootID = a.rootID ∧ a'.ty = a.ty) ∧
    (a.toList.length < i → a.insert T i v c = .error .indexOutOfBounds) := by
  constructor
  · intro hi
    obtain ⟨a2, c2, heq, _, hl, hid, hty⟩ := arr_insert_ok hT a c i v hv h hcount hi
    exact ⟨a2, c2, heq, hl, hid, hty⟩
  · intro hi
    exact arr_insert_err a c i v h (by omega) hi

theorem set_refines (T : Nat) (hT : legalThreshold T = true) (a : Arr) (c : Ctx) (i : Nat) (v : Elem)
    (hv : ValueOk v) (h : ArrInv T a c.ctr) :
    (i < a.toList.length →
      ∃ a' c', a.set T i v c = .ok (a.toList.getD i default, a', c') ∧
        a'.toList = a.toList.set i (storedForm T a v c) ∧
        a'.rootID = a.rootID ∧ a'.ty = a.ty) ∧
    (a.toList.length ≤ i → a.set T i v c = .error .indexOutOfBounds) := by
  constructor
  · intro hi
    obtain ⟨a2, c2, heq, _, hl, hid, hty⟩ := arr_set_ok hT a c i v hv h hi
    exact ⟨a2, c2, heq, hl, hid, hty⟩
  · intro hi
    exact arr_set_err a c i v h hi

theorem remove_refines (T : Nat) (hT : legalThreshold T = true) (a : Arr) (c : Ctx) (i : Nat)
    (h : ArrInv T a c.ctr) :
    (i < a.toList.length →
      ∃ a' c', a.remove T i c = .ok (a.toList.getD i default, a', c') ∧
        a'.toList = a.toList.eraseIdx i ∧
        a'.rootID = a.rootID ∧ a'.ty = a.ty) ∧
    (a.toList.length ≤ i → a.remove T i c = .error .indexOutOfBounds) := by
  constructor
  · intro hi
    obtain ⟨a2, c2, heq, _, hl, hid, hty⟩ := arr_remove_ok hT a c i h hi
    exact ⟨a2, c2, heq, hl, hid, hty⟩
  · intro hi
    exact arr_remove_err a c i h hi

theorem pop_refines (T : Nat) (hT : legalThreshold T = true) (a : Arr) (c : Ctx) (h : ArrInv T a c.ctr) :
    (a.popIterate c).1 = a.toList.reverse ∧
    (a.popIterate c).2.1.toList = [] ∧
    (a.popIterate c).2.1.rootID = a.rootID ∧ (a.popIterate c).2.1.ty = a.ty := by
  exact arr_popIterate_refines a c

theorem count_refines (T : Nat) (a : Arr) (ctr : Nat) (h : ArrInv T a ctr) :
    a.count = a.toList.length := by
  obtain ⟨d, t, ty⟩ := a
  exact h.shape.count_eq_length

theorem setType_refines (T : Nat) (a : Arr) (c : Ctx) (ty : Nat) :
    (a.setType ty c).1.toList = a.toList ∧ (a.setType ty c).1.ty = ty ∧
    (a.setType ty c).1.rootID = a.rootID := by
  exact ⟨rfl, rfl, rfl⟩

/-- The two routing branches of `childSlabIndexInfo` (linear scan / binary search) agree on every
    valid cumulative-count table, so the answer does not depend on the number of children. -/
theorem route_linear_eq_binary (cs : List Nat) (index : Nat)
    (hmono : cs.Pairwise (· < ·)) (hin : ∃ last ∈ cs.getLast?, index < last) :
    MetaSlab.scanLinear index cs 0 = MetaSlab.scanBinary index cs 0 cs.length (cs.length + 1) := by
  have hb := MetaSlab.scanBinary_spec index cs hmono hin (cs.length + 1) 0 cs.length
    (Nat.zero_le _) (Nat.le_refl _) (by omega) (by intro j hj; omega) (by intro j h1 h2; omega)
  rw [MetaSlab.scanLinear_of_ans index cs 0 _ hb]; omega

end Atree.C01
