import AtreeProofs.Props.TransMapDescentClosed
import AtreeProofs.Props.TransElemClosedEx
/-
  WP13, non-vacuity of the bridge: the example map of `Iter/MapExample.lean` (`map3`: `MapInv` holds, one root data slab
  whose first element is an inline collision group) over the heap that holds exactly its tree meets every hypothesis of
  `Ob_OrderedMap_Get_heap_full_closed` / `Ob_OrderedMap_Has_heap_full_closed`.
-/
namespace Atree.TransEq.MclEx
open Atree Atree.TransEq Atree.IterExample Atree.Gen.TransMapD

def retrD : mcl_Retrs DX := fun _ c _ => (.nil, false, none, c)

def rsEx : DRestruct 1 where
  splitChild := fun m s c _ => (some .slabSplit, m, s, c)
  mergeOrRebalance := fun m s c _ _ => (some .slabMerge, m, s, c)
  splitRoot := fun M => (some .slabSplit, M)
  promote := fun M _ => (some .slabSplit, M)

def sEx : MHSt 1 := { heap := md_heapOf map3.d map3.root (some (md_extra map3)), ctx := c0 }

theorem holdsEx : MHolds sEx.heap map3.d map3.root (some (md_extra map3)) := by
  show (if rootSlab.hdr.id = rootSlab.hdr.id then some (MapSlab.dataSlab (md_data rootSlab (some (md_extra map3)))) else none) = _
  rw [if_pos rfl]
  rfl

theorem leavesEx (sl : MDataSlab 1) (h : sl ∈ MTree.leaves map3.d map3.root) : sl = rootSlab :=
  List.mem_singleton.1 h

theorem retrOkD (c : Ctx) : mcl_RetrOk retrD c 2 rootElems := by
  intro id sz s h
  simp [rootElems] at h

/-- the closed `OrderedMap.get` theorem applies to the example (key 12 of the collision group) -/
example : OrderedMap_get (envD T0 (clEnvB cfg retrD 2) rsEx) 0 (md_map map3 sEx) (.key (k 12)) =
    some (md_rMapGet map3 sEx (map3.get cfg (k 12))) :=
  Ob_OrderedMap_Get_heap_full_closed cfg (k 12) retrD D rfl (by decide) (by decide) (by decide) (by decide)
    (kdig 12 (by decide)) T0 rsEx map3 sEx 0 (Nat.le_refl _) map3_inv trivial holdsEx
    (fun sl h => by rw [leavesEx sl h]; exact fitG)
    (fun sl h c => by rw [leavesEx sl h]; exact retrOkD c)

/-- ... and so does the closed `OrderedMap.Has` theorem -/
example : OrderedMap_Has (envD T0 (clEnvB cfg retrD 2) rsEx) 0 (md_map map3 sEx) (.key (k 12)) =
    some (match map3.has cfg (k 12) with
      | .ok b => (b, none, md_map map3 sEx)
      | .error e => (false, some e, md_map map3 sEx)) :=
  Ob_OrderedMap_Has_heap_full_closed cfg (k 12) retrD D rfl (by decide) (by decide) (by decide) (by decide)
    (kdig 12 (by decide)) T0 rsEx map3 sEx 0 (Nat.le_refl _) map3_inv trivial holdsEx
    (fun sl h => by rw [leavesEx sl h]; exact fitG)
    (fun sl h c => by rw [leavesEx sl h]; exact retrOkD c)

end Atree.TransEq.MclEx
