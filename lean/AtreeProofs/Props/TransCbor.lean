import AtreeProofs.Trans.Basic
import AtreeModel.Codec.Cbor
/-
  TRANSLATION EQUIVALENCE, encode.go: `GetUintCBORSize`, the exported helper with which a caller's `Storable`
  computes the `ByteSize()` of an unsigned integer (the library itself never calls it; its test values do:
  `2 + GetUintCBORSize(v)`).  The generated definition (`Atree.Gen.Trans.GetUintCBORSize`, rewritten from the Go
  source on every run) is the length of the CBOR head the codec model writes - `Codec.headLen`, the length of
  `Codec.head major n` for every major type - at EVERY 64-bit value, the five width boundaries included.
  A changed comparison (`<=` -> `<`, another constant, a dropped case) changes the generated definition and
  these theorems stop compiling (sweep s5, S3: a4-268 ... a4-275).
-/
namespace Atree.TransEq
open Atree Atree.Gen.Trans

/-- `GetUintCBORSize(n)` = the model's head length, for all `n : uint64` -/
theorem GetUintCBORSize_eq_model (n : UInt64) : (GetUintCBORSize n).toNat = Codec.headLen n.toNat := by
  have := n.toNat_lt
  simp only [GetUintCBORSize, Codec.headLen, UInt64.le_iff_toNat_le, UInt64.toNat_ofNat, decide_eq_true_eq,
    Nat.reducePow, Nat.reduceMod]
  by_cases h1 : n.toNat ≤ 23
  · have : n.toNat < 24 := by omega
    simp [h1, this]
  · have n1 : ¬ n.toNat < 24 := by omega
    by_cases h2 : n.toNat ≤ 255
    · have : n.toNat < 256 := by omega
      simp [h1, n1, h2, this]
    · have n2 : ¬ n.toNat < 256 := by omega
      by_cases h3 : n.toNat ≤ 65535
      · have : n.toNat < 65536 := by omega
        simp [h1, n1, h2, n2, h3, this]
      · have n3 : ¬ n.toNat < 65536 := by omega
        by_cases h4 : n.toNat ≤ 4294967295
        · have : n.toNat < 4294967296 := by omega
          simp [h1, n1, h2, n2, h3, n3, h4, this]
        · have n4 : ¬ n.toNat < 4294967296 := by omega
          simp [h1, n1, h2, n2, h3, n3, h4, n4]

/-- ... hence the number of bytes of the head of ANY major type with that argument (`EncodeUint64`: major 0) -/
theorem GetUintCBORSize_eq_head_length (major : Nat) (n : UInt64) :
    (GetUintCBORSize n).toNat = (Codec.head major n.toNat).length := by
  rw [GetUintCBORSize_eq_model]
  simp only [Codec.headLen, Codec.head]
  repeat' split
  all_goals simp [Codec.beBytes]

/-- stated over the model's numbers: a `Nat` below 2^64 -/
theorem GetUintCBORSize_u64 (n : Nat) (h : n < 2^64) : (GetUintCBORSize (u64 n)).toNat = Codec.headLen n := by
  rw [GetUintCBORSize_eq_model, u64_toNat h]

/-- non-vacuity, at the five width boundaries and one step beyond each -/
example : [23, 24, 255, 256, 65535, 65536, 4294967295, 4294967296, 18446744073709551615].map
    (fun n => (GetUintCBORSize (u64 n)).toNat) = [1, 2, 2, 3, 3, 5, 5, 9, 9] := by decide

end Atree.TransEq
