import AtreeModel.DigesterSeed
import AtreeModel.Map.Ops
import AtreeProofs.Props.Digester
/-
  Seed plumbing of maps (map.go / map_data_slab.go; model `AtreeModel/DigesterSeed.lean`).

  PROPERTY-LEVEL THEOREMS.
    * C04 "the map seed is a pure function of address and slab index": `seed_is_function_of_id`,
      `seedArgs_injective` (distinct slab IDs hash DISTINCT argument pairs — whether the seeds then
      differ is up to the hash), `omap_new_seed`.
    * C17 "a map with the source's seed": `copy_uses_source_seed`, `batch_uses_given_seed`;
      C03/C02 `NewMapWithRootID`: `reload_uses_stored_seed`; inlined children: `storedValue_seed`.
      In each case the new handle's builder carries exactly the stored seed (`Seeded`), so it computes
      the digests the source computes.
    * what the proofs forced (contracts on CALLER code, with the concrete failing shape):
      `shared_builder_breaks_first_map` (one `DigesterBuilder` object passed to two constructors),
      `zero_seed_map_unusable` (a slab ID whose seed hash is 0), `failed_constructor_still_seeds`.
-/
namespace Atree.Dig
open Atree

/-! ### byte order -/

theorem toUInt8_mod (k : Nat) : (k % 256).toUInt8.toNat = k % 256 := by
  simp [Nat.toUInt8]

theorem leDigits_length (k n : Nat) : (leDigits k n).length = k := by
  induction k generalizing n with
  | zero => rfl
  | succ k ih => simp [leDigits, ih]

theorem leNat_leDigits (k : Nat) : ∀ n, leNat (leDigits k n) = n % 256 ^ k := by
  induction k with
  | zero => intro n; simp [leDigits, leNat, Nat.mod_one]
  | succ k ih =>
    intro n
    simp only [leDigits, leNat, toUInt8_mod, ih]
    rw [Nat.pow_succ, Nat.mul_comm (256 ^ k) 256, Nat.mod_mul]

theorem leNat_inj : ∀ (a b : Bytes), a.length = b.length → leNat a = leNat b → a = b := by
  intro a
  induction a with
  | nil => intro b hl _; cases b with | nil => rfl | cons _ _ => simp at hl
  | cons x xs ih =>
    intro b hl h
    cases b with
    | nil => simp at hl
    | cons y ys =>
      simp only [leNat] at h
      have hx := x.toNat_lt
      have hy := y.toNat_lt
      have h1 : x.toNat = y.toNat := by omega
      have h2 : leNat xs = leNat ys := by omega
      rw [UInt8.toNat_inj.mp h1, ih ys (by simpa using hl) h2]

theorem leNat_lt (a : Bytes) : leNat a < 256 ^ a.length := by
  induction a with
  | nil => simp [leNat]
  | cons x xs ih =>
    simp only [leNat, List.length_cons, Nat.pow_succ]
    have := x.toNat_lt
    omega

theorem beBytes8_length (n : Nat) : (beBytes8 n).length = 8 := by
  simp [beBytes8, leDigits_length]

/-- reading the big-endian bytes back big-endian gives the number (`AddressAsUint64` etc.) -/
theorem beBytes8_roundtrip (n : Nat) (hn : n < 2 ^ 64) : leNat (beBytes8 n).reverse = n := by
  rw [beBytes8, List.reverse_reverse, leNat_leDigits]
  exact Nat.mod_eq_of_lt (by simpa using hn)

/-- the byte swap `LittleEndian.Uint64 ∘ BigEndian.PutUint64` is injective -/
theorem swap_injective (n m : Nat) (hn : n < 2 ^ 64) (hm : m < 2 ^ 64)
    (h : leUint64 (beBytes8 n) = leUint64 (beBytes8 m)) : n = m := by
  unfold leUint64 at h
  have t1 : (beBytes8 n).take 8 = beBytes8 n := List.take_of_length_le (by rw [beBytes8_length]; omega)
  have t2 : (beBytes8 m).take 8 = beBytes8 m := List.take_of_length_le (by rw [beBytes8_length]; omega)
  rw [t1, t2] at h
  have l1 : leNat (beBytes8 n) < UInt64.size := by
    have := leNat_lt (beBytes8 n); rw [beBytes8_length] at this; exact this
  have l2 : leNat (beBytes8 m) < UInt64.size := by
    have := leNat_lt (beBytes8 m); rw [beBytes8_length] at this; exact this
  have h0 : leNat (beBytes8 n) = leNat (beBytes8 m) := by
    have := congrArg UInt64.toNat h
    rwa [UInt64.toNat_ofNat_of_lt' l1, UInt64.toNat_ofNat_of_lt' l2] at this
  have h1 := leNat_inj _ _ (by simp [beBytes8_length]) h0
  have h2 : leDigits 8 n = leDigits 8 m := List.reverse_inj.mp h1
  have h3 := congrArg leNat h2
  rw [leNat_leDigits, leNat_leDigits] at h3
  have h256 : (256 : Nat) ^ 8 = 2 ^ 64 := by decide
  rw [h256, Nat.mod_eq_of_lt hn, Nat.mod_eq_of_lt hm] at h3
  exact h3

/-! ### C04: the seed is a function of the slab ID -/

/-- a slab ID whose two components fit their 8 bytes -/
def SlabID.Fits (id : SlabID) : Prop := id.addr < 2 ^ 64 ∧ id.idx < 2 ^ 64

/-- **The seed of a new map is a function of its root slab ID alone** — not of the builder handed
    in, of earlier maps, or of anything else; it is what the builder is seeded with (together with
    the constant `typicalRandomConstant`) and what is stored in the extra data. -/
theorem seed_is_function_of_id (H : Hashes) (w : SeedWorld) (sID : SlabID) (b : BuilderRef) (hb : b < w.builders.length) :
    ∃ m w', newMap H w sID b = (some m, w') ∧ m.seed = seedOfID H sID ∧
      (w'.builder m.builder).k0 = seedOfID H sID ∧ (w'.builder m.builder).k1 = k1Const := by
  refine ⟨_, _, rfl, rfl, ?_, ?_⟩ <;>
    simp [SeedWorld.builder, SeedWorld.setSeed, Builder.setSeed, hb]

/-- **Distinct slab IDs give distinct hash arguments.**  (Whether `Hash64Uint64x2` then maps them to
    distinct seeds is a property of the hash; for an injective `circle2` the seeds differ.) -/
theorem seedArgs_injective (id1 id2 : SlabID) (h1 : SlabID.Fits id1) (h2 : SlabID.Fits id2)
    (h : seedArgs id1 = seedArgs id2) : id1 = id2 := by
  unfold seedArgs at h
  injection h with ha hb
  have e1 := swap_injective _ _ h1.1 h2.1 ha
  have e2 := swap_injective _ _ h1.2 h2.2 hb
  cases id1; cases id2; simp_all

theorem seeds_differ_for_injective_hash (H : Hashes)
    (hinj : ∀ a b a' b', H.circle2 a b 0 = H.circle2 a' b' 0 → a = a' ∧ b = b')
    (id1 id2 : SlabID) (h1 : SlabID.Fits id1) (h2 : SlabID.Fits id2) (hne : id1 ≠ id2) :
    seedOfID H id1 ≠ seedOfID H id2 := by
  intro h
  obtain ⟨ha, hb⟩ := hinj _ _ _ _ h
  exact hne (seedArgs_injective id1 id2 h1 h2 (Prod.ext ha hb))

/-- the container model's `OMap.new` (Map/Ops.lean), whose seed is "an uninterpreted function of
    the root slab ID", instantiated with this function: the stored seed is `seedOfID` of the ID the
    allocator handed out -/
theorem omap_new_seed {r : Nat} (H : Hashes) (addr ty : Nat) (c : Ctx) :
    (OMap.new (r := r) addr ty (fun id => (seedOfID H id).toNat) c).1.seed = (seedOfID H (c.alloc addr).1).toNat := rfl

/-! ### C17 / reload: the new handle hashes with the stored seed -/

/-- the handle's builder carries the handle's stored seed (and the constant) -/
def Seeded (w : SeedWorld) (m : MapH) : Prop :=
  (w.builder m.builder).k0 = m.seed ∧ (w.builder m.builder).k1 = k1Const

theorem builder_setSeed_self (w : SeedWorld) (b : BuilderRef) (hb : b < w.builders.length) (k0 k1 : UInt64) :
    (w.setSeed b k0 k1).builder b = ⟨k0, k1⟩ := by
  simp [SeedWorld.builder, SeedWorld.setSeed, Builder.setSeed, hb]

theorem builder_setSeed_other (w : SeedWorld) (b b' : BuilderRef) (hne : b' ≠ b) (k0 k1 : UInt64) :
    (w.setSeed b k0 k1).builder b' = w.builder b' := by
  simp only [SeedWorld.builder, SeedWorld.setSeed, List.getD_eq_getElem?_getD]
  rw [List.getElem?_set_ne (Ne.symm hne)]

/-- two handles whose builders carry the same seed obtain the same digest for every message at
    every level -/
theorem same_seed_same_digests (H : Hashes) (w w' : SeedWorld) (m m' : MapH) (h : Seeded w m) (h' : Seeded w' m')
    (hs : m'.seed = m.seed) (msg : Bytes) (level : Nat) :
    m'.digestOf H w' msg level = m.digestOf H w msg level := by
  unfold MapH.digestOf
  rw [h.1, h'.1, hs]

/-- **`CopyNonRefSimple`: the copy has the source's seed**, its builder carries it, and so the copy
    computes for every key the digests the source computes. -/
theorem copy_uses_source_seed (H : Hashes) (w : SeedWorld) (m : MapH) (hm : Seeded w m) (b : BuilderRef)
    (hb : b < w.builders.length) :
    ∃ m' w', copyNonRefSimple w m b = (some m', w') ∧ m'.seed = m.seed ∧ Seeded w' m' ∧
      (b ≠ m.builder → Seeded w' m ∧ ∀ msg l, m'.digestOf H w' msg l = m.digestOf H w' msg l) := by
  have hs : Seeded (w.setSeed b m.seed k1Const) { seed := m.seed, builder := b } := by
    constructor <;> simp [builder_setSeed_self w b hb]
  refine ⟨_, _, rfl, rfl, hs, ?_⟩
  intro hne
  have hm' : Seeded (w.setSeed b m.seed k1Const) m := by
    unfold Seeded; rw [builder_setSeed_other w b m.builder (Ne.symm hne)]; exact hm
  exact ⟨hm', fun msg l => same_seed_same_digests H _ _ m _ hm' hs rfl msg l⟩

/-- **`NewMapFromBatchData`: the new map has the seed the caller passed** (the source's), its builder
    carries it; the zero seed is refused before the builder is touched. -/
theorem batch_uses_given_seed (w : SeedWorld) (seed : UInt64) (b : BuilderRef) (hb : b < w.builders.length) :
    (seed = 0 → newMapFromBatchData w seed b = (.error .seedUninitialized, w)) ∧
    (seed ≠ 0 → ∃ m' w', newMapFromBatchData w seed b = (.ok (some m'), w') ∧ m'.seed = seed ∧ Seeded w' m') := by
  constructor
  · intro h; simp [newMapFromBatchData, h]
  · intro h
    refine ⟨{ seed := seed, builder := b }, w.setSeed b seed k1Const, by simp [newMapFromBatchData, h], rfl, ?_⟩
    constructor <;> simp [builder_setSeed_self w b hb]

/-- **`NewMapWithRootID`: a re-opened map hashes with the seed stored in its root slab.** -/
theorem reload_uses_stored_seed (w : SeedWorld) (seed : UInt64) (b : BuilderRef) (hb : b < w.builders.length) :
    let r := newMapWithRootID w seed b
    r.1.seed = seed ∧ Seeded r.2 r.1 := by
  refine ⟨rfl, ?_⟩
  constructor <;> simp [newMapWithRootID, builder_setSeed_self w b hb]

/-- `MapDataSlab.StoredValue` (handles of child maps): a NEW builder, seeded with the stored seed;
    no existing handle is affected. -/
theorem storedValue_seed (w : SeedWorld) (seed : UInt64) :
    let r := storedValue w seed
    r.1.seed = seed ∧ Seeded r.2 r.1 ∧ r.1.builder = w.builders.length ∧
    ∀ m, m.builder < w.builders.length → Seeded w m → Seeded r.2 m := by
  have hlen : w.builders.length < (w.builders ++ [Builder.new]).length := by simp
  refine ⟨rfl, ?_, rfl, ?_⟩
  · constructor <;>
      simp only [storedValue, SeedWorld.newBuilder,
        builder_setSeed_self { builders := w.builders ++ [Builder.new] } w.builders.length hlen]
  · intro m hm hs
    unfold Seeded
    simp only [storedValue, SeedWorld.newBuilder]
    rw [builder_setSeed_other _ _ _ (Nat.ne_of_lt hm)]
    have : SeedWorld.builder { builders := w.builders ++ [Builder.new] } m.builder = w.builder m.builder := by
      simp [SeedWorld.builder, List.getElem?_append_left hm]
    rw [this]; exact hs

/-- Frame: a constructor given a builder object that no existing handle uses leaves every existing
    handle seeded. -/
theorem other_handles_unaffected (w : SeedWorld) (b : BuilderRef) (k0 k1 : UInt64) (m : MapH)
    (hne : m.builder ≠ b) (hs : Seeded w m) : Seeded (w.setSeed b k0 k1) m := by
  unfold Seeded; rw [builder_setSeed_other w b m.builder hne]; exact hs

/-! ### what the caller must not do -/

/-- **One builder object for two maps breaks the first.**  `NewMap(…, b, …)` for `id1`, then
    `NewMap(…, b, …)` for `id2` with THE SAME builder object: the first handle now hashes every key
    with the second map's seed, while its root slab still records the first seed — so after a
    reload (which re-seeds from the slab) every key inserted in between is looked up under
    different digests. -/
theorem shared_builder_breaks_first_map (H : Hashes) (w : SeedWorld) (id1 id2 : SlabID) (b : BuilderRef)
    (hb : b < w.builders.length) (hseed : seedOfID H id2 ≠ 0) :
    ∃ m1 w1 m2 w2, newMap H w id1 b = (some m1, w1) ∧ newMap H w1 id2 b = (some m2, w2) ∧
      Seeded w1 m1 ∧ Seeded w2 m2 ∧
      (∀ msg, m1.digestOf H w2 msg 0 = .ok (H.circle msg (seedOfID H id2))) ∧
      (seedOfID H id1 ≠ seedOfID H id2 → ¬ Seeded w2 m1) := by
  have hb1 : b < (w.setSeed b (seedOfID H id1) k1Const).builders.length := by simpa [SeedWorld.setSeed] using hb
  refine ⟨_, _, _, _, rfl, rfl, ?_, ?_, ?_, ?_⟩
  · constructor <;> simp [builder_setSeed_self w b hb]
  · constructor <;> simp [builder_setSeed_self _ b hb1]
  · intro msg
    simp only [MapH.digestOf, builder_setSeed_self _ b hb1, hseed, if_false]
    rfl
  · intro hne hs
    have := hs.1
    simp only [builder_setSeed_self _ b hb1] at this
    exact hne this.symm

/-- **A slab ID whose seed hash is 0 gives a map on which every keyed operation fails.**  `NewMap`
    does not check `k0` (only `NewMapFromBatchData` does): the map is created and stored, and every
    `digesterBuilder.Digest(hip, key)` — the first step of `Get`, `Set`, `Remove`, `Has` — returns
    `HashSeedUninitializedError`, from any pool state. -/
theorem zero_seed_map_unusable {V : Type} (H : Hashes) (hip : HIP V) (w : SeedWorld) (sID : SlabID) (b : BuilderRef)
    (hb : b < w.builders.length) (h0 : seedOfID H sID = 0) :
    ∃ m w', newMap H w sID b = (some m, w') ∧
      ∀ (v : V) (p : Pool) (c : Option Nat),
        (w'.builder m.builder).digest H hip v p c = (.error .seedUninitialized, p) := by
  refine ⟨_, _, rfl, ?_⟩
  intro v p c
  simp [builder_setSeed_self w b hb, Builder.digest, h0]

/-- A constructor that fails AFTER `SetSeed` (storage error in `NewMap`, `CopyNonRefSimple`,
    `NewMapFromBatchData`) returns no map but has re-seeded the caller's builder. -/
theorem failed_constructor_still_seeds (H : Hashes) (w : SeedWorld) (sID : SlabID) (m : MapH) (b : BuilderRef)
    (hb : b < w.builders.length) :
    (newMap H w sID b false).1 = none ∧ ((newMap H w sID b false).2.builder b).k0 = seedOfID H sID ∧
    (copyNonRefSimple w m b false).1 = none ∧ ((copyNonRefSimple w m b false).2.builder b).k0 = m.seed := by
  refine ⟨rfl, ?_, rfl, ?_⟩ <;> simp [newMap, copyNonRefSimple, builder_setSeed_self w b hb]

/-! ### Non-vacuity -/
section NonVacuity

/-- address `0x0102030405060708`, index 5: the arguments are the byte-swapped numbers -/
example : seedArgs ⟨0x0102030405060708, 5⟩ = (0x0807060504030201, 0x0500000000000000) := by decide

example : SlabID.Fits ⟨0x0102030405060708, 5⟩ := by unfold SlabID.Fits; decide

example : beBytes8 0x0102030405060708 = [1, 2, 3, 4, 5, 6, 7, 8] := by decide

/-- two builder objects, a map on each, a copy of the first onto a third builder: all seeded -/
def toySeedScenario : Bool :=
  let w0 : SeedWorld := { builders := [Builder.new, Builder.new, Builder.new] }
  match newMap toyH w0 ⟨1, 1⟩ 0 with
  | (some m1, w1) =>
    match newMap toyH w1 ⟨1, 2⟩ 1 with
    | (some m2, w2) =>
      match copyNonRefSimple w2 m1 2 with
      | (some m3, w3) => decide (m1.seed ≠ m2.seed ∧ m3.seed = m1.seed ∧
          m3.digestOf toyH w3 [7] 0 = m1.digestOf toyH w3 [7] 0 ∧
          m2.digestOf toyH w3 [7] 0 ≠ m1.digestOf toyH w3 [7] 0 ∧ m1.seed ≠ 0)
      | _ => false
    | _ => false
  | _ => false

example : toySeedScenario = true := by decide

example := shared_builder_breaks_first_map toyH { builders := [Builder.new] } ⟨1, 1⟩ ⟨1, 2⟩ 0 (by decide) (by decide)

/-- a hash for which some slab ID has seed 0 exists (e.g. `a + b + seed`, ID (0,0)) -/
example := zero_seed_map_unusable (V := UInt8) { toyH with circle2 := fun a b s => a + b + s } toyHip
  { builders := [Builder.new] } ⟨0, 0⟩ 0 (by decide) (by decide)

end NonVacuity

end Atree.Dig
