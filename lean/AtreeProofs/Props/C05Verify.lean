import AtreeProofs.Verify.ArrayVerify
/-
  C05 (and the oracle of C10 / C17) — the library's OWN structural checker `VerifyArray`
  (array_verify.go), transcribed in `AtreeModel/Verify/Array.lean`, related to the proved invariant
  `ArrInv`.  PROPERTY-LEVEL THEOREMS.

  * `arrInv_implies_verify_ok`: the checker accepts every state the invariant describes — as an
    oracle it never raises a false alarm on a valid tree.
  * `verify_ok_iff`: `verifyArray` returns `ok` EXACTLY on the trees satisfying `ArrVerified`
    (`AtreeProofs/Verify/ArraySpec.lean`), the conjunction of the checks it makes.
  * `arrInv_iff_verify_ok_and_unchecked`: `ArrInv` is `verifyArray = ok` PLUS five facts the
    checker does not look at; `unchecked_*` give, for each of them, a concrete tree the checker
    accepts although exactly that fact is false.  This is the precise distance between the
    library's checker and the invariant (the defects only the invariant / `invOk` can see).
-/
namespace Atree.C05V
open Atree Gen ATree Verify

/-- **The library's checker accepts every state the invariant describes.**  `v` is any verifier
    set up for the threshold in force and the array's address (the storage it looks at is
    irrelevant: nothing in a valid standalone array is inlined); the expected type is either not
    given or the array's. -/
theorem arrInv_implies_verify_ok (T : Nat) (a : Arr) (ctr : Nat) (h : ArrInv T a ctr)
    (hT : legalThreshold T = true) (v : AVerifier) (hvT : v.T = T) (hva : v.address = a.addr)
    (typeInfo : Option Nat) (hty : ∀ ty, typeInfo = some ty → a.ty = ty) :
    verifyArray v typeInfo a = .ok () := by
  subst hvT
  exact (verifyArray_ok_iff v hT typeInfo a (aligned_of_treeInv a.d true a.root h.tree)).2
    (arrVerified_of_arrInv h v rfl hva typeInfo hty)

/-- the same for the verifier exactly as the harness calls it (`standaloneVerifier`), with the
    array's own type as the expected one -/
theorem arrInv_implies_verify_ok_standalone (T : Nat) (a : Arr) (ctr : Nat) (h : ArrInv T a ctr)
    (hT : legalThreshold T = true) :
    verifyArray (standaloneVerifier T a) (some a.ty) a = .ok () :=
  arrInv_implies_verify_ok T a ctr h hT _ rfl rfl _ (fun _ hty => by cases hty; rfl)

/-- **Exact characterisation of the checker**: `ok` iff every check it makes holds.
    (`Aligned`: one embedded child per child header — see `ArraySpec.lean`.) -/
theorem verify_ok_iff (v : AVerifier) (hT : legalThreshold v.T = true) (typeInfo : Option Nat) (a : Arr)
    (hal : Aligned a.d a.root) :
    verifyArray v typeInfo a = .ok () ↔ ArrVerified v typeInfo a :=
  verifyArray_ok_iff v hT typeInfo a hal

/-- **The converse, as far as it holds.**  From `ok` follow, in the vocabulary of `ArrInv`: the
    whole tree invariant `TreeInv` except `1 ≤ e.size` (i.e. under the extra hypotheses that
    elements are not empty and the root is not inlined), uniqueness of the slab IDs and their
    address; NOT the leaf chain, the bounds on the slab indices, `standalone`, `count_lt`. -/
theorem verify_ok_implies (v : AVerifier) (hT : legalThreshold v.T = true) (typeInfo : Option Nat) (a : Arr)
    (hal : Aligned a.d a.root) (hok : verifyArray v typeInfo a = .ok ()) :
    (a.isInlined = false → ElemsPos a → TreeInv v.T a.d true a.root) ∧
    (slabIds a.d a.root).Nodup ∧ (∀ id ∈ slabIds a.d a.root, id.addr = a.addr) ∧
    (leafIds a.d a.root).tail = definedNexts (Arr.leaves a.d a.root) ∧
    (∀ ty, typeInfo = some ty → a.ty = ty) := by
  have h := (verifyArray_ok_iff v hT typeInfo a hal).1 hok
  refine ⟨fun hst hpos => ?_, h.ids_nodup, fun id hid => ?_, h.chain, h.type_ok⟩
  · obtain ⟨d, t, ty0⟩ := a
    exact treeInv_of_checked v d 0 true t h.tree (by simp) h.extra ((isInlined_iff d t ty0).1 hst) hpos
  · rw [checked_addr v a.d 0 a.root h.tree id hid, h.addr]

/-- **How much weaker the library's checker is than the invariant, exactly.**
    `ArrInv` = accepted by `VerifyArray` + five facts `VerifyArray` does not check:
    no empty element, the leaf chain, the bounds on the slab indices (not zero, not beyond the
    allocation counter), not inlined, the count below 2³². -/
theorem arrInv_iff_verify_ok_and_unchecked (T : Nat) (hT : legalThreshold T = true) (a : Arr) (ctr : Nat) :
    ArrInv T a ctr ↔
      (Aligned a.d a.root ∧ verifyArray (standaloneVerifier T a) none a = .ok () ∧
       ElemsPos a ∧ LeafChain (Arr.leaves a.d a.root) ∧
       (∀ id ∈ slabIds a.d a.root, 1 ≤ id.idx ∧ id.idx ≤ ctr) ∧
       a.isInlined = false ∧ a.count < maxArrayElementCount + 1) := by
  constructor
  · intro h
    have hal := aligned_of_treeInv a.d true a.root h.tree
    refine ⟨hal, arrInv_implies_verify_ok T a ctr h hT _ rfl rfl none (by simp), ?_, h.chain,
      fun id hid => (h.ids.2 id hid).2, h.standalone, h.count_lt⟩
    intro e he
    exact (elemOk_of_treeInv a.d true a.root h.tree e he).1
  · rintro ⟨hal, hok, hpos, hchain, hidx, hst, hcnt⟩
    have h := (verifyArray_ok_iff (standaloneVerifier T a) hT none a hal).1 hok
    exact arrInv_of_arrVerified h hpos hchain hidx hst hcnt


/-- **A dead check in `verifyArray`.**  "root slab %d count %d is wrong, want %d" can never be
    reported, whatever the tree: `verifySlab` returns the root's header count, and `a.Count()`
    reads the same header field.  (In `verifyMap` the corresponding check compares with the count
    kept in the extra data and is live.) -/
theorem root_count_check_is_dead (v : AVerifier) (typeInfo : Option Nat) (a : Arr) :
    verifyArray v typeInfo a ≠ .error .rootCountWrong :=
  verifyArray_ne_rootCountWrong v typeInfo a

/-! ### Defects the library's checker cannot see

For each conjunct of `ArrInv` that `VerifyArray` does not check: a concrete tree (T = 256) that
`verifyArray` accepts, that satisfies all the OTHER unchecked conjuncts, and violates exactly this
one.  All are variations of `Example.arr4` (root index slab 1.1 over the data slabs 1.2 and 1.3,
four 100-byte elements). -/
section Unchecked
open Atree.Example

/-- (1) an EMPTY element (`size = 0`): a root data slab holding one element of zero bytes.
    `VerifyArray` only bounds element sizes from above. -/
def wEmptyElem : Arr := ⟨0, ofData ⟨⟨⟨1, 1⟩, 5, 1⟩, SlabID.undef, [⟨0, .val 0⟩], true, false⟩, 0⟩

theorem unchecked_elem_size_pos :
    verifyArray (standaloneVerifier 256 wEmptyElem) none wEmptyElem = .ok () ∧
    ¬ ElemsPos wEmptyElem ∧
    LeafChain (Arr.leaves wEmptyElem.d wEmptyElem.root) ∧
    (∀ id ∈ slabIds wEmptyElem.d wEmptyElem.root, 1 ≤ id.idx ∧ id.idx ≤ 1) ∧
    wEmptyElem.isInlined = false ∧ wEmptyElem.count < maxArrayElementCount + 1 := by
  refine ⟨rfl, ?_, rfl, by decide, rfl, by decide⟩
  intro h
  have := h ⟨0, .val 0⟩ (by decide)
  exact absurd this (by decide)

/-- (2) a BROKEN LEAF CHAIN: the first leaf has no `next`, the second leaf points to ITSELF.
    `VerifyArray` compares the list of DEFINED `next` links with the IDs of leaves 2…n, which
    forgets WHICH leaf each link belongs to. -/
def wChainLeft : DataSlab := { Example.left with next := SlabID.undef }
def wChainRight : DataSlab := { Example.right with next := ⟨1, 3⟩ }
def wChain : Arr :=
  ⟨1, ofMeta ⟨⟨⟨1, 1⟩, 40, 4⟩, [wChainLeft.hdr, wChainRight.hdr], [2, 4],
      [ofData wChainLeft, ofData wChainRight], true⟩, 0⟩

theorem unchecked_leaf_chain :
    verifyArray (standaloneVerifier 256 wChain) none wChain = .ok () ∧
    ¬ LeafChain (Arr.leaves wChain.d wChain.root) ∧
    ElemsPos wChain ∧
    (∀ id ∈ slabIds wChain.d wChain.root, 1 ≤ id.idx ∧ id.idx ≤ 3) ∧
    wChain.isInlined = false ∧ wChain.count < maxArrayElementCount + 1 := by
  refine ⟨rfl, ?_, ?_, by decide, rfl, by decide⟩
  · intro h
    have h1 : wChainLeft.next = wChainRight.hdr.id := h.1
    exact absurd h1 (by decide)
  · intro e he
    have : e ∈ [elem 0, elem 1, elem 2, elem 3] := he
    simp only [List.mem_cons, List.not_mem_nil, or_false] at this
    rcases this with rfl | rfl | rfl | rfl <;> decide

/-- … and the defect is observable: on that accepted tree the read-only iterator (which follows
    the `next` links) yields two of the four elements. -/
theorem unchecked_leaf_chain_observable :
    wChain.iterReadOnly = [elem 0, elem 1] ∧ wChain.toList = [elem 0, elem 1, elem 2, elem 3] :=
  ⟨rfl, rfl⟩

/-- (3) a slab whose INDEX IS 0 (the index `GenerateSlabID` never hands out): the right leaf is
    registered as 1.0. -/
def wIdxLeft : DataSlab := { Example.left with next := ⟨1, 0⟩ }
def wIdxRight : DataSlab := { Example.right with hdr := { Example.right.hdr with id := ⟨1, 0⟩ } }
def wIdx0 : Arr :=
  ⟨1, ofMeta ⟨⟨⟨1, 1⟩, 40, 4⟩, [wIdxLeft.hdr, wIdxRight.hdr], [2, 4],
      [ofData wIdxLeft, ofData wIdxRight], true⟩, 0⟩

theorem unchecked_slab_index_pos :
    verifyArray (standaloneVerifier 256 wIdx0) none wIdx0 = .ok () ∧
    ¬ (∀ id ∈ slabIds wIdx0.d wIdx0.root, 1 ≤ id.idx) ∧
    (∀ id ∈ slabIds wIdx0.d wIdx0.root, id.idx ≤ 3) ∧
    ElemsPos wIdx0 ∧ LeafChain (Arr.leaves wIdx0.d wIdx0.root) ∧
    wIdx0.isInlined = false ∧ wIdx0.count < maxArrayElementCount + 1 := by
  refine ⟨rfl, ?_, by decide, ?_, ⟨rfl, rfl⟩, rfl, by decide⟩
  · intro h
    exact absurd (h ⟨1, 0⟩ (by decide)) (by decide)
  · intro e he
    have : e ∈ [elem 0, elem 1, elem 2, elem 3] := he
    simp only [List.mem_cons, List.not_mem_nil, or_false] at this
    rcases this with rfl | rfl | rfl | rfl <;> decide

/-- (4) a slab index BEYOND THE ALLOCATION COUNTER: `arr4` itself is valid for the counter 3 and
    accepted; the same tree violates `ArrInv` for the counter 2 (the next `GenerateSlabID` would
    hand out 1.3 a second time).  The allocator is not visible to `VerifyArray`. -/
theorem unchecked_slab_index_le_ctr :
    verifyArray (standaloneVerifier 256 arr4) none arr4 = .ok () ∧
    ¬ (∀ id ∈ slabIds arr4.d arr4.root, id.idx ≤ 2) ∧ ¬ ArrInv 256 arr4 2 := by
  refine ⟨rfl, ?_, ?_⟩
  · intro h; exact absurd (h ⟨1, 3⟩ (by decide)) (by decide)
  · intro h; exact absurd (h.ids.2 ⟨1, 3⟩ (by decide)).2.2 (by decide)

/-- (5) an INLINED root (accepted by `VerifyArray` when the slab is not in storage: it has
    different rules for inlined arrays, while `ArrInv` describes standalone arrays). -/
def wInlined : Arr :=
  ⟨0, ofData ⟨⟨⟨1, 1⟩, 117, 1⟩, SlabID.undef, [elem 0], true, true⟩, 0⟩

theorem unchecked_standalone :
    verifyArray ⟨256, fun _ => false, 1⟩ none wInlined = .ok () ∧
    wInlined.isInlined = true ∧
    ElemsPos wInlined ∧ LeafChain (Arr.leaves wInlined.d wInlined.root) ∧
    (∀ id ∈ slabIds wInlined.d wInlined.root, 1 ≤ id.idx ∧ id.idx ≤ 1) ∧
    wInlined.count < maxArrayElementCount + 1 := by
  refine ⟨rfl, rfl, ?_, rfl, by decide, by decide⟩
  intro e he
  have : e ∈ [elem 0] := he
  simp only [List.mem_cons, List.not_mem_nil, or_false] at this
  subst this; decide

/-- … and the verifier as the harness uses it (every slab of the tree is in storage) rejects it
    with "inlined slab %s is in storage". -/
theorem inlined_root_in_storage_rejected :
    verifyArray (standaloneVerifier 256 wInlined) none wInlined = .error .inlinedSlabInStorage := rfl

/- (6) `count_lt` (`a.count < 2³²`): in Go the count is a `uint32`, the bound is a fact of the
   type; a model tree violating it would need 2³² elements, no finite witness is given. -/

/-- (7) a MODELLING ARTEFACT, not a weakness of the Go code: an index slab with an embedded child
    that no child header refers to.  `verifyArray` never looks at it (in Go it would be a slab in
    storage nobody references: the business of the storage health check). -/
def wExtraChild : Arr :=
  ⟨1, ofMeta ⟨⟨⟨1, 1⟩, 40, 4⟩, [Example.left.hdr, Example.right.hdr], [2, 4],
      [ofData Example.left, ofData Example.right, ofData Example.right], true⟩, 0⟩

theorem unchecked_extra_embedded_child :
    verifyArray (standaloneVerifier 256 wExtraChild) none wExtraChild = .ok () ∧
    ¬ Aligned wExtraChild.d wExtraChild.root ∧ ¬ ArrInv 256 wExtraChild 3 := by
  refine ⟨rfl, ?_, ?_⟩
  · intro h
    have := ((aligned_succ 0 _).1 h).1
    exact absurd this (by decide)
  · intro h
    have := ((aligned_succ 0 _).1 (aligned_of_treeInv _ true _ h.tree)).1
    exact absurd this (by decide)

end Unchecked

/-! ### Rejections (the checker is not trivially `ok`) and non-vacuity -/
section NonVacuity
open Atree.Example

/-- `arr4` (a root index slab over two data slabs) meets the hypotheses of
    `arrInv_implies_verify_ok`, and the conclusion agrees with plain evaluation. -/
example : verifyArray (standaloneVerifier T0 arr4) (some arr4.ty) arr4 = .ok () :=
  arrInv_implies_verify_ok_standalone T0 arr4 3 arr4_inv legal
example : verifyArray (standaloneVerifier T0 arr4) (some 0) arr4 = .ok () := rfl
example : Aligned arr4.d arr4.root := aligned_of_treeInv _ true _ arr4_inv.tree
example : ArrVerified (standaloneVerifier T0 arr4) none arr4 :=
  (verify_ok_iff _ legal none arr4 (aligned_of_treeInv _ true _ arr4_inv.tree)).1 rfl

/-- the checker rejects: a wrong expected type, a wrong expected address, a threshold under which
    the leaves underflow, a corrupted `childrenCountSum`, a corrupted child header copy -/
example : verifyArray (standaloneVerifier T0 arr4) (some 7) arr4 = .error .typeInfoWrong := rfl
example : verifyArray { standaloneVerifier T0 arr4 with address := 2 } none arr4 = .error .arrayAddress := rfl
example : verifyArray (standaloneVerifier 1024 arr4) none arr4 = .error .underflow := rfl
example : verifyArray (standaloneVerifier T0 arr4) none
    ⟨1, ofMeta { rootSlab with countSum := [2, 5] }, 0⟩ = .error .countSumWrong := rfl
example : verifyArray (standaloneVerifier T0 arr4) none
    ⟨1, ofMeta { rootSlab with childHdrs := [left.hdr, { right.hdr with size := 222 }] }, 0⟩ =
    .error .headerMismatch := rfl

end NonVacuity

end Atree.C05V
