import AtreeProofs.Props.C02
/-
  C05 — Slab trees stay well-formed and every register stays inside its size band (MAPS).
  PROPERTY THEOREMS.  `MapInv` (AtreeProofs/MapInv.lean) is the structural invariant of map slab
  trees: sizes, bands, per-element inline limit, sorted unique first-level digests, index data =
  summary of the children, sibling chain, collision-group shape.  It is preserved by every
  operation (for an ARBITRARY legal threshold, digest function, operation history), and the
  clauses of the property text follow from it for every slab of the tree.
-/
namespace Atree.C05
open Atree Gen

variable {r : Nat}

theorem map_inv_new (T : Nat) (hT : legalThreshold T = true) (D : DigestFn (r + 1)) (addr ty : Nat)
    (seedOf : SlabID → Nat) (c : Ctx) : MapInv T D (OMap.new (r := r) addr ty seedOf c).1 :=
  (C02.inv_new T hT D addr ty seedOf c).1

theorem map_inv_set (T : Nat) (hT : legalThreshold T = true) (D : DigestFn (r + 1)) (cfg : MCfg) (m : OMap r)
    (hcfg : CfgOk cfg T m) (h : MapInv T D m) (k : MKey) (hk : KeyOk T (r + 1) D k)
    (v : Elem) (hv : ValueOkM v) (c : Ctx) (hc : CtxOk m c)
    (old : Option Elem) (m' : OMap r) (c' : Ctx) (hr : m.set cfg k v c = .ok (old, m', c')) :
    MapInv T D m' ∧ CtxOk m' c' := by
  rcases C02.set_refines T hT D cfg m hcfg h k hk v hv c hc with
    ⟨old2, m2, c2, heq, _, _, _, hinv, hctx, _⟩ | ⟨herr, _⟩
  · rw [heq] at hr
    cases hr
    exact ⟨hinv, hctx⟩
  · rw [herr] at hr
    cases hr

theorem map_inv_remove (T : Nat) (hT : legalThreshold T = true) (D : DigestFn (r + 1)) (cfg : MCfg) (m : OMap r)
    (hcfg : CfgOk cfg T m) (h : MapInv T D m) (k : MKey) (hk : KeyOk T (r + 1) D k) (c : Ctx) (hc : CtxOk m c)
    (k0 : MKey) (v : Elem) (m' : OMap r) (c' : Ctx) (hr : m.remove cfg k c = .ok (k0, v, m', c')) :
    MapInv T D m' ∧ CtxOk m' c' := by
  have hs := C02.remove_refines T hT D cfg m hcfg h k hk c hc
  cases hd : dictLookup m.toList k with
  | none =>
    rw [hd] at hs
    rw [hs] at hr
    cases hr
  | some w =>
    rw [hd] at hs
    obtain ⟨k1, m1, c1, heq, _, _, _, hinv, hctx, _⟩ := hs
    rw [heq] at hr
    cases hr
    exact ⟨hinv, hctx⟩

theorem map_inv_popIterate (T : Nat) (hT : legalThreshold T = true) (D : DigestFn (r + 1)) (m : OMap r)
    (h : MapInv T D m) (c : Ctx) (hc : CtxOk m c) : MapInv T D (m.popIterate c).2.1 :=
  (C02.pop_refines T hT D m h c hc).2.2.2.1

/-- Every DATA slab of the tree: at most 1.5× the slab size; a non-root one at least half of it and
    non-empty; its recorded size is its prefix plus its elements; its first key is its smallest
    digest; every first-level element (single pair, inline group, external-group pointer) is
    within the per-element inline limit. -/
theorem map_data_slabs_in_band (T : Nat) (D : DigestFn (r + 1)) :
    ∀ (d : Nat) (top : Bool) (t : MTree r d), MTreeInv T D d top t →
    ∀ s ∈ MTree.leaves d t,
      s.hdr.size ≤ maxThr T ∧ (s.root = false → minThr T ≤ s.hdr.size ∧ s.elems.elems ≠ []) ∧
      s.hdr.size = s.prefixSize + s.elems.size ∧ s.hdr.firstKey = s.elems.firstKey ∧
      (∀ el ∈ s.elems.elems, MElemF.size (MElems.ops r) el ≤ maxInlineMapElem T)
  | 0, top, t, h, s, hs => by
    have : s = t := List.mem_singleton.mp hs
    subst this
    have hi : MDataInv T D top s := (mtreeInv_zero_iff T D _ _).mp h
    refine ⟨hi.le_max, ?_, hi.size_eq, hi.first_eq, hi.elem_le⟩
    intro hroot
    have htop : top = false := by rw [← hi.root_eq]; exact hroot
    exact ⟨hi.ge_min htop, hi.nonempty htop⟩
  | d + 1, top, m, h, s, hs => by
    obtain ⟨c, hc, hsc⟩ := List.mem_flatMap.mp hs
    exact map_data_slabs_in_band T D d false c
      (((mtreeInv_succ_iff T D d top m).mp h).1.2.2.2.2.1 c hc) s hsc

/-- Every INDEX slab: the child headers are exactly the children's headers (index data = summary),
    the size is prefix + header-size × children, within the band, and a root index slab has at
    least two children; the first-level digests below it are strictly increasing (sorted, unique). -/
theorem map_index_slab_wellformed (T : Nat) (D : DigestFn (r + 1)) (d : Nat) (top : Bool)
    (m : MMetaSlab (MTree r d)) (h : MTreeInv T D (d + 1) top m) :
    m.childHdrs = m.children.map (MTree.hdr d) ∧
    m.hdr.size = mapMetaDataSlabPrefixSize + mapSlabHeaderSize * m.children.length ∧
    m.hdr.size ≤ maxThr T ∧ (top = false → minThr T ≤ m.hdr.size) ∧
    (top = true → 2 ≤ m.children.length) ∧
    (MTree.digests0 (d + 1) m).Pairwise (· < ·) ∧
    (∀ c ∈ m.children, (MTree.hdr d c).firstKey = (MTree.digests0 d c).headD 0) ∧
    (∀ c ∈ m.children, MTreeInv T D d false c) := by
  have h' := (mtreeInv_succ_iff T D d top m).mp h
  obtain ⟨⟨_, hch, hsz, _, hci, _, hfk, hpw⟩, hle, hge, htwo⟩ := h'
  exact ⟨hch, hsz, hle, hge, htwo, hpw, hfk, hci⟩

/-- The whole map: every data slab is in its band (root excepted from the lower bound), the
    sibling links chain the leaves left to right, and the element count is the number of entries. -/
theorem map_wellformed (T : Nat) (D : DigestFn (r + 1)) (m : OMap r) (h : MapInv T D m) :
    (∀ s ∈ MTree.leaves m.d m.root,
       s.hdr.size ≤ maxThr T ∧ (s.root = false → minThr T ≤ s.hdr.size ∧ s.elems.elems ≠ [])) ∧
    MLeafChain (MTree.leaves m.d m.root) ∧ m.count = m.toList.length := by
  refine ⟨fun s hs => ?_, h.chain, h.count_eq⟩
  have := map_data_slabs_in_band T D m.d true m.root h.tree s hs
  exact ⟨this.1, this.2.1⟩

/-! ### Non-vacuity: the multi-slab example map of C02 (index-slab root, inline group, external
    group, last-level lists) satisfies `MapInv`. -/
section NonVacuity
open MapExample
example : MapInv 256 D2 run.1 := run_good.inv
example : run.1.d = 1 := by decide
example := map_wellformed 256 D2 run.1 run_good.inv
example := map_inv_set 256 legal256 D2 cfg2 run.1 run_good.cfgok run_good.inv (key 122) (key_ok _) (val 0)
  (val_ok _) run.2 run_good.ctx
end NonVacuity

end Atree.C05
