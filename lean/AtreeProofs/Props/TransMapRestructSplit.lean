import AtreeProofs.Trans.MapRestruct
import AtreeProofs.Props.TransMapSlabsTree
/-
  WP13 step 3, the SPLIT side: the GENERATED restructuring code of the maps (`Gen/TransMapSlabs.lean`, namespace
  `Atree.Gen.TransMap`) run over the HEAP of the map descent (`envMH T`, `rsOf T` of Trans/MapRestruct.lean).
  WP10 proved the same generated functions equal to the model for a storage that is the model's `Ctx` (`EnvS`); here the
  scripts are ported to the heap storage `MHSt r`: the result values are the same translations of the model's results,
  the storage after the call is an explicit chain of `withCtx / store` on the heap (its `ctx` is the model's `Ctx`).

  * `mrs_MapDataSlab_Split_heap`, `mrs_MapMetaDataSlab_Split_heap`, `mrs_MapSlab_Split_heap`: `Split` allocates, the heap
    is untouched;
  * `mrs_storeSlab_heap` (`_meta`, `_data`): `storeSlab` writes the descent's record of the slab;
  * `Ob_SplitChildSlab_heap`: `(rsOf T).splitChild` = the model's `MMetaSlab.splitChildSlab`, with the heap after;
    `Ob_SplitChildSlab_heapPost`: what the heap holds after.
  Helper names carry the prefix `mrs_`.
-/
namespace Atree.TransEq
open Atree Atree.Gen.TransMap

section split
variable {r : Nat} (T : Nat)

/-! ## the dispatchers on a subtree root, for any storage -/

theorem mrs_cTree_isNil (d : Nat) (t : MTree r d) : (cTree (V := SV) (X := DX) d t).isNil = false := by
  cases d <;> rfl

theorem mrs_Header_cTree (d : Nat) (t : MTree r d) :
    MapSlab_Header (envMH (r := r) T) (cTree d t) = some (cHdr (MTree.hdr d t)) := by
  cases d <;> rfl

theorem mrs_SlabID_cTree (d : Nat) (t : MTree r d) :
    MapSlab_SlabID (envMH (r := r) T) (cTree d t) = some (MTree.hdr d t).id := by
  cases d <;> rfl

/-! ## `Split`: the heap is untouched, the `Ctx` is the model's -/

/-- `MapDataSlab.Split` over the heap (port of `MapDataSlab_Split_full_eq_model`) -/
theorem mrs_MapDataSlab_Split_heap (s : MDataSlab r) (x : Option DX) (st : MHSt r)
    (hcnt : s.elems.elems.length < 2^32)
    (hs : s.elems.size + Gen.mapDataSlabPrefixSize < 2^32)
    (hpre : Gen.hkeyElementsPrefixSize + (dg (rawSizes (MDataSlab.eops r) s.elems)).sum ≤ s.elems.size)
    (hlen : s.elems.elems.length ≤ s.elems.hkeys.length) :
    MapDataSlab_Split (envMH T) (cData s x) st =
      match MDataSlab.split s st.ctx with
      | .error _ => some (.nil, .nil, some .slabSplit, cData s x, st)
      | .ok (l, rr, c') => some (.dataSlab (cData l x), .dataSlab (cData rr none), none, cData l x, st.withCtx c') := by
  have hE : EnvH (MDataSlab.eops r) T (envMH (r := r) T) := envMH_EnvH T
  simp only [Gen.mapDataSlabPrefixSize] at hs
  have hsp := hkeyElements_Split_full_eq_model (V := SV) (MDataSlab.eops r) T (envMH (r := r) T) hE s.elems (by omega) hpre hlen
  have hb := msl_hkey_split_sizes (MDataSlab.eops r) s.elems hpre
  rcases hsplit : HkeyElems.split (MDataSlab.eops r) s.elems with ⟨le, re⟩
  rcases ha : st.ctx.alloc s.hdr.id.addr with ⟨sid, c'⟩
  simp only [hsplit] at hsp hb
  have e2 : (2 : UInt32) = u32 2 := rfl
  have e18 : UInt32.ofNat 18 = u32 18 := rfl
  have hl : (cH s.elems).elems.length = s.elems.elems.length := rfl
  simp only [MapDataSlab_Split, MDataSlab.split, cData, elements_Count_hkey, hl]
  rw [e2, u32_dlt hcnt (by omega)]
  by_cases h2 : s.elems.elems.length < 2
  · simp only [h2, decide_true, if_true, hE.eSplit]
  · simp only [h2, decide_false, if_false, Bool.false_eq_true, hsplit, ha, elements_Split_hkey, hsp, Option.map_some,
      Option.isNone_none, Bool.not_true, envMH_gen, MapDataSlab_SlabID, cHdr, elements_Size_hkey, elements_firstKey_hkey,
      Gen.mapDataSlabPrefixSize]
    have h1 : (cH le).size = u32 le.size := rfl
    have h1' : (cH re).size = u32 re.size := rfl
    rw [h1, h1', e18, u32_add (by omega), u32_add (by omega)]

/-- `MapMetaDataSlab.Split` over the heap (port of `MapMetaDataSlab_Split_full_eq_model`) -/
theorem mrs_MapMetaDataSlab_Split_heap {α : Type} (m : MMetaSlab α) (x : Option DX) (st : MHSt r)
    (hcov : 2 ≤ m.childHdrs.length → (m.childHdrs.length + 1) / 2 * Gen.mapSlabHeaderSize ≤ m.hdr.size) :
    MapMetaDataSlab_Split (envMH (r := r) T) (cMeta m x) st =
      match m.split st.ctx with
      | .error e => some (.nil, .nil, some e, cMeta m x, st)
      | .ok (l, rr, c') => some (.metaSlab (cMeta l x), .metaSlab (cMeta rr none), none, cMeta l x, st.withCtx c') := by
  have hsplit : (envMH (r := r) T).NewSlabSplitErrorf = some .slabSplit := rfl
  simp only [MapMetaDataSlab_Split, MMetaSlab.split, cMeta, List.length_map, int_dlt_two, msl_ceilHalfMap,
    MapMetaDataSlab_SlabID, envMH_gen, hsplit]
  by_cases hl : m.childHdrs.length < 2
  · simp [hl]
  · have hcov' := hcov (by omega)
    have hlen : (m.childHdrs.length + 1) / 2 ≤ (m.childHdrs.map cHdr).length := by
      rw [List.length_map]; omega
    have hne : 0 < (m.childHdrs.drop ((m.childHdrs.length + 1) / 2)).length := by
      rw [List.length_drop]; omega
    have emul : Int.ofNat ((m.childHdrs.length + 1) / 2) * Int.ofNat Gen.mapSlabHeaderSize =
        Int.ofNat ((m.childHdrs.length + 1) / 2 * Gen.mapSlabHeaderSize) := by simp
    simp only [hl, decide_false, if_false, Bool.false_eq_true, Option.isNone_none, Bool.not_true,
      msl_split_eq _ _ hlen, ← List.map_drop, ← List.map_take, msl_goIdx_zero_hdrs _ hne, emul, u32_ofInt]
    simp only [cHdr, u32, UInt32.ofNat_add, UInt32.ofNat_sub hcov']

/-- `MapSlab.Split` on a subtree root over the heap = `MTree.split` on the `Ctx`; the heap is untouched
    (port of `MapSlab_Split_eq_model`) -/
theorem mrs_MapSlab_Split_heap (d : Nat) (t : MTree r d) (st : MHSt r) (h : msl_SplitOK d t) :
    MapSlab_Split (envMH T) (cTree d t) st =
      match MTree.split d t st.ctx with
      | .error e => some (.nil, .nil, some e, cTree d t, st)
      | .ok (l, rr, c') => some (cTree d l, cTree d rr, none, cTree d l, st.withCtx c') := by
  cases d with
  | zero =>
    obtain ⟨h1, h2, h3, h4⟩ := h
    have hd := mrs_MapDataSlab_Split_heap T t none st h1 h2 h3 h4
    have he := MDataSlab.msl_split_error t st.ctx
    simp only [MapSlab_Split, cTree, MTree.split, hd]
    cases hsp : MDataSlab.split t st.ctx with
    | error e => rw [he e hsp]
    | ok p => obtain ⟨l, rr, c'⟩ := p; rfl
  | succ d =>
    have hd := mrs_MapMetaDataSlab_Split_heap (r := r) T t none st h
    simp only [MapSlab_Split, cTree, MTree.split, hd]
    cases hsp : MMetaSlab.split t st.ctx with
    | error e => rfl
    | ok p => obtain ⟨l, rr, c'⟩ := p; rfl

/-! ## `storeSlab`: the heap receives the descent's record -/

/-- `storeSlab` on any slab value of the restructuring unit -/
theorem mrs_storeSlab_meta_raw (st : MHSt r) (m : MapMetaDataSlab DX) :
    storeSlab (envMH T) st (.metaSlab m) = some (none, st.store m.header.slabID (.metaSlab (mr_metaD m))) := by
  simp only [storeSlab, MapSlab_SlabID, MapMetaDataSlab_SlabID, envMH_store, Option.isNone_none, Bool.not_true,
    Bool.false_eq_true, if_false, mr_fromM]

/-- `storeSlab` on a subtree root: the heap holds `md_tree d t none` under the root's identifier afterwards -/
theorem mrs_storeSlab_heap (st : MHSt r) (d : Nat) (t : MTree r d) (hf : mr_RootFit d t) :
    storeSlab (envMH T) st (cTree d t) = some (none, st.store (MTree.hdr d t).id (md_tree d t none)) := by
  simp only [storeSlab, mrs_SlabID_cTree, envMH_store, Option.isNone_none, Bool.not_true, Bool.false_eq_true, if_false,
    mr_fromM_cTree d t hf]

/-- `storeSlab` on an index slab (the parent, with its extra data) -/
theorem mrs_storeSlab_heap_meta (st : MHSt r) {α : Type} (m : MMetaSlab α) (x : Option DX) :
    storeSlab (envMH T) st (.metaSlab (cMeta m x)) = some (none, st.store m.hdr.id (.metaSlab (md_meta m x))) := by
  rw [mrs_storeSlab_meta_raw, mr_metaD_cMeta]
  rfl

/-- `storeSlab` on a (root) data slab with extra data -/
theorem mrs_storeSlab_heap_data (st : MHSt r) (s : MDataSlab r) (x : Option DX) (hf : mr_HFit s.elems) :
    storeSlab (envMH T) st (.dataSlab (cData s x)) = some (none, st.store s.hdr.id (.dataSlab (md_data s x))) := by
  simp only [storeSlab, MapSlab_SlabID, MapDataSlab_SlabID, envMH_store, Option.isNone_none, Bool.not_true,
    Bool.false_eq_true, if_false, mr_fromM_cData s x hf]
  rfl

/-! ## `SplitChildSlab` -/

/-- the storage after a successful `SplitChildSlab`: the allocation, then `Store` left, right, parent -/
def mrs_splitChildSt {d : Nat} (st : MHSt r) (m' : MMetaSlab (MTree r d)) (x : Option DX) (l rr : MTree r d) (c1 : Ctx) :
    MHSt r :=
  (((st.withCtx c1).store (MTree.hdr d l).id (md_tree d l none)).store (MTree.hdr d rr).id (md_tree d rr none)).store
    m'.hdr.id (.metaSlab (md_meta m' x))

/-- the generated `MapMetaDataSlab.SplitChildSlab` over the heap (port of `MapMetaDataSlab_SplitChildSlab_eq_model`) -/
theorem mrs_SplitChildSlab_heap (d : Nat) (m : MMetaSlab (MTree r d)) (x : Option DX) (child : MTree r d) (k : Nat)
    (st : MHSt r) (hk : k < m.childHdrs.length) (hok : msl_SplitOK d child)
    (hfit : ∀ l rr c1, MTree.split d child st.ctx = .ok (l, rr, c1) → mr_RootFit d l ∧ mr_RootFit d rr) :
    MapMetaDataSlab_SplitChildSlab (envMH T) (cMeta m x) st (cTree d child) (Int.ofNat k) =
      match MTree.split d child st.ctx, MMetaSlab.splitChildSlab m child k st.ctx with
      | .ok (l, rr, c1), .ok (m', _) => some (none, cMeta m' x, mrs_splitChildSt st m' x l rr c1, cTree d l)
      | .error e, _ => some (some e, cMeta m x, st, cTree d child)
      | _, .error e => some (some e, cMeta m x, st, cTree d child) := by
  have hsp := mrs_MapSlab_Split_heap T d child st hok
  simp only [MapMetaDataSlab_SplitChildSlab, MMetaSlab.splitChildSlab, hsp]
  cases hres : MTree.split d child st.ctx with
  | error e => simp only [Option.isNone_some, Bool.not_false, if_true]
  | ok p =>
    obtain ⟨l, rr, c1⟩ := p
    obtain ⟨hfl, hfr⟩ := hfit l rr c1 hres
    have hr : goInRange (cMeta m x).childrenHeaders (Int.ofNat k) = true :=
      msl_goInRange_ofNat _ _ (by simp only [cMeta, List.length_map]; exact hk)
    have hins : k + 1 ≤ ((m.childHdrs.set k (MTree.hdr d l)).map cHdr).length := by
      rw [List.length_map, List.length_set]; omega
    simp only [bind, Except.bind, pure, Except.pure, Option.isNone_none, Bool.not_true, Bool.false_eq_true, if_false,
      mrs_cTree_isNil, Bool.not_false, if_true, mrs_Header_cTree, hr, msl_intOfNat_toNat, msl_intOfNat_succ]
    simp only [cMeta, msl_cHdr_set, msl_goSlicesInsert_one _ _ _ hins, ← msl_cmap_insertIdx, mrs_storeSlab_heap T _ d l hfl,
      mrs_storeSlab_heap T _ d rr hfr, mrs_storeSlab_meta_raw, Option.isNone_none, Bool.not_true, Bool.false_eq_true, if_false]
    simp only [mrs_splitChildSt, cHdr, u32, UInt32.ofNat_add, mr_metaD, md_meta, mr_hdrD, md_hdr, List.map_map,
      Function.comp_def]
    rfl

/-- the parent keeps its identifier -/
theorem mrs_splitChildSlab_hdr_id {d : Nat} (m m' : MMetaSlab (MTree r d)) (child : MTree r d) (k : Nat) (c c' : Ctx)
    (hm : MMetaSlab.splitChildSlab m child k c = .ok (m', c')) : m'.hdr.id = m.hdr.id := by
  simp only [MMetaSlab.splitChildSlab, bind, Except.bind, pure, Except.pure] at hm
  cases hres : MTree.split d child c with
  | error e => rw [hres] at hm; cases hm
  | ok p =>
    obtain ⟨l, rr, c1⟩ := p
    rw [hres] at hm
    cases hm
    rfl

/-- **`MapMetaDataSlab.SplitChildSlab` of the restructuring record over the heap** = the model's
    `MMetaSlab.splitChildSlab`: no error, the parent record of the model's new parent `m'`, the heap after the allocation
    (`withCtx c1`: the `Ctx` after the child's `Split`) and the three `Store`s - the left half, the right half (records
    `md_tree .. none`), the parent (with its extra data `x`) - and the child object, now the left half; the `Ctx` of that
    storage is the model's. -/
theorem Ob_SplitChildSlab_heap (d : Nat) (m : MMetaSlab (MTree r d)) (x : Option DX) (child : MTree r d) (k : Nat)
    (s : MHSt r) (hk : k < m.childHdrs.length) (hok : msl_SplitOK d child)
    {m' : MMetaSlab (MTree r d)} {c' c1 : Ctx} {l rr : MTree r d}
    (hm : MMetaSlab.splitChildSlab m child k s.ctx = .ok (m', c'))
    (hsp : MTree.split d child s.ctx = .ok (l, rr, c1))
    (hfl : mr_RootFit d l) (hfr : mr_RootFit d rr) :
    (rsOf T).splitChild (md_meta m x) s (md_tree d child none) (Int.ofNat k) =
      (none, md_meta m' x,
        (((s.withCtx c1).store (MTree.hdr d l).id (md_tree d l none)).store (MTree.hdr d rr).id (md_tree d rr none)).store
          m'.hdr.id (.metaSlab (md_meta m' x)),
        md_tree d l none) ∧
    ((((s.withCtx c1).store (MTree.hdr d l).id (md_tree d l none)).store (MTree.hdr d rr).id (md_tree d rr none)).store
          m'.hdr.id (.metaSlab (md_meta m' x))).ctx = c' := by
  have hfit' : ∀ l' rr' c1', MTree.split d child s.ctx = .ok (l', rr', c1') → mr_RootFit d l' ∧ mr_RootFit d rr' := by
    intro l' rr' c1' h
    rw [hsp] at h
    cases h
    exact ⟨hfl, hfr⟩
  have h := mrs_SplitChildSlab_heap T d m x child k s hk hok hfit'
  simp only [hsp, hm] at h
  constructor
  · simp only [rsOf, mr_metaM_md_meta, mr_toM_md_tree_none, h, mr_metaD_cMeta, mr_fromM_cTree d l hfl, mrs_splitChildSt]
  · simp only [MMetaSlab.splitChildSlab, hsp, bind, Except.bind, pure, Except.pure] at hm
    cases hm
    rfl

/-- the error case (the child has fewer than 2 elements / children): the error class of the model, parent, storage and
    child untouched (`mr_RootFit d child`: the child object goes through `mr_toM` / `mr_fromM`) -/
theorem Ob_SplitChildSlab_heap_error (d : Nat) (m : MMetaSlab (MTree r d)) (x : Option DX) (child : MTree r d) (k : Nat)
    (s : MHSt r) (hk : k < m.childHdrs.length) (hok : msl_SplitOK d child) (hfc : mr_RootFit d child) {e : MErr}
    (hm : MMetaSlab.splitChildSlab m child k s.ctx = .error e) :
    (rsOf T).splitChild (md_meta m x) s (md_tree d child none) (Int.ofNat k) =
      (some e, md_meta m x, s, md_tree d child none) := by
  cases hsp : MTree.split d child s.ctx with
  | ok p =>
    obtain ⟨l, rr, c1⟩ := p
    simp only [MMetaSlab.splitChildSlab, hsp, bind, Except.bind, pure, Except.pure] at hm
    cases hm
  | error e' =>
    have he : e' = e := by
      simp only [MMetaSlab.splitChildSlab, hsp, bind, Except.bind] at hm
      cases hm
      rfl
    subst he
    have hfit' : ∀ l' rr' c1', MTree.split d child s.ctx = .ok (l', rr', c1') → mr_RootFit d l' ∧ mr_RootFit d rr' := by
      intro l' rr' c1' h
      rw [hsp] at h
      cases h
    have h := mrs_SplitChildSlab_heap T d m x child k s hk hok hfit'
    simp only [hsp] at h
    simp only [rsOf, mr_metaM_md_meta, mr_toM_md_tree_none, h, mr_metaD_cMeta, mr_fromM_cTree d child hfc]

/-! ## what the heap holds after `SplitChildSlab` -/

/-- `MHolds` only looks at the identifiers of the tree -/
theorem mrs_MHolds_congr : ∀ (d : Nat) (t : MTree r d) (x : Option DX) (h h' : SlabID → Option (DSlab r)),
    (∀ id ∈ md_ids d t, h' id = h id) → MHolds h d t x → MHolds h' d t x
  | 0, t, x, h, h', hyp, hh => by
    have e : h' (MTree.hdr 0 t).id = h (MTree.hdr 0 t).id := hyp _ (List.mem_singleton.mpr rfl)
    exact e.trans hh
  | d + 1, t, x, h, h', hyp, hh => by
    refine ⟨?_, fun c hc => ?_⟩
    · have e : h' (MTree.hdr (d + 1) t).id = h (MTree.hdr (d + 1) t).id := hyp _ (List.mem_cons_self)
      exact e.trans hh.1
    · exact mrs_MHolds_congr d c none h h'
        (fun id hid => hyp id (List.mem_cons_of_mem _ (List.mem_flatMap.mpr ⟨c, hc, hid⟩))) (hh.2 c hc)

/-- the children of a subtree root are held (nothing to hold below a data slab) -/
def mrs_KidsHeld (h : SlabID → Option (DSlab r)) : (d : Nat) → MTree r d → Prop
  | 0, _ => True
  | d + 1, (m : MMetaSlab (MTree r d)) => ∀ c ∈ m.children, MHolds h d c none

/-- the identifiers of the slabs below a subtree root -/
def mrs_kidIds : (d : Nat) → MTree r d → List SlabID
  | 0, _ => []
  | d + 1, (m : MMetaSlab (MTree r d)) => m.children.flatMap (md_ids d)

theorem mrs_md_ids_eq (d : Nat) (t : MTree r d) : md_ids d t = (MTree.hdr d t).id :: mrs_kidIds d t := by
  cases d <;> rfl

theorem mrs_holds_of_kids (h : SlabID → Option (DSlab r)) (d : Nat) (t : MTree r d) (x : Option DX)
    (hroot : h (MTree.hdr d t).id = some (md_tree d t x)) (hk : mrs_KidsHeld h d t) : MHolds h d t x := by
  cases d with
  | zero => exact hroot
  | succ d => exact ⟨hroot, hk⟩

theorem mrs_KidsHeld_congr (h h' : SlabID → Option (DSlab r)) (d : Nat) (t : MTree r d)
    (hyp : ∀ id ∈ mrs_kidIds d t, h' id = h id) (hk : mrs_KidsHeld h d t) : mrs_KidsHeld h' d t := by
  cases d with
  | zero => trivial
  | succ d =>
    intro c hc
    exact mrs_MHolds_congr d c none h h' (fun id hid => hyp id (List.mem_flatMap.mpr ⟨c, hc, hid⟩)) (hk c hc)

/-- what `Split` does to identifiers and children: the left half keeps the identifier, the right half gets the allocated
    one, the children are distributed -/
theorem mrs_split_shape (d : Nat) (child l rr : MTree r d) (c c1 : Ctx) (hsp : MTree.split d child c = .ok (l, rr, c1)) :
    (MTree.hdr d l).id = (MTree.hdr d child).id ∧
    (MTree.hdr d rr).id = (c.alloc (MTree.hdr d child).id.addr).1 ∧
    (∀ id, id ∈ mrs_kidIds d l ∨ id ∈ mrs_kidIds d rr → id ∈ mrs_kidIds d child) ∧
    (∀ h, mrs_KidsHeld h d child → mrs_KidsHeld h d l ∧ mrs_KidsHeld h d rr) := by
  cases d with
  | zero =>
    simp only [MTree.split, MDataSlab.split] at hsp
    split at hsp
    · cases hsp
    · cases hsp
      exact ⟨rfl, rfl, fun id h => by cases h <;> assumption, fun _ _ => ⟨trivial, trivial⟩⟩
  | succ d =>
    simp only [MTree.split, MMetaSlab.split] at hsp
    split at hsp
    · cases hsp
    · cases hsp
      refine ⟨rfl, rfl, ?_, fun h hk => ⟨fun c hc => hk c (List.mem_of_mem_take hc), fun c hc => hk c (List.mem_of_mem_drop hc)⟩⟩
      intro id hid
      rcases hid with hid | hid
      · obtain ⟨c, hc, hin⟩ := List.mem_flatMap.mp hid
        exact List.mem_flatMap.mpr ⟨c, List.mem_of_mem_take hc, hin⟩
      · obtain ⟨c, hc, hin⟩ := List.mem_flatMap.mp hid
        exact List.mem_flatMap.mpr ⟨c, List.mem_of_mem_drop hc, hin⟩

/-- the heap after allocation + `Store` left, right, parent `nr` (the chain of `SplitChildSlab` and of `splitRoot`): if
    the slabs below `child` were held, the identifier of the right half is neither an identifier of `child`'s subtree nor
    the parent's, the parent's identifier is not in `child`'s subtree and `child`'s identifier is not below it, then the
    heap holds both halves, the parent record under the parent's identifier, and every other identifier is untouched -/
theorem mrs_splitSt_heapPost (d : Nat) (nr : MMetaSlab (MTree r d)) (x : Option DX) (child l rr : MTree r d)
    (c c1 : Ctx) (s : MHSt r)
    (hsp : MTree.split d child c = .ok (l, rr, c1))
    (hkids : mrs_KidsHeld s.heap d child)
    (hfresh : (MTree.hdr d rr).id ∉ md_ids d child) (hfreshm : (MTree.hdr d rr).id ≠ nr.hdr.id)
    (hpar : nr.hdr.id ∉ md_ids d child) (hnd : (MTree.hdr d child).id ∉ mrs_kidIds d child) :
    let s' := (((s.withCtx c1).store (MTree.hdr d l).id (md_tree d l none)).store (MTree.hdr d rr).id
      (md_tree d rr none)).store nr.hdr.id (.metaSlab (md_meta nr x))
    MHolds s'.heap d l none ∧ MHolds s'.heap d rr none ∧
    s'.heap nr.hdr.id = some (.metaSlab (md_meta nr x)) ∧
    (∀ id, id ≠ (MTree.hdr d l).id → id ≠ (MTree.hdr d rr).id → id ≠ nr.hdr.id → s'.heap id = s.heap id) := by
  intro s'
  obtain ⟨hlid, _, hsub, hheld⟩ := mrs_split_shape d child l rr c c1 hsp
  obtain ⟨hkl, hkr⟩ := hheld s.heap hkids
  rw [mrs_md_ids_eq] at hfresh hpar
  have hheap : ∀ id, s'.heap id = if id = nr.hdr.id then some (.metaSlab (md_meta nr x))
      else if id = (MTree.hdr d rr).id then some (md_tree d rr none)
      else if id = (MTree.hdr d l).id then some (md_tree d l none) else s.heap id := fun _ => rfl
  have hframe : ∀ id, id ≠ (MTree.hdr d l).id → id ≠ (MTree.hdr d rr).id → id ≠ nr.hdr.id → s'.heap id = s.heap id := by
    intro id h1 h2 h3
    rw [hheap, if_neg h3, if_neg h2, if_neg h1]
  have hlr : (MTree.hdr d l).id ≠ (MTree.hdr d rr).id := by
    rw [hlid]; intro e; exact hfresh (e ▸ List.mem_cons_self)
  have hlm : (MTree.hdr d l).id ≠ nr.hdr.id := by
    rw [hlid]; intro e; exact hpar (e ▸ List.mem_cons_self)
  have hkid : ∀ id, id ∈ mrs_kidIds d child → s'.heap id = s.heap id := by
    intro id hid
    refine hframe id ?_ ?_ ?_
    · rw [hlid]; intro e; exact hnd (e ▸ hid)
    · intro e; exact hfresh (e ▸ List.mem_cons_of_mem _ hid)
    · intro e; exact hpar (e ▸ List.mem_cons_of_mem _ hid)
  refine ⟨?_, ?_, ?_, hframe⟩
  · refine mrs_holds_of_kids _ d l none ?_ (mrs_KidsHeld_congr s.heap _ d l (fun id hid => hkid id (hsub id (Or.inl hid))) hkl)
    rw [hheap, if_neg hlm, if_neg hlr, if_pos rfl]
  · refine mrs_holds_of_kids _ d rr none ?_ (mrs_KidsHeld_congr s.heap _ d rr (fun id hid => hkid id (hsub id (Or.inr hid))) hkr)
    rw [hheap, if_neg hfreshm, if_pos rfl]
  · rw [hheap, if_pos rfl]

/-- **the heap after `SplitChildSlab`**: if the slabs below `child` were held, the fresh identifier of the right half is
    neither an identifier of `child`'s subtree nor the parent's, the parent's identifier is not in `child`'s subtree and
    `child`'s identifier is not below it, then the heap holds both halves, the parent record under the parent's
    identifier, and every other identifier is untouched -/
theorem Ob_SplitChildSlab_heapPost (d : Nat) (m m' : MMetaSlab (MTree r d)) (x : Option DX) (child l rr : MTree r d)
    (k : Nat) (c' c1 : Ctx) (s : MHSt r)
    (hm : MMetaSlab.splitChildSlab m child k s.ctx = .ok (m', c'))
    (hsp : MTree.split d child s.ctx = .ok (l, rr, c1))
    (hkids : mrs_KidsHeld s.heap d child)
    (hfresh : (MTree.hdr d rr).id ∉ md_ids d child) (hfreshm : (MTree.hdr d rr).id ≠ m.hdr.id)
    (hpar : m.hdr.id ∉ md_ids d child) (hnd : (MTree.hdr d child).id ∉ mrs_kidIds d child) :
    let s' := (((s.withCtx c1).store (MTree.hdr d l).id (md_tree d l none)).store (MTree.hdr d rr).id
      (md_tree d rr none)).store m'.hdr.id (.metaSlab (md_meta m' x))
    MHolds s'.heap d l none ∧ MHolds s'.heap d rr none ∧
    s'.heap m'.hdr.id = some (.metaSlab (md_meta m' x)) ∧
    (∀ id, id ≠ (MTree.hdr d l).id → id ≠ (MTree.hdr d rr).id → id ≠ m'.hdr.id → s'.heap id = s.heap id) := by
  have hmid := mrs_splitChildSlab_hdr_id m m' child k s.ctx c' hm
  rw [← hmid] at hfreshm hpar
  exact mrs_splitSt_heapPost d m' x child l rr s.ctx c1 s hsp hkids hfresh hfreshm hpar hnd

end split

end Atree.TransEq
