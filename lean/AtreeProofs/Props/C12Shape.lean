import AtreeProofs.Map.ExportTree
import AtreeProofs.Map.InsertOrder
import AtreeProofs.Map.Example
/-
  C12 — the SHAPE of collision groups, as step theorems (audit a2/F7).

  `ElemsInv` (MapInv.lean) bounds inline groups at the first level but puts NO condition on external
  groups – rightly so, because the code never re-inlines an external group: after removals an external
  group may be smaller than the element limit.  So "a group lives in a slab of its own exactly when it
  is larger than the element limit" is not an invariant of states; what is true is a statement
  about STEPS:

    * `export_exactly_when_oversized`  one `Set` changes at most one first-level element, and a
      collision group that is born or updated by it ends up external if and only if
      `inlineCollisionGroupPrefixSize + size` exceeds `maxInlineMapElementSize`; an external group
      stays external (same slab); nothing else is exported, inlined or touched;
    * `no_reinline_on_shrink`           one `Remove` changes exactly one first-level element: a
      single element disappears, an inline group stays inline or collapses to its last single
      element, an external group stays external – whatever its size – or collapses to its last single
      element (and never becomes an inline group).

  Both are about the first-level elements of the WHOLE map (`OMap.elems0`: all data slabs, in
  order): splitting / merging / re-balancing slabs, promoting and splitting the root only move
  elements.  No digest, no size band is assumed beyond `MapInv`'s "one digest per element".
-/
namespace Atree.C12
open Atree Gen

variable {r : Nat}

/-- EXPORT EXACTLY WHEN OVERSIZED.  After a successful `Set`, the list of first-level elements of the
    map is the list before it with EITHER one new single element inserted, OR exactly one element
    `el` replaced by `el'` where (`SetKindRel`):
      * `el` external  ⇒ `el'` external with the same slab ID and element size;
      * `el` single, `el'` single (the value of that key was overwritten);
      * otherwise `el'` is a collision group `g'` (born from a single element and the new key, or the
        updated inline group), and
          `el'` is external  ⇒  `inlineCollisionGroupPrefixSize + size g' > maxInlineMapElem T`
                               (and its new slab has size `mapDataSlabPrefixSize + size g'`),
          `el'` is inline    ⇒  `inlineCollisionGroupPrefixSize + size g' ≤ maxInlineMapElem T`. -/
theorem export_exactly_when_oversized (T : Nat) (D : DigestFn (r + 1)) (cfg : MCfg) (m m' : OMap r)
    (h : MapInv T D m) (k : MKey) (v : Elem) (c c' : Ctx) (old : Option Elem)
    (hs : m.set cfg k v c = .ok (old, m', c')) :
    SetElemsRel cfg.T (MElems.ops r) m.elems0 m'.elems0 :=
  OMap.set_elems0 cfg m m' h k v c c' old hs

/-- the group size of an element that is a group -/
def groupSize (o : ElemsOps α) : MElemF α → Nat
  | .single _ => 0
  | .inl g => o.size g
  | .ext _ _ s => o.size s.elems

/-- the "if and only if" in one line: when the element that `Set` worked on was not already external
    and the result is a group, the group is external exactly when it is oversized -/
theorem SetKindRel.ext_iff {α : Type} {T : Nat} {o : ElemsOps α} {el el' : MElemF α} (h : SetKindRel T o el el')
    (hnot : ∀ id sz s, el ≠ .ext id sz s) (hgrp : el'.isGroup = true) :
    (∃ id sz s, el' = .ext id sz s) ↔ inlineCollisionGroupPrefixSize + groupSize o el' > maxInlineMapElem T := by
  cases el with
  | ext id sz s => exact absurd rfl (hnot id sz s)
  | single x =>
    cases el' with
    | single y => cases hgrp
    | inl g' =>
      have h' : inlineCollisionGroupPrefixSize + o.size g' ≤ maxInlineMapElem T := h
      constructor
      · rintro ⟨_, _, _, he⟩; cases he
      · intro hgt; simp only [groupSize] at hgt; omega
    | ext id' sz' s' =>
      have h' : inlineCollisionGroupPrefixSize + o.size s'.elems > maxInlineMapElem T ∧ _ := h
      exact ⟨fun _ => h'.1, fun _ => ⟨_, _, _, rfl⟩⟩
  | inl g =>
    cases el' with
    | single y => cases hgrp
    | inl g' =>
      have h' : inlineCollisionGroupPrefixSize + o.size g' ≤ maxInlineMapElem T := h
      constructor
      · rintro ⟨_, _, _, he⟩; cases he
      · intro hgt; simp only [groupSize] at hgt; omega
    | ext id' sz' s' =>
      have h' : inlineCollisionGroupPrefixSize + o.size s'.elems > maxInlineMapElem T ∧ _ := h
      exact ⟨fun _ => h'.1, fun _ => ⟨_, _, _, rfl⟩⟩

/-- NO RE-INLINING ON SHRINK.  After a successful `Remove`, exactly one first-level element `el` of
    the map was replaced by `el'?` (`none` = gone) where (`RemoveKindRel`): a single element is gone; an
    inline group is still an inline group or has collapsed to its last single element; an external
    group is still external with the same slab ID – even if it would now fit inline – or has
    collapsed to its last single element; it is never turned back into an inline group. -/
theorem no_reinline_on_shrink (cfg : MCfg) (m m' : OMap r) (k : MKey) (c c' : Ctx) (rk : MKey) (rv : Elem)
    (hs : m.remove cfg k c = .ok (rk, rv, m', c')) : RemoveElemsRel m.elems0 m'.elems0 :=
  OMap.remove_elems0 cfg m m' k c c' rk rv hs

/-- FULL COLLISIONS KEEP THEIR INSERTION ORDER.  When `Set` returns no previous value (the key is new),
    the iteration order afterwards is the order before with the new pair inserted BEHIND every pair that
    has the same digest vector as the new key (`NewLast`): together with `order_canonical` (ascending
    digest vectors) this fixes the position of the new pair completely – after the last fully colliding
    key, before the first larger digest vector. -/
theorem full_collisions_keep_insertion_order (T : Nat) (hT : legalThreshold T = true) (D : DigestFn (r + 1))
    (cfg : MCfg) (m m' : OMap r) (hcfg : CfgOk cfg T m) (h : MapInv T D m) (k : MKey) (hk : KeyOk T (r + 1) D k)
    (v : Elem) (c c' : Ctx) (hs : m.set cfg k v c = .ok (none, m', c')) : NewLast m.toList m'.toList k :=
  OMap.set_newLast hT hcfg h hk hs

/-- the same, restricted to the keys that collide with `k` on every level: the new key is APPENDED -/
theorem new_colliding_key_is_appended (T : Nat) (hT : legalThreshold T = true) (D : DigestFn (r + 1))
    (cfg : MCfg) (m m' : OMap r) (hcfg : CfgOk cfg T m) (h : MapInv T D m) (k : MKey) (hk : KeyOk T (r + 1) D k)
    (v : Elem) (c c' : Ctx) (hs : m.set cfg k v c = .ok (none, m', c')) :
    ∃ sv, m'.toList.filter (fun p => p.1.digs == k.digs) = m.toList.filter (fun p => p.1.digs == k.digs) ++ [(k, sv)] := by
  obtain ⟨A, B, sv, hl, hl', hB⟩ := full_collisions_keep_insertion_order T hT D cfg m m' hcfg h k hk v c c' hs
  refine ⟨sv, ?_⟩
  have hBf : B.filter (fun p => p.1.digs == k.digs) = [] := by
    rw [List.filter_eq_nil_iff]
    intro p hp
    simp only [beq_iff_eq]
    exact hB p hp
  rw [hl, hl']
  simp [List.filter_append, List.filter_cons, hBf]

/-! ### Non-vacuity

`MapExample` (two digest levels, T = 256): after seven insertions the element under first-level
digest 3 is an INLINE group (keys 311, 312, 313); inserting 314 makes it 4 × 21 + 5 + … bytes, over the
element limit 107, and the same `Set` exports it.  The kinds are computed by running the model. -/
section NonVacuity
open MapExample

/-- the first seven insertions of `MapExample.run` -/
def before : OMap 1 × Ctx :=
  [(211, 1), (111, 2), (112, 3), (121, 4), (311, 5), (312, 6), (313, 7)].foldl
    (fun s p => stepSet cfg2 s (key p.1) (val p.2)) st0

theorem before_good : Good 256 D2 cfg2 before := by
  unfold before
  simp only [List.foldl]
  iterate 7 refine Good.set legal256 ?_ (key_ok _) (val_ok _)
  exact Good.new legal256 rfl rfl _ _ _

example : kinds before.1 = ["inline", "single", "inline"] := by decide
example : kinds (stepSet cfg2 before (key 314) (val 8)).1 = ["inline", "single", "external"] := by decide
example : maxInlineMapElem 256 = 107 := by decide

/-- the theorem applies to that step -/
example (old : Option Elem) (m' : OMap 1) (c' : Ctx)
    (hs : before.1.set cfg2 (key 314) (val 8) before.2 = .ok (old, m', c')) :=
  export_exactly_when_oversized 256 D2 cfg2 before.1 m' before_good.inv (key 314) (val 8) before.2 c' old hs

/-- and a removal from the external group of `MapExample.run` keeps it external although it shrinks -/
example : kinds (stepRemove cfg2 MapExample.run (key 314)).1 =
    ["single", "inline", "inline", "external", "inline", "inline", "single", "single", "single"] := by decide

/-- the keys 311 … 314 of `MapExample.run` collide on both levels; a fifth such key (with a collision
    limit that admits it) is appended behind them -/
def cfg255 : MCfg := { cfg2 with climit := 255 }

example : (MapExample.run.1.toList.filter (fun p => p.1.digs == (key 315).digs)).map (fun p => p.1.pay) =
    [311, 312, 313, 314] := by decide

example : ((stepSet cfg255 MapExample.run (key 315) (val 0)).1.toList.filter
    (fun p => p.1.digs == (key 315).digs)).map (fun p => p.1.pay) = [311, 312, 313, 314, 315] := by decide

example (m' : OMap 1) (c' : Ctx) (hs : MapExample.run.1.set cfg255 (key 315) (val 0) MapExample.run.2 = .ok (none, m', c')) :=
  new_colliding_key_is_appended 256 legal256 D2 cfg255 MapExample.run.1 m' run_good.cfgok run_good.inv (key 315) (key_ok _)
    (val 0) MapExample.run.2 c' hs

end NonVacuity

end Atree.C12
