import AtreeProofs.Map.ExportTree
import AtreeProofs.Map.Example
/-
  C12 — the SHAPE of collision groups, as step theorems (audit a2/F7).

  `ElemsInv` (MapInv.lean) bounds inline groups at the first level but puts NO condition on external
  groups – rightly so, because the code never re-inlines an external group: after removals an external
  group may be smaller than the element limit.  So "a group lives in a slab of its own exactly when it
  is larger than the element limit" is not an invariant of states; what is true is a statement
  about STEPS:

    * `export_exactly_when_oversized`  one `Set` changes at most one first-level element, and a
      collision group that is born or updated by it ends up external if and only if
      `inlineCollisionGroupPrefixSize + size` exceeds `maxInlineMapElementSize`; an external group
      stays external (same slab); nothing else is exported, inlined or touched;
    * `no_reinline_on_shrink`           one `Remove` changes exactly one first-level element: a
      single element disappears, an inline group stays inline or collapses to its last single
      element, an external group stays external – whatever its size – or collapses to its last single
      element (and never becomes an inline group).

  Both are about the first-level elements of the WHOLE map (`OMap.elems0`: all data slabs, in
  order): splitting / merging / re-balancing slabs, promoting and splitting the root only move
  elements.  No digest, no size band is assumed beyond `MapInv`'s "one digest per element".
-/
namespace Atree.C12
open Atree Gen

variable {r : Nat}

/-- EXPORT EXACTLY WHEN OVERSIZED.  After a successful `Set`, the list of first-level elements of the
    map is the list before it with EITHER one new single element inserted, OR exactly one element
    `el` replaced by `el'` where (`SetKindRel`):
      * `el` external  ⇒ `el'` external with the same slab ID and element size;
      * `el` single, `el'` single (the value of that key was overwritten);
      * otherwise `el'` is a collision group `g'` (born from a single element and the new key, or the
        updated inline group), and
          `el'` is external  ⇒  `inlineCollisionGroupPrefixSize + size g' > maxInlineMapElem T`
                               (and its new slab has size `mapDataSlabPrefixSize + size g'`),
          `el'` is inline    ⇒  `inlineCollisionGroupPrefixSize + size g' ≤ maxInlineMapElem T`. -/
theorem export_exactly_when_oversized (T : Nat) (D : DigestFn (r + 1)) (cfg : MCfg) (m m' : OMap r)
    (h : MapInv T D m) (k : MKey) (v : Elem) (c c' : Ctx) (old : Option Elem)
    (hs : m.set cfg k v c = .ok (old, m', c')) :
    SetElemsRel cfg.T (MElems.ops r) m.elems0 m'.elems0 :=
  OMap.set_elems0 cfg m m' h k v c c' old hs

/-- the group size of an element that is a group -/
def groupSize (o : ElemsOps α) : MElemF α → Nat
  | .single _ => 0
  | .inl g => o.size g
  | .ext _ _ s => o.size s.elems

/-- the "if and only if" in one line: when the element that `Set` worked on was not already external
    and the result is a group, the group is external exactly when it is oversized -/
theorem SetKindRel.ext_iff {α : Type} {T : Nat} {o : ElemsOps α} {el el' : MElemF α} (h : SetKindRel T o el el')
    (hnot : ∀ id sz s, el ≠ .ext id sz s) (hgrp : el'.isGroup = true) :
    (∃ id sz s, el' = .ext id sz s) ↔ inlineCollisionGroupPrefixSize + groupSize o el' > maxInlineMapElem T := by
  cases el with
  | ext id sz s => exact absurd rfl (hnot id sz s)
  | single x =>
    cases el' with
    | single y => cases hgrp
    | inl g' =>
      have h' : inlineCollisionGroupPrefixSize + o.size g' ≤ maxInlineMapElem T := h
      constructor
      · rintro ⟨_, _, _, he⟩; cases he
      · intro hgt; simp only [groupSize] at hgt; omega
    | ext id' sz' s' =>
      have h' : inlineCollisionGroupPrefixSize + o.size s'.elems > maxInlineMapElem T ∧ _ := h
      exact ⟨fun _ => h'.1, fun _ => ⟨_, _, _, rfl⟩⟩
  | inl g =>
    cases el' with
    | single y => cases hgrp
    | inl g' =>
      have h' : inlineCollisionGroupPrefixSize + o.size g' ≤ maxInlineMapElem T := h
      constructor
      · rintro ⟨_, _, _, he⟩; cases he
      · intro hgt; simp only [groupSize] at hgt; omega
    | ext id' sz' s' =>
      have h' : inlineCollisionGroupPrefixSize + o.size s'.elems > maxInlineMapElem T ∧ _ := h
      exact ⟨fun _ => h'.1, fun _ => ⟨_, _, _, rfl⟩⟩

/-- NO RE-INLINING ON SHRINK.  After a successful `Remove`, exactly one first-level element `el` of
    the map was replaced by `el'?` (`none` = gone) where (`RemoveKindRel`): a single element is gone; an
    inline group is still an inline group or has collapsed to its last single element; an external
    group is still external with the same slab ID – even if it would now fit inline – or has
    collapsed to its last single element; it is never turned back into an inline group. -/
theorem no_reinline_on_shrink (cfg : MCfg) (m m' : OMap r) (k : MKey) (c c' : Ctx) (rk : MKey) (rv : Elem)
    (hs : m.remove cfg k c = .ok (rk, rv, m', c')) : RemoveElemsRel m.elems0 m'.elems0 :=
  OMap.remove_elems0 cfg m m' k c c' rk rv hs

/-! ### Non-vacuity

`MapExample` (two digest levels, T = 256): after seven insertions the element under first-level
digest 3 is an INLINE group (keys 311, 312, 313); inserting 314 makes it 4 × 21 + 5 + … bytes, over the
element limit 107, and the same `Set` exports it.  The kinds are computed by running the model. -/
section NonVacuity
open MapExample

/-- the first seven insertions of `MapExample.run` -/
def before : OMap 1 × Ctx :=
  [(211, 1), (111, 2), (112, 3), (121, 4), (311, 5), (312, 6), (313, 7)].foldl
    (fun s p => stepSet cfg2 s (key p.1) (val p.2)) st0

theorem before_good : Good 256 D2 cfg2 before := by
  unfold before
  simp only [List.foldl]
  iterate 7 refine Good.set legal256 ?_ (key_ok _) (val_ok _)
  exact Good.new legal256 rfl rfl _ _ _

example : kinds before.1 = ["inline", "single", "inline"] := by decide
example : kinds (stepSet cfg2 before (key 314) (val 8)).1 = ["inline", "single", "external"] := by decide
example : maxInlineMapElem 256 = 107 := by decide

/-- the theorem applies to that step -/
example (old : Option Elem) (m' : OMap 1) (c' : Ctx)
    (hs : before.1.set cfg2 (key 314) (val 8) before.2 = .ok (old, m', c')) :=
  export_exactly_when_oversized 256 D2 cfg2 before.1 m' before_good.inv (key 314) (val 8) before.2 c' old hs

/-- and a removal from the external group of `MapExample.run` keeps it external although it shrinks -/
example : kinds (stepRemove cfg2 MapExample.run (key 314)).1 =
    ["single", "inline", "inline", "external", "inline", "inline", "single", "single", "single"] := by decide

end NonVacuity

end Atree.C12
