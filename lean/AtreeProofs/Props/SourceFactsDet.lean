import AtreeModel.Gen.Facts
/-
  Source-level premises of the determinism properties (C04, C16), regenerated from the Go sources by
  harness/cmd/extract (detfacts.go) on every check run.

  C04  "the result does not depend on … hash-map iteration order": the ONLY way Go's randomised map
       iteration enters a computation is a `for … range m` over a map `m` (the package does not use
       `reflect`, `maps.Keys` or similar; a ranged expression whose type the extractor cannot resolve
       is listed as "maybe" and the lists of maybes are required to be empty).  The extractor lists
       every such loop of the package, split by whether its function is reachable from the encode /
       commit roots in the intra-package static call graph.  The theorems below state that these
       lists are EXACTLY the reviewed ones; each reviewed entry carries the reason why the iteration
       order cannot reach a register's bytes or the order of the deterministic commit's ledger calls.
       A new loop over a map anywhere in the package makes a theorem fail to check (seeded change
       s32 — `findDuplicateTypeInfo` counting in a map and ranging over it — adds the entry
       ("InlinedExtraData.findDuplicateTypeInfo", "typeInfoCounts") to the first list).

  C16  "despite the library's … global settings": the package-level variables of a plain build and who
       writes them.

  What these facts are: syntactic (go/ast, declared types, no type checker), per function.  The call
  graph over-approximates (a call through an interface goes to the method of that name of every type
  that has all the interface's methods; a call on a receiver of unresolved type to every method of
  that name; a function or method used as a value is an edge).  What they are not: a proof that the
  loops listed are order-independent — that is the review recorded here, backed where it matters by
  the model theorems named in the entries.
-/
namespace Atree

namespace C04

/-- The roots of the encode / commit paths are what they were when the lists below were reviewed:
    `EncodeSlab`, the 16 `Encode` methods (slabs, extra data, elements, storables — and
    `BasicSlabStorage.Encode`, which merely shares the name), the five other methods of `InlinedExtraData`,
    and the three commit functions of `PersistentSlabStorage`. -/
theorem encode_path_roots :
    Gen.encodePathRoots = [
      "ArrayDataSlab.Encode", "ArrayExtraData.Encode", "ArrayMetaDataSlab.Encode", "BasicSlabStorage.Encode",
      "EncodeSlab", "InlinedExtraData.Encode", "InlinedExtraData.addArrayExtraData",
      "InlinedExtraData.addCompactMapExtraData", "InlinedExtraData.addMapExtraData", "InlinedExtraData.empty",
      "InlinedExtraData.findDuplicateTypeInfo", "MapDataSlab.Encode", "MapExtraData.Encode",
      "MapMetaDataSlab.Encode", "PersistentSlabStorage.FastCommit",
      "PersistentSlabStorage.NondeterministicFastCommit", "PersistentSlabStorage.commit",
      "SlabIDStorable.Encode", "StorableSlab.Encode", "compactMapExtraData.Encode",
      "externalCollisionGroup.Encode", "hkeyElements.Encode", "inlineCollisionGroup.Encode",
      "singleElement.Encode", "singleElements.Encode"] := rfl

/-- The call graph is not trivially small: the functions the review of C04 cares about are in the
    reachable set — the key sorter of the commit, the extra-data deduplication and its helpers, the
    inlined encoders, the pooled-buffer helpers, the ledger writes. -/
theorem encode_path_reaches :
    ["PersistentSlabStorage.sortedOwnedDeltaKeys", "EncodeSlab", "InlinedExtraData.findDuplicateTypeInfo",
     "InlinedExtraData.addCompactMapExtraData", "makeCompactMapTypeID", "fieldNameSorter.join",
     "getEncodedTypeInfo", "ArrayDataSlab.encodeAsInlined", "MapDataSlab.encodeAsInlined",
     "encodeAsInlinedCompactMap", "encodeCompactMapValues", "getBuffer", "putBuffer", "getTypeIDBuffer",
     "putTypeIDBuffer", "LedgerBaseStorage.Store", "LedgerBaseStorage.Remove", "SlabID.ToRawBytes"].all
      (fun f => Gen.encodePathFunctions.contains f) = true := by decide

/-- **No unreviewed loop over a Go map in the encode / commit paths.**  The `for … range` statements over
    a map-typed expression in the functions reachable from the roots are exactly these three, and no
    ranged expression in those functions has a type the extractor could not resolve:

    * `PersistentSlabStorage.sortedOwnedDeltaKeys`, `s.deltas` — SORTED AFTERWARDS: the loop only
      filters (`id.address != AddressUndefined`) and appends the key to a slice, which is then sorted
      with `sort.Slice` by `SlabID.Compare`, a strict total order on the (distinct) keys; the sorted slice
      is the same for every enumeration order: `C04.sortedOwnedDeltaKeys_order_independent`,
      `C04.fastcommit_independent_of_map_order` (Props/C04Order.lean).
    * `PersistentSlabStorage.NondeterministicFastCommit`, `s.deltas` — THE EXPLICITLY ORDER-RELAXED
      COMMIT (the property allows it to differ in the order of its ledger calls, and in nothing else):
      the loop partitions the owned keys into modified (front of a slice) and deleted (back); the
      deletions and stores then go to the ledger in that order.  Every key is written exactly once and
      writes to distinct keys commute: `C04.nondet_commit_same_final_ledger` (for every enumeration
      order `mo`, `dlo`).
    * `BasicSlabStorage.Encode`, `s.Slabs` — COMMUTATIVE UPDATE, and not a ledger path: it fills a fresh
      Go map `m[id] = EncodeSlab(slab)` (distinct keys; each value is a function of its slab alone) of
      the in-memory test storage.  Only WHICH error is returned when several slabs fail to encode
      depends on the order. -/
theorem no_unreviewed_map_range_in_encode_paths :
    Gen.rangeOverMapInEncodePaths = [
      ("BasicSlabStorage.Encode", "s.Slabs"),
      ("PersistentSlabStorage.NondeterministicFastCommit", "s.deltas"),
      ("PersistentSlabStorage.sortedOwnedDeltaKeys", "s.deltas")] ∧
    Gen.rangeMaybeMapInEncodePaths = [] := ⟨rfl, rfl⟩

/-- **…and none elsewhere in the package.**  The loops over a map in the functions NOT reachable from
    the roots are exactly these, and again every ranged expression of the package has a resolved type
    (`rangeStmtCount` statements in all).  None of them is followed by an allocation of a slab ID, a
    `Store` / `Remove` on a storage, or a write to a slab — the ways an order could reach later bytes:

    * `Array.incrementIndexFrom`, `Array.decrementIndexFrom`, `a.mutableElementIndex` — COMMUTATIVE
      PER-KEY UPDATE: each entry is shifted iff ITS OWN value is `≥ index` (resp. `> index`); the map
      after the loop is the same for every order (`C10Idx.index_shift_order_independent'`,
      Props/C10IdxW.lean), and the fatal branch, after which the order in which entries were visited
      would show in the half-updated map, is unreachable (`C10Idx.increment_never_fails'`,
      Props/C10IdxW.lean).  `mutableElementIndex` is never encoded.
    * `BasicSlabStorage.SlabIDs`, `BasicSlabStorage.SlabIterator`, `s.Slabs` — READ-ONLY ENUMERATION of
      the in-memory test storage, handed to the caller in map order (the caller sees the order; no
      state of the library depends on it).
    * `PersistentSlabStorage.SlabIterator`, `s.deltas` and `s.cache` — READ-ONLY ENUMERATION: collects
      (id, slab) pairs and the ledger slabs they reference (`RetrieveIgnoringDeltas(id, false)`: no
      caching) into a slice for the caller; used by the health check and by migrations' reporting.
    * `CheckStorageHealth`, `parentOf` — AN ALL-QUANTIFIER: every referenced child must be among the
      slabs seen; the order decides only WHICH missing child the error names.
      `CheckStorageHealth`, `slabs` — AN EXISTS, for the error message: picks some unreachable slab to name.
    * `PersistentSlabStorage.DeltasWithoutTempAddresses`, `DeltasSizeWithoutTempAddresses`, `s.deltas` —
      COMMUTATIVE FOLD: a count and a sum.
    * `PersistentSlabStorage.HasUnsavedChanges`, `s.deltas` — AN EXISTS: is some key owned by `address`. -/
theorem no_unreviewed_map_range_elsewhere :
    Gen.rangeOverMapElsewhere = [
      ("Array.decrementIndexFrom", "a.mutableElementIndex"),
      ("Array.incrementIndexFrom", "a.mutableElementIndex"),
      ("BasicSlabStorage.SlabIDs", "s.Slabs"),
      ("BasicSlabStorage.SlabIterator", "s.Slabs"),
      ("CheckStorageHealth", "parentOf"),
      ("CheckStorageHealth", "slabs"),
      ("PersistentSlabStorage.DeltasSizeWithoutTempAddresses", "s.deltas"),
      ("PersistentSlabStorage.DeltasWithoutTempAddresses", "s.deltas"),
      ("PersistentSlabStorage.HasUnsavedChanges", "s.deltas"),
      ("PersistentSlabStorage.SlabIterator", "s.cache"),
      ("PersistentSlabStorage.SlabIterator", "s.deltas")] ∧
    Gen.rangeMaybeMapElsewhere = [] := ⟨rfl, rfl⟩

/-- In particular the two Go maps the encoder itself keeps — `InlinedExtraData.arrayExtraDataSet` and
    `compactMapTypeSet` — and the map `findDuplicateTypeInfo` returns are only ever LOOKED UP, never
    ranged over: no function of `InlinedExtraData`, no `Encode` method of a slab, an element or an extra
    data and no `encodeAs…` function is in a list above (the model of these lookups is a first-match search in the list of entries in insertion
    order, `Codec.addArrayXD` / `Codec.addCompactXD` / `Codec.encodeTyRef`; see Props/C04ExtraData.lean). -/
theorem extra_data_maps_never_ranged :
    ["InlinedExtraData.Encode", "InlinedExtraData.findDuplicateTypeInfo", "InlinedExtraData.addArrayExtraData",
     "InlinedExtraData.addMapExtraData", "InlinedExtraData.addCompactMapExtraData", "InlinedExtraData.empty",
     "ArrayDataSlab.Encode", "ArrayDataSlab.encodeElements", "ArrayDataSlab.encodeAsInlined",
     "MapDataSlab.Encode", "MapDataSlab.encodeElements", "MapDataSlab.encodeAsInlined",
     "MapDataSlab.encodeAsInlinedMap", "MapDataSlab.canBeEncodedAsCompactMap", "encodeAsInlinedCompactMap",
     "encodeCompactMapValues", "hkeyElements.Encode", "singleElements.Encode", "singleElement.Encode",
     "inlineCollisionGroup.Encode", "externalCollisionGroup.Encode", "ArrayExtraData.Encode",
     "MapExtraData.Encode", "compactMapExtraData.Encode", "getEncodedTypeInfo", "makeCompactMapTypeID",
     "fieldNameSorter.join", "EncodeSlab", "ArrayMetaDataSlab.Encode", "MapMetaDataSlab.Encode",
     "StorableSlab.Encode", "SlabIDStorable.Encode"].all
      (fun f => !((Gen.rangeOverMapInEncodePaths ++ Gen.rangeMaybeMapInEncodePaths ++
        Gen.rangeOverMapElsewhere ++ Gen.rangeMaybeMapElsewhere).map (·.1)).contains f) = true := by decide

end C04

namespace C16

/-- **Concurrent storages only READ the process-wide settings.**  In a plain build (no `_test.go`
    file, no `verif` build tag):
    * the six threshold variables are assigned by `setThreshold` and by nothing else;
      `maxCollisionLimitPerDigest` is assigned by nothing (it keeps its initial value);
    * the functions from which `setThreshold` is reachable in the static call graph — as a call or as
      a function value, package-level initialisers included — are `setThreshold` itself and `init`,
      which the Go runtime runs once, before `main` and before any goroutine of the program exists;
    * the other writers exist only in code that is not part of a plain build: `VerifSetThreshold` and
      `VerifSetMaxCollisionLimitPerDigest` in `verif_hooks.go` (build tag `verif`, used by this
      harness only between runs, never while a storage is in use), and `SetThreshold` /
      `SetMaxCollisionLimitPerDigest` in `export_test.go` (compiled by `go test` only).
    Hence goroutines that use their own storages never race on the settings: every access is a read
    of a value written before the goroutines were started. -/
theorem settings_written_only_by_init :
    Gen.settingsVarsDeclared = true ∧
    Gen.settingsVars = ["targetThreshold", "minThreshold", "maxThreshold", "maxInlineArrayElementSize",
      "maxInlineMapElementSize", "maxInlineMapKeySize", "maxCollisionLimitPerDigest"] ∧
    Gen.settingsWriters = ["setThreshold"] ∧
    Gen.settingsWriterReachers = ["init", "setThreshold"] ∧
    Gen.settingsWritersVerifOnly = ["VerifSetMaxCollisionLimitPerDigest", "VerifSetThreshold"] ∧
    Gen.verifHooksAreBuildTagged = true ∧
    Gen.settingsWritersTestOnly = ["<initialiser of SetThreshold>", "SetMaxCollisionLimitPerDigest"] ∧
    Gen.settingsWriterTestFiles = ["export_test.go"] := by decide

/-- **The package has no other mutable process-wide state.**  Every package-level variable of a plain
    build with its kind and the functions that write it (assignment, `op=`, `++`/`--`, also through a
    field / index / dereference rooted at it; its address taken; `clear` / `delete` / `copy` into it):
    apart from the six thresholds (written by `setThreshold`, see above) nothing is ever written.  The
    three `sync.Pool`s are mutated through `Get` / `Put` by their helper pairs only
    (`Buf.source_premises`; the pools are safe for concurrent use by contract, and what a recycled
    object can carry over is the subject of `Dig.pooled_history_refines_spec` and
    `Buf.pooled_history_refines_spec`).  The four iterator singletons hold pointers; no method of their
    type assigns through its receiver (`pointerVarPointeeMutators`).  The one slice
    (`typeInfoRefTagHeadAndTagNumber`) is only read (passed to `EncodeRawBytes`, which copies). -/
theorem package_state_is_settings_and_pools :
    Gen.packageVarWriters = [
      ("AddressUndefined", "value", []),
      ("SlabIDUndefined", "value", []),
      ("SlabIndexUndefined", "value", []),
      ("basicDigesterPool", "sync.Pool", []),
      ("bufferPool", "sync.Pool", []),
      ("defaultReadOnlyArrayIteratorMutatinCallback", "func", []),
      ("defaultReadOnlyMapIteratorMutatinCallback", "func", []),
      ("emptyBlake3Hash", "value", []),
      ("emptyMutableArrayIterator", "pointer", []),
      ("emptyMutableMapIterator", "pointer", []),
      ("emptyReadOnlyArrayIterator", "pointer", []),
      ("emptyReadOnlyMapIterator", "pointer", []),
      ("emptyValueID", "value", []),
      ("maxCollisionLimitPerDigest", "value", []),
      ("maxInlineArrayElementSize", "value", ["setThreshold"]),
      ("maxInlineMapElementSize", "value", ["setThreshold"]),
      ("maxInlineMapKeySize", "value", ["setThreshold"]),
      ("maxThreshold", "value", ["setThreshold"]),
      ("minThreshold", "value", ["setThreshold"]),
      ("targetThreshold", "value", ["setThreshold"]),
      ("typeIDBufferPool", "sync.Pool", []),
      ("typeInfoRefTagHeadAndTagNumber", "slice", [])] ∧
    Gen.pointerVarPointeeMutators = [] := ⟨rfl, rfl⟩

end C16

end Atree
