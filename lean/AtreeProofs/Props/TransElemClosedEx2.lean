import AtreeProofs.Props.TransElemClosedInvS
import AtreeProofs.Props.TransElemClosedEx
/-
  WP13, non-vacuity of the FULL closed `Remove` / `Set` theorems: on the two-level example of `Iter/MapExample.lean`
  (inline collision group with keys 11 / 12) every hypothesis of `elements_Remove_eq_model_closed` (key 12) and of
  `elements_Set_eq_model_closed` (key 13, which joins the group) holds.  The range conditions on the model's results are
  checked by evaluation (`rfl` on Boolean checks).
-/
namespace Atree.TransEq.MclEx
open Atree Atree.TransEq Atree.IterExample

def hfitB {α : Type} (g : HkeyElems α) : Bool :=
  decide (g.size < 2^32) && decide (g.level < 2^64) && g.hkeys.all (fun x => decide (x < 2^64))

theorem hfit_of {α : Type} {g : HkeyElems α} (h : hfitB g = true) : mcl_HFit g := by
  simp only [hfitB, Bool.and_eq_true, decide_eq_true_eq, List.all_eq_true] at h
  exact ⟨h.1.1, h.1.2, h.2⟩

def sfitB (g : SingleElems) : Bool :=
  decide (g.size < 2^32) && decide (g.level < 2^64) && g.elems.all (fun x => decide (x.size < 2^32))

theorem sfit_of {g : SingleElems} (h : sfitB g = true) : mcl_SFit g := by
  simp only [sfitB, Bool.and_eq_true, decide_eq_true_eq, List.all_eq_true] at h
  exact ⟨h.1.1, h.1.2, h.2⟩

def elFitB {α : Type} : MElemF α → Bool
  | .single x => decide (x.size < 2^32)
  | .inl _ => true
  | .ext _ sz s => decide (sz < 2^32) && decide (s.hdr.size < 2^32) && decide (s.hdr.firstKey < 2^64)

theorem elFit_of {α : Type} {el : MElemF α} (h : elFitB el = true) : mcl_ElFit el := by
  cases el with
  | single x => exact (of_decide_eq_true h : x.size < 2^32)
  | inl g => trivial
  | ext id sz s =>
    simp only [elFitB, Bool.and_eq_true, decide_eq_true_eq] at h
    exact ⟨h.1.1, h.1.2, h.2⟩

/-- a Boolean check of the third component of a successful result, decided by evaluation -/
def okB3 {A B G C : Type} (x : Except MErr (A × B × G × C)) (p : G → Bool) : Bool :=
  match x with | .ok r => p r.2.2.1 | .error _ => true

theorem chk3 {A B G C : Type} (x : Except MErr (A × B × G × C)) (p : G → Bool)
    (h : okB3 x p = true) (a : A) (b : B) (g : G) (c : C)
    (hx : x = .ok (a, b, g, c)) : p g = true := by
  rw [hx] at h; exact h

theorem chk1 {A B G C : Type} (x : Except MErr (A × B × G × C)) (p : A → Bool)
    (h : (match x with | .ok r => p r.1 | .error _ => true) = true) (a : A) (b : B) (g : G) (c : C)
    (hx : x = .ok (a, b, g, c)) : p a = true := by
  rw [hx] at h; exact h

def optElFitB {α : Type} : Option (MElemF α) → Bool
  | some el => elFitB el
  | none => true

/-! ### Remove of key 12 -/

theorem fitR_grp : mcl_FitR cfg (k 12) 1 grp 1 c0 := by
  refine ⟨hfit_of rfl, by decide, ?_, ?_⟩
  · intro rk rv g' c' h
    exact hfit_of (chk3 _ hfitB rfl rk rv g' c' h)
  · intro el hel
    simp only [grp, List.mem_cons, List.not_mem_nil, or_false] at hel
    refine ⟨?_, ?_⟩
    · intro g0 hg0
      rcases hel with rfl | rfl <;> simp [mei_nested] at hg0
    · intro rk rv el' c' h
      rcases hel with rfl | rfl
      · exact elFit_of (chk3 _ optElFitB rfl rk rv (some el') c' h)
      · exact elFit_of (chk3 _ optElFitB rfl rk rv (some el') c' h)

theorem fitR_root : mcl_FitR cfg (k 12) 2 rootElems 0 c0 := by
  refine ⟨hfit_of rfl, by decide, ?_, ?_⟩
  · intro rk rv g' c' h
    exact hfit_of (chk3 _ hfitB rfl rk rv g' c' h)
  · intro el hel
    simp only [rootElems, List.mem_cons, List.not_mem_nil, or_false] at hel
    refine ⟨?_, ?_⟩
    · intro g0 hg0
      rcases hel with rfl | rfl
      · have hg' : grp = g0 := Option.some.inj hg0
        subst hg'
        refine ⟨fitR_grp, ?_⟩
        intro rk rv g' c' h
        exact of_decide_eq_true
          (chk3 _ (fun g : HkeyElems SingleElems => decide (g.elems.length < 2^32)) rfl rk rv g' c' h)
      · simp [mei_nested] at hg0
    · intro rk rv el' c' h
      rcases hel with rfl | rfl
      · exact elFit_of (chk3 _ optElFitB rfl rk rv (some el') c' h)
      · exact elFit_of (chk3 _ optElFitB rfl rk rv (some el') c' h)

/-- every hypothesis of `elements_Remove_eq_model_closed` holds on the example (top level, key 12 of the group) -/
example : clElements_Remove cfg retr0 2 rootElems c0 (k 12) (u64 0) (u64 ((k 12).dig 0)) (.key (k 12)) =
    mei_rGRemove rootElems c0 ((MElems.ops 2).remove cfg rootElems 0 (k 12) c0) :=
  elements_Remove_eq_model_closed cfg (k 12) retr0 T0 D (by decide) (by decide) (by decide) (by decide) (kdig 12 (by decide))
    2 0 [] rootElems c0 root_elems_inv fitR_root (fun _ => retrOk c0)

/-! ### Set of key 13 (joins the collision group) -/

theorem fitG_grp : mcl_FitG 1 grp := by
  refine ⟨by decide, by decide, ?_⟩
  intro el hel g hg
  simp only [grp, List.mem_cons, List.not_mem_nil, or_false] at hel
  rcases hel with rfl | rfl <;> simp [mei_nested] at hg

/-- the Boolean checks for a single element `x` of a level-1 table (nested level = the last level) -/
def chkX (x : SElem) : Bool :=
  decide (x.key.size < 2^32) && decide (x.size < 2^32) && decide (x.size + Gen.singleElementsPrefixSize < 2^32) &&
  (match SingleElems.ops.newWith cfg 2 x with
   | .ok g0 => sfitB g0 &&
      (match SingleElems.set cfg g0 2 (k 13) (v 4) c0 with
       | .ok r => sfitB r.2.2.1 && decide (r.2.2.1.size + 2 < 2^32)
       | .error _ => true)
   | .error _ => true) &&
  (match (MElemF.single x : MElemF SingleElems).set SingleElems.ops cfg 1 (k 13) (v 4) c0 with
   | .ok r => elFitB r.1
   | .error _ => true)

/-- the per-element conjunct of `mcl_FitS .. 1` for a single element, from the Boolean checks -/
theorem fitS_x (x : SElem) (hb : chkX x = true) :
    (∀ g0, (mei_nested (MElemF.single x : MElemF SingleElems) = some g0 ∨
        ∃ x', (MElemF.single x : MElemF SingleElems) = .single x' ∧ (MElems.ops 0).newWith cfg (1 + 1) x' = .ok g0) →
      mcl_FitS cfg (k 13) (v 4) 0 g0 (1 + 1) c0 ∧ mcl_FitG 0 g0 ∧
      ∀ ks old g' c', (MElems.ops 0).set cfg g0 (1 + 1) (k 13) (v 4) c0 = .ok (ks, old, g', c') → (MElems.ops 0).size g' + 2 < 2^32) ∧
    (∀ x', (MElemF.single x : MElemF SingleElems) = .single x' → x'.key.size < 2^32 ∧ x'.size < 2^32 ∧ mcl_QN 0 (1 + 1) x') ∧
    (∀ id sz s, (MElemF.single x : MElemF SingleElems) = .ext id sz s → s.hdr.id.addr = cfg.addr) ∧
    (∀ el' ks old c', (MElemF.single x : MElemF SingleElems).set (MElems.ops 0) cfg 1 (k 13) (v 4) c0 = .ok (el', ks, old, c') →
      mcl_ElFit el') := by
  simp only [chkX, Bool.and_eq_true, decide_eq_true_eq] at hb
  obtain ⟨⟨⟨⟨h1, h2⟩, h3⟩, h4⟩, h5⟩ := hb
  refine ⟨?_, ?_, ?_, ?_⟩
  · intro g0 hg0
    rcases hg0 with hg0 | ⟨x', hx', hnw⟩
    · simp [mei_nested] at hg0
    · have hx'' : x = x' := MElemF.single.inj hx'
      subst hx''
      have hnw' : SingleElems.ops.newWith cfg 2 x = .ok g0 := hnw
      rw [hnw'] at h4
      simp only [Bool.and_eq_true] at h4
      refine ⟨⟨sfit_of h4.1, by decide, ?_⟩, trivial, ?_⟩
      · intro ks old g' c' h
        have h' : SingleElems.set cfg g0 2 (k 13) (v 4) c0 = .ok (ks, old, g', c') := h
        have h6 := h4.2
        rw [h'] at h6
        simp only [Bool.and_eq_true, decide_eq_true_eq] at h6
        exact sfit_of h6.1
      · intro ks old g' c' h
        have h' : SingleElems.set cfg g0 2 (k 13) (v 4) c0 = .ok (ks, old, g', c') := h
        have h6 := h4.2
        rw [h'] at h6
        simp only [Bool.and_eq_true, decide_eq_true_eq] at h6
        exact h6.2
  · intro x' hx'
    have hx'' : x = x' := MElemF.single.inj hx'
    subst hx''
    exact ⟨h1, h2, h3⟩
  · intro id sz s h
    cases h
  · intro el' ks old c' h
    have h' : (MElemF.single x : MElemF SingleElems).set SingleElems.ops cfg 1 (k 13) (v 4) c0 = .ok (el', ks, old, c') := h
    rw [h'] at h5
    exact elFit_of h5

/-- `mcl_FitS .. 1` for a level-1 table with two single elements -/
theorem fitS_lvl1 (g : HkeyElems SingleElems) (a b : SElem) (hel : g.elems = [.single a, .single b])
    (h1 : hfitB g = true) (h2 : g.hkeys.length < 2^62)
    (h3 : okB3 (HkeyElems.set SingleElems.ops cfg g 1 (k 13) (v 4) c0) hfitB = true)
    (ha : chkX a = true) (hb : chkX b = true) : mcl_FitS cfg (k 13) (v 4) 1 g 1 c0 := by
  refine ⟨hfit_of h1, h2, ?_, by decide, ?_, ?_⟩
  · intro el hmem
    have hm : el = .single a ∨ el = .single b := by
      have hm := hmem
      rw [hel] at hm
      rcases List.mem_cons.1 hm with h | h
      · exact Or.inl h
      · exact Or.inr (List.mem_singleton.1 h)
    rcases hm with rfl | rfl <;> exact (by decide : (1 : Nat) < 2^32)
  · intro ks old (g' : HkeyElems SingleElems) c' h
    have h' : HkeyElems.set SingleElems.ops cfg g 1 (k 13) (v 4) c0 = .ok (ks, old, g', c') := h
    exact hfit_of (chk3 (HkeyElems.set SingleElems.ops cfg g 1 (k 13) (v 4) c0) hfitB h3 ks old g' c' h')
  · intro el hmem
    have hm : el = .single a ∨ el = .single b := by
      have hm := hmem
      rw [hel] at hm
      rcases List.mem_cons.1 hm with h | h
      · exact Or.inl h
      · exact Or.inr (List.mem_singleton.1 h)
    rcases hm with rfl | rfl
    · exact fitS_x a ha
    · exact fitS_x b hb

theorem fitS_root : mcl_FitS cfg (k 13) (v 4) 2 rootElems 0 c0 := by
  refine ⟨hfit_of rfl, by decide, ?_, by decide, ?_, ?_⟩
  · intro el hmem
    simp only [rootElems, List.mem_cons, List.not_mem_nil, or_false] at hmem
    rcases hmem with rfl | rfl
    · exact (by decide : (2 : Nat) < 2^32)
    · exact (by decide : (1 : Nat) < 2^32)
  · intro ks old g' c' h
    exact hfit_of (chk3 _ hfitB rfl ks old g' c' h)
  · intro el hmem
    simp only [rootElems, List.mem_cons, List.not_mem_nil, or_false] at hmem
    rcases hmem with rfl | rfl
    · refine ⟨?_, ?_, ?_, ?_⟩
      · intro g0 hg0
        rcases hg0 with hg0 | ⟨x', hx', _⟩
        · have hg' : grp = g0 := Option.some.inj hg0
          subst hg'
          refine ⟨fitS_lvl1 grp x11 x12 rfl rfl (by decide) rfl rfl rfl, fitG_grp, ?_⟩
          intro ks old g' c' h
          exact of_decide_eq_true
            (chk3 _ (fun g : HkeyElems SingleElems => decide (g.size + 2 < 2^32)) rfl ks old g' c' h)
        · cases hx'
      · intro x' hx'; cases hx'
      · intro id sz s h; cases h
      · intro el' ks old c' h
        exact elFit_of (chk1 _ elFitB rfl el' ks old c' h)
    · refine ⟨?_, ?_, ?_, ?_⟩
      · intro g0 hg0
        rcases hg0 with hg0 | ⟨x', hx', hnw⟩
        · simp [mei_nested] at hg0
        · have hx'' : x25 = x' := MElemF.single.inj hx'
          subst hx''
          have hnw' : (MElems.ops 1).newWith cfg 1 x25 =
              .ok { level := 1, hkeys := [5], elems := [.single x25], size := 36 } := rfl
          rw [hnw'] at hnw
          have hg' := Except.ok.inj hnw
          subst hg'
          refine ⟨?_, ?_, ?_⟩
          · refine ⟨hfit_of rfl, by decide, ?_, by decide, ?_, ?_⟩
            · intro el hmem
              simp only [List.mem_cons, List.not_mem_nil, or_false] at hmem
              subst hmem
              exact (by decide : (1 : Nat) < 2^32)
            · intro ks old g' c' h
              exact hfit_of (chk3 _ hfitB rfl ks old g' c' h)
            · intro el hmem
              simp only [List.mem_cons, List.not_mem_nil, or_false] at hmem
              subst hmem
              exact fitS_x x25 rfl
          · refine ⟨by decide, by decide, ?_⟩
            intro el hmem g hg
            simp only [List.mem_cons, List.not_mem_nil, or_false] at hmem
            subst hmem
            simp [mei_nested] at hg
          · intro ks old g' c' h
            exact of_decide_eq_true
              (chk3 _ (fun g : HkeyElems SingleElems => decide (g.size + 2 < 2^32)) rfl ks old g' c' h)
      · intro x' hx'
        have hx'' : x25 = x' := MElemF.single.inj hx'
        subst hx''
        exact ⟨by decide, by decide, by decide, by decide⟩
      · intro id sz s h; cases h
      · intro el' ks old c' h
        exact elFit_of (chk1 _ elFitB rfl el' ks old c' h)

/-- every hypothesis of `elements_Set_eq_model_closed` holds on the example (top level, key 13 joins the group) -/
example : clElements_Set cfg retr0 2 rootElems c0 cfg.addr () (k 13) (u64 0) (u64 ((k 13).dig 0)) (.key (k 13)) (.val (v 4)) =
    mei_rGSet rootElems c0 ((MElems.ops 2).set cfg rootElems 0 (k 13) (v 4) c0) :=
  elements_Set_eq_model_closed cfg (k 13) (v 4) retr0 D (by decide) (by decide) (by decide) (by decide) (by decide)
    (kdig 13 (by decide)) 2 0 [] rootElems c0 root_elems_inv fitS_root fitG (fun _ => retrOk c0)

end Atree.TransEq.MclEx
