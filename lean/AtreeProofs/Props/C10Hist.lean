import AtreeProofs.World.History
import AtreeProofs.Props.C10WAll
import AtreeProofs.Props.C10WPop
/-
  C10 — HISTORIES (audit a5, S2).  PROPERTY THEOREMS.

  `history_invariant`: for EVERY history of requests made through handles the client holds
  (`World.Run`, AtreeProofs/WorldHistory.lean: creations, inserts / overwrites / removals of plain
  values and of child containers, lookups, type changes, bulk pops, disposals, reopening — in any
  interleaving, through any of the handles obtained so far, at any depth), starting from the empty
  world, the global invariant `WorldOk'` holds and EVERY handle the client holds is current
  (`HandleOk`) and names a live container.  No hypothesis `HandleOk` is made along the way: that
  a handle obtained on creation / by lookup / by being handed a container back stays current while
  OTHER handles are used is what the operation theorems `worldOk'_*_all` (`HandlesKept`) provide.

  `history_refines`: the table of signatures of the final world (kind, keys, payloads of every
  container: all that reading through references looks at) is what the SPECIFICATION `SpecRun` —
  arrays as sequences, maps as key / payload lists, each request changing only the container it
  addresses — yields for the same requests, and every returned payload is the specification's.

  `history_read_through`: the deep value read through any container of the final world is the deep
  value of the specification's table; and every reference element met on the way has the size of
  the current form of the container it refers to, that container being inline exactly when it fits
  the slot (the crown statement of C10, at history level).
-/
namespace Atree.C10Hist
open Atree Gen World

/-- the invariant of histories: `WorldOk'`, and every handle held is current and live -/
def HInv (D : SlabID → DigestFn 4) (s : HState) : Prop :=
  WorldOk' D s.w s.cx.ctr ∧ ∀ z, s.hs z → HandleOk s.w z ∧ (s.w.cont? z).isSome

/-- a container handed back is a live root afterwards -/
private theorem handedBack_handle {w w' : World} {old : Elem} (h : HandedBack w w' old) {z : SlabID}
    (hz : old.pay = .ref z) (hl : (w.cont? z).isSome) : HandleOk w' z ∧ (w'.cont? z).isSome := by
  obtain ⟨c, hc⟩ := Option.isSome_iff_exists.mp hl
  obtain ⟨c', hc', _, _, _, hr⟩ := h z c hz hc
  exact ⟨HandleOk.root z hr, by rw [hc']; rfl⟩

/-- ONE REQUEST keeps the invariant of histories. -/
theorem step_invariant (D : SlabID → DigestFn 4) {s s' : HState} {op : WOp} {ob : WObs} (I : HInv D s)
    (h : Step D s op ob s') : HInv D s' := by
  obtain ⟨H, hh⟩ := I
  cases h with
  | newArr ty =>
    obtain ⟨g1, _, g3, ⟨a, ga, gl, _⟩, g5, g6⟩ := C10W.worldOk'_newArr D s.w ty s.cx H
    refine ⟨g1, fun z hz => ?_⟩
    rcases hz with hz | rfl
    · obtain ⟨k1, k2⟩ := hh z hz
      have hzx : z ≠ (s.w.newArr ty s.cx).1 := fun he => by rw [he, g3] at k2; cases k2
      exact ⟨handleOk_new g3 ga (by simp [Cont.pays, Cont.storedElems, gl]) g5 rfl rfl k1,
        by rw [g5 z hzx]; exact k2⟩
    · exact ⟨g6, by rw [ga]; rfl⟩
  | newMap ty seed =>
    obtain ⟨g1, _, g3, ⟨m, ga, gl, _⟩, g5, g6⟩ := C10W.worldOk'_newMap D s.w ty seed s.cx H
    refine ⟨g1, fun z hz => ?_⟩
    rcases hz with hz | rfl
    · obtain ⟨k1, k2⟩ := hh z hz
      have hzx : z ≠ (s.w.newMap ty seed s.cx).1 := fun he => by rw [he, g3] at k2; cases k2
      exact ⟨handleOk_new g3 ga (by simp [Cont.pays, Cont.storedElems, gl]) g5 rfl rfl k1,
        by rw [g5 z hzx]; exact k2⟩
    · exact ⟨g6, by rw [ga]; rfl⟩
  | arrInsert p i v w' cx' hp hv hop =>
    obtain ⟨g1, _, g3, _, g5, g6, _⟩ := C10W.worldOk'_arrInsert_all D s.w p i v s.cx w' cx' H (hh p hp).1 hv hop
    have hpl : (w'.cont? p).isSome := by obtain ⟨a, a', e, _, h2, _⟩ := g3; rw [h2]; rfl
    exact ⟨g1, fun z hz => ⟨g6 z (hh z hz).1 (g5.live_at hpl (hh z hz).2), g5.live_at hpl (hh z hz).2⟩⟩
  | arrSet p i v old w' cx' hp hv hop =>
    obtain ⟨g1, _, g3, _, g5, g6, _⟩ := C10W.worldOk'_arrSet_all D s.w p i v s.cx old w' cx' H (hh p hp).1 hv hop
    obtain ⟨a, a', old0, e, _, h2, _, _, h5, h6, _⟩ := g3
    have hpl : (w'.cont? p).isSome := by rw [h2]; rfl
    refine ⟨g1, fun z hz => ?_⟩
    rcases hz with hz | ⟨hz1, hz2⟩
    · exact ⟨g6 z (hh z hz).1 (g5.live_at hpl (hh z hz).2), g5.live_at hpl (hh z hz).2⟩
    · exact handedBack_handle h6 (by rw [← h5]; exact hz1) hz2
  | arrRemove p i old w' cx' hp hop =>
    obtain ⟨g1, _, g3, _, g5, g6, _⟩ := C10W.worldOk'_arrRemove_all D s.w p i s.cx old w' cx' H (hh p hp).1 hop
    obtain ⟨a, a', old0, _, h2, _, _, h5, h6⟩ := g3
    have hpl : (w'.cont? p).isSome := by rw [h2]; rfl
    refine ⟨g1, fun z hz => ?_⟩
    rcases hz with hz | ⟨hz1, hz2⟩
    · exact ⟨g6 z (hh z hz).1 (g5.live_at hpl (hh z hz).2), g5.live_at hpl (hh z hz).2⟩
    · exact handedBack_handle h6 (by rw [← h5]; exact hz1) hz2
  | mapSet p k v old w' cx' hp hk hv hop =>
    obtain ⟨g1, _, g3, _, g5, g6, _⟩ :=
      C10W.worldOk'_mapSet_all D s.w p k v s.cx old w' cx' H (hh p hp).1 hk hv hop
    obtain ⟨m, m', e, oldo, _, h2, _, h4, h5, _⟩ := g3
    have hpl : (w'.cont? p).isSome := by rw [h2]; rfl
    refine ⟨g1, fun z hz => ?_⟩
    rcases hz with hz | ⟨o, ho, hz1, hz2⟩
    · exact ⟨g6 z (hh z hz).1 (g5.live_at hpl (hh z hz).2), g5.live_at hpl (hh z hz).2⟩
    · cases hoo : oldo with
      | none => rw [h5 hoo] at ho; cases ho
      | some o0 =>
        obtain ⟨o', ho', hp', hb⟩ := h4 o0 hoo
        rw [ho] at ho'; cases ho'
        exact handedBack_handle hb (by rw [← hp']; exact hz1) hz2
  | mapRemove p k rk rv w' cx' hp hk hop =>
    obtain ⟨g1, _, g3, _, g5, g6, _⟩ :=
      C10W.worldOk'_mapRemove_all D s.w p k s.cx rk rv w' cx' H (hh p hp).1 hk hop
    obtain ⟨m, m', rv0, _, h2, _, _, h5, h6⟩ := g3
    have hpl : (w'.cont? p).isSome := by rw [h2]; rfl
    refine ⟨g1, fun z hz => ?_⟩
    rcases hz with hz | ⟨hz1, hz2⟩
    · exact ⟨g6 z (hh z hz).1 (g5.live_at hpl (hh z hz).2), g5.live_at hpl (hh z hz).2⟩
    · exact handedBack_handle h6 (by rw [← h5]; exact hz1) hz2
  | arrGet p i el w' hp hop =>
    obtain ⟨g1, g2, _, g4, g5⟩ := C10W.worldOk'_arrGet D s.w p i el w' s.cx.ctr H (hh p hp).1 hop
    refine ⟨g1, fun z hz => ?_⟩
    rcases hz with hz | ⟨hz1, hz2⟩
    · exact ⟨g4 z (hh z hz).1, by rw [g2]; exact (hh z hz).2⟩
    · exact ⟨g5 z hz1 hz2, by rw [g2]; exact hz2⟩
  | mapGet p k el w' hp hk hop =>
    obtain ⟨g1, g2, _, g4, g5⟩ := C10W.worldOk'_mapGet D s.w p k el w' s.cx.ctr H (hh p hp).1 hk hop
    refine ⟨g1, fun z hz => ?_⟩
    rcases hz with hz | ⟨hz1, hz2⟩
    · exact ⟨g4 z (hh z hz).1, by rw [g2]; exact (hh z hz).2⟩
    · exact ⟨g5 z hz1 hz2, by rw [g2]; exact hz2⟩
  | setType p ty w' cx' hp hop =>
    obtain ⟨g1, _, _, _, g5, g6, _⟩ := C10W.worldOk'_setType_all D s.w p ty s.cx w' cx' H (hh p hp).1 hop
    exact ⟨g1, fun z hz => ⟨g6 z (hh z hz).1 (by rw [g5.isSome]; exact (hh z hz).2),
      by rw [g5.isSome]; exact (hh z hz).2⟩⟩
  | arrPop p es w' cx' hp hop =>
    obtain ⟨a, _, _, g1, _, _, _, _, g8⟩ := C10W.worldOk_arrPop D s.w p s.cx es w' cx' H (hh p hp).1 hop
    exact ⟨g1, fun z hz => ⟨g8 z (hh z hz.1).1 hz.2, hz.2⟩⟩
  | mapPop p kvs w' cx' hp hop =>
    obtain ⟨m, _, _, g1, _, _, _, _, g8⟩ := C10W.worldOk_mapPop D s.w p s.cx kvs w' cx' H (hh p hp).1 hop
    exact ⟨g1, fun z hz => ⟨g8 z (hh z hz.1).1 hz.2, hz.2⟩⟩
  | dispose k hk hd =>
    obtain ⟨g1, g2⟩ := C10W.worldOk_forget D s.w k s.cx.ctr H hd
    exact ⟨g1, fun z hz => ⟨handleOk_forget g2 (hh z hz.1).1 hz.2, hz.2⟩⟩
  | reopen roots =>
    obtain ⟨g1, g2, g3⟩ := C10W.worldOk'_reopen D s.w s.cx.ctr H
    exact ⟨C10W.worldOk'_of_worldOk g1, fun z hz => ⟨g3 z hz.2.2, by rw [g2]; exact hz.2.1⟩⟩

/-- a history keeps the invariant of histories -/
theorem run_invariant (D : SlabID → DigestFn 4) {s s' : HState} {tr : List (WOp × WObs)} (I : HInv D s)
    (h : Run D s tr s') : HInv D s' := by
  induction h with
  | nil => exact I
  | cons hs _ ih => exact ih (step_invariant D I hs)

/-- THE HISTORY THEOREM.  Along every history of requests through handles the client holds, from
    the empty world: the global invariant holds, and every handle the client holds — obtained on
    creation, by lookup, by being handed a container back, by opening a root after a reopen; not
    invalidated by a pop / disposal of its container — is current and names a live container. -/
theorem history_invariant (D : SlabID → DigestFn 4) (T addr : Nat) (cx0 : Ctx) (hT : legalThreshold T = true)
    (tr : List (WOp × WObs)) (s : HState) (h : Run D (HState.init T addr cx0) tr s) :
    WorldOk' D s.w s.cx.ctr ∧ ∀ z, s.hs z → HandleOk s.w z ∧ (s.w.cont? z).isSome :=
  run_invariant D ⟨C10W.worldOk'_new D T addr cx0.ctr hT, fun _ hz => absurd hz id⟩ h

/-- so the NEXT request through any handle held meets the hypotheses of the operation theorems -/
theorem history_next_handle_current (D : SlabID → DigestFn 4) (T addr : Nat) (cx0 : Ctx)
    (hT : legalThreshold T = true) (tr : List (WOp × WObs)) (s : HState)
    (h : Run D (HState.init T addr cx0) tr s) (p : SlabID) (hp : s.hs p) :
    WorldOk' D s.w s.cx.ctr ∧ HandleOk s.w p :=
  ⟨(history_invariant D T addr cx0 hT tr s h).1, ((history_invariant D T addr cx0 hT tr s h).2 p hp).1⟩

/-! ### the specification -/

private theorem pay_of_stored {v : WVal} {e : Elem} (h5 : ∀ e0, v = .plain e0 → e = e0)
    (h6 : ∀ x wr, v = .child x wr → e.pay = .ref x) : e.pay = payOf v := by
  cases v with
  | plain e0 => rw [h5 e0 rfl]; rfl
  | child x wr => exact h6 x wr rfl

/-- ONE REQUEST refines its specification on the table of signatures, observation included. -/
theorem step_refines (D : SlabID → DigestFn 4) {s s' : HState} {op : WOp} {ob : WObs} (I : HInv D s)
    (h : Step D s op ob s') : SpecStep (absTab s.w) op ob (absTab s'.w) := by
  obtain ⟨H, hh⟩ := I
  cases h with
  | newArr ty =>
    obtain ⟨_, _, g3, ⟨a, ga, gl, _⟩, g5, _⟩ := C10W.worldOk'_newArr D s.w ty s.cx H
    have e1 : absTab (s.w.newArr ty s.cx).2.1 = (absTab s.w).upd (s.w.newArr ty s.cx).1 (true, []) := by
      funext z
      unfold Tab.upd
      by_cases hz : z = (s.w.newArr ty s.cx).1
      · rw [if_pos hz, hz, absTab_of ga, sig_arr, gl]; rfl
      · rw [if_neg hz]; unfold absTab; rw [g5 z hz]
    show SpecStep (absTab s.w) _ _ (absTab (s.w.newArr ty s.cx).2.1)
    rw [e1]
    exact SpecStep.newArr _ ty _ (by unfold absTab; rw [g3]; rfl)
  | newMap ty seed =>
    obtain ⟨_, _, g3, ⟨m, ga, gl, _⟩, g5, _⟩ := C10W.worldOk'_newMap D s.w ty seed s.cx H
    have e1 : absTab (s.w.newMap ty seed s.cx).2.1 = (absTab s.w).upd (s.w.newMap ty seed s.cx).1 (false, []) := by
      funext z
      unfold Tab.upd
      by_cases hz : z = (s.w.newMap ty seed s.cx).1
      · rw [if_pos hz, hz, absTab_of ga, sig_map, gl]; rfl
      · rw [if_neg hz]; unfold absTab; rw [g5 z hz]
    show SpecStep (absTab s.w) _ _ (absTab (s.w.newMap ty seed s.cx).2.1)
    rw [e1]
    exact SpecStep.newMap _ ty seed _ (by unfold absTab; rw [g3]; rfl)
  | arrInsert p i v w' cx' hp hv hop =>
    obtain ⟨_, _, g3, _, g5⟩ := C10W.worldOk'_arrInsert D s.w p i v s.cx w' cx' H (hh p hp).1 hv hop
    obtain ⟨a, a', e, h1, h2, h3, h4, h5, h6⟩ := g3
    have hpay := pay_of_stored h5 (fun x wr hx => (h6 x wr hx).1)
    have e1 : (Cont.arr a').sig =
        (true, (a.toList.map (fun e => ((none : Option MKey), e.pay))).insertIdx i (none, payOf v)) := by
      rw [sig_arr, h4, map_insertIdx', hpay]
    show SpecStep (absTab s.w) _ _ (absTab w')
    rw [absTab_upd g5 h2, e1]
    exact SpecStep.arrInsert _ p i v _ (absTab_of h1) (by simpa using h3)
  | arrSet p i v old w' cx' hp hv hop =>
    obtain ⟨_, _, g3, _, g5⟩ := C10W.worldOk'_arrSet D s.w p i v s.cx old w' cx' H (hh p hp).1 hv hop
    obtain ⟨a, a', old0, e, h1, h2, h3, h4, h5, _, h7, h8⟩ := g3
    have hpay := pay_of_stored h7 (fun x wr hx => (h8 x wr hx).1)
    have e1 : (Cont.arr a').sig =
        (true, (a.toList.map (fun e => ((none : Option MKey), e.pay))).set i (none, payOf v)) := by
      rw [sig_arr, h4, List.map_set, hpay]
    show SpecStep (absTab s.w) _ _ (absTab w')
    rw [absTab_upd g5 h2, e1, h5]
    exact SpecStep.arrSet _ p i v _ _ (absTab_of h1) (by rw [List.getElem?_map, h3]; rfl)
  | arrRemove p i old w' cx' hp hop =>
    obtain ⟨_, _, g3, _, g5⟩ := C10W.worldOk'_arrRemove D s.w p i s.cx old w' cx' H (hh p hp).1 hop
    obtain ⟨a, a', old0, h1, h2, h3, h4, h5, _⟩ := g3
    have e1 : (Cont.arr a').sig =
        (true, (a.toList.map (fun e => ((none : Option MKey), e.pay))).eraseIdx i) := by
      rw [sig_arr, h4, map_eraseIdx']
    show SpecStep (absTab s.w) _ _ (absTab w')
    rw [absTab_upd g5 h2, e1, h5]
    exact SpecStep.arrRemove _ p i _ _ (absTab_of h1) (by rw [List.getElem?_map, h3]; rfl)
  | mapSet p k v old w' cx' hp hk hv hop =>
    obtain ⟨_, _, g3, _, g5⟩ := C10W.worldOk'_mapSet D s.w p k v s.cx old w' cx' H (hh p hp).1 hk hv hop
    obtain ⟨m, m', e, oldo, h1, h2, h3, h4, h5, h6, h7⟩ := g3
    have hpay := pay_of_stored h6 (fun x wr hx => (h7 x wr hx).1)
    show SpecStep (absTab s.w) _ _ (absTab w')
    rw [absTab_upd g5 h2, sig_map]
    rcases h3 with ⟨ho, hne, A, B, hA, hB⟩ | ⟨v0, A, B, ho, hA, hB⟩
    · rw [h5 ho, hB, List.map_append, List.map_cons, hpay]
      refine SpecStep.mapSetNew _ p k v _ _ (by rw [absTab_of h1, sig_map, hA, List.map_append]) ?_
      intro t ht
      rw [← List.map_append, ← hA] at ht
      obtain ⟨q, hq, rfl⟩ := List.mem_map.mp ht
      intro he
      exact hne q hq (by simpa using he)
    · obtain ⟨o', ho', hp', _⟩ := h4 v0 ho
      rw [ho', hB, List.map_append, List.map_cons, hpay]
      show SpecStep _ _ (.opay (some o'.pay)) _
      rw [hp']
      exact SpecStep.mapSetOld _ p k v _ _ _ (by rw [absTab_of h1, sig_map, hA, List.map_append]; rfl)
  | mapRemove p k rk rv w' cx' hp hk hop =>
    obtain ⟨_, _, g3, _, g5⟩ := C10W.worldOk'_mapRemove D s.w p k s.cx rk rv w' cx' H (hh p hp).1 hk hop
    obtain ⟨m, m', rv0, h1, h2, _, ⟨A, B, hA, hB⟩, h5, _⟩ := g3
    show SpecStep (absTab s.w) _ _ (absTab w')
    rw [absTab_upd g5 h2, sig_map, hB, List.map_append, h5]
    exact SpecStep.mapRemove _ p k _ _ _ (by rw [absTab_of h1, sig_map, hA, List.map_append]; rfl)
  | arrGet p i el w' hp hop =>
    obtain ⟨_, g2, ⟨a, ha, hel⟩, _⟩ := C10W.worldOk'_arrGet D s.w p i el w' s.cx.ctr H (hh p hp).1 hop
    show SpecStep (absTab s.w) _ _ (absTab w')
    rw [absTab_eq_of_conts g2]
    exact SpecStep.arrGet _ p i _ _ (absTab_of ha) (by rw [List.getElem?_map, hel]; rfl)
  | mapGet p k el w' hp hk hop =>
    obtain ⟨_, g2, ⟨m, hm, hmem⟩, _⟩ := C10W.worldOk'_mapGet D s.w p k el w' s.cx.ctr H (hh p hp).1 hk hop
    show SpecStep (absTab s.w) _ _ (absTab w')
    rw [absTab_eq_of_conts g2]
    exact SpecStep.mapGet _ p k _ _ (absTab_of hm) (List.mem_map.mpr ⟨(k, el), hmem, rfl⟩)
  | setType p ty w' cx' hp hop =>
    obtain ⟨_, _, _, _, g5, _⟩ := C10W.worldOk'_setType_all D s.w p ty s.cx w' cx' H (hh p hp).1 hop
    have e1 : absTab w' = absTab s.w := by funext z; exact g5.sig z
    show SpecStep (absTab s.w) _ _ (absTab w')
    rw [e1]
    exact SpecStep.setType _ p ty (by rw [absTab_isSome]; exact (hh p hp).2)
  | arrPop p es w' cx' hp hop =>
    obtain ⟨a, hc, hes, _, _, ⟨c', hc', hsig, _, _⟩, ⟨F1, F2, _, F4⟩, _⟩ :=
      C10W.worldOk_arrPop D s.w p s.cx es w' cx' H (hh p hp).1 hop
    have hps : ((Cont.arr a).sig.2).map (·.2) = (Cont.arr a).pays := (Cont.pays_eq_sig _).symm
    have hobs : es.map (·.pay) = (((Cont.arr a).sig.2).map (·.2)).reverse := by
      rw [hps, hes, List.map_reverse]; rfl
    show SpecStep (absTab s.w) _ (.pays (es.map (·.pay))) (absTab w')
    rw [hobs]
    refine SpecStep.arrPop _ _ p _ (absTab_of hc) (by rw [absTab_of hc', hsig]; rfl) ⟨?_, ?_, ?_⟩
    · intro v x hv hr
      rw [hps] at hv
      obtain ⟨e, he, hp'⟩ := mem_pays_iff.mp hv
      have := F1 e (by unfold disposedOf; rw [C10Get.disposed_nil]; exact he) v x hp' ((reach_iff_treach _ _ _).mpr hr)
      unfold absTab; rw [this]; rfl
    · intro z hz hnb
      refine F2 z hz (fun e he v hp' hr => ?_)
      unfold disposedOf at he; rw [C10Get.disposed_nil] at he
      exact hnb v (by rw [hps]; exact mem_pays_iff.mpr ⟨e, he, hp'⟩) ((reach_iff_treach _ _ _).mp hr)
    · intro z hz
      rw [absTab_isSome] at hz ⊢
      exact F4 z hz
  | mapPop p kvs w' cx' hp hop =>
    obtain ⟨m, hc, hes, _, _, ⟨c', hc', hsig, _, _⟩, ⟨F1, F2, _, F4⟩, _⟩ :=
      C10W.worldOk_mapPop D s.w p s.cx kvs w' cx' H (hh p hp).1 hop
    have hps : ((Cont.map m).sig.2).map (·.2) = (Cont.map m).pays := (Cont.pays_eq_sig _).symm
    show SpecStep (absTab s.w) _ _ (absTab w')
    refine SpecStep.mapPop _ _ p (Cont.map m).sig.2 _ (absTab_of hc) ?_ (by rw [absTab_of hc', hsig]; rfl) ⟨?_, ?_, ?_⟩
    · show m.toList.map (fun p => (some p.1, p.2.pay)) = _
      rw [hes]
      simp [List.map_reverse, List.map_map, Function.comp_def]
    · intro v x hv hr
      rw [hps] at hv
      obtain ⟨e, he, hp'⟩ := mem_pays_iff.mp hv
      have := F1 e (by unfold disposedOf; rw [C10Get.disposed_nil]; exact he) v x hp' ((reach_iff_treach _ _ _).mpr hr)
      unfold absTab; rw [this]; rfl
    · intro z hz hnb
      refine F2 z hz (fun e he v hp' hr => ?_)
      unfold disposedOf at he; rw [C10Get.disposed_nil] at he
      exact hnb v (by rw [hps]; exact mem_pays_iff.mpr ⟨e, he, hp'⟩) ((reach_iff_treach _ _ _).mp hr)
    · intro z hz
      rw [absTab_isSome] at hz ⊢
      exact F4 z hz
  | dispose k hk hd =>
    obtain ⟨f1, f2, _, _⟩ := C10W.forget_removes_exactly_the_subtree s.w k
    show SpecStep (absTab s.w) _ _ (absTab (World.forget s.w.fuelOf s.w k))
    refine SpecStep.dispose _ _ k (fun x hx => ?_) (fun z hz => ?_)
    · unfold absTab; rw [(f1 x ((reach_iff_treach _ _ _).mpr hx)).1]; rfl
    · unfold absTab; rw [(f2 z (fun hr => hz ((reach_iff_treach _ _ _).mp hr))).1]
  | reopen roots => exact SpecStep.reopen _ roots

/-- a history refines its specification -/
theorem run_refines (D : SlabID → DigestFn 4) {s s' : HState} {tr : List (WOp × WObs)} (I : HInv D s)
    (h : Run D s tr s') : SpecRun (absTab s.w) tr (absTab s'.w) := by
  induction h with
  | nil => exact SpecRun.nil _
  | cons hs _ ih => exact SpecRun.cons (step_refines D I hs) (ih (step_invariant D I hs))

/-- THE REFINEMENT THEOREM AT HISTORY LEVEL.  The table of signatures of the world reached by a
    history (kind, keys and payloads of every container) is a result of the specification for the same
    requests, with the same returned payloads. -/
theorem history_refines (D : SlabID → DigestFn 4) (T addr : Nat) (cx0 : Ctx) (hT : legalThreshold T = true)
    (tr : List (WOp × WObs)) (s : HState) (h : Run D (HState.init T addr cx0) tr s) :
    SpecRun (fun _ => none) tr (absTab s.w) :=
  run_refines D ⟨C10W.worldOk'_new D T addr cx0.ctr hT, fun _ hz => absurd hz id⟩ h

/-- READ-THROUGH AT HISTORY LEVEL.  After any history:
    * the deep value read through any container `r` (following references, to any depth) is the deep
      value of a table the specification yields for the same requests;
    * for every reference met on the way — `p` holds an element referring to the live container `x` —
      the element has the size of `x`'s CURRENT form behind its wrappers, `x` is filed under its
      value ID, and `x` is inline exactly when it fits the per-element limit of that slot. -/
theorem history_read_through (D : SlabID → DigestFn 4) (T addr : Nat) (cx0 : Ctx) (hT : legalThreshold T = true)
    (tr : List (WOp × WObs)) (s : HState) (h : Run D (HState.init T addr cx0) tr s) :
    (∃ A, SpecRun (fun _ => none) tr A ∧ ∀ fuel r, deepVal s.w fuel r = deepPay A fuel (.ref r)) ∧
    (∀ p pc lim e x c, s.w.cont? p = some pc → (lim, e) ∈ pc.slots s.w.T → e.pay = .ref x → s.w.cont? x = some c →
      c.vid = x ∧ ∃ wrap, slabIDStorableSize + 2 * wrap ≤ lim ∧ e.size = slotSize c wrap ∧
        c.isInlined = c.inlinable (lim - 2 * wrap)) := by
  obtain ⟨H, _⟩ := history_invariant D T addr cx0 hT tr s h
  refine ⟨⟨absTab s.w, history_refines D T addr cx0 hT tr s h, fun _ _ => rfl⟩, ?_⟩
  intro p pc lim e x c hp hle hx hc
  exact ⟨(C10W.worldOk'_contOk H x c hc).2, C10W.worldOk'_inline_iff_fits H p pc hp lim e hle x c hx hc⟩

end Atree.C10Hist
