import AtreeModel.StorageOps
import AtreeProofs.StorageLemmas
import AtreeProofs.CommitLemmas
import AtreeProofs.StorageLemmas2
import AtreeProofs.CommitLemmas2
import AtreeProofs.StorageExample
import AtreeProofs.Props.C14
/-
  C14 / C03 — when exactly a commit succeeds or fails, and what a crash after FAILED commit
  attempts leaves in the ledger.
  PROPERTY THEOREMS (helpers in AtreeProofs/CommitLemmas2.lean).

  A.  `commit_call_count`, `commit_succeeds_if_no_fault_reached`,
      `commit_succeeds_if_faults_beyond_pending`, `commit_fails_if_fault_reached`:
      a commit issues one base-storage call per owned pending identifier and stops at the first
      faulted call; it succeeds iff no faulted position is reached.
  B.  `failed_commit_registers_old_or_new`, `failed_commits_registers_old_or_new`:
      after any (list of) commit attempt(s), every register is the pre-commit value or the
      would-be post-commit value, the latter exactly for identifiers that left the write set.
      `crash_after_failed_commit(_exact)`: reopening after failed attempts shows per owned
      identifier the old committed slab or the slab visible at commit time.
      `any_successful_attempt_then_reopen`, `retry_until_success_then_reopen`: once an attempt
      succeeds the reopened storage shows exactly the state at the first attempt.
      `crash_shows_committed_or_attempted_view`, `crash_after_commit_shows_commit_or_later_attempt`,
      `crash_recovers_last_successful_commit`, `crash_recovers_last_commit_despite_attempts`:
      `C03.crash_recovers_last_commit` for histories that contain commit attempts.
-/
namespace Atree.C14
open Atree St

variable {σ β : Type} (c : Codec σ β)

/-- The attempts of `retry_converges`: each with its own commit kind, fault plan and orders. -/
abbrev Attempt := CommitKind × List Nat × List SlabID × List SlabID

/-- Run a list of commit attempts, keeping the state after each (errors are ignored, as a caller
    that retries does). -/
def runAttempts (attempts : List Attempt) (s : St σ β) : St σ β :=
  attempts.foldl (fun s a => (commitWith c a.1 (faultPlan a.2.1) a.2.2.1 a.2.2.2 s).st) s

/-! ### A. When does a commit succeed? -/

/-- The fault-plan position of a commit equals the length of its call log; a commit issues at most
    one base-storage call per owned pending identifier, and exactly one each if it succeeds. -/
theorem commit_call_count (kind : CommitKind) (fault : Nat → Bool) (mo dlo : List SlabID)
    (s : St σ β) (hnd : (AList.keys s.deltas).Nodup) :
    let r := commitWith c kind fault mo dlo s
    r.n = r.log.length ∧ r.n ≤ (sortedOwnedDeltaKeys s).length ∧
    (r.err = none → r.n = (sortedOwnedDeltaKeys s).length) := by
  intro r
  have hr : r = commitW c kind fault mo dlo s := commitWith_eq c kind fault mo dlo s
  rw [hr]
  exact commitW_calls c kind fault mo dlo s hnd

/-- If none of the base-storage calls the commit issued was faulted (and every pending slab
    encodes), the commit reports no error.  (Converse of `failed_commit_reports_error`.) -/
theorem commit_succeeds_if_no_fault_reached (kind : CommitKind) (fault : Nat → Bool)
    (mo dlo : List SlabID) (s : St σ β) (hne : NoEncodeFailure c s) :
    let r := commitWith c kind fault mo dlo s
    (∀ n, n < r.n → fault n = false) → r.err = none := by
  intro r hf
  have hr : r = commitW c kind fault mo dlo s := commitWith_eq c kind fault mo dlo s
  rw [hr] at hf ⊢
  rcases commitW_err c kind fault mo dlo s hne with ⟨he, _⟩ | ⟨_, n, hlt, hn⟩
  · exact he
  · rw [hf n hlt] at hn
    cases hn

/-- Usable form: if every faulted position lies at or beyond the number of owned pending
    identifiers, the commit succeeds and issues exactly one base-storage call per owned pending
    identifier. -/
theorem commit_succeeds_if_faults_beyond_pending (kind : CommitKind) (fault : Nat → Bool)
    (mo dlo : List SlabID) (s : St σ β) (hnd : (AList.keys s.deltas).Nodup)
    (hne : NoEncodeFailure c s) :
    let r := commitWith c kind fault mo dlo s
    (∀ n, fault n = true → (sortedOwnedDeltaKeys s).length ≤ n) →
      r.err = none ∧ r.n = (sortedOwnedDeltaKeys s).length := by
  intro r hf
  obtain ⟨_, hle, hfull⟩ := commit_call_count c kind fault mo dlo s hnd
  have herr : r.err = none := by
    apply commit_succeeds_if_no_fault_reached c kind fault mo dlo s hne
    intro n hlt
    cases hfn : fault n with
    | false => rfl
    | true =>
      have h1 := hf n hfn
      have h2 : n < (sortedOwnedDeltaKeys s).length := Nat.lt_of_lt_of_le hlt hle
      omega
  exact ⟨herr, hfull herr⟩

/-- Conversely: if the first faulted position `n` is smaller than the number of owned pending
    identifiers, the commit fails with an external error exactly at that call (it issued `n + 1`
    calls: `n` successful ones and the failed one). -/
theorem commit_fails_if_fault_reached (kind : CommitKind) (fault : Nat → Bool)
    (mo dlo : List SlabID) (s : St σ β) (hnd : (AList.keys s.deltas).Nodup)
    (hne : NoEncodeFailure c s) (n : Nat) :
    let r := commitWith c kind fault mo dlo s
    n < (sortedOwnedDeltaKeys s).length → fault n = true → (∀ m, m < n → fault m = false) →
      r.err = some .external ∧ r.n = n + 1 := by
  intro r hn hfn hbefore
  have hr : r = commitW c kind fault mo dlo s := commitWith_eq c kind fault mo dlo s
  obtain ⟨_, _, hfull⟩ := commitW_calls c kind fault mo dlo s hnd
  rw [hr]
  rcases commitW_firstFault c kind fault mo dlo s hne with ⟨he, hno⟩ | ⟨he, p, hp, hfp, hpb⟩
  · have hlen := hfull he
    rw [hno n (by omega)] at hfn
    cases hfn
  · refine ⟨he, ?_⟩
    have hpn : p = n := by
      rcases Nat.lt_trichotomy p n with h | h | h
      · rw [hbefore p h] at hfp; cases hfp
      · exact h
      · rw [hpb n h] at hfn; cases hfn
    omega

/-! ### B1 / B2. Registers after failed attempts: old or new, per identifier -/

/-- After ANY commit attempt (either function, any fault plan, encode failures included) every
    register is either the pre-commit value or the would-be post-commit value; and it is the new
    value exactly for the identifiers that left the write set: an identifier is either untouched
    (same pending entry, same register) or written (no longer pending, register = commit target). -/
theorem failed_commit_registers_old_or_new (kind : CommitKind) (fault : Nat → Bool)
    (mo dlo : List SlabID) (s : St σ β) (hnd : (AList.keys s.deltas).Nodup) :
    let s' := (commitWith c kind fault mo dlo s).st
    ∀ id,
      (AList.find? s'.base id = AList.find? s.base id ∨ AList.find? s'.base id = target c s id) ∧
      ((AList.find? s'.deltas id = AList.find? s.deltas id ∧
          AList.find? s'.base id = AList.find? s.base id) ∨
       (AList.find? s'.deltas id = none ∧ AList.find? s'.base id = target c s id)) := by
  intro s' id
  have hs : s' = (commitW c kind fault mo dlo s).st := by
    show (commitWith c kind fault mo dlo s).st = _
    rw [commitWith_eq]
  rw [hs]
  have h := (commitW_oldOrNew c kind fault mo dlo s hnd).1 id
  refine ⟨?_, h⟩
  rcases h with ⟨_, hb⟩ | ⟨_, hb⟩
  · exact Or.inl hb
  · exact Or.inr hb

/-- Every attempt of a list is "old or new" and keeps the delta keys unique. -/
theorem runAttempts_oldOrNew (attempts : List Attempt) (s : St σ β)
    (hnd : (AList.keys s.deltas).Nodup) :
    OldOrNew c s (runAttempts c attempts s) ∧
    (AList.keys (runAttempts c attempts s).deltas).Nodup := by
  apply foldl_oldOrNew c _ _ attempts s hnd
  intro t a ht
  rw [commitWith_eq]
  exact commitW_oldOrNew c a.1 (faultPlan a.2.1) a.2.2.1 a.2.2.2 t ht

/-- Every attempt of a list preserves the invariant and advances the state. -/
theorem runAttempts_adv (hc : RoundTrip c) (attempts : List Attempt) (s : St σ β) (h : Inv c s) :
    Inv c (runAttempts c attempts s) ∧ Adv c s (runAttempts c attempts s) := by
  apply foldl_adv c _ _ attempts s h
  intro t a hIt
  rw [commitWith_eq]
  obtain ⟨h1, h2, _⟩ := commitW_spec c hc a.1 (faultPlan a.2.1) a.2.2.1 a.2.2.2 t hIt
  exact ⟨h1, h2⟩

/-- The same after ANY LIST of attempts (each with its own kind, fault plan and orders), relative
    to the state before the first attempt: registers are old or new per identifier, new exactly
    where the identifier left the write set. -/
theorem failed_commits_registers_old_or_new (attempts : List Attempt) (s : St σ β)
    (hnd : (AList.keys s.deltas).Nodup) :
    let s' := attempts.foldl (fun s a => (commitWith c a.1 (faultPlan a.2.1) a.2.2.1 a.2.2.2 s).st) s
    ∀ id,
      (AList.find? s'.base id = AList.find? s.base id ∨ AList.find? s'.base id = target c s id) ∧
      ((AList.find? s'.deltas id = AList.find? s.deltas id ∧
          AList.find? s'.base id = AList.find? s.base id) ∨
       (AList.find? s'.deltas id = none ∧ AList.find? s'.base id = target c s id)) := by
  intro s' id
  have h := (runAttempts_oldOrNew c attempts s hnd).1 id
  refine ⟨?_, h⟩
  rcases h with ⟨_, hb⟩ | ⟨_, hb⟩
  · exact Or.inl hb
  · exact Or.inr hb

/-! ### B3. Crash after failed attempts -/

/-- Crash after failed commit attempts, exact form: reopen over the ledger left by any list of
    attempts.  An owned identifier that is still pending (or was never pending) shows its old
    committed slab; one that left the write set shows the slab visible at commit time.
    Identifiers of the temporary address show nothing. -/
theorem crash_after_failed_commit_exact (hc : RoundTrip c) (attempts : List Attempt) (s : St σ β)
    (h : Inv c s) :
    let s' := attempts.foldl (fun s a => (commitWith c a.1 (faultPlan a.2.1) a.2.2.1 a.2.2.2 s).st) s
    let reopened : St σ β := St.fresh s'.base s'.alloc
    (∀ id, (AList.find? s'.deltas id = AList.find? s.deltas id ∧
              reopened.view c id = s.committed c id) ∨
           (AList.find? s'.deltas id = none ∧ reopened.view c id = s.view c id)) ∧
    (∀ id, id.isTemp = true → reopened.view c id = none) := by
  intro s' reopened
  obtain ⟨hI', hadv⟩ := runAttempts_adv c hc attempts s h
  obtain ⟨hon, _⟩ := runAttempts_oldOrNew c attempts s h.deltasNodup
  have hview : ∀ id, reopened.view c id = s'.committed c id := fun id => view_fresh c _ _ id
  constructor
  · intro id
    rw [hview id]
    exact committed_of_oldOrNew c s _ hadv hon id
  · intro id ht
    have hb : AList.find? s'.base id = none := hI'.noTempBase id ht
    rw [hview id]
    simp [St.committed, hb]

/-- Crash after failed commit attempts: the reopened storage shows, for every owned identifier,
    either the old committed slab or the slab that was visible at commit time – never anything
    else, whatever failed and wherever; temporary identifiers show nothing. -/
theorem crash_after_failed_commit (hc : RoundTrip c) (attempts : List Attempt) (s : St σ β)
    (h : Inv c s) :
    let s' := attempts.foldl (fun s a => (commitWith c a.1 (faultPlan a.2.1) a.2.2.1 a.2.2.2 s).st) s
    let reopened : St σ β := St.fresh s'.base s'.alloc
    (∀ id, id.isTemp = false →
      reopened.view c id = s.committed c id ∨ reopened.view c id = s.view c id) ∧
    (∀ id, id.isTemp = true → reopened.view c id = none) := by
  intro s' reopened
  obtain ⟨h1, h2⟩ := crash_after_failed_commit_exact c hc attempts s h
  refine ⟨fun id _ => ?_, h2⟩
  rcases h1 id with ⟨_, hv⟩ | ⟨_, hv⟩
  · exact Or.inl hv
  · exact Or.inr hv

/-! ### B4. Retry until success, then reopen -/

/-- After any attempts, as soon as ONE further attempt (of either kind, with any fault plan)
    reports success, every register is the commit target of the state before the first attempt and
    the reopened storage shows, for every owned identifier, exactly the slab visible then. -/
theorem any_successful_attempt_then_reopen (hc : RoundTrip c) (s : St σ β) (h : Inv c s)
    (attempts : List Attempt) (kind : CommitKind) (fault : Nat → Bool) (mo dlo : List SlabID) :
    let s' := attempts.foldl (fun s a => (commitWith c a.1 (faultPlan a.2.1) a.2.2.1 a.2.2.2 s).st) s
    let final := commitWith c kind fault mo dlo s'
    let reopened : St σ β := St.fresh final.st.base final.st.alloc
    final.err = none →
      (∀ id, AList.find? final.st.base id = target c s id) ∧
      (∀ id, id.isTemp = false → reopened.view c id = s.view c id) ∧
      (∀ id, id.isTemp = true → reopened.view c id = none) := by
  intro s' final reopened herr
  obtain ⟨hI', hadv⟩ := runAttempts_adv c hc attempts s h
  have hfinal : final = commitW c kind fault mo dlo s' := commitWith_eq c kind fault mo dlo s'
  obtain ⟨f1, f2, f3⟩ := commitW_spec c hc kind fault mo dlo s' hI'
  rw [← hfinal] at f1 f2 f3
  have hall := f3 herr
  have hadv' : Adv c s final.st := hadv.trans f2
  refine ⟨hadv'.base_eq_target hall, ?_, ?_⟩
  · intro id hown
    show (St.fresh final.st.base final.st.alloc : St σ β).view c id = s.view c id
    rw [view_fresh]
    exact hadv'.committed_eq_view f1 hall id hown
  · intro id ht
    show (St.fresh final.st.base final.st.alloc : St σ β).view c id = none
    rw [view_fresh]
    simp [f1.noTempBase id ht]

/-- Retry until success, then crash: after any failing attempts followed by a fault-free attempt
    of either kind, the attempt succeeds, every register equals the commit target of the state
    before the first attempt, and the reopened storage shows for every owned identifier exactly
    the slab that was visible then (temporary identifiers show nothing). -/
theorem retry_until_success_then_reopen (hc : RoundTrip c) (s : St σ β) (h : Inv c s)
    (hne : NoEncodeFailure c s) (attempts : List Attempt) (kind : CommitKind)
    (mo dlo : List SlabID) :
    let s' := attempts.foldl (fun s a => (commitWith c a.1 (faultPlan a.2.1) a.2.2.1 a.2.2.2 s).st) s
    let final := commitWith c kind (fun _ => false) mo dlo s'
    let reopened : St σ β := St.fresh final.st.base final.st.alloc
    final.err = none ∧
    (∀ id, AList.find? final.st.base id = target c s id) ∧
    (∀ id, id.isTemp = false → reopened.view c id = s.view c id) ∧
    (∀ id, id.isTemp = true → reopened.view c id = none) := by
  intro s' final reopened
  obtain ⟨_, hadv⟩ := runAttempts_adv c hc attempts s h
  have hne' : NoEncodeFailure c s' := hadv.noEncodeFailure hne
  have herr : final.err = none :=
    commit_succeeds_if_no_fault_reached c kind (fun _ => false) mo dlo s' hne' (fun _ _ => rfl)
  exact ⟨herr, any_successful_attempt_then_reopen c hc s h attempts kind (fun _ => false) mo dlo herr⟩

/-! ### B5. Crash recovery for histories that contain commit attempts -/

/-- The states at which the commit attempts of a history start. -/
def commitPoints : St σ β → List (Op σ) → List (St σ β)
  | _, [] => []
  | s, op :: ops => (if Op.isCommit op = true then [s] else []) ++ commitPoints (St.step c s op).1 ops

/-- `commitPoints` are exactly the states reached by a prefix of the history that is followed by
    a commit operation. -/
theorem mem_commitPoints (s : St σ β) (ops : List (Op σ)) (t : St σ β) :
    t ∈ commitPoints c s ops ↔
      ∃ pre op post, ops = pre ++ op :: post ∧ Op.isCommit op = true ∧ t = St.run c s pre := by
  induction ops generalizing s with
  | nil => simp [commitPoints]
  | cons o os ih =>
    rw [commitPoints, List.mem_append, ih]
    constructor
    · rintro (hm | ⟨pre, op, post, h1, h2, h3⟩)
      · by_cases ho : Op.isCommit o = true
        · rw [if_pos ho, List.mem_singleton] at hm
          exact ⟨[], o, os, rfl, ho, hm⟩
        · rw [if_neg ho] at hm
          cases hm
      · exact ⟨o :: pre, op, post, by rw [h1]; rfl, h2, h3⟩
    · rintro ⟨pre, op, post, h1, h2, h3⟩
      cases pre with
      | nil =>
        left
        simp only [List.nil_append, List.cons.injEq] at h1
        rw [h1.1, if_pos h2, List.mem_singleton]
        exact h3
      | cons p pre =>
        right
        simp only [List.cons_append, List.cons.injEq] at h1
        refine ⟨pre, op, post, h1.2, h2, ?_⟩
        rw [h3, h1.1]
        rfl

/-- Crash at any point of ANY history (stores, removes, reads, preloads, drops, re-creations, and
    commit attempts with arbitrary fault plans, succeeding or failing): for every owned
    identifier the reopened storage shows either what the ledger said at the start, or the slab
    that identifier had at the start of one of the commit attempts of the history.  Nothing that
    was never the subject of a commit attempt reaches the ledger, and what reaches it is a slab
    that really was current when an attempt started. -/
theorem crash_shows_committed_or_attempted_view (hc : RoundTrip c) (s : St σ β) (h : Inv c s)
    (ops : List (Op σ)) (id : SlabID) :
    let later := St.run c s ops
    let reopened : St σ β := St.fresh later.base later.alloc
    reopened.view c id = s.committed c id ∨
    ∃ t, t ∈ commitPoints c s ops ∧ reopened.view c id = t.view c id := by
  intro later reopened
  have hview : reopened.view c id = later.committed c id := view_fresh c _ _ id
  rw [hview]
  clear hview reopened
  induction ops generalizing s with
  | nil => exact Or.inl rfl
  | cons op ops ih =>
    have hI1 := inv_step_aux c hc s op h
    have hstep := step_committed c hc s h op id
    rcases ih (St.step c s op).1 hI1 with h1 | ⟨t, ht, hv⟩
    · rcases hstep with h2 | ⟨hop, h2⟩
      · exact Or.inl (h1.trans h2)
      · right
        refine ⟨s, ?_, h1.trans h2⟩
        rw [commitPoints, if_pos hop]
        exact List.mem_append_left _ (List.mem_singleton.mpr rfl)
    · right
      refine ⟨t, ?_, hv⟩
      rw [commitPoints]
      exact List.mem_append_right _ ht

/-- Generalisation of `C03.crash_recovers_last_commit` to histories that contain commit attempts:
    after a successful commit, ANY history, then a crash: for every owned identifier the reopened
    storage shows the slab of the successful commit, or the slab that identifier had at the start
    of a later commit attempt. -/
theorem crash_after_commit_shows_commit_or_later_attempt (hc : RoundTrip c) (s : St σ β)
    (h : Inv c s) (hne : NoEncodeFailure c s) (ops : List (Op σ)) (id : SlabID)
    (hown : id.isTemp = false) :
    let committed := (s.fastCommit c (fun _ => false)).st
    let later := St.run c committed ops
    let reopened : St σ β := St.fresh later.base later.alloc
    reopened.view c id = s.view c id ∨
    ∃ t, t ∈ commitPoints c committed ops ∧ reopened.view c id = t.view c id := by
  intro committed later reopened
  have hr : committed = (commitW c .det (fun _ => false) [] [] s).st := rfl
  obtain ⟨h1, h2, _⟩ := commitW_spec c hc .det (fun _ => false) [] [] s h
  obtain ⟨_, g2, _⟩ := commitW_complete c hc .det (fun _ => false) (fun _ => rfl) [] [] s h hne
  rw [← hr] at h1 h2 g2
  have hcv : committed.committed c id = s.view c id := h2.committed_eq_view h1 g2 id hown
  rcases crash_shows_committed_or_attempted_view c hc committed h1 ops id with hv | hv
  · exact Or.inl (hv.trans hcv)
  · exact Or.inr hv

/-- The reopened storage shows precisely the state of the last SUCCESSFUL commit provided no owned
    identifier was stored or removed since: `t` any state satisfying the invariant, a commit
    attempt (either kind, any fault plan) that reports success, then any history of reads,
    preloads, drops, identifier generation, re-creations, stores/removes of temporary identifiers
    and further commit attempts with arbitrary fault plans, then a crash. -/
theorem crash_recovers_last_successful_commit (hc : RoundTrip c) (t : St σ β) (h : Inv c t)
    (kind : CommitKind) (fault : Nat → Bool) (mo dlo : List SlabID) (ops : List (Op σ))
    (hw : ∀ op ∈ ops, Op.writesOwned op = false) (id : SlabID) (hown : id.isTemp = false) :
    let r := commitWith c kind fault mo dlo t
    let later := St.run c r.st ops
    let reopened : St σ β := St.fresh later.base later.alloc
    r.err = none → reopened.view c id = t.view c id := by
  intro r later reopened herr
  have hr : r = commitW c kind fault mo dlo t := commitWith_eq c kind fault mo dlo t
  obtain ⟨f1, f2, f3⟩ := commitW_spec c hc kind fault mo dlo t h
  rw [← hr] at f1 f2 f3
  have hcl : Clean r.st := f3 herr
  obtain ⟨_, hbase⟩ := run_clean c hc ops r.st f1 hcl hw
  show (St.fresh later.base later.alloc : St σ β).view c id = t.view c id
  rw [view_fresh, hbase id]
  exact f2.committed_eq_view f1 hcl id hown

/-- `C03.crash_recovers_last_commit` with commit attempts allowed in the history: commit, then any
    history in which no owned identifier is stored or removed (failed or successful re-commits
    with arbitrary fault plans, reads, drops, identifier generation, re-creation are free), then a
    crash: the reopened storage shows precisely the state of the commit. -/
theorem crash_recovers_last_commit_despite_attempts (hc : RoundTrip c) (s : St σ β) (h : Inv c s)
    (hne : NoEncodeFailure c s) (ops : List (Op σ))
    (hw : ∀ op ∈ ops, Op.writesOwned op = false) (id : SlabID) (hown : id.isTemp = false) :
    let committed := (s.fastCommit c (fun _ => false)).st
    let later := St.run c committed ops
    let reopened : St σ β := St.fresh later.base later.alloc
    reopened.view c id = s.view c id := by
  intro committed later reopened
  have herr : (commitWith c .det (fun _ => false) [] [] s).err = none :=
    commit_succeeds_if_no_fault_reached c .det (fun _ => false) [] [] s hne (fun _ _ => rfl)
  exact crash_recovers_last_successful_commit c hc s h .det (fun _ => false) [] [] ops hw id hown herr

/-! ### Non-vacuity

On `Example.exSt` (pending store `1.1 ↦ 5`, pending deletion `1.2`, pending temporary slab `0.1`,
cached `1.3`, committed `1.2 ↦ 3`, `1.3 ↦ 7`, `1.4 ↦ 9`) with the second base call faulted, the
failed `FastCommit` leaves a REAL MIX in the ledger: register `1.1` is new, register `1.2` is still
the old one although its deletion is pending. -/
section NonVacuity
open Atree.Example

example : RoundTrip natCodec ∧ Inv natCodec exSt ∧ NoEncodeFailure natCodec exSt ∧
    (AList.keys exSt.deltas).Nodup :=
  ⟨roundTrip, inv, noEncodeFailure exSt, inv.deltasNodup⟩

/-- Two owned pending identifiers; the fault-free commit issues exactly two calls. -/
example : (sortedOwnedDeltaKeys exSt).length = 2 ∧
    (commitWith natCodec .det (fun _ => false) [] [] exSt).n = 2 ∧
    (commitWith natCodec .nondet (faultPlan [2, 5]) [] [] exSt).n = 2 := by decide

example := commit_call_count natCodec .nondet (faultPlan [1]) [] [] exSt inv.deltasNodup

/-- `commit_succeeds_if_no_fault_reached`: a plan whose faults lie beyond the calls issued. -/
example : (commitWith natCodec .det (faultPlan [2, 5]) [] [] exSt).err = none :=
  commit_succeeds_if_no_fault_reached natCodec .det (faultPlan [2, 5]) [] [] exSt
    (noEncodeFailure exSt) (by decide)

/-- `commit_succeeds_if_faults_beyond_pending`: the premise holds for the plan `[2, 5]`. -/
theorem faults_beyond : ∀ n, faultPlan [2, 5] n = true → (sortedOwnedDeltaKeys exSt).length ≤ n := by
  intro n hn
  have h2 : (sortedOwnedDeltaKeys exSt).length = 2 := by decide
  rw [h2]
  simp only [faultPlan, List.contains_eq_mem, List.mem_cons, List.not_mem_nil, or_false,
    decide_eq_true_eq] at hn
  omega

example : (commitWith natCodec .nondet (faultPlan [2, 5]) [] [] exSt).err = none ∧
    (commitWith natCodec .nondet (faultPlan [2, 5]) [] [] exSt).n = (sortedOwnedDeltaKeys exSt).length :=
  commit_succeeds_if_faults_beyond_pending natCodec .nondet (faultPlan [2, 5]) [] [] exSt
    inv.deltasNodup (noEncodeFailure exSt) faults_beyond

/-- `commit_fails_if_fault_reached`: first fault at position 1 < 2. -/
example : (commitWith natCodec .det (faultPlan [1]) [] [] exSt).err = some .external ∧
    (commitWith natCodec .det (faultPlan [1]) [] [] exSt).n = 1 + 1 :=
  commit_fails_if_fault_reached natCodec .det (faultPlan [1]) [] [] exSt inv.deltasNodup
    (noEncodeFailure exSt) 1 (by decide) (by decide) (by decide)
example : (commitWith natCodec .det (faultPlan [1]) [] [] exSt).n = 2 := by decide

/-- THE REAL MIX after the failed commit: `1.1` new (`some 5`, it was absent), `1.2` still old
    (`some 3`) although its target is `none` and its deletion is still pending. -/
example :
    let s' := (commitWith natCodec .det (faultPlan [1]) [] [] exSt).st
    (commitWith natCodec .det (faultPlan [1]) [] [] exSt).err = some .external ∧
    AList.find? exSt.base ⟨1, 1⟩ = none ∧ target natCodec exSt ⟨1, 1⟩ = some 5 ∧
    AList.find? s'.base ⟨1, 1⟩ = some 5 ∧ AList.find? s'.deltas ⟨1, 1⟩ = none ∧
    AList.find? exSt.base ⟨1, 2⟩ = some 3 ∧ target natCodec exSt ⟨1, 2⟩ = none ∧
    AList.find? s'.base ⟨1, 2⟩ = some 3 ∧ AList.find? s'.deltas ⟨1, 2⟩ = some none := by decide

example := failed_commit_registers_old_or_new natCodec .det (faultPlan [1]) [] [] exSt inv.deltasNodup

/-- Two attempts that really fail (as in C14): the mix persists. -/
def failingAttempts : List Attempt := [(.det, [1], [], []), (.nondet, [0], [], [])]

example :
    let s' := runAttempts natCodec failingAttempts exSt
    AList.find? s'.base ⟨1, 1⟩ = some 5 ∧ AList.find? s'.base ⟨1, 2⟩ = some 3 ∧
    AList.find? s'.deltas ⟨1, 2⟩ = some none := by decide

example := failed_commits_registers_old_or_new natCodec failingAttempts exSt inv.deltasNodup

/-- Crash after the failed attempts: `1.1` shows the slab visible at commit time (`some 5`; the
    old committed one was `none`), `1.2` shows the OLD committed slab (`some 3`; the view at commit
    time was `none`): both disjuncts of `crash_after_failed_commit` occur.  The temporary `0.1` is
    gone. -/
example :
    let s' := runAttempts natCodec failingAttempts exSt
    let reopened : St Nat Nat := St.fresh s'.base s'.alloc
    reopened.view natCodec ⟨1, 1⟩ = some 5 ∧ exSt.view natCodec ⟨1, 1⟩ = some 5 ∧
    exSt.committed natCodec ⟨1, 1⟩ = none ∧
    reopened.view natCodec ⟨1, 2⟩ = some 3 ∧ exSt.view natCodec ⟨1, 2⟩ = none ∧
    exSt.committed natCodec ⟨1, 2⟩ = some 3 ∧
    reopened.view natCodec ⟨1, 4⟩ = some 9 ∧
    exSt.view natCodec ⟨0, 1⟩ = some 8 ∧ reopened.view natCodec ⟨0, 1⟩ = none := by decide

example := crash_after_failed_commit natCodec roundTrip failingAttempts exSt inv
example := crash_after_failed_commit_exact natCodec roundTrip failingAttempts exSt inv

/-- Retry until success, then reopen: the instance and the same facts by evaluation. -/
example := retry_until_success_then_reopen natCodec roundTrip exSt inv (noEncodeFailure exSt)
  failingAttempts .nondet [] []
example :
    let s' := runAttempts natCodec failingAttempts exSt
    let final := commitWith natCodec .nondet (fun _ => false) [] [] s'
    let reopened : St Nat Nat := St.fresh final.st.base final.st.alloc
    final.err = none ∧ reopened.view natCodec ⟨1, 1⟩ = some 5 ∧ reopened.view natCodec ⟨1, 2⟩ = none ∧
    reopened.view natCodec ⟨1, 3⟩ = some 7 ∧ reopened.view natCodec ⟨1, 4⟩ = some 9 ∧
    AList.find? final.st.base ⟨1, 2⟩ = none := by decide

/-- `any_successful_attempt_then_reopen` with a final attempt whose plan has (unreached) faults. -/
example : (commitWith natCodec .det (faultPlan [1, 7]) [] [] (runAttempts natCodec failingAttempts exSt)).err = none := by
  decide
example := any_successful_attempt_then_reopen natCodec roundTrip exSt inv failingAttempts .det
  (faultPlan [1, 7]) [] []

/-- A history after the commit of `exSt` with stores, removes AND commit attempts: `1.1 ↦ 6`,
    delete `1.4`, create `1.9`, a `FastCommit` that writes `1.1` and then fails on `1.4`,
    `1.1 ↦ 7`, a nondeterministic commit that fails at once, a read, an identifier. -/
def crashOps : List (Op Nat) :=
  [.store ⟨1, 1⟩ 6, .remove ⟨1, 4⟩, .store ⟨1, 9⟩ 1, .commit .det [1] [] [], .store ⟨1, 1⟩ 7,
   .commit .nondet [0] [] [], .retrieve ⟨1, 3⟩, .genID 1]

/-- After the crash `1.1` shows `some 6`: neither the slab of the successful commit (`some 5`) nor
    the latest one (`some 7`) but the one current at the first later attempt; `1.4` and `1.9` show
    the state of the successful commit. -/
example :
    let committed := (exSt.fastCommit natCodec (fun _ => false)).st
    let later := St.run natCodec committed crashOps
    let reopened : St Nat Nat := St.fresh later.base later.alloc
    (commitPoints natCodec committed crashOps).length = 2 ∧
    later.view natCodec ⟨1, 1⟩ = some 7 ∧ reopened.view natCodec ⟨1, 1⟩ = some 6 ∧
    exSt.view natCodec ⟨1, 1⟩ = some 5 ∧
    later.view natCodec ⟨1, 4⟩ = none ∧ reopened.view natCodec ⟨1, 4⟩ = some 9 ∧
    later.view natCodec ⟨1, 9⟩ = some 1 ∧ reopened.view natCodec ⟨1, 9⟩ = none := by decide

example := crash_after_commit_shows_commit_or_later_attempt natCodec roundTrip exSt inv
  (noEncodeFailure exSt) crashOps ⟨1, 1⟩ rfl
example := crash_shows_committed_or_attempted_view natCodec roundTrip exSt inv crashOps ⟨1, 1⟩

/-- A history without stores/removes of owned identifiers but with commit attempts (one failing
    plan, one fault-free), a temporary store, drops and a re-creation. -/
def recommitOps : List (Op Nat) :=
  [.commit .det [0] [] [], .retrieve ⟨1, 3⟩, .store ⟨0, 2⟩ 4, .preload [⟨1, 4⟩], .dropCache,
   .commit .nondet [] [] [], .dropDeltas, .recreate, .genID 1, .commit .nondet [0, 1] [] []]

example : ∀ op ∈ recommitOps, Op.writesOwned op = false := by decide
example : ∃ op ∈ recommitOps, Op.isCommit op = true := by decide

example := crash_recovers_last_commit_despite_attempts natCodec roundTrip exSt inv
  (noEncodeFailure exSt) recommitOps (by decide) ⟨1, 1⟩ rfl
example :
    let committed := (exSt.fastCommit natCodec (fun _ => false)).st
    let later := St.run natCodec committed recommitOps
    let reopened : St Nat Nat := St.fresh later.base later.alloc
    reopened.view natCodec ⟨1, 1⟩ = some 5 ∧ reopened.view natCodec ⟨1, 2⟩ = none ∧
    reopened.view natCodec ⟨1, 4⟩ = some 9 := by decide

/-- `crash_recovers_last_successful_commit` where the successful commit is the LAST of a retry
    sequence and has unreached faults in its plan. -/
example := crash_recovers_last_successful_commit natCodec roundTrip
  (runAttempts natCodec failingAttempts exSt)
  (runAttempts_adv natCodec roundTrip failingAttempts exSt inv).1
  .det (faultPlan [1, 7]) [] [] recommitOps (by decide) ⟨1, 1⟩ rfl (by decide)

/-- The restriction "no owned store/remove since" is necessary: see `crashOps` above, where `1.1`
    reopens as `some 6 ≠ some 5`. -/
example : ∃ op ∈ crashOps, Op.writesOwned op = true := by decide

end NonVacuity

end Atree.C14
