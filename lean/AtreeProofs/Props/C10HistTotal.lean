import AtreeProofs.Props.C10Hist
import AtreeProofs.Props.C10Total
/-
  C10 / C01 / C02 — TOTAL CORRECTNESS AT HISTORY LEVEL (audit a5, S3 + S2).  PROPERTY THEOREMS.

  `Props/C10Total.lean` proves that an in-range request through a CURRENT handle succeeds in a world
  that satisfies `WorldOk'` and `KeyedClosures` (a closure that names a live map carries a key: not a
  clause of `WorldOk'`, see `C10Total.fatal_without_keyedClosures`, but an invariant of every
  operation).  `Props/C10Hist.lean` proves that along every history the invariant holds and every
  handle the client holds is current.  Together: NO HYPOTHESIS IS LEFT —
  `history_progress`: after ANY history, ANY well-formed in-range request through ANY handle the
  client holds is answered successfully (the history can be extended by it);
  `history_no_internal_failure`: whatever the arguments, such a request never answers `.fatal`,
  `.outOfFuel` or `.unknownContainer`.
-/
namespace Atree.C10Hist
open Atree Gen World

/-- one request keeps `KeyedClosures` -/
theorem step_keyed (D : SlabID → DigestFn 4) {s s' : HState} {op : WOp} {ob : WObs} (I : HInv D s)
    (K : KeyedClosures s.w) (h : Step D s op ob s') : KeyedClosures s'.w := by
  obtain ⟨k1, k2, k3, k4, k5, k6, _, _, k9, k10, k11, k12, k13⟩ := C10Total.keyedClosures_kept s.w K
  cases h with
  | newArr ty => exact (C10Total.keyedClosures_init D).2.1 s.w ty s.cx K
  | newMap ty seed => exact (C10Total.keyedClosures_init D).2.2.1 s.w ty seed s.cx I.1 K
  | arrInsert p i v w' cx' _ _ hop => exact k1 p i v s.cx w' cx' hop
  | arrSet p i v old w' cx' _ _ hop => exact k2 p i v s.cx old w' cx' hop
  | arrRemove p i old w' cx' _ hop => exact k3 p i s.cx old w' cx' hop
  | mapSet p k v old w' cx' _ _ _ hop => exact k4 p k v s.cx old w' cx' hop
  | mapRemove p k rk rv w' cx' _ _ hop => exact k5 p k s.cx rk rv w' cx' hop
  | arrGet p i el w' _ hop => exact k11 p i el w' hop
  | mapGet p k el w' _ _ hop => exact k12 p k el w' hop
  | setType p ty w' cx' _ hop => exact k6 p ty s.cx w' cx' hop
  | arrPop p es w' cx' _ hop => exact k9 p s.cx es w' cx' hop
  | mapPop p kvs w' cx' _ hop => exact k10 p s.cx kvs w' cx' hop
  | dispose k _ _ => exact k13 k
  | reopen roots => exact (C10Total.keyedClosures_init D).2.2.2 s.w

theorem run_keyed (D : SlabID → DigestFn 4) {s s' : HState} {tr : List (WOp × WObs)} (I : HInv D s)
    (K : KeyedClosures s.w) (h : Run D s tr s') : KeyedClosures s'.w := by
  induction h with
  | nil => exact K
  | cons hs _ ih => exact ih (step_invariant D I hs) (step_keyed D I K hs)

/-- every world reached by a history satisfies `KeyedClosures` -/
theorem history_keyed (D : SlabID → DigestFn 4) (T addr : Nat) (cx0 : Ctx) (hT : legalThreshold T = true)
    (tr : List (WOp × WObs)) (s : HState) (h : Run D (HState.init T addr cx0) tr s) : KeyedClosures s.w :=
  run_keyed D ⟨C10W.worldOk'_new D T addr cx0.ctr hT, fun _ hz => absurd hz id⟩
    ((C10Total.keyedClosures_init D).1 T addr) h

/-- PROGRESS.  After any history, every well-formed in-range request through any handle `p` the
    client holds is answered successfully: the history can be extended by it.  (Arrays: position
    within / at the end and array not full; maps: the collision limit does not refuse a NEW key —
    an existing key is never refused, `C10Total.present_key_not_limited` —, the key to remove or
    look up is present; `SetType` and the bulk pops: always.) -/
theorem history_progress (D : SlabID → DigestFn 4) (T addr : Nat) (cx0 : Ctx) (hT : legalThreshold T = true)
    (tr : List (WOp × WObs)) (s : HState) (h : Run D (HState.init T addr cx0) tr s) (p : SlabID) (hp : s.hs p) :
    (∀ a i v, s.w.cont? p = some (.arr a) → WValOk s.w p (maxInlineArr s.w.T) v → i ≤ a.toList.length →
      a.count < maxArrayElementCount → ∃ s', Step D s (.arrInsert p i v) .unit s') ∧
    (∀ a i v, s.w.cont? p = some (.arr a) → WValOk s.w p (maxInlineArr s.w.T) v → i < a.toList.length →
      ∃ ob s', Step D s (.arrSet p i v) ob s') ∧
    (∀ a i, s.w.cont? p = some (.arr a) → i < a.toList.length → ∃ ob s', Step D s (.arrRemove p i) ob s') ∧
    (∀ m k v, s.w.cont? p = some (.map m) → KeyOk s.w.T 4 (D p) k → WValOk s.w p (maxInlineMapValue s.w.T k.size) v →
      ¬ TLimited s.w.mcfg m.d m.root k → ∃ ob s', Step D s (.mapSet p k v) ob s') ∧
    (∀ m k rv, s.w.cont? p = some (.map m) → KeyOk s.w.T 4 (D p) k → (k, rv) ∈ m.toList →
      ∃ ob s', Step D s (.mapRemove p k) ob s') ∧
    (∀ ty, ∃ s', Step D s (.setType p ty) .unit s') ∧
    (∀ a, s.w.cont? p = some (.arr a) → ∃ s', Step D s (.arrPop p) (.pays (a.toList.reverse.map (·.pay))) s') ∧
    (∀ m, s.w.cont? p = some (.map m) →
      ∃ s', Step D s (.mapPop p) (.kpays (m.toList.reverse.map (fun kv => (kv.1, kv.2.pay)))) s') ∧
    (∀ a i el, s.w.cont? p = some (.arr a) → a.toList[i]? = some el → ∃ s', Step D s (.arrGet p i) (.pay el.pay) s') ∧
    (∀ m k el, s.w.cont? p = some (.map m) → KeyOk s.w.T 4 (D p) k → (k, el) ∈ m.toList →
      ∃ s', Step D s (.mapGet p k) (.pay el.pay) s') := by
  obtain ⟨H, hh⟩ := history_invariant D T addr cx0 hT tr s h
  have K := history_keyed D T addr cx0 hT tr s h
  obtain ⟨hcur, hlive⟩ := hh p hp
  refine ⟨fun a i v hpa hv hi hc => ?_, fun a i v hpa hv hi => ?_, fun a i hpa hi => ?_,
    fun m k v hpm hk hv hnl => ?_, fun m k rv hpm hk hmem => ?_, fun ty => ?_, fun a hpa => ?_, fun m hpm => ?_,
    fun a i el hpa hel => ?_, fun m k el hpm hk hmem => ?_⟩
  · obtain ⟨w', cx', hop⟩ := C10Total.arrInsert_total D s.w p i v s.cx a H K hcur hv hpa hi hc
    exact ⟨_, Step.arrInsert s p i v w' cx' hp hv hop⟩
  · obtain ⟨old, w', cx', hop⟩ := C10Total.arrSet_total D s.w p i v s.cx a H K hcur hv hpa hi
    exact ⟨_, _, Step.arrSet s p i v old w' cx' hp hv hop⟩
  · obtain ⟨old, w', cx', hop⟩ := C10Total.arrRemove_total D s.w p i s.cx a H K hcur hpa hi
    exact ⟨_, _, Step.arrRemove s p i old w' cx' hp hop⟩
  · obtain ⟨old, w', cx', hop⟩ := C10Total.mapSet_total D s.w p k v s.cx m H K hcur hk hv hpm hnl
    exact ⟨_, _, Step.mapSet s p k v old w' cx' hp hk hv hop⟩
  · obtain ⟨rv', w', cx', hop⟩ := C10Total.mapRemove_total D s.w p k s.cx m rv H K hcur hk hpm hmem
    exact ⟨_, _, Step.mapRemove s p k k rv' w' cx' hp hk hop⟩
  · obtain ⟨w', cx', hop⟩ := C10Total.setType_total D s.w p ty s.cx H K hcur hlive
    exact ⟨_, Step.setType s p ty w' cx' hp hop⟩
  · obtain ⟨w', cx', hop⟩ := C10Total.arrPop_total D s.w p s.cx a H K hcur hpa
    exact ⟨_, Step.arrPop s p _ w' cx' hp hop⟩
  · obtain ⟨w', cx', hop⟩ := C10Total.mapPop_total D s.w p s.cx m H K hcur hpm
    exact ⟨_, Step.mapPop s p _ w' cx' hp hop⟩
  · obtain ⟨w', hop⟩ := (C10Total.arrGet_total D s.w p i a s.cx.ctr H hpa).1 el hel
    exact ⟨_, Step.arrGet s p i el w' hp hop⟩
  · obtain ⟨w', hop⟩ := (C10Total.mapGet_total D s.w p k m s.cx.ctr H hk hpm).1 el hmem
    exact ⟨_, Step.mapGet s p k el w' hp hk hop⟩

/-- NO INTERNAL FAILURE.  After any history, a request through a handle the client holds — whatever
    its arguments, as long as the value / key is well-formed — never answers `.fatal`, `.outOfFuel`
    or `.unknownContainer`: an error is an argument error of the array / map model. -/
theorem history_no_internal_failure (D : SlabID → DigestFn 4) (T addr : Nat) (cx0 : Ctx) (hT : legalThreshold T = true)
    (tr : List (WOp × WObs)) (s : HState) (h : Run D (HState.init T addr cx0) tr s) (p : SlabID) (hp : s.hs p) :
    (∀ a i v e, s.w.cont? p = some (.arr a) → WValOk s.w p (maxInlineArr s.w.T) v →
      (s.w.arrInsert p i v s.cx = .error e → ¬ C10Total.Internal e) ∧
      (s.w.arrSet p i v s.cx = .error e → ¬ C10Total.Internal e)) ∧
    (∀ a i e, s.w.cont? p = some (.arr a) → s.w.arrRemove p i s.cx = .error e → ¬ C10Total.Internal e) ∧
    (∀ m k v e, s.w.cont? p = some (.map m) → KeyOk s.w.T 4 (D p) k → WValOk s.w p (maxInlineMapValue s.w.T k.size) v →
      s.w.mapSet p k v s.cx = .error e → ¬ C10Total.Internal e) ∧
    (∀ m k e, s.w.cont? p = some (.map m) → KeyOk s.w.T 4 (D p) k → s.w.mapRemove p k s.cx = .error e →
      ¬ C10Total.Internal e) := by
  obtain ⟨H, hh⟩ := history_invariant D T addr cx0 hT tr s h
  have K := history_keyed D T addr cx0 hT tr s h
  obtain ⟨g1, g2, g3, g4, _⟩ := C10Total.no_internal_failure D s.w s.cx H K p (hh p hp).1
  exact ⟨g1, g2, g3, g4⟩

end Atree.C10Hist
