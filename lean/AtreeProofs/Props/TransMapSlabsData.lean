import AtreeProofs.Props.TransMapSlabs
/-
  `MapDataSlab.Split / Merge / LendToRight / BorrowFromRight` (map_data_slab.go), REGENERATED IN FULL from the Go
  sources (`AtreeModel/Gen/TransMapSlabs.lean`), equal the hand-written model (`MDataSlab.split / merge / lendToRight /
  borrowFromRight`, `AtreeModel/Map/Tree.lean`): the generated function on the translation `cData` of a model slab
  yields the translation of the model's result - headers (id, size, firstKey), next links, the element groups in
  full, the same error class, the same storage effect (the allocated id).  Range hypotheses are explicit.
-/
namespace Atree.TransEq
open Atree Atree.Gen.TransMap

/-! ## the dispatchers of the closed interface `elements` on an `*hkeyElements` -/

section dispatch
variable {α V W X S : Type} (env : Env (MElemF α) V W X S GE)

theorem elements_Size_hkey (h : hkeyElements (MElemF α)) :
    elements_Size (V := V) env (.hkey h) = some h.size := rfl

theorem elements_Count_hkey (h : hkeyElements (MElemF α)) :
    elements_Count (V := V) env (.hkey h) = some (u32 h.elems.length) := by
  simp only [elements_Count, hkeyElements_Count, u32_ofInt]

/-- `firstKey()`: `hkeys[0]` when there is a digest, else 0 = the model's `hkeys.headD 0` -/
theorem elements_firstKey_hkey (e : HkeyElems α) :
    elements_firstKey (V := V) env (.hkey (cH e)) = some (u64 e.firstKey) := by
  obtain ⟨hk, msl_el, sz, lv⟩ := e
  cases hk with
  | nil => simp [elements_firstKey, hkeyElements_firstKey, cH, u64s, HkeyElems.firstKey, u64]
  | cons a t => simp [elements_firstKey, hkeyElements_firstKey, cH, u64s, HkeyElems.firstKey, goIdx]

theorem elements_Split_hkey (h : hkeyElements (MElemF α)) :
    elements_Split (V := V) env (.hkey h) =
      (hkeyElements_Split (V := V) env h).map (fun r_ => (r_.1, r_.2.1, r_.2.2.1, (.hkey r_.2.2.2))) := by
  simp only [elements_Split]
  cases hkeyElements_Split (V := V) env h <;> rfl

theorem elements_Merge_hkey (h : hkeyElements (MElemF α)) (a : elements (MElemF α) V) :
    elements_Merge env (.hkey h) a = (hkeyElements_Merge env h a).map (fun r_ => (r_.1, (.hkey r_.2))) := by
  simp only [elements_Merge]
  cases hkeyElements_Merge env h a <;> rfl

theorem elements_LendToRight_hkey (h : hkeyElements (MElemF α)) (a : elements (MElemF α) V) :
    elements_LendToRight env (.hkey h) a =
      (hkeyElements_LendToRight env h a).map (fun r_ => (r_.1, (.hkey r_.2.1), r_.2.2)) := by
  simp only [elements_LendToRight]
  cases hkeyElements_LendToRight env h a <;> rfl

theorem elements_BorrowFromRight_hkey (h : hkeyElements (MElemF α)) (a : elements (MElemF α) V) :
    elements_BorrowFromRight env (.hkey h) a =
      (hkeyElements_BorrowFromRight env h a).map (fun r_ => (r_.1, (.hkey r_.2.1), r_.2.2)) := by
  simp only [elements_BorrowFromRight]
  cases hkeyElements_BorrowFromRight env h a <;> rfl

end dispatch

/-! ## the sizes of the model's results stay within the sizes of the arguments -/

section sizes
variable {α : Type} (o : ElemsOps α)

theorem msl_hkey_split_sizes (e : HkeyElems α) (hpre : Gen.hkeyElementsPrefixSize + (dg (rawSizes o e)).sum ≤ e.size) :
    (HkeyElems.split o e).1.size ≤ e.size ∧ (HkeyElems.split o e).2.size ≤ e.size := by
  simp only [HkeyElems.split, dg_rawSizes]
  have hb := splitLoop_bounds ((e.size - Gen.hkeyElementsPrefixSize + 1) / 2) (e.size - Gen.hkeyElementsPrefixSize)
    (dg (rawSizes o e)) 0 0
  generalize HkeyElems.splitLoop ((e.size - Gen.hkeyElementsPrefixSize + 1) / 2) (e.size - Gen.hkeyElementsPrefixSize)
    (dg (rawSizes o e)) 0 0 = res at *
  obtain ⟨lc, ls⟩ := res
  simp only [Gen.hkeyElementsPrefixSize] at hb hpre ⊢
  omega

theorem msl_hkey_lend_sizes (T : Nat) (l r le re : HkeyElems α)
    (hpre : Gen.hkeyElementsPrefixSize + (dg (rawSizes o l)).sum ≤ l.size) (hr8 : Gen.hkeyElementsPrefixSize ≤ r.size)
    (h : HkeyElems.lendToRight o T l r = .ok (le, re)) :
    le.size ≤ l.size ∧ re.size + 8 ≤ l.size + r.size := by
  simp only [HkeyElems.lendToRight, dg_rawSizes] at h
  split at h
  · cases h
  · have hb := lendLoop_bounds (minThr T - Gen.mapDataSlabPrefixSize - Gen.hkeyElementsPrefixSize)
      (l.size + r.size - Gen.hkeyElementsPrefixSize * 2) ((l.size + r.size - Gen.hkeyElementsPrefixSize * 2 + 1) / 2)
      (dg (rawSizes o l)).reverse l.elems.length (l.size - Gen.hkeyElementsPrefixSize)
    generalize HkeyElems.lendLoop (minThr T - Gen.mapDataSlabPrefixSize - Gen.hkeyElementsPrefixSize)
      (l.size + r.size - Gen.hkeyElementsPrefixSize * 2) ((l.size + r.size - Gen.hkeyElementsPrefixSize * 2 + 1) / 2)
      (dg (rawSizes o l)).reverse l.elems.length (l.size - Gen.hkeyElementsPrefixSize) = res at *
    obtain ⟨lc, ls⟩ := res
    simp only [Except.ok.injEq, Prod.mk.injEq] at h
    obtain ⟨rfl, rfl⟩ := h
    simp only [Gen.hkeyElementsPrefixSize] at hb hpre hr8 ⊢
    omega

theorem msl_hkey_borrow_sizes (T : Nat) (l r le re : HkeyElems α)
    (hpre : Gen.hkeyElementsPrefixSize + (dg (rawSizes o r)).sum ≤ r.size) (hl8 : Gen.hkeyElementsPrefixSize ≤ l.size)
    (h : HkeyElems.borrowFromRight o T l r = .ok (le, re)) :
    le.size + 8 ≤ l.size + r.size ∧ re.size + 8 ≤ l.size + r.size := by
  simp only [HkeyElems.borrowFromRight, dg_rawSizes] at h
  split at h
  · cases h
  · have hb := borrowLoop_bounds (minThr T - Gen.mapDataSlabPrefixSize - Gen.hkeyElementsPrefixSize)
      (l.size + r.size - Gen.hkeyElementsPrefixSize * 2) ((l.size + r.size - Gen.hkeyElementsPrefixSize * 2 + 1) / 2)
      (dg (rawSizes o r)) l.elems.length (l.size - Gen.hkeyElementsPrefixSize)
    generalize HkeyElems.borrowLoop (minThr T - Gen.mapDataSlabPrefixSize - Gen.hkeyElementsPrefixSize)
      (l.size + r.size - Gen.hkeyElementsPrefixSize * 2) ((l.size + r.size - Gen.hkeyElementsPrefixSize * 2 + 1) / 2)
      (dg (rawSizes o r)) l.elems.length (l.size - Gen.hkeyElementsPrefixSize) = res at *
    obtain ⟨lc, ls⟩ := res
    simp only [Except.ok.injEq, Prod.mk.injEq] at h
    obtain ⟨rfl, rfl⟩ := h
    simp only [Gen.hkeyElementsPrefixSize] at hb hpre hl8 ⊢
    omega

end sizes

/-! ## MapDataSlab (map_data_slab.go) -/

section data
variable {r : Nat} {V W X : Type} (T : Nat) (env : Env (MElemF (MElems r)) V W X Ctx GE)

/-- `MapDataSlab.Merge` IN FULL: the element groups merged, header size = prefix + new element size, firstKey = the
    first digest of the merged group, next = the right slab's; no error.  Needs: the right element size covers its
    prefix, the new header size (`18 + l + (r - 8) = l + r + 10`) fits uint32. -/
theorem MapDataSlab_Merge_full_eq_model (l rr : MDataSlab r) (x y : Option X)
    (hr8 : Gen.hkeyElementsPrefixSize ≤ rr.elems.size)
    (hsz : l.elems.size + rr.elems.size + 10 < 2^32) :
    MapDataSlab_Merge env (cData l x) (.dataSlab (cData rr y)) = some (none, cData (MDataSlab.merge l rr) x) := by
  have hm := hkeyElements_Merge_full_eq_model (V := V) env l.elems rr.elems hr8 (by omega)
  simp only [Gen.hkeyElementsPrefixSize] at hr8
  simp only [MapDataSlab_Merge, cData, elements_Merge_hkey, hm, Option.map_some, Option.isNone_none, Bool.not_true,
    Bool.false_eq_true, if_false, elements_Size_hkey, elements_firstKey_hkey, MDataSlab.merge, cHdr, Gen.mapDataSlabPrefixSize]
  have e18 : UInt32.ofNat 18 = u32 18 := rfl
  have hsize : (cH (HkeyElems.merge l.elems rr.elems)).size = u32 (HkeyElems.merge l.elems rr.elems).size := rfl
  have hms : (HkeyElems.merge l.elems rr.elems).size = l.elems.size + (rr.elems.size - 8) := rfl
  rw [hsize, e18, u32_add (by rw [hms]; omega)]

/-- `MapDataSlab.Merge` with anything but a `*MapDataSlab`: the type assertion panics -/
theorem MapDataSlab_Merge_wrong_type (m : MapDataSlab (MElemF (MElems r)) V X)
    (s : MapSlab (MElemF (MElems r)) V X) (hs : ∀ d, s ≠ .dataSlab d) :
    MapDataSlab_Merge env m s = none := by
  cases s with
  | dataSlab d => exact absurd rfl (hs d)
  | nil => rfl
  | metaSlab _ => rfl

/-- `MapDataSlab.Split` IN FULL: fewer than 2 elements = SlabSplitError with slab and storage untouched; otherwise
    the right slab (id = the one `GenerateSlabID` hands out for the left slab's address, size = prefix + right element
    size, firstKey = the first right digest, next = the old next, the right element group, no extra data, not
    inlined), the left slab (size, next = the new id, the left group; id / firstKey / extraData / inlined kept) - it is
    both the first result and the new receiver - and the storage after the allocation.
    Needs: `len(elems)` fits the `uint32` of `Count()` (else Go compares the TRUNCATED count with 2), the element size
    + slab prefix fits uint32 and covers prefix + elements, a digest for every element (`split` panics otherwise). -/
theorem MapDataSlab_Split_full_eq_model (hE : EnvH (MDataSlab.eops r) T env) (hS : EnvS env)
    (s : MDataSlab r) (x : Option X) (c : Ctx)
    (hcnt : s.elems.elems.length < 2^32)
    (hs : s.elems.size + Gen.mapDataSlabPrefixSize < 2^32)
    (hpre : Gen.hkeyElementsPrefixSize + (dg (rawSizes (MDataSlab.eops r) s.elems)).sum ≤ s.elems.size)
    (hlen : s.elems.elems.length ≤ s.elems.hkeys.length) :
    MapDataSlab_Split env (cData s x) c =
      match MDataSlab.split s c with
      | .error _ => some (.nil, .nil, some .slabSplit, cData s x, c)
      | .ok (l, rr, c') => some (.dataSlab (cData l x), .dataSlab (cData rr none), none, cData l x, c') := by
  simp only [Gen.mapDataSlabPrefixSize] at hs
  have hsp := hkeyElements_Split_full_eq_model (V := V) (MDataSlab.eops r) T env hE s.elems (by omega) hpre hlen
  have hb := msl_hkey_split_sizes (MDataSlab.eops r) s.elems hpre
  rcases hsplit : HkeyElems.split (MDataSlab.eops r) s.elems with ⟨le, re⟩
  rcases ha : c.alloc s.hdr.id.addr with ⟨sid, c'⟩
  simp only [hsplit] at hsp hb
  have e2 : (2 : UInt32) = u32 2 := rfl
  have e18 : UInt32.ofNat 18 = u32 18 := rfl
  have hl : (cH s.elems).elems.length = s.elems.elems.length := rfl
  simp only [MapDataSlab_Split, MDataSlab.split, cData, elements_Count_hkey, hl]
  rw [e2, u32_dlt hcnt (by omega)]
  by_cases h2 : s.elems.elems.length < 2
  · simp only [h2, decide_true, if_true, hE.eSplit]
  · simp only [h2, decide_false, if_false, Bool.false_eq_true, hsplit, ha, elements_Split_hkey, hsp, Option.map_some,
      Option.isNone_none, Bool.not_true, hS.gen, MapDataSlab_SlabID, cHdr, elements_Size_hkey, elements_firstKey_hkey,
      Gen.mapDataSlabPrefixSize]
    have h1 : (cH le).size = u32 le.size := rfl
    have h1' : (cH re).size = u32 re.size := rfl
    rw [h1, h1', e18, u32_add (by omega), u32_add (by omega)]

/-- `MapDataSlab.LendToRight` IN FULL: the error of the element groups (different hash levels) with both slabs
    untouched, else both element groups, both header sizes, the right firstKey (the left one is NOT recomputed, in Go as
    in the model).  `cData` has `anySize = false`, so the anySize guard does not fire.  Hypotheses = those of
    `hkeyElements_LendToRight_full_eq_model`, with `+ 10` so that the largest possible new header size
    (`18 + l + r - 8`) fits uint32. -/
theorem MapDataSlab_LendToRight_full_eq_model (hE : EnvH (MDataSlab.eops r) T env)
    (l rr : MDataSlab r) (x y : Option X)
    (hT : minThr T < 2^32) (hT2 : Gen.mapDataSlabPrefixSize + Gen.hkeyElementsPrefixSize ≤ minThr T)
    (hlv : l.elems.level < 2^64) (hrv : rr.elems.level < 2^64)
    (hsz : l.elems.size + rr.elems.size + 10 < 2^32)
    (hr8 : Gen.hkeyElementsPrefixSize ≤ rr.elems.size)
    (hpre : Gen.hkeyElementsPrefixSize + (dg (rawSizes (MDataSlab.eops r) l.elems)).sum ≤ l.elems.size)
    (hlen : l.elems.hkeys.length = l.elems.elems.length) :
    MapDataSlab_LendToRight env (cData l x) (.dataSlab (cData rr y)) =
      match MDataSlab.lendToRight T l rr with
      | .error _ => some (some .slabRebalance, cData l x, .dataSlab (cData rr y))
      | .ok (l', r') => some (none, cData l' x, .dataSlab (cData r' y)) := by
  have hm := hkeyElements_LendToRight_full_eq_model (V := V) (MDataSlab.eops r) T env hE l.elems rr.elems hT hT2 hlv hrv
    (by omega) hr8 hpre hlen
  have hb := msl_hkey_lend_sizes (MDataSlab.eops r) T l.elems rr.elems
  have e18 : UInt32.ofNat 18 = u32 18 := rfl
  simp only [MapDataSlab_LendToRight, MDataSlab.lendToRight, cData, Bool.or_false, Bool.false_eq_true, if_false,
    elements_LendToRight_hkey, hm]
  cases hres : HkeyElems.lendToRight (MDataSlab.eops r) T l.elems rr.elems with
  | error e =>
    simp only [bind, Except.bind, Option.map_some, Option.isNone_some, Bool.not_false, if_true]
  | ok p =>
    obtain ⟨le, re⟩ := p
    have hb' := hb le re hpre hr8 hres
    simp only [Gen.hkeyElementsPrefixSize] at hr8
    simp only [bind, Except.bind, pure, Except.pure, Option.map_some, Option.isNone_none, Bool.not_true,
      Bool.false_eq_true, if_false, elements_Size_hkey, elements_firstKey_hkey, cHdr, Gen.mapDataSlabPrefixSize]
    have h1 : (cH le).size = u32 le.size := rfl
    have h1' : (cH re).size = u32 re.size := rfl
    rw [h1, h1', e18, u32_add (by omega), u32_add (by omega)]

/-- `MapDataSlab.BorrowFromRight` IN FULL, likewise; here BOTH firstKeys are recomputed (Go and model). -/
theorem MapDataSlab_BorrowFromRight_full_eq_model (hE : EnvH (MDataSlab.eops r) T env)
    (l rr : MDataSlab r) (x y : Option X)
    (hT : minThr T < 2^32) (hT2 : Gen.mapDataSlabPrefixSize + Gen.hkeyElementsPrefixSize ≤ minThr T)
    (hlv : l.elems.level < 2^64) (hrv : rr.elems.level < 2^64)
    (hsz : l.elems.size + rr.elems.size + 10 < 2^32)
    (hl8 : Gen.hkeyElementsPrefixSize ≤ l.elems.size)
    (hpre : Gen.hkeyElementsPrefixSize + (dg (rawSizes (MDataSlab.eops r) rr.elems)).sum ≤ rr.elems.size)
    (hlen : rr.elems.elems.length ≤ rr.elems.hkeys.length) :
    MapDataSlab_BorrowFromRight env (cData l x) (.dataSlab (cData rr y)) =
      match MDataSlab.borrowFromRight T l rr with
      | .error _ => some (some .slabRebalance, cData l x, .dataSlab (cData rr y))
      | .ok (l', r') => some (none, cData l' x, .dataSlab (cData r' y)) := by
  have hm := hkeyElements_BorrowFromRight_full_eq_model (V := V) (MDataSlab.eops r) T env hE l.elems rr.elems hT hT2
    hlv hrv (by omega) hl8 hpre hlen
  have hb := msl_hkey_borrow_sizes (MDataSlab.eops r) T l.elems rr.elems
  have e18 : UInt32.ofNat 18 = u32 18 := rfl
  simp only [MapDataSlab_BorrowFromRight, MDataSlab.borrowFromRight, cData, Bool.or_false, Bool.false_eq_true, if_false,
    elements_BorrowFromRight_hkey, hm]
  cases hres : HkeyElems.borrowFromRight (MDataSlab.eops r) T l.elems rr.elems with
  | error e =>
    simp only [bind, Except.bind, Option.map_some, Option.isNone_some, Bool.not_false, if_true]
  | ok p =>
    obtain ⟨le, re⟩ := p
    have hb' := hb le re hpre hl8 hres
    simp only [Gen.hkeyElementsPrefixSize] at hl8 hpre
    simp only [bind, Except.bind, pure, Except.pure, Option.map_some, Option.isNone_none, Bool.not_true,
      Bool.false_eq_true, if_false, elements_Size_hkey, elements_firstKey_hkey, cHdr, Gen.mapDataSlabPrefixSize]
    have h1 : (cH le).size = u32 le.size := rfl
    have h1' : (cH re).size = u32 re.size := rfl
    rw [h1, h1', e18, u32_add (by omega), u32_add (by omega)]

/-- `LendToRight` / `BorrowFromRight` with anything but a `*MapDataSlab`: the type assertion panics -/
theorem MapDataSlab_LendToRight_wrong_type (m : MapDataSlab (MElemF (MElems r)) V X)
    (s : MapSlab (MElemF (MElems r)) V X) (hs : ∀ d, s ≠ .dataSlab d) :
    MapDataSlab_LendToRight env m s = none := by
  cases s with
  | dataSlab d => exact absurd rfl (hs d)
  | nil => rfl
  | metaSlab _ => rfl

theorem MapDataSlab_BorrowFromRight_wrong_type (m : MapDataSlab (MElemF (MElems r)) V X)
    (s : MapSlab (MElemF (MElems r)) V X) (hs : ∀ d, s ≠ .dataSlab d) :
    MapDataSlab_BorrowFromRight env m s = none := by
  cases s with
  | dataSlab d => exact absurd rfl (hs d)
  | nil => rfl
  | metaSlab _ => rfl

end data

/-! ## non-vacuity: the hypotheses hold for a concrete two-element slab (and the model does split it) -/

private def msl_exElemD (k sz : Nat) : MElemF (MElems 0) :=
  .single { key := ⟨1, k, [k]⟩, val := ⟨1, .val k⟩, size := sz }

private def msl_exDataSlab (id : Nat) (k1 k2 : Nat) : MDataSlab 0 :=
  { hdr := ⟨⟨1, id⟩, 18 + 8 + 20 + 20, k1⟩, next := ⟨0, 0⟩,
    elems := { hkeys := [k1, k2], elems := [msl_exElemD k1 12, msl_exElemD k2 12], size := 8 + 20 + 20, level := 0 },
    root := false, inlined := false }

/-- the hypotheses of `MapDataSlab_Split_full_eq_model`, and the model's result: one element on each side -/
example :
    let s := msl_exDataSlab 1 5 9
    s.elems.elems.length < 2^32 ∧ s.elems.size + Gen.mapDataSlabPrefixSize < 2^32 ∧
    Gen.hkeyElementsPrefixSize + (dg (rawSizes (MDataSlab.eops 0) s.elems)).sum ≤ s.elems.size ∧
    s.elems.elems.length ≤ s.elems.hkeys.length ∧
    (MDataSlab.split s ⟨0, [], []⟩).toOption.map (fun p => (p.1.elems.hkeys, p.1.hdr.size, p.2.1.elems.hkeys, p.2.1.hdr)) =
      some ([5], 18 + 8 + 20, [9], ⟨⟨1, 1⟩, 18 + 8 + 20, 9⟩) := by
  decide

/-- the hypotheses of the Merge / LendToRight / BorrowFromRight theorems (threshold 1024) -/
example :
    let l := msl_exDataSlab 1 5 9
    let rr := msl_exDataSlab 2 11 15
    minThr 1024 < 2^32 ∧ Gen.mapDataSlabPrefixSize + Gen.hkeyElementsPrefixSize ≤ minThr 1024 ∧
    l.elems.level < 2^64 ∧ rr.elems.level < 2^64 ∧ l.elems.size + rr.elems.size + 10 < 2^32 ∧
    Gen.hkeyElementsPrefixSize ≤ l.elems.size ∧ Gen.hkeyElementsPrefixSize ≤ rr.elems.size ∧
    Gen.hkeyElementsPrefixSize + (dg (rawSizes (MDataSlab.eops 0) l.elems)).sum ≤ l.elems.size ∧
    Gen.hkeyElementsPrefixSize + (dg (rawSizes (MDataSlab.eops 0) rr.elems)).sum ≤ rr.elems.size ∧
    l.elems.hkeys.length = l.elems.elems.length ∧ rr.elems.elems.length ≤ rr.elems.hkeys.length := by
  decide

end Atree.TransEq
