import AtreeProofs.Props.TransDescentPop
import AtreeProofs.Props.TransDescentRoute
/-
  TRANSLATION EQUIVALENCE, the DESCENT (WP12): `Array.PopIterate` at the TOP LEVEL over a heap.

  The generated `Array_PopIterate` (Gen/TransSlabs.lean) calls `PopIterate` of the root slab through dynamic dispatch
  (`Sl_ArraySlab_PopIterate_heap`, Props/TransDescentPop.lean: every slab below the root is popped and removed), reads
  the identifier, the EXTRA DATA and the `inlined` flag of the emptied root, replaces the root by the composite literal
  `&ArrayDataSlab{header: {slabID: rootID, size: prefix}, extraData: extraData, inlined: inlined}` and - unless the
  array is inlined - stores it (`storeSlab`), then `notifyParentIfNeeded` (the identity of `envH`).

  On the handle of a model array `a` whose tree the heap holds (pairwise distinct identifiers, header copies that name
  the children, a depth argument that covers the tree, the root slab marked as root) the generated code
    * hands the callback the elements of the model's `Arr.popIterate` (last to first), no error,
    * leaves the handle of the model's emptied array (`trArrH`), the model's `Ctx`,
    * and the heap: NOT inlined - the new tree (one empty root data slab) is stored under the root identifier, every
      other identifier of the old tree is gone, everything else untouched (`HeapPost`); inlined (depth 0 only) -
      nothing is stored, the storage is untouched (`s' = s`).
  `hroot` (the old root slab has `isRoot = true`, part of `TreeInv T d true`) is NEEDED: the generated code copies the
  OLD root's extra data into the new slab, the model sets `root := true` (see `exNotRoot` at the end).
-/
namespace Atree.TransEq
open Atree Atree.Gen

/-- the root the model's `Arr.popIterate` leaves: a single empty root data slab under the old root identifier -/
def popRoot (a : Arr) : DataSlab :=
  { hdr := { id := a.rootID, count := 0,
             size := if a.isInlined then inlinedArrayDataSlabPrefixSize else arrayRootDataSlabPrefixSize },
    next := SlabID.undef, elems := [], root := true, inlined := a.isInlined }

/-- the model's `Arr.popIterate` in projections -/
theorem Arr.popIterate_eq (a : Arr) (c : Ctx) :
    a.popIterate c = ((ATree.popIterate a.d a.root c).1, ⟨0, popRoot a, a.ty⟩,
      if a.isInlined then (ATree.popIterate a.d a.root c).2.2
      else (ATree.popIterate a.d a.root c).2.2.emit (.store a.rootID)) := rfl

theorem Arr.popIterate_d (a : Arr) (c : Ctx) : (a.popIterate c).2.1.d = 0 := rfl
theorem Arr.popIterate_root (a : Arr) (c : Ctx) : (a.popIterate c).2.1.root = popRoot a := rfl

/-- an inlined array is a single data slab -/
theorem Arr.d_of_isInlined (a : Arr) (h : a.isInlined = true) : a.d = 0 := by
  obtain ⟨d, root, ty⟩ := a
  cases d with
  | zero => rfl
  | succ d => exact absurd h (by simp [Arr.isInlined])

/-- the storage `Array.PopIterate` leaves: untouched when the array is inlined; otherwise every slab below the root is
    gone and the empty root data slab is stored under the root identifier -/
def popTopSt (a : Arr) (s : HSt) : HSt :=
  if a.isInlined then s
  else (s.clear (belowIds a.d a.root) (ATree.popIterate a.d a.root s.ctx).2.2).store a.rootID
    (some (.dataSlab (trData (popRoot a))))

theorem popTopSt_inlined (a : Arr) (s : HSt) (h : a.isInlined = true) : popTopSt a s = s := by
  simp [popTopSt, h]

theorem popTopSt_standalone (a : Arr) (s : HSt) (h : a.isInlined = false) :
    popTopSt a s = (s.clear (belowIds a.d a.root) (ATree.popIterate a.d a.root s.ctx).2.2).store a.rootID
      (some (trTree 0 (popRoot a))) := by
  simp [popTopSt, h, trTree]

/-- the `Ctx` of the storage `Array.PopIterate` leaves is the model's -/
theorem popTopSt_ctx (a : Arr) (s : HSt) : (popTopSt a s).ctx = (a.popIterate s.ctx).2.2 := by
  rw [Arr.popIterate_eq]
  obtain ⟨d, root, ty⟩ := a
  cases d with
  | zero =>
    rcases hi : (root : DataSlab).inlined with _ | _
    · have hinl : (⟨0, root, ty⟩ : Arr).isInlined = false := hi
      simp [popTopSt, hinl]
    · have hinl : (⟨0, root, ty⟩ : Arr).isInlined = true := hi
      simp only [popTopSt, hinl, if_true]
      rfl
  | succ d =>
    have hinl : (⟨d + 1, root, ty⟩ : Arr).isInlined = false := rfl
    simp [popTopSt, hinl]

/-- the heap of the storage `Array.PopIterate` leaves for an array that is not inlined: `HeapPost` - it holds the new
    tree (the empty root data slab under the root identifier), every other identifier of the old tree is gone, every
    identifier outside the old tree is untouched -/
theorem popTopSt_heapPost (a : Arr) (s : HSt) (h : a.isInlined = false) :
    HeapPost (d' := 0) s.heap (popTopSt a s).heap a.root (popRoot a) := by
  have hids : ATree.slabIds 0 ((popRoot a : DataSlab) : ATree 0) = [a.rootID] := rfl
  have hcons : ATree.slabIds a.d a.root = a.rootID :: belowIds a.d a.root := slabIds_eq_cons a.d a.root
  refine ⟨?_, ?_, ?_⟩
  · show (popTopSt a s).heap (popRoot a).hdr.id = some (.dataSlab (trData (popRoot a)))
    simp [popTopSt, h, popRoot]
  · intro id hid hnot
    rw [hids, List.mem_singleton] at hnot
    rw [hcons, List.mem_cons] at hid
    have hb : id ∈ belowIds a.d a.root := hid.resolve_left hnot
    simp [popTopSt, h, hnot, hb]
  · intro id hid hnot
    rw [hids, List.mem_singleton] at hnot
    rw [hcons, List.mem_cons, not_or] at hid
    simp [popTopSt, h, hnot, hid.2]

/-- on the heap of the tree (`heapOf`) the heap afterwards is the heap of the model's new tree, at every identifier -/
theorem popTopSt_heapOf (a : Arr) (c : Ctx) (h : a.isInlined = false) (id : SlabID) :
    (popTopSt a ⟨heapOf a.d a.root, c⟩).heap id = heapOf 0 ((popRoot a : DataSlab) : ATree 0) id := by
  have hcons : ATree.slabIds a.d a.root = a.rootID :: belowIds a.d a.root := slabIds_eq_cons a.d a.root
  have hr : (popRoot a).hdr.id = a.rootID := rfl
  by_cases h1 : id = a.rootID
  · simp [popTopSt, h, heapOf, hr, h1]
  · by_cases h2 : id ∈ belowIds a.d a.root
    · simp [popTopSt, h, heapOf, hr, h1, h2]
    · have hnot : id ∉ ATree.slabIds a.d a.root := by
        rw [hcons, List.mem_cons, not_or]; exact ⟨h1, h2⟩
      simp [popTopSt, h, heapOf, hr, h1, h2, heapOf_none a.d a.root id hnot]

/-! ### the two depths -/

theorem popTop_zero (T : Nat) (root : DataSlab) (ty : Nat) (s : HSt) (acc : List (Option Elem)) (depth : Nat)
    (hh : Holds s.heap 0 root) (hroot : root.root = true) :
    TransSl.Array_PopIterate (envH T) depth (trArrH ⟨0, root, ty⟩ s) acc =
      some (none, trArrH ((⟨0, root, ty⟩ : Arr).popIterate s.ctx).2.1 (popTopSt ⟨0, root, ty⟩ s),
        acc ++ ((⟨0, root, ty⟩ : Arr).popIterate s.ctx).1.map some) := by
  have h := Sl_ArraySlab_PopIterate_heap T 0 root s acc depth (Nat.zero_le _) hh trivial
    (by show [root.hdr.id].Nodup; simp)
  simp only [TransSl.Array_PopIterate, trArrH_root, trArrH_Storage, h, Arr.popIterate_eq]
  simp only [trTree, ATree.popIterate, belowIds, HSt.clear_nil, Option.isSome_none, Bool.false_eq_true, if_false,
    TransSl.ArraySlab_SlabID, TransSl.ArrayDataSlab_SlabID, TransSl.ArraySlab_ExtraData,
    TransSl.ArrayDataSlab_ExtraData, TransSl.ArraySlab_Inlined, TransSl.ArrayDataSlab_Inlined,
    DataSlab.popIterate, trData_inlined, trData_header, trHdr_slabID, trData_extraData, hroot]
  rcases hi : root.inlined with _ | _
  · simp only [Bool.false_eq_true, if_false, TransSl.Array_PopIterate.k1, TransSl.Array_Inlined,
      TransSl.ArraySlab_Inlined, TransSl.ArrayDataSlab_Inlined, Bool.not_false, if_true, storeSlab_envH,
      Option.isSome_none, envH_notify, TransSl.ArraySlab_SlabID, TransSl.ArrayDataSlab_SlabID]
    have hinl : (⟨0, root, ty⟩ : Arr).isInlined = false := hi
    simp only [trArrH, popTopSt, popRoot, hinl, trTree, trData, trHdr, Arr.rootID, Arr.rootHdr, ATree.hdr, belowIds,
      ATree.popIterate, DataSlab.popIterate, HSt.clear_nil, Bool.false_eq_true, if_false]
    rfl
  · simp only [if_true, TransSl.Array_PopIterate.k1, TransSl.Array_Inlined,
      TransSl.ArraySlab_Inlined, TransSl.ArrayDataSlab_Inlined, Bool.not_true, Bool.false_eq_true, if_false,
      envH_notify]
    have hinl : (⟨0, root, ty⟩ : Arr).isInlined = true := hi
    simp only [trArrH, popTopSt, popRoot, hinl, trTree, trData, trHdr, Arr.rootID, Arr.rootHdr, ATree.hdr, if_true]
    rfl

theorem popTop_succ (T d : Nat) (root : MetaSlab (ATree d)) (ty : Nat) (s : HSt) (acc : List (Option Elem))
    (depth : Nat) (hd : d + 1 ≤ depth) (hh : Holds s.heap (d + 1) root) (hok : HdrsOk (d + 1) root)
    (hn : (ATree.slabIds (d + 1) root).Nodup) (hroot : root.root = true) :
    TransSl.Array_PopIterate (envH T) depth (trArrH ⟨d + 1, root, ty⟩ s) acc =
      some (none, trArrH ((⟨d + 1, root, ty⟩ : Arr).popIterate s.ctx).2.1 (popTopSt ⟨d + 1, root, ty⟩ s),
        acc ++ ((⟨d + 1, root, ty⟩ : Arr).popIterate s.ctx).1.map some) := by
  have h := Sl_ArraySlab_PopIterate_heap T (d + 1) root s acc depth hd hh hok hn
  have hinl : (⟨d + 1, root, ty⟩ : Arr).isInlined = false := rfl
  simp only [TransSl.Array_PopIterate, trArrH_root, trArrH_Storage, h, Arr.popIterate_eq]
  simp only [trTree, TransSl.ArraySlab_Inlined, TransSl.ArrayMetaDataSlab_Inlined, Option.isSome_none,
    Bool.false_eq_true, if_false, TransSl.Array_PopIterate.k1, TransSl.Array_Inlined, TransSl.ArrayDataSlab_Inlined,
    Bool.not_false, if_true, storeSlab_envH, envH_notify, TransSl.ArraySlab_SlabID, TransSl.ArrayDataSlab_SlabID,
    TransSl.ArrayMetaDataSlab_SlabID, TransSl.ArraySlab_ExtraData, TransSl.ArrayMetaDataSlab_ExtraData,
    popIterate_succ, trMeta_header, trMeta_extraData, trHdr_slabID, hroot]
  simp only [trArrH, popTopSt, popRoot, hinl, trTree, trData, trHdr, Arr.rootID, Arr.rootHdr, ATree.hdr,
    Bool.false_eq_true, if_false, popIterate_succ]
  rfl

/-! ### the theorems -/

/-- the root slab of a valid array is marked as root (it carries the extra data) -/
theorem isRoot_of_arrInv {T : Nat} {a : Arr} {ctr : Nat} (hinv : ArrInv T a ctr) : ATree.isRoot a.d a.root = true := by
  have ht := hinv.tree
  obtain ⟨d, root, ty⟩ := a
  cases d with
  | zero => exact (ht : DataInv T true root).root_eq
  | succ d => exact (ht : _ ∧ _).1

/-- **`Array.PopIterate` over a heap** (explicit final storage `popTopSt`): on the handle of a model array whose tree
    the heap holds - identifiers pairwise distinct, header copies naming the children, the root slab marked as root, a
    depth argument that covers the tree - the generated code returns no error, the handle of the model's emptied array
    over the storage `popTopSt a s`, and has handed the callback the elements of the model's `Arr.popIterate`. -/
theorem Sl_Array_PopIterate_heap (T : Nat) (a : Arr) (s : HSt) (acc : List (Option Elem)) (depth : Nat)
    (hd : a.d ≤ depth) (hh : Holds s.heap a.d a.root) (hok : HdrsOk a.d a.root)
    (hn : (ATree.slabIds a.d a.root).Nodup) (hroot : ATree.isRoot a.d a.root = true) :
    TransSl.Array_PopIterate (envH T) depth (trArrH a s) acc =
      some (none, trArrH (a.popIterate s.ctx).2.1 (popTopSt a s), acc ++ (a.popIterate s.ctx).1.map some) := by
  obtain ⟨d, root, ty⟩ := a
  cases d with
  | zero => exact popTop_zero T root ty s acc depth hh hroot
  | succ d => exact popTop_succ T d root ty s acc depth hd hh hok hn hroot

/-- **the same in the form "result, `Ctx`, heap"**: the storage afterwards has the model's `Ctx`; when the array is not
    inlined its heap is `HeapPost` of the old and the model's new tree (the empty root data slab stored under the root
    identifier, every other slab of the old tree gone, the rest untouched); when it is inlined (only at depth 0)
    NOTHING is stored: the storage is the one before. -/
theorem Sl_Array_PopIterate_heap_post (T : Nat) (a : Arr) (s : HSt) (acc : List (Option Elem)) (depth : Nat)
    (hd : a.d ≤ depth) (hh : Holds s.heap a.d a.root) (hok : HdrsOk a.d a.root)
    (hn : (ATree.slabIds a.d a.root).Nodup) (hroot : ATree.isRoot a.d a.root = true) :
    ∃ s' : HSt,
      TransSl.Array_PopIterate (envH T) depth (trArrH a s) acc =
        some (none, trArrH (a.popIterate s.ctx).2.1 s', acc ++ (a.popIterate s.ctx).1.map some) ∧
      s'.ctx = (a.popIterate s.ctx).2.2 ∧
      (a.isInlined = false → HeapPost s.heap s'.heap a.root (a.popIterate s.ctx).2.1.root) ∧
      (a.isInlined = true → a.d = 0 ∧ s' = s) :=
  ⟨popTopSt a s, Sl_Array_PopIterate_heap T a s acc depth hd hh hok hn hroot, popTopSt_ctx a s,
    fun h => popTopSt_heapPost a s h, fun h => ⟨Arr.d_of_isInlined a h, popTopSt_inlined a s h⟩⟩

/-- **under the array invariant** (`ArrInv`: `TreeInv` of the root as root - header copies, `isRoot` -, distinct
    identifiers, stand-alone = not inlined): the only hypotheses left are that the heap holds the tree and that the
    depth argument covers it; the new root is always stored. -/
theorem Sl_Array_PopIterate_heap_inv (T : Nat) (a : Arr) (ctr : Nat) (hinv : ArrInv T a ctr) (s : HSt)
    (acc : List (Option Elem)) (depth : Nat) (hd : a.d ≤ depth) (hh : Holds s.heap a.d a.root) :
    ∃ s' : HSt,
      TransSl.Array_PopIterate (envH T) depth (trArrH a s) acc =
        some (none, trArrH (a.popIterate s.ctx).2.1 s', acc ++ (a.popIterate s.ctx).1.map some) ∧
      s' = (s.clear (belowIds a.d a.root) (ATree.popIterate a.d a.root s.ctx).2.2).store a.rootID
        (some (trTree (a.popIterate s.ctx).2.1.d (a.popIterate s.ctx).2.1.root)) ∧
      s'.ctx = (a.popIterate s.ctx).2.2 ∧
      HeapPost s.heap s'.heap a.root (a.popIterate s.ctx).2.1.root := by
  exact ⟨popTopSt a s,
    Sl_Array_PopIterate_heap T a s acc depth hd hh (HdrsOk.of_inv a.root hinv.tree) hinv.ids.1 (isRoot_of_arrInv hinv),
    popTopSt_standalone a s hinv.standalone, popTopSt_ctx a s, popTopSt_heapPost a s hinv.standalone⟩

/-- **the `heapOf` form**: the generated function on the heap of the tree = the heap of the model function's tree.
    On the storage that holds exactly the array (`heapOf a.d a.root`, any `Ctx`), for an array that is not inlined, the
    heap afterwards IS `heapOf` of the model's new tree, at EVERY identifier. -/
theorem Sl_Array_PopIterate_heapOf (T : Nat) (a : Arr) (c : Ctx) (acc : List (Option Elem)) (depth : Nat)
    (hd : a.d ≤ depth) (hok : HdrsOk a.d a.root) (hn : (ATree.slabIds a.d a.root).Nodup)
    (hroot : ATree.isRoot a.d a.root = true) (hinl : a.isInlined = false) :
    ∃ s' : HSt,
      TransSl.Array_PopIterate (envH T) depth (trArrH a ⟨heapOf a.d a.root, c⟩) acc =
        some (none, trArrH (a.popIterate c).2.1 s', acc ++ (a.popIterate c).1.map some) ∧
      s'.ctx = (a.popIterate c).2.2 ∧
      ∀ id, s'.heap id = heapOf (a.popIterate c).2.1.d (a.popIterate c).2.1.root id :=
  ⟨popTopSt a ⟨heapOf a.d a.root, c⟩,
    Sl_Array_PopIterate_heap T a ⟨heapOf a.d a.root, c⟩ acc depth hd (Holds_heapOf a.d a.root hn) hok hn hroot,
    popTopSt_ctx a ⟨heapOf a.d a.root, c⟩, fun id => popTopSt_heapOf a c hinl id⟩

/-- the `heapOf` form under the array invariant -/
theorem Sl_Array_PopIterate_heapOf_inv (T : Nat) (a : Arr) (ctr : Nat) (hinv : ArrInv T a ctr) (c : Ctx)
    (acc : List (Option Elem)) (depth : Nat) (hd : a.d ≤ depth) :
    ∃ s' : HSt,
      TransSl.Array_PopIterate (envH T) depth (trArrH a ⟨heapOf a.d a.root, c⟩) acc =
        some (none, trArrH (a.popIterate c).2.1 s', acc ++ (a.popIterate c).1.map some) ∧
      s'.ctx = (a.popIterate c).2.2 ∧
      ∀ id, s'.heap id = heapOf (a.popIterate c).2.1.d (a.popIterate c).2.1.root id :=
  Sl_Array_PopIterate_heapOf T a c acc depth hd (HdrsOk.of_inv a.root hinv.tree) hinv.ids.1 (isRoot_of_arrInv hinv)
    hinv.standalone

/-- the depth argument does not cover an index-slab root: the generated code leaves the modelled fragment -/
theorem Sl_Array_PopIterate_depth0 (T d : Nat) (root : MetaSlab (ATree d)) (ty : Nat) (s : HSt)
    (acc : List (Option Elem)) :
    TransSl.Array_PopIterate (envH T) 0 (trArrH ⟨d + 1, root, ty⟩ s) acc = none := rfl

/-- **the error exit**: the heap does not hold the LAST child of the root index slab (the first one visited):
    `SlabNotFoundError`, the handle - root and storage - is unchanged, the callback was not called.  (The model has no
    such case: `Holds` excludes it.) -/
theorem Sl_Array_PopIterate_notFound (T d : Nat) (root : MetaSlab (ATree d)) (ty : Nat) (pre : List Hdr) (h : Hdr)
    (hhdrs : root.childHdrs = pre ++ [h]) (s : HSt) (hnone : s.heap h.id = none) (acc : List (Option Elem))
    (depth : Nat) :
    TransSl.Array_PopIterate (envH T) (depth + 1) (trArrH ⟨d + 1, root, ty⟩ s) acc =
      some (some .slabNotFound, trArrH ⟨d + 1, root, ty⟩ s, acc) := by
  have e := Sl_ArrayMetaDataSlab_PopIterate_notFound T root pre h hhdrs s hnone acc depth
  simp only [TransSl.Array_PopIterate, trArrH_root, trArrH_Storage, trTree, TransSl.ArraySlab_PopIterate, e,
    Option.isSome_some, if_true]
  rfl

/-- **the error exit in the middle**: child `j` of the root index slab is missing, the children to its right are held:
    `SlabNotFoundError`; the root of the handle is UNCHANGED (it still lists every child, count and size as before),
    but the children to the right of `j` have been popped and removed with everything below them, their elements
    handed to the callback, and the root is NOT stored: the handle and the stored root both name removed slabs.  (The
    model has no such case: `Holds` excludes it.) -/
theorem Sl_Array_PopIterate_notFound_at (T d : Nat) (root : MetaSlab (ATree d)) (ty : Nat) (s : HSt)
    (acc : List (Option Elem)) (depth : Nat) (hd : d ≤ depth) (hok : HdrsOk (d + 1) root) (j : Nat)
    (hj : j < root.children.length) (hh : ∀ c ∈ root.children.drop (j + 1), Holds s.heap d c)
    (hn : ((root.children.drop (j + 1)).flatMap (ATree.slabIds d)).Nodup)
    (hnone : s.heap (ATree.hdr d root.children[j]).id = none) :
    TransSl.Array_PopIterate (envH T) (depth + 1) (trArrH ⟨d + 1, root, ty⟩ s) acc =
      some (some .slabNotFound,
        trArrH ⟨d + 1, root, ty⟩
          (s.clear ((root.children.drop (j + 1)).flatMap (ATree.slabIds d))
            ((root.children.drop (j + 1)).reverse.foldl (popStep d) ([], s.ctx)).2),
        acc ++ ((root.children.drop (j + 1)).reverse.foldl (popStep d) ([], s.ctx)).1.map some) := by
  have e := Sl_ArrayMetaDataSlab_PopIterate_notFound_at T d root s acc depth hd hok j hj hh hn hnone
  simp only [TransSl.Array_PopIterate, trArrH_root, trArrH_Storage, trTree, TransSl.ArraySlab_PopIterate, e,
    Option.isSome_some, if_true]
  rfl

/-! ### non-vacuity -/

section
/-- the two-level array `exRouteArr` (root `exMeta` over two data slabs of four elements), its heap: the hypotheses hold -/
example (c : Ctx) : Holds (exRouteSt c).heap exRouteArr.d exRouteArr.root ∧ HdrsOk exRouteArr.d exRouteArr.root ∧
    (ATree.slabIds exRouteArr.d exRouteArr.root).Nodup ∧ ATree.isRoot exRouteArr.d exRouteArr.root = true :=
  ⟨exMeta_holds, HdrsOk.of_inv (T := 256) (d := 1) (top := true) exMeta exMeta_treeInv, by decide, rfl⟩

/-- the generated `Array.PopIterate` EVALUATED on it: no error, the new root, the effects, the heap at the three
    identifiers (root = the empty data slab, both children gone), eight elements -/
example : (TransSl.Array_PopIterate (envH 256) 1 (trArrH exRouteArr (exRouteSt ⟨7, [], []⟩)) []).map
      (fun r => (r.1, r.2.1.root, r.2.1.Storage.ctx.eff, r.2.1.Storage.heap ⟨1, 1⟩, r.2.1.Storage.heap ⟨1, 2⟩,
        r.2.1.Storage.heap ⟨1, 3⟩, r.2.2.length)) =
    some (none, some (trTree 0 (popRoot exRouteArr)), [.remove ⟨1, 3⟩, .remove ⟨1, 2⟩, .store ⟨1, 1⟩],
      some (trTree 0 (popRoot exRouteArr)), none, none, 8) := by rfl

example : trTree 0 (popRoot exRouteArr) =
    .dataSlab { next := SlabID.undef, header := { slabID := ⟨1, 1⟩, size := 5, count := 0 }, elements := [],
                extraData := some (), inlined := false } := by rfl

/-- the left child missing from the heap: `SlabNotFoundError` after the right child was popped and removed; the handle
    still has the OLD root (`Sl_Array_PopIterate_notFound_at`) and nothing is stored -/
example : (TransSl.Array_PopIterate (envH 256) 1 (trArrH exRouteArr
        ⟨fun id => if id = ⟨1, 2⟩ then none else heapOf 1 exMeta id, ⟨7, [], []⟩⟩) []).map
      (fun r => (r.1, r.2.1.root, r.2.1.Storage.ctx.eff, r.2.1.Storage.heap ⟨1, 1⟩, r.2.1.Storage.heap ⟨1, 3⟩,
        r.2.2.length)) =
    some (some .slabNotFound, some (trTree 1 exMeta), [.remove ⟨1, 3⟩], some (trTree 1 exMeta), none, 4) := by rfl

/-- an INLINED root data slab: nothing is stored, no effect; the new slab keeps `inlined`, prefix size 17 -/
private def exInl : Arr :=
  ⟨0, ({ hdr := ⟨⟨1, 1⟩, 17 + 100, 2⟩, next := SlabID.undef, elems := [⟨50, .val 1⟩, ⟨50, .val 2⟩], root := true,
         inlined := true } : DataSlab), 7⟩

example : (TransSl.Array_PopIterate (envH 256) 0 (trArrH exInl ⟨heapOf 0 exInl.root, ⟨7, [], []⟩⟩) []).map
      (fun r => (r.1, r.2.1.root, r.2.1.Storage.ctx.eff, r.2.1.Storage.heap ⟨1, 1⟩, r.2.2)) =
    some (none, some (trTree 0 (popRoot exInl)), [], some (trTree 0 exInl.root),
      [some ⟨50, .val 2⟩, some ⟨50, .val 1⟩]) := by rfl

example : (exInl.popIterate ⟨7, [], []⟩).2.2.eff = [] ∧ (popRoot exInl).hdr.size = 17 ∧
    (popRoot exInl).inlined = true := ⟨rfl, rfl, rfl⟩

/-- `hroot` is NEEDED: a root data slab that is NOT marked as root (no extra data).  The generated code copies the old
    extra data (`nil`) into the new root slab, the model's new root has `root := true` (extra data present). -/
private def exNotRoot : Arr :=
  ⟨0, ({ hdr := ⟨⟨1, 1⟩, 21 + 50, 1⟩, next := SlabID.undef, elems := [⟨50, .val 1⟩], root := false,
         inlined := false } : DataSlab), 7⟩

example : (TransSl.Array_PopIterate (envH 256) 0 (trArrH exNotRoot ⟨heapOf 0 exNotRoot.root, ⟨7, [], []⟩⟩) []).map
      (fun r => r.2.1.root) =
    some (some (.dataSlab { next := SlabID.undef, header := { slabID := ⟨1, 1⟩, size := 5, count := 0 },
                            elements := [], extraData := none, inlined := false })) ∧
    (trData (popRoot exNotRoot)).extraData = some () ∧
    Holds (heapOf 0 exNotRoot.root) 0 exNotRoot.root := ⟨by rfl, rfl, by simp [Holds, heapOf]⟩
end

end Atree.TransEq
