import AtreeProofs.Props.TransElemClosedA
import AtreeProofs.Props.TransElemClosedH
import AtreeProofs.Props.TransElemClosedSet
/-
  WP13, part 4: THE KNOT.  By induction on the number `r` of digest levels left, the closed environments of
  `Trans/MapClosed.lean` satisfy the relativised environment predicates (`clEnvB_ok`, `clEnvA_ok`) for the guards
  `mcl_QG / mcl_QS / mcl_QR / mcl_QN r` — recursive predicates on MODEL values (and on what the storage returns for the
  slabs of external groups) only.  Consequently the closed generated functions equal the model's operations
  (`elements_Get / Set / Remove_eq_model_closed_of_guard`).  `Props/TransElemClosedInv.lean` derives the guards from the
  map element invariant `ElemsInv` and `uint` range conditions.  Core Lean only.
-/
namespace Atree.TransEq
open Atree

section knot
variable {X : Type} (cfg : MCfg) (k : MKey) (v : Elem) (retr : mcl_Retrs X)

/-- guard of the closed `Get` at level `r` -/
def mcl_QG : (r : Nat) → MElems r → Nat → Ctx → Prop
  | 0 => fun _ _ _ => True
  | r + 1 => mcl_QgH k (mcl_Pg (retr r) (mcl_QG r))

/-- guard of the closed `Remove` at level `r` -/
def mcl_QR : (r : Nat) → MElems r → Nat → Ctx → Prop
  | 0 => mcl_QR0 cfg k
  | r + 1 => mcl_QrH (MElems.ops r) cfg k (mcl_Pr (MElems.ops r) cfg k (retr r) (mcl_QR r))

/-- guard of the group constructors at level `r` -/
def mcl_QN : (r : Nat) → Nat → SElem → Prop
  | 0 => fun _ x => x.size + Gen.singleElementsPrefixSize < 2^32
  | _ + 1 => mcl_QnH

/-- guard of the closed `Set` at level `r` -/
def mcl_QS : (r : Nat) → MElems r → Nat → Ctx → Prop
  | 0 => mcl_QS0 cfg k v
  | r + 1 => mcl_QsH (MElems.ops r) cfg k v (mcl_Pg (retr r) (mcl_QG k retr r))
      (mcl_Ps (MElems.ops r) cfg k v (retr r) (mcl_QS r) (mcl_QN r))

variable (hL : cfg.L < 2^64) (hT : cfg.T < 2^32) (hTe : maxInlineMapElem cfg.T < 2^32) (hcl : cfg.climit < 2^32)
include hL hT hTe hcl

/-- THE KNOT, unit B: the closed unit-B environment of every level behaves like the model's `MElems.ops r` on guarded
    arguments -/
theorem clEnvB_ok : ∀ r, EnvBOn (MElems.ops r) cfg k v (clEnvB cfg retr r)
    (mcl_QG k retr r) (mcl_QS cfg k v retr r) (mcl_QR cfg k retr r) (mcl_QN r)
  | 0 =>
    mcl_envBG_on SingleElems.ops cfg k v (mcl_gopsS cfg) (retr 0) (mcl_gopsS_ok cfg)
      (fun g c lvl hl _ => mcl_gopsS_get cfg k g c lvl hl hL)
      (fun g c lvl b hl hQ => mcl_gopsS_set cfg k v g c lvl b hl hL hT hQ)
      (fun g c lvl hl hQ => mcl_gopsS_remove cfg k g c lvl hl hL hQ)
      (fun lvl x g hl _ hQ hg => mcl_gopsS_new cfg lvl x g hl hQ hg)
  | r + 1 =>
    have hB := clEnvB_ok r
    have hA : EnvAOn (MElems.ops r) cfg k v (clEnvA cfg retr r k) (mcl_Pg (retr r) (mcl_QG k retr r))
        (mcl_Ps (MElems.ops r) cfg k v (retr r) (mcl_QS cfg k v retr r) (mcl_QN r))
        (mcl_Pr (MElems.ops r) cfg k (retr r) (mcl_QR cfg k retr r)) :=
      mcl_envA_on (MElems.ops r) cfg k v (mcl_gops cfg retr r) (retr r) hB hL
        (fun el c lvl hk _ hP => mcl_envA_set (MElems.ops r) cfg k v (mcl_gops cfg retr r) (retr r) hB el c lvl hk hL hTe hP)
    mcl_envBG_on (HkeyElems.ops (MElems.ops r)) cfg k v (mcl_gopsH (clEnvA cfg retr r)) (retr (r + 1))
      (mcl_gopsH_ok (MElems.ops r) (clEnvA cfg retr r))
      (fun g c lvl hl hQ => mcl_gopsH_get (MElems.ops r) cfg k v (clEnvA cfg retr r) hA g c lvl hl hL hQ)
      (fun g c lvl b hl hQ => mcl_gopsH_set (MElems.ops r) cfg k v (clEnvA cfg retr r) hA g c lvl b hl hL hcl hQ)
      (fun g c lvl hl hQ => mcl_gopsH_remove (MElems.ops r) cfg k v (clEnvA cfg retr r) hA g c lvl hl hL hQ)
      (fun lvl x g hl _ hQ hg => mcl_gopsH_new (MElems.ops r) cfg (clEnvA cfg retr r) lvl x g hl hQ hg)

/-- THE KNOT, unit A: the closed unit-A environment of every level behaves like the model's `MElemF.get / set / remove`
    over `MElems.ops r` on guarded elements -/
theorem clEnvA_ok (r : Nat) : EnvAOn (MElems.ops r) cfg k v (clEnvA cfg retr r k) (mcl_Pg (retr r) (mcl_QG k retr r))
    (mcl_Ps (MElems.ops r) cfg k v (retr r) (mcl_QS cfg k v retr r) (mcl_QN r))
    (mcl_Pr (MElems.ops r) cfg k (retr r) (mcl_QR cfg k retr r)) :=
  mcl_envA_on (MElems.ops r) cfg k v (mcl_gops cfg retr r) (retr r) (clEnvB_ok cfg k v retr hL hT hTe hcl r) hL
    (fun el c lvl hk _ hP => mcl_envA_set (MElems.ops r) cfg k v (mcl_gops cfg retr r) (retr r)
      (clEnvB_ok cfg k v retr hL hT hTe hcl r) el c lvl hk hL hTe hP)

/-- the closed generated `elements.Get` of level `r` = the model's, on guarded arguments -/
theorem elements_Get_eq_model_closed_of_guard (r : Nat) (e : MElems r) (level : Nat) (c : Ctx) (hl : level < 2^64)
    (hQ : mcl_QG k retr r e level c) :
    clElements_Get cfg retr r e c k (u64 level) (u64 (k.dig level)) (.key k) =
      mei_rGet c ((MElems.ops r).get cfg e level k) :=
  (clEnvB_ok cfg k default retr hL hT hTe hcl r).gGet e c level hl hQ

/-- the closed generated `elements.Remove` of level `r` = the model's, on guarded arguments -/
theorem elements_Remove_eq_model_closed_of_guard (r : Nat) (e : MElems r) (level : Nat) (c : Ctx) (hl : level < 2^64)
    (hQ : mcl_QR cfg k retr r e level c) :
    clElements_Remove cfg retr r e c k (u64 level) (u64 (k.dig level)) (.key k) =
      mei_rGRemove e c ((MElems.ops r).remove cfg e level k c) :=
  (clEnvB_ok cfg k default retr hL hT hTe hcl r).gRemove e c level hl hQ

/-- the closed generated `elements.Set` of level `r` = the model's, on guarded arguments -/
theorem elements_Set_eq_model_closed_of_guard (r : Nat) (e : MElems r) (level : Nat) (c : Ctx) (hl : level < 2^64)
    (hQ : mcl_QS cfg k v retr r e level c) :
    clElements_Set cfg retr r e c cfg.addr () k (u64 level) (u64 (k.dig level)) (.key k) (.val v) =
      mei_rGSet e c ((MElems.ops r).set cfg e level k v c) :=
  (clEnvB_ok cfg k v retr hL hT hTe hcl r).gSet e c level () hl hQ

end knot
end Atree.TransEq
