import AtreeProofs.Trans.MapDescent
/-
  WP13 (map descent, `Set`): the generated `MapMetaDataSlab_Set.loop1`, `MapDataSlab_Set`, `MapMetaDataSlab_Set` of
  `Gen/TransMapDescent.lean` (namespace `Atree.Gen.TransMapD`) over a heap (`envD`, Trans/MapDescent.lean).

  * `mds_Set_loop1` / `mds_Set_loop1_top`: the binary search `for i < j` = the model's `MMetaSlab.findChild`.
  * `Ob_MapDataSlab_Set_heap`: `MapDataSlab.Set` on a data slab of the tree = the model's `MDataSlab.set`, with the heap.
  * `Ob_MapMetaDataSlab_Set_step` (+ `_notFound`, `_childErr`): one level of the descent, for ANY `rs`, ANY `eb`.
  Helper names carry the prefix `mds_`.
-/
namespace Atree.TransEq
open Atree Atree.Gen.TransMapD

/-! ### 1. the binary search -/

theorem mds_goIdx_nat {β : Type} (l : List β) (n : Nat) : goIdx l (Int.ofNat n) = l[n]? := by
  show (if Int.ofNat n < 0 then none else l[(Int.ofNat n).toNat]?) = l[n]?
  have h : ¬ (Int.ofNat n < 0) := Int.not_lt.mpr (Int.natCast_nonneg n)
  rw [if_neg h]
  rfl

theorem mds_goIdx_hdrs {α : Type} (m : MMetaSlab α) (x : Option DX) (n : Nat) (h : n < m.childHdrs.length) :
    goIdx (md_meta m x).childrenHeaders (Int.ofNat n) = some (md_hdr (m.childHdrs.getD n default)) := by
  rw [mds_goIdx_nat]
  simp [md_meta, List.getD, h]

theorem mds_getD_firstKey {l : List MHdr} (hfk : ∀ h ∈ l, h.firstKey < 2^64) (n : Nat) :
    (l.getD n default).firstKey < 2^64 := by
  by_cases h : n < l.length
  · have : l.getD n default = l[n] := by simp [List.getD, h]
    rw [this]
    exact hfk _ (List.getElem_mem h)
  · have : l.getD n default = default := by simp [List.getD, Nat.not_lt.mp h]
    rw [this]
    show (0 : Nat) < 2^64
    decide

section
variable {G V W D B S ε : Type}

/-- loop 1 of `MapMetaDataSlab.Set` (`for i < j { h := int(uint(i+j) >> 1); if headers[h].firstKey > hkey { j = h } else
    { ans = h; i = h + 1 } }`) with enough fuel never runs out of fuel and computes the model's `findChild` -/
theorem mds_Set_loop1 {α : Type} (env : Env G V W DX D B S ε) (m : MMetaSlab α) (x : Option DX) (hk : Nat)
    (hhk : hk < 2^64) (hfk : ∀ h ∈ m.childHdrs, h.firstKey < 2^64) (hlen : m.childHdrs.length < 2^62) :
    ∀ (fuel i j ans : Nat), i ≤ j → j ≤ m.childHdrs.length → j - i < fuel →
      ∃ i' j' : Int, MapMetaDataSlab_Set.loop1 env (md_meta m x) (u64 hk) fuel (Int.ofNat ans) (Int.ofNat i) (Int.ofNat j) =
        (.done (Int.ofNat ((MMetaSlab.findChild m.childHdrs hk i j (some ans) fuel).getD 0), i', j') :
          Loop (Option (Option V × Option V × Option ε × MapMetaDataSlab DX × S)) (Int × Int × Int)) := by
  intro fuel
  induction fuel with
  | zero => intro i j ans _ _ h; omega
  | succ fuel ih =>
    intro i j ans hij hj hf
    simp only [MapMetaDataSlab_Set.loop1, MMetaSlab.findChild, int_dlt]
    by_cases c : i < j
    · simp only [c, decide_true, if_true]
      rw [mid_eq i j (by omega)]
      have hlt : (i + j) / 2 < m.childHdrs.length := by omega
      simp only [mds_goIdx_hdrs m x _ hlt, md_hdr]
      have hm := mds_getD_firstKey hfk ((i + j) / 2)
      generalize (m.childHdrs.getD ((i + j) / 2) default).firstKey = mv at *
      rw [u64_dgt hm hhk]
      by_cases c1 : mv > hk
      · simp only [c1, decide_true, if_true]
        exact ih i ((i + j) / 2) ans (by omega) (by omega) (by omega)
      · simp only [c1, decide_false, if_false, Bool.false_eq_true]
        exact ih ((i + j) / 2 + 1) j ((i + j) / 2) (by omega) hj (by omega)
    · simp only [c, decide_false, if_false, Bool.false_eq_true]
      exact ⟨_, _, rfl⟩

/-- the child index the model's `MTree.set` descends into -/
def mds_idx (hdrs : List MHdr) (hk : Nat) : Nat :=
  (MMetaSlab.findChild hdrs hk 0 hdrs.length (some 0) (hdrs.length + 1)).getD 0

/-- the loop as `MapMetaDataSlab.Set` calls it: `ans, i, j := 0, 0, len(m.childrenHeaders)`, fuel `j - i + 1` -/
theorem mds_Set_loop1_top {α : Type} (env : Env G V W DX D B S ε) (m : MMetaSlab α) (x : Option DX) (hk : Nat)
    (hhk : hk < 2^64) (hfk : ∀ h ∈ m.childHdrs, h.firstKey < 2^64) (hlen : m.childHdrs.length < 2^62) :
    ∃ i' j' : Int, MapMetaDataSlab_Set.loop1 env (md_meta m x) (u64 hk)
        ((Int.ofNat (md_meta m x).childrenHeaders.length - (0 : Int) + 1).toNat) (0 : Int) (0 : Int)
        (Int.ofNat (md_meta m x).childrenHeaders.length) =
      (.done (Int.ofNat (mds_idx m.childHdrs hk), i', j') :
        Loop (Option (Option V × Option V × Option ε × MapMetaDataSlab DX × S)) (Int × Int × Int)) := by
  have hl : (md_meta m x).childrenHeaders.length = m.childHdrs.length := by simp [md_meta]
  have hf : (Int.ofNat m.childHdrs.length - (0 : Int) + 1).toNat = m.childHdrs.length + 1 := by
    simp only [Int.ofNat_eq_natCast]; omega
  rw [hl, hf]
  exact mds_Set_loop1 env m x hk hhk hfk hlen (m.childHdrs.length + 1) 0 m.childHdrs.length 0 (Nat.zero_le _)
    (Nat.le_refl _) (by omega)
end

/-! ### 2. `MapDataSlab.Set` over the heap -/

section
variable {r : Nat} (T : Nat) (eb : DEnvB r) (rs : DRestruct r)

theorem mds_storeSlab_data (s : MHSt r) (m : MapDataSlab (DG r) DX) :
    storeSlab (envD T eb rs) s (.dataSlab m) = some (none, s.store m.header.slabID (.dataSlab m)) := by
  simp only [storeSlab, MapSlab_SlabID, MapDataSlab_SlabID, envD_store, Option.isNone_none, Bool.not_true,
    Bool.false_eq_true, if_false]

theorem mds_storeSlab_meta (s : MHSt r) (m : MapMetaDataSlab DX) :
    storeSlab (envD T eb rs) s (.metaSlab m) = some (none, s.store m.header.slabID (.metaSlab m)) := by
  simp only [storeSlab, MapSlab_SlabID, MapMetaDataSlab_SlabID, envD_store, Option.isNone_none, Bool.not_true,
    Bool.false_eq_true, if_false]

theorem mds_getPrefixSize (sl : MDataSlab r) (x : Option DX) (hx : x.isSome = sl.root) (g : DG r) (h : MapSlabHeader) :
    MapDataSlab_getPrefixSize (envD T eb rs) { md_data sl x with elements := g, header := h } = u32 sl.prefixSize := by
  unfold MapDataSlab_getPrefixSize MDataSlab.prefixSize
  simp only [md_data]
  rw [← hx]
  by_cases hi : sl.inlined = true <;> cases x <;> simp [hi, u32]

/-- the data slab after the model's `elements.Set` returned the elements `g'` -/
def mds_dataAfter (sl : MDataSlab r) (g' : HkeyElems (MElems r)) : MDataSlab r :=
  { sl with elems := g', hdr := { sl.hdr with firstKey := g'.firstKey, size := sl.prefixSize + g'.size } }

/-- `MapDataSlab.Set` on a data slab of the tree, over the heap: the nested `elements.Set` (the model's, by `ElemsSpec`),
    `firstKey` and `size = prefix + elements size` refreshed, the slab stored under its identifier unless inlined; this
    is the model's `MDataSlab.set` (first conjunct); next to an error nothing changed.  No `uint32` range condition is
    needed (`uint32` addition is a ring homomorphism). -/
theorem Ob_MapDataSlab_Set_heap (cfg : MCfg) (k : MKey) (v : Elem) (P : DG r → Prop) (hE : ElemsSpec cfg k v P eb)
    (sl : MDataSlab r) (x : Option DX) (hx : x.isSome = sl.root) (hP : P sl.elems) (s : MHSt r)
    (ha : sl.hdr.id.addr = cfg.addr) :
    match HkeyElems.set (MElems.ops r) cfg sl.elems 0 k v s.ctx with
    | .ok (ks, old, g', c0) =>
      MDataSlab.set cfg sl k v s.ctx = .ok (ks, old, mds_dataAfter sl g', (mds_dataAfter sl g').storeIfNotInlined c0) ∧
      MapDataSlab_Set (envD T eb rs) (md_data sl x) s () k (u64 0) (u64 (k.dig 0)) (.key k) (.val v) =
        some (some (.key ks), old.map .val, none, md_data (mds_dataAfter sl g') x,
          if sl.inlined then s.withCtx c0
          else (s.withCtx c0).store sl.hdr.id (.dataSlab (md_data (mds_dataAfter sl g') x)))
    | .error err =>
      MDataSlab.set cfg sl k v s.ctx = .error err ∧
      MapDataSlab_Set (envD T eb rs) (md_data sl x) s () k (u64 0) (u64 (k.dig 0)) (.key k) (.val v) =
        some (none, none, some err, md_data sl x, s) := by
  have hg := hE.set sl.elems s.ctx hP
  have e1 : (md_data sl x).elements = sl.elems := rfl
  have e2 : (MapDataSlab_SlabID (envD T eb rs) (md_data sl x)).addr = cfg.addr := ha
  unfold MapDataSlab_Set
  simp only [e1, e2, envD_elemSet, hg]
  unfold MDataSlab.set
  simp only [MDataSlab.eops, bind, Except.bind, pure, Except.pure]
  rcases HkeyElems.set (MElems.ops r) cfg sl.elems 0 k v s.ctx with err | ⟨ks, old, g', c0⟩
  · simp [mei_rGSet, md_data]
  · refine ⟨rfl, ?_⟩
    simp only [mei_rGSet, Option.isNone_none, Bool.not_true, Bool.false_eq_true, if_false, mds_storeSlab_data,
      mds_getPrefixSize T eb rs sl x hx, envD_elemFirst, envD_elemSize, hE.first, hE.size,
      ← UInt32.ofNat_add]
    cases hi : sl.inlined <;> simp [md_data, md_hdr, mds_dataAfter, hi, u32]

end

/-! ### 3. one level of the descent -/

section
variable {r : Nat} (T : Nat) (eb : DEnvB r) (rs : DRestruct r)

theorem mds_getMapSlab_found (s : MHSt r) (id : SlabID) (c : DSlab r) (hc : s.heap id = some c)
    (hn : c.isNil = false) : getMapSlab (envD T eb rs) s id = (c, none, s) := by
  simp only [getMapSlab, envD_retrieve, hc, Option.isNone_none, Bool.not_true, Bool.false_eq_true, if_false, hn,
    Bool.not_false]

theorem mds_getMapSlab_none (s : MHSt r) (id : SlabID) (hc : s.heap id = none) :
    getMapSlab (envD T eb rs) s id = (.nil, some .slabNotFound, s) := by
  simp only [getMapSlab, envD_retrieve, hc, Option.isNone_none, Bool.not_true, Bool.false_eq_true, if_false,
    Bool.not_false, if_true, envD_snf]

theorem mds_toNat (n : Nat) : (Int.ofNat n).toNat = n := rfl

theorem mds_goInRange {β : Type} (l : List β) (n : Nat) (h : n < l.length) : goInRange l (Int.ofNat n) = true := by
  simp [goInRange, h]

theorem mds_goIdx_set {β : Type} (l : List β) (n : Nat) (p : β) (h : n < l.length) :
    goIdx (l.set n p) (Int.ofNat n) = some p := by
  rw [mds_goIdx_nat]
  simp [h]

/-- the dispatch `MapSlab.Set` never returns from / into a nil interface value -/
theorem mds_Set_nonnil {G V W X D B S ε : Type} {env : Env G V W X D B S ε}
    {rec_ : MapMetaDataSlab X → S → B → D → UInt64 → UInt64 → W → W → Option (Option V × Option V × Option ε × MapMetaDataSlab X × S)}
    {child child' : MapSlab G X} {a1 s1 : S} {a2 : B} {a3 : D} {a4 a5 : UInt64} {a8 a9 : W} {ks old : Option V} {e : Option ε}
    (h : MapSlab_Set env rec_ child a1 a2 a3 a4 a5 a8 a9 = some (ks, old, e, child', s1)) :
    child.isNil = false ∧ child'.isNil = false := by
  cases child with
  | nil => simp [MapSlab_Set] at h
  | dataSlab o =>
    simp only [MapSlab_Set] at h
    split at h
    · cases h
    · cases h; exact ⟨rfl, rfl⟩
  | metaSlab o =>
    simp only [MapSlab_Set] at h
    split at h
    · cases h
    · cases h; exact ⟨rfl, rfl⟩

/-- `m.childrenHeaders[i] = child.Header(); if i == 0 { m.header.firstKey = m.childrenHeaders[0].firstKey }` -/
def mds_refresh (m : MapMetaDataSlab DX) (i : Nat) (h : MapSlabHeader) : MapMetaDataSlab DX :=
  { m with childrenHeaders := m.childrenHeaders.set i h,
           header := if i = 0 then { m.header with firstKey := h.firstKey } else m.header }

/-- the result of `Set` after a restructuring call returned `q` -/
def mds_tail (ks old : Option SV) (q : Option GE × MapMetaDataSlab DX × MHSt r × DSlab r) :
    Option (Option SV × Option SV × Option GE × MapMetaDataSlab DX × MHSt r) :=
  if (!q.1.isNone) = true then some (none, none, q.1, q.2.1, q.2.2.1) else some (ks, old, none, q.2.1, q.2.2.1)

/-- what `MapMetaDataSlab.Set` does after the child `i` has been set successfully (new child `child'`, storage `s1`):
    header `i` replaced by the child's, `firstKey` refreshed iff `i = 0`; then `SplitChildSlab` if the child is full,
    else `MergeOrRebalanceChildSlab` if it underflows, else `storeSlab` of the index slab -/
def mds_stepSpec (a : MapMetaDataSlab DX) (i : Nat) (ks old : Option SV) (child' : DSlab r) (s1 : MHSt r) :
    Option (Option SV × Option SV × Option GE × MapMetaDataSlab DX × MHSt r) :=
  let m1 := mds_refresh a i ((MapSlab_Header (envD T eb rs) child').getD {})
  if (MapSlab_IsFull (envD T eb rs) child').getD false = true then
    mds_tail ks old (rs.splitChild m1 s1 child' (Int.ofNat i))
  else if ((MapSlab_IsUnderflow (envD T eb rs) child').getD (0, false)).2 = true then
    mds_tail ks old (rs.mergeOrRebalance m1 s1 child' (Int.ofNat i)
      ((MapSlab_IsUnderflow (envD T eb rs) child').getD (0, false)).1)
  else some (ks, old, none, m1, s1.store m1.header.slabID (.metaSlab m1))

/-- one level of `MapMetaDataSlab.Set` on ANY generated index slab `a`, given the result of the binary search, the child
    in the heap, and the successful result of the dispatch on the child -/
theorem mds_metaSet_step (a : MapMetaDataSlab DX) (s s1 : MHSt r) (dg : MKey) (lvl hk : UInt64) (w w' : SW)
    (depth i : Nat) (i' j' : Int) (h0 : MapSlabHeader) (child child' : DSlab r) (ks old : Option SV)
    (hloop : MapMetaDataSlab_Set.loop1 (envD T eb rs) a hk
        ((Int.ofNat a.childrenHeaders.length - (0 : Int) + 1).toNat) (0 : Int) (0 : Int)
        (Int.ofNat a.childrenHeaders.length) =
      (.done (Int.ofNat i, i', j') :
        Loop (Option (Option SV × Option SV × Option GE × MapMetaDataSlab DX × MHSt r)) (Int × Int × Int)))
    (hh : a.childrenHeaders[i]? = some h0) (hchild : s.heap h0.slabID = some child)
    (hset : MapSlab_Set (envD T eb rs) (MapMetaDataSlab_Set (envD T eb rs) depth) child s () dg lvl hk w w' =
      some (ks, old, none, child', s1)) :
    MapMetaDataSlab_Set (envD T eb rs) (depth + 1) a s () dg lvl hk w w' = mds_stepSpec T eb rs a i ks old child' s1 := by
  obtain ⟨hn, hn'⟩ := mds_Set_nonnil hset
  have hil : i < a.childrenHeaders.length := by
    obtain ⟨h, _⟩ := List.getElem?_eq_some_iff.mp hh
    exact h
  unfold MapMetaDataSlab_Set
  simp only [hloop, mds_goIdx_nat, hh, mds_getMapSlab_found T eb rs s _ child hchild hn, hset, Option.isNone_none,
    Bool.not_true, Bool.false_eq_true, if_false, mds_goInRange _ _ hil, if_true, int_deq_zero, mds_toNat]
  cases child' with
  | nil => simp [MapSlab.isNil] at hn'
  | dataSlab o =>
    by_cases hi0 : i = 0
    · subst hi0
      simp only [MapSlab_Header, MapDataSlab_Header, decide_true, if_true, List.getElem?_set_self hil,
        MapSlab_IsFull, MapSlab_IsUnderflow, mds_stepSpec, mds_refresh, Option.getD_some, mds_storeSlab_meta,
        Option.isNone_none, Bool.not_true, Bool.false_eq_true, if_false, envD_splitChild, envD_mor, mds_tail]
      rfl
    · simp only [MapSlab_Header, MapDataSlab_Header, hi0, decide_false, if_false, Bool.false_eq_true,
        MapSlab_IsFull, MapSlab_IsUnderflow, mds_stepSpec, mds_refresh, Option.getD_some, mds_storeSlab_meta,
        Option.isNone_none, Bool.not_true, envD_splitChild, envD_mor, mds_tail]
      rfl
  | metaSlab o =>
    by_cases hi0 : i = 0
    · subst hi0
      simp only [MapSlab_Header, MapMetaDataSlab_Header, decide_true, if_true, List.getElem?_set_self hil,
        MapSlab_IsFull, MapSlab_IsUnderflow, mds_stepSpec, mds_refresh, Option.getD_some, mds_storeSlab_meta,
        Option.isNone_none, Bool.not_true, Bool.false_eq_true, if_false, envD_splitChild, envD_mor, mds_tail]
      rfl
    · simp only [MapSlab_Header, MapMetaDataSlab_Header, hi0, decide_false, if_false, Bool.false_eq_true,
        MapSlab_IsFull, MapSlab_IsUnderflow, mds_stepSpec, mds_refresh, Option.getD_some, mds_storeSlab_meta,
        Option.isNone_none, Bool.not_true, envD_splitChild, envD_mor, mds_tail]
      rfl

/-- error case: the child is not in the heap -> `SlabNotFound`, `m` and the storage unchanged -/
theorem mds_metaSet_notFound (a : MapMetaDataSlab DX) (s : MHSt r) (dg : MKey) (lvl hk : UInt64) (w w' : SW)
    (depth i : Nat) (i' j' : Int) (h0 : MapSlabHeader)
    (hloop : MapMetaDataSlab_Set.loop1 (envD T eb rs) a hk
        ((Int.ofNat a.childrenHeaders.length - (0 : Int) + 1).toNat) (0 : Int) (0 : Int)
        (Int.ofNat a.childrenHeaders.length) =
      (.done (Int.ofNat i, i', j') :
        Loop (Option (Option SV × Option SV × Option GE × MapMetaDataSlab DX × MHSt r)) (Int × Int × Int)))
    (hh : a.childrenHeaders[i]? = some h0) (hchild : s.heap h0.slabID = none) :
    MapMetaDataSlab_Set (envD T eb rs) (depth + 1) a s () dg lvl hk w w' =
      some (none, none, some .slabNotFound, a, s) := by
  unfold MapMetaDataSlab_Set
  simp only [hloop, mds_goIdx_nat, hh, mds_getMapSlab_none T eb rs s _ hchild, Option.isNone_some, Bool.not_false,
    if_true]

/-- error case: the child's `Set` returned an error -> passed on, `m` unchanged, the storage is the child's -/
theorem mds_metaSet_childErr (a : MapMetaDataSlab DX) (s s1 : MHSt r) (dg : MKey) (lvl hk : UInt64) (w w' : SW)
    (depth i : Nat) (i' j' : Int) (h0 : MapSlabHeader) (child child' : DSlab r) (ks old : Option SV) (e : GE)
    (hloop : MapMetaDataSlab_Set.loop1 (envD T eb rs) a hk
        ((Int.ofNat a.childrenHeaders.length - (0 : Int) + 1).toNat) (0 : Int) (0 : Int)
        (Int.ofNat a.childrenHeaders.length) =
      (.done (Int.ofNat i, i', j') :
        Loop (Option (Option SV × Option SV × Option GE × MapMetaDataSlab DX × MHSt r)) (Int × Int × Int)))
    (hh : a.childrenHeaders[i]? = some h0) (hchild : s.heap h0.slabID = some child)
    (hset : MapSlab_Set (envD T eb rs) (MapMetaDataSlab_Set (envD T eb rs) depth) child s () dg lvl hk w w' =
      some (ks, old, some e, child', s1)) :
    MapMetaDataSlab_Set (envD T eb rs) (depth + 1) a s () dg lvl hk w w' = some (none, none, some e, a, s1) := by
  obtain ⟨hn, _⟩ := mds_Set_nonnil hset
  unfold MapMetaDataSlab_Set
  simp only [hloop, mds_goIdx_nat, hh, mds_getMapSlab_found T eb rs s _ child hchild hn, hset, Option.isNone_none,
    Bool.not_true, Bool.false_eq_true, if_false, Option.isNone_some, Bool.not_false, if_true]

theorem mds_hdrs_get {α : Type} (m : MMetaSlab α) (x : Option DX) (n : Nat) (h : n < m.childHdrs.length) :
    (md_meta m x).childrenHeaders[n]? = some (md_hdr (m.childHdrs.getD n default)) := by
  rw [← mds_goIdx_nat]
  exact mds_goIdx_hdrs m x n h

/-- `mds_refresh` on the translation of a model index slab is the translation of the model's `m1` of
    `MMetaSlab.afterChild` (whatever the embedded children are) -/
theorem mds_refresh_md_meta {α : Type} (m : MMetaSlab α) (x : Option DX) (i : Nat) (ch : MHdr) (cs : List α) :
    mds_refresh (md_meta m x) i (md_hdr ch) =
      md_meta ({ m with childHdrs := m.childHdrs.set i ch, children := cs,
                        hdr := { m.hdr with firstKey := if i == 0 then ch.firstKey else m.hdr.firstKey } } : MMetaSlab α) x := by
  by_cases h : i = 0 <;> simp [mds_refresh, md_meta, md_hdr, h, List.map_set]

/-- ONE LEVEL OF `MapMetaDataSlab.Set` on the translation of a model index slab, for ANY `rs`, ANY `eb`: the binary
    search finds the model's child index `i`; the child is fetched from the heap; after its `Set` succeeded (dispatch
    result `hset`) header `i` is replaced by `child'.Header()`, `firstKey` refreshed iff `i = 0`, and then
    `SplitChildSlab` iff `child'.IsFull()`, else `MergeOrRebalanceChildSlab` iff `child'.IsUnderflow()`, else `storeSlab`
    (`mds_stepSpec`). -/
theorem Ob_MapMetaDataSlab_Set_step {α : Type} (m : MMetaSlab α) (x : Option DX) (s s1 : MHSt r) (k : MKey) (v : Elem)
    (depth : Nat) (hhk : k.dig 0 < 2^64) (hfk : ∀ h ∈ m.childHdrs, h.firstKey < 2^64)
    (hlen : m.childHdrs.length < 2^62) (hil : mds_idx m.childHdrs (k.dig 0) < m.childHdrs.length)
    (child child' : DSlab r) (ks old : Option SV)
    (hchild : s.heap (m.childHdrs.getD (mds_idx m.childHdrs (k.dig 0)) default).id = some child)
    (hset : MapSlab_Set (envD T eb rs) (MapMetaDataSlab_Set (envD T eb rs) depth) child s () k (u64 0) (u64 (k.dig 0))
      (.key k) (.val v) = some (ks, old, none, child', s1)) :
    MapMetaDataSlab_Set (envD T eb rs) (depth + 1) (md_meta m x) s () k (u64 0) (u64 (k.dig 0)) (.key k) (.val v) =
      mds_stepSpec T eb rs (md_meta m x) (mds_idx m.childHdrs (k.dig 0)) ks old child' s1 := by
  obtain ⟨i', j', hloop⟩ := mds_Set_loop1_top (V := SV) (ε := GE) (S := MHSt r) (envD T eb rs) m x (k.dig 0) hhk hfk hlen
  exact mds_metaSet_step T eb rs (md_meta m x) s s1 k (u64 0) (u64 (k.dig 0)) (.key k) (.val v) depth _ i' j' _
    child child' ks old hloop (mds_hdrs_get m x _ hil) hchild hset

/-- the child is not in the heap: `SlabNotFound`, nothing changed -/
theorem Ob_MapMetaDataSlab_Set_step_notFound {α : Type} (m : MMetaSlab α) (x : Option DX) (s : MHSt r) (k : MKey)
    (v : Elem) (depth : Nat) (hhk : k.dig 0 < 2^64) (hfk : ∀ h ∈ m.childHdrs, h.firstKey < 2^64)
    (hlen : m.childHdrs.length < 2^62) (hil : mds_idx m.childHdrs (k.dig 0) < m.childHdrs.length)
    (hchild : s.heap (m.childHdrs.getD (mds_idx m.childHdrs (k.dig 0)) default).id = none) :
    MapMetaDataSlab_Set (envD T eb rs) (depth + 1) (md_meta m x) s () k (u64 0) (u64 (k.dig 0)) (.key k) (.val v) =
      some (none, none, some .slabNotFound, md_meta m x, s) := by
  obtain ⟨i', j', hloop⟩ := mds_Set_loop1_top (V := SV) (ε := GE) (S := MHSt r) (envD T eb rs) m x (k.dig 0) hhk hfk hlen
  exact mds_metaSet_notFound T eb rs (md_meta m x) s k (u64 0) (u64 (k.dig 0)) (.key k) (.val v) depth _ i' j' _
    hloop (mds_hdrs_get m x _ hil) hchild

/-- the child's `Set` returned an error: passed on, `m` unchanged, the storage is the one the child returned -/
theorem Ob_MapMetaDataSlab_Set_step_childErr {α : Type} (m : MMetaSlab α) (x : Option DX) (s s1 : MHSt r) (k : MKey)
    (v : Elem) (depth : Nat) (hhk : k.dig 0 < 2^64) (hfk : ∀ h ∈ m.childHdrs, h.firstKey < 2^64)
    (hlen : m.childHdrs.length < 2^62) (hil : mds_idx m.childHdrs (k.dig 0) < m.childHdrs.length)
    (child child' : DSlab r) (ks old : Option SV) (e : GE)
    (hchild : s.heap (m.childHdrs.getD (mds_idx m.childHdrs (k.dig 0)) default).id = some child)
    (hset : MapSlab_Set (envD T eb rs) (MapMetaDataSlab_Set (envD T eb rs) depth) child s () k (u64 0) (u64 (k.dig 0))
      (.key k) (.val v) = some (ks, old, some e, child', s1)) :
    MapMetaDataSlab_Set (envD T eb rs) (depth + 1) (md_meta m x) s () k (u64 0) (u64 (k.dig 0)) (.key k) (.val v) =
      some (none, none, some e, md_meta m x, s1) := by
  obtain ⟨i', j', hloop⟩ := mds_Set_loop1_top (V := SV) (ε := GE) (S := MHSt r) (envD T eb rs) m x (k.dig 0) hhk hfk hlen
  exact mds_metaSet_childErr T eb rs (md_meta m x) s s1 k (u64 0) (u64 (k.dig 0)) (.key k) (.val v) depth _ i' j' _
    child child' ks old e hloop (mds_hdrs_get m x _ hil) hchild hset

end

/-! ### non-vacuity: a concrete 2-child index slab over a concrete heap -/
namespace mdsEx

def id0 : SlabID := ⟨1, 1⟩
def id1 : SlabID := ⟨1, 2⟩
def id2 : SlabID := ⟨1, 3⟩
def g0 : DG 0 := { hkeys := [], elems := [], size := 10, level := 0 }
def d1 : MDataSlab 0 :=
  { hdr := { id := id1, size := 100, firstKey := 0 }, next := id2, elems := g0, root := false, inlined := false }
def d2 : MDataSlab 0 :=
  { hdr := { id := id2, size := 100, firstKey := 50 }, next := SlabID.undef, elems := g0, root := false, inlined := false }
def mm : MMetaSlab (MTree 0 0) :=
  { hdr := { id := id0, size := 60, firstKey := 0 }, childHdrs := [d1.hdr, d2.hdr], children := [d1, d2], root := true }
def kk : MKey := { size := 1, pay := 7, digs := [60] }
def cfg0 : MCfg := { T := 1024, L := 4, climit := 0, addr := 1 }
def xx : DX := (0, 0, 0)

/-- the element layer given by the MODEL (so that `ElemsSpec` holds by `rfl`) -/
def eb0 : DEnvB 0 where
  DigesterBuilder_Digest := fun _ _ => (default, none)
  Digester_Digest := fun _ _ => (0, none)
  Digester_Levels := fun _ => 0
  MapSlab_Get := fun _ c _ _ _ _ => (none, none, none, c)
  MapSlab_Set := fun m c _ _ _ _ _ _ => (none, none, none, m, c)
  MapSlab_getElementAndNextKey := fun _ c _ _ _ _ => (none, none, none, none, c)
  NewHashLevelErrorf := none
  NewKeyNotFoundError := none
  NewSlabDataErrorf := none
  NewSlabNotFoundErrorf := none
  SlabIDStorable_ByteSize := 0
  SlabStorage_GenerateSlabID := fun c _ => (SlabID.undef, none, c)
  SlabStorage_Remove := fun c _ => (none, c)
  SlabStorage_Retrieve := fun c _ => (.nil, false, none, c)
  SlabStorage_Store := fun c _ _ => (none, c)
  Storable_ByteSize := fun _ => 0
  Storable_StoredValue := fun _ c => (.key default, none, c)
  ValueComparator := fun c _ _ => (false, none, c)
  Value_Storable := fun _ c _ _ => (none, none, c)
  elements_Count := fun _ => 0
  elements_Element := fun _ _ => (.nil, none)
  elements_Get := fun g c d _ _ _ => mei_rGet c (HkeyElems.get (MElems.ops 0) cfg0 g 0 d)
  elements_Remove := fun g c d _ _ _ => mei_rGRemove g c (HkeyElems.remove (MElems.ops 0) cfg0 g 0 d c)
  elements_Set := fun g c _ _ d _ _ _ w' =>
    match w' with
    | .val v => mei_rGSet g c (HkeyElems.set (MElems.ops 0) cfg0 g 0 d v c)
    | .key _ => (none, none, none, g, c)
  elements_Size := fun g => u32 g.size
  elements_firstKey := fun g => u64 (HkeyElems.firstKey g)
  elements_getElementAndNextKey := fun _ c _ _ _ _ => (none, none, none, none, c)
  maxInlineMapElementSize := 0
  maxInlineMapValueSize := fun _ => 0
  newHkeyElementsWithElement := fun _ _ _ => g0
  newSingleElementsWithElement := fun _ _ => g0
  wrapErrorfAsExternalErrorIfNeeded := id

theorem eb0_spec (k : MKey) (v : Elem) : ElemsSpec cfg0 k v (fun _ => True) eb0 where
  size := fun _ => rfl
  first := fun _ => rfl
  get := fun _ _ _ => rfl
  set := fun _ _ _ => rfl
  remove := fun _ _ _ => rfl

/-- an element layer whose `Set` always succeeds without changing anything (the step theorem is for ANY `eb`) -/
def eb1 : DEnvB 0 := { eb0 with elements_Set := fun g c _ _ d _ _ _ _ => (some (.key d), none, none, g, c) }

def rs0 : DRestruct 0 where
  splitChild := fun m s c _ => (none, m, s, c)
  mergeOrRebalance := fun m s c _ _ => (none, m, s, c)
  splitRoot := fun M => (none, M)
  promote := fun M _ => (none, M)

def s0 : MHSt 0 where
  heap := fun i => if i = id1 then some (.dataSlab (md_data d1 none))
    else if i = id2 then some (.dataSlab (md_data d2 none)) else none
  ctx := { ctr := 3, eff := [] }

/-- the binary search on the concrete slab: digest 60 goes to child 1, digest 10 to child 0 -/
example : mds_idx mm.childHdrs 60 = 1 ∧ mds_idx mm.childHdrs 10 = 0 ∧ mds_idx mm.childHdrs 50 = 1 := by decide

example : ∃ i' j' : Int, MapMetaDataSlab_Set.loop1 (envD 1024 eb1 rs0) (md_meta mm (some xx)) (u64 60)
    ((Int.ofNat (md_meta mm (some xx)).childrenHeaders.length - (0 : Int) + 1).toNat) (0 : Int) (0 : Int)
    (Int.ofNat (md_meta mm (some xx)).childrenHeaders.length) =
      (.done (Int.ofNat 1, i', j') :
        Loop (Option (Option SV × Option SV × Option GE × MapMetaDataSlab DX × MHSt 0)) (Int × Int × Int)) :=
  mds_Set_loop1_top (envD 1024 eb1 rs0) mm (some xx) 60 (by decide) (by decide) (by decide)

/-- `Ob_MapDataSlab_Set_heap` applies to the concrete data slab `d2` with the model's element layer -/
example (v : Elem) :=
  Ob_MapDataSlab_Set_heap 1024 eb0 rs0 cfg0 kk v (fun _ => True) (eb0_spec kk v) d2 none rfl trivial s0 rfl

/-- `Ob_MapMetaDataSlab_Set_step` applies to the concrete index slab: the key with digest 60 goes to child 1 (`d2`),
    which is in the heap; its `Set` succeeds -/
example (v : Elem) :
    MapMetaDataSlab_Set (envD 1024 eb1 rs0) 1 (md_meta mm (some xx)) s0 () kk (u64 0) (u64 (kk.dig 0)) (.key kk) (.val v) =
      mds_stepSpec 1024 eb1 rs0 (md_meta mm (some xx)) 1 (some (.key kk)) none
        (.dataSlab { md_data d2 none with header := { slabID := id2, size := u32 (18 + 10), firstKey := u64 0 } })
        (s0.store id2 (.dataSlab { md_data d2 none with header := { slabID := id2, size := u32 (18 + 10), firstKey := u64 0 } })) :=
  Ob_MapMetaDataSlab_Set_step 1024 eb1 rs0 mm (some xx) s0 _ kk v 0 (by decide) (by decide) (by decide) (by decide)
    (.dataSlab (md_data d2 none)) _ _ _ rfl rfl

/-- the error case applies when the heap is empty -/
example (v : Elem) :
    MapMetaDataSlab_Set (envD 1024 eb1 rs0) 1 (md_meta mm (some xx)) { s0 with heap := fun _ => none } () kk (u64 0)
      (u64 (kk.dig 0)) (.key kk) (.val v) =
      some (none, none, some .slabNotFound, md_meta mm (some xx), { s0 with heap := fun _ => none }) :=
  Ob_MapMetaDataSlab_Set_step_notFound 1024 eb1 rs0 mm (some xx) _ kk v 0 (by decide) (by decide) (by decide)
    (by decide) rfl

end mdsEx

end Atree.TransEq
