import AtreeProofs.Trans.MapDescent
/-
  WP13 (map descent, `Set`): the generated `MapMetaDataSlab_Set.loop1`, `MapDataSlab_Set`, `MapMetaDataSlab_Set` of
  `Gen/TransMapDescent.lean` (namespace `Atree.Gen.TransMapD`) over a heap (`envD`, Trans/MapDescent.lean).

  * `mds_Set_loop1` / `mds_Set_loop1_top`: the binary search `for i < j` = the model's `MMetaSlab.findChild`.
  * `Ob_MapDataSlab_Set_heap`: `MapDataSlab.Set` on a data slab of the tree = the model's `MDataSlab.set`, with the heap.
  * `Ob_MapMetaDataSlab_Set_step` (+ `_notFound`, `_childErr`): one level of the descent, for ANY `rs`, ANY `eb`.
  Helper names carry the prefix `mds_`.
-/
namespace Atree.TransEq
open Atree Atree.Gen.TransMapD

/-! ### 1. the binary search -/

theorem mds_goIdx_nat {β : Type} (l : List β) (n : Nat) : goIdx l (Int.ofNat n) = l[n]? := by
  show (if Int.ofNat n < 0 then none else l[(Int.ofNat n).toNat]?) = l[n]?
  have h : ¬ (Int.ofNat n < 0) := Int.not_lt.mpr (Int.natCast_nonneg n)
  rw [if_neg h]
  rfl

theorem mds_goIdx_hdrs {α : Type} (m : MMetaSlab α) (x : Option DX) (n : Nat) (h : n < m.childHdrs.length) :
    goIdx (md_meta m x).childrenHeaders (Int.ofNat n) = some (md_hdr (m.childHdrs.getD n default)) := by
  rw [mds_goIdx_nat]
  simp [md_meta, List.getD, h]

theorem mds_getD_firstKey {l : List MHdr} (hfk : ∀ h ∈ l, h.firstKey < 2^64) (n : Nat) :
    (l.getD n default).firstKey < 2^64 := by
  by_cases h : n < l.length
  · have : l.getD n default = l[n] := by simp [List.getD, h]
    rw [this]
    exact hfk _ (List.getElem_mem h)
  · have : l.getD n default = default := by simp [List.getD, Nat.not_lt.mp h]
    rw [this]
    show (0 : Nat) < 2^64
    decide

section
variable {G V W D B S ε : Type}

/-- loop 1 of `MapMetaDataSlab.Set` (`for i < j { h := int(uint(i+j) >> 1); if headers[h].firstKey > hkey { j = h } else
    { ans = h; i = h + 1 } }`) with enough fuel never runs out of fuel and computes the model's `findChild` -/
theorem mds_Set_loop1 {α : Type} (env : Env G V W DX D B S ε) (m : MMetaSlab α) (x : Option DX) (hk : Nat)
    (hhk : hk < 2^64) (hfk : ∀ h ∈ m.childHdrs, h.firstKey < 2^64) (hlen : m.childHdrs.length < 2^62) :
    ∀ (fuel i j ans : Nat), i ≤ j → j ≤ m.childHdrs.length → j - i < fuel →
      ∃ i' j' : Int, MapMetaDataSlab_Set.loop1 env (md_meta m x) (u64 hk) fuel (Int.ofNat ans) (Int.ofNat i) (Int.ofNat j) =
        (.done (Int.ofNat ((MMetaSlab.findChild m.childHdrs hk i j (some ans) fuel).getD 0), i', j') :
          Loop (Option (Option V × Option V × Option ε × MapMetaDataSlab DX × S)) (Int × Int × Int)) := by
  intro fuel
  induction fuel with
  | zero => intro i j ans _ _ h; omega
  | succ fuel ih =>
    intro i j ans hij hj hf
    simp only [MapMetaDataSlab_Set.loop1, MMetaSlab.findChild, int_dlt]
    by_cases c : i < j
    · simp only [c, decide_true, if_true]
      rw [mid_eq i j (by omega)]
      have hlt : (i + j) / 2 < m.childHdrs.length := by omega
      simp only [mds_goIdx_hdrs m x _ hlt, md_hdr]
      have hm := mds_getD_firstKey hfk ((i + j) / 2)
      generalize (m.childHdrs.getD ((i + j) / 2) default).firstKey = mv at *
      rw [u64_dgt hm hhk]
      by_cases c1 : mv > hk
      · simp only [c1, decide_true, if_true]
        exact ih i ((i + j) / 2) ans (by omega) (by omega) (by omega)
      · simp only [c1, decide_false, if_false, Bool.false_eq_true]
        exact ih ((i + j) / 2 + 1) j ((i + j) / 2) (by omega) hj (by omega)
    · simp only [c, decide_false, if_false, Bool.false_eq_true]
      exact ⟨_, _, rfl⟩

/-- the child index the model's `MTree.set` descends into -/
def mds_idx (hdrs : List MHdr) (hk : Nat) : Nat :=
  (MMetaSlab.findChild hdrs hk 0 hdrs.length (some 0) (hdrs.length + 1)).getD 0

/-- the loop as `MapMetaDataSlab.Set` calls it: `ans, i, j := 0, 0, len(m.childrenHeaders)`, fuel `j - i + 1` -/
theorem mds_Set_loop1_top {α : Type} (env : Env G V W DX D B S ε) (m : MMetaSlab α) (x : Option DX) (hk : Nat)
    (hhk : hk < 2^64) (hfk : ∀ h ∈ m.childHdrs, h.firstKey < 2^64) (hlen : m.childHdrs.length < 2^62) :
    ∃ i' j' : Int, MapMetaDataSlab_Set.loop1 env (md_meta m x) (u64 hk)
        ((Int.ofNat (md_meta m x).childrenHeaders.length - (0 : Int) + 1).toNat) (0 : Int) (0 : Int)
        (Int.ofNat (md_meta m x).childrenHeaders.length) =
      (.done (Int.ofNat (mds_idx m.childHdrs hk), i', j') :
        Loop (Option (Option V × Option V × Option ε × MapMetaDataSlab DX × S)) (Int × Int × Int)) := by
  have hl : (md_meta m x).childrenHeaders.length = m.childHdrs.length := by simp [md_meta]
  have hf : (Int.ofNat m.childHdrs.length - (0 : Int) + 1).toNat = m.childHdrs.length + 1 := by
    simp only [Int.ofNat_eq_natCast]; omega
  rw [hl, hf]
  exact mds_Set_loop1 env m x hk hhk hfk hlen (m.childHdrs.length + 1) 0 m.childHdrs.length 0 (Nat.zero_le _)
    (Nat.le_refl _) (by omega)
end

/-! ### 2. `MapDataSlab.Set` over the heap -/

section
variable {r : Nat} (T : Nat) (eb : DEnvB r) (rs : DRestruct r)

theorem mds_storeSlab_data (s : MHSt r) (m : MapDataSlab (DG r) DX) :
    storeSlab (envD T eb rs) s (.dataSlab m) = some (none, s.store m.header.slabID (.dataSlab m)) := by
  simp only [storeSlab, MapSlab_SlabID, MapDataSlab_SlabID, envD_store, Option.isNone_none, Bool.not_true,
    Bool.false_eq_true, if_false]

theorem mds_storeSlab_meta (s : MHSt r) (m : MapMetaDataSlab DX) :
    storeSlab (envD T eb rs) s (.metaSlab m) = some (none, s.store m.header.slabID (.metaSlab m)) := by
  simp only [storeSlab, MapSlab_SlabID, MapMetaDataSlab_SlabID, envD_store, Option.isNone_none, Bool.not_true,
    Bool.false_eq_true, if_false]

theorem mds_getPrefixSize (sl : MDataSlab r) (x : Option DX) (hx : x.isSome = sl.root) (g : DG r) (h : MapSlabHeader) :
    MapDataSlab_getPrefixSize (envD T eb rs) { md_data sl x with elements := g, header := h } = u32 sl.prefixSize := by
  unfold MapDataSlab_getPrefixSize MDataSlab.prefixSize
  simp only [md_data]
  rw [← hx]
  by_cases hi : sl.inlined = true <;> cases x <;> simp [hi, u32]

/-- the data slab after the model's `elements.Set` returned the elements `g'` -/
def mds_dataAfter (sl : MDataSlab r) (g' : HkeyElems (MElems r)) : MDataSlab r :=
  { sl with elems := g', hdr := { sl.hdr with firstKey := g'.firstKey, size := sl.prefixSize + g'.size } }

/-- `MapDataSlab.Set` on a data slab of the tree, over the heap: the nested `elements.Set` (the model's, by `ElemsSpec`),
    `firstKey` and `size = prefix + elements size` refreshed, the slab stored under its identifier unless inlined; this
    is the model's `MDataSlab.set` (first conjunct); next to an error nothing changed.  No `uint32` range condition is
    needed (`uint32` addition is a ring homomorphism). -/
theorem Ob_MapDataSlab_Set_heap (cfg : MCfg) (k : MKey) (v : Elem) (P : DG r → Prop) (hE : ElemsSpec cfg k v P eb)
    (sl : MDataSlab r) (x : Option DX) (hx : x.isSome = sl.root) (hP : P sl.elems) (s : MHSt r)
    (ha : sl.hdr.id.addr = cfg.addr) :
    match HkeyElems.set (MElems.ops r) cfg sl.elems 0 k v s.ctx with
    | .ok (ks, old, g', c0) =>
      MDataSlab.set cfg sl k v s.ctx = .ok (ks, old, mds_dataAfter sl g', (mds_dataAfter sl g').storeIfNotInlined c0) ∧
      MapDataSlab_Set (envD T eb rs) (md_data sl x) s () k (u64 0) (u64 (k.dig 0)) (.key k) (.val v) =
        some (some (.key ks), old.map .val, none, md_data (mds_dataAfter sl g') x,
          if sl.inlined then s.withCtx c0
          else (s.withCtx c0).store sl.hdr.id (.dataSlab (md_data (mds_dataAfter sl g') x)))
    | .error err =>
      MDataSlab.set cfg sl k v s.ctx = .error err ∧
      MapDataSlab_Set (envD T eb rs) (md_data sl x) s () k (u64 0) (u64 (k.dig 0)) (.key k) (.val v) =
        some (none, none, some err, md_data sl x, s) := by
  have hg := hE.set sl.elems s.ctx hP
  have e1 : (md_data sl x).elements = sl.elems := rfl
  have e2 : (MapDataSlab_SlabID (envD T eb rs) (md_data sl x)).addr = cfg.addr := ha
  unfold MapDataSlab_Set
  simp only [e1, e2, envD_elemSet, hg]
  unfold MDataSlab.set
  simp only [MDataSlab.eops, bind, Except.bind, pure, Except.pure]
  rcases HkeyElems.set (MElems.ops r) cfg sl.elems 0 k v s.ctx with err | ⟨ks, old, g', c0⟩
  · simp [mei_rGSet, md_data]
  · refine ⟨rfl, ?_⟩
    simp only [mei_rGSet, Option.isNone_none, Bool.not_true, Bool.false_eq_true, if_false, mds_storeSlab_data,
      mds_getPrefixSize T eb rs sl x hx, envD_elemFirst, envD_elemSize, hE.first, hE.size,
      ← UInt32.ofNat_add]
    cases hi : sl.inlined <;> simp [md_data, md_hdr, mds_dataAfter, hi, u32]

end

end Atree.TransEq
