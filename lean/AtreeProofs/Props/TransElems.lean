import AtreeModel.Gen.TransMapElems
import AtreeModel.Gen.TransMapElem
/-
  ELEMENT layer of the maps (WP11): every whitelisted function of the two element-layer units of the object engine of
  harness/cmd/gotrans was translated on this run (none fell back to `Untranslatable`), the whitelist is the pinned one, and
  no call site relies on the "dead after call" aliasing assumption.  The equivalence theorems are in
  `Props/TransElemsGet.lean`, `TransElemsSet.lean`, `TransElemsRemove.lean` (hkeyElements), `TransElemInline.lean`,
  `TransElemSlab.lean` (element implementations, MapDataSlab.Set / Remove), `TransElemErr.lean` (error exits).
-/
namespace Atree.TransEq
open Atree

/-- every whitelisted function of the element layer was translated -/
theorem all_translated_mapelems :
    Gen.TransElems.untranslatedFunctions = [] ∧ Gen.TransElem.untranslatedFunctions = [] := ⟨rfl, rfl⟩

/-- the whitelist itself (dropping a function from the tables of obj_elems.go is noticed) -/
theorem mapelems_targets_pinned :
    Gen.TransElems.translatedTargets =
      ["singleElement_Size", "hkeyElements_getElement", "hkeyElements_Get", "hkeyElements_getElementAndNextKey",
       "hkeyElements_Set", "hkeyElements_Remove"] ∧
    Gen.TransElem.translatedTargets =
      ["singleElement_Size", "singleElement_Count", "singleElement_Get", "singleElement_getElementAndNextKey",
       "singleElement_Remove", "inlineCollisionGroup_Size", "inlineCollisionGroup_Count", "inlineCollisionGroup_Get",
       "inlineCollisionGroup_getElementAndNextKey", "inlineCollisionGroup_Remove", "MapDataSlab_SlabID",
       "MapMetaDataSlab_SlabID", "MapSlab_SlabID", "storeSlab", "getMapSlab", "inlineCollisionGroup_Set",
       "singleElement_Set", "MapDataSlab_getPrefixSize", "MapDataSlab_Set", "MapDataSlab_Remove",
       "externalCollisionGroup_Size", "externalCollisionGroup_Get", "externalCollisionGroup_getElementAndNextKey",
       "externalCollisionGroup_Set", "externalCollisionGroup_Remove", "element_Size", "element_Get",
       "element_getElementAndNextKey", "element_Set", "element_Remove"] := ⟨rfl, rfl⟩

/-- no call site of the element layer hands a slice to a helper that clears it without overwriting it -/
theorem mapelems_deadAfterCall_pinned :
    Gen.TransElems.deadAfterCall = [] ∧ Gen.TransElem.deadAfterCall = [] := ⟨rfl, rfl⟩

end Atree.TransEq
