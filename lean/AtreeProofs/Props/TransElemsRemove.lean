import AtreeProofs.Trans.MapElems
import AtreeProofs.Trans.MapElemsOn
import AtreeProofs.Map.Search
/-
  The GENERATED `hkeyElements.Remove` (`AtreeModel/Gen/TransMapElems.lean`) against the model's
  `HkeyElems.findEq` / `HkeyElems.remove` (`AtreeModel/Map/Elems.lean`).  Core Lean only.
-/
namespace Atree.TransEq
open Atree Atree.Gen.TransElems

theorem mel_rm_getD_lt (l : List Nat) (h : ∀ x ∈ l, x < 2^64) (n : Nat) : l.getD n 0 < 2^64 := by
  rw [List.getD_eq_getElem?_getD]
  rcases Option.eq_none_or_eq_some l[n]? with h1 | ⟨v, h1⟩
  · rw [h1]; decide
  · rw [h1]; exact h v (List.mem_of_getElem? h1)

theorem mel_rm_fuel_len (n : Nat) : (Int.ofNat n - Int.ofNat 0 + 1).toNat = n + 1 := by
  simp only [Int.ofNat_eq_natCast]; omega

theorem mel_rm_pred (n : Nat) (h : 0 < n) : Int.ofNat n - (1 : Int) = Int.ofNat (n - 1) := by
  simp only [Int.ofNat_eq_natCast]; omega

/-- `slices.Delete(l, i, i+1)` = `List.eraseIdx` for an index in range -/
theorem mel_delete_one {β : Type} (l : List β) (i : Nat) (h : i < l.length) :
    goSlicesDelete l (Int.ofNat i) (Int.ofNat i + 1) = some (l.eraseIdx i) := by
  have hc : (0 : Int) ≤ Int.ofNat i ∧ Int.ofNat i ≤ Int.ofNat i + 1 ∧ Int.ofNat i + 1 ≤ Int.ofNat l.length := by
    simp only [Int.ofNat_eq_natCast]; omega
  unfold goSlicesDelete
  rw [if_pos hc]
  simp only [msl_int_succ, msl_int_toNat, ← List.eraseIdx_eq_take_drop_succ]

theorem mel_map_eraseIdx {β γ : Type} (f : β → γ) : ∀ (l : List β) (i : Nat), (l.map f).eraseIdx i = (l.eraseIdx i).map f
  | [], _ => rfl
  | _ :: _, 0 => rfl
  | x :: t, i + 1 => by
    simp only [List.map_cons, List.eraseIdx_cons_succ, mel_map_eraseIdx f t i]

/-- `size + (new - old)` in `uint32` (wrap-around) = the exact `size + new - old` whenever `old ≤ size + new` -/
theorem mel_u32_add_sub (s n old : Nat) (h : old ≤ s + n) : u32 s + (u32 n - u32 old) = u32 (s + n - old) := by
  rw [← msl_u32_sub' h, ← msl_u32_add', UInt32.sub_eq_add_neg, UInt32.sub_eq_add_neg, UInt32.add_assoc]

theorem mel_rm_goInRange {β : Type} (l : List β) (i : Nat) (h : i < l.length) : goInRange l (Int.ofNat i) = true := by
  simp only [goInRange, Int.ofNat_eq_natCast, Bool.and_eq_true, decide_eq_true_eq]; omega

section
variable {α : Type} (o : ElemsOps α) (cfg : MCfg) (k : MKey) (v : Elem) (env : Env (MElemF α) SV SW Ctx GE)

/-- the binary search of `Remove` = the model's `findEq` (given enough fuel) -/
theorem mel_Remove_loop1 (e : HkeyElems α) (hok : mel_HOk e) (hk : Nat) (hhk : hk < 2^64) :
    ∀ (fuel i j : Nat) (eq0 : Int), i ≤ j → j ≤ e.hkeys.length → j - i < fuel →
      ∃ i' j' : Int, hkeyElements_Remove.loop1 env (mel_cH e) (u64 hk) fuel eq0 (Int.ofNat i) (Int.ofNat j) =
        .done ((match HkeyElems.findEq e.hkeys hk i j fuel with | some h => Int.ofNat h | none => eq0), i', j') := by
  intro fuel
  induction fuel with
  | zero => intro i j eq0 _ _ h; omega
  | succ fuel ih =>
    intro i j eq0 hij hj hf
    have hshort := hok.short
    simp only [hkeyElements_Remove.loop1, HkeyElems.findEq, int_dlt]
    by_cases c : i < j
    · simp only [c, decide_true, if_true]
      rw [mid_eq i j (by omega)]
      have hlt : (i + j) / 2 < e.hkeys.length := by omega
      simp only [mel_goIdx_hkeys e _ hlt]
      have hm := mel_rm_getD_lt e.hkeys hok.dig ((i + j) / 2)
      generalize e.hkeys.getD ((i + j) / 2) 0 = mv at *
      rw [u64_dgt hm hhk, u64_dlt hm hhk]
      by_cases c1 : mv > hk
      · simp only [c1, decide_true, if_true]
        exact ih i ((i + j) / 2) eq0 (by omega) (by omega) (by omega)
      · simp only [c1, decide_false, if_false, Bool.false_eq_true]
        by_cases c2 : mv < hk
        · simp only [c2, decide_true, if_true]
          exact ih ((i + j) / 2 + 1) j eq0 (by omega) hj (by omega)
        · simp only [c2, decide_false, if_false, Bool.false_eq_true]
          exact ⟨_, _, rfl⟩
    · simp only [c, decide_false, if_false, Bool.false_eq_true]
      exact ⟨_, _, rfl⟩

/-- (relativised environment `EnvAOn`; the guard `Pr` holds for the elements of the table) `hkeyElements.Remove` = `HkeyElems.remove`: range pre-check, binary search, the element's `Remove`, then either the
    element and its digest are deleted (size - digestSize - old element size) or the element is replaced (size + new - old); never panics -/
theorem hkeyElements_Remove_eq_model_on {Pg Ps Pr : MElemF α → Nat → Ctx → Prop}
    (hE : EnvAOn o cfg k v env Pg Ps Pr) (e : HkeyElems α) (hok : mel_HOk e) (level : Nat) (c : Ctx)
    (hl : level < 2^64) (hL : cfg.L < 2^64) (hd : k.dig level < 2^64)
    (hsz : ∀ el ∈ e.elems, Gen.digestSize + el.size o ≤ e.size)
    (hPr : ∀ (i : Nat) (el : MElemF α), e.elems[i]? = some el → Pr el level c) :
    hkeyElements_Remove env (mel_cH e) c (u64 level) (u64 (k.dig level)) (.key k) =
      mel_rRemove e c (HkeyElems.remove o cfg e level k c) := by
  unfold hkeyElements_Remove HkeyElems.remove
  rw [hE.levels, u64_dge hl hL]
  by_cases cl : level ≥ cfg.L
  · simp only [cl, decide_true, if_true, hE.eHashLevel]
    rfl
  · simp only [cl, decide_false, if_false, Bool.false_eq_true]
    rw [mel_cH_hkeys_length, int_deq_zero]
    by_cases c0 : e.hkeys.length = 0
    · have hnil : e.hkeys = [] := List.length_eq_zero_iff.mp c0
      simp only [hE.eKeyNotFound, hnil, List.head?_nil]
      rfl
    · simp only [c0, decide_false, if_false, Bool.false_eq_true]
      have hpos : 0 < e.hkeys.length := Nat.pos_of_ne_zero c0
      have h0 : (0 : Int) = Int.ofNat 0 := rfl
      rw [h0, mel_goIdx_hkeys e 0 hpos, mel_rm_pred _ hpos, mel_goIdx_hkeys e _ (by omega)]
      have hhead : e.hkeys.head? = some (e.hkeys.getD 0 0) := by
        rw [List.head?_eq_getElem?]; exact HkeyElems.get_of_lt hpos
      have hlast : e.hkeys.getLast? = some (e.hkeys.getD (e.hkeys.length - 1) 0) := by
        rw [List.getLast?_eq_getElem?]; exact HkeyElems.get_of_lt (by omega)
      simp only [hhead, hlast]
      have hf := mel_rm_getD_lt e.hkeys hok.dig 0
      have hla := mel_rm_getD_lt e.hkeys hok.dig (e.hkeys.length - 1)
      generalize e.hkeys.getD 0 0 = first at *
      generalize e.hkeys.getD (e.hkeys.length - 1) 0 = last at *
      rw [u64_dlt hd hf, u64_dgt hd hla]
      by_cases c1 : k.dig level < first
      · simp only [c1, decide_true, if_true, hE.eKeyNotFound, Bool.true_or]
        rfl
      · simp only [c1, decide_false, if_false, Bool.false_eq_true, Bool.false_or]
        by_cases c2 : k.dig level > last
        · simp only [c2, decide_true, if_true, hE.eKeyNotFound]
          rfl
        · simp only [c2, decide_false, if_false, Bool.false_eq_true]
          rw [mel_rm_fuel_len]
          obtain ⟨i', j', h⟩ := mel_Remove_loop1 env e hok (k.dig level) hd (e.hkeys.length + 1) 0 e.hkeys.length (-1)
            (Nat.zero_le _) (Nat.le_refl _) (by omega)
          rw [h]
          rcases Option.eq_none_or_eq_some (HkeyElems.findEq e.hkeys (k.dig level) 0 e.hkeys.length (e.hkeys.length + 1))
            with hfe | ⟨x, hfe⟩
          · rw [hfe]
            simp only [decide_true, if_true, hE.eKeyNotFound]
            rfl
          · rw [hfe]
            have hne : ¬ (Int.ofNat x = (-1 : Int)) := by
              simp only [Int.ofNat_eq_natCast]; omega
            have hx := HkeyElems.findEq_some _ _ _ (Nat.le_refl _) hfe
            have hxh : x < e.hkeys.length := (List.getElem?_eq_some_iff.mp hx).1
            have hxl : x < e.elems.length := by rw [hok.len]; exact hxh
            have hel : e.elems[x]? = some e.elems[x] := List.getElem?_eq_getElem hxl
            have hmem : e.elems[x] ∈ e.elems := List.getElem_mem hxl
            have hs := hsz _ hmem
            simp only [hne, decide_false, if_false, Bool.false_eq_true, mel_goIdx_elems, hel, Option.map_some]
            generalize e.elems[x] = el at *
            rw [hE.size, hE.remove _ c level _ hl (hPr _ _ hel)]
            rcases hr : el.remove o cfg level k c with err | ⟨rk, rv, el', c'⟩
            · simp only [mel_rERemove, Option.isNone_some, Bool.not_false, if_true, bind, Except.bind]
              rfl
            · cases el' with
              | none =>
                have hcl : (mel_cH e).elems.length = e.elems.length := mel_cH_elems_length e
                have hch : (mel_cH e).hkeys.length = e.hkeys.length := mel_cH_hkeys_length e
                simp only [mel_rERemove, Option.isNone_none, Bool.not_true, Bool.false_eq_true, if_false, if_true,
                  bind, Except.bind, pure, Except.pure,
                  mel_delete_one _ x (hcl ▸ hxl), mel_delete_one _ x (hch ▸ hxh)]
                have e1 : UInt32.ofNat Gen.digestSize = u32 Gen.digestSize := rfl
                simp only [mel_rRemove, mel_cH, e1, msl_u32_add', msl_u32_sub' hs, u64s, mel_map_eraseIdx]
              | some el'' =>
                have hcl : (mel_cH e).elems.length = e.elems.length := mel_cH_elems_length e
                simp only [mel_rERemove, Option.isNone_none, Option.isNone_some, Bool.not_true, Bool.false_eq_true,
                  if_false, if_true, bind, Except.bind, pure, Except.pure, mel_rm_goInRange _ x (hcl ▸ hxl), hE.size,
                  msl_int_toNat]
                have hle : el.size o ≤ e.size + el''.size o := by omega
                simp only [mel_rRemove, mel_cH, mel_u32_add_sub _ _ _ hle, List.map_set]

/-- `hkeyElements.Remove` = `HkeyElems.remove`: range pre-check, binary search, the element's `Remove`, then either the
    element and its digest are deleted (size - digestSize - old element size) or the element is replaced (size + new - old); never panics -/
theorem hkeyElements_Remove_eq_model (hE : EnvA o cfg k v env) (e : HkeyElems α) (hok : mel_HOk e) (level : Nat) (c : Ctx)
    (hl : level < 2^64) (hL : cfg.L < 2^64) (hd : k.dig level < 2^64)
    (hsz : ∀ el ∈ e.elems, Gen.digestSize + el.size o ≤ e.size) :
    hkeyElements_Remove env (mel_cH e) c (u64 level) (u64 (k.dig level)) (.key k) =
      mel_rRemove e c (HkeyElems.remove o cfg e level k c) := by
  exact hkeyElements_Remove_eq_model_on o cfg k v env hE.toOn e hok level c hl hL hd hsz (fun _ _ _ => trivial)
end

/-! ### non-vacuity: an environment satisfying `EnvA` (for every `o`, `cfg`, `k`, `v`), and concrete runs -/

/-- the parameters of the generated code instantiated BY the model (the witness that `EnvA` is satisfiable) -/
def mel_rm_env {α : Type} (o : ElemsOps α) (cfg : MCfg) (k : MKey) (v : Elem) : Env (MElemF α) SV SW Ctx GE where
  Digester_Levels := u64 cfg.L
  NewCollisionLimitError := some .collisionLimit
  NewHashLevelErrorf := some .hashLevel
  NewKeyNotFoundError := some .keyNotFound
  NewMapElementCountError := some .mapElementCount
  NewUnreachableError := some .goPanic
  element_Count := fun el c => (u32 (el.count o), none, c)
  element_Get := fun el c lvl _ _ => mel_rGet c (el.get o cfg lvl.toNat k)
  element_Remove := fun el c lvl _ _ => mel_rERemove c (el.remove o cfg lvl.toNat k c)
  element_Set := fun el c _ lvl _ _ _ => mel_rESet c (el.set o cfg lvl.toNat k v c)
  element_Size := fun el => u32 (el.size o)
  element_getElementAndNextKey := fun _ c _ _ _ => (none, none, none, some .goPanic, c)
  element_ofSingleElement := fun s =>
    match s.key, s.value with
    | some (.key k'), some (.val v') => .single { key := k', val := v', size := s.size.toNat }
    | _, _ => .single default
  errors_As_KeyNotFoundError := fun err => decide (err = .keyNotFound)
  firstKeyInElement := fun c _ => (none, some .goPanic, c)
  maxCollisionLimitPerDigest := u32 cfg.climit
  newSingleElement := fun c _ _ _ =>
    (mel_cE (newSingleElement cfg.T cfg.addr k v c).1, none, (newSingleElement cfg.T cfg.addr k v c).2)

theorem mel_rm_env_ok {α : Type} (o : ElemsOps α) (cfg : MCfg) (k : MKey) (v : Elem) : EnvA o cfg k v (mel_rm_env o cfg k v) where
  levels := rfl
  climit := rfl
  size := fun _ => rfl
  count := fun _ _ => rfl
  get := fun el c lvl hk hl => by
    show mel_rGet c (el.get o cfg (u64 lvl).toNat k) = _
    rw [u64_toNat hl]
  set := fun el c lvl hk hl => by
    show mel_rESet c (el.set o cfg (u64 lvl).toNat k v c) = _
    rw [u64_toNat hl]
  remove := fun el c lvl hk hl => by
    show mel_rERemove c (el.remove o cfg (u64 lvl).toNat k c) = _
    rw [u64_toNat hl]
  newElem := fun _ => rfl
  inj := fun x hx => by
    show MElemF.single { key := x.key, val := x.val, size := (u32 x.size).toNat } = _
    rw [u32_toNat hx]
  asKNF := fun _ => rfl
  eHashLevel := rfl
  eKeyNotFound := rfl
  eCollisionLimit := rfl
  eElementCount := rfl

/-- nested level of the examples: a group is just its size; `remove` shrinks it by 5 -/
def mel_rm_oEx : ElemsOps Nat where
  size := id
  count := fun _ => 2
  firstKey := fun _ => 0
  get := fun _ _ _ _ => .error .keyNotFound
  set := fun _ _ _ _ _ _ => .error .notApplicable
  remove := fun _ g _ k c => .ok (k, { size := 3, pay := .val 10 }, g - 5, c)
  newWith := fun _ _ _ => .error .notApplicable
  soleSingle := fun _ => none
  popIter := fun _ c => ([], c)
  toList := fun _ => []

def mel_rm_cfgEx : MCfg := { T := 1024, L := 2, climit := 255, addr := 7 }
def mel_rm_k1Ex : MKey := { size := 9, pay := 1, digs := [5, 6] }
def mel_rm_k2Ex : MKey := { size := 9, pay := 2, digs := [8, 6] }
def mel_rm_k3Ex : MKey := { size := 9, pay := 3, digs := [7, 6] }
def mel_rm_v1Ex : Elem := { size := 3, pay := .val 10 }
def mel_rm_cEx : Ctx := { ctr := 0, eff := [] }
/-- digests 5 (a single element of size 13) and 8 (an inline group of size prefix + 30) -/
def mel_rm_eEx : HkeyElems Nat :=
  { hkeys := [5, 8], elems := [.single { key := mel_rm_k1Ex, val := mel_rm_v1Ex, size := 13 }, .inl 30],
    size := 100, level := 0 }

theorem mel_rm_eEx_ok : mel_HOk mel_rm_eEx where
  len := rfl
  dig := by decide
  short := by decide

theorem mel_rm_eEx_sz : ∀ el ∈ mel_rm_eEx.elems, Gen.digestSize + el.size mel_rm_oEx ≤ mel_rm_eEx.size := by
  intro el h
  simp only [mel_rm_eEx, List.mem_cons, List.not_mem_nil, or_false] at h
  rcases h with h | h <;> subst h <;> decide

/-- Remove of a single element: the element and its digest are deleted, size - (8 + 13) -/
example : hkeyElements_Remove (mel_rm_env mel_rm_oEx mel_rm_cfgEx mel_rm_k1Ex mel_rm_v1Ex) (mel_cH mel_rm_eEx) mel_rm_cEx
      (u64 0) (u64 5) (.key mel_rm_k1Ex) =
    some (some (.key mel_rm_k1Ex), some (.val mel_rm_v1Ex), none,
      mel_cH { hkeys := [8], elems := [.inl 30], size := 79, level := 0 }, mel_rm_cEx) := by
  rw [show (5 : Nat) = mel_rm_k1Ex.dig 0 from rfl,
    hkeyElements_Remove_eq_model mel_rm_oEx mel_rm_cfgEx mel_rm_k1Ex mel_rm_v1Ex _ (mel_rm_env_ok _ _ _ _) mel_rm_eEx mel_rm_eEx_ok
      0 mel_rm_cEx (by decide) (by decide) (by decide) mel_rm_eEx_sz]
  rfl

/-- Remove inside a group: the element is replaced, size + new - old = 100 - 5 -/
example : hkeyElements_Remove (mel_rm_env mel_rm_oEx mel_rm_cfgEx mel_rm_k2Ex mel_rm_v1Ex) (mel_cH mel_rm_eEx) mel_rm_cEx
      (u64 0) (u64 8) (.key mel_rm_k2Ex) =
    some (some (.key mel_rm_k2Ex), some (.val mel_rm_v1Ex), none,
      mel_cH { mel_rm_eEx with elems := [.single { key := mel_rm_k1Ex, val := mel_rm_v1Ex, size := 13 }, .inl 25], size := 95 },
      mel_rm_cEx) := by
  rw [show (8 : Nat) = mel_rm_k2Ex.dig 0 from rfl,
    hkeyElements_Remove_eq_model mel_rm_oEx mel_rm_cfgEx mel_rm_k2Ex mel_rm_v1Ex _ (mel_rm_env_ok _ _ _ _) mel_rm_eEx mel_rm_eEx_ok
      0 mel_rm_cEx (by decide) (by decide) (by decide) mel_rm_eEx_sz]
  rfl

/-- an absent digest inside the range, and a level beyond the digester's -/
example : hkeyElements_Remove (mel_rm_env mel_rm_oEx mel_rm_cfgEx mel_rm_k3Ex mel_rm_v1Ex) (mel_cH mel_rm_eEx) mel_rm_cEx
      (u64 0) (u64 7) (.key mel_rm_k3Ex) = some (none, none, some .keyNotFound, mel_cH mel_rm_eEx, mel_rm_cEx) := by
  rw [show (7 : Nat) = mel_rm_k3Ex.dig 0 from rfl,
    hkeyElements_Remove_eq_model mel_rm_oEx mel_rm_cfgEx mel_rm_k3Ex mel_rm_v1Ex _ (mel_rm_env_ok _ _ _ _) mel_rm_eEx mel_rm_eEx_ok
      0 mel_rm_cEx (by decide) (by decide) (by decide) mel_rm_eEx_sz]
  rfl
example : hkeyElements_Remove (mel_rm_env mel_rm_oEx mel_rm_cfgEx mel_rm_k1Ex mel_rm_v1Ex) (mel_cH mel_rm_eEx) mel_rm_cEx
      (u64 2) (u64 0) (.key mel_rm_k1Ex) = some (none, none, some .hashLevel, mel_cH mel_rm_eEx, mel_rm_cEx) := by
  rw [show (0 : Nat) = mel_rm_k1Ex.dig 2 from rfl,
    hkeyElements_Remove_eq_model mel_rm_oEx mel_rm_cfgEx mel_rm_k1Ex mel_rm_v1Ex _ (mel_rm_env_ok _ _ _ _) mel_rm_eEx mel_rm_eEx_ok
      2 mel_rm_cEx (by decide) (by decide) (by decide) mel_rm_eEx_sz]
  rfl

/-! ### outside the hypothesis `hsz` the code and the model DIFFER

  A table whose size field is smaller than digestSize + the size of the removed element (an inconsistent table: the
  size field always includes the prefix, every digest and every element): Go computes
  `e.size -= digestSize + oldElemSize` in `uint32` and wraps around, the `Nat` model truncates at 0. -/
def mel_rm_eBadEx : HkeyElems Nat :=
  { hkeys := [5], elems := [.single { key := mel_rm_k1Ex, val := mel_rm_v1Ex, size := 13 }], size := 11, level := 0 }

theorem hkeyElements_Remove_differs_at :
    (hkeyElements_Remove (mel_rm_env mel_rm_oEx mel_rm_cfgEx mel_rm_k1Ex mel_rm_v1Ex) (mel_cH mel_rm_eBadEx) mel_rm_cEx
        (u64 0) (u64 5) (.key mel_rm_k1Ex)).map (·.2.2.2.1.size) = some (u32 4294967286) ∧
    (mel_rRemove mel_rm_eBadEx mel_rm_cEx (HkeyElems.remove mel_rm_oEx mel_rm_cfgEx mel_rm_eBadEx 0 mel_rm_k1Ex mel_rm_cEx)).map
        (·.2.2.2.1.size) = some (u32 0) := by
  constructor <;> decide

end Atree.TransEq
