import AtreeModel.Gen.Facts
import AtreeProofs.Props.C18Order
/-
  C18 - "leaves the container exactly as it was" for requests that the CALLER'S VALUE refuses
  (`Value.Storable` fails) or that a level further down refuses, and the named refusals of the
  open / enumerate-level functions: the CODE ORDER and the GUARDS, as a second regenerated fact.

  `Gen.argCheckPrefixExt` (harness/cmd/extract/argorderext.go, same walk as `Gen.argCheckPrefix`)
  lists, for the request-level functions of `Gen.argCheckPrefix` and `newSingleElement`,
    * `refuse:<callee>`     every call of `Value.Storable` (or of `newSingleElement`, which does nothing but
                            call it for the key and the value) with the kinds of the statements that may
                            have run before it;
    * `propagate:<callee>`  every `if err != nil` that tests the error of an earlier call handed down
                            (`child.Insert`, `a.root.Set`, `elem.Set`, ...) or of a `Value.Storable` call,
                            with the kinds of ALL statements up to the test - the call itself and
                            whatever stands between the call and the test included;
  and for the functions that open a container or hand out a value (`NewArrayWithRootID`,
  `NewMapWithRootID`, `getArraySlab`, `getMapSlab`, the slab hand-over of the read-only iterators,
  `StoredValue` of the four tree slab kinds, `NewStorableSlab`, `StorableSlab.Encode`)
    * `check:<Ctor>@<condition>`  every named refusal with the condition of its `if`.

  `arg_checks_precede_effects` (C18Order.lean) guards the refusals the library raises itself; it does
  not see a count that is incremented before the caller's value has had its say (sweep s3 E02), nor
  one that is incremented between a call handed down and the test of its error (E01), nor a refusal
  whose guard is weakened or deleted in the open-level functions (A03, A03b, E13, E13b, E17, E17b, X02,
  R01, R07).  Each of these changes a row of this fact and makes the theorem below fail.
-/
namespace Atree.C18
open Atree

/-- kinds that may precede a `refuse:` / `propagate:` site besides `allowedBeforeRefusal`: size
    look-ups for the value limit, and - in `newSingleElement` - the successful `Storable` of the KEY
    (for a key above the inline key limit the caller's `Storable` has stored a slab of its own by
    then, which a refusing value leaves behind: part of what the code does, documented with O5) -/
def allowedBeforeValueRefusal : List String := allowedBeforeRefusal ++ [
  "call:e.key.ByteSize", "call:elem.key.ByteSize", "call:ks.ByteSize", "call:maxInlineMapValueSize",
  "call:key.Storable"]

/-- for every `propagate:` site: the kind of the call whose error is tested (it may - it must -
    precede the test; by the same fact one level down it has changed nothing when it fails) -/
def propagatedCall : List (String × String) := [
  ("propagate:a.root.Get", "descend:a.root.Get"),
  ("propagate:a.set", "descend:a.set"),
  ("propagate:a.root.Set", "descend:a.root.Set"),
  ("propagate:a.root.Insert", "descend:a.root.Insert"),
  ("propagate:a.remove", "descend:a.remove"),
  ("propagate:a.root.Remove", "descend:a.root.Remove"),
  ("propagate:value.Storable", "call:value.Storable"),
  ("propagate:child.Set", "descend:child.Set"),
  ("propagate:child.Insert", "descend:child.Insert"),
  ("propagate:child.Remove", "descend:child.Remove"),
  ("propagate:m.get", "descend:m.get"),
  ("propagate:m.set", "descend:m.set"),
  ("propagate:m.root.Set", "descend:m.root.Set"),
  ("propagate:m.remove", "descend:m.remove"),
  ("propagate:m.root.Remove", "descend:m.root.Remove"),
  ("propagate:m.elements.Set", "descend:m.elements.Set"),
  ("propagate:m.elements.Remove", "descend:m.elements.Remove"),
  ("propagate:newSingleElement", "call:newSingleElement"),
  ("propagate:elem.Get", "descend:elem.Get"),
  ("propagate:elem.Set", "descend:elem.Set"),
  ("propagate:elem.Remove", "descend:elem.Remove"),
  ("propagate:e.elements.Set", "descend:e.elements.Set"),
  ("propagate:e.elements.Remove", "descend:e.elements.Remove"),
  ("propagate:slab.Set", "descend:slab.Set"),
  ("propagate:dataSlab.Remove", "descend:dataSlab.Remove"),
  ("propagate:key.Storable", "call:key.Storable")]

/-- kinds that may precede a named refusal of the open / enumerate-level functions: reads, earlier
    refusals, the cursor of the iterator object itself (not container state), and - in
    `StorableSlab.Encode` - the bytes already written to the encoder's buffer (the caller of Encode
    discards the buffer on error) -/
def allowedBeforeOpenRefusal : List String := allowedBeforeRefusal ++ [
  "call:a.SlabID", "call:root.ExtraData", "call:fmt.Errorf",
  "call:i.array.Storage.Retrieve", "call:i.m.Storage.Retrieve",
  "check:NewSlabIDErrorf", "check:NewEncodingError",
  "mutate:i.dataSlab", "mutate:i.indexInDataSlab",
  "call:newStorableSlabHead", "call:h.setNoSizeLimit", "call:hasPointer", "call:h.setHasPointers",
  "call:enc.Write", "call:s.storable.Encode", "call:enc.hasInlinedExtraData"]

/-- every site of the fact as it is today, (function, site): each must be there, with this guard -/
def requiredSitesExt : List (String × String) := [
  ("Array.Get", "propagate:a.root.Get"),
  ("Array.Set", "propagate:a.set"),
  ("Array.set", "propagate:a.root.Set"),
  ("Array.Insert", "propagate:a.root.Insert"),
  ("Array.Remove", "propagate:a.remove"),
  ("Array.remove", "propagate:a.root.Remove"),
  ("ArrayDataSlab.Set", "refuse:value.Storable"),
  ("ArrayDataSlab.Set", "propagate:value.Storable"),
  ("ArrayDataSlab.Insert", "refuse:value.Storable"),
  ("ArrayDataSlab.Insert", "propagate:value.Storable"),
  ("ArrayMetaDataSlab.Set", "propagate:child.Set"),
  ("ArrayMetaDataSlab.Insert", "propagate:child.Insert"),
  ("ArrayMetaDataSlab.Remove", "propagate:child.Remove"),
  ("OrderedMap.Has", "propagate:m.get"),
  ("OrderedMap.Get", "propagate:m.get"),
  ("OrderedMap.Set", "propagate:m.set"),
  ("OrderedMap.set", "propagate:m.root.Set"),
  ("OrderedMap.Remove", "propagate:m.remove"),
  ("OrderedMap.remove", "propagate:m.root.Remove"),
  ("MapDataSlab.Set", "propagate:m.elements.Set"),
  ("MapDataSlab.Remove", "propagate:m.elements.Remove"),
  ("MapMetaDataSlab.Set", "propagate:child.Set"),
  ("MapMetaDataSlab.Remove", "propagate:child.Remove"),
  ("hkeyElements.Set", "refuse:newSingleElement"),
  ("hkeyElements.Set", "propagate:newSingleElement"),
  ("hkeyElements.Set", "propagate:elem.Get"),
  ("hkeyElements.Set", "propagate:elem.Set"),
  ("hkeyElements.Remove", "propagate:elem.Remove"),
  ("singleElements.Set", "refuse:value.Storable"),
  ("singleElements.Set", "propagate:value.Storable"),
  ("singleElements.Set", "refuse:newSingleElement"),
  ("singleElements.Set", "propagate:newSingleElement"),
  ("singleElement.Set", "refuse:value.Storable"),
  ("singleElement.Set", "propagate:value.Storable"),
  ("inlineCollisionGroup.Set", "propagate:e.elements.Set"),
  ("inlineCollisionGroup.Remove", "propagate:e.elements.Remove"),
  ("externalCollisionGroup.Set", "propagate:slab.Set"),
  ("externalCollisionGroup.Remove", "propagate:dataSlab.Remove"),
  ("NewArrayWithRootID", "check:NewSlabIDErrorf@rootID == SlabIDUndefined"),
  ("NewArrayWithRootID", "check:NewNotValueError@extraData == nil"),
  ("NewMapWithRootID", "check:NewSlabIDErrorf@rootID == SlabIDUndefined"),
  ("NewMapWithRootID", "check:NewNotValueError@extraData == nil"),
  ("getArraySlab", "check:NewSlabNotFoundErrorf@!found"),
  ("getArraySlab", "check:NewSlabDataErrorf@!ok"),
  ("getMapSlab", "check:NewSlabNotFoundErrorf@!found"),
  ("getMapSlab", "check:NewSlabDataErrorf@!ok"),
  ("readOnlyArrayIterator.Next", "check:NewSlabNotFoundErrorf@!found"),
  ("readOnlyArrayIterator.Next", "check:NewSlabDataErrorf@len(i.dataSlab.elements) == 0"),
  ("readOnlyMapIterator.advance", "check:NewSlabNotFoundErrorf@!found"),
  ("readOnlyMapIterator.advance", "check:NewSlabDataErrorf@!ok"),
  ("ArrayDataSlab.StoredValue", "check:NewNotValueError@a.extraData == nil"),
  ("ArrayMetaDataSlab.StoredValue", "check:NewNotValueError@a.extraData == nil"),
  ("MapDataSlab.StoredValue", "check:NewNotValueError@m.extraData == nil"),
  ("MapMetaDataSlab.StoredValue", "check:NewNotValueError@m.extraData == nil"),
  ("NewStorableSlab", "check:NewUserError@storableSize > maxStorableSizeInStorableSlab"),
  ("StorableSlab.Encode", "check:NewEncodingError@err != nil"),
  ("StorableSlab.Encode", "check:NewEncodingError@enc.hasInlinedExtraData()"),
  ("newSingleElement", "refuse:key.Storable"),
  ("newSingleElement", "propagate:key.Storable"),
  ("newSingleElement", "refuse:value.Storable"),
  ("newSingleElement", "propagate:value.Storable")]

def isRefuse (site : String) : Bool :=
  propagatedCall.any (fun p => p.1 == site) ||
  ["refuse:value.Storable", "refuse:key.Storable", "refuse:newSingleElement"].contains site

/-- clause (1): before the caller's value can refuse, and up to the test of an error handed up, only
    allowed kinds, successful exits of other branches and (for `propagate:`) the call itself -/
def valueRefusalsEffectFree (facts : List (String × String × List String)) : Bool :=
  facts.all (fun e => !isRefuse e.2.1 ||
    e.2.2.all (fun k => allowedBeforeValueRefusal.contains k || k == "exit:ok" || propagatedCall.contains (e.2.1, k)))

/-- clause (2): the named refusals of the open-level functions are preceded by reads only -/
def openRefusalsEffectFree (facts : List (String × String × List String)) : Bool :=
  facts.all (fun e => isRefuse e.2.1 ||
    e.2.2.all (fun k => allowedBeforeOpenRefusal.contains k || k == "exit:ok"))

/-- clause (3): every site is one of the reviewed ones (a changed guard is a new site), every
    reviewed site is there, no function is missing -/
def sitesExact (facts : List (String × String × List String)) : Bool :=
  facts.all (fun e => requiredSitesExt.contains (e.1, e.2.1)) &&
  requiredSitesExt.all (fun x => facts.any (fun e => e.1 == x.1 && e.2.1 == x.2))

def orderOkExt (facts : List (String × String × List String)) : Bool :=
  valueRefusalsEffectFree facts && openRefusalsEffectFree facts && sitesExact facts

set_option maxRecDepth 100000 in
/-- NOTHING IS CHANGED BEFORE THE CALLER'S VALUE, OR A LEVEL FURTHER DOWN, CAN STILL REFUSE; THE NAMED
    REFUSALS OF THE OPEN-LEVEL FUNCTIONS ARE THERE WITH THEIR GUARDS (source order, regenerated on
    every run).
      (1) In every request-level function of arrays and maps, on every path to a call of
          `Value.Storable` and on every path to the test of the error of such a call or of a call
          handed down (`child.Insert`, `a.root.Set`, `m.root.Remove`, `elem.Set`, ...), only reads,
          earlier checks, error exits, successful exits of other branches and that one call have been
          executed: no count / size / header field is written, nothing is stored, before the request
          can no longer be refused from below.
      (2) In `NewArrayWithRootID`, `NewMapWithRootID`, `getArraySlab`, `getMapSlab`,
          `readOnlyArrayIterator.Next`, `readOnlyMapIterator.advance`, `StoredValue` of the four tree
          slab kinds, `NewStorableSlab` and `StorableSlab.Encode` only reads (and the iterator's own
          cursor, the encoder's own buffer) precede a named refusal.
      (3) The sites are exactly `requiredSitesExt`: each named refusal of (2) with the condition that
          guards it (not a root: `extraData == nil`; not a slab of this container kind: `!ok`; dangling
          sibling link: `!found`; storable-slab size limit: `storableSize > maxStorableSizeInStorableSlab`;
          storable carrying an inlined container: `enc.hasInlinedExtraData()`), each `refuse:` and
          `propagate:` site of (1). -/
theorem value_refusals_precede_effects : orderOkExt Gen.argCheckPrefixExt = true := by decide

/-- clause (1) in logical form -/
theorem value_refusals_precede_effects_spec :
    ∀ e ∈ Gen.argCheckPrefixExt, isRefuse e.2.1 = true → ∀ k ∈ e.2.2,
      k ∈ allowedBeforeValueRefusal ∨ k = "exit:ok" ∨ (e.2.1, k) ∈ propagatedCall := by
  have h := value_refusals_precede_effects
  simp only [orderOkExt, valueRefusalsEffectFree, Bool.and_eq_true, List.all_eq_true] at h
  intro e he hr k hk
  have := h.1.1 e he
  simp only [hr, Bool.not_true, Bool.false_or, List.all_eq_true] at this
  have := this k hk
  simpa [List.contains_iff_mem, or_assoc] using this

/-! ### the statement has teeth: the surviving mutants of sweep s3, as data -/

/-- E02: `a.header.count++` hoisted above `value.Storable` in `ArrayDataSlab.Insert` -/
example : valueRefusalsEffectFree [("ArrayDataSlab.Insert", "refuse:value.Storable",
    ["check:NewIndexOutOfBoundsError", "mutate:a.header.count"])] = false := by decide

/-- E01: `a.header.count++` between `child.Insert` and the test of its error in `ArrayMetaDataSlab.Insert` -/
example : valueRefusalsEffectFree [("ArrayMetaDataSlab.Insert", "propagate:child.Insert",
    ["check:NewIndexOutOfBoundsError", "call:a.childSlabIndexInfo", "exit:err", "call:getArraySlab", "exit:err",
     "descend:child.Insert", "mutate:a.header.count"])] = false := by decide

/-- the unchanged row of E01 passes (non-vacuity of the example above) -/
example : valueRefusalsEffectFree [("ArrayMetaDataSlab.Insert", "propagate:child.Insert",
    ["check:NewIndexOutOfBoundsError", "call:a.childSlabIndexInfo", "exit:err", "call:getArraySlab", "exit:err",
     "descend:child.Insert"])] = true := by decide

/-- A03: the guard of the not-a-root refusal of `NewArrayWithRootID` weakened; A03b / X02: deleted -/
example : sitesExact [("NewArrayWithRootID", "check:NewNotValueError@extraData == nil && false", [])] = false := by decide
set_option maxRecDepth 100000 in
example : sitesExact (Gen.argCheckPrefixExt.filter (fun e => e.1 != "ArrayMetaDataSlab.StoredValue")) = false := by decide

end Atree.C18
