import AtreeProofs.Props.TransDescentInsert
import AtreeProofs.Props.TransDescentSplit
/-
  TRANSLATION EQUIVALENCE, the DESCENT (WP12), part 3b: the tail hypothesis of the INSERT descent
  (`InsSplitTail T d` of Props/TransDescentInsert.lean) DISCHARGED from `SplitChildSlab` over the heap
  (Props/TransDescentSplit.lean), and the hypothesis-free final theorems.

  1. `InsHoldsBelow` (the strict descendants of a slab are held), `ins_split_heap_facts` (`Split` keeps the descendants:
     those of the halves are those of the slab, and they are still held).
  2. `ins_split_heapPost`: the heap after the three stores of `SplitChildSlab` (left half under the child's
     identifier, right half under the fresh identifier, the parent) satisfies `HeapPost`, and no identifier leaves
     the tree.
  3. `ins_splitAgreesH_of_shape`: the dispatched `Split` agrees with the model on every slab of a valid shape that is at
     most one element over the band (what `InsTailPre` gives).
  4. `insSplitTail_all`, and `Sl_ArraySlab_Insert_heap_full`, `Sl_ArrayMetaDataSlab_Insert_heap_full`.
  Core Lean only.
-/
set_option linter.unusedVariables false
namespace Atree.TransEq
open Atree Atree.Gen

section below
open MetaSlab ATree

/-- the heap holds the strict descendants of `t` -/
def InsHoldsBelow (h : SlabID → Option GSlab) : (d : Nat) → ATree d → Prop
  | 0, _ => True
  | d + 1, (m : MetaSlab (ATree d)) => HoldsChildren h m

theorem Holds.insBelow {h : SlabID → Option GSlab} : ∀ {d : Nat} {t : ATree d}, Holds h d t → InsHoldsBelow h d t
  | 0, _, _ => trivial
  | _ + 1, _, hh => hh.2

theorem ins_holds_of_root_below {h : SlabID → Option GSlab} : ∀ (d : Nat) (t : ATree d),
    h (hdr d t).id = some (trTree d t) → InsHoldsBelow h d t → Holds h d t
  | 0, _, hr, _ => hr
  | _ + 1, _, hr, hb => ⟨hr, hb⟩

theorem InsHoldsBelow.congr {h h' : SlabID → Option GSlab} : ∀ {d : Nat} {t : ATree d}, InsHoldsBelow h d t →
    (∀ id ∈ subIds d t, h' id = h id) → InsHoldsBelow h' d t
  | 0, _, _, _ => trivial
  | d + 1, t, hb, heq => by
    revert hb heq
    refine forall_ofMeta ?_ t
    intro m hb heq c hc
    exact (hb c hc).congr (fun id hid => heq id (List.mem_flatMap.2 ⟨c, hc, hid⟩))

/-- `Split` keeps the strict descendants: the identifiers below the two halves are those below the slab, and a heap
    that holds the descendants of the slab holds those of the halves -/
theorem ins_split_heap_facts : ∀ (d : Nat) (t : ATree d) (c : Ctx) (l r : ATree d) (c' : Ctx),
    ATree.split d t c = .ok (l, r, c') →
    subIds d l ++ subIds d r = subIds d t ∧
      ∀ h : SlabID → Option GSlab, InsHoldsBelow h d t → InsHoldsBelow h d l ∧ InsHoldsBelow h d r
  | 0, _, _, _, _, _ => fun _ => ⟨rfl, fun _ _ => ⟨trivial, trivial⟩⟩
  | d + 1, t, c, l, r, c' => by
    refine forall_ofMeta ?_ t; intro m h
    have h : MetaSlab.split m c = .ok (l, r, c') := h
    unfold MetaSlab.split at h
    split at h
    · cases h
    · simp only [Except.ok.injEq] at h
      obtain ⟨rfl, rfl, rfl⟩ := h
      refine ⟨?_, fun hp hb => ⟨?_, ?_⟩⟩
      · show (m.children.take _).flatMap _ ++ (m.children.drop _).flatMap _ = m.children.flatMap _
        rw [← List.flatMap_append, List.take_append_drop]
      · intro x hx
        exact hb x (List.mem_of_mem_take hx)
      · intro x hx
        exact hb x (List.mem_of_mem_drop hx)

end below

/-! ## 2. the heap after `SplitChildSlab` -/

section heap
open MetaSlab ATree
variable {d : Nat}

/-- the heap after the three stores of `SplitChildSlab`: it holds the new parent (the left half under the child's
    identifier, the right half under an identifier above the allocation counter), nothing leaves the tree, everything
    outside the tree is untouched -/
theorem ins_split_heapPost {m1 m2 : MetaSlab (ATree d)} {A B : List (ATree d)} {child' l r : ATree d}
    {h1 h2 : SlabID → Option GSlab} {addr ctr : Nat}
    (hch : m1.children = A ++ child' :: B) (hch2 : m2.children = A ++ l :: r :: B) (hid2 : m2.hdr.id = m1.hdr.id)
    (hids : IdsOk addr ctr (slabIds (d + 1) (ofMeta m1)))
    (hlid : (hdr d l).id = (hdr d child').id) (hrid : ctr < (hdr d r).id.idx)
    (hsub : subIds d l ++ subIds d r = subIds d child')
    (hbl : InsHoldsBelow h1 d child' → InsHoldsBelow h1 d l ∧ InsHoldsBelow h1 d r)
    (hh : HoldsChildren h1 m1)
    (hheap : ∀ id, h2 id = if id = m1.hdr.id then some (.metaSlab (trMeta m2))
      else if id = (hdr d r).id then some (trTree d r)
      else if id = (hdr d l).id then some (trTree d l) else h1 id) :
    HeapPost h1 h2 (ofMeta m1) (ofMeta m2) ∧
      ∀ id ∈ slabIds (d + 1) (ofMeta m1), id ∈ slabIds (d + 1) (ofMeta m2) := by
  have e1 : slabIds (d + 1) (ofMeta m1) = m1.hdr.id :: (A.flatMap (slabIds d) ++
      ((hdr d child').id :: subIds d child') ++ B.flatMap (slabIds d)) := by
    rw [slabIds_succ, hch]
    simp only [List.flatMap_append, List.flatMap_cons, slabIds_eq d child', List.append_assoc]
  have e2 : slabIds (d + 1) (ofMeta m2) = m1.hdr.id :: (A.flatMap (slabIds d) ++
      ((hdr d child').id :: subIds d l) ++ ((hdr d r).id :: subIds d r) ++ B.flatMap (slabIds d)) := by
    rw [slabIds_succ, hch2, hid2]
    simp only [List.flatMap_append, List.flatMap_cons, slabIds_eq d l, slabIds_eq d r, hlid, List.append_assoc]
  have sub : ∀ id ∈ slabIds (d + 1) (ofMeta m1), id ∈ slabIds (d + 1) (ofMeta m2) := by
    intro id hid
    rw [e1, ← hsub] at hid
    rw [e2]
    simp only [List.mem_cons, List.mem_append] at hid ⊢
    rcases hid with h | (h | h | h | h) | h
    · exact Or.inl h
    · exact Or.inr (Or.inl (Or.inl (Or.inl h)))
    · exact Or.inr (Or.inl (Or.inl (Or.inr (Or.inl h))))
    · exact Or.inr (Or.inl (Or.inl (Or.inr (Or.inr h))))
    · exact Or.inr (Or.inl (Or.inr (Or.inr h)))
    · exact Or.inr (Or.inr h)
  -- identifiers
  have hnd := hids.1
  rw [slabIds_succ, hch] at hnd
  have hmid := ins_nodup_mid hnd
  have cmem : (hdr d child').id ∈ slabIds d child' := by rw [slabIds_eq]; exact List.mem_cons_self
  have cin : ∀ id ∈ slabIds d child', id ∈ slabIds (d + 1) (ofMeta m1) := by
    intro id hid
    rw [ins_mem_ids_meta]; exact Or.inr ⟨child', by rw [hch]; simp, hid⟩
  have fresh : ∀ id ∈ slabIds (d + 1) (ofMeta m1), id ≠ (hdr d r).id := by
    intro id hid e
    have := (hids.2 id hid).2.2
    rw [e] at this
    omega
  have hndc : ((hdr d child').id :: subIds d child').Nodup := by
    rw [← slabIds_eq]; exact (ids_child hch hids).1
  have belowc : ∀ id ∈ subIds d child', id ∈ slabIds d child' := by
    intro id hid; rw [slabIds_eq]; exact List.mem_cons_of_mem _ hid
  have rootmem : m1.hdr.id ∈ slabIds (d + 1) (ofMeta m1) := by rw [ins_mem_ids_meta]; exact Or.inl rfl
  have keep : ∀ id, id ≠ m1.hdr.id → id ≠ (hdr d r).id → id ≠ (hdr d child').id → h2 id = h1 id := by
    intro id a b c
    rw [hheap, hlid]; simp [a, b, c]
  have keepBelow : ∀ id ∈ subIds d child', h2 id = h1 id := by
    intro id hid
    refine keep id (hmid.1 id (belowc id hid)) (fresh id (cin id (belowc id hid))) ?_
    intro e
    exact (List.nodup_cons.1 hndc).1 (e ▸ hid)
  have hc'mem : child' ∈ m1.children := by rw [hch]; simp
  obtain ⟨hbL, hbR⟩ := hbl (hh child' hc'mem).insBelow
  have hroot2 : h2 m1.hdr.id = some (.metaSlab (trMeta m2)) := by rw [hheap]; simp
  have hl2 : h2 (hdr d l).id = some (trTree d l) := by
    have a : (hdr d l).id ≠ m1.hdr.id := by rw [hlid]; exact hmid.1 _ cmem
    have b : (hdr d l).id ≠ (hdr d r).id := by rw [hlid]; exact fresh _ (cin _ cmem)
    rw [hheap]; simp [a, b]
  have hr2 : h2 (hdr d r).id = some (trTree d r) := by
    have a : (hdr d r).id ≠ m1.hdr.id := fun e => fresh _ rootmem e.symm
    rw [hheap]; simp [a]
  have sib : ∀ c, (c ∈ A ∨ c ∈ B) → Holds h2 d c := by
    intro c hc
    have hmem : c ∈ m1.children := by
      rw [hch]; simp only [List.mem_append, List.mem_cons]
      rcases hc with h' | h'
      · exact Or.inl h'
      · exact Or.inr (Or.inr h')
    refine (hh c hmem).congr (fun id hid => ?_)
    have hin : id ∈ slabIds (d + 1) (ofMeta m1) := by rw [ins_mem_ids_meta]; exact Or.inr ⟨c, hmem, hid⟩
    refine keep id (hmid.2 c hc id hid).2 (fresh id hin) ?_
    intro e
    exact (hmid.2 c hc id hid).1 (e ▸ cmem)
  have hroot2' : h2 m2.hdr.id = some (.metaSlab (trMeta m2)) := by rw [hid2]; exact hroot2
  have hkids2 : ∀ c ∈ m2.children, Holds h2 d c := by
    intro c hc
    rw [hch2] at hc
    simp only [List.mem_append, List.mem_cons] at hc
    rcases hc with hc | rfl | rfl | hc
    · exact sib c (Or.inl hc)
    · refine ins_holds_of_root_below d c hl2 (hbL.congr (fun id hid => keepBelow id ?_))
      rw [← hsub]; exact List.mem_append_left _ hid
    · refine ins_holds_of_root_below d c hr2 (hbR.congr (fun id hid => keepBelow id ?_))
      rw [← hsub]; exact List.mem_append_right _ hid
    · exact sib c (Or.inr hc)
  refine ⟨⟨⟨hroot2', hkids2⟩, fun id a b => absurd (sub id a) b, ?_⟩, sub⟩
  · intro id hn1 hn2
    refine keep id (fun e => hn1 (e ▸ rootmem)) ?_ (fun e => hn1 (e ▸ cin _ cmem))
    intro e
    apply hn2
    rw [e2, e]
    simp
end heap

/-! ## 3. `Split` agrees on the slabs the tail sees -/

section agrees
open MetaSlab ATree

/-- the dispatched `Split` over the heap agrees with the model on every slab of a valid shape whose size is at most one
    element over the band -/
theorem ins_splitAgreesH_of_shape (T : Nat) (hT : legalThreshold T = true) : ∀ (d : Nat) (t : ATree d) (s : HSt),
    Shape T d false t → (hdr d t).size ≤ maxThr T + maxInlineArr T → SplitAgreesH T d t s
  | 0, t, s => by
    refine forall_ofData ?_ t
    intro t hs hsz
    have hs := (shape_zero T false t).1 hs
    have F := thrFacts hT
    refine SplitAgreesH_data_safe T t s hT ⟨hs.count_eq, hs.size_eq, fun e he => (hs.elems_ok e he).1,
      ⟨hs.root_eq, hs.not_inl⟩, ?_⟩
    have : t.hdr.size ≤ maxThr T + maxInlineArr T := hsz
    have := F.lo; rw [F.maxE, F.inlE] at *
    omega
  | d + 1, t, s => by
    refine forall_ofMeta ?_ t
    intro m hs _
    have hs := (shape_succ T d false m).1 hs
    have F := thrFacts hT
    have hlen : m.childHdrs.length = m.children.length := by rw [hs.hdrs_eq]; simp
    refine SplitAgreesH_meta T m s ?_ ?_ ?_
    · rw [hs.sums_eq, MetaSlab.prefixSums_length]; omega
    · rw [hs.size_eq, hlen, F.hsz]; omega
    · rw [hs.count_eq]; exact sumCounts_take_le _ _

end agrees

/-! ## 4. the tail hypothesis, discharged -/

section tail
open MetaSlab ATree

/-- **the tail hypothesis of the Insert descent holds at every depth**: under `InsTailPre` the generated
    `SplitChildSlab` over the heap returns the model's `splitChildSlab` result, the `Ctx` is the model's, the heap
    satisfies `HeapPost` and no identifier leaves the tree -/
theorem insSplitTail_all (T : Nat) (hT : legalThreshold T = true) : ∀ d, InsSplitTail T d := by
  intro d m1 child' k s1 addr m2 c2 hpre hsp
  obtain ⟨A, B, hch, hk, hA, hB⟩ := hpre.kids
  obtain ⟨l, r, c1, hsplit, hc1, hl, hr, hflat, hid, hcnt, hrepl⟩ :=
    split_ok hT d child' s1.ctx hpre.shape hpre.full (by have := hpre.size_le; omega)
  obtain ⟨m', c', heq, _, hbook', hch2, hid2, _, _, _⟩ :=
    splitChildSlab_spec m1 A B child' l r k s1.ctx c1 hpre.book hch hk hsplit hcnt
  rw [hsp] at heq
  simp only [Except.ok.injEq, Prod.mk.injEq] at heq
  obtain ⟨rfl, rfl⟩ := heq
  obtain ⟨_, hlid, hrid, _⟩ := split_struct d child' s1.ctx l r c1 hsplit
  obtain ⟨hsubids, hbelow⟩ := ins_split_heap_facts d child' s1.ctx l r c1 hsplit
  -- the preconditions of `Sl_SplitChildSlab_heap`
  have hh : m1.childHdrs = A.map (hdr d) ++ hdr d child' :: B.map (hdr d) := by
    rw [hpre.book.hdrs_eq, hch]; simp
  have hkh : (A.map (hdr d)).length = k := by simp [hk]
  have hcs : m1.countSum = prefixSums (A.map (hdr d)) 0 ++
      (sumCounts (A.map (hdr d)) + (hdr d child').count) ::
        prefixSums (B.map (hdr d)) (sumCounts (A.map (hdr d)) + (hdr d child').count) := by
    rw [hpre.book.sums_eq, hh, prefixSums_mid]
  have hkc : (prefixSums (A.map (hdr d)) 0).length = k := by simp [MetaSlab.prefixSums_length, hk]
  have hk' : k < m1.childHdrs.length := by rw [hh]; simp; omega
  have hk0 : k < m1.countSum.length := by rw [hpre.book.sums_eq, MetaSlab.prefixSums_length]; exact hk'
  have hbase : (hdr d child').count ≤ m1.countSum.getD k 0 := by
    rw [hcs, getD_mid hkc]; omega
  have hg := Sl_SplitChildSlab_heap T m1 child' k s1
    (ins_splitAgreesH_of_shape T hT d child' s1 hpre.shape hpre.size_le) hk0 hk' hbase
  rw [hsplit, hsp] at hg
  refine ⟨_, _, hg, Sl_SplitChildSlab_heap_ctx m1 child' k s1 l r c1 m2 c2 hsplit hsp _ _ _, ?_⟩
  refine ins_split_heapPost hch hch2 hid2 hpre.ids hlid (by rw [hrid]; exact Nat.lt_succ_self _) hsubids
    (hbelow s1.heap) hpre.holds ?_
  intro id
  simp only [HSt.store_heap, HSt.withCtx_heap]

end tail

/-! ## 5. the final theorems, without hypotheses about the tail -/

section final
open MetaSlab ATree

/-- **`ArraySlab.Insert` over a heap**, with no hypothesis about the tail: on a heap that holds a valid tree, with a
    depth argument that covers the tree, the generated code returns the translation of the model's `ATree.insert`
    result (children that become full are split), the `Ctx` component of the storage is the model's, and the heap holds
    the new tree with everything outside the old and the new tree untouched; past the end it reports
    `IndexOutOfBoundsError` and touches nothing. -/
theorem Sl_ArraySlab_Insert_heap_full (T : Nat) (hT : legalThreshold T = true) (d : Nat) (top : Bool) (t : ATree d)
    (i : Nat) (v : Elem) (s : HSt) (depth addr : Nat) (hd : d ≤ depth) (hinv : TreeInv T d top t) (hni : NotInl d t)
    (hv : ValueOk v) (hids : IdsOk addr s.ctx.ctr (slabIds d t)) (hh : Holds s.heap d t)
    (hcnt : (hdr d t).count + 1 < 2^32) (hi : i < 2^64) :
    match ATree.insert T d t i v s.ctx with
    | .ok (t', c') => ∃ s',
        TransSl.ArraySlab_Insert (envH T) (TransSl.ArrayMetaDataSlab_Insert (envH T) depth) (trTree d t) s addr
          (u64 i) (some v) = some (none, trTree d t', s') ∧
        s'.ctx = c' ∧ HeapPost s.heap s'.heap t t'
    | .error .indexOutOfBounds =>
        TransSl.ArraySlab_Insert (envH T) (TransSl.ArrayMetaDataSlab_Insert (envH T) depth) (trTree d t) s addr
          (u64 i) (some v) = some (some .indexOutOfBounds, trTree d t, s)
    | .error _ => True :=
  Sl_ArraySlab_Insert_heap T hT d top t i v s depth addr hd hinv hni hv hids hh hcnt hi
    (Or.inl (fun d' _ => insSplitTail_all T hT d'))

/-- the in-range case as an existential (the model's insertion succeeds) -/
theorem Sl_ArraySlab_Insert_heap_full_ok (T : Nat) (hT : legalThreshold T = true) (d : Nat) (top : Bool) (t : ATree d)
    (i : Nat) (v : Elem) (s : HSt) (depth addr : Nat) (hd : d ≤ depth) (hinv : TreeInv T d top t) (hni : NotInl d t)
    (hv : ValueOk v) (hids : IdsOk addr s.ctx.ctr (slabIds d t)) (hh : Holds s.heap d t)
    (hcnt : (hdr d t).count + 1 < 2^32) (hi : i ≤ (flatten d t).length) :
    ∃ t' c' s', ATree.insert T d t i v s.ctx = .ok (t', c') ∧
      TransSl.ArraySlab_Insert (envH T) (TransSl.ArrayMetaDataSlab_Insert (envH T) depth) (trTree d t) s addr
        (u64 i) (some v) = some (none, trTree d t', s') ∧
      s'.ctx = c' ∧ HeapPost s.heap s'.heap t t' :=
  insertDisp_all T hT d t top i v s depth addr hd hinv hni hv hids hh hcnt hi
    (Or.inl (fun d' _ => insSplitTail_all T hT d'))

/-- **`ArrayMetaDataSlab.Insert` over a heap**, with no hypothesis about the tail: the receiver is the translation of
    a model index slab (passed by value), its children are held by the heap; depth argument `depth + 1` for children of
    depth `d ≤ depth`; in-range index (`i ≤ count`). -/
theorem Sl_ArrayMetaDataSlab_Insert_heap_full (T : Nat) (hT : legalThreshold T = true) (d : Nat) (top : Bool)
    (m : MetaSlab (ATree d)) (i : Nat) (v : Elem) (s : HSt) (depth addr : Nat) (hd : d ≤ depth)
    (hinv : TreeInv T (d + 1) top (ofMeta m)) (hv : ValueOk v)
    (hids : IdsOk addr s.ctx.ctr (slabIds (d + 1) (ofMeta m))) (hh : HoldsChildren s.heap m)
    (hcnt : m.hdr.count + 1 < 2^32) (hi : i ≤ m.hdr.count) :
    ∃ m2 c' s', ATree.insert T (d + 1) (ofMeta m) i v s.ctx = .ok (ofMeta m2, c') ∧
      TransSl.ArrayMetaDataSlab_Insert (envH T) (depth + 1) (trMeta m) s addr (u64 i) (some v) =
        some (none, trMeta m2, s') ∧
      s'.ctx = c' ∧ HeapPost s.heap s'.heap (ofMeta m) (ofMeta m2) :=
  Sl_ArrayMetaDataSlab_Insert_heap T hT d top m i v s depth addr hd hinv hv hids hh hcnt hi
    (Or.inl (fun d' _ => insSplitTail_all T hT d'))

end final

/-! ## 6. non-vacuity: an insertion that DOES split a child -/

section example_split
open MetaSlab ATree

/-- a leaf of 100 + 100 + 100 + 60 bytes (381 with the prefix: one step from full at T = 256, `maxThr = 384`) -/
def insFBig : DataSlab :=
  { hdr := ⟨⟨1, 2⟩, 381, 4⟩, next := ⟨1, 3⟩,
    elems := [⟨100, .val 0⟩, ⟨100, .val 1⟩, ⟨100, .val 2⟩, ⟨60, .val 3⟩], root := false, inlined := false }
def insFSmall : DataSlab :=
  { hdr := ⟨⟨1, 3⟩, 141, 2⟩, next := SlabID.undef,
    elems := [⟨60, .val 10⟩, ⟨60, .val 11⟩], root := false, inlined := false }
/-- a root index slab over the two leaves -/
def insFMeta : MetaSlab (ATree 0) :=
  { hdr := ⟨⟨1, 1⟩, 40, 6⟩, childHdrs := [insFBig.hdr, insFSmall.hdr], countSum := [4, 6],
    children := [insFBig, insFSmall], root := true }
/-- a heap that holds the two leaves, allocation counter 5 -/
def insFHeap : HSt :=
  ⟨fun id => if id = ⟨1, 2⟩ then some (.dataSlab (trData insFBig))
     else if id = ⟨1, 3⟩ then some (.dataSlab (trData insFSmall)) else none, ⟨5, [], []⟩⟩

/-- direct evaluation of the generated code: inserting a 100-byte value at index 1 makes the first leaf 481 bytes, it is
    stored, then split into 221 + 281 bytes (identifier `(1,6)` allocated), both halves and the parent are stored -/
example : (TransSl.ArrayMetaDataSlab_Insert (envH 256) 1 (trMeta insFMeta) insFHeap 1 (u64 1)
      (some ⟨100, .val 99⟩)).map
      (fun r => (r.1, r.2.1.header.count, r.2.1.childrenCountSum,
        r.2.1.childrenHeaders.map (fun h => (h.slabID, h.size, h.count)), r.2.2.ctx.eff, r.2.2.ctx.ctr,
        (r.2.2.heap ⟨1, 6⟩).map (fun x => ((TransSl.ArraySlab_Header (envH 256) x).size,
          (TransSl.ArraySlab_Header (envH 256) x).count)))) =
    some (none, 7, [2, 5, 7], [(⟨1, 2⟩, 221, 2), (⟨1, 6⟩, 281, 3), (⟨1, 3⟩, 141, 2)],
      [.store ⟨1, 2⟩, .alloc 1 ⟨1, 6⟩, .store ⟨1, 2⟩, .store ⟨1, 6⟩, .store ⟨1, 1⟩], 6, some (281, 3)) := by
  rfl

theorem insF_kids (c : ATree 0) (hc : c ∈ insFMeta.children) : c = insFBig ∨ c = insFSmall := by
  have h : insFMeta.children = [insFBig, insFSmall] := rfl
  rw [h] at hc
  rcases List.mem_cons.mp hc with h | h
  · exact Or.inl h
  · exact Or.inr (List.mem_singleton.mp h)

theorem insFBig_inv : DataInv 256 false insFBig := by
  refine ⟨rfl, rfl, ?_, rfl, by simp [insFBig], ?_, fun _ => ?_⟩
  · intro e he
    simp only [insFBig, List.mem_cons, List.not_mem_nil, or_false] at he
    rcases he with rfl | rfl | rfl | rfl <;> exact ⟨by decide, by decide⟩
  · show 381 ≤ maxThr 256; decide
  · show minThr 256 ≤ 381; decide

theorem insFSmall_inv : DataInv 256 false insFSmall := by
  refine ⟨rfl, rfl, ?_, rfl, by simp [insFSmall], ?_, fun _ => ?_⟩
  · intro e he
    simp only [insFSmall, List.mem_cons, List.not_mem_nil, or_false] at he
    rcases he with rfl | rfl <;> exact ⟨by decide, by decide⟩
  · show 141 ≤ maxThr 256; decide
  · show minThr 256 ≤ 141; decide

theorem insF_inv : TreeInv 256 1 true (ofMeta insFMeta) := by
  refine ⟨rfl, rfl, rfl, rfl, rfl, ?_, ?_, by decide, by simp, fun _ => by decide⟩
  · intro c hc
    rcases insF_kids c hc with rfl | rfl
    · exact insFBig_inv
    · exact insFSmall_inv
  · intro c hc
    rcases insF_kids c hc with rfl | rfl <;> rfl

/-- the hypotheses of `Sl_ArrayMetaDataSlab_Insert_heap_full` are satisfiable on an input where the child DOES split:
    the new index slab has three children -/
example : ∃ m2 c' s', ATree.insert 256 1 (ofMeta insFMeta) 1 ⟨100, .val 99⟩ insFHeap.ctx = .ok (ofMeta m2, c') ∧
    TransSl.ArrayMetaDataSlab_Insert (envH 256) 1 (trMeta insFMeta) insFHeap 1 (u64 1) (some ⟨100, .val 99⟩) =
      some (none, trMeta m2, s') ∧
    s'.ctx = c' ∧ HeapPost insFHeap.heap s'.heap (ofMeta insFMeta) (ofMeta m2) ∧ m2.children.length = 3 := by
  obtain ⟨m2, c', s', h1, h2, h3, h4⟩ :=
    Sl_ArrayMetaDataSlab_Insert_heap_full 256 (by decide) 0 true insFMeta 1 ⟨100, .val 99⟩ insFHeap 0 1 (Nat.le_refl _)
      insF_inv ⟨by decide, 99, rfl⟩
      (by refine ⟨by decide, ?_⟩
          intro id hid
          have h : ATree.slabIds 1 (ofMeta insFMeta) = [⟨1, 1⟩, ⟨1, 2⟩, ⟨1, 3⟩] := rfl
          rw [h] at hid
          simp only [List.mem_cons, List.not_mem_nil, or_false] at hid
          rcases hid with rfl | rfl | rfl <;> decide)
      (by intro c hc
          rcases insF_kids c hc with rfl | rfl <;> rfl)
      (by decide) (by decide)
  refine ⟨m2, c', s', h1, h2, h3, h4, ?_⟩
  have hev : (ATree.insert 256 1 (ofMeta insFMeta) 1 ⟨100, .val 99⟩ insFHeap.ctx).toOption.map
      (fun r => (r.1 : MetaSlab (ATree 0)).children.length) = some 3 := by rfl
  rw [h1] at hev
  simp only [Except.toOption, Option.map_some, Option.some.injEq] at hev
  exact hev

end example_split

end Atree.TransEq
