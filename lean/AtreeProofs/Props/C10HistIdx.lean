import AtreeProofs.Props.C10Hist
import AtreeProofs.Props.C10IdxW
/-
  C10 / C01 — audit a5, S6, AT HISTORY LEVEL: in every world reached by a history of requests
  (`World.Run`) the index tables are duplicate-free (`IdxNodup`) and the global invariant holds, so
  the fatal branches of `incrementIndexFrom` / `decrementIndexFrom` (array.go:732,748) are
  unreachable — NO hypothesis is left.  PROPERTY THEOREMS.
-/
namespace Atree.C10Hist
open Atree Gen World

/-- one request keeps the index tables duplicate-free -/
theorem step_idxNodup (D : SlabID → DigestFn 4) {s s' : HState} {op : WOp} {ob : WObs} (I : IdxNodup s.w)
    (h : Step D s op ob s') : IdxNodup s'.w := by
  cases h with
  | newArr ty => exact C10Idx.idxNodup_newArr s.w ty s.cx I
  | newMap ty seed => exact C10Idx.idxNodup_newMap s.w ty seed s.cx I
  | arrInsert p i v w' cx' _ _ hop => exact C10Idx.idxNodup_arrInsert s.w p i v s.cx w' cx' I hop
  | arrSet p i v old w' cx' _ _ hop => exact C10Idx.idxNodup_arrSet s.w p i v s.cx old w' cx' I hop
  | arrRemove p i old w' cx' _ hop => exact C10Idx.idxNodup_arrRemove s.w p i s.cx old w' cx' I hop
  | mapSet p k v old w' cx' _ _ _ hop => exact C10Idx.idxNodup_mapSet s.w p k v s.cx old w' cx' I hop
  | mapRemove p k rk rv w' cx' _ _ hop => exact C10Idx.idxNodup_mapRemove s.w p k s.cx rk rv w' cx' I hop
  | arrGet p i el w' _ hop => exact C10Idx.idxNodup_arrGet s.w p i el w' I hop
  | mapGet p k el w' _ _ hop => exact C10Idx.idxNodup_mapGet s.w p k el w' I hop
  | setType p ty w' cx' _ hop => exact C10Idx.idxNodup_setType s.w p ty s.cx w' cx' I hop
  | arrPop p es w' cx' _ hop => exact C10Idx.idxNodup_arrPop s.w p s.cx es w' cx' I hop
  | mapPop p kvs w' cx' _ hop => exact C10Idx.idxNodup_mapPop s.w p s.cx kvs w' cx' I hop
  | dispose k _ _ => exact C10Idx.idxNodup_forget _ s.w k I
  | reopen roots => exact C10Idx.idxNodup_reopen s.w

theorem run_idxNodup (D : SlabID → DigestFn 4) {s s' : HState} {tr : List (WOp × WObs)} (I : IdxNodup s.w)
    (h : Run D s tr s') : IdxNodup s'.w := by
  induction h with
  | nil => exact I
  | cons hs _ ih => exact ih (step_idxNodup D I hs)

/-- every world reached by a history has duplicate-free index tables -/
theorem history_idxNodup (D : SlabID → DigestFn 4) (T addr : Nat) (cx0 : Ctx) (tr : List (WOp × WObs)) (s : HState)
    (h : Run D (HState.init T addr cx0) tr s) : IdxNodup s.w :=
  run_idxNodup D (C10Idx.idxNodup_new T addr) h

/-- THE FATAL BRANCHES OF `incrementIndexFrom` / `decrementIndexFrom` ARE UNREACHABLE: in every world
    reached by a history, for every array `p`, every insertion position `i` and every removal
    position, the conditions under which the Go code returns its fatal errors are false, and every
    entry of `mutableElementIndex` records the position of the element that refers to that child. -/
theorem history_index_shifts_never_fail (D : SlabID → DigestFn 4) (T addr : Nat) (cx0 : Ctx)
    (hT : legalThreshold T = true) (tr : List (WOp × WObs)) (s : HState) (h : Run D (HState.init T addr cx0) tr s)
    (p : SlabID) (a : Arr) (hp : s.w.cont? p = some (.arr a)) :
    (∀ i, C10Idx.incrementFails s.w p i (a.count + 1) = false) ∧
    (∀ i, C10Idx.decrementFails s.w p i = false) ∧
    (∀ x j, (x, j) ∈ s.w.idxOf p → ∃ e, a.toList[j]? = some e ∧ e.pay = .ref x) := by
  have H := (history_invariant D T addr cx0 hT tr s h).1
  have N := history_idxNodup D T addr cx0 tr s h
  exact ⟨fun i => C10Idx.increment_never_fails' D s.w s.cx.ctr H N p a hp i,
    fun i => C10Idx.decrement_never_fails s.w p i,
    fun x j hm => C10Idx.recorded_index_points_at_child D s.w s.cx.ctr H N p a hp x j hm⟩

end Atree.C10Hist
