import AtreeProofs.Trans.Slabs
import AtreeProofs.Props.Trans
import AtreeProofs.Props.TransLoops
import AtreeProofs.Props.TransSafe
/-
  TRANSLATION EQUIVALENCE for the generated array-slab code (`Gen/TransSlabs.lean`), part "decide": the small
  functions (getters, setters, `IsFull`, `IsUnderflow`, `CanLendToLeft/Right`) of `ArrayDataSlab` and
  `ArrayMetaDataSlab` and the generated DYNAMIC DISPATCHERS `ArraySlab_*` over the closed world
  `ArraySlabV = dataSlab | metaSlab`, against the hand-written model (`AtreeModel/Array/Slab.lean`, `Tree.lean`).

  A. getters / setters:   `Sl_ArrayDataSlab_Header` .. `Sl_ArrayMetaDataSlab_SetExtraData`
  B. decisions:           `Sl_ArrayDataSlab_IsFull/IsUnderflow`, `Sl_ArrayMetaDataSlab_IsFull/IsUnderflow`,
                          `Sl_ArrayMetaDataSlab_CanLendToLeft/Right`, `Sl_ArrayDataSlab_CanLendToLeft/Right`
                          (the last two for EVERY `uint32` request, including those where Go's guard wraps around)
  C. dispatchers on `trTree d t`: `Sl_disp_*`
  D. non-vacuity examples beside the theorems.
  Core Lean only.
-/
namespace Atree.TransEq
open Atree Atree.Gen

/-! ## A. getters and setters -/

section getters
variable (T : Nat) (look : SlabID → Option GSlab)

theorem Sl_ArrayDataSlab_Header (s : DataSlab) :
    TransSl.ArrayDataSlab_Header (envA T look) (trData s) = trHdr s.hdr := rfl

theorem Sl_ArrayMetaDataSlab_Header {α : Type} (m : MetaSlab α) :
    TransSl.ArrayMetaDataSlab_Header (envA T look) (trMeta m) = trHdr m.hdr := rfl

theorem Sl_ArrayDataSlab_SlabID (s : DataSlab) :
    TransSl.ArrayDataSlab_SlabID (envA T look) (trData s) = s.hdr.id := rfl

theorem Sl_ArrayMetaDataSlab_SlabID {α : Type} (m : MetaSlab α) :
    TransSl.ArrayMetaDataSlab_SlabID (envA T look) (trMeta m) = m.hdr.id := rfl

theorem Sl_ArrayDataSlab_ByteSize (s : DataSlab) :
    TransSl.ArrayDataSlab_ByteSize (envA T look) (trData s) = u32 s.hdr.size := rfl

theorem Sl_ArrayMetaDataSlab_ByteSize {α : Type} (m : MetaSlab α) :
    TransSl.ArrayMetaDataSlab_ByteSize (envA T look) (trMeta m) = u32 m.hdr.size := rfl

theorem Sl_ArrayDataSlab_IsData (s : DataSlab) :
    TransSl.ArrayDataSlab_IsData (envA T look) (trData s) = true := rfl

theorem Sl_ArrayMetaDataSlab_IsData {α : Type} (m : MetaSlab α) :
    TransSl.ArrayMetaDataSlab_IsData (envA T look) (trMeta m) = false := rfl

/-- `SetSlabID`: only the identifier in the header changes (model: `ATree.setId`) -/
theorem Sl_ArrayDataSlab_SetSlabID (s : DataSlab) (id : SlabID) :
    TransSl.ArrayDataSlab_SetSlabID (envA T look) (trData s) id =
      trData { s with hdr := { s.hdr with id := id } } := rfl

theorem Sl_ArrayMetaDataSlab_SetSlabID {α : Type} (m : MetaSlab α) (id : SlabID) :
    TransSl.ArrayMetaDataSlab_SetSlabID (envA T look) (trMeta m) id =
      trMeta { m with hdr := { m.hdr with id := id } } := rfl

/-- `RemoveExtraData`: returns the extra data (present iff root) and clears it (model: `ATree.setRoot _ false`) -/
theorem Sl_ArrayDataSlab_RemoveExtraData (s : DataSlab) :
    TransSl.ArrayDataSlab_RemoveExtraData (envA T look) (trData s) =
      (trExtra s.root, trData { s with root := false }) := rfl

theorem Sl_ArrayMetaDataSlab_RemoveExtraData {α : Type} (m : MetaSlab α) :
    TransSl.ArrayMetaDataSlab_RemoveExtraData (envA T look) (trMeta m) =
      (trExtra m.root, trMeta { m with root := false }) := rfl

/-- `SetExtraData` (model: `ATree.setRoot`) -/
theorem Sl_ArrayDataSlab_SetExtraData (s : DataSlab) (b : Bool) :
    TransSl.ArrayDataSlab_SetExtraData (envA T look) (trData s) (trExtra b) =
      trData { s with root := b } := rfl

theorem Sl_ArrayMetaDataSlab_SetExtraData {α : Type} (m : MetaSlab α) (b : Bool) :
    TransSl.ArrayMetaDataSlab_SetExtraData (envA T look) (trMeta m) (trExtra b) =
      trMeta { m with root := b } := rfl

end getters

/-- non-vacuity: a concrete root leaf and a concrete index slab -/
def slDLeaf : DataSlab :=
  { hdr := ⟨⟨1, 2⟩, 221, 4⟩, next := ⟨1, 3⟩,
    elems := [⟨50, .val 0⟩, ⟨50, .val 1⟩, ⟨50, .val 2⟩, ⟨50, .val 3⟩], root := true, inlined := false }

def slDIndex : MetaSlab Unit :=
  { hdr := ⟨⟨1, 1⟩, 300, 8⟩, childHdrs := [⟨⟨1, 2⟩, 221, 4⟩, ⟨⟨1, 3⟩, 221, 4⟩], countSum := [4, 8],
    children := [(), ()], root := false }

example : TransSl.ArrayDataSlab_Header (envA 256 (fun _ => none)) (trData slDLeaf) =
    { slabID := ⟨1, 2⟩, size := 221, count := 4 } := rfl
example : TransSl.ArrayDataSlab_RemoveExtraData (envA 256 (fun _ => none)) (trData slDLeaf) =
    (some (), { trData slDLeaf with extraData := none }) := rfl
example : (TransSl.ArrayMetaDataSlab_SetSlabID (envA 256 (fun _ => none)) (trMeta slDIndex) ⟨7, 9⟩).header.slabID =
    ⟨7, 9⟩ := rfl

/-! ## B. decisions -/

section decisions
variable (T : Nat) (look : SlabID → Option GSlab)

/-- Go's `(uint32, bool)` result of `IsUnderflow` for the model's `Option Nat` -/
def underflowPair : Option Nat → UInt32 × Bool
  | some n => (u32 n, true)
  | none => (0, false)

theorem Sl_ArrayDataSlab_IsFull (s : DataSlab) (hs : s.hdr.size < 2^32) (hT : maxThr T < 2^32) :
    TransSl.ArrayDataSlab_IsFull (envA T look) (trData s) = s.isFull T := by
  show decide (u32 s.hdr.size > u32 (maxThr T)) = decide (s.hdr.size > maxThr T)
  exact u32_dgt hs hT

theorem Sl_ArrayMetaDataSlab_IsFull {α : Type} (m : MetaSlab α) (hs : m.hdr.size < 2^32) (hT : maxThr T < 2^32) :
    TransSl.ArrayMetaDataSlab_IsFull (envA T look) (trMeta m) = m.isFull T := by
  show decide (u32 m.hdr.size > u32 (maxThr T)) = decide (m.hdr.size > maxThr T)
  exact u32_dgt hs hT

/-- the shared body of the two `IsUnderflow` -/
theorem slD_isUnderflow_core (hsize minT : Nat) (hs : hsize < 2^32) (hT : minT < 2^32) :
    (if decide (u32 minT > u32 hsize) then (u32 minT - u32 hsize, true) else ((0 : UInt32), false)) =
      underflowPair (if minT > hsize then some (minT - hsize) else none) := by
  rw [u32_dgt hT hs]
  by_cases c : minT > hsize
  · simp only [c, decide_true, if_true, underflowPair]
    rw [u32_sub (by omega) hT]
  · simp [c, underflowPair]

theorem Sl_ArrayDataSlab_IsUnderflow (s : DataSlab) (hs : s.hdr.size < 2^32) (hT : minThr T < 2^32) :
    TransSl.ArrayDataSlab_IsUnderflow (envA T look) (trData s) =
      (match s.isUnderflow T with | some n => (u32 n, true) | none => (0, false)) := by
  exact slD_isUnderflow_core s.hdr.size (minThr T) hs hT

theorem Sl_ArrayMetaDataSlab_IsUnderflow {α : Type} (m : MetaSlab α) (hs : m.hdr.size < 2^32)
    (hT : minThr T < 2^32) :
    TransSl.ArrayMetaDataSlab_IsUnderflow (envA T look) (trMeta m) =
      (match m.isUnderflow T with | some n => (u32 n, true) | none => (0, false)) := by
  exact slD_isUnderflow_core m.hdr.size (minThr T) hs hT

example : TransSl.ArrayDataSlab_IsFull (envA 256 (fun _ => none)) (trData slDLeaf) = false := by decide
example : TransSl.ArrayDataSlab_IsUnderflow (envA 1024 (fun _ => none)) (trData slDLeaf) = (u32 291, true) := by
  decide
example : TransSl.ArrayMetaDataSlab_IsUnderflow (envA 256 (fun _ => none)) (trMeta slDIndex) = (0, false) := by
  decide

/-! ### `CanLendToLeft / CanLendToRight` of an index slab (`math.Ceil(float64(size) / arraySlabHeaderSize)`) -/

/-- the shared body, from `metaCanLend_core` (Props/Trans.lean): `TransSl.goCeilDivU32` is `Trans.goCeilDivU32` -/
theorem slD_metaCanLend {α : Type} (m : MetaSlab α) (n : Nat)
    (hs : m.hdr.size < 2^32) (hT : minThr T < 2^32) (hw : n + Gen.arraySlabHeaderSize ≤ 2^32) :
    (let k : UInt32 := TransSl.goCeilDivU32 (u32 n) Gen.arraySlabHeaderSize
     if decide (u32 m.hdr.size ≥ UInt32.ofNat Gen.arraySlabHeaderSize * k) then
       decide (u32 m.hdr.size - UInt32.ofNat Gen.arraySlabHeaderSize * k > u32 (minThr T))
     else false) = m.canLend T n := by
  have hw' : n < 2^32 := by simp only [Gen.arraySlabHeaderSize] at hw; omega
  have h := metaCanLend_core Gen.arraySlabHeaderSize (by decide) (by decide) (u32 m.hdr.size) (u32 n)
    (u32 (minThr T)) (by rw [u32_toNat hw']; exact hw)
  have e : TransSl.goCeilDivU32 = Trans.goCeilDivU32 := rfl
  rw [e, h]
  simp only [u32_toNat hs, u32_toNat hT, u32_toNat hw', MetaSlab.canLend]

/-- `ArrayMetaDataSlab.CanLendToLeft(size)`.  `size + 14 ≤ 2^32` is needed: beyond it Go's product
    `arraySlabHeaderSize * n` wraps around (see `ArrayMetaDataSlab_CanLendToLeft_differs_at`, Props/Trans.lean);
    callers pass an underflow size `< minThreshold`. -/
theorem Sl_ArrayMetaDataSlab_CanLendToLeft {α : Type} (m : MetaSlab α) (n : Nat)
    (hs : m.hdr.size < 2^32) (hT : minThr T < 2^32) (hw : n + Gen.arraySlabHeaderSize ≤ 2^32) :
    TransSl.ArrayMetaDataSlab_CanLendToLeft (envA T look) (trMeta m) (u32 n) = m.canLend T n :=
  slD_metaCanLend T m n hs hT hw

theorem Sl_ArrayMetaDataSlab_CanLendToRight {α : Type} (m : MetaSlab α) (n : Nat)
    (hs : m.hdr.size < 2^32) (hT : minThr T < 2^32) (hw : n + Gen.arraySlabHeaderSize ≤ 2^32) :
    TransSl.ArrayMetaDataSlab_CanLendToRight (envA T look) (trMeta m) (u32 n) = m.canLend T n :=
  slD_metaCanLend T m n hs hT hw

example : TransSl.ArrayMetaDataSlab_CanLendToLeft (envA 256 (fun _ => none)) (trMeta slDIndex) (u32 20) = true := by
  decide
example : TransSl.ArrayMetaDataSlab_CanLendToRight (envA 256 (fun _ => none)) (trMeta slDIndex) (u32 200) = false := by
  decide

/-! ### `CanLendToLeft / CanLendToRight` of a leaf: the generated fuel loops over `goIdx a.elements i` -/

/-- what `CanLendToLeft / CanLendToRight` make of the result of their loop (falling out of it: `return false`) -/
def loopOptB : TransSl.Loop (Option Bool) UInt32 → Option Bool
  | .ret r => r
  | .done _ => some false

theorem slD_canLendLeft_loop (s : DataSlab) (want : Nat) (hs : s.hdr.size < 2^32) (hT : minThr T < 2^32)
    (hw : want < 2^32) (fuel i lend : Nat) (hf : fuel = s.elems.length - i)
    (hsum : lend + sumSizes (s.elems.drop i) ≤ s.hdr.size) :
    loopOptB (TransSl.ArrayDataSlab_CanLendToLeft.loop1 (envA T look) (trData s) (u32 want) fuel (Int.ofNat i)
        (u32 lend)) =
      some (DataSlab.canLendLoop T s.hdr.size want (s.elems.drop i) lend) := by
  induction fuel generalizing i lend with
  | zero =>
    have : s.elems.drop i = [] := List.drop_eq_nil_of_le (by omega)
    simp [TransSl.ArrayDataSlab_CanLendToLeft.loop1, loopOptB, this, DataSlab.canLendLoop]
  | succ fuel ih =>
    have hlt : i < s.elems.length := by omega
    rw [List.drop_eq_getElem_cons hlt] at hsum ⊢
    rw [sumSizes_cons] at hsum
    simp only [TransSl.ArrayDataSlab_CanLendToLeft.loop1, DataSlab.canLendLoop]
    rw [trData_elements, goIdx_map_some, List.getElem?_eq_getElem hlt]
    simp only [Option.map_some]
    rw [trData_header, trHdr_size, envA_minThreshold, envA_byteSize]
    generalize s.elems[i] = e at *
    rw [u32_add (by omega), u32_sub (by omega) hs]
    rw [u32_dlt (show s.hdr.size - (lend + e.size) < 2^32 by omega) hT,
      u32_dge (show lend + e.size < 2^32 by omega) hw]
    by_cases c1 : s.hdr.size - (lend + e.size) < minThr T
    · simp [c1, loopOptB]
    · by_cases c2 : lend + e.size ≥ want
      · simp [c1, c2, loopOptB]
      · simp only [c1, c2, decide_false, if_false, Bool.false_eq_true]
        exact ih (i + 1) (lend + e.size) (by omega) (by omega)

theorem slD_canLendRight_loop (s : DataSlab) (want : Nat) (hs : s.hdr.size < 2^32) (hT : minThr T < 2^32)
    (hw : want < 2^32) (n lend : Nat) (hn : n ≤ s.elems.length)
    (hsum : lend + sumSizes (s.elems.take n) ≤ s.hdr.size) :
    loopOptB (TransSl.ArrayDataSlab_CanLendToRight.loop1 (envA T look) (trData s) (u32 want) n (Int.ofNat n - 1)
        (u32 lend)) =
      some (DataSlab.canLendLoop T s.hdr.size want (s.elems.take n).reverse lend) := by
  induction n generalizing lend with
  | zero => simp [TransSl.ArrayDataSlab_CanLendToRight.loop1, loopOptB, DataSlab.canLendLoop]
  | succ n ih =>
    have hlt : n < s.elems.length := by omega
    rw [List.take_succ_eq_append_getElem hlt] at hsum ⊢
    rw [sumSizes_append, sumSizes_cons, sumSizes_nil] at hsum
    rw [List.reverse_append, List.reverse_singleton, List.singleton_append]
    have hi : (Int.ofNat (n + 1) - 1) = Int.ofNat n := by simp
    rw [hi]
    simp only [TransSl.ArrayDataSlab_CanLendToRight.loop1, DataSlab.canLendLoop, int_dge0, if_true]
    rw [trData_elements, goIdx_map_some, List.getElem?_eq_getElem hlt]
    simp only [Option.map_some]
    rw [trData_header, trHdr_size, envA_minThreshold, envA_byteSize]
    generalize s.elems[n] = e at *
    rw [u32_add (by omega), u32_sub (by omega) hs]
    rw [u32_dlt (show s.hdr.size - (lend + e.size) < 2^32 by omega) hT,
      u32_dge (show lend + e.size < 2^32 by omega) hw]
    by_cases c1 : s.hdr.size - (lend + e.size) < minThr T
    · simp [c1, loopOptB]
    · by_cases c2 : lend + e.size ≥ want
      · simp [c1, c2, loopOptB]
      · simp only [c1, c2, decide_false, if_false, Bool.false_eq_true]
        exact ih (lend + e.size) (by omega) (by omega)

/-- asking for more than the slab holds never succeeds (model loop) -/
theorem slD_canLendLoop_false_of_gt (h w : Nat) (l : List Elem) (lend : Nat) (hs : lend + sumSizes l ≤ h)
    (hw : h < w) : DataSlab.canLendLoop T h w l lend = false := by
  rw [arr_canLendLoop_eq]
  exact canLendLoop_false_of_gt (minThr T) h w (sizesOf l) lend (by rw [sumSizes_eq] at hs; exact hs) hw

theorem Sl_ArrayDataSlab_CanLendToLeft (s : DataSlab) (n : Nat) (hs : s.hdr.size < 2^32) (hT : minThr T < 2^32)
    (hn : n < 2^32) (hsum : sumSizes s.elems ≤ s.hdr.size) :
    TransSl.ArrayDataSlab_CanLendToLeft (envA T look) (trData s) (u32 n) = some (s.canLendToLeft T n) := by
  have hloop := slD_canLendLeft_loop T look s n hs hT hn s.elems.length 0 0 (by omega)
    (by rw [List.drop_zero]; omega)
  rw [List.drop_zero] at hloop
  have e0 : (0 : UInt32) = u32 0 := rfl
  have hdef : TransSl.ArrayDataSlab_CanLendToLeft (envA T look) (trData s) (u32 n) =
      if decide (Int.ofNat s.elems.length < (2 : Int)) then some false
      else if decide (u32 s.hdr.size - u32 n < u32 (minThr T)) then some false
      else loopOptB (TransSl.ArrayDataSlab_CanLendToLeft.loop1 (envA T look) (trData s) (u32 n) s.elems.length
        (Int.ofNat 0) (u32 0)) := by
    simp only [TransSl.ArrayDataSlab_CanLendToLeft, trData_elements, List.length_map]
    rfl
  rw [hdef, hloop, int_dlt_two]
  simp only [DataSlab.canLendToLeft]
  by_cases hl : s.elems.length < 2
  · simp [hl]
  · simp only [hl, decide_false, if_false, Bool.false_eq_true]
    by_cases hwh : n ≤ s.hdr.size
    · rw [u32_sub hwh hs, u32_dlt (by omega) hT]
      by_cases c : s.hdr.size - n < minThr T
      · simp [c]
      · simp [c]
    · have hf := slD_canLendLoop_false_of_gt T s.hdr.size n s.elems 0 (by omega) (by omega)
      rw [hf]
      split <;> split <;> rfl

theorem Sl_ArrayDataSlab_CanLendToRight (s : DataSlab) (n : Nat) (hs : s.hdr.size < 2^32) (hT : minThr T < 2^32)
    (hn : n < 2^32) (hsum : sumSizes s.elems ≤ s.hdr.size) :
    TransSl.ArrayDataSlab_CanLendToRight (envA T look) (trData s) (u32 n) = some (s.canLendToRight T n) := by
  have hloop := slD_canLendRight_loop T look s n hs hT hn s.elems.length 0 (Nat.le_refl _)
    (by rw [List.take_length]; omega)
  rw [List.take_length] at hloop
  have efuel : (Int.ofNat s.elems.length - 1 + 1).toNat = s.elems.length := by simp
  have hdef : TransSl.ArrayDataSlab_CanLendToRight (envA T look) (trData s) (u32 n) =
      if decide (Int.ofNat s.elems.length < (2 : Int)) then some false
      else if decide (u32 s.hdr.size - u32 n < u32 (minThr T)) then some false
      else loopOptB (TransSl.ArrayDataSlab_CanLendToRight.loop1 (envA T look) (trData s) (u32 n)
        ((Int.ofNat s.elems.length - 1 + 1).toNat) (Int.ofNat s.elems.length - 1) (u32 0)) := by
    simp only [TransSl.ArrayDataSlab_CanLendToRight, trData_elements, List.length_map]
    rfl
  rw [hdef, efuel, hloop, int_dlt_two]
  simp only [DataSlab.canLendToRight]
  by_cases hl : s.elems.length < 2
  · simp [hl]
  · simp only [hl, decide_false, if_false, Bool.false_eq_true]
    by_cases hwh : n ≤ s.hdr.size
    · rw [u32_sub hwh hs, u32_dlt (by omega) hT]
      by_cases c : s.hdr.size - n < minThr T
      · simp [c]
      · simp [c]
    · have hf := slD_canLendLoop_false_of_gt T s.hdr.size n s.elems.reverse 0
        (by simp only [sumSizes, List.map_reverse, List.sum_reverse] at hsum ⊢; omega) (by omega)
      rw [hf]
      split <;> split <;> rfl

/-- non-vacuity: a 221-byte leaf with four 50-byte elements (minThreshold 128) can lend 40 bytes (one element), not
    60 (two elements would leave 121 bytes) -/
example : TransSl.ArrayDataSlab_CanLendToLeft (envA 256 (fun _ => none)) (trData slDLeaf) (u32 40) = some true ∧
    TransSl.ArrayDataSlab_CanLendToLeft (envA 256 (fun _ => none)) (trData slDLeaf) (u32 60) = some false := by
  decide
example : TransSl.ArrayDataSlab_CanLendToRight (envA 256 (fun _ => none)) (trData slDLeaf) (u32 40) = some true ∧
    TransSl.ArrayDataSlab_CanLendToRight (envA 256 (fun _ => none)) (trData slDLeaf) (u32 60) = some false := by
  decide
/-- a request larger than the slab: Go's first guard `a.header.size-size < minThreshold` wraps around (221 - 300) and
    does not fire, the model's does; both answer false (the loop stops at the second element) -/
example : decide (u32 221 - u32 300 < u32 (minThr 256)) = false ∧
    TransSl.ArrayDataSlab_CanLendToLeft (envA 256 (fun _ => none)) (trData slDLeaf) (u32 300) = some false ∧
    slDLeaf.canLendToLeft 256 300 = false := by decide

/-- `sumSizes s.elems ≤ s.hdr.size` is needed: on a (corrupt) slab whose header says 600 bytes but which holds two
    400-byte elements, Go's `a.header.size - lendSize` wraps around (600 - 800) and the second element looks
    lendable; the model's truncated subtraction says no.  Valid slabs satisfy the hypothesis (`dataInv_fits`). -/
theorem Sl_ArrayDataSlab_CanLendToLeft_differs_at :
    let s : DataSlab := { hdr := ⟨⟨1, 1⟩, 600, 2⟩, next := SlabID.undef, elems := [⟨400, .val 0⟩, ⟨400, .val 1⟩],
                          root := false, inlined := false }
    TransSl.ArrayDataSlab_CanLendToLeft (envA 256 (fun _ => none)) (trData s) (u32 700) = some true ∧
    s.canLendToLeft 256 700 = false := by decide

end decisions

/-! ## C. the generated dynamic dispatchers on a translated slab tree -/

section dispatch
variable (T : Nat) (look : SlabID → Option GSlab)

theorem Sl_disp_Header (d : Nat) (t : ATree d) :
    TransSl.ArraySlab_Header (envA T look) (trTree d t) = trHdr (ATree.hdr d t) := by
  cases d <;> rfl

theorem Sl_disp_SlabID (d : Nat) (t : ATree d) :
    TransSl.ArraySlab_SlabID (envA T look) (trTree d t) = (ATree.hdr d t).id := by
  cases d <;> rfl

theorem Sl_disp_ByteSize (d : Nat) (t : ATree d) :
    TransSl.ArraySlab_ByteSize (envA T look) (trTree d t) = u32 (ATree.hdr d t).size := by
  cases d <;> rfl

theorem Sl_disp_IsData (d : Nat) (t : ATree d) :
    TransSl.ArraySlab_IsData (envA T look) (trTree d t) = decide (d = 0) := by
  cases d <;> rfl

theorem Sl_disp_SetSlabID (d : Nat) (t : ATree d) (id : SlabID) :
    TransSl.ArraySlab_SetSlabID (envA T look) (trTree d t) id = trTree d (ATree.setId d t id) := by
  cases d <;> rfl

theorem Sl_disp_RemoveExtraData (d : Nat) (t : ATree d) :
    TransSl.ArraySlab_RemoveExtraData (envA T look) (trTree d t) =
      (trExtra (ATree.isRoot d t), trTree d (ATree.setRoot d t false)) := by
  cases d <;> rfl

theorem Sl_disp_SetExtraData (d : Nat) (t : ATree d) (b : Bool) :
    TransSl.ArraySlab_SetExtraData (envA T look) (trTree d t) (trExtra b) = trTree d (ATree.setRoot d t b) := by
  cases d <;> rfl

/- The generated file has no dispatcher for `IsFull` / `IsUnderflow` (no translated function calls them through the
   interface); the per-type theorems are in part B. -/

/-- what `CanLendToLeft / CanLendToRight` need of the slab they are asked on: the numbers fit `uint32` and, for a
    leaf, the header size accounts for the elements (so that `a.header.size - lendSize` does not wrap around).
    Every slab of a valid tree satisfies it (`DecOK.of_dataInv`; index slabs: `m.hdr.size < 2^32`). -/
def DecOK (T : Nat) : (d : Nat) → ATree d → Prop
  | 0, (s : DataSlab) => s.hdr.size < 2^32 ∧ minThr T < 2^32 ∧ sumSizes s.elems ≤ s.hdr.size
  | _ + 1, (m : MetaSlab _) => m.hdr.size < 2^32 ∧ minThr T < 2^32

theorem DecOK.of_dataInv {T : Nat} {top : Bool} {s : DataSlab} (hT : legalThreshold T = true)
    (h : DataInv T top s) : DecOK T 0 s :=
  ⟨(dataInv_fits hT h).1, (thresholds_fit hT).2.1, (dataInv_fits hT h).2⟩

theorem DecOK.of_dataWork {T : Nat} {s : DataSlab} (hT : legalThreshold T = true) (h : DataWork T s) :
    DecOK T 0 s := by
  have h1 := dataWork_fits hT h
  exact ⟨by omega, (thresholds_fit hT).2.1, by omega⟩

/-- `ArraySlab.CanLendToLeft(size)` through the interface: never panics, and answers what the model answers.  A leaf
    is right for every `uint32` request; an index slab needs `size + 14 ≤ 2^32` (beyond it Go's
    `arraySlabHeaderSize * n` wraps around, `ArrayMetaDataSlab_CanLendToLeft_differs_at`). -/
theorem Sl_disp_CanLendToLeft (d : Nat) (t : ATree d) (n : Nat) (hok : DecOK T d t) (hn : n < 2^32)
    (hn' : d ≠ 0 → n + Gen.arraySlabHeaderSize ≤ 2^32) :
    TransSl.ArraySlab_CanLendToLeft (envA T look) (trTree d t) (u32 n) = some (ATree.canLendToLeft T d t n) := by
  cases d with
  | zero =>
    obtain ⟨h1, h2, h3⟩ := hok
    show (match TransSl.ArrayDataSlab_CanLendToLeft (envA T look) (trData t) (u32 n) with
      | some r_ => some r_ | none => none) = some (DataSlab.canLendToLeft T t n)
    rw [Sl_ArrayDataSlab_CanLendToLeft T look t n h1 h2 hn h3]
  | succ d =>
    obtain ⟨h1, h2⟩ := hok
    show some (TransSl.ArrayMetaDataSlab_CanLendToLeft (envA T look) (trMeta t) (u32 n)) =
      some (MetaSlab.canLend T t n)
    rw [Sl_ArrayMetaDataSlab_CanLendToLeft T look t n h1 h2 (hn' (by omega))]

theorem Sl_disp_CanLendToRight (d : Nat) (t : ATree d) (n : Nat) (hok : DecOK T d t) (hn : n < 2^32)
    (hn' : d ≠ 0 → n + Gen.arraySlabHeaderSize ≤ 2^32) :
    TransSl.ArraySlab_CanLendToRight (envA T look) (trTree d t) (u32 n) = some (ATree.canLendToRight T d t n) := by
  cases d with
  | zero =>
    obtain ⟨h1, h2, h3⟩ := hok
    show (match TransSl.ArrayDataSlab_CanLendToRight (envA T look) (trData t) (u32 n) with
      | some r_ => some r_ | none => none) = some (DataSlab.canLendToRight T t n)
    rw [Sl_ArrayDataSlab_CanLendToRight T look t n h1 h2 hn h3]
  | succ d =>
    obtain ⟨h1, h2⟩ := hok
    show some (TransSl.ArrayMetaDataSlab_CanLendToRight (envA T look) (trMeta t) (u32 n)) =
      some (MetaSlab.canLend T t n)
    rw [Sl_ArrayMetaDataSlab_CanLendToRight T look t n h1 h2 (hn' (by omega))]

/-- the same with one range hypothesis (what `MergeOrRebalanceChildSlab` has: `n` is an underflow size) -/
theorem Sl_disp_CanLendToLeft' (d : Nat) (t : ATree d) (n : Nat) (hok : DecOK T d t)
    (hn : n + Gen.arraySlabHeaderSize ≤ 2^32) :
    TransSl.ArraySlab_CanLendToLeft (envA T look) (trTree d t) (u32 n) = some (ATree.canLendToLeft T d t n) :=
  Sl_disp_CanLendToLeft T look d t n hok (by simp only [Gen.arraySlabHeaderSize] at hn; omega) (fun _ => hn)

theorem Sl_disp_CanLendToRight' (d : Nat) (t : ATree d) (n : Nat) (hok : DecOK T d t)
    (hn : n + Gen.arraySlabHeaderSize ≤ 2^32) :
    TransSl.ArraySlab_CanLendToRight (envA T look) (trTree d t) (u32 n) = some (ATree.canLendToRight T d t n) :=
  Sl_disp_CanLendToRight T look d t n hok (by simp only [Gen.arraySlabHeaderSize] at hn; omega) (fun _ => hn)

end dispatch

/-! ## D. non-vacuity of the dispatcher theorems: a leaf (`ATree 0`) and an index slab over leaves (`ATree 1`) -/

def slDIndex1 : ATree 1 :=
  ({ hdr := ⟨⟨1, 1⟩, 300, 8⟩, childHdrs := [⟨⟨1, 2⟩, 221, 4⟩, ⟨⟨1, 3⟩, 221, 4⟩], countSum := [4, 8],
     children := [slDLeaf, { slDLeaf with hdr := ⟨⟨1, 3⟩, 221, 4⟩, root := false }], root := false } :
    MetaSlab DataSlab)

theorem slDLeaf_ok : DecOK 256 0 slDLeaf :=
  show (221 : Nat) < 2^32 ∧ minThr 256 < 2^32 ∧ sumSizes slDLeaf.elems ≤ 221 by decide
theorem slDIndex1_ok : DecOK 256 1 slDIndex1 := show (300 : Nat) < 2^32 ∧ minThr 256 < 2^32 by decide

example : TransSl.ArraySlab_Header (envA 256 (fun _ => none)) (trTree 0 slDLeaf) =
    { slabID := ⟨1, 2⟩, size := 221, count := 4 } := rfl
example : TransSl.ArraySlab_Header (envA 256 (fun _ => none)) (trTree 1 slDIndex1) =
    { slabID := ⟨1, 1⟩, size := 300, count := 8 } := rfl
example : TransSl.ArraySlab_IsData (envA 256 (fun _ => none)) (trTree 0 slDLeaf) = true ∧
    TransSl.ArraySlab_IsData (envA 256 (fun _ => none)) (trTree 1 slDIndex1) = false := ⟨rfl, rfl⟩
example : (TransSl.ArraySlab_RemoveExtraData (envA 256 (fun _ => none)) (trTree 0 slDLeaf)).1 = some () ∧
    (TransSl.ArraySlab_RemoveExtraData (envA 256 (fun _ => none)) (trTree 1 slDIndex1)).1 = none := ⟨rfl, rfl⟩
example : TransSl.ArraySlab_SlabID (envA 256 (fun _ => none))
    (TransSl.ArraySlab_SetSlabID (envA 256 (fun _ => none)) (trTree 1 slDIndex1) ⟨7, 9⟩) = ⟨7, 9⟩ := rfl
example : TransSl.ArraySlab_CanLendToLeft (envA 256 (fun _ => none)) (trTree 0 slDLeaf) (u32 40) = some true ∧
    TransSl.ArraySlab_CanLendToRight (envA 256 (fun _ => none)) (trTree 1 slDIndex1) (u32 40) = some true ∧
    TransSl.ArraySlab_CanLendToLeft (envA 256 (fun _ => none)) (trTree 1 slDIndex1) (u32 200) = some false := by
  decide
/-- … and through the theorem: the generated dispatcher on the index slab is the model's `canLendToLeft` -/
example : TransSl.ArraySlab_CanLendToLeft (envA 256 (fun _ => none)) (trTree 1 slDIndex1) (u32 40) =
    some (ATree.canLendToLeft 256 1 slDIndex1 40) :=
  Sl_disp_CanLendToLeft' 256 _ 1 slDIndex1 40 slDIndex1_ok (by decide)

end Atree.TransEq
