import AtreeProofs.WorldInv
import AtreeProofs.WorldLemmas
/-
  C10 — Mutating a nested container through its handle updates and persists the parent.
  PROPERTY THEOREMS about the World model (value-level, one current handle per container:
  hypothesis HandlesCurrent of DESIGN.md; the excluded dual-handle histories are finding F2).
-/
namespace Atree.C10
open Atree Gen World

/-- The four-way switch of `Array.Storable` / `OrderedMap.Storable`: after it, the child is stored
    inline EXACTLY when it is a single root data slab whose inlined size fits the budget left
    after the wrappers; the element handed to the parent has the matching size; the child keeps
    its value ID; no other container changes. -/
theorem storable_inline_decision (w : World) (x : SlabID) (wrap lim : Nat) (cx : Ctx) (c : Cont)
    (hc : w.cont? x = some c) (hid : c.vid = x)
    (e : Elem) (w' : World) (cx' : Ctx) (h : w.childStorable x wrap lim cx = .ok (e, w', cx')) :
    ∃ c', w'.cont? x = some c' ∧ c'.vid = x ∧
      c'.isInlined = c.inlinable (lim - 2 * wrap) ∧
      e.pay = .ref x ∧ e.size = World.slotSize c' wrap ∧
      c'.storedElems = c.storedElems ∧
      (∀ y, y ≠ x → w'.cont? y = w.cont? y) ∧
      w'.hinfo = w.hinfo ∧ w'.mutIdx = w.mutIdx ∧
      -- storage effect: removed when it becomes inline, stored when it stops being inline
      cx'.eff = cx.eff ++ (if c'.isInlined = c.isInlined then [] else if c'.isInlined then [.remove x] else [.store x]) := by
  sorry

/-- The notification reaches the parent: if the child's recorded slot in an ARRAY parent still
    holds the child, then after `notifyParentIfNeeded` the parent's element at that slot refers to
    the child with the size of the child's current form, and the child is inline exactly when it
    fits the slot's budget. -/
theorem notify_updates_array_parent (fuel : Nat) (w : World) (x p : SlabID) (hi : HInfo) (cx : Ctx)
    (c : Cont) (pa : Arr) (idx : Nat) (el : Elem)
    (hh : AList.find? w.hinfo x = some hi) (hp : hi.parent = p) (hc : w.cont? x = some c) (hid : c.vid = x)
    (hpa : w.cont? p = some (.arr pa)) (hidx : AList.find? (w.idxOf p) x = some idx)
    (hget : pa.get idx = .ok el) (hel : el.pay = .ref x)
    (w' : World) (cx' : Ctx) (h : notifyParent (fuel + 1) w x cx = .ok (w', cx')) :
    ∃ c' pa', w'.cont? x = some c' ∧ w'.cont? p = some (.arr pa') ∧
      (c.isInlined = false ∧ c.inlinable hi.maxInline = false → w' = w ∧ cx' = cx) ∧
      (¬ (c.isInlined = false ∧ c.inlinable hi.maxInline = false) →
         c'.isInlined = c.inlinable hi.maxInline ∧
         ∃ el', pa'.get idx = .ok el' ∧ el'.pay = .ref x ∧ el'.size = World.slotSize c' hi.wrap) := by
  sorry

/-- A container handed back by `Set` / `Remove` is no longer inline: it has been stored as a
    standalone slab under its unchanged value ID, and what the caller gets is a reference to it. -/
theorem handed_back_is_standalone (w : World) (e : Elem) (cx : Ctx) (x : SlabID) (c : Cont)
    (he : e.pay = .ref x) (hc : w.cont? x = some c) (hid : c.vid = x)
    (e' : Elem) (ov : Option SlabID) (w' : World) (cx' : Ctx)
    (h : w.uninlineIfNeeded e cx = .ok (e', ov, w', cx')) :
    ov = some x ∧ e'.pay = .ref x ∧
    ∃ c', w'.cont? x = some c' ∧ c'.isInlined = false ∧ c'.vid = x ∧ c'.storedElems = c.storedElems ∧
      (c.isInlined = true → cx'.eff = cx.eff ++ [.store x] ∧ e'.size = slabIDStorableSize + (e.size - c.rootSize)) ∧
      (c.isInlined = false → cx' = cx ∧ e' = e ∧ w' = w) := by
  sorry

/-- `incrementIndexFrom` / `decrementIndexFrom` range over a Go map in random order: the result
    does not depend on the order (C04). -/
theorem index_shift_order_independent (w : World) (p : SlabID) (f : Nat → Nat)
    (perm : AList SlabID Nat) (hperm : perm.Perm (w.idxOf p)) (x : SlabID)
    (hnd : (AList.keys (w.idxOf p)).Nodup) :
    AList.find? (perm.map (fun e => (e.1, f e.2))) x = AList.find? ((w.shiftIdx p f).idxOf p) x := by
  sorry

/-- Value identifiers never change: every World operation keeps every container filed under its
    value ID (inline ↔ standalone transitions included). -/
theorem value_id_stable_arrInsert (w : World) (hids : IdsOk w) (p : SlabID) (i : Nat) (v : WVal) (cx : Ctx)
    (w' : World) (cx' : Ctx) (h : w.arrInsert p i v cx = .ok (w', cx'))
    (hroot : ∀ (a a' : Arr) (c c' : Ctx) (j : Nat) (e : Elem), a.insert w.T j e c = .ok (a', c') → a'.rootID = a.rootID)
    (hroot2 : ∀ (a a' : Arr) (c c' : Ctx) (j : Nat) (e old : Elem), a.set w.T j e c = .ok (old, a', c') → a'.rootID = a.rootID)
    (hroot3 : ∀ (m m' : OMap 3) (c c' : Ctx) (k : MKey) (e : Elem) (old : Option Elem), m.set w.mcfg k e c = .ok (old, m', c') → m'.rootID = m.rootID) :
    IdsOk w' ∧ ∀ vid, (w.cont? vid).isSome → (w'.cont? vid).isSome := by
  sorry

end Atree.C10
