import AtreeProofs.WorldInv
import AtreeProofs.WorldLemmas
/-
  C10 — Mutating a nested container through its handle updates and persists the parent.
  PROPERTY THEOREMS about the World model (value-level, one current handle per container:
  hypothesis HandlesCurrent of DESIGN.md; the excluded dual-handle histories are finding F2).
-/
namespace Atree.C10
open Atree Gen World

/-- The four-way switch of `Array.Storable` / `OrderedMap.Storable`: after it, the child is stored
    inline EXACTLY when it is a single root data slab whose inlined size fits the budget left
    after the wrappers; the element handed to the parent has the matching size; the child keeps
    its value ID; no other container changes. -/
theorem storable_inline_decision (w : World) (x : SlabID) (wrap lim : Nat) (cx : Ctx) (c : Cont)
    (hc : w.cont? x = some c) (hid : c.vid = x)
    (e : Elem) (w' : World) (cx' : Ctx) (h : w.childStorable x wrap lim cx = .ok (e, w', cx')) :
    ∃ c', w'.cont? x = some c' ∧ c'.vid = x ∧
      c'.isInlined = c.inlinable (lim - 2 * wrap) ∧
      e.pay = .ref x ∧ e.size = World.slotSize c' wrap ∧
      c'.storedElems = c.storedElems ∧
      (∀ y, y ≠ x → w'.cont? y = w.cont? y) ∧
      w'.hinfo = w.hinfo ∧ w'.mutIdx = w.mutIdx ∧
      -- storage effect: removed when it becomes inline, stored when it stops being inline
      cx'.eff = cx.eff ++ (if c'.isInlined = c.isInlined then [] else if c'.isInlined then [.remove x] else [.store x]) := by
  obtain ⟨c', hs, hinl, he, hcase⟩ := childStorable_ok hc h
  refine ⟨c', ?_, hs.vid.trans hid, hinl, by rw [he], by rw [he], hs.storedElems, ?_⟩
  · rcases hcase with ⟨_, h2, h3, _⟩ | ⟨_, h3, _⟩
    · rw [h3, h2]; exact hc
    · rw [h3]; simp
  · rcases hcase with ⟨h1, _, h3, h4⟩ | ⟨h1, h3, h4⟩
    · subst h3; subst h4
      exact ⟨fun _ _ => rfl, rfl, rfl, by simp [h1]⟩
    · subst h3; subst h4
      refine ⟨fun y hy => cont?_setCont_ne _ _ _ _ hy, rfl, rfl, ?_⟩
      rw [if_neg h1]
      cases c'.isInlined <;> simp [Ctx.emit]

/-- The notification reaches the parent: if the child's recorded slot in an ARRAY parent still
    holds the child, then after `notifyParentIfNeeded` the parent's element at that slot refers to
    the child with the size of the child's current form, and the child is inline exactly when it
    fits the slot's budget.

    REPAIRED STATEMENT (the original is false, see `section Counterexamples` below):
    * `hmax` (new): the budget recorded in the callback is the one `Array.set` recomputes
      (`setCallbackWithChild` always records exactly that; `notifyParent` tests the recorded one,
      `Array.set` the recomputed one);
    * `rank`, `hacyc` (new): the parent pointers are acyclic.  The recursive notification of the
      parent's own ancestors may inline / un-inline the PARENT (its root size changes, its
      elements do not: hence the conclusion is about `pa'.get idx`), but with a cycle it would come
      back to `x` itself;
    * `hset` (new, a fact about `Arr.set` / `Arr.get` taken as hypothesis): setting slot `idx` of
      the parent array to a reference and reading it back gives that reference.  (`C01.set_refines`
      cannot be used: it is stated for plain values (`ValueOk`) and standalone arrays only.)
    * conclusion strengthened by `c'.vid = x ∧ c'.storedElems = c.storedElems`.

    SUPERSEDED (audit a5, S7) by `C10W.notify_updates_parent` (array AND map parents, from the world
    invariant only: no `hset`, no `hacyc` — which is NOT an invariant, `C10W.closure_pointers_may_cycle`)
    and, at operation / history level, by `C10W.worldOk'_*_all` and `C10Hist.history_read_through`.
    Kept as a one-step reading of the callback. -/
theorem notify_updates_array_parent (fuel : Nat) (w : World) (x p : SlabID) (hi : HInfo) (cx : Ctx)
    (c : Cont) (pa : Arr) (idx : Nat) (el : Elem)
    (hh : AList.find? w.hinfo x = some hi) (hp : hi.parent = p) (hc : w.cont? x = some c) (hid : c.vid = x)
    (hpa : w.cont? p = some (.arr pa)) (hidx : AList.find? (w.idxOf p) x = some idx)
    (hget : pa.get idx = .ok el) (hel : el.pay = .ref x)
    -- REPAIR 1: the budget captured by the callback is the one `Array.set` recomputes
    (hmax : hi.maxInline = maxInlineArr w.T - 2 * hi.wrap)
    -- REPAIR 2: the parent pointers are acyclic (they strictly decrease some rank)
    (rank : SlabID → Nat)
    (hacyc : ∀ y h, AList.find? w.hinfo y = some h → rank h.parent < rank y)
    -- fact about `Arr.set` / `Arr.get` on the parent (list-level refinement of `set`, for a reference)
    (hset : ∀ (e : Elem) (c0 : Ctx) (old : Elem) (a' : Arr) (c1 : Ctx), e.pay = .ref x →
        pa.set w.T idx e c0 = .ok (old, a', c1) → a'.get idx = .ok e)
    (w' : World) (cx' : Ctx) (h : notifyParent (fuel + 1) w x cx = .ok (w', cx')) :
    ∃ c' pa', w'.cont? x = some c' ∧ w'.cont? p = some (.arr pa') ∧
      c'.vid = x ∧ c'.storedElems = c.storedElems ∧
      (c.isInlined = false ∧ c.inlinable hi.maxInline = false → w' = w ∧ cx' = cx) ∧
      (¬ (c.isInlined = false ∧ c.inlinable hi.maxInline = false) →
         c'.isInlined = c.inlinable hi.maxInline ∧
         ∃ el', pa'.get idx = .ok el' ∧ el'.pay = .ref x ∧ el'.size = World.slotSize c' hi.wrap) := by
  subst hp
  have hrk : rank hi.parent < rank x := hacyc x hi hh
  have hxp : x ≠ hi.parent := by intro he; rw [← he] at hrk; omega
  rw [notifyParent] at h
  simp only [hh, hc] at h
  split at h
  · rename_i hstay
    cases h
    refine ⟨c, pa, hc, hpa, hid, rfl, fun _ => ⟨rfl, rfl⟩, fun hn => absurd ?_ hn⟩
    simpa using hstay
  · rename_i hstay
    have hnst : ¬ (c.isInlined = false ∧ c.inlinable hi.maxInline = false) := by simpa using hstay
    simp only [hpa, hidx, hget, hel, ne_eq, not_true_eq_false, if_false] at h
    split at h
    · cases h
    · rename_i old w2 cx2 hsr
      split at h
      · cases h
      · cases h
        rw [arrSetRaw] at hsr
        simp only [hpa] at hsr
        split at hsr
        · cases hsr
        · simp only [World.storableOf] at hsr
          split at hsr
          · cases hsr
          · rename_i e w1 cx1 hst
            split at hsr
            · cases hsr
            · rename_i old1 a' cx3 hs
              split at hsr
              · cases hsr
              · rename_i w3 cx4 hnp
                cases hsr
                obtain ⟨c1, hsd, hinl, he, hcase⟩ := childStorable_ok hc hst
                obtain ⟨f1, _, fT, _, _, _, _⟩ := childStorable_frame hst
                have hc1 : w1.cont? x = some c1 := by
                  rcases hcase with ⟨_, h2, h3, _⟩ | ⟨_, h3, _⟩
                  · rw [h3, h2]; exact hc
                  · rw [h3]; simp
                rw [fT] at hs
                have hg : a'.get idx = .ok e := hset e cx1 old a' cx3 (by rw [he]) hs
                have hr2 : RankOk rank (w1.setCont hi.parent (.arr a')) := by
                  intro y h' hy
                  simp only [hinfo_setCont, f1] at hy
                  exact hacyc y h' hy
                obtain ⟨_, g2, g3⟩ := (mutual_frame rank fuel).1 _ _ _ _ _ hr2 hnp
                rw [cont?_setCont_self] at g3
                obtain ⟨cp', hcp', hsp⟩ := g3.get_some
                obtain ⟨pa', rfl, _, _, hgets⟩ := hsp.arr
                refine ⟨c1, pa', ?_, ?_, hsd.vid.trans hid, hsd.storedElems, fun hs => absurd hs hnst, fun _ => ⟨?_, e, ?_, by rw [he], by rw [he]⟩⟩
                · rw [cont?_setCallbackArr, g2 x hxp (by omega), cont?_setCont_ne _ _ _ _ hxp]; exact hc1
                · rw [cont?_setCallbackArr]; exact hcp'
                · rw [hinl, hmax]
                · rw [hgets]; exact hg

/-- A container handed back by `Set` / `Remove` is no longer inline: it has been stored as a
    standalone slab under its unchanged value ID, and what the caller gets is a reference to it. -/
theorem handed_back_is_standalone (w : World) (e : Elem) (cx : Ctx) (x : SlabID) (c : Cont)
    (he : e.pay = .ref x) (hc : w.cont? x = some c) (hid : c.vid = x)
    (e' : Elem) (ov : Option SlabID) (w' : World) (cx' : Ctx)
    (h : w.uninlineIfNeeded e cx = .ok (e', ov, w', cx')) :
    ov = some x ∧ e'.pay = .ref x ∧
    ∃ c', w'.cont? x = some c' ∧ c'.isInlined = false ∧ c'.vid = x ∧ c'.storedElems = c.storedElems ∧
      (c.isInlined = true → cx'.eff = cx.eff ++ [.store x] ∧ e'.size = slabIDStorableSize + (e.size - c.rootSize)) ∧
      (c.isInlined = false → cx' = cx ∧ e' = e ∧ w' = w) := by
  obtain ⟨hpay, _, _, _, _, hcase⟩ := uninlineIfNeeded_ok h
  rcases hcase with ⟨_, _, _, _, hnone⟩ | ⟨x', c0, hov, hp', hc0, hcase2⟩
  · rw [hnone x he] at hc; cases hc
  · rw [he] at hp'; cases hp'
    rw [hc] at hc0; cases hc0
    refine ⟨hov, by rw [hpay, he], ?_⟩
    rcases hcase2 with ⟨hi, h2, h3, h4⟩ | ⟨hi, c', hs, hi', h3, h4, h5⟩
    · subst h2; subst h3; subst h4
      refine ⟨c, hc, hi, hid, rfl, ?_, fun _ => ⟨rfl, rfl, rfl⟩⟩
      intro ht; rw [hi] at ht; cases ht
    · subst h3; subst h4; subst h5
      refine ⟨c', by simp, hi', hs.vid.trans hid, hs.storedElems, fun _ => ⟨rfl, rfl⟩, ?_⟩
      intro hf; rw [hi] at hf; cases hf

/-- `incrementIndexFrom` / `decrementIndexFrom` range over a Go map in random order: the result
    does not depend on the order (C04).
    SUPERSEDED (audit a5, S6 / S7) by `C10Idx.index_shift_order_independent'`, whose `Nodup`
    hypothesis is the invariant `World.IdxNodup` (preserved by every operation, unconditionally). -/
theorem index_shift_order_independent (w : World) (p : SlabID) (f : Nat → Nat)
    (perm : AList SlabID Nat) (hperm : perm.Perm (w.idxOf p)) (x : SlabID)
    (hnd : (AList.keys (w.idxOf p)).Nodup) :
    AList.find? (perm.map (fun e => (e.1, f e.2))) x = AList.find? ((w.shiftIdx p f).idxOf p) x := by
  rw [idxOf_shiftIdx, if_pos rfl]
  apply AList.find?_perm (hperm.map _)
  have : AList.keys ((w.idxOf p).map (fun e => (e.1, f e.2))) = AList.keys (w.idxOf p) :=
    AList.keys_map_snd (w.idxOf p) (fun _ v => f v)
  rw [this]; exact hnd

/-- Value identifiers never change: every World operation keeps every container filed under its
    value ID (inline ↔ standalone transitions included).  The `hroot…` hypotheses abstract "array /
    map operations keep the root ID"; they are satisfiable: see `section RootStability`. -/
theorem value_id_stable_arrInsert (w : World) (hids : IdsOk w) (p : SlabID) (i : Nat) (v : WVal) (cx : Ctx)
    (w' : World) (cx' : Ctx) (h : w.arrInsert p i v cx = .ok (w', cx'))
    (hroot : ∀ (a a' : Arr) (c c' : Ctx) (j : Nat) (e : Elem), a.insert w.T j e c = .ok (a', c') → a'.rootID = a.rootID)
    (hroot2 : ∀ (a a' : Arr) (c c' : Ctx) (j : Nat) (e old : Elem), a.set w.T j e c = .ok (old, a', c') → a'.rootID = a.rootID)
    (hroot3 : ∀ (m m' : OMap 3) (c c' : Ctx) (k : MKey) (e : Elem) (old : Option Elem), m.set w.mcfg k e c = .ok (old, m', c') → m'.rootID = m.rootID) :
    IdsOk w' ∧ ∀ vid, (w.cont? vid).isSome → (w'.cont? vid).isSome := by
  have d := arrInsert_domRel h
  exact ⟨d.idsOk ⟨⟨hroot2, hroot3⟩, hroot⟩ hids, fun vid hv => d.keeps_isSome hv⟩

/-- the same for `Array.Set` -/
theorem value_id_stable_arrSet (w : World) (hids : IdsOk w) (p : SlabID) (i : Nat) (v : WVal) (cx : Ctx)
    (old : Elem) (w' : World) (cx' : Ctx) (h : w.arrSet p i v cx = .ok (old, w', cx'))
    (hroot2 : ∀ (a a' : Arr) (c c' : Ctx) (j : Nat) (e old : Elem), a.set w.T j e c = .ok (old, a', c') → a'.rootID = a.rootID)
    (hroot3 : ∀ (m m' : OMap 3) (c c' : Ctx) (k : MKey) (e : Elem) (old : Option Elem), m.set w.mcfg k e c = .ok (old, m', c') → m'.rootID = m.rootID) :
    IdsOk w' ∧ ∀ vid, (w.cont? vid).isSome → (w'.cont? vid).isSome := by
  have d := arrSet_domRel h
  exact ⟨d.idsOk ⟨hroot2, hroot3⟩ hids, fun vid hv => d.keeps_isSome hv⟩

/-- the same for `Array.Remove` (`hroot4`: `Arr.remove` keeps the root ID) -/
theorem value_id_stable_arrRemove (w : World) (hids : IdsOk w) (p : SlabID) (i : Nat) (cx : Ctx)
    (old : Elem) (w' : World) (cx' : Ctx) (h : w.arrRemove p i cx = .ok (old, w', cx'))
    (hroot4 : ∀ (a a' : Arr) (c c' : Ctx) (j : Nat) (old : Elem), a.remove w.T j c = .ok (old, a', c') → a'.rootID = a.rootID)
    (hroot2 : ∀ (a a' : Arr) (c c' : Ctx) (j : Nat) (e old : Elem), a.set w.T j e c = .ok (old, a', c') → a'.rootID = a.rootID)
    (hroot3 : ∀ (m m' : OMap 3) (c c' : Ctx) (k : MKey) (e : Elem) (old : Option Elem), m.set w.mcfg k e c = .ok (old, m', c') → m'.rootID = m.rootID) :
    IdsOk w' ∧ ∀ vid, (w.cont? vid).isSome → (w'.cont? vid).isSome := by
  have d := arrRemove_domRel h
  exact ⟨d.idsOk ⟨⟨hroot2, hroot3⟩, hroot4⟩ hids, fun vid hv => d.keeps_isSome hv⟩

/-- the same for `OrderedMap.Set` -/
theorem value_id_stable_mapSet (w : World) (hids : IdsOk w) (p : SlabID) (k : MKey) (v : WVal) (cx : Ctx)
    (old : Option Elem) (w' : World) (cx' : Ctx) (h : w.mapSet p k v cx = .ok (old, w', cx'))
    (hroot2 : ∀ (a a' : Arr) (c c' : Ctx) (j : Nat) (e old : Elem), a.set w.T j e c = .ok (old, a', c') → a'.rootID = a.rootID)
    (hroot3 : ∀ (m m' : OMap 3) (c c' : Ctx) (k : MKey) (e : Elem) (old : Option Elem), m.set w.mcfg k e c = .ok (old, m', c') → m'.rootID = m.rootID) :
    IdsOk w' ∧ ∀ vid, (w.cont? vid).isSome → (w'.cont? vid).isSome := by
  have d := mapSet_domRel h
  exact ⟨d.idsOk ⟨hroot2, hroot3⟩ hids, fun vid hv => d.keeps_isSome hv⟩

/-- the same for `OrderedMap.Remove` (`hroot5`: `OMap.remove` keeps the root ID) -/
theorem value_id_stable_mapRemove (w : World) (hids : IdsOk w) (p : SlabID) (k : MKey) (cx : Ctx)
    (rk : MKey) (rv : Elem) (w' : World) (cx' : Ctx) (h : w.mapRemove p k cx = .ok (rk, rv, w', cx'))
    (hroot5 : ∀ (m m' : OMap 3) (c c' : Ctx) (k rk : MKey) (rv : Elem), m.remove w.mcfg k c = .ok (rk, rv, m', c') → m'.rootID = m.rootID)
    (hroot2 : ∀ (a a' : Arr) (c c' : Ctx) (j : Nat) (e old : Elem), a.set w.T j e c = .ok (old, a', c') → a'.rootID = a.rootID)
    (hroot3 : ∀ (m m' : OMap 3) (c c' : Ctx) (k : MKey) (e : Elem) (old : Option Elem), m.set w.mcfg k e c = .ok (old, m', c') → m'.rootID = m.rootID) :
    IdsOk w' ∧ ∀ vid, (w.cont? vid).isSome → (w'.cont? vid).isSome := by
  have d := mapRemove_domRel h
  exact ⟨d.idsOk ⟨⟨hroot2, hroot3⟩, hroot5⟩ hids, fun vid hv => d.keeps_isSome hv⟩

section RootStability
/-! The `hroot…` hypotheses hold for EVERY array / map (every slab update keeps the header ID;
    `AtreeProofs/World/RootStable.lean`), so the five theorems above hold unconditionally. -/

theorem value_id_stable (w : World) (hids : IdsOk w) :
    (∀ p i v cx w' cx', w.arrInsert p i v cx = .ok (w', cx') →
        IdsOk w' ∧ ∀ vid, (w.cont? vid).isSome → (w'.cont? vid).isSome) ∧
    (∀ p i v cx old w' cx', w.arrSet p i v cx = .ok (old, w', cx') →
        IdsOk w' ∧ ∀ vid, (w.cont? vid).isSome → (w'.cont? vid).isSome) ∧
    (∀ p i cx old w' cx', w.arrRemove p i cx = .ok (old, w', cx') →
        IdsOk w' ∧ ∀ vid, (w.cont? vid).isSome → (w'.cont? vid).isSome) ∧
    (∀ p k v cx old w' cx', w.mapSet p k v cx = .ok (old, w', cx') →
        IdsOk w' ∧ ∀ vid, (w.cont? vid).isSome → (w'.cont? vid).isSome) ∧
    (∀ p k cx rk rv w' cx', w.mapRemove p k cx = .ok (rk, rv, w', cx') →
        IdsOk w' ∧ ∀ vid, (w.cont? vid).isSome → (w'.cont? vid).isSome) := by
  have h2 := (rootStable w.T w.mcfg).1
  have h3 := (rootStable w.T w.mcfg).2
  refine ⟨?_, ?_, ?_, ?_, ?_⟩
  · intro p i v cx w' cx' h
    exact value_id_stable_arrInsert w hids p i v cx w' cx' h (insertRootStable w.T) h2 h3
  · intro p i v cx old w' cx' h
    exact value_id_stable_arrSet w hids p i v cx old w' cx' h h2 h3
  · intro p i cx old w' cx' h
    exact value_id_stable_arrRemove w hids p i cx old w' cx' h (removeRootStable w.T) h2 h3
  · intro p k v cx old w' cx' h
    exact value_id_stable_mapSet w hids p k v cx old w' cx' h h2 h3
  · intro p k cx rk rv w' cx' h
    exact value_id_stable_mapRemove w hids p k cx rk rv w' cx' h (mapRemoveRootStable w.mcfg) h2 h3

end RootStability

/-- After `childStorable`, the element handed to the parent satisfies the `ElemSync` size equation
    for the NEW state of the child. -/
theorem elem_sync_childStorable (w : World) (x : SlabID) (wrap lim : Nat) (cx : Ctx)
    (e : Elem) (w' : World) (cx' : Ctx) (h : w.childStorable x wrap lim cx = .ok (e, w', cx')) :
    e.pay = .ref x ∧ ∃ c', w'.cont? x = some c' ∧ e.size = World.slotSize c' wrap := by
  obtain ⟨c, hc⟩ := childStorable_some h
  obtain ⟨c', _, _, he, hcase⟩ := childStorable_ok hc h
  refine ⟨by rw [he], c', ?_, by rw [he]⟩
  rcases hcase with ⟨_, h2, h3, _⟩ | ⟨_, h3, _⟩
  · rw [h3, h2]; exact hc
  · rw [h3]; simp

/-- `mutableElementIndex` stays correct through `Array.Insert`: every recorded index still holds a
    reference to its child afterwards (shifted entries, the new child's entry, and the slots that
    the notification of the ancestors rewrites).
    The list-level behaviour of the array operations is taken as hypotheses, in the style of
    `hroot…`, relative to an arbitrary invariant `I` of arrays (`I := fun _ => True` gives the
    unconditional reading): `set` of a reference / `insert` refine `List.set` / `List.insertIdx`
    and keep `I`; `get` reads the list; `I` does not depend on the inline / standalone form.
    (`C01.set_refines` / `insert_refines` are the instances for plain values and standalone arrays;
    they do not cover references nor inlined roots, hence hypotheses.)
    SUPERSEDED (audit a5, S7) by `C10W.mutIdx_ok_arrInsert` / `C10W.worldOk'_mutIdxOk` (no hypothesis
    about the array operations: `MutIdxOk` is a clause of the invariant of every operation). -/
theorem mutIdx_ok_arrInsert (w : World) (p : SlabID) (i : Nat) (v : WVal) (cx : Ctx)
    (w' : World) (cx' : Ctx) (h : w.arrInsert p i v cx = .ok (w', cx'))
    (hmi : MutIdxOk w)
    (I : Arr → Prop) (hI : ∀ q a, w.cont? q = some (.arr a) → I a)
    (hsetL : ∀ (a a' : Arr) (c c' : Ctx) (j : Nat) (e old : Elem), I a → a.set w.T j e c = .ok (old, a', c') →
      (∃ r, e.pay = .ref r) → I a' ∧ a'.toList = a.toList.set j e)
    (hinsL : ∀ (a a' : Arr) (c c' : Ctx) (j : Nat) (e : Elem), I a → a.insert w.T j e c = .ok (a', c') →
      I a' ∧ j ≤ a.toList.length ∧ ∃ e', a'.toList = a.toList.insertIdx j e' ∧ (∀ r, e.pay = .ref r → e' = e))
    (hgetL : ∀ (a : Arr) (j : Nat) (el : Elem), I a → a.get j = .ok el → a.toList[j]? = some el)
    (hform : ∀ (a a' : Arr), a'.toList = a.toList → a'.rootID = a.rootID → (∀ i, a'.get i = a.get i) → I a → I a') :
    MutIdxOk w' ∧ ∀ q a, w'.cont? q = some (.arr a) → I a := by
  have F : ArrFacts w.T I := ⟨hsetL, hinsL, hgetL, hform⟩
  have := arrInsert_mInv F rfl ⟨hI, hmi⟩ h
  exact ⟨this.2, this.1⟩

section Counterexamples
/-! The original statement of `notify_updates_array_parent` had neither `hmax` nor the acyclicity
    hypothesis.  Both are needed: each of the two statements below — the repaired theorem minus ONE
    of the two repairs — is refuted on a concrete (hand-built) World. -/
open Atree.Scenario (okW eq_okW)

def P : SlabID := ⟨1, 1⟩
def X : SlabID := ⟨1, 2⟩
/-- a single-slab array with the given elements -/
def mkArr (sid : SlabID) (inl : Bool) (es : List Elem) : Arr :=
  let h : Hdr := ⟨sid, (if inl then 17 else 5) + sumSizes es, es.length⟩
  let s : DataSlab := ⟨h, SlabID.undef, es, true, inl⟩
  ⟨0, s, 0⟩
def cxA : Ctx := { ctr := 2, eff := [] }

/-- CE 1: an inlined 27-byte child `X` in slot 0 of `P`, whose callback recorded the budget 0
    although `Array.set` recomputes 117. -/
def wA : World :=
  { T := 256, addr := 1,
    conts := [(P, .arr (mkArr P false [⟨27, .ref X⟩])), (X, .arr (mkArr X true [⟨10, .val 0⟩]))],
    hinfo := [(X, ⟨P, none, 0, 0⟩)],
    mutIdx := [(P, [(X, 0)])] }
def rA : World × Ctx := okW (notifyS 3 wA X cxA)
/-- `wA` is acyclic: `P` is the root -/
def rankA : SlabID → Nat := fun z => if z = X then 1 else 0

/-- the repaired statement without `hmax` -/
def StmtWithoutBudgetHyp : Prop :=
  ∀ (fuel : Nat) (w : World) (x p : SlabID) (hi : HInfo) (cx : Ctx)
    (c : Cont) (pa : Arr) (idx : Nat) (el : Elem),
    AList.find? w.hinfo x = some hi → hi.parent = p → w.cont? x = some c → c.vid = x →
    w.cont? p = some (.arr pa) → AList.find? (w.idxOf p) x = some idx →
    pa.get idx = .ok el → el.pay = .ref x →
    ∀ (rank : SlabID → Nat), (∀ y h, AList.find? w.hinfo y = some h → rank h.parent < rank y) →
    (∀ (e : Elem) (c0 : Ctx) (old : Elem) (a' : Arr) (c1 : Ctx), e.pay = .ref x →
        pa.set w.T idx e c0 = .ok (old, a', c1) → a'.get idx = .ok e) →
    ∀ (w' : World) (cx' : Ctx), notifyParent (fuel + 1) w x cx = .ok (w', cx') →
    ∃ c' pa', w'.cont? x = some c' ∧ w'.cont? p = some (.arr pa') ∧
      (c.isInlined = false ∧ c.inlinable hi.maxInline = false → w' = w ∧ cx' = cx) ∧
      (¬ (c.isInlined = false ∧ c.inlinable hi.maxInline = false) →
         c'.isInlined = c.inlinable hi.maxInline ∧
         ∃ el', pa'.get idx = .ok el' ∧ el'.pay = .ref x ∧ el'.size = World.slotSize c' hi.wrap)

theorem stmtWithoutBudgetHyp_false : ¬ StmtWithoutBudgetHyp := by
  intro H
  have hr : notifyParent (2 + 1) wA X cxA = .ok (rA.1, rA.2) := by
    rw [notifyParent_eq_notifyS]; exact eq_okW _ (by decide)
  have hacyc : ∀ y h, AList.find? wA.hinfo y = some h → rankA h.parent < rankA y := by
    intro y h hy
    simp only [wA, AList.find?] at hy
    split at hy
    · rename_i hxy; cases hy; subst hxy; decide
    · cases hy
  obtain ⟨c', pa', hc', _, _, h2⟩ := H 2 wA X P ⟨P, none, 0, 0⟩ cxA (.arr (mkArr X true [⟨10, .val 0⟩]))
    (mkArr P false [⟨27, .ref X⟩]) 0 ⟨27, .ref X⟩ rfl rfl rfl rfl rfl rfl rfl rfl rankA hacyc
    (fun e c0 old a' c1 he hs => Arr.set_get_single 256 0 _ _ rfl e X he c0 old a' c1 hs) _ _ hr
  have h3 := (h2 (by decide)).1
  have h4 : (rA.1.cont? X).map Cont.isInlined = some true := by decide
  rw [hc'] at h4
  simp only [Option.map_some, Option.some.injEq] at h4
  rw [h4] at h3
  revert h3; decide

/-- CE 2: `X` is recorded in slot 0 of `P` and `P` in slot 0 of `X` (a cycle of parent pointers).
    The notification from `X` inlines `X` into `P`, `P` into `X`, which makes `X` too large: it is
    un-inlined again and ends up standalone although it was inlinable. -/
def wB : World :=
  { T := 256, addr := 1,
    conts := [(P, .arr (mkArr P false [⟨19, .ref X⟩])),
              (X, .arr (mkArr X false [⟨1, .ref P⟩, ⟨70, .val 0⟩]))],
    hinfo := [(X, ⟨P, none, 117, 0⟩), (P, ⟨X, none, 117, 0⟩)],
    mutIdx := [(P, [(X, 0)]), (X, [(P, 0)])] }
def rB : World × Ctx := okW (notifyS 7 wB X cxA)

/-- the repaired statement without the acyclicity hypothesis -/
def StmtWithoutAcyclicity : Prop :=
  ∀ (fuel : Nat) (w : World) (x p : SlabID) (hi : HInfo) (cx : Ctx)
    (c : Cont) (pa : Arr) (idx : Nat) (el : Elem),
    AList.find? w.hinfo x = some hi → hi.parent = p → w.cont? x = some c → c.vid = x →
    w.cont? p = some (.arr pa) → AList.find? (w.idxOf p) x = some idx →
    pa.get idx = .ok el → el.pay = .ref x →
    hi.maxInline = maxInlineArr w.T - 2 * hi.wrap →
    (∀ (e : Elem) (c0 : Ctx) (old : Elem) (a' : Arr) (c1 : Ctx), e.pay = .ref x →
        pa.set w.T idx e c0 = .ok (old, a', c1) → a'.get idx = .ok e) →
    ∀ (w' : World) (cx' : Ctx), notifyParent (fuel + 1) w x cx = .ok (w', cx') →
    ∃ c' pa', w'.cont? x = some c' ∧ w'.cont? p = some (.arr pa') ∧
      (c.isInlined = false ∧ c.inlinable hi.maxInline = false → w' = w ∧ cx' = cx) ∧
      (¬ (c.isInlined = false ∧ c.inlinable hi.maxInline = false) →
         c'.isInlined = c.inlinable hi.maxInline ∧
         ∃ el', pa'.get idx = .ok el' ∧ el'.pay = .ref x ∧ el'.size = World.slotSize c' hi.wrap)

theorem stmtWithoutAcyclicity_false : ¬ StmtWithoutAcyclicity := by
  intro H
  have hr : notifyParent (6 + 1) wB X cxA = .ok (rB.1, rB.2) := by
    rw [notifyParent_eq_notifyS]; exact eq_okW _ (by decide)
  obtain ⟨c', pa', hc', _, _, h2⟩ := H 6 wB X P ⟨P, none, 117, 0⟩ cxA
    (.arr (mkArr X false [⟨1, .ref P⟩, ⟨70, .val 0⟩]))
    (mkArr P false [⟨19, .ref X⟩]) 0 ⟨19, .ref X⟩ rfl rfl rfl rfl rfl rfl rfl rfl (by decide)
    (fun e c0 old a' c1 he hs => Arr.set_get_single 256 0 _ _ rfl e X he c0 old a' c1 hs) _ _ hr
  have h3 := (h2 (by decide)).1
  have h4 : (rB.1.cont? X).map Cont.isInlined = some false := by decide
  rw [hc'] at h4
  simp only [Option.map_some, Option.some.injEq] at h4
  rw [h4] at h3
  revert h3; decide

end Counterexamples

section NonVacuity
/-! A concrete run of the model (`AtreeProofs/World/Scenario.lean`, T = 256): root array `R`,
    child array `X` inserted into it (state `s3`), five 20-byte values inserted through `X`
    (`s4 … s8`: it stays inline, ending at 117 bytes = the inline limit), a sixth one (`s9`: 137
    bytes, un-inlined), `X` removed from `R` (`s10`), one value removed from the detached `X`
    (`s11`).  `mid9` is the state at the call of `notifyParent` inside the sixth insert. -/
open Atree.Scenario

/-- what the run looks like: the child is inline (and the parent's element has its size) up to
    the limit, then standalone (the parent holds the 19-byte reference); storage effects of the
    transitions -/
theorem run_facts :
    s1.1 = R ∧ s2.1 = X ∧
    (s3.1.cont? X).map Cont.isInlined = some true ∧
    (s3.1.cont? R).map Cont.storedElems = some [⟨17, .ref X⟩] ∧
    s3.2.eff = s2.2.2.eff ++ [.remove X, .store R] ∧
    (s8.1.cont? X).map Cont.isInlined = some true ∧ (s8.1.cont? X).map Cont.rootSize = some 117 ∧
    (s8.1.cont? R).map Cont.storedElems = some [⟨117, .ref X⟩] ∧
    (s9.1.cont? X).map Cont.isInlined = some false ∧ (s9.1.cont? X).map Cont.rootSize = some 125 ∧
    (s9.1.cont? R).map Cont.storedElems = some [⟨19, .ref X⟩] ∧
    s9.2.eff = s8.2.eff ++ [.store X, .store R] ∧
    s10.1 = ⟨19, .ref X⟩ ∧ (s10.2.1.cont? R).map Cont.storedElems = some [] ∧
    AList.find? (s9.1.idxOf R) X = some 0 ∧ AList.find? (s10.2.1.idxOf R) X = none := by
  decide

/-- the index tables are correct all along the run (executable check of `MutIdxOk`) -/
theorem run_mutIdx :
    mutIdxOkB s3.1 = true ∧ mutIdxOkB s8.1 = true ∧ mutIdxOkB mid9.1 = true ∧ mutIdxOkB s9.1 = true ∧
    mutIdxOkB s10.2.1 = true ∧ mutIdxOkB s11.2.1 = true := by decide

/-- `storable_inline_decision` / `elem_sync_childStorable` are exercised by the first insert:
    `childStorable` inlines the fresh child -/
theorem childStorable_run :
    (match s2.2.1.childStorable X 0 (maxInlineArr 256) s2.2.2 with
     | .ok (e, w, cx) => some (e, (w.cont? X).map Cont.isInlined, cx.eff.drop 4)
     | .error _ => none) = some (⟨17, .ref X⟩, some true, [.remove X]) := by decide

/-- The hypotheses of `notify_updates_array_parent` are met at `mid9` (the child has grown to 137
    bytes and is still inline; fuel `3 + 1 = mid9.1.fuelOf`), in the interesting branch. -/
theorem notify_hyps_met :
    ∃ (c : Cont) (pa : Arr) (el : Elem) (w' : World) (cx' : Ctx) (rank : SlabID → Nat),
      AList.find? mid9.1.hinfo X = some ⟨R, none, 117, 0⟩ ∧
      mid9.1.cont? X = some c ∧ c.vid = X ∧
      mid9.1.cont? R = some (.arr pa) ∧ AList.find? (mid9.1.idxOf R) X = some 0 ∧
      pa.get 0 = .ok el ∧ el.pay = .ref X ∧
      (117 : Nat) = maxInlineArr mid9.1.T - 2 * 0 ∧
      (∀ y h, AList.find? mid9.1.hinfo y = some h → rank h.parent < rank y) ∧
      (∀ (e : Elem) (c0 : Ctx) (old : Elem) (a' : Arr) (c1 : Ctx), e.pay = .ref X →
          pa.set mid9.1.T 0 e c0 = .ok (old, a', c1) → a'.get 0 = .ok e) ∧
      notifyParent (3 + 1) mid9.1 X mid9.2 = .ok (w', cx') ∧
      ¬ (c.isInlined = false ∧ c.inlinable 117 = false) ∧
      -- and this notification is the one `arrInsert` performs:
      (w'.setCallbackArr X 5 (pl 6), cx') = s9 := by
  refine ⟨.arr (arrOf mid9.1 X), arrOf s8.1 R, ⟨117, .ref X⟩,
    (okW (notifyS 4 mid9.1 X mid9.2)).1, (okW (notifyS 4 mid9.1 X mid9.2)).2,
    fun z => if z = X then 1 else 0, by decide, rfl, by decide, rfl, by decide, rfl, rfl, by decide, ?_, ?_, ?_, by decide, rfl⟩
  · intro y h hy
    have hh : mid9.1.hinfo = [(X, ⟨R, none, 117, 0⟩)] := by decide
    rw [hh] at hy
    simp only [AList.find?] at hy
    split at hy
    · rename_i hxy; cases hy; subst hxy; decide
    · cases hy
  · intro e c0 old a' c1 he hs
    exact Arr.set_get_single 256 7 _ _ rfl e X he c0 old a' c1 hs
  · rw [notifyParent_eq_notifyS]; exact eq_okW _ (by decide)

/-- … hence its conclusion holds there; concretely: the child is un-inlined and slot 0 of the
    parent holds the 19-byte reference. -/
theorem notify_conclusion_at_mid9 :
    ∃ w' cx' c' pa', notifyParent (3 + 1) mid9.1 X mid9.2 = .ok (w', cx') ∧
      w'.cont? X = some c' ∧ w'.cont? R = some (.arr pa') ∧ c'.isInlined = false ∧
      pa'.get 0 = .ok ⟨19, .ref X⟩ := by
  obtain ⟨c, pa, el, w', cx', rank, hh, hc, hid, hpa, hidx, hget, hel, hmax, hacyc, hset, h, hn, _⟩ := notify_hyps_met
  obtain ⟨c', pa', hc', hpa', _, _, _, h2⟩ := notify_updates_array_parent 3 mid9.1 X R ⟨R, none, 117, 0⟩ mid9.2
    c pa 0 el hh rfl hc hid hpa hidx hget hel hmax rank hacyc hset w' cx' h
  obtain ⟨hinl, el', hg', hp', hs'⟩ := h2 hn
  have hci : c.inlinable 117 = false := by
    have : (mid9.1.cont? X).map (fun c => Cont.inlinable c 117) = some false := by decide
    rw [hc] at this; simpa using this
  have hinl' : c'.isInlined = false := by rw [hinl]; exact hci
  refine ⟨w', cx', c', pa', h, hc', hpa', hinl', ?_⟩
  rw [hg']
  have : el' = ⟨19, .ref X⟩ := by
    cases el' with
    | mk sz py =>
      simp only at hp' hs'
      simp only [World.slotSize, hinl'] at hs'
      subst hp'; subst hs'; rfl
  rw [this]

end NonVacuity

end Atree.C10
