import AtreeProofs.Props.E2EMapBytes
import AtreeProofs.Props.C08
/-
  E2EMapSched — E2E (maps) composed with C08: the map read back through the storage does not depend
  on maintenance actions (fault-free commits of either kind, cache drops, commit-and-reopen: C08
  `Maint`) applied after a history, nor on cache drops / preloads / other reads interleaved with the
  slab fetches of the load itself (`fetchWith`).  Abstract codec (`map_load_under_schedules`), and
  the byte codec along histories with NO codec hypothesis (`map_bytes_load_under_schedules`).
-/
namespace Atree.E2EM
open Atree Atree.Codec Gen St

variable {r : Nat}

section generic
variable {σ β : Type}

/-- One maintenance action (C08) on a storage whose pending slabs are encodable – WITHOUT assuming a
    total encoder (C08 `applyMaint_keeps` assumes one): the invariant and encodability of the pending
    slabs are kept, and every owned identifier reads the same (`C08.reload_is_identity`). -/
theorem applyMaint_keeps_rep (c : Codec σ β) (hc : RoundTrip c) (s : St σ β) (hI : Inv c s)
    (hne : NoEncodeFailure c s) (m : C08.Maint) :
    Inv c (C08.applyMaint c s m) ∧ NoEncodeFailure c (C08.applyMaint c s m) ∧
    ∀ id, id.isTemp = false → (C08.applyMaint c s m).view c id = s.view c id := by
  refine ⟨?_, ?_, fun id hid => C08.reload_is_identity c hc s hI hne m id hid⟩
  · cases m with
    | commit kind mo dlo =>
      rw [C08.applyMaint_commit_eq]
      exact (commitW_spec c hc kind (fun _ => false) mo dlo s hI).1
    | dropCache => exact inv_dropCache c s hI
    | commitAndReopen =>
      obtain ⟨h1, _, _⟩ := commitW_spec c hc .det (fun _ => false) [] [] s hI
      exact inv_setAux c _ (inv_fresh c _ h1) _ _
  · cases m with
    | commit kind mo dlo =>
      rw [C08.applyMaint_commit_eq]
      exact (commitW_spec c hc kind (fun _ => false) mo dlo s hI).2.1.noEncodeFailure hne
    | dropCache => exact fun id v hv => hne id v hv
    | commitAndReopen =>
      intro id v hv
      simp [C08.applyMaint, St.fresh] at hv

theorem foldl_applyMaint_keeps_rep (c : Codec σ β) (hc : RoundTrip c) (ms : List C08.Maint) :
    ∀ (s : St σ β), Inv c s → NoEncodeFailure c s →
    Inv c (ms.foldl (C08.applyMaint c) s) ∧ NoEncodeFailure c (ms.foldl (C08.applyMaint c) s) ∧
    ∀ id, id.isTemp = false → (ms.foldl (C08.applyMaint c) s).view c id = s.view c id := by
  induction ms with
  | nil => intro s hI hne; exact ⟨hI, hne, fun _ _ => rfl⟩
  | cons m ms ih =>
    intro s hI hne
    obtain ⟨h1, h2, h3⟩ := applyMaint_keeps_rep c hc s hI hne m
    obtain ⟨g1, g2, g3⟩ := ih _ h1 h2
    exact ⟨g1, g2, fun id hid => (g3 id hid).trans (h3 id hid)⟩

end generic

variable {β : Type}

/-- SCHEDULE INDEPENDENCE OF THE LOADED MAP (C08 at container level, maps).  If the storage represents
    the map `m` and its pending slabs are encodable, then after ANY sequence of maintenance actions
    (fault-free commits of either kind with any worker orders, cache drops, commit-and-reopen), loading
    the map from its root ID – every slab fetch preceded by arbitrary read-only operations (cache
    drops, preloads, other reads) chosen by an arbitrary schedule – returns exactly `m`, and the
    storage still represents `m`. -/
theorem map_load_under_schedules (c : Codec (MSSlab r) β) (hc : RoundTrip c) (T : Nat)
    (hT : legalThreshold T = true) (D : DigestFn (r + 1)) (s : St (MSSlab r) β) (m : OMap r)
    (extra : SlabID → Option Elem) (ctr : Nat) (hinv : MapInv T D m) (hids : MIdsOk m)
    (haok : MAddrOk m) (hne0 : m.addr ≠ 0) (hrep : MRep c s m extra ctr) (hI : Inv c s)
    (henc : NoEncodeFailure c s) (ms : List C08.Maint)
    (sched : St (MSSlab r) β → SlabID → List (Op (MSSlab r))) (fuel : Nat) (hfuel : m.d < fuel) :
    ∃ s', loadMapSt (fetchWith c sched) (ms.foldl (C08.applyMaint c) s) m.rootID fuel = .ok (some m, s') ∧
      MRep c s' m extra ctr ∧ Inv c s' := by
  obtain ⟨g1, _, g3⟩ := foldl_applyMaint_keeps_rep c hc ms s hI henc
  have hrep' : MRep c (ms.foldl (C08.applyMaint c) s) m extra ctr :=
    ⟨fun id hid => by rw [g3 id (E2E.isTemp_of_addr hid hne0)]; exact hrep.view id hid, hrep.extra_fresh⟩
  obtain ⟨s', h1, h2, h3, _⟩ := map_load_from_storage c T hT D _ m extra ctr hinv hids haok hrep' g1
    (fetchWith c sched) (map_scheduled_retrieve_is_fetch c sched) fuel hfuel
  exact ⟨s', h1, h2, h3⟩

/-- THE SAME AT BYTE LEVEL, ALONG HISTORIES.  After any history of map requests with encodable keys and
    values run with the byte codec, any maintenance actions, and any read-only schedule during the
    load: `DecodeSlab` on whatever the slabs are served from (write set, cache, ledger registers)
    rebuilds exactly the map.  No hypothesis on the codec. -/
theorem map_bytes_load_under_schedules (T : Nat) (hT : legalThreshold T = true) (D : DigestFn (r + 1))
    (cfg : MCfg) (hcT : cfg.T = T) (hcL : cfg.L = r + 1) (haddr : cfg.addr ≠ 0) (ty : Nat) (hty : ty < 2 ^ 64)
    (seedOf : SlabID → Nat) (ops : List MOp) (hops : ∀ op ∈ ops, op.Ok T D) (henc : ∀ op ∈ ops, op.Enc)
    (hw : MWidths D (runB D cfg ty seedOf ops).1) (ms : List C08.Maint)
    (sched : St (MSSlab r) (SlabID × Bytes) → SlabID → List (Op (MSSlab r))) (fuel : Nat) :
    let x := runB D cfg ty seedOf ops
    x.1.1.d < fuel →
    ∃ s', loadMapSt (fetchWith (keyedCodecM D) sched) (ms.foldl (C08.applyMaint (keyedCodecM D)) x.2)
        ⟨cfg.addr, 1⟩ fuel = .ok (some x.1.1, s') ∧
      MRep (keyedCodecM D) s' x.1.1 (AList.find? x.1.2.created) x.1.2.ctr := by
  intro x hfuel
  obtain ⟨g, hroot⟩ := runB_good T hT D cfg hcT hcL haddr ty seedOf ops hops
  have hne := map_bytes_history_no_encode_failure T hT D cfg hcT hcL haddr ty hty seedOf ops hops henc hw
  obtain ⟨s', h1, h2, _⟩ := map_load_under_schedules (keyedCodecM D) (keyedCodecM_roundTrip D) T hT D x.2 x.1.1 _ _
    g.inv g.ids g.aok g.addr g.rep g.st hne ms sched fuel hfuel
  have hroot' : x.1.1.rootID = ⟨cfg.addr, 1⟩ := hroot
  rw [hroot'] at h1
  exact ⟨s', h1, h2⟩

/-! ### Non-vacuity -/
section NonVacuity
open MapExample

/-- commit, drop the cache, commit-and-reopen, drop the cache again; and before every slab fetch of
    the load: drop the cache and preload the slab (and the root) -/
def msB : List C08.Maint := [.commit .nondet [⟨7, 3⟩] [], .dropCache, .commitAndReopen, .dropCache]
def schedB : St (MSSlab 1) (SlabID × Bytes) → SlabID → List (Op (MSSlab 1)) :=
  fun _ id => [.dropCache, .preload [id, ⟨7, 1⟩], .store ⟨7, 9⟩ (.large (val 1))]

example := map_bytes_load_under_schedules 256 legal256 D2 cfg2 rfl rfl (by decide) 0 (by decide)
  (fun id => id.idx) mhistB mhistB_ok mhistB_enc xB_widths msB schedB 2 (by decide)

/-- by evaluation: the storage after the maintenance actions serves everything from the ledger (no
    pending slab, five registers), and the scheduled load returns the map (the `store` in the
    schedule is not read-only and is filtered out) -/
def maintainedB : St (MSSlab 1) (SlabID × Bytes) := msB.foldl (C08.applyMaint (keyedCodecM D2)) xB.2
set_option maxRecDepth 100000 in
example : maintainedB.deltas = [] ∧ maintainedB.cache = [] ∧ maintainedB.base.length = 5 := by decide +kernel
set_option maxRecDepth 100000 in
example : msummaryRB (loadMapSt (fetchWith (keyedCodecM D2) schedB) maintainedB ⟨7, 1⟩ 2)
    = some (msummary xB.1.1) := by decide +kernel
-- the live storage (nothing committed: everything pending) gives the same
set_option maxRecDepth 100000 in
example : msummaryRB (loadMapSt (fetchWith (keyedCodecM D2) schedB) xB.2 ⟨7, 1⟩ 2)
    = some (msummary xB.1.1) := by decide +kernel
example := map_load_under_schedules idCodecM idCodecM_roundTrip 256 legal256 D2 xM.2 xM.1.1 _ _ xM_goodF.inv
  xM_goodF.ids xM_goodF.aok (by decide) xM_goodF.rep xM_goodF.st (idCodecM_noEncodeFailure _)
  [.dropCache, .commitAndReopen] (fun _ id => [.preload [id]]) 2 (by decide)

end NonVacuity

end Atree.E2EM
