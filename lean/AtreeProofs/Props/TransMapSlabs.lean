import AtreeProofs.Trans.MapSlabs
/-
  The slab-level restructuring code of the maps, REGENERATED IN FULL from the Go sources on every run
  (`AtreeModel/Gen/TransMapSlabs.lean`), equals the hand-written model (`AtreeModel/Map/Elems.lean`, `Tree.lean`):
  the generated function on the translation of a model value yields the translation of the model function's result -
  elements and digests moved, sizes, levels, headers, next links, the same error class, the same storage effects.
  Range hypotheses (sizes fit `uint32`, the size field covers the elements) are explicit.
-/
namespace Atree.TransEq
open Atree Atree.Gen.TransMap

theorem all_translated_mapslabs : untranslatedFunctions = [] := rfl

/-- the only call sites that hand a slice to a helper which clears it and do not overwrite it: the right operand of the
    three `merge` calls (the merged-away right slab is removed from storage by `mergeChildren`) -/
theorem deadAfterCall_pinned : deadAfterCall =
    ["MapMetaDataSlab.Merge: rightSlab.childrenHeaders after merge", "hkeyElements.Merge: rElems.elems after merge",
     "hkeyElements.Merge: rElems.hkeys after merge"] := rfl

/-! ## hkeyElements (map_elements_hashkey.go) -/

section hkey
variable {α V W X S : Type} (o : ElemsOps α) (T : Nat) (env : Env (MElemF α) V W X S GE)

theorem msl_hkeySplitFull_loop (hE : EnvH o T env) (mid data : Nat) (hd : data < 2^32) (hmid : mid < 2^32)
    (rest : List (MElemF α)) (i ls : Nat)
    (hsum : ls + (dg (rest.map (fun msl_el => msl_el.size o))).sum ≤ data) :
    hkeyElements_Split.loop1 env (u32 data) (u32 mid) rest (Int.ofNat i) (u32 ls) 0 =
      .done (u32 (HkeyElems.splitLoop mid data (dg (rest.map (fun msl_el => msl_el.size o))) i ls).2,
             Int.ofNat (HkeyElems.splitLoop mid data (dg (rest.map (fun msl_el => msl_el.size o))) i ls).1) := by
  induction rest generalizing i ls with
  | nil => simp [dg, hkeyElements_Split.loop1, HkeyElems.splitLoop]
  | cons x t ih =>
    rw [List.map_cons, dg_cons] at hsum ⊢
    simp only [List.sum_cons] at hsum
    simp only [hkeyElements_Split.loop1, HkeyElems.splitLoop, hE.size]
    rw [u32_add (show x.size o + Gen.digestSize < 2^32 by omega)]
    generalize x.size o + Gen.digestSize = y at *
    rw [u32_add (show ls + y < 2^32 by omega), u32_dge (by omega) hmid, u32_sub (show ls ≤ data by omega) hd,
      u32_sub (show y ≤ data - ls by omega) (by omega), u32_dle (by omega) (by omega)]
    by_cases c1 : ls + y ≥ mid
    · by_cases c2 : ls ≤ data - ls - y
      · simp [c1, c2]
      · simp [c1, c2]
    · simp only [c1, decide_false, if_false, Bool.false_eq_true]
      have := ih (i + 1) (ls + y) (by omega)
      simpa using this

/-- `hkeyElements.Split` IN FULL: the left group (the receiver, also returned as first result), the right group
    (digests, elements, size, level), no error.  Needs: `e.size` fits uint32 and covers prefix + elements, and there
    is a digest for every element (`split` panics otherwise). -/
theorem hkeyElements_Split_full_eq_model (hE : EnvH o T env) (e : HkeyElems α) (hs : e.size < 2^32)
    (hpre : Gen.hkeyElementsPrefixSize + (dg (rawSizes o e)).sum ≤ e.size)
    (hlen : e.elems.length ≤ e.hkeys.length) :
    hkeyElements_Split env (cH e) =
      some (.hkey (cH (HkeyElems.split o e).1), .hkey (cH (HkeyElems.split o e).2), none, cH (HkeyElems.split o e).1) := by
  have hlen' : (dg (rawSizes o e)).length = e.elems.length := by simp [dg, rawSizes]
  simp only [hkeyElements_Split, hkeyElements_Size, HkeyElems.split, dg_rawSizes, cH]
  simp only [Gen.hkeyElementsPrefixSize] at hpre ⊢
  have e8 : UInt32.ofNat 8 = u32 8 := rfl
  have e1 : (1 : UInt32) = u32 1 := rfl
  have e0 : (0 : UInt32) = u32 0 := rfl
  rw [e8, e1, e0, u32_sub (by omega) hs, u32_add (by omega), u32_half' (by omega)]
  have hloop := msl_hkeySplitFull_loop o T env hE ((e.size - 8 + 1) / 2) (e.size - 8) (by omega) (by omega) e.elems 0 0
    (by simpa [rawSizes] using (show 0 + (dg (rawSizes o e)).sum ≤ e.size - 8 by omega))
  have hb := splitLoop_bounds ((e.size - 8 + 1) / 2) (e.size - 8) (dg (rawSizes o e)) 0 0
  rw [hlen'] at hb
  have hr : e.elems.map (fun msl_el => msl_el.size o) = rawSizes o e := rfl
  rw [hr] at hloop
  have hz : (Int.ofNat 0) = (0 : Int) := rfl
  rw [hz] at hloop
  rw [hloop]
  generalize HkeyElems.splitLoop ((e.size - 8 + 1) / 2) (e.size - 8) (dg (rawSizes o e)) 0 0 = r at *
  obtain ⟨lc, ls⟩ := r
  simp only at hb ⊢
  have hlc1 : lc ≤ (u64s e.hkeys).length := by rw [u64s_length]; omega
  rw [msl_split_eq _ lc hlc1, msl_split_eq _ lc (by omega)]
  simp only [msl_u64s_take, msl_u64s_drop]
  rw [u32_sub (by omega) (by omega), u32_add (by omega), u32_add (by omega)]

/-- `hkeyElements.Merge` IN FULL: digests and elements appended, size added (the right prefix counted once); the
    right group is only cleared (`deadAfterCall`).  Needs: the right size covers its prefix, the sum fits uint32. -/
theorem hkeyElements_Merge_full_eq_model (l r : HkeyElems α) (hr8 : Gen.hkeyElementsPrefixSize ≤ r.size)
    (hsz : l.size + r.size < 2^32) :
    hkeyElements_Merge env (cH l) (.hkey (cH r)) = some (none, cH (HkeyElems.merge l r)) := by
  simp only [Gen.hkeyElementsPrefixSize] at hr8
  simp only [hkeyElements_Merge, hkeyElements_Size, HkeyElems.merge, cH, msl_merge_eq, Bool.not_true, Bool.false_eq_true,
    if_false, Gen.hkeyElementsPrefixSize, msl_u64s_append]
  have e8 : UInt32.ofNat 8 = u32 8 := rfl
  rw [e8, u32_sub hr8 (by omega), u32_add (by omega)]

/-- `hkeyElements.Merge` with anything but an `*hkeyElements`: SlabMergeError, the receiver untouched -/
theorem hkeyElements_Merge_wrong_type (hE : EnvH o T env) (l : HkeyElems α) (x : elements (MElemF α) V)
    (hx : ∀ h, x ≠ .hkey h) :
    hkeyElements_Merge env (cH l) x = some (some .slabMerge, cH l) := by
  cases x with
  | hkey h => exact absurd rfl (hx h)
  | nil => simp [hkeyElements_Merge, hE.eMerge]
  | single s => simp [hkeyElements_Merge, hE.eMerge]

theorem msl_goIdx_ofNat {β : Type} (l : List β) (n : Nat) (h : n < l.length) : goIdx l (Int.ofNat n) = some l[n] := by
  simp [goIdx, h]

theorem msl_hkeyLendFull_loop (hE : EnvH o T env) (minS size mid : Nat) (hm : minS < 2^32) (hsz : size < 2^32)
    (hmid : mid < 2^32) (e : hkeyElements (MElemF α)) (n : Nat) (hn : n ≤ e.elems.length) (lc ls : Nat) (hlc : n ≤ lc)
    (hls : ((dg (e.elems.map (fun msl_el => msl_el.size o))).take n).sum ≤ ls) (hls2 : ls ≤ size) :
    hkeyElements_LendToRight.loop1 env e (u32 minS) (u32 size) (u32 mid) n (Int.ofNat lc) (u32 ls) =
      .done (Int.ofNat (HkeyElems.lendLoop minS size mid ((dg (e.elems.map (fun msl_el => msl_el.size o))).take n).reverse lc ls).1,
             u32 (HkeyElems.lendLoop minS size mid ((dg (e.elems.map (fun msl_el => msl_el.size o))).take n).reverse lc ls).2) := by
  induction n generalizing lc ls with
  | zero => simp [hkeyElements_LendToRight.loop1, HkeyElems.lendLoop]
  | succ n ih =>
    have hlt : n < (dg (e.elems.map (fun msl_el => msl_el.size o))).length := by rw [dg_length, List.length_map]; omega
    have hlt' : n < e.elems.length := by omega
    rw [sum_take_succ _ _ hlt] at hls
    rw [take_succ_reverse _ _ hlt]
    rw [dg_getD _ _ (by rw [List.length_map]; omega)] at hls ⊢
    have hget : (e.elems.map (fun msl_el => msl_el.size o)).getD n 0 = (e.elems[n]).size o := by
      simp [List.getD_eq_getElem?_getD, List.getElem?_map, List.getElem?_eq_getElem hlt']
    rw [hget] at hls ⊢
    simp only [hkeyElements_LendToRight.loop1, HkeyElems.lendLoop, msl_goIdx_ofNat _ _ hlt', hE.size]
    have ih' := fun lc ls h1 h3 h4 => ih (by omega) lc ls h1 h3 h4
    generalize (e.elems[n]).size o = x at *
    rw [u32_add (show x + Gen.digestSize < 2^32 by omega)]
    generalize x + Gen.digestSize = y at *
    rw [u32_sub (show y ≤ ls by omega) (by omega), u32_sub hls2 hsz,
      u32_dlt (by omega) hmid, u32_dge (by omega) hm]
    by_cases c : ls - y < mid ∧ size - ls ≥ minS
    · have c' : (decide (ls - y < mid) && decide (size - ls ≥ minS)) = true := by simp [c]
      simp [c']
    · have c' : (decide (ls - y < mid) && decide (size - ls ≥ minS)) = false := by
        simp only [Bool.and_eq_false_iff, decide_eq_false_iff_not]; omega
      simp only [c', Bool.false_eq_true, if_false]
      have := ih' (lc - 1) (ls - y) (by omega) (by omega) (by omega)
      have e1 : (Int.ofNat lc - (1 : Int)) = Int.ofNat (lc - 1) := by simp only [Int.ofNat_eq_natCast]; omega
      rw [e1]
      simpa using this

/-- `hkeyElements.LendToRight` IN FULL: the hash-level error in the same case (both groups untouched); otherwise
    the last elements of the left group and THEIR digests move in front of the right group, both sizes updated.
    Needs: the parallel slices have equal length (Go moves the last `moveCount` digests, the model the digests from
    `leftCount` on), `mapDataSlabPrefixSize + hkeyElementsPrefixSize ≤ minThreshold`, both sizes ≥ the prefix, their
    sum below 2^32, the left size covers its elements. -/
theorem hkeyElements_LendToRight_full_eq_model (hE : EnvH o T env) (l r : HkeyElems α)
    (hT : minThr T < 2^32) (hT2 : Gen.mapDataSlabPrefixSize + Gen.hkeyElementsPrefixSize ≤ minThr T)
    (hlv : l.level < 2^64) (hrv : r.level < 2^64) (hsz : l.size + r.size < 2^32)
    (hr8 : Gen.hkeyElementsPrefixSize ≤ r.size)
    (hpre : Gen.hkeyElementsPrefixSize + (dg (rawSizes o l)).sum ≤ l.size)
    (hlen : l.hkeys.length = l.elems.length) :
    hkeyElements_LendToRight env (cH l) (.hkey (cH r)) =
      match HkeyElems.lendToRight o T l r with
      | .error _ => some (some .slabRebalance, cH l, .hkey (cH r))
      | .ok (l', r') => some (none, cH l', .hkey (cH r')) := by
  have hlen2 : (dg (rawSizes o l)).length = l.elems.length := by simp [dg, rawSizes]
  simp only [HkeyElems.lendToRight, dg_rawSizes]
  have hq : (u64 l.level = u64 r.level) = (l.level = r.level) := by
    simp only [u64, ← UInt64.toNat_inj, UInt64.toNat_ofNat', eq_iff_iff]
    constructor <;> intro h <;> omega
  -- the comparison written the other way round (`rightElements.level != e.level`) is the same function
  have hq' : (u64 r.level = u64 l.level) = (l.level = r.level) := by
    rw [← hq]; exact propext ⟨Eq.symm, Eq.symm⟩
  by_cases hlev : l.level = r.level
  · simp only [hlev, ne_eq, not_true_eq_false, if_false]
    simp only [hkeyElements_LendToRight, hkeyElements_Size, cH, hE.minThr, ne_eq, hq, hq', hlev, not_true_eq_false,
      decide_false, Bool.false_eq_true, if_false]
    simp only [Gen.hkeyElementsPrefixSize, Gen.mapDataSlabPrefixSize] at hpre hT2 hr8 ⊢
    have e8 : UInt32.ofNat 8 = u32 8 := rfl
    have e18 : UInt32.ofNat 18 = u32 18 := rfl
    have e16 : UInt32.ofNat (8 * 2) = u32 16 := rfl
    have e1 : (1 : UInt32) = u32 1 := rfl
    have efuel : (Int.ofNat l.elems.length - (1 : Int) + 1).toNat = l.elems.length := by
      simp only [Int.ofNat_eq_natCast]; omega
    rw [e8, e18, e16, e1, efuel, u32_sub (by omega) hT, u32_sub (by omega) (by omega), u32_add hsz,
      u32_sub (by omega) (by omega), u32_sub (by omega) (by omega), u32_add (by omega), u32_half' (by omega)]
    have hloop := msl_hkeyLendFull_loop o T env hE (minThr T - 18 - 8) (l.size + r.size - 16) ((l.size + r.size - 16 + 1) / 2)
      (by omega) (by omega) (by omega) (cH l) l.elems.length (by simp [cH]) l.elems.length (l.size - 8)
      (by omega)
      (by
        have := sum_take_le (dg (rawSizes o l)) l.elems.length
        show ((dg (rawSizes o l)).take l.elems.length).sum ≤ l.size - 8
        omega) (by omega)
    have hr : (cH l).elems.map (fun msl_el => msl_el.size o) = rawSizes o l := rfl
    rw [hr, ← hlen2, List.take_length, hlen2] at hloop
    have hce : (cH l) = { hkeys := u64s l.hkeys, elems := l.elems, size := u32 l.size, level := u64 r.level } := by
      simp [cH, hlev]
    rw [hce] at hloop
    rw [hloop]
    have hb := lendLoop_bounds (minThr T - 18 - 8) (l.size + r.size - 16) ((l.size + r.size - 16 + 1) / 2)
      (dg (rawSizes o l)).reverse l.elems.length (l.size - 8)
    have e82 : 8 * 2 = 16 := rfl
    rw [e82]
    generalize HkeyElems.lendLoop (minThr T - 18 - 8) (l.size + r.size - 16) ((l.size + r.size - 16 + 1) / 2)
      (dg (rawSizes o l)).reverse l.elems.length (l.size - 8) = res at *
    obtain ⟨lc, ls⟩ := res
    simp only at hb ⊢
    have emv : Int.ofNat l.elems.length - Int.ofNat lc = Int.ofNat (l.elems.length - lc) := by
      simp only [Int.ofNat_eq_natCast]; omega
    rw [emv, msl_lendToRight_eq _ _ _ (by rw [u64s_length]; omega), msl_lendToRight_eq _ _ _ (by omega)]
    simp only [u64s_length, hlen, msl_u64s_take, msl_u64s_drop, msl_u64s_append]
    have hk : l.elems.length - (l.elems.length - lc) = lc := by omega
    rw [hk, u32_sub (by omega) (by omega), u32_add (by omega), u32_add (by omega)]
  · simp only [ne_eq, hlev, not_false_eq_true, if_true]
    simp only [hkeyElements_LendToRight, cH, ne_eq, hq, hq', hlev, not_false_eq_true, decide_true, if_true, hE.eRebalance]

theorem msl_hkeyBorrowFull_loop (hE : EnvH o T env) (minS size mid : Nat) (hm : minS < 2^32) (hsz : size < 2^32)
    (hmid : mid < 2^32) (rest : List (MElemF α)) (i : Int) (lc ls : Nat)
    (hls : ls + (dg (rest.map (fun msl_el => msl_el.size o))).sum ≤ size) :
    hkeyElements_BorrowFromRight.loop1 env (u32 minS) (u32 size) (u32 mid) rest i (Int.ofNat lc) (u32 ls) =
      .done (Int.ofNat (HkeyElems.borrowLoop minS size mid (dg (rest.map (fun msl_el => msl_el.size o))) lc ls).1,
             u32 (HkeyElems.borrowLoop minS size mid (dg (rest.map (fun msl_el => msl_el.size o))) lc ls).2) := by
  induction rest generalizing i lc ls with
  | nil => simp [dg, hkeyElements_BorrowFromRight.loop1, HkeyElems.borrowLoop]
  | cons x t ih =>
    rw [List.map_cons, dg_cons] at hls ⊢
    simp only [List.sum_cons] at hls
    simp only [hkeyElements_BorrowFromRight.loop1, HkeyElems.borrowLoop, hE.size]
    rw [u32_add (show x.size o + Gen.digestSize < 2^32 by omega)]
    generalize x.size o + Gen.digestSize = y at *
    rw [u32_add (show ls + y < 2^32 by omega),
      u32_sub (show ls ≤ size by omega) hsz, u32_sub (show y ≤ size - ls by omega) (by omega),
      u32_dgt (by omega) hmid, u32_dge (by omega) hm]
    have e1 : (Int.ofNat lc + (1 : Int)) = Int.ofNat (lc + 1) := by simp only [Int.ofNat_eq_natCast]; omega
    by_cases c1 : ls + y > mid
    · by_cases c2 : size - ls - y ≥ minS
      · simp [c1, c2]
      · simp [c1, c2]
    · simp only [c1, decide_false, if_false, Bool.false_eq_true, e1]
      exact ih (i + 1) (lc + 1) (ls + y) (by omega)

/-- `hkeyElements.BorrowFromRight` IN FULL, likewise (the RIGHT size must cover its elements, and every moved
    element must have its digest). -/
theorem hkeyElements_BorrowFromRight_full_eq_model (hE : EnvH o T env) (l r : HkeyElems α)
    (hT : minThr T < 2^32) (hT2 : Gen.mapDataSlabPrefixSize + Gen.hkeyElementsPrefixSize ≤ minThr T)
    (hlv : l.level < 2^64) (hrv : r.level < 2^64) (hsz : l.size + r.size < 2^32)
    (hl8 : Gen.hkeyElementsPrefixSize ≤ l.size)
    (hpre : Gen.hkeyElementsPrefixSize + (dg (rawSizes o r)).sum ≤ r.size)
    (hlen : r.elems.length ≤ r.hkeys.length) :
    hkeyElements_BorrowFromRight env (cH l) (.hkey (cH r)) =
      match HkeyElems.borrowFromRight o T l r with
      | .error _ => some (some .slabRebalance, cH l, .hkey (cH r))
      | .ok (l', r') => some (none, cH l', .hkey (cH r')) := by
  have hlen2 : (dg (rawSizes o r)).length = r.elems.length := by simp [dg, rawSizes]
  simp only [HkeyElems.borrowFromRight, dg_rawSizes]
  have hq : (u64 l.level = u64 r.level) = (l.level = r.level) := by
    simp only [u64, ← UInt64.toNat_inj, UInt64.toNat_ofNat', eq_iff_iff]
    constructor <;> intro h <;> omega
  -- the comparison written the other way round (`rightElements.level != e.level`) is the same function
  have hq' : (u64 r.level = u64 l.level) = (l.level = r.level) := by
    rw [← hq]; exact propext ⟨Eq.symm, Eq.symm⟩
  by_cases hlev : l.level = r.level
  · simp only [hlev, ne_eq, not_true_eq_false, if_false]
    simp only [hkeyElements_BorrowFromRight, hkeyElements_Size, cH, hE.minThr, ne_eq, hq, hq', hlev, not_true_eq_false,
      decide_false, Bool.false_eq_true, if_false]
    simp only [Gen.hkeyElementsPrefixSize, Gen.mapDataSlabPrefixSize] at hpre hT2 hl8 ⊢
    have e8 : UInt32.ofNat 8 = u32 8 := rfl
    have e18 : UInt32.ofNat 18 = u32 18 := rfl
    have e16 : UInt32.ofNat (8 * 2) = u32 16 := rfl
    have e1 : (1 : UInt32) = u32 1 := rfl
    rw [e8, e18, e16, e1, u32_sub (by omega) hT, u32_sub (by omega) (by omega), u32_add hsz,
      u32_sub (by omega) (by omega), u32_sub (by omega) (by omega), u32_add (by omega), u32_half' (by omega)]
    have hloop := msl_hkeyBorrowFull_loop o T env hE (minThr T - 18 - 8) (l.size + r.size - 16) ((l.size + r.size - 16 + 1) / 2)
      (by omega) (by omega) (by omega) r.elems 0 l.elems.length (l.size - 8)
      (by show l.size - 8 + (dg (rawSizes o r)).sum ≤ l.size + r.size - 16; omega)
    have hr : r.elems.map (fun msl_el => msl_el.size o) = rawSizes o r := rfl
    rw [hr] at hloop
    rw [hloop]
    have hb := borrowLoop_bounds (minThr T - 18 - 8) (l.size + r.size - 16) ((l.size + r.size - 16 + 1) / 2)
      (dg (rawSizes o r)) l.elems.length (l.size - 8)
    rw [hlen2] at hb
    have e82 : 8 * 2 = 16 := rfl
    rw [e82]
    generalize HkeyElems.borrowLoop (minThr T - 18 - 8) (l.size + r.size - 16) ((l.size + r.size - 16 + 1) / 2)
      (dg (rawSizes o r)) l.elems.length (l.size - 8) = res at *
    obtain ⟨lc, ls⟩ := res
    simp only at hb ⊢
    have emv : Int.ofNat lc - Int.ofNat l.elems.length = Int.ofNat (lc - l.elems.length) := by
      simp only [Int.ofNat_eq_natCast]; omega
    rw [emv, msl_borrowFromRight_eq _ _ _ (by rw [u64s_length]; omega), msl_borrowFromRight_eq _ _ _ (by omega)]
    simp only [msl_u64s_take, msl_u64s_drop, msl_u64s_append]
    rw [u32_add (by omega), u32_sub (by omega) (by omega), u32_add (by omega)]
  · simp only [ne_eq, hlev, not_false_eq_true, if_true]
    simp only [hkeyElements_BorrowFromRight, cH, ne_eq, hq, hq', hlev, not_false_eq_true, decide_true, if_true, hE.eRebalance]

end hkey

/-! ## non-vacuity: a concrete environment and concrete groups -/

/-- the parameters of the generated code instantiated with the model: element sizes by `o`, thresholds of `T`, the
    model's error classes, the model's `Ctx` as slab storage (an empty heap: `Retrieve` finds nothing) -/
def envMap {α : Type} (o : ElemsOps α) (T L : Nat) : Env (MElemF α) Unit Unit Unit Ctx GE where
  Digester_Levels := u64 L
  MapSlab_CanLendToLeft := fun _ _ => false
  MapSlab_CanLendToRight := fun _ _ => false
  NewHashLevelErrorf := some .hashLevel
  NewKeyNotFoundError := some .keyNotFound
  NewNotApplicableError := some .notApplicable
  NewSlabDataErrorf := some .modelMismatch
  NewSlabMergeError := some .slabMerge
  NewSlabNotFoundErrorf := some .slabNotFound
  NewSlabRebalanceError := some .slabRebalance
  NewSlabRebalanceErrorf := some .slabRebalance
  NewSlabSplitErrorf := some .slabSplit
  SlabStorage_GenerateSlabID := fun c a => ((c.alloc a).1, none, (c.alloc a).2)
  SlabStorage_Remove := fun c id => (none, c.emit (.remove id))
  SlabStorage_Retrieve := fun c _ => (.nil, false, none, c)
  SlabStorage_Store := fun c id _ => (none, c.emit (.store id))
  Storable_ByteSize := fun _ => 0
  ValueComparator := fun c _ _ => (false, none, c)
  Value_Storable := fun _ c _ _ => (none, none, c)
  element_Size := fun msl_el => u32 (msl_el.size o)
  maxInlineMapValueSize := fun x => x
  minThreshold := u32 (minThr T)
  newSingleElement := fun c _ _ _ => ({ key := none, value := none }, none, c)
  wrapErrorfAsExternalErrorIfNeeded := id

theorem envMap_EnvH {α : Type} (o : ElemsOps α) (T L : Nat) : EnvH o T (envMap o T L) where
  size := fun _ => rfl
  minThr := rfl
  eMerge := rfl
  eRebalance := rfl
  eRebalancef := rfl
  eSplit := rfl
  eNotApplicable := rfl

theorem envMap_EnvS {α : Type} (o : ElemsOps α) (T L : Nat) : EnvS (envMap o T L) where
  gen := fun _ _ => rfl
  store := fun _ _ _ => rfl
  remove := fun _ _ => rfl
  wrapNone := rfl

section examples

private def msl_o0 : ElemsOps SingleElems := SingleElems.ops
private def msl_el (n pay : Nat) : MElemF SingleElems :=
  .single { key := { size := 1, pay := pay, digs := [pay] }, val := { size := n - 2, pay := .val pay }, size := n }
/-- three elements of 20, 30, 40 bytes (+ 8 per digest): 8 + 28 + 38 + 48 = 122 -/
private def msl_gEx : HkeyElems SingleElems :=
  { hkeys := [5, 9, 12], elems := [msl_el 20 1, msl_el 30 2, msl_el 40 3], size := 122, level := 0 }
private def msl_gR : HkeyElems SingleElems :=
  { hkeys := [20], elems := [msl_el 20 4], size := 36, level := 0 }

/-- Split of the three-element group: digests and elements `[5, 9] | [12]`, sizes 74 and 56 -/
example : hkeyElements_Split (envMap msl_o0 256 4) (cH msl_gEx) =
    some (.hkey (cH { hkeys := [5, 9], elems := [msl_el 20 1, msl_el 30 2], size := 74, level := 0 }),
          .hkey (cH { hkeys := [12], elems := [msl_el 40 3], size := 56, level := 0 }), none,
          cH { hkeys := [5, 9], elems := [msl_el 20 1, msl_el 30 2], size := 74, level := 0 }) := by
  rw [hkeyElements_Split_full_eq_model msl_o0 256 _ (envMap_EnvH msl_o0 256 4) msl_gEx (by decide) (by decide) (by decide)]; rfl

/-- Merge with the one-element group: four digests, size 122 + 36 - 8 -/
example : hkeyElements_Merge (envMap msl_o0 256 4) (cH msl_gEx) (.hkey (cH msl_gR)) =
    some (none, cH { hkeys := [5, 9, 12, 20], elems := [msl_el 20 1, msl_el 30 2, msl_el 40 3, msl_el 20 4], size := 150, level := 0 }) := by
  rw [hkeyElements_Merge_full_eq_model _ msl_gEx msl_gR (by decide) (by decide)]; rfl

/-- LendToRight to the one-element group (T = 256: the right group must reach minThreshold - 18 - 8 = 102 bytes): the
    last TWO elements and their digests move -/
example : hkeyElements_LendToRight (envMap msl_o0 256 4) (cH msl_gEx) (.hkey (cH msl_gR)) =
    some (none, cH { hkeys := [5], elems := [msl_el 20 1], size := 36, level := 0 },
          .hkey (cH { hkeys := [9, 12, 20], elems := [msl_el 30 2, msl_el 40 3, msl_el 20 4], size := 122, level := 0 })) := by
  rw [hkeyElements_LendToRight_full_eq_model msl_o0 256 _ (envMap_EnvH msl_o0 256 4) msl_gEx msl_gR (by decide) (by decide) (by decide)
    (by decide) (by decide) (by decide) (by decide) (by decide)]; rfl

/-- BorrowFromRight in the other direction -/
example : hkeyElements_BorrowFromRight (envMap msl_o0 256 4) (cH msl_gR) (.hkey (cH msl_gEx)) =
    some (none, cH { hkeys := [20, 5], elems := [msl_el 20 4, msl_el 20 1], size := 64, level := 0 },
          .hkey (cH { hkeys := [9, 12], elems := [msl_el 30 2, msl_el 40 3], size := 94, level := 0 })) := by
  rw [hkeyElements_BorrowFromRight_full_eq_model msl_o0 256 _ (envMap_EnvH msl_o0 256 4) msl_gR msl_gEx (by decide) (by decide) (by decide)
    (by decide) (by decide) (by decide) (by decide) (by decide)]; rfl

/-- different levels: the rebalance error, both groups untouched -/
example : hkeyElements_LendToRight (envMap msl_o0 256 4) (cH msl_gEx) (.hkey (cH { msl_gR with level := 1 })) =
    some (some .slabRebalance, cH msl_gEx, .hkey (cH { msl_gR with level := 1 })) := by
  rw [hkeyElements_LendToRight_full_eq_model msl_o0 256 _ (envMap_EnvH msl_o0 256 4) msl_gEx { msl_gR with level := 1 } (by decide) (by decide)
    (by decide) (by decide) (by decide) (by decide) (by decide) (by decide)]; rfl

end examples

end Atree.TransEq
