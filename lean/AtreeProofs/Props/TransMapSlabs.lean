import AtreeProofs.Trans.MapSlabs
/-
  The slab-level restructuring code of the maps, REGENERATED IN FULL from the Go sources on every run
  (`AtreeModel/Gen/TransMapSlabs.lean`), equals the hand-written model (`AtreeModel/Map/Elems.lean`, `Tree.lean`):
  the generated function on the translation of a model value yields the translation of the model function's result -
  elements and digests moved, sizes, levels, headers, next links, the same error class, the same storage effects.
  Range hypotheses (sizes fit `uint32`, the size field covers the elements) are explicit.
-/
namespace Atree.TransEq
open Atree Atree.Gen.TransMap

theorem all_translated_mapslabs : untranslatedFunctions = [] := rfl

/-- the only call sites that hand a slice to a helper which clears it and do not overwrite it: the right operand of the
    three `merge` calls (the merged-away right slab is removed from storage by `mergeChildren`) -/
theorem deadAfterCall_pinned : deadAfterCall =
    ["MapMetaDataSlab.Merge: rightSlab.childrenHeaders after merge", "hkeyElements.Merge: rElems.elems after merge",
     "hkeyElements.Merge: rElems.hkeys after merge"] := rfl

/-! ## hkeyElements (map_elements_hashkey.go) -/

section hkey
variable {α V W X S : Type} (o : ElemsOps α) (T : Nat) (env : Env (MElemF α) V W X S GE)

theorem hkeySplitFull_loop (hE : EnvH o T env) (mid data : Nat) (hd : data < 2^32) (hmid : mid < 2^32)
    (rest : List (MElemF α)) (i ls : Nat)
    (hsum : ls + (dg (rest.map (fun el => el.size o))).sum ≤ data) :
    hkeyElements_Split.loop1 env (u32 data) (u32 mid) rest (Int.ofNat i) (u32 ls) 0 =
      .done (u32 (HkeyElems.splitLoop mid data (dg (rest.map (fun el => el.size o))) i ls).2,
             Int.ofNat (HkeyElems.splitLoop mid data (dg (rest.map (fun el => el.size o))) i ls).1) := by
  induction rest generalizing i ls with
  | nil => simp [dg, hkeyElements_Split.loop1, HkeyElems.splitLoop]
  | cons x t ih =>
    rw [List.map_cons, dg_cons] at hsum ⊢
    simp only [List.sum_cons] at hsum
    simp only [hkeyElements_Split.loop1, HkeyElems.splitLoop, hE.size]
    rw [u32_add (show x.size o + Gen.digestSize < 2^32 by omega)]
    generalize x.size o + Gen.digestSize = y at *
    rw [u32_add (show ls + y < 2^32 by omega), u32_dge (by omega) hmid, u32_sub (show ls ≤ data by omega) hd,
      u32_sub (show y ≤ data - ls by omega) (by omega), u32_dle (by omega) (by omega)]
    by_cases c1 : ls + y ≥ mid
    · by_cases c2 : ls ≤ data - ls - y
      · simp [c1, c2]
      · simp [c1, c2]
    · simp only [c1, decide_false, if_false, Bool.false_eq_true]
      have := ih (i + 1) (ls + y) (by omega)
      simpa using this

/-- `hkeyElements.Split` IN FULL: the left group (the receiver, also returned as first result), the right group
    (digests, elements, size, level), no error.  Needs: `e.size` fits uint32 and covers prefix + elements, and there
    is a digest for every element (`split` panics otherwise). -/
theorem hkeyElements_Split_full_eq_model (hE : EnvH o T env) (e : HkeyElems α) (hs : e.size < 2^32)
    (hpre : Gen.hkeyElementsPrefixSize + (dg (rawSizes o e)).sum ≤ e.size)
    (hlen : e.elems.length ≤ e.hkeys.length) :
    hkeyElements_Split env (cH e) =
      some (.hkey (cH (HkeyElems.split o e).1), .hkey (cH (HkeyElems.split o e).2), none, cH (HkeyElems.split o e).1) := by
  have hlen' : (dg (rawSizes o e)).length = e.elems.length := by simp [dg, rawSizes]
  simp only [hkeyElements_Split, hkeyElements_Size, HkeyElems.split, dg_rawSizes, cH]
  simp only [Gen.hkeyElementsPrefixSize] at hpre ⊢
  have e8 : UInt32.ofNat 8 = u32 8 := rfl
  have e1 : (1 : UInt32) = u32 1 := rfl
  have e0 : (0 : UInt32) = u32 0 := rfl
  rw [e8, e1, e0, u32_sub (by omega) hs, u32_add (by omega), u32_half' (by omega)]
  have hloop := hkeySplitFull_loop o T env hE ((e.size - 8 + 1) / 2) (e.size - 8) (by omega) (by omega) e.elems 0 0
    (by simpa [rawSizes] using (show 0 + (dg (rawSizes o e)).sum ≤ e.size - 8 by omega))
  have hb := splitLoop_bounds ((e.size - 8 + 1) / 2) (e.size - 8) (dg (rawSizes o e)) 0 0
  rw [hlen'] at hb
  have hr : e.elems.map (fun el => el.size o) = rawSizes o e := rfl
  rw [hr] at hloop
  have hz : (Int.ofNat 0) = (0 : Int) := rfl
  rw [hz] at hloop
  rw [hloop]
  generalize HkeyElems.splitLoop ((e.size - 8 + 1) / 2) (e.size - 8) (dg (rawSizes o e)) 0 0 = r at *
  obtain ⟨lc, ls⟩ := r
  simp only at hb ⊢
  have hlc1 : lc ≤ (u64s e.hkeys).length := by rw [u64s_length]; omega
  rw [split_eq _ lc hlc1, split_eq _ lc (by omega)]
  simp only [u64s_take, u64s_drop]
  rw [u32_sub (by omega) (by omega), u32_add (by omega), u32_add (by omega)]

end hkey

end Atree.TransEq
