import AtreeProofs.Props.TransElemClosedSlab
import AtreeProofs.MapInv
/-
  WP13, part 6: the guards of the closed functions follow from the map element invariant `ElemsInv` and explicit `uint`
  range conditions on MODEL values.  Done here for `Get` (`mcl_QG_of_inv`), giving the final statements
  `elements_Get_eq_model_closed` and `MapDataSlab_Get_eq_model_closed`.  Core Lean only.
-/
namespace Atree.TransEq
open Atree

/-- range condition of `Get`: every digest of every (nested) digest table is a `uint64`, fewer than 2^62 entries per
    table -/
def mcl_FitG : (r : Nat) → MElems r → Prop
  | 0, _ => True
  | r + 1, (he : HkeyElems (MElems r)) =>
    (∀ x ∈ he.hkeys, x < 2^64) ∧ he.hkeys.length < 2^62 ∧
    ∀ el ∈ he.elems, ∀ g, mei_nested el = some g → mcl_FitG r g

/-- what the storage holds: in state `c` it returns, for every external collision group among the (first-level)
    elements of `e`, the slab the model embeds in the element -/
def mcl_RetrOk {X : Type} (retr : mcl_Retrs X) (c : Ctx) : (r : Nat) → MElems r → Prop
  | 0, _ => True
  | r + 1, (he : HkeyElems (MElems r)) =>
    ∀ id sz s, MElemF.ext id sz s ∈ he.elems → retr r c id = (.dataSlab (mei_cGroupSlab s), true, none, c)

section inv
variable {X : Type} (k : MKey) (retr : mcl_Retrs X) (T L : Nat) (D : DigestFn L)

theorem mcl_QG_of_inv (hkd : ∀ lvl, k.dig lvl < 2^64) (hL : L < 2^64) (c : Ctx) :
    ∀ (r level : Nat) (path : List Nat) (e : MElems r), ElemsInv T L D r level path e → mcl_FitG r e →
      (level = 0 → mcl_RetrOk retr c r e) → mcl_QG k retr r e level c
  | 0, _, _, _, _, _, _ => trivial
  | r + 1, level, path, (e : HkeyElems (MElems r)), hinv, hfit, hret => by
    obtain ⟨hLr, _, hlen, _, _, hel⟩ := hinv
    obtain ⟨hdig, hshort, hnest⟩ := hfit
    show mcl_QgH k (mcl_Pg (retr r) (mcl_QG k retr r)) e level c
    refine ⟨⟨hlen.symm, hdig, hshort⟩, hkd level, ?_⟩
    intro i el hi
    have hmem : el ∈ e.elems := List.mem_of_getElem? hi
    have hlt : i < e.hkeys.length := by
      have := (List.getElem?_eq_some_iff.mp hi).1; omega
    have hhk : e.hkeys[i]? = some (e.hkeys[i]) := List.getElem?_eq_getElem hlt
    have h := hel i _ el hhk hi
    refine ⟨by omega, ?_, ?_⟩
    · intro g hg
      cases el with
      | single x => simp [mei_nested] at hg
      | inl g' =>
        simp only [mei_nested, Option.some.injEq] at hg
        subst hg
        exact mcl_QG_of_inv hkd hL c r (level + 1) _ g' h.1 (hnest _ hmem g' rfl) (fun h0 => by omega)
      | ext id sz s =>
        simp only [mei_nested, Option.some.injEq] at hg
        subst hg
        exact mcl_QG_of_inv hkd hL c r (level + 1) _ s.elems h.2.2.2.2.2.1 (hnest _ hmem s.elems rfl) (fun h0 => by omega)
    · intro id sz s hs
      subst hs
      exact hret h.1 id sz s hmem

end inv

section final
variable {X : Type} (cfg : MCfg) (k : MKey) (retr : mcl_Retrs X) (T : Nat) (D : DigestFn cfg.L)

/-- **CLOSED `Get`.**  For every level index `r`: under the map element invariant, digests (of the tables and of the key)
    in `uint64` range, fewer than 2^62 entries per table, and a storage that returns the slabs of the first-level external
    groups, the closed generated `elements.Get` (generated `hkeyElements_Get` ⇄ generated `element_Get` dispatchers ⇄ ... ⇄
    generated `singleElements_Get`; no model operation inside) applied to `e` equals the model's `(MElems.ops r).get`.
    No hypothesis about generated code or an environment. -/
theorem elements_Get_eq_model_closed (hL : cfg.L < 2^64) (hT : cfg.T < 2^32) (hTe : maxInlineMapElem cfg.T < 2^32)
    (hcl : cfg.climit < 2^32) (hkd : ∀ lvl, k.dig lvl < 2^64)
    (r level : Nat) (path : List Nat) (e : MElems r) (c : Ctx)
    (hinv : ElemsInv T cfg.L D r level path e) (hfit : mcl_FitG r e) (hret : level = 0 → mcl_RetrOk retr c r e) :
    clElements_Get cfg retr r e c k (u64 level) (u64 (k.dig level)) (.key k) =
      mei_rGet c ((MElems.ops r).get cfg e level k) := by
  have hl : level < 2^64 := by
    cases r with
    | zero => have := hinv.1; omega
    | succ r => have := hinv.1; omega
  exact elements_Get_eq_model_closed_of_guard cfg k retr hL hT hTe hcl r e level c hl
    (mcl_QG_of_inv k retr T cfg.L D hkd hL c r level path e hinv hfit hret)

/-- **CLOSED `Get` on a data slab of the tree** (`MapSlab.Get` promoted to the closed `elements.Get`) = `MDataSlab.get` -/
theorem MapDataSlab_Get_eq_model_closed {r : Nat} (hr : cfg.L = r + 1) (D' : DigestFn (r + 1))
    (hL : cfg.L < 2^64) (hT : cfg.T < 2^32) (hTe : maxInlineMapElem cfg.T < 2^32)
    (hcl : cfg.climit < 2^32) (hkd : ∀ lvl, k.dig lvl < 2^64) (top : Bool)
    (s : MDataSlab r) (x : Option X) (c : Ctx) (hinv : MDataInv T D' top s) (hfit : mcl_FitG (r + 1) s.elems)
    (hret : mcl_RetrOk retr c (r + 1) s.elems) :
    (clEnvB cfg retr (r + 1)).MapSlab_Get (.dataSlab (mei_cData s x)) c k (u64 0) (u64 (k.dig 0)) (.key k) =
      mei_rGet c (MDataSlab.get cfg s k) :=
  MapDataSlab_Get_eq_model_closed_of_guard cfg k retr hL hT hTe hcl s x c
    (mcl_QG_of_inv k retr T (r + 1) D' hkd (hr ▸ hL) c (r + 1) 0 [] s.elems hinv.elems_inv hfit (fun _ => hret))

end final
end Atree.TransEq
