import AtreeProofs.Props.TransElemClosedSlab
import AtreeProofs.MapInv
/-
  WP13, part 6: the guards of the closed functions follow from the map element invariant `ElemsInv` and explicit `uint`
  range conditions on MODEL values.  Done here for `Get` (`mcl_QG_of_inv`), giving the final statements
  `elements_Get_eq_model_closed` and `MapDataSlab_Get_eq_model_closed`.  Core Lean only.
-/
namespace Atree.TransEq
open Atree

/-- range condition of `Get`: every digest of every (nested) digest table is a `uint64`, fewer than 2^62 entries per
    table -/
def mcl_FitG : (r : Nat) → MElems r → Prop
  | 0, _ => True
  | r + 1, (he : HkeyElems (MElems r)) =>
    (∀ x ∈ he.hkeys, x < 2^64) ∧ he.hkeys.length < 2^62 ∧
    ∀ el ∈ he.elems, ∀ g, mei_nested el = some g → mcl_FitG r g

/-- what the storage holds: in state `c` it returns, for every external collision group among the (first-level)
    elements of `e`, the slab the model embeds in the element -/
def mcl_RetrOk {X : Type} (retr : mcl_Retrs X) (c : Ctx) : (r : Nat) → MElems r → Prop
  | 0, _ => True
  | r + 1, (he : HkeyElems (MElems r)) =>
    ∀ id sz s, MElemF.ext id sz s ∈ he.elems → retr r c id = (.dataSlab (mei_cGroupSlab s), true, none, c)

section inv
variable {X : Type} (k : MKey) (retr : mcl_Retrs X) (T L : Nat) (D : DigestFn L)

theorem mcl_QG_of_inv (hkd : ∀ lvl, k.dig lvl < 2^64) (hL : L < 2^64) (c : Ctx) :
    ∀ (r level : Nat) (path : List Nat) (e : MElems r), ElemsInv T L D r level path e → mcl_FitG r e →
      (level = 0 → mcl_RetrOk retr c r e) → mcl_QG k retr r e level c
  | 0, _, _, _, _, _, _ => trivial
  | r + 1, level, path, (e : HkeyElems (MElems r)), hinv, hfit, hret => by
    obtain ⟨hLr, _, hlen, _, _, hel⟩ := hinv
    obtain ⟨hdig, hshort, hnest⟩ := hfit
    show mcl_QgH k (mcl_Pg (retr r) (mcl_QG k retr r)) e level c
    refine ⟨⟨hlen.symm, hdig, hshort⟩, hkd level, ?_⟩
    intro i el hi
    have hmem : el ∈ e.elems := List.mem_of_getElem? hi
    have hlt : i < e.hkeys.length := by
      have := (List.getElem?_eq_some_iff.mp hi).1; omega
    have hhk : e.hkeys[i]? = some (e.hkeys[i]) := List.getElem?_eq_getElem hlt
    have h := hel i _ el hhk hi
    refine ⟨by omega, ?_, ?_⟩
    · intro g hg
      cases el with
      | single x => simp [mei_nested] at hg
      | inl g' =>
        simp only [mei_nested, Option.some.injEq] at hg
        subst hg
        exact mcl_QG_of_inv hkd hL c r (level + 1) _ g' h.1 (hnest _ hmem g' rfl) (fun h0 => by omega)
      | ext id sz s =>
        simp only [mei_nested, Option.some.injEq] at hg
        subst hg
        exact mcl_QG_of_inv hkd hL c r (level + 1) _ s.elems h.2.2.2.2.2.1 (hnest _ hmem s.elems rfl) (fun h0 => by omega)
    · intro id sz s hs
      subst hs
      exact hret h.1 id sz s hmem

end inv

section final
variable {X : Type} (cfg : MCfg) (k : MKey) (retr : mcl_Retrs X) (T : Nat) (D : DigestFn cfg.L)

/-- **CLOSED `Get`.**  For every level index `r`: under the map element invariant, digests (of the tables and of the key)
    in `uint64` range, fewer than 2^62 entries per table, and a storage that returns the slabs of the first-level external
    groups, the closed generated `elements.Get` (generated `hkeyElements_Get` ⇄ generated `element_Get` dispatchers ⇄ ... ⇄
    generated `singleElements_Get`; no model operation inside) applied to `e` equals the model's `(MElems.ops r).get`.
    No hypothesis about generated code or an environment. -/
theorem elements_Get_eq_model_closed (hL : cfg.L < 2^64) (hT : cfg.T < 2^32) (hTe : maxInlineMapElem cfg.T < 2^32)
    (hcl : cfg.climit < 2^32) (hkd : ∀ lvl, k.dig lvl < 2^64)
    (r level : Nat) (path : List Nat) (e : MElems r) (c : Ctx)
    (hinv : ElemsInv T cfg.L D r level path e) (hfit : mcl_FitG r e) (hret : level = 0 → mcl_RetrOk retr c r e) :
    clElements_Get cfg retr r e c k (u64 level) (u64 (k.dig level)) (.key k) =
      mei_rGet c ((MElems.ops r).get cfg e level k) := by
  have hl : level < 2^64 := by
    cases r with
    | zero => have := hinv.1; omega
    | succ r => have := hinv.1; omega
  exact elements_Get_eq_model_closed_of_guard cfg k retr hL hT hTe hcl r e level c hl
    (mcl_QG_of_inv k retr T cfg.L D hkd hL c r level path e hinv hfit hret)

/-- **CLOSED `Get` on a data slab of the tree** (`MapSlab.Get` promoted to the closed `elements.Get`) = `MDataSlab.get` -/
theorem MapDataSlab_Get_eq_model_closed {r : Nat} (hr : cfg.L = r + 1) (D' : DigestFn (r + 1))
    (hL : cfg.L < 2^64) (hT : cfg.T < 2^32) (hTe : maxInlineMapElem cfg.T < 2^32)
    (hcl : cfg.climit < 2^32) (hkd : ∀ lvl, k.dig lvl < 2^64) (top : Bool)
    (s : MDataSlab r) (x : Option X) (c : Ctx) (hinv : MDataInv T D' top s) (hfit : mcl_FitG (r + 1) s.elems)
    (hret : mcl_RetrOk retr c (r + 1) s.elems) :
    (clEnvB cfg retr (r + 1)).MapSlab_Get (.dataSlab (mei_cData s x)) c k (u64 0) (u64 (k.dig 0)) (.key k) =
      mei_rGet c (MDataSlab.get cfg s k) :=
  MapDataSlab_Get_eq_model_closed_of_guard cfg k retr hL hT hTe hcl s x c
    (mcl_QG_of_inv k retr T (r + 1) D' hkd (hr ▸ hL) c (r + 1) 0 [] s.elems hinv.elems_inv hfit (fun _ => hret))

/-! ### `Remove` and `Set`: closed, but the guard is not yet derived from `ElemsInv`

  FULL statements (not proved in this form):
    elements_Remove_eq_model_closed : ElemsInv T cfg.L D r level path e → (range conditions: sizes / counts < 2^32,
      digests / levels < 2^64, fewer than 2^62 entries, the storage returns the first-level group slabs) →
      clElements_Remove cfg retr r e c k (u64 level) (u64 (k.dig level)) (.key k) =
        mei_rGRemove e c ((MElems.ops r).remove cfg e level k c)
    elements_Set_eq_model_closed : the same for `clElements_Set` / `(MElems.ops r).set`.
  PROVED: the same equations under the recursive guards `mcl_QR` / `mcl_QS`, which are predicates on MODEL values and on
  what the storage returns only (well-formed tables, `uint` ranges of the argument AND of the model's results at every
  level on the search path, `digestSize + size(el) ≤ size` bookkeeping, the model's `newWith` succeeds on a collision,
  owner address of the group slabs) — no hypothesis about generated code or an environment is left.  MISSING: the lemma
  `ElemsInv → ranges → mcl_QR / mcl_QS` (the analogue of `mcl_QG_of_inv`; it needs that the model's `set` / `remove`
  preserve the size bookkeeping of `ElemsInv`, `Map/EffectsElems.lean`). -/

theorem elements_Remove_eq_model_closed_partial (hL : cfg.L < 2^64) (hT : cfg.T < 2^32) (hTe : maxInlineMapElem cfg.T < 2^32)
    (hcl : cfg.climit < 2^32) (r : Nat) (e : MElems r) (level : Nat) (c : Ctx) (hl : level < 2^64)
    (hQ : mcl_QR cfg k retr r e level c) :
    clElements_Remove cfg retr r e c k (u64 level) (u64 (k.dig level)) (.key k) =
      mei_rGRemove e c ((MElems.ops r).remove cfg e level k c) :=
  elements_Remove_eq_model_closed_of_guard cfg k retr hL hT hTe hcl r e level c hl hQ

theorem elements_Set_eq_model_closed_partial (v : Elem) (hL : cfg.L < 2^64) (hT : cfg.T < 2^32)
    (hTe : maxInlineMapElem cfg.T < 2^32) (hcl : cfg.climit < 2^32) (r : Nat) (e : MElems r) (level : Nat) (c : Ctx)
    (hl : level < 2^64) (hQ : mcl_QS cfg k v retr r e level c) :
    clElements_Set cfg retr r e c cfg.addr () k (u64 level) (u64 (k.dig level)) (.key k) (.val v) =
      mei_rGSet e c ((MElems.ops r).set cfg e level k v c) :=
  elements_Set_eq_model_closed_of_guard cfg k v retr hL hT hTe hcl r e level c hl hQ

/-- `MapDataSlab.Set` under the closed environment = `MDataSlab.set` (guard `mcl_QS` instead of `MDataInv` + ranges) -/
theorem MapDataSlab_Set_eq_model_closed_partial (v : Elem) (hL : cfg.L < 2^64) (hT : cfg.T < 2^32)
    (hTe : maxInlineMapElem cfg.T < 2^32) (hcl : cfg.climit < 2^32) {r : Nat} (s : MDataSlab r) (x : Option X)
    (hx : x.isSome = s.root) (c : Ctx) (ha : s.hdr.id.addr = cfg.addr) (hQ : mcl_QS cfg k v retr (r + 1) s.elems 0 c) :
    Gen.TransElem.MapDataSlab_Set (clEnvB cfg retr (r + 1)) (mei_cData s x) c () k (u64 0) (u64 (k.dig 0)) (.key k) (.val v) =
      match MDataSlab.set cfg s k v c with
      | .ok (ks, old, s', c') => some (some (.key ks), old.map .val, none, mei_cData s' x, c')
      | .error err => some (none, none, some err, mei_cData s x, c) :=
  MapDataSlab_Set_eq_model_closed_of_guard cfg k v retr hL hT hTe hcl s x hx c ha hQ

/-- `MapDataSlab.Remove` under the closed environment = `MDataSlab.remove` (guard `mcl_QR` instead of `MDataInv` + ranges) -/
theorem MapDataSlab_Remove_eq_model_closed_partial (hL : cfg.L < 2^64) (hT : cfg.T < 2^32)
    (hTe : maxInlineMapElem cfg.T < 2^32) (hcl : cfg.climit < 2^32) {r : Nat} (s : MDataSlab r) (x : Option X)
    (hx : x.isSome = s.root) (c : Ctx) (hQ : mcl_QR cfg k retr (r + 1) s.elems 0 c) :
    Gen.TransElem.MapDataSlab_Remove (clEnvB cfg retr (r + 1)) (mei_cData s x) c k (u64 0) (u64 (k.dig 0)) (.key k) =
      match MDataSlab.remove cfg s k c with
      | .ok (rk, rv, s', c') => some (some (.key rk), some (.val rv), none, mei_cData s' x, c')
      | .error err => some (none, none, some err, mei_cData s x, c) :=
  MapDataSlab_Remove_eq_model_closed_of_guard cfg k retr hL hT hTe hcl s x hx c hQ

end final
end Atree.TransEq
