import AtreeProofs.Props.Trans
import AtreeProofs.Props.TransLoops
import AtreeProofs.Props.TransMeta
import AtreeProofs.Array.Route
import AtreeProofs.MapInv
/-
  TRANSLATION EQUIVALENCE, part 4 ("ArithSafe"): the range hypotheses of parts 1-3 follow from the tree invariants
  (`DataInv` / `TreeInv` of AtreeProofs/ArrayInv.lean, `MDataInv` of MapInv.lean) and `legalThreshold T`.  The
  theorems here have NO numeric side conditions: for every slab of a valid tree, Go's wrap-around computation is the
  model's `Nat` computation.
-/
namespace Atree.TransEq
open Atree Atree.Gen.Trans

/-! ## thresholds -/

/-- every derived threshold of a legal slab size fits `uint32`, and the subtractions of map_elements_hashkey.go
    (`minThreshold - mapDataSlabPrefixSize - hkeyElementsPrefixSize`) cannot underflow -/
theorem thresholds_fit {T : Nat} (hT : legalThreshold T = true) :
    T < 2^32 ∧ minThr T < 2^32 ∧ maxThr T < 2^32 ∧ maxThr T ≤ 49152 ∧ 128 ≤ minThr T ∧
    Gen.mapDataSlabPrefixSize + Gen.hkeyElementsPrefixSize ≤ minThr T ∧ Gen.mapDataSlabPrefixSize ≤ minThr T := by
  have f := thrFacts hT
  have := f.lo; have := f.hi
  rw [f.minE, f.maxE]
  simp only [Gen.mapDataSlabPrefixSize, Gen.hkeyElementsPrefixSize]
  omega

/-- what `setThreshold` leaves in the package variables, for every legal slab size, is what the model's
    `minThr / maxThr / maxInline…` say (`setThreshold_eq_model` without side conditions) -/
theorem setThreshold_legal {T : Nat} (hT : legalThreshold T = true) :
    setThreshold (u32 T) =
      some (u32 T, u32 (minThr T), u32 (maxThr T), u32 (maxInlineArr T), u32 (maxInlineMapElem T),
            u32 (maxInlineMapKey T)) := by
  rw [setThreshold_eq_model T (thresholds_fit hT).1, hT]; rfl

/-! ## array data slabs of a valid tree -/

section
variable {T : Nat} {top : Bool} {s : DataSlab}

theorem dataInv_fits (hT : legalThreshold T = true) (h : DataInv T top s) :
    s.hdr.size < 2^32 ∧ sumSizes s.elems ≤ s.hdr.size := by
  have := thresholds_fit hT
  have h1 := h.le_max
  have h2 := h.size_eq
  omega

/-- for every data slab of a valid array: `IsFull` -/
theorem safe_ArrayDataSlab_IsFull (hT : legalThreshold T = true) (h : DataInv T top s) :
    ArrayDataSlab_IsFull (u32 s.hdr.size) (u32 (maxThr T)) = s.isFull T :=
  ArrayDataSlab_IsFull_eq_model T s (dataInv_fits hT h).1 (thresholds_fit hT).2.2.1

/-- … `IsUnderflow` -/
theorem safe_ArrayDataSlab_IsUnderflow (hT : legalThreshold T = true) (h : DataInv T top s) :
    optOfPair (ArrayDataSlab_IsUnderflow (u32 s.hdr.size) (u32 (minThr T))) = s.isUnderflow T :=
  ArrayDataSlab_IsUnderflow_eq_model T s (dataInv_fits hT h).1 (thresholds_fit hT).2.1

/-- … `CanLendToLeft(size)` for EVERY `uint32` request -/
theorem safe_ArrayDataSlab_CanLendToLeft (hT : legalThreshold T = true) (h : DataInv T top s) (want : Nat)
    (hw : want < 2^32) :
    ArrayDataSlab_CanLendToLeft (u32 s.hdr.size) (u32s (sizesOf s.elems)) (u32 want) (u32 (minThr T)) =
      s.canLendToLeft T want :=
  ArrayDataSlab_CanLendToLeft_eq_model T s want (dataInv_fits hT h).1 (thresholds_fit hT).2.1 hw
    (dataInv_fits hT h).2

/-- … `CanLendToRight(size)` -/
theorem safe_ArrayDataSlab_CanLendToRight (hT : legalThreshold T = true) (h : DataInv T top s) (want : Nat)
    (hw : want < 2^32) :
    ArrayDataSlab_CanLendToRight (u32 s.hdr.size) (u32s (sizesOf s.elems)) (u32 want) (u32 (minThr T)) =
      s.canLendToRight T want :=
  ArrayDataSlab_CanLendToRight_eq_model T s want (dataInv_fits hT h).1 (thresholds_fit hT).2.1 hw
    (dataInv_fits hT h).2
end

/-- The state in which `Split`, `LendToRight`, `BorrowFromRight` (and `IsFull` after a mutation) see a data slab:
    bookkeeping exact, no empty elements, not a root and not inlined (`Array.splitRoot` re-labels the root first),
    but possibly outside the size band - by at most one slab's worth (one element was just inserted / replaced /
    removed). -/
structure DataWork (T : Nat) (s : DataSlab) : Prop where
  count_eq : s.hdr.count = s.elems.length
  size_eq  : s.hdr.size = s.prefixSize + sumSizes s.elems
  elems_pos : ∀ e ∈ s.elems, 1 ≤ e.size
  plain    : s.root = false ∧ s.inlined = false
  size_le  : s.hdr.size ≤ 2 * maxThr T

/-- every non-root data slab of a valid tree is in that state … -/
theorem DataWork.of_inv {T : Nat} {s : DataSlab} (h : DataInv T false s) : DataWork T s :=
  ⟨h.count_eq, h.size_eq, fun e he => (h.elems_ok e he).1, ⟨h.root_eq, by
      cases hi : s.inlined with
      | false => rfl
      | true => exact absurd (h.inl_root hi) (by simp)⟩, by have := h.le_max; omega⟩

/-- … and stays in it when one admissible element is inserted (the overfull slab that `Split` then sees) -/
theorem DataWork.insert {T : Nat} {s : DataSlab} (hT : legalThreshold T = true) (h : DataInv T false s) (i : Nat)
    (e : Elem) (hi : i ≤ s.elems.length) (he : ElemOk T e) :
    DataWork T { s with elems := s.elems.insertIdx i e,
                        hdr := { s.hdr with count := s.hdr.count + 1, size := s.hdr.size + e.size } } := by
  have hw := DataWork.of_inv h
  refine ⟨?_, ?_, ?_, hw.plain, ?_⟩
  · simp [List.length_insertIdx, hi, h.count_eq]
  · show s.hdr.size + e.size = s.prefixSize + sumSizes (s.elems.insertIdx i e)
    rw [sumSizes_insertIdx _ _ _ hi, h.size_eq]; omega
  · intro x hx
    rcases List.mem_insertIdx hi |>.mp hx with rfl | hx'
    · exact he.1
    · exact hw.elems_pos x hx'
  · show s.hdr.size + e.size ≤ 2 * maxThr T
    have h1 := h.le_max
    have h2 := he.2
    have f := thrFacts hT
    have := f.lo; have := f.hi
    rw [f.inlE] at h2
    rw [f.maxE] at h1 ⊢
    omega

theorem length_le_sumSizes (l : List Elem) (h : ∀ e ∈ l, 1 ≤ e.size) : l.length ≤ sumSizes l := by
  induction l with
  | nil => simp [sumSizes]
  | cons a t ih =>
    rw [sumSizes_cons, List.length_cons]
    have := h a (by simp)
    have := ih (fun e he => h e (by simp [he]))
    omega

section
variable {T : Nat} {s l r : DataSlab}

theorem dataWork_prefix (h : DataWork T s) : s.prefixSize = Gen.arrayDataSlabPrefixSize := by
  simp [DataSlab.prefixSize, h.plain.1, h.plain.2]

theorem dataWork_fits (hT : legalThreshold T = true) (h : DataWork T s) :
    s.hdr.size ≤ 98304 ∧ s.hdr.count ≤ s.hdr.size ∧
    Gen.arrayDataSlabPrefixSize + sumSizes s.elems = s.hdr.size ∧ s.hdr.count = s.elems.length := by
  have := thresholds_fit hT
  have h1 := h.size_le
  have h2 := h.size_eq
  rw [dataWork_prefix h] at h2
  have h3 := length_le_sumSizes s.elems h.elems_pos
  have h4 := h.count_eq
  omega

/-- `ArrayDataSlab.Split` on every slab it can be called on -/
theorem safe_ArrayDataSlab_Split (hT : legalThreshold T = true) (h : DataWork T s) (c : Ctx) :
    ArrayDataSlab_Split (u32 s.hdr.size) (u32s (sizesOf s.elems)) =
      match s.split c with
      | .error _ => none
      | .ok (l, r, _) =>
        some (Int.ofNat l.hdr.count, u32 (l.hdr.size - Gen.arrayDataSlabPrefixSize), u32 r.hdr.size,
              u32 l.hdr.size, u32 l.hdr.count) := by
  have := dataWork_fits hT h
  exact ArrayDataSlab_Split_eq_model s c (by omega) (by omega)

/-- `ArrayDataSlab.LendToRight` on every pair of siblings it can be called on -/
theorem safe_ArrayDataSlab_LendToRight (hT : legalThreshold T = true) (hl : DataWork T l) (hr : DataWork T r) :
    ArrayDataSlab_LendToRight (u32 l.hdr.size) (u32 l.hdr.count) (u32s (sizesOf l.elems)) (u32 r.hdr.size)
        (u32 r.hdr.count) (u32 (minThr T)) =
      some (u32 (l.lendToRight T r).1.hdr.count, u32 (l.lendToRight T r).1.hdr.size,
            u32 (l.hdr.count - (l.lendToRight T r).1.hdr.count),
            u32 (l.lendToRight T r).1.hdr.size, u32 (l.lendToRight T r).1.hdr.count,
            u32 (l.lendToRight T r).2.hdr.size, u32 (l.lendToRight T r).2.hdr.count) := by
  have ht := thresholds_fit hT
  have h1 := dataWork_fits hT hl
  have h2 := dataWork_fits hT hr
  exact ArrayDataSlab_LendToRight_eq_model T l r ht.2.1 (by omega) (by omega) (by omega) (by omega)

/-- `ArrayDataSlab.BorrowFromRight` on every pair of siblings it can be called on -/
theorem safe_ArrayDataSlab_BorrowFromRight (hT : legalThreshold T = true) (hl : DataWork T l) (hr : DataWork T r) :
    ArrayDataSlab_BorrowFromRight (u32 l.hdr.size) (u32 l.hdr.count) (u32 r.hdr.size) (u32 r.hdr.count)
        (u32s (sizesOf r.elems)) (u32 (minThr T)) =
      some (u32 (l.borrowFromRight T r).1.hdr.count, u32 (l.borrowFromRight T r).1.hdr.size,
            u32 ((l.borrowFromRight T r).1.hdr.count - l.hdr.count),
            u32 (l.borrowFromRight T r).1.hdr.size, u32 (l.borrowFromRight T r).1.hdr.count,
            u32 (l.borrowFromRight T r).2.hdr.size, u32 (l.borrowFromRight T r).2.hdr.count) := by
  have ht := thresholds_fit hT
  have h1 := dataWork_fits hT hl
  have h2 := dataWork_fits hT hr
  exact ArrayDataSlab_BorrowFromRight_eq_model T l r ht.2.1 (by omega) (by omega) (by omega) (by omega)
end

/-! ## routing through an array index slab of a valid tree -/

section
open MetaSlab ATree
variable {d : Nat}

theorem sumCounts_take_le (hs : List Hdr) (k : Nat) : sumCounts (hs.take k) ≤ sumCounts hs := by
  have := sumCounts_take_add_drop k hs; omega

theorem prefixSums_mem_le (hs : List Hdr) (acc : Nat) : ∀ x ∈ prefixSums hs acc, x ≤ acc + sumCounts hs := by
  induction hs generalizing acc with
  | nil => intro x hx; simp [prefixSums] at hx
  | cons h t ih =>
    intro x hx
    rw [prefixSums_cons] at hx
    rw [sumCounts_cons]
    rcases List.mem_cons.mp hx with rfl | hx'
    · omega
    · have := ih _ x hx'; omega

theorem count_mem_le (hs : List Hdr) : ∀ x ∈ countsOf hs, x ≤ sumCounts hs := by
  induction hs with
  | nil => intro x hx; simp [countsOf] at hx
  | cons h t ih =>
    intro x hx
    rw [sumCounts_cons]
    simp only [countsOf, List.map_cons, List.mem_cons] at hx
    rcases hx with rfl | hx'
    · omega
    · have := ih x (by simpa [countsOf] using hx'); omega

theorem length_le_sumCounts (hs : List Hdr) (hpos : ∀ h ∈ hs, 1 ≤ h.count) : hs.length ≤ sumCounts hs := by
  induction hs with
  | nil => simp [sumCounts_nil]
  | cons h t ih =>
    rw [sumCounts_cons, List.length_cons]
    have := hpos h (by simp)
    have := ih (fun x hx => hpos x (by simp [hx]))
    omega

/-- For every index slab of a valid array (`Book`: header copies and cumulative counts agree with the children;
    non-empty children; total count below 2^32, which `ArrInv.count_lt` gives) and every index below the count,
    Go's `childSlabIndexInfo` - uint64/uint32/int arithmetic, linear scan or binary search - returns exactly the
    child position and adjusted index of the model.  No range hypotheses: in particular the subtraction
    `index + count[k] - countSum[k]` cannot wrap around. -/
theorem safe_childSlabIndexInfo (m : MetaSlab (ATree d)) (hb : Book m) (hc : m.hdr.count = sumCounts m.childHdrs)
    (hpos : ∀ t ∈ m.children, 1 ≤ (hdr d t).count) (hcnt : m.hdr.count < 2^32) (i : Nat) (hi : i < m.hdr.count) :
    ∃ k adj, m.childSlabIndexInfo i = .ok (k, adj) ∧
      ArrayMetaDataSlab_childSlabIndexInfo (u32 m.hdr.count) (u32s m.countSum) (u32s (countsOf m.childHdrs))
        (u64 i) = some (Int.ofNat k, u64 adj) := by
  obtain ⟨A, child, B, hch, h1, h2, hres⟩ := route_spec m hb hc hpos i hi
  refine ⟨A.length, i - sumCounts (A.map (hdr d)), hres, ?_⟩
  have hh : m.childHdrs = A.map (hdr d) ++ hdr d child :: B.map (hdr d) := by
    rw [hb.hdrs_eq, hch]; simp
  have hposh : ∀ h ∈ m.childHdrs, 1 ≤ h.count := by
    intro h hh'
    rw [hb.hdrs_eq] at hh'
    obtain ⟨t, ht, rfl⟩ := List.mem_map.1 hh'
    exact hpos t ht
  have hlenA : (A.map (hdr d)).length = A.length := by simp
  have hk : A.length < m.childHdrs.length := by rw [hh]; simp
  -- the two table entries at position k
  have e1 : (countsOf m.childHdrs).getD A.length 0 = (hdr d child).count := by
    rw [hh]; simp [countsOf, List.getD_eq_getElem?_getD, List.getElem?_append_right]
  have e2 : m.countSum.getD A.length 0 = sumCounts (A.map (hdr d)) + (hdr d child).count := by
    rw [hb.sums_eq, prefixSums_getD _ 0 _ hk, hh, Nat.zero_add]
    have : (A.map (hdr d) ++ hdr d child :: B.map (hdr d)).take (A.length + 1) = A.map (hdr d) ++ [hdr d child] := by
      rw [← hlenA, List.take_append, List.take_of_length_le (by omega)]; simp
    rw [this, sumCounts_append, sumCounts_cons, sumCounts_nil]; omega
  have hcs : ∀ x ∈ m.countSum, x < 2^32 := by
    intro x hx
    rw [hb.sums_eq] at hx
    have := prefixSums_mem_le _ 0 x hx
    omega
  have hchs : ∀ x ∈ countsOf m.childHdrs, x < 2^32 := by
    intro x hx
    have := count_mem_le _ x hx
    omega
  have hlen : m.countSum.length < 2^63 := by
    rw [hb.sums_eq, prefixSums_length]
    have := length_le_sumCounts _ hposh
    omega
  have main := ArrayMetaDataSlab_childSlabIndexInfo_eq_model m i (by omega) hcnt hcs hchs hlen
  rw [hres] at main
  exact main (by rw [e1, e2]; omega)

end

/-! ## map data slabs of a valid tree -/

section
variable {T r : Nat} {D : DigestFn (r + 1)} {top : Bool} {s : MDataSlab r}

theorem mdataInv_fits (hT : legalThreshold T = true) (h : MDataInv T D top s) :
    s.hdr.size < 2^32 ∧ s.elems.size < 2^32 ∧
    (dg (rawSizes (MDataSlab.eops r) s.elems)).sum ≤ s.elems.size := by
  have := thresholds_fit hT
  have h1 := h.le_max
  have h2 := h.size_eq
  have h3 : s.elems.size = Gen.hkeyElementsPrefixSize + HkeyElems.elemSizes (MElems.ops r) s.elems.elems := by
    have := h.elems_inv
    simp only [ElemsInv] at this
    exact this.2.2.2.2.1
  have h4 : (dg (rawSizes (MDataSlab.eops r) s.elems)).sum = HkeyElems.elemSizes (MElems.ops r) s.elems.elems := by
    rw [← dg_rawSizes]; rfl
  omega

/-- for every data slab of a valid map: `IsFull` / `IsUnderflow` / `CanLendToLeft` / `CanLendToRight`, the last two
    for EVERY `uint32` request -/
theorem safe_MapDataSlab_IsFull (hT : legalThreshold T = true) (h : MDataInv T D top s) :
    MapDataSlab_IsFull false (u32 s.hdr.size) (u32 (maxThr T)) = s.isFull T :=
  MapDataSlab_IsFull_eq_model T s (mdataInv_fits hT h).1 (thresholds_fit hT).2.2.1

theorem safe_MapDataSlab_IsUnderflow (hT : legalThreshold T = true) (h : MDataInv T D top s) :
    optOfPair (MapDataSlab_IsUnderflow false (u32 s.hdr.size) (u32 (minThr T))) = s.isUnderflow T :=
  MapDataSlab_IsUnderflow_eq_model T s (mdataInv_fits hT h).1 (thresholds_fit hT).2.1

theorem safe_MapDataSlab_CanLendToLeft (hT : legalThreshold T = true) (h : MDataInv T D top s) (want : Nat)
    (hw : want < 2^32) :
    MapDataSlab_CanLendToLeft false (u32 s.elems.size) (u32s (rawSizes (MDataSlab.eops r) s.elems)) (u32 want)
        (u32 (minThr T)) = s.canLendToLeft T want :=
  MapDataSlab_CanLendToLeft_eq_model T s want (mdataInv_fits hT h).2.1 (thresholds_fit hT).2.1
    (thresholds_fit hT).2.2.2.2.2.2 hw (mdataInv_fits hT h).2.2

theorem safe_MapDataSlab_CanLendToRight (hT : legalThreshold T = true) (h : MDataInv T D top s) (want : Nat)
    (hw : want < 2^32) :
    MapDataSlab_CanLendToRight false (u32 s.elems.size) (u32s (rawSizes (MDataSlab.eops r) s.elems)) (u32 want)
        (u32 (minThr T)) = s.canLendToRight T want :=
  MapDataSlab_CanLendToRight_eq_model T s want (mdataInv_fits hT h).2.1 (thresholds_fit hT).2.1
    (thresholds_fit hT).2.2.2.2.2.2 hw (mdataInv_fits hT h).2.2
end

/-! ## index slabs of valid trees: `IsFull`, `IsUnderflow`, `CanLendToLeft/Right` -/

/-- array index slab of a valid tree (its header size is `12 + 14·children ≤ maxThr T`), any request below
    2^32 - 14 (callers pass an underflow size, below `minThr T`) -/
theorem safe_ArrayMetaDataSlab_decisions {T d : Nat} {top : Bool} (hT : legalThreshold T = true)
    (m : MetaSlab (ATree d)) (h : TreeInv T (d + 1) top m) (want : Nat)
    (hw : want + Gen.arraySlabHeaderSize ≤ 2^32) :
    ArrayMetaDataSlab_IsFull (u32 m.hdr.size) (u32 (maxThr T)) = m.isFull T ∧
    optOfPair (ArrayMetaDataSlab_IsUnderflow (u32 m.hdr.size) (u32 (minThr T))) = m.isUnderflow T ∧
    ArrayMetaDataSlab_CanLendToLeft (u32 m.hdr.size) (u32 want) (u32 (minThr T)) = m.canLend T want ∧
    ArrayMetaDataSlab_CanLendToRight (u32 m.hdr.size) (u32 want) (u32 (minThr T)) = m.canLend T want := by
  have ht := thresholds_fit hT
  have hle : m.hdr.size ≤ maxThr T := h.2.2.2.2.2.2.2.1
  have hs : m.hdr.size < 2^32 := by omega
  exact ⟨ArrayMetaDataSlab_IsFull_eq_model T m hs ht.2.2.1, ArrayMetaDataSlab_IsUnderflow_eq_model T m hs ht.2.1,
    ArrayMetaDataSlab_CanLendToLeft_eq_model T m want hs ht.2.1 hw,
    ArrayMetaDataSlab_CanLendToRight_eq_model T m want hs ht.2.1 hw⟩

/-! ## non-vacuity: concrete slabs that meet the hypotheses of the `safe_*` theorems -/

section
/-- a non-root data slab with four 50-byte elements under T = 256 (221 bytes: inside the band 128..384) -/
def exSlab (id : Nat) : DataSlab :=
  { hdr := ⟨⟨1, id⟩, 221, 4⟩, next := SlabID.undef,
    elems := [⟨50, .val 1⟩, ⟨50, .val 2⟩, ⟨50, .val 3⟩, ⟨50, .val 4⟩], root := false, inlined := false }

theorem exSlab_inv (id : Nat) : DataInv 256 false (exSlab id) := by
  refine ⟨rfl, rfl, ?_, rfl, by simp [exSlab], ?_, fun _ => ?_⟩
  · intro e he
    simp only [exSlab, List.mem_cons, List.not_mem_nil, or_false] at he
    rcases he with rfl | rfl | rfl | rfl <;> exact ⟨by decide, by decide⟩
  · show 221 ≤ maxThr 256; decide
  · show minThr 256 ≤ 221; decide

/-- the hypotheses of the data-slab theorems are satisfiable, and the conclusion is not trivial: this slab can lend
    40 bytes to its left sibling (one element), in Go and in the model -/
example : ArrayDataSlab_CanLendToLeft (u32 221) (u32s [50, 50, 50, 50]) (u32 40) (u32 (minThr 256)) = true ∧
    (exSlab 2).canLendToLeft 256 40 = true :=
  ⟨by rfl, by rw [← safe_ArrayDataSlab_CanLendToLeft (by decide) (exSlab_inv 2) 40 (by decide)]; rfl⟩

example : DataWork 256 (exSlab 2) := DataWork.of_inv (exSlab_inv 2)

/-- an index slab over two such data slabs: the hypotheses of `safe_childSlabIndexInfo` hold, index 5 is routed to
    child 1 with adjusted index 1 -/
def exMeta : MetaSlab (ATree 0) :=
  { hdr := ⟨⟨1, 1⟩, 40, 8⟩, childHdrs := [(exSlab 2).hdr, (exSlab 3).hdr], countSum := [4, 8],
    children := [exSlab 2, exSlab 3], root := true }

example : ∃ k adj, exMeta.childSlabIndexInfo 5 = .ok (k, adj) ∧
    ArrayMetaDataSlab_childSlabIndexInfo (u32 8) (u32s [4, 8]) (u32s [4, 4]) (u64 5) = some (Int.ofNat k, u64 adj) :=
  safe_childSlabIndexInfo exMeta ⟨rfl, rfl⟩ rfl
    (by intro t ht
        have hc : exMeta.children = [exSlab 2, exSlab 3] := rfl
        rw [hc] at ht
        have h2 : t = exSlab 2 ∨ t = exSlab 3 := by
          rcases List.mem_cons.mp ht with h | h
          · exact Or.inl h
          · exact Or.inr (List.mem_singleton.mp h)
        rcases h2 with rfl | rfl <;> decide)
    (by decide) 5 (by decide)

example : ArrayMetaDataSlab_childSlabIndexInfo (u32 8) (u32s [4, 8]) (u32s [4, 4]) (u64 5) = some (1, 1) := by rfl
end

end Atree.TransEq
