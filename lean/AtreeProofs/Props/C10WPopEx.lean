import AtreeProofs.Props.C10WPop
import AtreeProofs.World.WPopScenario
/-
  C10 — NON-VACUITY of `Props/C10WPop.lean`, on worlds obtained by running the model (T = 256;
  `AtreeProofs/World/WPopScenario.lean`), and the counterexample that forces the weakening of
  `WorldOk` to `WorldOk'`.  PROPERTY THEOREMS.
-/
namespace Atree.C10W
open Atree Gen World
open Atree.PopOkScenario

/-- COUNTEREXAMPLE (a run of the model).  Root array `R` holds the inlined array `F`, which holds
    `X`; `X` is removed from `F` through the handle of `F` (`X` is handed back; its closure keeps
    naming `F`); then `R` is popped through its handle.  The world before the pop satisfies the FULL
    invariant `WorldOk`, the handle is current, the pop succeeds — and `WorldOk` fails afterwards:
    the closure of the live `X` names `F`, which the pop has disposed of (clause `hinfoLive`).
    `WorldOk'` holds.  Hence `worldOk_arrPop` cannot conclude `WorldOk`. -/
theorem hinfoLive_fails_after_pop :
    WorldOk OkScenario.D h6.2.1 h6.2.2.ctr ∧ HandleOk h6.2.1 PopOkScenario.R ∧
    h6.2.1.arrPop PopOkScenario.R h6.2.2 = .ok h7 ∧
    ¬ HinfoLive h7.2.1 ∧ (∀ ctr, ¬ WorldOk OkScenario.D h7.2.1 ctr) ∧ WorldOk' OkScenario.D h7.2.1 h7.2.2.ctr :=
  hinfoLive_fails

/-- Non-vacuity of `worldOk_mapPop`: in the depth-3 world of `C10W.scenario_worldOk` (`R` ∋ inlined
    map `M` ∋ inlined wrapped array `A`; `R` ∋ standalone `B`) the map `M` is popped through its
    (current) handle.  The run succeeds; `A` is gone; `M` is an empty map, still inlined in `R`,
    whose element has shrunk to 22 bytes; `B` is untouched; and the invariant holds — by
    `worldOk_mapPop`, whose hypotheses are met. -/
theorem scenario_mapPop :
    WorldOk' OkScenario.D v0.1 v0.2.ctr ∧ HandleOk v0.1 OkScenario.M ∧ v0.1.mapPop OkScenario.M v0.2 = .ok p1 ∧
    WorldOk' OkScenario.D p1.2.1 p1.2.2.ctr ∧ HandleOk p1.2.1 OkScenario.M ∧
    (p1.2.1.cont? OkScenario.A).isSome = false ∧
    (p1.2.1.cont? OkScenario.M).map Cont.pays = some [] ∧
    (p1.2.1.cont? OkScenario.M).map Cont.isInlined = some true ∧
    (p1.2.1.cont? OkScenario.R).map (fun c => c.storedElems.map (·.size)) = some [22, 19] :=
  ⟨okV0, handleM, runP1, okP1.1, okP1.2.1, p1_facts.1, p1_facts.2.1, p1_facts.2.2.1, p1_facts.2.2.2.2.1⟩

/-- Non-vacuity of `worldOk_mapPopKeep`, `kept_child_after_pop`, `kept_child_arrInsert`: the same
    pop, the caller keeping the inlined child `A`.  After the pop `A` is an in-memory slab referenced
    by nobody: `WorldOkKept`, and the invariant `WorldOk'` FAILS (at `A` only).  A value is inserted
    through the handle of `A`: no other container changes.  `A` is disposed of (`World.forget`):
    the invariant holds again. -/
theorem scenario_mapPopKeep :
    v0.1.mapPopKeep OkScenario.M [OkScenario.A] v0.2 = .ok k1 ∧
    (∃ m, v0.1.cont? OkScenario.M = some (.map m) ∧
      WorldOkKept OkScenario.D (KeptOf [OkScenario.A] (.map m)) k1.2.1 k1.2.2.ctr) ∧
    DetachedRoot k1.2.1 OkScenario.A ∧ (k1.2.1.cont? OkScenario.A).map Cont.isInlined = some true ∧
    (∀ ctr, ¬ WorldOk' OkScenario.D k1.2.1 ctr) ∧
    k1.2.1.arrInsert OkScenario.A 1 (OkScenario.pl 9) k1.2.2 = .ok k2 ∧
    SigFrame k1.2.1 k2.1 OkScenario.A ∧
    (k2.1.cont? OkScenario.A).map Cont.pays = some [.val 1, .val 9] ∧
    WorldOk' OkScenario.D (World.forget k2.1.fuelOf k2.1 OkScenario.A) k2.2.ctr ∧
    ((World.forget k2.1.fuelOf k2.1 OkScenario.A).cont? OkScenario.A).isSome = false :=
  ⟨runK1, okK.1, okK.2.1, k_facts.1, okK.2.2.1, runK2, okK.2.2.2.1, k_facts.2.2.2.2.1, okK.2.2.2.2,
    k_facts.2.2.2.2.2.2.2.1⟩

/-- Non-vacuity of the operation theorems for `WorldOk'` (`Props/C10WPopOps.lean`):
    (1) in the world of `hinfoLive_fails_after_pop`, where `WorldOk` FAILS, a value is inserted through
    the handle of `X`: `worldOk'_arrInsert` applies; the notification of `X` finds no parent and
    drops the stale closure, after which even `WorldOk` holds again;
    (2) after the pop of `scenario_mapPop`, a value is stored in the emptied map `M` through its
    handle, which the pop has kept current: the invariant holds and the parent `R` accounts 61
    bytes for `M`. -/
theorem scenario_ops_after_pop :
    (h7.2.1.arrInsert PopOkScenario.X 0 (OkScenario.pl 1) h7.2.2 = .ok h8 ∧
      WorldOk' OkScenario.D h8.1 h8.2.ctr ∧ AList.find? h8.1.hinfo PopOkScenario.X = none ∧
      WorldOk OkScenario.D h8.1 h8.2.ctr) ∧
    (p1.2.1.mapSet OkScenario.M OkScenario.K1 (OkScenario.pl 5) p1.2.2 = .ok p2 ∧
      WorldOk' OkScenario.D p2.2.1 p2.2.2.ctr ∧ (p2.2.1.cont? OkScenario.M).map Cont.pays = some [.val 5] ∧
      (p2.2.1.cont? OkScenario.R).map (fun c => c.storedElems.map (·.size)) = some [61, 19]) :=
  ⟨⟨runH8, okH8.1, okH8.2.1, okH8.2.2⟩, ⟨runP2, okP2.1, okP2.2.1, okP2.2.2⟩⟩

end Atree.C10W
