import AtreeProofs.Props.E2EDispose
/-
  C01 / C05 — history theorem with PER-STEP observations (arrays; audit a1 F7).

  C01: "each returned element, returned previous element, element count, type and reported error
  equals what the same history yields on an ordinary in-memory sequence".  `E2E.rep_history`
  (registered under C03) speaks about the FINAL state only, and the per-step theorems of
  `Props/C01.lean` return the UNRESOLVED stored form `⟨19, .ref id⟩`.  Here:

  * `ReqA`     – a request: the reads `get i`, `count`, `type` and the mutators of `E2E.AOp`;
  * `obsA`     – what the array model answers: the returned element(s) RESOLVED to values through
                 the created large-value slabs (`E2E.resolve`), the count / type, or the error;
  * `specObs`  – what an ordinary `List Elem` of VALUES (with a type tag) answers;
  * `run_refines` – for every legal threshold and every list of requests issued to a NEW array the
                 LIST of per-step observations of the model equals that of the `List` semantics;
                 `ArrInv`, `ARefsOk`, "every reference resolves", root ID = the one allocated by
                 `NewArray`, values = `List` state hold at the end — and, the statement being about
                 every request list, after EVERY prefix (`run_refines_prefix`);
  * `resolve_stored` – the stored form of a (large) value resolves to the value.
  In-range requests never fail: `specObs` answers an error only for an out-of-range index or an
  insertion into a full array (`inrange_no_error`).
-/
namespace Atree.C01H
open Atree Gen E2E E2ED

/-- One request on an array: a read, or a mutator. -/
inductive ReqA where
  | get (i : Nat)
  | count
  | type
  | upd (op : AOp)

def ReqA.Ok : ReqA → Prop
  | .upd op => op.Ok
  | _ => True

/-- What a request answers. -/
inductive ObsA where
  | elem (e : Elem)           -- Get: the element; Set / Remove: the previous element
  | elems (l : List Elem)     -- PopIterate: the elements handed to the callback, in order
  | nat (n : Nat)             -- Count, Type
  | unit                      -- Insert, Append, SetType
  | err (e : AErr)
deriving DecidableEq, Repr

/-- The answer of the array model; returned elements are resolved to the values they stand for. -/
def obsA (T : Nat) (st : Arr × Ctx) : ReqA → ObsA
  | .get i =>
    match st.1.get i with
    | .ok e => .elem (resolve st.2.created e)
    | .error e => .err e
  | .count => .nat st.1.count
  | .type => .nat st.1.ty
  | .upd (.insert i v) =>
    match st.1.insert T i v st.2 with
    | .ok _ => .unit
    | .error e => .err e
  | .upd (.append v) =>
    match st.1.append T v st.2 with
    | .ok _ => .unit
    | .error e => .err e
  | .upd (.set i v) =>
    match st.1.set T i v st.2 with
    | .ok (old, _) => .elem (resolve st.2.created old)
    | .error e => .err e
  | .upd (.remove i) =>
    match st.1.remove T i st.2 with
    | .ok (old, _) => .elem (resolve st.2.created old)
    | .error e => .err e
  | .upd .popIterate => .elems ((st.1.popIterate st.2).1.map (resolve st.2.created))
  | .upd (.setType _) => .unit

/-- the state after a request (a read, or a rejected request, changes nothing) -/
def stepR (T : Nat) (st : Arr × Ctx) : ReqA → Arr × Ctx
  | .upd op => stepA T st op
  | _ => st

/-- The answer of an ordinary sequence of values `l` with type tag `ty`. -/
def specObs (l : List Elem) (ty : Nat) : ReqA → ObsA
  | .get i => if i < l.length then .elem (l.getD i default) else .err .indexOutOfBounds
  | .count => .nat l.length
  | .type => .nat ty
  | .upd (.insert i _) =>
    if l.length < maxArrayElementCount then
      if i ≤ l.length then .unit else .err .indexOutOfBounds
    else .err .maxElementCount
  | .upd (.append _) => if l.length < maxArrayElementCount then .unit else .err .maxElementCount
  | .upd (.set i _) => if i < l.length then .elem (l.getD i default) else .err .indexOutOfBounds
  | .upd (.remove i) => if i < l.length then .elem (l.getD i default) else .err .indexOutOfBounds
  | .upd .popIterate => .elems l.reverse
  | .upd (.setType _) => .unit

def specStepR (p : List Elem × Nat) : ReqA → List Elem × Nat
  | .upd op => (specStep p.1 op, specTy p.2 [op])
  | _ => p

/-- the per-step observations of a run of the model -/
def obsRun (T : Nat) : Arr × Ctx → List ReqA → List ObsA
  | _, [] => []
  | st, r :: rs => obsA T st r :: obsRun T (stepR T st r) rs

/-- the per-step observations of the `List` semantics -/
def specObsRun : List Elem × Nat → List ReqA → List ObsA
  | _, [] => []
  | p, r :: rs => specObs p.1 p.2 r :: specObsRun (specStepR p r) rs

def runR (T : Nat) (st : Arr × Ctx) (reqs : List ReqA) : Arr × Ctx := reqs.foldl (stepR T) st
def specRunR (p : List Elem × Nat) (reqs : List ReqA) : List Elem × Nat := reqs.foldl specStepR p

/-- the model-level invariant of a history -/
structure MGood (T : Nat) (st : Arr × Ctx) : Prop where
  inv : ArrInv T st.1 st.2.ctr
  refsR : ARefsOk st.1 st.2.ctr
  res : ∀ id ∈ st.1.refIds, (AList.find? st.2.created id).isSome

/-! ### one request -/

theorem getD_map_lt {α γ : Type} [Inhabited α] [Inhabited γ] (f : α → γ) (l : List α) (i : Nat)
    (h : i < l.length) : (l.map f).getD i default = f (l.getD i default) := by
  simp [List.getD_eq_getElem?_getD, List.getElem?_map, List.getElem?_eq_getElem h]

variable {β : Type}

/-- the answer of the model is the answer of the `List` semantics on the values -/
theorem obs_step (c : Codec SSlab β) (T : Nat) (hT : legalThreshold T = true)
    (x : (Arr × Ctx) × St SSlab β) (hg : GoodD c T x) (r : ReqA) (hr : r.Ok) :
    obsA T x.1 r = specObs (values x.1) x.1.1.ty r := by
  obtain ⟨⟨a, ctx⟩, s⟩ := x
  have hinv : ArrInv T a ctx.ctr := hg.inv
  have hlen : a.count = a.toList.length := count_eq_length hinv
  cases r with
  | get i =>
    simp only [obsA, specObs, values_length]
    obtain ⟨h1, h2⟩ := C01.get_refines T hT a ctx.ctr hinv i
    by_cases hi : i < a.toList.length
    · rw [h1 hi, if_pos hi]
      simp only [values]
      rw [getD_map_lt _ _ _ hi]
    · rw [h2 (by omega), if_neg hi]
  | count =>
    simp only [obsA, specObs, values_length]
    rw [hlen]
  | type => rfl
  | upd op =>
    cases op with
    | insert i v =>
      simp only [obsA, specObs, values_length]
      by_cases hc : a.toList.length < maxArrayElementCount
      · rw [if_pos hc]
        by_cases hi : i ≤ a.toList.length
        · obtain ⟨a', c', heq, _⟩ := arr_insert_ok hT a ctx i v hr hinv (by omega) hi
          rw [heq, if_pos hi]
        · rw [arr_insert_err a ctx i v hinv (by omega) (by omega), if_neg hi]
      · rw [if_neg hc]
        have hcnt : a.count = maxArrayElementCount := by have := hinv.count_lt; omega
        unfold Arr.insert
        rw [if_pos hcnt]
    | append v =>
      simp only [obsA, specObs, values_length]
      by_cases hc : a.toList.length < maxArrayElementCount
      · rw [if_pos hc]
        obtain ⟨a', c', heq, _⟩ := arr_insert_ok hT a ctx a.count v hr hinv (by omega) (by omega)
        show (match a.insert T a.count v ctx with | .ok _ => ObsA.unit | .error e => .err e) = _
        rw [heq]
      · rw [if_neg hc]
        have hcnt : a.count = maxArrayElementCount := by have := hinv.count_lt; omega
        unfold Arr.append Arr.insert
        rw [if_pos hcnt]
    | set i v =>
      simp only [obsA, specObs, values_length]
      by_cases hi : i < a.toList.length
      · obtain ⟨a', c', heq, _⟩ := arr_set_ok hT a ctx i v hr hinv hi
        rw [heq, if_pos hi]
        simp only [values]
        rw [getD_map_lt _ _ _ hi]
      · rw [arr_set_err a ctx i v hinv (by omega), if_neg hi]
    | remove i =>
      simp only [obsA, specObs, values_length]
      by_cases hi : i < a.toList.length
      · obtain ⟨a', c', heq, _⟩ := arr_remove_ok hT a ctx i hinv hi
        rw [heq, if_pos hi]
        simp only [values]
        rw [getD_map_lt _ _ _ hi]
      · rw [arr_remove_err a ctx i hinv (by omega), if_neg hi]
    | popIterate =>
      simp only [obsA, specObs]
      rw [(arr_popIterate_refines a ctx).1]
      simp [values, List.map_reverse]
    | setType ty => rfl

/-- the ghost storage state follows a request (reads do not touch it) -/
def stepG (c : Codec SSlab β) (T : Nat) (x : (Arr × Ctx) × St SSlab β) : ReqA → (Arr × Ctx) × St SSlab β
  | .upd op => stepD c T x op
  | _ => x

theorem stepG_spec (c : Codec SSlab β) (hc : RoundTrip c) (T : Nat) (hT : legalThreshold T = true)
    (x : (Arr × Ctx) × St SSlab β) (hg : GoodD c T x) (r : ReqA) (hr : r.Ok) :
    GoodD c T (stepG c T x r) ∧ (stepG c T x r).1 = stepR T x.1 r ∧
    (values (stepG c T x r).1, (stepG c T x r).1.1.ty) = specStepR (values x.1, x.1.1.ty) r ∧
    (stepG c T x r).1.1.rootID = x.1.1.rootID := by
  cases r with
  | upd op =>
    obtain ⟨g1, g2, g3, g4⟩ := goodD_stepD c hc T hT x hg op hr
    exact ⟨g1, rfl, by simp only [stepG, specStepR, g2, g4], g3⟩
  | get i => exact ⟨hg, rfl, rfl, rfl⟩
  | count => exact ⟨hg, rfl, rfl, rfl⟩
  | type => exact ⟨hg, rfl, rfl, rfl⟩

theorem run_gen (c : Codec SSlab β) (hc : RoundTrip c) (T : Nat) (hT : legalThreshold T = true) :
    ∀ (reqs : List ReqA) (x : (Arr × Ctx) × St SSlab β), GoodD c T x → (∀ r ∈ reqs, r.Ok) →
    obsRun T x.1 reqs = specObsRun (values x.1, x.1.1.ty) reqs ∧
    ∃ y, GoodD c T y ∧ y.1 = runR T x.1 reqs ∧
      (values y.1, y.1.1.ty) = specRunR (values x.1, x.1.1.ty) reqs ∧ y.1.1.rootID = x.1.1.rootID
  | [], x, hg, _ => ⟨rfl, x, hg, rfl, rfl, rfl⟩
  | r :: rs, x, hg, hok => by
    have hr := hok r (by simp)
    obtain ⟨g1, g2, g3, g4⟩ := stepG_spec c hc T hT x hg r hr
    obtain ⟨h1, y, h2, h3, h4, h5⟩ := run_gen c hc T hT rs (stepG c T x r) g1
      (fun o ho => hok o (by simp [ho]))
    refine ⟨?_, y, h2, ?_, ?_, h5.trans g4⟩
    · show obsA T x.1 r :: obsRun T (stepR T x.1 r) rs
        = specObs (values x.1) x.1.1.ty r :: specObsRun (specStepR (values x.1, x.1.1.ty) r) rs
      rw [obs_step c T hT x hg r hr, ← g2, ← g3, h1]
    · show y.1 = runR T (stepR T x.1 r) rs
      rw [h3, g2]
    · show _ = specRunR (specStepR (values x.1, x.1.1.ty) r) rs
      rw [h4, g3]

/-! ### the history theorem -/

/-- HISTORY THEOREM WITH PER-STEP OBSERVATIONS.  For every legal threshold `T`, every owner
    address, every list of requests (reads and mutators, rejected ones included, values of any size
    ≥ 1) issued to a NEW array: the list of answers of the array model (elements resolved to
    values) equals the list of answers of the ordinary sequence; and in the state after the
    requests `ArrInv` and `ARefsOk` hold, every reference resolves, the root ID is the one
    allocated by `NewArray`, and the values / type tag are those of the sequence. -/
theorem run_refines (T : Nat) (hT : legalThreshold T = true) (addr ty : Nat) (haddr : addr ≠ 0)
    (reqs : List ReqA) (hok : ∀ r ∈ reqs, r.Ok) :
    let st0 := Arr.new addr ty ⟨0, [], []⟩
    let st := runR T st0 reqs
    obsRun T st0 reqs = specObsRun ([], ty) reqs ∧
    MGood T st ∧ st.1.rootID = ⟨addr, 1⟩ ∧
    (values st, st.1.ty) = specRunR ([], ty) reqs := by
  intro st0 st
  have g0 := goodD_new idCodec idCodec_roundTrip T hT addr ty haddr
  obtain ⟨h1, y, h2, h3, h4, h5⟩ := run_gen idCodec idCodec_roundTrip T hT reqs _ g0 hok
  have hy : y.1 = st := h3
  refine ⟨h1, ?_, ?_, ?_⟩
  · rw [← hy]; exact ⟨h2.inv, h2.refsR, h2.res⟩
  · rw [← hy, h5]; rfl
  · rw [← hy, h4]; rfl

/-- … after EVERY prefix of the history. -/
theorem run_refines_prefix (T : Nat) (hT : legalThreshold T = true) (addr ty : Nat) (haddr : addr ≠ 0)
    (reqs : List ReqA) (hok : ∀ r ∈ reqs, r.Ok) (n : Nat) :
    let st := runR T (Arr.new addr ty ⟨0, [], []⟩) (reqs.take n)
    MGood T st ∧ st.1.rootID = ⟨addr, 1⟩ ∧ (values st, st.1.ty) = specRunR ([], ty) (reqs.take n) :=
  (run_refines T hT addr ty haddr (reqs.take n) (fun r hr => hok r (List.mem_of_mem_take hr))).2

/-- In-range requests never fail: the `List` semantics (hence, by `run_refines`, the model) answers
    an error only for an out-of-range index or an insertion into a full array. -/
theorem inrange_no_error (l : List Elem) (ty : Nat) (r : ReqA) (e : AErr)
    (h : specObs l ty r = .err e) :
    (e = .indexOutOfBounds ∧ ∃ i, l.length ≤ i ∧
      (r = .get i ∨ (∃ v, r = .upd (.set i v)) ∨ r = .upd (.remove i) ∨
        (l.length < i ∧ ∃ v, r = .upd (.insert i v)))) ∨
    (e = .maxElementCount ∧ maxArrayElementCount ≤ l.length) := by
  cases r with
  | get i =>
    simp only [specObs] at h
    split at h
    · cases h
    · cases h; exact Or.inl ⟨rfl, i, by omega, Or.inl rfl⟩
  | count => cases h
  | type => cases h
  | upd op =>
    cases op with
    | insert i v =>
      simp only [specObs] at h
      split at h
      · split at h
        · cases h
        · cases h; exact Or.inl ⟨rfl, i, by omega, Or.inr (Or.inr (Or.inr ⟨by omega, v, rfl⟩))⟩
      · cases h; exact Or.inr ⟨rfl, by omega⟩
    | append v =>
      simp only [specObs] at h
      split at h
      · cases h
      · cases h; exact Or.inr ⟨rfl, by omega⟩
    | set i v =>
      simp only [specObs] at h
      split at h
      · cases h
      · cases h; exact Or.inl ⟨rfl, i, by omega, Or.inr (Or.inl ⟨v, rfl⟩)⟩
    | remove i =>
      simp only [specObs] at h
      split at h
      · cases h
      · cases h; exact Or.inl ⟨rfl, i, by omega, Or.inr (Or.inr (Or.inl rfl))⟩
    | popIterate => cases h
    | setType ty => cases h

/-- A reference resolves to its value: the stored form of a caller's value `v` (itself, or the
    19-byte reference to the large-value slab just created) resolves to `v` through the created
    slabs after the call; and it is a live reference. -/
theorem resolve_stored (T addr : Nat) (v : Elem) (ctx : Ctx) (hv : ValueOk v)
    (hle : ∀ p ∈ ctx.created, p.1.idx ≤ ctx.ctr) :
    resolve (toStorable T addr v ctx).2.created (toStorable T addr v ctx).1 = v := by
  have := (resolve_storedForm T addr v ctx hv hle).1
  rcases toStorable_cases T addr v ctx hv with ⟨_, _, _, h4⟩ | ⟨_, _, _, h4⟩
  · have hcr : crOf T addr v ctx = [] := by unfold crOf; rw [h4]; simp
    rw [hcr, List.append_nil] at this
    rw [h4]; exact this
  · have hcr : crOf T addr v ctx = [(⟨addr, ctx.ctr + 1⟩, v)] := by unfold crOf; rw [h4]; simp
    rw [hcr] at this
    rw [h4]; exact this

/-! ### Non-vacuity: a history of 14 requests, observations computed -/
section NonVacuity
open Atree.Example

def reqs : List ReqA :=
  [.upd (.append (elem 0)), .upd (.append (elem 1)), .upd (.append (elem 2)), .upd (.append (elem 3)),
   .count, .upd (.insert 1 (big 7)), .get 1, .get 9, .upd (.set 1 (elem 5)), .upd (.remove 7),
   .upd (.setType 42), .type, .upd (.remove 0), .upd .popIterate]

theorem reqs_ok : ∀ r ∈ reqs, r.Ok := by
  intro r hr
  simp only [reqs, List.mem_cons, List.not_mem_nil, or_false] at hr
  rcases hr with rfl | rfl | rfl | rfl | rfl | rfl | rfl | rfl | rfl | rfl | rfl | rfl | rfl | rfl <;>
    first | exact value_ok _ | exact big_ok _ | trivial

/-- the answers of the model, computed: `Get 1` and `Set 1` return the 5000-byte VALUE (the slab
    holds the reference `⟨19, .ref 1.4⟩`), out-of-range requests report `indexOutOfBounds` -/
example : obsRun T0 (Arr.new 1 0 ⟨0, [], []⟩) reqs =
    [.unit, .unit, .unit, .unit, .nat 4, .unit, .elem (big 7), .err .indexOutOfBounds, .elem (big 7),
     .err .indexOutOfBounds, .unit, .nat 42, .elem (elem 0), .elems [elem 3, elem 2, elem 1, elem 5]] := by
  decide
example : specObsRun ([], 0) reqs =
    [.unit, .unit, .unit, .unit, .nat 4, .unit, .elem (big 7), .err .indexOutOfBounds, .elem (big 7),
     .err .indexOutOfBounds, .unit, .nat 42, .elem (elem 0), .elems [elem 3, elem 2, elem 1, elem 5]] := by
  decide
/-- the stored element really is a reference at that point -/
example : (runR T0 (Arr.new 1 0 ⟨0, [], []⟩) (reqs.take 6)).1.toList.getD 1 default = ⟨19, .ref ⟨1, 4⟩⟩ := by
  decide
example := run_refines T0 legal 1 0 (by decide) reqs reqs_ok
example := run_refines_prefix T0 legal 1 0 (by decide) reqs reqs_ok 6

end NonVacuity

end Atree.C01H
