import AtreeProofs.WorldInv
import AtreeProofs.AListLemmas
/-
  C10 / C01 — the failure branches of `incrementIndexFrom` / `decrementIndexFrom`.

  `Array.Insert` shifts the recorded indexes of child containers at or after the insertion point
  (`incrementIndexFrom`) and fails with a FATAL error "new index exceeds array count" when a shifted
  index would reach the new element count; `Array.Remove` shifts them down (`decrementIndexFrom`) and
  fails when an index to be decremented is 0.  The World model has no such branches (`shiftIdx` is
  total).  These theorems justify that: whenever `mutableElementIndex` is correct (`MutIdxOk`, an
  invariant of every reachable world — `C10W.worldOk_mutIdxOk`), the failure conditions of the Go
  code are false.  (They were TRUE on the unrepaired code after `PopIterate`: finding F4.)
-/
namespace Atree.C10Idx
open Atree World

/-- the condition under which Go's `incrementIndexFrom(i)` returns its fatal error, evaluated after
    the element has been inserted (the array then has `newCount` elements) -/
def incrementFails (w : World) (p : SlabID) (i newCount : Nat) : Bool :=
  (w.idxOf p).any (fun e => decide (e.2 ≥ i) && decide (e.2 + 1 ≥ newCount))

/-- the condition under which Go's `decrementIndexFrom(i)` returns its fatal error -/
def decrementFails (w : World) (p : SlabID) (i : Nat) : Bool :=
  (w.idxOf p).any (fun e => decide (e.2 > i) && decide (e.2 ≤ 0))

theorem find?_of_mem {α : Type} (m : AList SlabID α) (x : SlabID) (j : α) (h : (x, j) ∈ m) :
    ∃ j', AList.find? m x = some j' := by
  induction m with
  | nil => cases h
  | cons q m ih =>
    obtain ⟨k, v⟩ := q
    rw [AList.find?_cons]
    by_cases hk : k = x
    · exact ⟨v, by simp [hk]⟩
    · simp only [hk, if_false]
      rcases List.mem_cons.mp h with h | h
      · cases h; exact absurd rfl hk
      · exact ih h

/-- Every recorded index is a valid position of the parent array, PROVIDED the association list
    has no duplicate keys (so that `find?` sees every entry).
    SUPERSEDED (audit a5, S6) by `recorded_index_in_range'` (Props/C10IdxW.lean: from `WorldOk'` and
    `IdxNodup` only) and `C10Hist.history_index_shifts_never_fail` (no hypothesis at all). -/
theorem recorded_index_in_range (w : World) (hmi : MutIdxOk w) (p : SlabID) (a : Arr)
    (hp : w.cont? p = some (.arr a)) (hnd : (AList.keys (w.idxOf p)).Nodup)
    (x : SlabID) (j : Nat) (hmem : (x, j) ∈ w.idxOf p) : j < a.toList.length := by
  have hf : AList.find? (w.idxOf p) x = some j := (AList.mem_iff_find? _ hnd x j).mp hmem
  obtain ⟨e, he, _⟩ := hmi p a hp x j hf
  have := (List.getElem?_eq_some_iff.mp he).1
  exact this

/-- `incrementIndexFrom` cannot fail after an in-range insert: every shifted index stays below the
    new count.
    SUPERSEDED (audit a5, S6) by `increment_never_fails'` (Props/C10IdxW.lean: `hmi`, `hnd`, `hcnt`
    discharged from `WorldOk'` and `IdxNodup`) and, for every world reached by a history, by
    `C10Hist.history_index_shifts_never_fail` (no hypothesis at all). -/
theorem increment_never_fails (w : World) (hmi : MutIdxOk w) (p : SlabID) (a : Arr)
    (hp : w.cont? p = some (.arr a)) (hnd : (AList.keys (w.idxOf p)).Nodup)
    (hcnt : a.count = a.toList.length) (i : Nat) :
    incrementFails w p i (a.count + 1) = false := by
  unfold incrementFails
  rw [List.any_eq_false]
  intro e he
  obtain ⟨x, j⟩ := e
  have hj := recorded_index_in_range w hmi p a hp hnd x j he
  simp only [Bool.and_eq_true, decide_eq_true_eq, not_and]
  intro _
  omega

/-- `decrementIndexFrom` cannot fail: an index greater than `i` is not 0. -/
theorem decrement_never_fails (w : World) (p : SlabID) (i : Nat) : decrementFails w p i = false := by
  unfold decrementFails
  rw [List.any_eq_false]
  intro e _
  simp only [Bool.and_eq_true, decide_eq_true_eq, not_and]
  intro h
  omega

/-- F4 as a formal counterexample: with a stale entry (index 0 recorded for an array that is now
    empty) the failure condition of `incrementIndexFrom(0)` holds after inserting one element. -/
example : incrementFails
    { T := 256, addr := 1, mutIdx := [(⟨1, 1⟩, [(⟨1, 2⟩, 0)])] } ⟨1, 1⟩ 0 1 = true := by decide

end Atree.C10Idx
