import AtreeProofs.E2EMap.HistoryFull
import AtreeProofs.Props.E2EMap
/-
  E2EMapFull — END-TO-END for ordered maps at FULL strength (removes the `_partial` of
  `Props/E2EMap.lean`; that theorem is kept untouched).

  PROPERTY THEOREMS.
  * `map_set_pre_storable`, `map_set_created_stored`, `map_remove_creates_nothing`: the
    trace-level facts about large-value slabs and the allocation counter (array analogues:
    `E2E.insert_created_stored`, `E2E.set_created_stored`);
  * `map_rep_history`: the history theorem in the shape of `E2E.rep_history`;
  * `map_rep_run_full`: the same from any state satisfying the full invariant `MGoodF`.
  Definitions: `AtreeProofs/E2EMapSpec.lean` and `AtreeProofs/E2EMap/HistoryFull.lean`
  (`MGoodF`, `MRefsOk`, `MAllocSync`, `lookupR`, `specStepM`, `DictStep`, `DictRun`, `specTyM`);
  helpers: `AtreeProofs/E2EMap/Created.lean`.
-/
namespace Atree.E2EM
open Atree Gen St
open Atree.E2E (newEffs newEffs_of_log allocCount allocCount_eq)

variable {β : Type} {r : Nat}

/-! ### one operation: large-value slabs and the allocation counter -/

/-- PRE-STORABLE.  `Set(k, v)` started in the context `c` is the same computation as `Set(k, v')`
    started in `c₁`, where `(v', c₁)` is the result of `Value.Storable(v)` in `c` (with the inline
    limit of the key `k`): the storage calls of `Value.Storable` come first, and the rest of the
    operation only sees the storable.  No hypothesis. -/
theorem map_set_pre_storable (cfg : MCfg) (m : OMap r) (k : MKey) (v : Elem) (c : Ctx) :
    m.set cfg k v c =
      m.set cfg k (toStorableLim (maxInlineMapValue cfg.T k.size) cfg.addr v c).1
        (toStorableLim (maxInlineMapValue cfg.T k.size) cfg.addr v c).2 :=
  omap_set_pre cfg m k v c

/-- CREATED SLABS ARE STORED (maps, `Set`).  Every large-value slab created by a successful `Set`
    is stored and never removed or overwritten later in the same operation (its last event in the
    operation's log is a store), is not a slab of the new map, has a fresh index, is owned by the
    map's address; what is created is exactly what `Value.Storable` creates; and the allocation
    counter advances by exactly the number of `GenerateSlabID(address)` events of the log. -/
theorem map_set_created_stored (T : Nat) (hT : legalThreshold T = true) (D : DigestFn (r + 1)) (cfg : MCfg)
    (m : OMap r) (hcfg : CfgOk cfg T m) (h : MapInv T D m) (hids : MIdsOk m) (k : MKey)
    (hk : KeyOk T (r + 1) D k) (v : Elem) (hv : ValueOkM v) (c : Ctx) (hc : CtxOk m c)
    (old : Option Elem) (m' : OMap r) (c' : Ctx) (hr : m.set cfg k v c = .ok (old, m', c')) :
    (∀ p ∈ c'.created.drop c.created.length,
      lastAction (newEffs c c') p.1 = some true ∧ (m'.slabAt p.1).isNone ∧ c.ctr < p.1.idx ∧
      p.1.idx ≤ c'.ctr ∧ p.1.addr = m.addr) ∧
    c'.created = (toStorableLim (maxInlineMapValue cfg.T k.size) cfg.addr v c).2.created ∧
    c'.ctr = c.ctr + allocCount m.addr (newEffs c c') := by
  obtain ⟨E, C, hlog, hcr, hal, hC⟩ := omap_set_created hT hcfg h hk hv c hc hids hr
  rw [newEffs_of_log hlog.toLog, hlog.created, List.drop_left, allocCount_eq]
  refine ⟨?_, hC, hal⟩
  intro p hp
  obtain ⟨h1, h2, h3, h4, h5⟩ := hcr p.1 (List.mem_map_of_mem hp)
  exact ⟨h1, (mslabAt_isNone m' p.1).2 h2, h3, h4, h5⟩

/-- `Remove` creates no large-value slab, and the allocation counter advances by exactly the number
    of `GenerateSlabID(address)` events of its log. -/
theorem map_remove_creates_nothing (T : Nat) (hT : legalThreshold T = true) (D : DigestFn (r + 1))
    (cfg : MCfg) (m : OMap r) (hcfg : CfgOk cfg T m) (h : MapInv T D m) (hids : MIdsOk m) (k : MKey)
    (hk : KeyOk T (r + 1) D k) (c : Ctx) (hc : CtxOk m c)
    (k0 : MKey) (v0 : Elem) (m' : OMap r) (c' : Ctx) (hr : m.remove cfg k c = .ok (k0, v0, m', c')) :
    c'.created = c.created ∧ c'.ctr = c.ctr + allocCount m.addr (newEffs c c') := by
  obtain ⟨E, hlog, hal⟩ := omap_remove_created hT hcfg h hk c hc hids hr
  rw [newEffs_of_log hlog.toLog, allocCount_eq]
  exact ⟨by rw [hlog.created]; simp, hal⟩

/-- `PopIterate` only removes slabs of the map (never a large-value slab), then stores the root;
    it creates nothing and allocates nothing. -/
theorem map_pop_removes_own_slabs (T : Nat) (D : DigestFn (r + 1)) (m : OMap r) (c : Ctx)
    (hinv : MapInv T D m) :
    ∃ E, (m.popIterate c).2.2.eff = c.eff ++ E ++ [.store m.rootID] ∧
      (∀ x ∈ E, ∃ i, x = Eff.remove i ∧ (m.slabAt i).isSome) ∧
      (m.popIterate c).2.2.created = c.created ∧ (m.popIterate c).2.2.ctr = c.ctr := by
  obtain ⟨E, h1, h2⟩ := omap_pop_foot m c hinv
  obtain ⟨h3, h4⟩ := omap_popKeep m c
  refine ⟨E, h1, fun x hx => ?_, h4, h3⟩
  obtain ⟨i, hi, hm⟩ := h2 x hx
  refine ⟨i, hi, ?_⟩
  rw [mslabAt_isSome, mslabs_eq, keys_cons']
  exact List.mem_cons_of_mem _ hm

/-! ### histories -/

/-- REP HISTORY (maps, full).  For every list of requests (set / remove / popIterate / setType;
    keys of any digests – the digest function `D` is arbitrary –, values of any size ≥ 1; rejected
    requests change nothing), starting from `NewMap` on an empty storage, at every point (the
    statement holds for every list, hence for every prefix):
    * the state is the one of the map model alone (`runM`),
    * the map invariant `MapInv` (C05Map) holds, all slab IDs (data slabs, index slabs, external
      collision groups) are distinct (`MIdsOk`), below the counter (`CtxOk`) and owned by the
      map's address (`MAddrOk`),
    * the storage represents the map (`MRep`): on the owner's address the view is exactly the
      stored forms of the slabs of the map plus ALL large-value slabs created so far,
    * the storage invariant `Inv` (C15) holds and the storage's allocation counter agrees with the
      map model's (the IDs `Ctx.alloc` hands out are the ones `GenerateSlabID` generates),
    * no value of the map is a dangling reference to a large-value slab,
    * the dictionary of resolved values follows the dictionary semantics of the history
      (`DictRun`: every request is carried out on the dictionary, except that a `Set` of a NEW
      key may be refused – collision limit, C12 – and then changes nothing),
    * the root ID is the one allocated by `NewMap`, the type info is the last one set, the seed
      is the one chosen by `NewMap`. -/
theorem map_rep_history (c : Codec (MSSlab r) β) (hc : RoundTrip c) (T : Nat)
    (hT : legalThreshold T = true) (D : DigestFn (r + 1)) (cfg : MCfg) (hcT : cfg.T = T)
    (hcL : cfg.L = r + 1) (haddr : cfg.addr ≠ 0) (ty : Nat) (seedOf : SlabID → Nat)
    (ops : List MOp) (hops : ∀ op ∈ ops, op.Ok T D) :
    let x := runS c cfg (newS c cfg.addr ty seedOf) ops
    let m := x.1.1
    let ctx := x.1.2
    let s := x.2
    x.1 = runM cfg (OMap.new (r := r) cfg.addr ty seedOf ⟨0, [], []⟩) ops ∧
    MapInv T D m ∧ MIdsOk m ∧ CtxOk m ctx ∧ MAddrOk m ∧
    MRep c s m (AList.find? ctx.created) ctx.ctr ∧
    Inv c s ∧ MAllocSync s cfg.addr ctx.ctr ∧
    (∀ p ∈ m.toList, ∀ y, p.2.pay = .ref y → (AList.find? ctx.created y).isSome) ∧
    DictRun T D (fun _ => none) ops (lookupR x.1) ∧
    m.rootID = ⟨cfg.addr, 1⟩ ∧ m.ty = specTyM ty ops ∧ m.seed = seedOf ⟨cfg.addr, 1⟩ := by
  intro x m ctx s
  obtain ⟨g0, r0, t0, s0, l0⟩ := mgoodF_new c hc T hT D cfg hcT hcL haddr ty seedOf
  obtain ⟨g, d1, r1, t1, s1⟩ := mgoodF_runS c hc T hT D cfg ops _ g0 hops
  have haddr' : m.addr = cfg.addr := by
    show x.1.1.rootID.addr = cfg.addr
    rw [r1, r0]
  have hl0 : lookupR (newS c cfg.addr ty seedOf).1 = fun _ => none := funext l0
  refine ⟨runS_fst c cfg ops _, g.inv, g.ids, g.ctx, g.aok, g.rep, g.st, ?_, g.refs, by rw [← hl0]; exact d1,
    r1.trans r0, by rw [t1, t0], s1.trans s0⟩
  have := g.sync
  rw [haddr'] at this
  exact this

/-- The same from ANY state satisfying the full invariant `MGoodF` (e.g. the state after a
    commit): the invariant is kept and the dictionary follows the requests. -/
theorem map_rep_run_full (c : Codec (MSSlab r) β) (hc : RoundTrip c) (T : Nat) (hT : legalThreshold T = true)
    (D : DigestFn (r + 1)) (cfg : MCfg) (x : (OMap r × Ctx) × St (MSSlab r) β)
    (hg : MGoodF c T D cfg x) (ops : List MOp) (hops : ∀ op ∈ ops, op.Ok T D) :
    MGoodF c T D cfg (runS c cfg x ops) ∧
    DictRun T D (lookupR x.1) ops (lookupR (runS c cfg x ops).1) ∧
    (runS c cfg x ops).1.1.rootID = x.1.1.rootID ∧
    (runS c cfg x ops).1.1.ty = specTyM x.1.1.ty ops ∧ (runS c cfg x ops).1.1.seed = x.1.1.seed :=
  mgoodF_runS c hc T hT D cfg ops x hg hops

/-- ONE REQUEST: the refinement statement behind `DictRun` (C02 `set_refines`, `remove_refines`,
    `pop_refines` through the resolution of references). -/
theorem map_step_dict (c : Codec (MSSlab r) β) (hc : RoundTrip c) (T : Nat) (hT : legalThreshold T = true)
    (D : DigestFn (r + 1)) (cfg : MCfg) (x : (OMap r × Ctx) × St (MSSlab r) β)
    (hg : MGoodF c T D cfg x) (op : MOp) (hop : op.Ok T D) :
    (∀ k', KeyOk T (r + 1) D k' → lookupR (stepS c cfg x op).1 k' = specStepM (lookupR x.1) op k') ∨
    ((∃ k v, op = .set k v ∧ lookupR x.1 k = none) ∧ ∀ k', lookupR (stepS c cfg x op).1 k' = lookupR x.1 k') :=
  (mgoodF_stepS c hc T hT D cfg x hg op hop).2.1

/-- the full invariant is the partial one plus … : every theorem of `Props/E2EMap.lean` stated for
    `MGood` applies -/
theorem mgoodF_is_mgood (c : Codec (MSSlab r) β) (T : Nat) (D : DigestFn (r + 1)) (cfg : MCfg)
    (x : (OMap r × Ctx) × St (MSSlab r) β) (hg : MGoodF c T D cfg x) : MGood c T D cfg x := hg.toMGood

/-! ### Non-vacuity

The history `mhist` of `Props/E2EMap.lean` (two digest levels, T = 256, collision limit 1; 19 `set`s
and one `remove`, then a value of 5000 bytes – a large-value slab –, a rejected removal and
`SetType`) run against the storage state machine with the identity codec. -/
section NonVacuity
open MapExample

/-- `map_rep_history` instantiated -/
example := map_rep_history idCodecM idCodecM_roundTrip 256 legal256 D2 cfg2 rfl rfl (by decide) 0
  (fun id => id.idx) mhist mhist_ok

/-- the full invariant holds after the history -/
theorem xM_goodF : MGoodF idCodecM 256 D2 cfg2 xM :=
  (mgoodF_runS idCodecM idCodecM_roundTrip 256 legal256 D2 cfg2 mhist _
    (mgoodF_new idCodecM idCodecM_roundTrip 256 legal256 D2 cfg2 rfl rfl (by decide) 0 _).1 mhist_ok).1

/-- … and by evaluation: one large-value slab (7.5) is live, the counters agree (5 = 5), the value
    of key 999 resolves to the 5000-byte value, the removed key 411 is absent, the type is 9 -/
example : xM.1.2.created = [(⟨7, 5⟩, ⟨5000, .val 7⟩)] ∧
    (AList.find? xM.2.alloc 7).getD 0 = 5 ∧ xM.1.2.ctr = 5 ∧
    lookupR xM.1 (key 999) = some ⟨5000, .val 7⟩ ∧ lookupR xM.1 (key 411) = none ∧
    lookupR xM.1 (key 211) = some (val 1) ∧ xM.1.1.ty = specTyM 0 mhist ∧ specTyM 0 mhist = 9 := by
  decide
/-- the stored value of key 999 is a reference, and the storage holds the value under it -/
example : dictLookup xM.1.1.toList (key 999) = some ⟨19, .ref ⟨7, 5⟩⟩ ∧
    (match xM.2.view idCodecM ⟨7, 5⟩ with | some (.large v) => some v | _ => none) = some ⟨5000, .val 7⟩ := by
  decide
/-- `MRep` with `find? created` is not trivially true: without the large-value slab it fails -/
example : ¬ MRep idCodecM xM.2 xM.1.1 (fun _ => none) xM.1.2.ctr := by
  intro h
  have h1 := h.view ⟨7, 5⟩ (by decide)
  have h2 : (xM.2.view idCodecM ⟨7, 5⟩).isSome = true := by decide
  have h3 : (xM.1.1.slabAt ⟨7, 5⟩).isSome = false := by decide
  rw [h1] at h2
  cases hs : xM.1.1.slabAt ⟨7, 5⟩ with
  | some p => rw [hs] at h3; cases h3
  | none => rw [mstored_of_none hs] at h2; cases h2

/-- the state before the `Set` of the large value -/
def x20 : (OMap 1 × Ctx) × St (MSSlab 1) (MSSlab 1) :=
  runS idCodecM cfg2 (newS idCodecM cfg2.addr 0 (fun id => id.idx)) (mhist.take 20)
theorem x20_goodF : MGoodF idCodecM 256 D2 cfg2 x20 :=
  (mgoodF_runS idCodecM idCodecM_roundTrip 256 legal256 D2 cfg2 (mhist.take 20) _
    (mgoodF_new idCodecM idCodecM_roundTrip 256 legal256 D2 cfg2 rfl rfl (by decide) 0 _).1
    (fun op hop => mhist_ok op (List.mem_of_mem_take hop))).1

/-- `map_set_created_stored` / `map_set_pre_storable` on that `Set`, and the same by evaluation:
    the log is `alloc 7.5, store 7.5, store 7.4, store 7.1`: the created slab 7.5 is stored first
    and not touched again, one allocation, counter 4 → 5 -/
example (old : Option Elem) (m' : OMap 1) (c' : Ctx)
    (hr : x20.1.1.set cfg2 (key 999) ⟨5000, .val 7⟩ x20.1.2 = .ok (old, m', c')) :=
  map_set_created_stored 256 legal256 D2 cfg2 x20.1.1 x20_goodF.cfg x20_goodF.inv x20_goodF.ids (key 999)
    (key_ok _) ⟨5000, .val 7⟩ ⟨by decide, 7, rfl⟩ x20.1.2 x20_goodF.ctx old m' c' hr
example := map_set_pre_storable cfg2 x20.1.1 (key 999) ⟨5000, .val 7⟩ x20.1.2
def stepInfo (c : Ctx) (res : Except MErr (Option Elem × OMap 1 × Ctx)) : List Eff × List SlabID × Nat × Nat :=
  match res with
  | .ok (_, _, c') => (E2E.newEffs c c', c'.created.map (·.1), c.ctr, c'.ctr)
  | .error _ => ([], [], 0, 0)
example : stepInfo x20.1.2 (x20.1.1.set cfg2 (key 999) ⟨5000, .val 7⟩ x20.1.2)
    = ([.alloc 7 ⟨7, 5⟩, .store ⟨7, 5⟩, .store ⟨7, 4⟩, .store ⟨7, 1⟩], [⟨7, 5⟩], 4, 5) := by decide
/-- the pre-storable form: from the context after `Value.Storable`, with the reference as value -/
example : (toStorableLim (maxInlineMapValue cfg2.T (key 999).size) cfg2.addr ⟨5000, .val 7⟩ x20.1.2).1
    = ⟨19, .ref ⟨7, 5⟩⟩ := by decide

/-- `map_remove_creates_nothing` on the removal of key 411 (13th request) -/
def x12 : (OMap 1 × Ctx) × St (MSSlab 1) (MSSlab 1) :=
  runS idCodecM cfg2 (newS idCodecM cfg2.addr 0 (fun id => id.idx)) (mhist.take 12)
theorem x12_goodF : MGoodF idCodecM 256 D2 cfg2 x12 :=
  (mgoodF_runS idCodecM idCodecM_roundTrip 256 legal256 D2 cfg2 (mhist.take 12) _
    (mgoodF_new idCodecM idCodecM_roundTrip 256 legal256 D2 cfg2 rfl rfl (by decide) 0 _).1
    (fun op hop => mhist_ok op (List.mem_of_mem_take hop))).1
example (k0 : MKey) (v0 : Elem) (m' : OMap 1) (c' : Ctx)
    (hr : x12.1.1.remove cfg2 (key 411) x12.1.2 = .ok (k0, v0, m', c')) :=
  map_remove_creates_nothing 256 legal256 D2 cfg2 x12.1.1 x12_goodF.cfg x12_goodF.inv x12_goodF.ids (key 411)
    (key_ok _) x12.1.2 x12_goodF.ctx k0 v0 m' c' hr
example : (match x12.1.1.remove cfg2 (key 411) x12.1.2 with
    | .ok (_, v0, _, c') => some (v0, c'.created, c'.ctr == x12.1.2.ctr)
    | .error _ => none) = some (val 10, [], true) := by decide

/-- a REFUSED `Set` (second branch of `DictStep`): a new key colliding with a full first-level
    group is refused by the collision limit (1), and nothing changes -/
example : (match xM.1.1.set cfg2 (key 315) (val 1) xM.1.2 with | .error e => some e | .ok _ => none)
    = some .collisionLimit ∧ lookupR xM.1 (key 315) = none ∧
    (stepS idCodecM cfg2 xM (.set (key 315) (val 1))).1.2.eff = xM.1.2.eff := by decide
example := map_step_dict idCodecM idCodecM_roundTrip 256 legal256 D2 cfg2 xM xM_goodF
  (.set (key 315) (val 1)) ⟨key_ok _, val_ok _⟩

/-- `map_pop_removes_own_slabs` / `map_rep_run_full` on the continuation `mlater` (empties the map) -/
example := map_pop_removes_own_slabs 256 D2 xM.1.1 xM.1.2 xM_goodF.inv
example := map_rep_run_full idCodecM idCodecM_roundTrip 256 legal256 D2 cfg2 xM xM_goodF mlater
  (by intro op hop
      simp only [mlater, List.mem_cons, List.not_mem_nil, or_false] at hop
      rcases hop with rfl | rfl
      · trivial
      · exact ⟨key_ok _, val_ok _⟩)
/-- after `PopIterate` the large-value slab 7.5 is still in the storage (the caller owns it) -/
example : ((stepS idCodecM cfg2 xM .popIterate).2.view idCodecM ⟨7, 5⟩).isSome = true ∧
    ((stepS idCodecM cfg2 xM .popIterate).2.view idCodecM ⟨7, 3⟩).isSome = false := by decide

/-- every theorem of `Props/E2EMap.lean` applies: commit, reopen, load = identity with the full
    representation -/
example := map_commit_reopen_identity idCodecM idCodecM_roundTrip 256 legal256 D2 xM.2 xM.1.1 _ _ xM_goodF.inv
  xM_goodF.ids xM_goodF.aok (by decide) xM_goodF.rep xM_goodF.st (idCodecM_noEncodeFailure _) .det [] []
  _ (map_retrieve_is_fetch idCodecM) 2 (by decide)

end NonVacuity

end Atree.E2EM
