import AtreeProofs.Props.C11
import AtreeProofs.Props.C10WPopOps
import AtreeProofs.World.C11Aux
import AtreeProofs.World.C11Root
import AtreeProofs.World.C11Scenario
/-
  C11 — Detached containers and stale handles cannot corrupt a former parent: the WHOLE-OPERATION
  statements (audit items S4 / S5).  PROPERTY THEOREMS about the World model.

  `Props/C11.lean` unfolds ONE step of `notifyParent` under hypotheses about the slot the closure
  recorded.  This file connects those hypotheses to the operations that detach a container:

  * `replaced_slot_hyps_contradict_invariant` — audit S5: the hypotheses of
    `C11.replaced_slot_leaves_parent_unchanged` ("the recorded index now holds something else")
    are CONTRADICTORY in every world that satisfies the global invariant `WorldOk'`: a recorded
    index always holds a reference to the recorded child (`MutIdxOk`).  In the model (as in the
    Go code, array.go:389-398) `Array.Set` deletes the `mutableElementIndex` entry of the child it
    overwrites, so "the slot now holds another container" reaches the callback through the
    INDEX-UNKNOWN branch (`C11.detached_array_child_leaves_parent_unchanged`), never through the
    identity check.
  * `set_forgets_index` — the state anchor of C11 for `Array.Set` (counterpart of
    `C11.remove_forgets_index`).
  * `overwritten_child_leaves_parent_unchanged`, `removed_child_leaves_parent_unchanged`,
    `map_overwritten_child_leaves_parent_unchanged`, `map_removed_child_leaves_parent_unchanged` —
    the restated theorems: after the detaching operation (through a current handle, in a valid
    world) the container handed back is a live, standalone, unreferenced container with the same
    data and value ID (`DetachedRoot`), the invariant holds, and EVERY later notification from it
    changes no container, no index table and no storage effect (at most its stale closure is dropped).
  * `mapRemove_key_absent`, `mapSet_key_reoccupied` — the slot hypothesis of
    `C11.detached_map_child_leaves_parent_unchanged` produced by the detaching map operation.
  * `detachedRoot_arrInsert / _arrSet / _arrRemove / _mapSet / _mapRemove / _arrGet / _mapGet /
    _setType` — a detached root stays a detached root under every later operation through a
    current handle (to any container, itself included) that does not store it.
  * `detached_arrRemove_writes_only_self`, `detached_arrSet_…`, `detached_mapSet_…`,
    `detached_mapRemove_…`, `detached_setType_…` — audit S4: a complete operation through the handle
    of a detached root changes no other container (content, sizes, form), closure or index table,
    and its storage effects are those of the container-level operation on the root itself.
  * `detached_root_lifecycle` — reloaded / mutated / disposed of / attached to another parent.
  * Non-vacuity: runs of the model (`AtreeProofs/World/C11Scenario.lean`), the invariant being
    established by chaining the operation theorems from the empty world.
-/
namespace Atree.C11
open Atree Gen World

/-! ### 1. Audit S5: `replaced_slot_leaves_parent_unchanged` speaks about unreachable states -/

/-- The hypotheses `hpa hidx hget hother` of `C11.replaced_slot_leaves_parent_unchanged` contradict
    the global invariant: in a valid world the index recorded for `x` in an array holds a
    reference to `x`. -/
theorem replaced_slot_hyps_contradict_invariant (D : SlabID → DigestFn 4) (w : World) (ctr : Nat)
    (x parent : SlabID) (pa : Arr) (idx : Nat) (el : Elem)
    (H : WorldOk' D w ctr)
    (hpa : w.cont? parent = some (.arr pa))
    (hidx : AList.find? (w.idxOf parent) x = some idx) (hget : pa.get idx = .ok el)
    (hother : el.pay ≠ .ref x) : False := by
  obtain ⟨e, he, hpay⟩ := C10W.worldOk'_mutIdxOk H parent pa hpa x idx hidx
  have hok : ArrOk w.T pa ctr := (C10W.worldOk'_contOk H parent _ hpa).1
  obtain ⟨rank, H0⟩ := H
  have hlt : idx < pa.toList.length := (List.getElem?_eq_some_iff.mp he).1
  have hg := (hok.get_spec H0.legal idx).1 hlt
  rw [hg] at hget
  cases hget
  apply hother
  rw [← hpay]
  congr 1
  rw [List.getD_eq_getElem?_getD, he]; rfl

/-! ### 2. `Array.Set` forgets the index of the child it overwrites -/

/-- Overwriting a child in an array parent (by anything but the same container) forgets its index
    (array.go:389-398), so later mutations of the child fall under
    `C11.detached_array_child_leaves_parent_unchanged`.  Purely functional: no invariant needed. -/
theorem set_forgets_index (w : World) (p : SlabID) (i : Nat) (v : WVal) (cx : Ctx) (old : Elem) (x : SlabID)
    (w' : World) (cx' : Ctx) (h : w.arrSet p i v cx = .ok (old, w', cx')) (hx : old.pay = .ref x)
    (hcont : (w.cont? x).isSome) (hv : ∀ wr, v ≠ .child x wr) :
    AList.find? (w'.idxOf p) x = none := by
  obtain ⟨old1, w1, cx1, ov, w2, hraw, hun, _, hne, _⟩ := arrSet_unfold h
  have hsome : (w1.cont? x).isSome := (arrSetRaw_domRel hraw).keeps_isSome hcont
  obtain ⟨hpay, _, _, _, _, hcase⟩ := uninlineIfNeeded_ok hun
  have hx1 : old1.pay = .ref x := by rw [← hpay]; exact hx
  rcases hcase with ⟨_, _, _, _, hnone⟩ | ⟨x', c, hov, hp', _, _⟩
  · rw [hnone x hx1] at hsome; cases hsome
  · rw [hx1] at hp'; cases hp'
    rw [hne x hov hv]
    simp [AList.find?_erase]

/-- The dual (array.go:392: `if !sameValue`): overwriting a slot with the SAME container keeps
    (re-records) its index.  (Purely functional; in a valid world the Go API forbids storing a
    container that is already referenced — `WValOk` — so this is the model's transcription of the
    guard, not a reachable use.) -/
theorem set_same_keeps_index (w : World) (p : SlabID) (i : Nat) (wr : Nat) (cx : Ctx) (old : Elem) (x : SlabID)
    (w' : World) (cx' : Ctx) (h : w.arrSet p i (.child x wr) cx = .ok (old, w', cx')) (hx : old.pay = .ref x) :
    AList.find? (w'.idxOf p) x = some i := by
  obtain ⟨old1, w1, cx1, ov, w2, hraw, hun, hnone, _, hsame⟩ := arrSet_unfold h
  -- the raw set installs the callback: index of `x` recorded as `i`
  have h1 : AList.find? (w1.idxOf p) x = some i := by
    rw [arrSetRaw] at hraw
    split at hraw
    · split at hraw
      · cases hraw
      · split at hraw
        · cases hraw
        · split at hraw
          · cases hraw
          · simp only at hraw
            split at hraw
            · cases hraw
            · cases hraw
              simp [World.setCallbackArr, World.idxOf, World.setIdx, AList.find?_insert]
    · cases hraw
  obtain ⟨hpay, _, hm, _, _, hcase⟩ := uninlineIfNeeded_ok hun
  have h2 : AList.find? (w2.idxOf p) x = some i := by
    unfold World.idxOf at h1 ⊢; rw [hm]; exact h1
  rcases hcase with ⟨hov, _⟩ | ⟨x', c, hov, hp', _, _⟩
  · rw [hnone hov]; exact h2
  · have : old1.pay = .ref x := by rw [← hpay]; exact hx
    rw [this] at hp'; cases hp'
    rw [hsame x wr hov rfl]; exact h2

/-! ### 3. After the detaching operation: the restated theorems (arrays) -/

/-- In a valid world every notification from a detached root (a live container that nobody refers
    to) is a no-op: no container, no index table, no storage effect changes; at most the stale
    closure of the notifier is dropped. -/
theorem detached_root_notification_is_noop (D : SlabID → DigestFn 4) (w : World) (ctr : Nat) (x : SlabID)
    (H : WorldOk' D w ctr) (hx : DetachedRoot w x) :
    ∀ fuel cx2 w2 cx2', notifyParent fuel w x cx2 = .ok (w2, cx2') →
      cx2' = cx2 ∧ (w2 = w ∨ w2 = { w with hinfo := AList.erase w.hinfo x }) :=
  fun fuel cx2 w2 cx2' h =>
    C10W.detached_root_notification_is_noop D (fun _ => False) fuel w x cx2 w2 cx2' ctr H hx h

/-- RESTATEMENT of `C11.replaced_slot_leaves_parent_unchanged` with hypotheses that reachable worlds
    satisfy.  A child container `x` of the array `p` is OVERWRITTEN by another container `y`
    (`Array.Set` through a current handle, in a valid world; `y` an unreferenced live container):
    (a) slot `i` of `p` now holds ANOTHER container (`y ≠ x`);
    (b) the `mutableElementIndex` entry of `x` is gone (array.go:389-398);
    (c) `x` is a detached root: live, referenced by nobody, standalone, same data, same value ID;
    (d) the global invariant holds afterwards;
    (e) EVERY later notification from `x` (whatever its stale closure says) changes no container,
        no index table and no storage effect: the former parent's content, size bookkeeping and
        persisted form are untouched; at most the closure of `x` is cleared. -/
theorem overwritten_child_leaves_parent_unchanged (D : SlabID → DigestFn 4) (w : World) (p : SlabID) (i : Nat)
    (y : SlabID) (wr : Nat) (cx : Ctx) (old : Elem) (w' : World) (cx' : Ctx) (x : SlabID) (c : Cont)
    (H : WorldOk' D w cx.ctr) (hh : HandleOk w p) (hv : WValOk w p (maxInlineArr w.T) (.child y wr))
    (h : w.arrSet p i (.child y wr) cx = .ok (old, w', cx')) (hx : old.pay = .ref x) (hc : w.cont? x = some c) :
    (∃ a' e, w'.cont? p = some (.arr a') ∧ a'.toList[i]? = some e ∧ e.pay = .ref y ∧ y ≠ x) ∧
    AList.find? (w'.idxOf p) x = none ∧
    (DetachedRoot w' x ∧ ∃ c', w'.cont? x = some c' ∧ c'.isInlined = false ∧ c'.vid = c.vid ∧
      c'.storedElems = c.storedElems) ∧
    WorldOk' D w' cx'.ctr ∧
    (∀ fuel cx2 w2 cx2', notifyParent fuel w' x cx2 = .ok (w2, cx2') →
      cx2' = cx2 ∧ (w2 = w' ∨ w2 = { w' with hinfo := AList.erase w'.hinfo x })) := by
  obtain ⟨H', _, hset, _, _⟩ := C10W.worldOk'_arrSet D w p i _ cx old w' cx' H hh hv h
  obtain ⟨a, a', old0, e, hpa, hpa', hold0, hl, hpay, hb, _, hch⟩ := hset
  have hx0 : old0.pay = .ref x := by rw [← hpay]; exact hx
  have hlt : i < a.toList.length := (List.getElem?_eq_some_iff.mp hold0).1
  -- `x` is referenced (by `p`), `y` is not
  have hyx : y ≠ x := by
    rintro rfl
    exact hv.2.1 p (holds_arr_of_mem hpa (List.mem_of_getElem? hold0) hx0)
  have hdet := hb.detached hx0 hc
  refine ⟨⟨a', e, hpa', ?_, (hch y wr rfl).1, hyx⟩, ?_, hdet, H', detached_root_notification_is_noop D w' _ x H' hdet.1⟩
  · rw [hl, List.getElem?_set_self hlt]
  · refine set_forgets_index w p i _ cx old x w' cx' h hx (by rw [hc]; rfl) (fun wr' he => ?_)
    cases he; exact hyx rfl

/-- `Array.Remove` of a child container `x` from the array `p` (current handle, valid world):
    (a) `p` holds the remaining elements, none of which refers to `x`;
    (b) the `mutableElementIndex` entry of `x` is gone (array.go:527-530);
    (c) `x` is a detached root: live, referenced by nobody, standalone, same data, same value ID;
    (d) the global invariant holds afterwards;
    (e) every later notification from `x` changes no container, no index table and no storage
        effect; at most the closure of `x` is cleared. -/
theorem removed_child_leaves_parent_unchanged (D : SlabID → DigestFn 4) (w : World) (p : SlabID) (i : Nat)
    (cx : Ctx) (old : Elem) (w' : World) (cx' : Ctx) (x : SlabID) (c : Cont)
    (H : WorldOk' D w cx.ctr) (hh : HandleOk w p)
    (h : w.arrRemove p i cx = .ok (old, w', cx')) (hx : old.pay = .ref x) (hc : w.cont? x = some c) :
    (∃ a a', w.cont? p = some (.arr a) ∧ w'.cont? p = some (.arr a') ∧ a'.toList = a.toList.eraseIdx i ∧
      ∀ e ∈ a'.toList, e.pay ≠ .ref x) ∧
    AList.find? (w'.idxOf p) x = none ∧
    (DetachedRoot w' x ∧ ∃ c', w'.cont? x = some c' ∧ c'.isInlined = false ∧ c'.vid = c.vid ∧
      c'.storedElems = c.storedElems) ∧
    WorldOk' D w' cx'.ctr ∧
    (∀ fuel cx2 w2 cx2', notifyParent fuel w' x cx2 = .ok (w2, cx2') →
      cx2' = cx2 ∧ (w2 = w' ∨ w2 = { w' with hinfo := AList.erase w'.hinfo x })) := by
  obtain ⟨H', _, hrem, _, _⟩ := C10W.worldOk'_arrRemove D w p i cx old w' cx' H hh h
  obtain ⟨a, a', old0, hpa, hpa', hold0, hl, hpay, hb⟩ := hrem
  have hx0 : old0.pay = .ref x := by rw [← hpay]; exact hx
  have hdet := hb.detached hx0 hc
  refine ⟨⟨a, a', hpa, hpa', hl, fun e he hpe => hdet.1.2 p (holds_arr_of_mem hpa' he hpe)⟩,
    remove_forgets_index w p i cx old x w' cx' h hx (by rw [hc]; rfl), hdet, H',
    detached_root_notification_is_noop D w' _ x H' hdet.1⟩

/-! ### 4. Map parents: the slot hypothesis of `C11.detached_map_child_leaves_parent_unchanged`

`hslot` of that lemma says: under the key the closure recorded, the former parent holds nothing, or
something that is not a reference to the child.  The two lemmas below produce it from the detaching
operation.  (Keys: the key handed back by `OrderedMap.Remove` and the key stored by
`OrderedMap.Set` ARE the argument `k` in the model — `MapRemovedAt … rk = k`, `SetEffect` stores
`(k, e)` — and two proper keys that are equal for the comparator `MKey.same` are equal, their
digests being a function of `(size, pay)`; so no statement "up to `same`" is needed.) -/

/-- After `OrderedMap.Remove p k` the key is absent: reading it (as the callback of a child that was
    stored under it does, map.go:994-1024) answers `KeyNotFound`; the same for the key handed back. -/
theorem mapRemove_key_absent (D : SlabID → DigestFn 4) (w : World) (p : SlabID) (k : MKey) (cx : Ctx)
    (rk : MKey) (rv : Elem) (w' : World) (cx' : Ctx) (H : WorldOk' D w cx.ctr) (hh : HandleOk w p)
    (hk : KeyOk w.T 4 (D p) k) (h : w.mapRemove p k cx = .ok (rk, rv, w', cx')) :
    ∃ pm', w'.cont? p = some (.map pm') ∧ pm'.get w'.mcfg k = .error .keyNotFound ∧
      pm'.get w'.mcfg rk = .error .keyNotFound := by
  obtain ⟨H', _, hrem, _, _⟩ := C10W.worldOk'_mapRemove D w p k cx rk rv w' cx' H hh hk h
  obtain ⟨m, m', rv0, hpm, hpm', hrk, ⟨A, B, hl, hl'⟩, _, _⟩ := hrem
  have hT : w'.T = w.T := (mapRemove_domRel h).1
  have hd := keysDistinct_of_worldOk' H hpm
  rw [hl] at hd
  have hno : ∀ q ∈ m'.toList, q.1 ≠ k := by rw [hl']; exact keysDistinct_zipper hd
  have := get_absent_of_worldOk' H' hpm' (k := k) (by rw [hT]; exact hk) hno
  exact ⟨m', hpm', this, by rw [hrk]; exact this⟩

/-- After `OrderedMap.Set p k v` that OVERWRITES a child container `x` (the old value handed back
    refers to the live `x`), the key is occupied by the new value, which is not a reference to `x`. -/
theorem mapSet_key_reoccupied (D : SlabID → DigestFn 4) (w : World) (p : SlabID) (k : MKey) (v : WVal) (cx : Ctx)
    (o : Elem) (w' : World) (cx' : Ctx) (x : SlabID) (H : WorldOk' D w cx.ctr) (hh : HandleOk w p)
    (hk : KeyOk w.T 4 (D p) k) (hv : WValOk w p (maxInlineMapValue w.T k.size) v)
    (h : w.mapSet p k v cx = .ok (some o, w', cx')) (hx : o.pay = .ref x) (hc : (w.cont? x).isSome) :
    ∃ pm' el, w'.cont? p = some (.map pm') ∧ pm'.get w'.mcfg k = .ok (k, el) ∧ el.pay ≠ .ref x := by
  obtain ⟨H', _, hset, _, _⟩ := C10W.worldOk'_mapSet D w p k v cx (some o) w' cx' H hh hk hv h
  obtain ⟨m, m', e, oldo, hpm, hpm', heff, hsome, hnone, _, _⟩ := hset
  have hT : w'.T = w.T := (mapSet_domRel h).1
  cases oldo with
  | none => cases hnone rfl
  | some o0 =>
    obtain ⟨o', ho', hpay, hb⟩ := hsome o0 rfl
    cases ho'
    have hx0 : o0.pay = .ref x := by rw [← hpay]; exact hx
    obtain ⟨c, hc'⟩ := Option.isSome_iff_exists.mp hc
    have hdet := hb.detached hx0 hc'
    rcases heff with ⟨hn, _⟩ | ⟨v0, A, B, _, _, hl'⟩
    · cases hn
    · have hmem : (k, e) ∈ m'.toList := by rw [hl']; simp
      refine ⟨m', e, hpm', get_present_of_worldOk' H' hpm' (by rw [hT]; exact hk) hmem, fun hpe => ?_⟩
      exact hdet.1.2 p (holds_map_of_mem hpm' hmem hpe)

/-- `OrderedMap.Set` overwriting the child container `x` of the map `p` (current handle, valid
    world, any new value `v` that may be stored):
    (a) the key now holds the new value, not a reference to `x` (the slot hypothesis of
        `C11.detached_map_child_leaves_parent_unchanged`);
    (b) `x` is a detached root: live, referenced by nobody, standalone, same data, same value ID;
    (c) the global invariant holds afterwards;
    (d) every later notification from `x` changes no container, no index table and no storage
        effect; at most the closure of `x` is cleared. -/
theorem map_overwritten_child_leaves_parent_unchanged (D : SlabID → DigestFn 4) (w : World) (p : SlabID) (k : MKey)
    (v : WVal) (cx : Ctx) (o : Elem) (w' : World) (cx' : Ctx) (x : SlabID) (c : Cont)
    (H : WorldOk' D w cx.ctr) (hh : HandleOk w p)
    (hk : KeyOk w.T 4 (D p) k) (hv : WValOk w p (maxInlineMapValue w.T k.size) v)
    (h : w.mapSet p k v cx = .ok (some o, w', cx')) (hx : o.pay = .ref x) (hc : w.cont? x = some c) :
    (∃ pm' el, w'.cont? p = some (.map pm') ∧ pm'.get w'.mcfg k = .ok (k, el) ∧ el.pay ≠ .ref x) ∧
    (DetachedRoot w' x ∧ ∃ c', w'.cont? x = some c' ∧ c'.isInlined = false ∧ c'.vid = c.vid ∧
      c'.storedElems = c.storedElems) ∧
    WorldOk' D w' cx'.ctr ∧
    (∀ fuel cx2 w2 cx2', notifyParent fuel w' x cx2 = .ok (w2, cx2') →
      cx2' = cx2 ∧ (w2 = w' ∨ w2 = { w' with hinfo := AList.erase w'.hinfo x })) := by
  have hslot := mapSet_key_reoccupied D w p k v cx o w' cx' x H hh hk hv h hx (by rw [hc]; rfl)
  obtain ⟨H', _, hset, _, _⟩ := C10W.worldOk'_mapSet D w p k v cx (some o) w' cx' H hh hk hv h
  obtain ⟨m, m', e, oldo, _, _, _, hsome, hnone, _, _⟩ := hset
  cases oldo with
  | none => cases hnone rfl
  | some o0 =>
    obtain ⟨o', ho', hpay, hb⟩ := hsome o0 rfl
    cases ho'
    have hdet := hb.detached (by rw [← hpay]; exact hx) hc
    exact ⟨hslot, hdet, H', detached_root_notification_is_noop D w' _ x H' hdet.1⟩

/-- `OrderedMap.Remove` of the child container `x` of the map `p` (current handle, valid world):
    (a) the key is absent afterwards (the slot hypothesis of
        `C11.detached_map_child_leaves_parent_unchanged`), and no value of `p` refers to `x`;
    (b) `x` is a detached root: live, referenced by nobody, standalone, same data, same value ID;
    (c) the global invariant holds afterwards;
    (d) every later notification from `x` changes no container, no index table and no storage
        effect; at most the closure of `x` is cleared. -/
theorem map_removed_child_leaves_parent_unchanged (D : SlabID → DigestFn 4) (w : World) (p : SlabID) (k : MKey)
    (cx : Ctx) (rk : MKey) (rv : Elem) (w' : World) (cx' : Ctx) (x : SlabID) (c : Cont)
    (H : WorldOk' D w cx.ctr) (hh : HandleOk w p) (hk : KeyOk w.T 4 (D p) k)
    (h : w.mapRemove p k cx = .ok (rk, rv, w', cx')) (hx : rv.pay = .ref x) (hc : w.cont? x = some c) :
    (∃ pm', w'.cont? p = some (.map pm') ∧ pm'.get w'.mcfg k = .error .keyNotFound ∧
      pm'.get w'.mcfg rk = .error .keyNotFound ∧ ∀ q ∈ pm'.toList, q.2.pay ≠ .ref x) ∧
    (DetachedRoot w' x ∧ ∃ c', w'.cont? x = some c' ∧ c'.isInlined = false ∧ c'.vid = c.vid ∧
      c'.storedElems = c.storedElems) ∧
    WorldOk' D w' cx'.ctr ∧
    (∀ fuel cx2 w2 cx2', notifyParent fuel w' x cx2 = .ok (w2, cx2') →
      cx2' = cx2 ∧ (w2 = w' ∨ w2 = { w' with hinfo := AList.erase w'.hinfo x })) := by
  obtain ⟨pm', hpm', hg1, hg2⟩ := mapRemove_key_absent D w p k cx rk rv w' cx' H hh hk h
  obtain ⟨H', _, hrem, _, _⟩ := C10W.worldOk'_mapRemove D w p k cx rk rv w' cx' H hh hk h
  obtain ⟨m, m', rv0, _, _, _, _, hpay, hb⟩ := hrem
  have hdet := hb.detached (by rw [← hpay]; exact hx) hc
  exact ⟨⟨pm', hpm', hg1, hg2, fun q hq hpe => hdet.1.2 p (holds_map_of_mem hpm' (k := q.1) hq hpe)⟩, hdet, H',
    detached_root_notification_is_noop D w' _ x H' hdet.1⟩

/-! ### 5. A detached root stays a detached root

"The detached container … can be mutated, disposed of or attached to another parent": until it IS
attached to a parent (stored as a value: `v = .child x _`), no operation through a current handle
— to another container OR to `x` itself — makes any container refer to `x`, and `x` stays live.  So
the no-op statement `detached_root_notification_is_noop` applies to `x` after any number of such
operations (each of which keeps `WorldOk'`). -/

/-- `Array.Insert` -/
theorem detachedRoot_arrInsert (D : SlabID → DigestFn 4) (w : World) (p : SlabID) (i : Nat) (v : WVal) (cx : Ctx)
    (w' : World) (cx' : Ctx) (x : SlabID) (H : WorldOk' D w cx.ctr) (hh : HandleOk w p)
    (hv : WValOk w p (maxInlineArr w.T) v) (h : w.arrInsert p i v cx = .ok (w', cx'))
    (hx : DetachedRoot w x) (hvx : ∀ wr, v ≠ .child x wr) : DetachedRoot w' x := by
  obtain ⟨_, _, hins, _, hS⟩ := C10W.worldOk'_arrInsert D w p i v cx w' cx' H hh hv h
  obtain ⟨a, a', e, hpa, hpa', hi, hl, h1, h2⟩ := hins
  refine hx.of_frame hS (by rw [hpa']; rfl) (fun c' hc' hm => ?_)
  rw [hpa'] at hc'; cases hc'
  obtain ⟨e', he', hpe⟩ := mem_pays_iff.mp hm
  have he'' : e' ∈ a.toList.insertIdx i e := by rw [← hl]; exact he'
  rcases (List.mem_insertIdx hi).mp he'' with rfl | hmem
  · exact hv.new_elem_not_ref hvx h1 (fun y wr hy => (h2 y wr hy).1) hpe
  · exact hx.2 p (holds_arr_of_mem hpa hmem hpe)

/-- `Array.Set` -/
theorem detachedRoot_arrSet (D : SlabID → DigestFn 4) (w : World) (p : SlabID) (i : Nat) (v : WVal) (cx : Ctx)
    (old : Elem) (w' : World) (cx' : Ctx) (x : SlabID) (H : WorldOk' D w cx.ctr) (hh : HandleOk w p)
    (hv : WValOk w p (maxInlineArr w.T) v) (h : w.arrSet p i v cx = .ok (old, w', cx'))
    (hx : DetachedRoot w x) (hvx : ∀ wr, v ≠ .child x wr) : DetachedRoot w' x := by
  obtain ⟨_, _, hset, _, hS⟩ := C10W.worldOk'_arrSet D w p i v cx old w' cx' H hh hv h
  obtain ⟨a, a', old0, e, hpa, hpa', _, hl, _, _, h1, h2⟩ := hset
  refine hx.of_frame hS (by rw [hpa']; rfl) (fun c' hc' hm => ?_)
  rw [hpa'] at hc'; cases hc'
  obtain ⟨e', he', hpe⟩ := mem_pays_iff.mp hm
  have he'' : e' ∈ a.toList.set i e := by rw [← hl]; exact he'
  rcases List.mem_or_eq_of_mem_set he'' with hmem | rfl
  · exact hx.2 p (holds_arr_of_mem hpa hmem hpe)
  · exact hv.new_elem_not_ref hvx h1 (fun y wr hy => (h2 y wr hy).1) hpe

/-- `Array.Remove` -/
theorem detachedRoot_arrRemove (D : SlabID → DigestFn 4) (w : World) (p : SlabID) (i : Nat) (cx : Ctx)
    (old : Elem) (w' : World) (cx' : Ctx) (x : SlabID) (H : WorldOk' D w cx.ctr) (hh : HandleOk w p)
    (h : w.arrRemove p i cx = .ok (old, w', cx')) (hx : DetachedRoot w x) : DetachedRoot w' x := by
  obtain ⟨_, _, hrem, _, hS⟩ := C10W.worldOk'_arrRemove D w p i cx old w' cx' H hh h
  obtain ⟨a, a', old0, hpa, hpa', _, hl, _, _⟩ := hrem
  refine hx.of_frame hS (by rw [hpa']; rfl) (fun c' hc' hm => ?_)
  rw [hpa'] at hc'; cases hc'
  obtain ⟨e', he', hpe⟩ := mem_pays_iff.mp hm
  have he'' : e' ∈ a.toList.eraseIdx i := by rw [← hl]; exact he'
  exact hx.2 p (holds_arr_of_mem hpa (List.mem_of_mem_eraseIdx he'') hpe)

/-- `OrderedMap.Set` -/
theorem detachedRoot_mapSet (D : SlabID → DigestFn 4) (w : World) (p : SlabID) (k : MKey) (v : WVal) (cx : Ctx)
    (old : Option Elem) (w' : World) (cx' : Ctx) (x : SlabID) (H : WorldOk' D w cx.ctr) (hh : HandleOk w p)
    (hk : KeyOk w.T 4 (D p) k) (hv : WValOk w p (maxInlineMapValue w.T k.size) v)
    (h : w.mapSet p k v cx = .ok (old, w', cx'))
    (hx : DetachedRoot w x) (hvx : ∀ wr, v ≠ .child x wr) : DetachedRoot w' x := by
  obtain ⟨_, _, hset, _, hS⟩ := C10W.worldOk'_mapSet D w p k v cx old w' cx' H hh hk hv h
  obtain ⟨m, m', e, oldo, hpm, hpm', heff, _, _, h1, h2⟩ := hset
  refine hx.of_frame hS (by rw [hpm']; rfl) (fun c' hc' hm => ?_)
  rw [hpm'] at hc'; cases hc'
  obtain ⟨e', he', hpe⟩ := mem_pays_iff.mp hm
  obtain ⟨q, hq, rfl⟩ := List.mem_map.mp he'
  rcases heff.mem q hq with rfl | hmem
  · exact hv.new_elem_not_ref hvx h1 (fun y wr hy => (h2 y wr hy).1) hpe
  · exact hx.2 p (holds_map_of_mem hpm (k := q.1) hmem hpe)

/-- `OrderedMap.Remove` -/
theorem detachedRoot_mapRemove (D : SlabID → DigestFn 4) (w : World) (p : SlabID) (k : MKey) (cx : Ctx)
    (rk : MKey) (rv : Elem) (w' : World) (cx' : Ctx) (x : SlabID) (H : WorldOk' D w cx.ctr) (hh : HandleOk w p)
    (hk : KeyOk w.T 4 (D p) k) (h : w.mapRemove p k cx = .ok (rk, rv, w', cx'))
    (hx : DetachedRoot w x) : DetachedRoot w' x := by
  obtain ⟨_, _, hrem, _, hS⟩ := C10W.worldOk'_mapRemove D w p k cx rk rv w' cx' H hh hk h
  obtain ⟨m, m', rv0, hpm, hpm', _, heff, _, _⟩ := hrem
  refine hx.of_frame hS (by rw [hpm']; rfl) (fun c' hc' hm => ?_)
  rw [hpm'] at hc'; cases hc'
  obtain ⟨e', he', hpe⟩ := mem_pays_iff.mp hm
  obtain ⟨q, hq, rfl⟩ := List.mem_map.mp he'
  exact hx.2 p (holds_map_of_mem hpm (k := q.1) (heff.mem q hq) hpe)

/-- `Array.Get` / `OrderedMap.Get` (and the mutable iterators): no container changes -/
theorem detachedRoot_of_conts_eq (w w' : World) (x : SlabID) (hc : ∀ z, w'.cont? z = w.cont? z)
    (hx : DetachedRoot w x) : DetachedRoot w' x := by
  refine ⟨by rw [hc]; exact hx.1, fun q ⟨c, hq, hm⟩ => hx.2 q ⟨c, by rw [← hc]; exact hq, hm⟩⟩

theorem detachedRoot_arrGet (D : SlabID → DigestFn 4) (w : World) (p : SlabID) (i : Nat) (el : Elem) (w' : World)
    (ctr : Nat) (x : SlabID) (H : WorldOk' D w ctr) (hh : HandleOk w p) (h : w.arrGet p i = .ok (el, w'))
    (hx : DetachedRoot w x) : DetachedRoot w' x :=
  detachedRoot_of_conts_eq w w' x (C10W.worldOk'_arrGet D w p i el w' ctr H hh h).2.1 hx

theorem detachedRoot_mapGet (D : SlabID → DigestFn 4) (w : World) (p : SlabID) (k : MKey) (el : Elem) (w' : World)
    (ctr : Nat) (x : SlabID) (H : WorldOk' D w ctr) (hh : HandleOk w p) (hk : KeyOk w.T 4 (D p) k)
    (h : w.mapGet p k = .ok (el, w')) (hx : DetachedRoot w x) : DetachedRoot w' x :=
  detachedRoot_of_conts_eq w w' x (C10W.worldOk'_mapGet D w p k el w' ctr H hh hk h).2.1 hx

/-- `SetType` (through a current handle to any container, `x` included): no signature changes -/
theorem detachedRoot_setType (D : SlabID → DigestFn 4) (w : World) (p : SlabID) (ty : Nat) (cx : Ctx) (w' : World)
    (cx' : Ctx) (x : SlabID) (H : WorldOk' D w cx.ctr) (hh : HandleOk w p)
    (h : w.setType p ty cx = .ok (w', cx')) (hx : DetachedRoot w x) : DetachedRoot w' x := by
  have hs := setType_sig' H hh h
  have hS : SigFrame w w' x := fun z _ => hs z
  obtain ⟨c, hc⟩ := Option.isSome_iff_exists.mp hx.1
  have hsx := hs x
  rw [hc] at hsx
  cases hc' : w'.cont? x with
  | none => rw [hc'] at hsx; cases hsx
  | some c' =>
    rw [hc'] at hsx
    simp only [Option.map_some, Option.some.injEq] at hsx
    refine hx.of_frame hS (by rw [hc']; rfl) (fun c'' hc'' hm => ?_)
    rw [hc'] at hc''; cases hc''
    exact hx.2 x ⟨c, hc, by rw [← Cont.sig_pays hsx]; exact hm⟩

/-! ### 6. A mutation through the handle of a detached root writes nothing but the container itself

Audit S4: the whole-operation statement ("no other container, closure or index table changes")
existed for `Array.Insert` of a plain value only (`C10W.kept_child_arrInsert`).  Here: `Array.Remove`,
`Array.Set`, `OrderedMap.Set`, `OrderedMap.Remove`, `SetType` through the handle of a detached root
`x`, in a world that satisfies the invariant (`WorldOkKept D K` ⊇ `WorldOk'`; `x` may be a kept popped
child).  Conclusion shape: the container-level operation on `x` (`Arr.remove`, …) that was
performed; every entry of the container table, of the closure table and of the index tables other
than those of `x` — and of the child `y` of `x` that is handed back, which is un-inlined, never
the former parent — is the SAME (so the former parent keeps content, sizes and form); the storage
effects are those of the container-level operation on `x`, plus `store y` if `y` was inlined:
the notification contributes nothing. -/

/-- `Array.Remove` through the handle of a detached root -/
theorem detached_arrRemove_writes_only_self (D : SlabID → DigestFn 4) (K : SlabID → Prop) (w : World) (x : SlabID)
    (i : Nat) (cx : Ctx) (old : Elem) (w' : World) (cx' : Ctx)
    (H : WorldOkKept D K w cx.ctr) (hx : DetachedRoot w x) (h : w.arrRemove x i cx = .ok (old, w', cx')) :
    ∃ a a' old1 cx1 ov, w.cont? x = some (.arr a) ∧ a.remove w.T i cx = .ok (old1, a', cx1) ∧
      a.toList[i]? = some old1 ∧ a'.toList = a.toList.eraseIdx i ∧ old.pay = old1.pay ∧
      (∀ y, ov = some y → old1.pay = .ref y) ∧
      (cx' = cx1 ∨ ∃ y, ov = some y ∧ cx' = cx1.emit (.store y)) ∧
      (∀ z, z ≠ x → some z ≠ ov → w'.cont? z = w.cont? z ∧ AList.find? w'.hinfo z = AList.find? w.hinfo z ∧
        AList.find? w'.mutIdx z = AList.find? w.mutIdx z) := by
  obtain ⟨rank, H0⟩ := H
  exact root_arrRemove H0 hx h

/-- `Array.Set` of a plain value through the handle of a detached root -/
theorem detached_arrSet_writes_only_self (D : SlabID → DigestFn 4) (K : SlabID → Prop) (w : World) (x : SlabID)
    (i : Nat) (e : Elem) (cx : Ctx) (old : Elem) (w' : World) (cx' : Ctx)
    (H : WorldOkKept D K w cx.ctr) (hx : DetachedRoot w x) (hv : ValueOk e ∧ e.size ≤ maxInlineArr w.T)
    (h : w.arrSet x i (.plain e) cx = .ok (old, w', cx')) :
    ∃ a a' old1 cx1 ov, w.cont? x = some (.arr a) ∧ a.set w.T i e cx = .ok (old1, a', cx1) ∧
      a.toList[i]? = some old1 ∧ a'.toList = a.toList.set i e ∧ old.pay = old1.pay ∧
      (∀ y, ov = some y → old1.pay = .ref y) ∧
      (cx' = cx1 ∨ ∃ y, ov = some y ∧ cx' = cx1.emit (.store y)) ∧
      (∀ z, z ≠ x → some z ≠ ov → w'.cont? z = w.cont? z ∧ AList.find? w'.hinfo z = AList.find? w.hinfo z ∧
        AList.find? w'.mutIdx z = AList.find? w.mutIdx z) := by
  obtain ⟨rank, H0⟩ := H
  exact root_arrSet_plain H0 hx ⟨hv.1.1, hv.2⟩ h

/-- `OrderedMap.Remove` through the handle of a detached root.  `hself`: the closure of `x` does not
    name `x` itself (closures are installed by the holder of a child, so this holds in every run;
    it is not a clause of the invariant — same hypothesis as `C10W.kept_child_mapSet_frame`). -/
theorem detached_mapRemove_writes_only_self (D : SlabID → DigestFn 4) (K : SlabID → Prop) (w : World) (x : SlabID)
    (k : MKey) (cx : Ctx) (rk : MKey) (rv : Elem) (w' : World) (cx' : Ctx) (ctr : Nat)
    (H : WorldOkKept D K w ctr) (hx : DetachedRoot w x)
    (hself : ∀ hi, AList.find? w.hinfo x = some hi → hi.parent ≠ x)
    (h : w.mapRemove x k cx = .ok (rk, rv, w', cx')) :
    ∃ m m' rv1 cx1 ov, w.cont? x = some (.map m) ∧ m.remove w.mcfg k cx = .ok (rk, rv1, m', cx1) ∧
      rv.pay = rv1.pay ∧ (∀ y, ov = some y → rv1.pay = .ref y) ∧
      (cx' = cx1 ∨ ∃ y, ov = some y ∧ cx' = cx1.emit (.store y)) ∧
      (∀ z, z ≠ x → some z ≠ ov → w'.cont? z = w.cont? z ∧ AList.find? w'.hinfo z = AList.find? w.hinfo z ∧
        AList.find? w'.mutIdx z = AList.find? w.mutIdx z) := by
  obtain ⟨rank, H0⟩ := H
  exact root_mapRemove H0 hx hself h

/-- `OrderedMap.Set` of a plain value through the handle of a detached root -/
theorem detached_mapSet_writes_only_self (D : SlabID → DigestFn 4) (K : SlabID → Prop) (w : World) (x : SlabID)
    (k : MKey) (e : Elem) (cx : Ctx) (old : Option Elem) (w' : World) (cx' : Ctx) (ctr : Nat)
    (H : WorldOkKept D K w ctr) (hx : DetachedRoot w x)
    (hself : ∀ hi, AList.find? w.hinfo x = some hi → hi.parent ≠ x)
    (h : w.mapSet x k (.plain e) cx = .ok (old, w', cx')) :
    ∃ m m' old1 cx1 ov, w.cont? x = some (.map m) ∧ m.set w.mcfg k e cx = .ok (old1, m', cx1) ∧
      old.map (·.pay) = old1.map (·.pay) ∧ (∀ y, ov = some y → ∃ o, old1 = some o ∧ o.pay = .ref y) ∧
      (cx' = cx1 ∨ ∃ y, ov = some y ∧ cx' = cx1.emit (.store y)) ∧
      (∀ z, z ≠ x → some z ≠ ov → w'.cont? z = w.cont? z ∧ AList.find? w'.hinfo z = AList.find? w.hinfo z ∧
        AList.find? w'.mutIdx z = AList.find? w.mutIdx z) := by
  obtain ⟨rank, H0⟩ := H
  exact root_mapSet_plain H0 hx hself h

/-- `SetType` through the handle of a detached root (under `WorldOk'` a detached root is
    standalone): only the type field of `x` changes, the one storage effect is `store x`, no other
    container, closure or index table changes. -/
theorem detached_setType_writes_only_self (D : SlabID → DigestFn 4) (w : World) (x : SlabID) (ty : Nat) (cx : Ctx)
    (w' : World) (cx' : Ctx) (ctr : Nat) (H : WorldOk' D w ctr) (hx : DetachedRoot w x)
    (h : w.setType x ty cx = .ok (w', cx')) :
    ∃ c c', w.cont? x = some c ∧ w' = w.setCont x c' ∧ c'.storedElems = c.storedElems ∧ c'.vid = c.vid ∧
      c'.isInlined = false ∧ cx' = cx.emit (.store x) ∧
      (∀ z, z ≠ x → w'.cont? z = w.cont? z) ∧ w'.hinfo = w.hinfo ∧ w'.mutIdx = w.mutIdx := by
  obtain ⟨c, hc⟩ := Option.isSome_iff_exists.mp hx.1
  have hst : c.isInlined = false := by
    cases hi : c.isInlined with
    | false => rfl
    | true =>
      obtain ⟨⟨p, hp⟩, _⟩ := C10W.worldOk'_inlined_referenced_once H x c hc hi
      exact absurd hp (hx.2 p)
  obtain ⟨⟨c', h1, h2, h3, h4⟩, h5, h6, h7, h8⟩ := root_setType hc hst h
  have hvid : c.vid = x := (C10W.worldOk'_contOk H x c hc).2
  exact ⟨c, c', hc, h1, h2, h3, h4, by rw [h5, hvid], h6, h7, h8⟩

/-! ### 7. "… an intact, independently stored value … that can be reloaded, mutated, disposed of or
attached to another parent" -/

/-- What a detached root `x` of a valid world can be used for (the second sentence of C11; the
    first three items restate `C10W.worldOk'_reopen`, `HandleOk.root`, `C10W.worldOk_forget` for `x`):
    * RELOADED — after reopening the storage the full invariant holds, `x` is the same container
      and its (new) handle is current;
    * MUTATED — its handle is current, so every operation theorem `C10W.worldOk'_*` applies to
      operations through it (and sections 5, 6 above say what they do not touch);
    * DISPOSED OF — `World.forget` keeps the invariant and removes exactly what is below `x`;
    * ATTACHED TO ANOTHER PARENT — `x` is a legal value (`WValOk`) for any container `q` it is not
      an ancestor of, in any slot its wrapped reference fits. -/
theorem detached_root_lifecycle (D : SlabID → DigestFn 4) (w : World) (ctr : Nat) (x : SlabID)
    (H : WorldOk' D w ctr) (hx : DetachedRoot w x) :
    (WorldOk D w.reopen ctr ∧ w.reopen.cont? x = w.cont? x ∧ HandleOk w.reopen x ∧ DetachedRoot w.reopen x) ∧
    HandleOk w x ∧
    (WorldOk' D (World.forget w.fuelOf w x) ctr ∧ ForgetFrame w (World.forget w.fuelOf w x) x) ∧
    (∀ q lim wr, ¬ Anc w x q → slabIDStorableSize + 2 * wr ≤ lim → WValOk w q lim (.child x wr)) := by
  obtain ⟨r1, r2, r3⟩ := C10W.worldOk'_reopen D w ctr H
  exact ⟨⟨r1, r2 x, r3 x hx.2, detachedRoot_of_conts_eq w w.reopen x r2 hx⟩, HandleOk.root x hx.2,
    C10W.worldOk_forget D w x ctr H hx, fun q lim wr ha hl => ⟨hx.1, hx.2, ha, hl⟩⟩

/-! ### Non-vacuity, run A (`AtreeProofs/World/C11Scenario.lean`, T = 256)

Root array `R`; array `X` INLINED in slot 0 of `R` (one value); `Array.Set R 0 Y` overwrites `X` by
the array `Y`; then `Array.Insert X 1 …` through the handle of the detached `X`. -/
section NonVacuityA
open Atree.C11Scenario
open Atree.OkScenario (D pl cont?_getD)

/-- The hypotheses of `overwritten_child_leaves_parent_unchanged` are met by the overwrite step of
    run A (the invariant by chaining the operation theorems from the empty world); `X` is inlined
    in `R` before the overwrite. -/
theorem overwritten_hyps_met :
    WorldOk' D c5.1 c5.2.ctr ∧ HandleOk c5.1 R ∧ WValOk c5.1 R (maxInlineArr c5.1.T) (.child Y 0) ∧
    c5.1.arrSet R 0 (.child Y 0) c5.2 = .ok c6 ∧ c6.1.pay = .ref X ∧
    (c5.1.cont? R).map Cont.pays = some [.ref X] ∧
    (c5.1.cont? X).map Cont.isInlined = some true ∧ (c5.1.cont? X).map Cont.pays = some [.val 1] :=
  ⟨okA5, handleR5, valY5, runA6, by decide, by decide, by decide, by decide⟩

/-- … so its conclusions hold of the state `c6` after the overwrite. -/
theorem overwritten_instance :
    ∃ c, c5.1.cont? X = some c ∧
    (∃ a' e, c6.2.1.cont? R = some (.arr a') ∧ a'.toList[0]? = some e ∧ e.pay = .ref Y ∧ Y ≠ X) ∧
    AList.find? (c6.2.1.idxOf R) X = none ∧
    (DetachedRoot c6.2.1 X ∧ ∃ c', c6.2.1.cont? X = some c' ∧ c'.isInlined = false ∧ c'.vid = c.vid ∧
      c'.storedElems = c.storedElems) ∧
    WorldOk' D c6.2.1 c6.2.2.ctr ∧
    (∀ fuel cx2 w2 cx2', notifyParent fuel c6.2.1 X cx2 = .ok (w2, cx2') →
      cx2' = cx2 ∧ (w2 = c6.2.1 ∨ w2 = { c6.2.1 with hinfo := AList.erase c6.2.1.hinfo X })) := by
  have hc := cont?_getD (w := c5.1) (x := X) (.arr (Arr.new 0 0 Scenario.cx0).1) (by decide)
  exact ⟨_, hc, overwritten_child_leaves_parent_unchanged D c5.1 R 0 Y 0 c5.2 c6.1 c6.2.1 c6.2.2 X _
    okA5 handleR5 valY5 runA6 (by decide) hc⟩

/-- What the run looks like around the detachment.  After the overwrite: slot 0 of `R` holds `Y`
    (inlined: 17 bytes), the reference to `X` was handed back (19 bytes), `X` has been un-inlined
    (`store X`), KEEPS its closure naming `R` (the Go object keeps its `parentUpdater`), and its
    index entry is gone.  The later `Array.Insert` through the handle of `X` is a successful run of
    the model operation; it writes `X` only (`store X`); `R` — content, root size, index table —
    is unchanged; the stale closure of `X` has been cleared. -/
theorem overwritten_run_facts :
    (c6.2.1.cont? R).map Cont.storedElems = some [⟨17, .ref Y⟩] ∧ c6.1 = ⟨19, .ref X⟩ ∧
    c6.2.2.eff = c5.2.eff ++ [.remove Y, .store R, .store X] ∧
    AList.find? c6.2.1.hinfo X = some ⟨R, none, 117, 0⟩ ∧
    AList.find? (c6.2.1.idxOf R) X = none ∧ AList.find? (c6.2.1.idxOf R) Y = some 0 ∧
    c6.2.1.arrInsert X 1 (pl 2) c6.2.2 = .ok c7 ∧
    c7.2.eff = c6.2.2.eff ++ [.store X] ∧
    (c7.1.cont? R).map Cont.storedElems = (c6.2.1.cont? R).map Cont.storedElems ∧
    (c7.1.cont? R).map Cont.rootSize = (c6.2.1.cont? R).map Cont.rootSize ∧
    (c7.1.cont? R).map Cont.isInlined = (c6.2.1.cont? R).map Cont.isInlined ∧
    c7.1.idxOf R = c6.2.1.idxOf R ∧
    (c7.1.cont? X).map Cont.pays = some [.val 1, .val 2] ∧
    AList.find? c7.1.hinfo X = none := by
  refine ⟨by decide, by decide, by decide, by decide, by decide, by decide, runA7, by decide, by decide,
    by decide, by decide, by decide, by decide, by decide⟩

/-- `set_forgets_index` applies to the overwrite of `X` -/
theorem set_forgets_index_applies : AList.find? (c6.2.1.idxOf R) X = none :=
  set_forgets_index c5.1 R 0 (.child Y 0) c5.2 c6.1 X c6.2.1 c6.2.2 runA6 (by decide) (by decide)
    (fun wr h => by cases h)

/-- Inside the later `Array.Insert` through `X` (state `mid7` at the call of `notifyParent`): the
    hypotheses of `C11.detached_array_child_leaves_parent_unchanged` are met — closure present and
    naming the live array `R`, index unknown — the callback is NOT short-cut (`X` is standalone but
    would fit inline), slot 0 of the former parent holds another container, and the second
    alternative of the conclusion happens (the closure is cleared). -/
theorem overwritten_detached_hyps_met :
    ∃ (c : Cont) (pa : Arr),
      AList.find? mid7.1.hinfo X = some ⟨R, none, 117, 0⟩ ∧ mid7.1.cont? X = some c ∧
      mid7.1.cont? R = some (.arr pa) ∧ AList.find? (mid7.1.idxOf R) X = none ∧
      pa.toList.map (·.pay) = [.ref Y] ∧
      notifyParent (3 + 1) mid7.1 X mid7.2 =
        .ok ({ mid7.1 with hinfo := AList.erase mid7.1.hinfo X }, mid7.2) ∧
      ¬ (c.isInlined = false ∧ c.inlinable 117 = false) := by
  refine ⟨.arr (Scenario.arrOf mid7.1 X), Scenario.arrOf mid7.1 R, by decide, rfl, rfl, by decide, by decide, ?_,
    by decide⟩
  rw [notifyParent_eq_notifyS]; rfl

end NonVacuityA

/-! ### Non-vacuity, run B (map parent)

Root map `P`; array `X` INLINED under the key `K1` (one value).  B1: `OrderedMap.Remove P K1`;
B2: `OrderedMap.Set P K1 Y` (another array).  In both branches `Array.Insert X 1 …` follows through
the handle of the detached `X`.  These are the two instances of the slot hypothesis of
`C11.detached_map_child_leaves_parent_unchanged`: key absent, key re-occupied by another value. -/
section NonVacuityB
open Atree.C11Scenario
open Atree.OkScenario (D pl cont?_getD K1)

/-- B1: the hypotheses of `map_removed_child_leaves_parent_unchanged` are met. -/
theorem map_removed_hyps_met :
    WorldOk' D d5.1 d5.2.ctr ∧ HandleOk d5.1 P ∧ KeyOk d5.1.T 4 (D P) K1 ∧
    d5.1.mapRemove P K1 d5.2 = .ok d6 ∧ d6.2.1.pay = .ref X ∧
    (d5.1.cont? P).map Cont.pays = some [.ref X] ∧
    (d5.1.cont? X).map Cont.isInlined = some true ∧ (d5.1.cont? X).map Cont.pays = some [.val 1] :=
  ⟨okB5, handleP5, keyP5, runB6, by decide, by decide, by decide, by decide⟩

/-- … so its conclusions hold of the state `d6` after the removal. -/
theorem map_removed_instance :
    ∃ c, d5.1.cont? X = some c ∧
    (∃ pm', d6.2.2.1.cont? P = some (.map pm') ∧ pm'.get d6.2.2.1.mcfg K1 = .error .keyNotFound ∧
      pm'.get d6.2.2.1.mcfg d6.1 = .error .keyNotFound ∧ ∀ q ∈ pm'.toList, q.2.pay ≠ .ref X) ∧
    (DetachedRoot d6.2.2.1 X ∧ ∃ c', d6.2.2.1.cont? X = some c' ∧ c'.isInlined = false ∧ c'.vid = c.vid ∧
      c'.storedElems = c.storedElems) ∧
    WorldOk' D d6.2.2.1 d6.2.2.2.ctr ∧
    (∀ fuel cx2 w2 cx2', notifyParent fuel d6.2.2.1 X cx2 = .ok (w2, cx2') →
      cx2' = cx2 ∧ (w2 = d6.2.2.1 ∨ w2 = { d6.2.2.1 with hinfo := AList.erase d6.2.2.1.hinfo X })) := by
  have hc := cont?_getD (w := d5.1) (x := X) (.arr (Arr.new 0 0 Scenario.cx0).1) (by decide)
  exact ⟨_, hc, map_removed_child_leaves_parent_unchanged D d5.1 P K1 d5.2 d6.1 d6.2.1 d6.2.2.1 d6.2.2.2 X _
    okB5 handleP5 keyP5 runB6 (by decide) hc⟩

/-- B1, KEY ABSENT: inside the later `Array.Insert` through `X` (state `midB1` at the call of
    `notifyParent`) the hypotheses of `C11.detached_map_child_leaves_parent_unchanged` are met with
    the first alternative of `hslot`: the closure of `X` names the live map `P` and the key `K1`,
    `P.Get(K1)` answers `KeyNotFound`; the callback is not short-cut (`X` would fit inline); the
    closure is cleared and nothing else changes. -/
theorem map_removed_detached_hyps_met :
    ∃ (c : Cont) (pm : OMap 3),
      AList.find? midB1.1.hinfo X = some ⟨P, some K1, 96, 0⟩ ∧ midB1.1.cont? X = some c ∧
      midB1.1.cont? P = some (.map pm) ∧ pm.get midB1.1.mcfg K1 = .error .keyNotFound ∧
      notifyParent (3 + 1) midB1.1 X midB1.2 =
        .ok ({ midB1.1 with hinfo := AList.erase midB1.1.hinfo X }, midB1.2) ∧
      ¬ (c.isInlined = false ∧ c.inlinable 96 = false) := by
  refine ⟨.arr (Scenario.arrOf midB1.1 X), mapOf midB1.1 P, by decide, rfl, rfl, by decide, ?_, by decide⟩
  rw [notifyParent_eq_notifyS]; rfl

/-- B1: the run.  The removal hands back the 19-byte reference, empties `P`, un-inlines `X`
    (`store P`, `store X`) and leaves the closure of `X` in place; the later insert through `X` is
    a successful run of the model operation that writes `X` only; `P` (content, root size) is
    unchanged and the stale closure is cleared. -/
theorem map_removed_run_facts :
    d6.1 = K1 ∧ d6.2.1 = ⟨19, .ref X⟩ ∧ (d6.2.2.1.cont? P).map Cont.storedElems = some [] ∧
    d6.2.2.2.eff = d5.2.eff ++ [.store P, .store X] ∧
    AList.find? d6.2.2.1.hinfo X = some ⟨P, some K1, 96, 0⟩ ∧
    d6.2.2.1.arrInsert X 1 (pl 2) d6.2.2.2 = .ok d7 ∧
    d7.2.eff = d6.2.2.2.eff ++ [.store X] ∧
    (d7.1.cont? P).map Cont.storedElems = (d6.2.2.1.cont? P).map Cont.storedElems ∧
    (d7.1.cont? P).map Cont.rootSize = (d6.2.2.1.cont? P).map Cont.rootSize ∧
    (d7.1.cont? X).map Cont.pays = some [.val 1, .val 2] ∧
    AList.find? d7.1.hinfo X = none :=
  ⟨by decide, by decide, by decide, by decide, by decide, runB7, by decide, by decide, by decide, by decide,
    by decide⟩

/-- B2: the hypotheses of `map_overwritten_child_leaves_parent_unchanged` are met. -/
theorem map_overwritten_hyps_met :
    WorldOk' D d5.1 d5.2.ctr ∧ HandleOk d5.1 P ∧ KeyOk d5.1.T 4 (D P) K1 ∧
    WValOk d5.1 P (maxInlineMapValue d5.1.T K1.size) (.child Y 0) ∧
    d5.1.mapSet P K1 (.child Y 0) d5.2 = .ok e6 ∧ e6.1 = some ⟨19, .ref X⟩ :=
  ⟨okB5, handleP5, keyP5, valYP5, runE6, by decide⟩

/-- … so its conclusions hold of the state `e6` after the overwrite. -/
theorem map_overwritten_instance :
    ∃ c, d5.1.cont? X = some c ∧
    (∃ pm' el, e6.2.1.cont? P = some (.map pm') ∧ pm'.get e6.2.1.mcfg K1 = .ok (K1, el) ∧ el.pay ≠ .ref X) ∧
    (DetachedRoot e6.2.1 X ∧ ∃ c', e6.2.1.cont? X = some c' ∧ c'.isInlined = false ∧ c'.vid = c.vid ∧
      c'.storedElems = c.storedElems) ∧
    WorldOk' D e6.2.1 e6.2.2.ctr ∧
    (∀ fuel cx2 w2 cx2', notifyParent fuel e6.2.1 X cx2 = .ok (w2, cx2') →
      cx2' = cx2 ∧ (w2 = e6.2.1 ∨ w2 = { e6.2.1 with hinfo := AList.erase e6.2.1.hinfo X })) := by
  have hc := cont?_getD (w := d5.1) (x := X) (.arr (Arr.new 0 0 Scenario.cx0).1) (by decide)
  have hrun : d5.1.mapSet P K1 (.child Y 0) d5.2 = .ok (some ⟨19, .ref X⟩, e6.2.1, e6.2.2) := by
    rw [runE6]
    have : e6.1 = some ⟨19, .ref X⟩ := by decide
    rw [← this]
  exact ⟨_, hc, map_overwritten_child_leaves_parent_unchanged D d5.1 P K1 _ d5.2 _ e6.2.1 e6.2.2 X _
    okB5 handleP5 keyP5 valYP5 hrun rfl hc⟩

/-- B2, KEY RE-OCCUPIED: inside the later `Array.Insert` through `X` (state `midB2`) the hypotheses
    of `C11.detached_map_child_leaves_parent_unchanged` are met with the second alternative of
    `hslot`: `P.Get(K1)` answers the inlined `Y`, which is not `X`. -/
theorem map_overwritten_detached_hyps_met :
    ∃ (c : Cont) (pm : OMap 3),
      AList.find? midB2.1.hinfo X = some ⟨P, some K1, 96, 0⟩ ∧ midB2.1.cont? X = some c ∧
      midB2.1.cont? P = some (.map pm) ∧ pm.get midB2.1.mcfg K1 = .ok (K1, ⟨17, .ref Y⟩) ∧
      (⟨17, .ref Y⟩ : Elem).pay ≠ .ref X ∧
      notifyParent (3 + 1) midB2.1 X midB2.2 =
        .ok ({ midB2.1 with hinfo := AList.erase midB2.1.hinfo X }, midB2.2) ∧
      ¬ (c.isInlined = false ∧ c.inlinable 96 = false) := by
  refine ⟨.arr (Scenario.arrOf midB2.1 X), mapOf midB2.1 P, by decide, rfl, rfl, by decide, by decide, ?_,
    by decide⟩
  rw [notifyParent_eq_notifyS]; rfl

/-- B2: the run.  The overwrite inlines `Y` (`remove Y`), stores `P`, un-inlines `X` (`store X`);
    the later insert through `X` writes `X` only; `P` still holds `Y` under `K1` with the same root
    size; the stale closure of `X` is cleared, the closure of `Y` stays. -/
theorem map_overwritten_run_facts :
    (e6.2.1.cont? P).map Cont.storedElems = some [⟨17, .ref Y⟩] ∧
    e6.2.2.eff = d5.2.eff ++ [.remove Y, .store P, .store X] ∧
    AList.find? e6.2.1.hinfo X = some ⟨P, some K1, 96, 0⟩ ∧
    e6.2.1.arrInsert X 1 (pl 2) e6.2.2 = .ok e7 ∧
    e7.2.eff = e6.2.2.eff ++ [.store X] ∧
    (e7.1.cont? P).map Cont.storedElems = (e6.2.1.cont? P).map Cont.storedElems ∧
    (e7.1.cont? P).map Cont.rootSize = (e6.2.1.cont? P).map Cont.rootSize ∧
    (e7.1.cont? X).map Cont.pays = some [.val 1, .val 2] ∧
    AList.find? e7.1.hinfo X = none ∧ AList.find? e7.1.hinfo Y = some ⟨P, some K1, 96, 0⟩ :=
  ⟨by decide, by decide, by decide, runE7, by decide, by decide, by decide, by decide, by decide, by decide⟩

end NonVacuityB

/-! ### Non-vacuity of sections 5 and 6

Run A continued (`Array.Remove`, `Array.Set`, `SetType` through the handle of the detached array `X`,
from the state `c6`) and run C (a detached MAP root `M`: `OrderedMap.Set`, `OrderedMap.Remove`). -/
section NonVacuityC
open Atree.C11Scenario
open Atree.OkScenario (D pl cont?_getD K1 keyOk_K1)

/-- the state after the overwrite satisfies the hypotheses of section 6 for `X` -/
theorem detached_X_hyps : WorldOk' D c6.2.1 c6.2.2.ctr ∧ DetachedRoot c6.2.1 X := by
  obtain ⟨_, _, _, _, h3, h4, _⟩ := overwritten_instance
  exact ⟨h4, h3.1⟩

/-- `detached_arrRemove_writes_only_self`, `detached_arrSet_writes_only_self`,
    `detached_setType_writes_only_self` apply to the three continuations of run A; in each of them
    the former parent `R` is untouched — container (content, sizes, form), closure, index table —
    and the only storage effect is `store X`. -/
theorem detached_X_instances :
    (c6.2.1.arrRemove X 0 c6.2.2 = .ok c8 ∧ c8.2.2.eff = c6.2.2.eff ++ [.store X] ∧
      c8.2.1.cont? R = c6.2.1.cont? R ∧ AList.find? c8.2.1.hinfo R = AList.find? c6.2.1.hinfo R ∧
      AList.find? c8.2.1.mutIdx R = AList.find? c6.2.1.mutIdx R) ∧
    (c6.2.1.arrSet X 0 (pl 9) c6.2.2 = .ok c9 ∧ c9.2.2.eff = c6.2.2.eff ++ [.store X] ∧
      c9.2.1.cont? R = c6.2.1.cont? R ∧ AList.find? c9.2.1.hinfo R = AList.find? c6.2.1.hinfo R ∧
      AList.find? c9.2.1.mutIdx R = AList.find? c6.2.1.mutIdx R) ∧
    (c6.2.1.setType X 5 c6.2.2 = .ok c10 ∧ c10.2.eff = c6.2.2.eff ++ [.store X] ∧
      c10.1.cont? R = c6.2.1.cont? R ∧ c10.1.hinfo = c6.2.1.hinfo ∧ c10.1.mutIdx = c6.2.1.mutIdx) := by
  obtain ⟨H, hx⟩ := detached_X_hyps
  have HK : WorldOkKept D (fun _ => False) c6.2.1 c6.2.2.ctr := H
  have hRX : R ≠ X := by decide
  refine ⟨?_, ?_, ?_⟩
  · obtain ⟨a, a', old1, cx1, ov, _, _, hold1, _, _, hov, _, hS⟩ :=
      detached_arrRemove_writes_only_self D _ c6.2.1 X 0 c6.2.2 c8.1 c8.2.1 c8.2.2 HK hx runA8
    have hR : some R ≠ ov := by
      intro he
      have h1 := hov R he.symm
      have h2 : c8.1.pay = .val 1 := by decide
      have h3 : c8.1.pay = old1.pay := by assumption
      rw [h3, h1] at h2; cases h2
    exact ⟨runA8, by decide, (hS R hRX hR).1, (hS R hRX hR).2.1, (hS R hRX hR).2.2⟩
  · obtain ⟨a, a', old1, cx1, ov, _, _, hold1, _, _, hov, _, hS⟩ :=
      detached_arrSet_writes_only_self D _ c6.2.1 X 0 ⟨20, .val 9⟩ c6.2.2 c9.1 c9.2.1 c9.2.2 HK hx
        ⟨⟨by decide, 9, rfl⟩, by decide⟩ runA9
    have hR : some R ≠ ov := by
      intro he
      have h1 := hov R he.symm
      have h2 : c9.1.pay = .val 1 := by decide
      have h3 : c9.1.pay = old1.pay := by assumption
      rw [h3, h1] at h2; cases h2
    exact ⟨runA9, by decide, (hS R hRX hR).1, (hS R hRX hR).2.1, (hS R hRX hR).2.2⟩
  · obtain ⟨c, c', _, _, _, _, _, he, hz, hh, hm⟩ :=
      detached_setType_writes_only_self D c6.2.1 X 5 c6.2.2 c10.1 c10.2 _ H hx runA10
    exact ⟨runA10, by rw [he]; rfl, hz R hRX, hh, hm⟩

/-- section 5 applies along run A: `X` is still a detached root after the later insert through its
    own handle, the invariant still holds, so every later notification from `X` is a no-op too. -/
theorem detached_X_stays_detached :
    WorldOk' D c7.1 c7.2.ctr ∧ DetachedRoot c7.1 X ∧
    (∀ fuel cx2 w2 cx2', notifyParent fuel c7.1 X cx2 = .ok (w2, cx2') →
      cx2' = cx2 ∧ (w2 = c7.1 ∨ w2 = { c7.1 with hinfo := AList.erase c7.1.hinfo X })) := by
  obtain ⟨H, hx⟩ := detached_X_hyps
  have hh : HandleOk c6.2.1 X := HandleOk.root _ hx.2
  have hv : WValOk c6.2.1 X (maxInlineArr c6.2.1.T) (pl 2) := ⟨⟨by decide, 2, rfl⟩, by decide⟩
  have H' := (C10W.worldOk'_arrInsert D _ X 1 _ _ _ _ H hh hv runA7).1
  have hx' := detachedRoot_arrInsert D _ X 1 _ _ _ _ X H hh hv runA7 hx (fun wr h => by cases h)
  exact ⟨H', hx', detached_root_notification_is_noop D _ _ X H' hx'⟩

/-- "Attached to another parent": in run A the detached `X` is a legal value for `Y` (the container
    that replaced it, inlined in `R`) by `detached_root_lifecycle`; `Array.Insert Y 0 X` is a
    successful run of the model operation, keeps the invariant, and `X` — inlined again, now in
    `Y` — has a current handle. -/
theorem detached_X_reattached :
    WValOk c6.2.1 Y (maxInlineArr c6.2.1.T) (.child X 0) ∧
    c6.2.1.arrInsert Y 0 (.child X 0) c6.2.2 = .ok c11 ∧
    WorldOk' D c11.1 c11.2.ctr ∧ HandleOk c11.1 X ∧
    (c11.1.cont? Y).map Cont.pays = some [.ref X] ∧ (c11.1.cont? X).map Cont.isInlined = some true ∧
    (c11.1.cont? R).map Cont.pays = some [.ref Y] ∧
    AList.find? c11.1.hinfo X = some ⟨Y, none, 117, 0⟩ := by
  obtain ⟨H, hx⟩ := detached_X_hyps
  have hv := (detached_root_lifecycle D _ _ X H hx).2.2.2 Y (maxInlineArr c6.2.1.T) 0 not_anc_X_Y (by decide)
  -- the handle of `Y` is current: it was installed by the overwrite
  have hY : HandleOk c6.2.1 Y := by
    obtain ⟨_, _, hset, _, _⟩ := C10W.worldOk'_arrSet D c5.1 R 0 _ c5.2 c6.1 c6.2.1 c6.2.2 okA5 handleR5 valY5 runA6
    obtain ⟨_, _, _, _, _, _, _, _, _, _, _, hch⟩ := hset
    exact (hch Y 0 rfl).2.1
  obtain ⟨h1, _, h3, _, _⟩ := C10W.worldOk'_arrInsert D _ Y 0 _ _ _ _ H hY hv runA11
  obtain ⟨_, _, _, _, _, _, _, _, hch⟩ := h3
  exact ⟨hv, runA11, h1, (hch X 0 rfl).2.1, by decide, by decide, by decide, by decide⟩

/-- Run C: `Array.Remove R 0` detaches the inlined map `M`; the hypotheses of
    `removed_child_leaves_parent_unchanged` are met, hence `M` is a detached root in a valid world,
    and its closure names `R`, not `M` (`hself`). -/
theorem detached_M_hyps :
    WorldOk' D g5.2.1 g5.2.2.ctr ∧ DetachedRoot g5.2.1 M ∧
    (∀ hi, AList.find? g5.2.1.hinfo M = some hi → hi.parent ≠ M) ∧
    (g4.2.1.cont? M).map Cont.isInlined = some true := by
  have hc := cont?_getD (w := g4.2.1) (x := M) (.arr (Arr.new 0 0 Scenario.cx0).1) (by decide)
  obtain ⟨_, _, h3, h4, _⟩ := removed_child_leaves_parent_unchanged D g4.2.1 R 0 g4.2.2 g5.1 g5.2.1 g5.2.2 M _
    okC4 handleR4 runC5 (by decide) hc
  refine ⟨h4, h3.1, fun hi hh => ?_, by decide⟩
  have : AList.find? g5.2.1.hinfo M = some ⟨R, none, 117, 0⟩ := by decide
  rw [this] at hh; cases hh
  decide

/-- `detached_mapSet_writes_only_self` / `detached_mapRemove_writes_only_self` apply to the two
    continuations of run C: the former parent `R` is untouched and the only storage effect is
    `store M`. -/
theorem detached_M_instances :
    (g5.2.1.mapSet M K1 (pl 2) g5.2.2 = .ok g6 ∧ g6.2.2.eff = g5.2.2.eff ++ [.store M] ∧
      g6.2.1.cont? R = g5.2.1.cont? R ∧ AList.find? g6.2.1.hinfo R = AList.find? g5.2.1.hinfo R ∧
      AList.find? g6.2.1.mutIdx R = AList.find? g5.2.1.mutIdx R) ∧
    (g5.2.1.mapRemove M K1 g5.2.2 = .ok g7 ∧ g7.2.2.2.eff = g5.2.2.eff ++ [.store M] ∧
      g7.2.2.1.cont? R = g5.2.1.cont? R ∧ AList.find? g7.2.2.1.hinfo R = AList.find? g5.2.1.hinfo R ∧
      AList.find? g7.2.2.1.mutIdx R = AList.find? g5.2.1.mutIdx R) := by
  obtain ⟨H, hx, hself, _⟩ := detached_M_hyps
  have HK : WorldOkKept D (fun _ => False) g5.2.1 g5.2.2.ctr := H
  have hRM : R ≠ M := by decide
  refine ⟨?_, ?_⟩
  · obtain ⟨m, m', old1, cx1, ov, _, _, hpay, hov, _, hS⟩ :=
      detached_mapSet_writes_only_self D _ g5.2.1 M K1 ⟨20, .val 2⟩ g5.2.2 g6.1 g6.2.1 g6.2.2 _ HK hx hself runC6
    have hR : some R ≠ ov := by
      intro he
      obtain ⟨o, ho, hpo⟩ := hov R he.symm
      have h2 : g6.1.map (·.pay) = some (.val 1) := by decide
      rw [hpay, ho] at h2
      simp only [Option.map_some, Option.some.injEq] at h2
      rw [hpo] at h2; cases h2
    exact ⟨runC6, by decide, (hS R hRM hR).1, (hS R hRM hR).2.1, (hS R hRM hR).2.2⟩
  · obtain ⟨m, m', rv1, cx1, ov, _, _, hpay, hov, _, hS⟩ :=
      detached_mapRemove_writes_only_self D _ g5.2.1 M K1 g5.2.2 g7.1 g7.2.1 g7.2.2.1 g7.2.2.2 _ HK hx hself runC7
    have hR : some R ≠ ov := by
      intro he
      have h1 := hov R he.symm
      have h2 : g7.2.1.pay = .val 1 := by decide
      rw [hpay, h1] at h2; cases h2
    exact ⟨runC7, by decide, (hS R hRM hR).1, (hS R hRM hR).2.1, (hS R hRM hR).2.2⟩

end NonVacuityC

end Atree.C11
