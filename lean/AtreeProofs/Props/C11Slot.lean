import AtreeProofs.Props.C11
import AtreeProofs.Props.C10WPopOps
import AtreeProofs.World.C11Aux
/-
  C11 — Detached containers and stale handles cannot corrupt a former parent: the WHOLE-OPERATION
  statements (audit items S4 / S5).  PROPERTY THEOREMS about the World model.

  `Props/C11.lean` unfolds ONE step of `notifyParent` under hypotheses about the slot the closure
  recorded.  This file connects those hypotheses to the operations that detach a container:

  * `replaced_slot_hyps_contradict_invariant` — audit S5: the hypotheses of
    `C11.replaced_slot_leaves_parent_unchanged` ("the recorded index now holds something else")
    are CONTRADICTORY in every world that satisfies the global invariant `WorldOk'`: a recorded
    index always holds a reference to the recorded child (`MutIdxOk`).  In the model (as in the
    Go code, array.go:389-398) `Array.Set` deletes the `mutableElementIndex` entry of the child it
    overwrites, so "the slot now holds another container" reaches the callback through the
    INDEX-UNKNOWN branch (`C11.detached_array_child_leaves_parent_unchanged`), never through the
    identity check.
  * `set_forgets_index` — the state anchor of C11 for `Array.Set` (counterpart of
    `C11.remove_forgets_index`).
  * `overwritten_child_leaves_parent_unchanged`, `removed_child_leaves_parent_unchanged`,
    `map_overwritten_child_leaves_parent_unchanged`, `map_removed_child_leaves_parent_unchanged` —
    the restated theorems: after the detaching operation (through a current handle, in a valid
    world) the container handed back is a live, standalone, unreferenced container with the same
    data and value ID (`DetachedRoot`), the invariant holds, and EVERY later notification from it
    changes no container, no index table and no storage effect (at most its stale closure is dropped).
-/
namespace Atree.C11
open Atree Gen World

/-! ### 1. Audit S5: `replaced_slot_leaves_parent_unchanged` speaks about unreachable states -/

/-- The hypotheses `hpa hidx hget hother` of `C11.replaced_slot_leaves_parent_unchanged` contradict
    the global invariant: in a valid world the index recorded for `x` in an array holds a
    reference to `x`. -/
theorem replaced_slot_hyps_contradict_invariant (D : SlabID → DigestFn 4) (w : World) (ctr : Nat)
    (x parent : SlabID) (pa : Arr) (idx : Nat) (el : Elem)
    (H : WorldOk' D w ctr)
    (hpa : w.cont? parent = some (.arr pa))
    (hidx : AList.find? (w.idxOf parent) x = some idx) (hget : pa.get idx = .ok el)
    (hother : el.pay ≠ .ref x) : False := by
  obtain ⟨e, he, hpay⟩ := C10W.worldOk'_mutIdxOk H parent pa hpa x idx hidx
  have hok : ArrOk w.T pa ctr := (C10W.worldOk'_contOk H parent _ hpa).1
  obtain ⟨rank, H0⟩ := H
  have hlt : idx < pa.toList.length := (List.getElem?_eq_some_iff.mp he).1
  have hg := (hok.get_spec H0.legal idx).1 hlt
  rw [hg] at hget
  cases hget
  apply hother
  rw [← hpay]
  congr 1
  rw [List.getD_eq_getElem?_getD, he]; rfl

/-! ### 2. `Array.Set` forgets the index of the child it overwrites -/

/-- Overwriting a child in an array parent (by anything but the same container) forgets its index
    (array.go:389-398), so later mutations of the child fall under
    `C11.detached_array_child_leaves_parent_unchanged`.  Purely functional: no invariant needed. -/
theorem set_forgets_index (w : World) (p : SlabID) (i : Nat) (v : WVal) (cx : Ctx) (old : Elem) (x : SlabID)
    (w' : World) (cx' : Ctx) (h : w.arrSet p i v cx = .ok (old, w', cx')) (hx : old.pay = .ref x)
    (hcont : (w.cont? x).isSome) (hv : ∀ wr, v ≠ .child x wr) :
    AList.find? (w'.idxOf p) x = none := by
  obtain ⟨old1, w1, cx1, ov, w2, hraw, hun, _, hne, _⟩ := arrSet_unfold h
  have hsome : (w1.cont? x).isSome := (arrSetRaw_domRel hraw).keeps_isSome hcont
  obtain ⟨hpay, _, _, _, _, hcase⟩ := uninlineIfNeeded_ok hun
  have hx1 : old1.pay = .ref x := by rw [← hpay]; exact hx
  rcases hcase with ⟨_, _, _, _, hnone⟩ | ⟨x', c, hov, hp', _, _⟩
  · rw [hnone x hx1] at hsome; cases hsome
  · rw [hx1] at hp'; cases hp'
    rw [hne x hov hv]
    simp [AList.find?_erase]

/-- The dual (array.go:392: `if !sameValue`): overwriting a slot with the SAME container keeps
    (re-records) its index.  (Purely functional; in a valid world the Go API forbids storing a
    container that is already referenced — `WValOk` — so this is the model's transcription of the
    guard, not a reachable use.) -/
theorem set_same_keeps_index (w : World) (p : SlabID) (i : Nat) (wr : Nat) (cx : Ctx) (old : Elem) (x : SlabID)
    (w' : World) (cx' : Ctx) (h : w.arrSet p i (.child x wr) cx = .ok (old, w', cx')) (hx : old.pay = .ref x) :
    AList.find? (w'.idxOf p) x = some i := by
  obtain ⟨old1, w1, cx1, ov, w2, hraw, hun, hnone, _, hsame⟩ := arrSet_unfold h
  -- the raw set installs the callback: index of `x` recorded as `i`
  have h1 : AList.find? (w1.idxOf p) x = some i := by
    rw [arrSetRaw] at hraw
    split at hraw
    · split at hraw
      · cases hraw
      · split at hraw
        · cases hraw
        · split at hraw
          · cases hraw
          · simp only at hraw
            split at hraw
            · cases hraw
            · cases hraw
              simp [World.setCallbackArr, World.idxOf, World.setIdx, AList.find?_insert]
    · cases hraw
  obtain ⟨hpay, _, hm, _, _, hcase⟩ := uninlineIfNeeded_ok hun
  have h2 : AList.find? (w2.idxOf p) x = some i := by
    unfold World.idxOf at h1 ⊢; rw [hm]; exact h1
  rcases hcase with ⟨hov, _⟩ | ⟨x', c, hov, hp', _, _⟩
  · rw [hnone hov]; exact h2
  · have : old1.pay = .ref x := by rw [← hpay]; exact hx
    rw [this] at hp'; cases hp'
    rw [hsame x wr hov rfl]; exact h2

/-! ### 3. After the detaching operation: the restated theorems (arrays) -/

/-- In a valid world every notification from a detached root (a live container that nobody refers
    to) is a no-op: no container, no index table, no storage effect changes; at most the stale
    closure of the notifier is dropped. -/
theorem detached_root_notification_is_noop (D : SlabID → DigestFn 4) (w : World) (ctr : Nat) (x : SlabID)
    (H : WorldOk' D w ctr) (hx : DetachedRoot w x) :
    ∀ fuel cx2 w2 cx2', notifyParent fuel w x cx2 = .ok (w2, cx2') →
      cx2' = cx2 ∧ (w2 = w ∨ w2 = { w with hinfo := AList.erase w.hinfo x }) :=
  fun fuel cx2 w2 cx2' h =>
    C10W.detached_root_notification_is_noop D (fun _ => False) fuel w x cx2 w2 cx2' ctr H hx h

/-- RESTATEMENT of `C11.replaced_slot_leaves_parent_unchanged` with hypotheses that reachable worlds
    satisfy.  A child container `x` of the array `p` is OVERWRITTEN by another container `y`
    (`Array.Set` through a current handle, in a valid world; `y` an unreferenced live container):
    (a) slot `i` of `p` now holds ANOTHER container (`y ≠ x`);
    (b) the `mutableElementIndex` entry of `x` is gone (array.go:389-398);
    (c) `x` is a detached root: live, referenced by nobody, standalone, same data, same value ID;
    (d) the global invariant holds afterwards;
    (e) EVERY later notification from `x` (whatever its stale closure says) changes no container,
        no index table and no storage effect: the former parent's content, size bookkeeping and
        persisted form are untouched; at most the closure of `x` is cleared. -/
theorem overwritten_child_leaves_parent_unchanged (D : SlabID → DigestFn 4) (w : World) (p : SlabID) (i : Nat)
    (y : SlabID) (wr : Nat) (cx : Ctx) (old : Elem) (w' : World) (cx' : Ctx) (x : SlabID) (c : Cont)
    (H : WorldOk' D w cx.ctr) (hh : HandleOk w p) (hv : WValOk w p (maxInlineArr w.T) (.child y wr))
    (h : w.arrSet p i (.child y wr) cx = .ok (old, w', cx')) (hx : old.pay = .ref x) (hc : w.cont? x = some c) :
    (∃ a' e, w'.cont? p = some (.arr a') ∧ a'.toList[i]? = some e ∧ e.pay = .ref y ∧ y ≠ x) ∧
    AList.find? (w'.idxOf p) x = none ∧
    (DetachedRoot w' x ∧ ∃ c', w'.cont? x = some c' ∧ c'.isInlined = false ∧ c'.vid = c.vid ∧
      c'.storedElems = c.storedElems) ∧
    WorldOk' D w' cx'.ctr ∧
    (∀ fuel cx2 w2 cx2', notifyParent fuel w' x cx2 = .ok (w2, cx2') →
      cx2' = cx2 ∧ (w2 = w' ∨ w2 = { w' with hinfo := AList.erase w'.hinfo x })) := by
  obtain ⟨H', _, hset, _, _⟩ := C10W.worldOk'_arrSet D w p i _ cx old w' cx' H hh hv h
  obtain ⟨a, a', old0, e, hpa, hpa', hold0, hl, hpay, hb, _, hch⟩ := hset
  have hx0 : old0.pay = .ref x := by rw [← hpay]; exact hx
  have hlt : i < a.toList.length := (List.getElem?_eq_some_iff.mp hold0).1
  -- `x` is referenced (by `p`), `y` is not
  have hyx : y ≠ x := by
    rintro rfl
    exact hv.2.1 p (holds_arr_of_mem hpa (List.mem_of_getElem? hold0) hx0)
  have hdet := hb.detached hx0 hc
  refine ⟨⟨a', e, hpa', ?_, (hch y wr rfl).1, hyx⟩, ?_, hdet, H', detached_root_notification_is_noop D w' _ x H' hdet.1⟩
  · rw [hl, List.getElem?_set_self hlt]
  · refine set_forgets_index w p i _ cx old x w' cx' h hx (by rw [hc]; rfl) (fun wr' he => ?_)
    cases he; exact hyx rfl

/-- `Array.Remove` of a child container `x` from the array `p` (current handle, valid world):
    (a) `p` holds the remaining elements, none of which refers to `x`;
    (b) the `mutableElementIndex` entry of `x` is gone (array.go:527-530);
    (c) `x` is a detached root: live, referenced by nobody, standalone, same data, same value ID;
    (d) the global invariant holds afterwards;
    (e) every later notification from `x` changes no container, no index table and no storage
        effect; at most the closure of `x` is cleared. -/
theorem removed_child_leaves_parent_unchanged (D : SlabID → DigestFn 4) (w : World) (p : SlabID) (i : Nat)
    (cx : Ctx) (old : Elem) (w' : World) (cx' : Ctx) (x : SlabID) (c : Cont)
    (H : WorldOk' D w cx.ctr) (hh : HandleOk w p)
    (h : w.arrRemove p i cx = .ok (old, w', cx')) (hx : old.pay = .ref x) (hc : w.cont? x = some c) :
    (∃ a a', w.cont? p = some (.arr a) ∧ w'.cont? p = some (.arr a') ∧ a'.toList = a.toList.eraseIdx i ∧
      ∀ e ∈ a'.toList, e.pay ≠ .ref x) ∧
    AList.find? (w'.idxOf p) x = none ∧
    (DetachedRoot w' x ∧ ∃ c', w'.cont? x = some c' ∧ c'.isInlined = false ∧ c'.vid = c.vid ∧
      c'.storedElems = c.storedElems) ∧
    WorldOk' D w' cx'.ctr ∧
    (∀ fuel cx2 w2 cx2', notifyParent fuel w' x cx2 = .ok (w2, cx2') →
      cx2' = cx2 ∧ (w2 = w' ∨ w2 = { w' with hinfo := AList.erase w'.hinfo x })) := by
  obtain ⟨H', _, hrem, _, _⟩ := C10W.worldOk'_arrRemove D w p i cx old w' cx' H hh h
  obtain ⟨a, a', old0, hpa, hpa', hold0, hl, hpay, hb⟩ := hrem
  have hx0 : old0.pay = .ref x := by rw [← hpay]; exact hx
  have hdet := hb.detached hx0 hc
  refine ⟨⟨a, a', hpa, hpa', hl, fun e he hpe => hdet.1.2 p (holds_arr_of_mem hpa' he hpe)⟩,
    remove_forgets_index w p i cx old x w' cx' h hx (by rw [hc]; rfl), hdet, H',
    detached_root_notification_is_noop D w' _ x H' hdet.1⟩

end Atree.C11
