import AtreeProofs.Props.E2EMapDispose
/-
  C09 / C05 (maps) - PER-STEP history statement: the exact-heap statement and the invariants hold
  after EVERY prefix of a history with disposal, and the answer of the NEXT request is the
  dictionary's answer (C02).  `E2EM.map_rep_history` and `E2EMD.heap_exact_after_disposal` are stated
  for the final state of an arbitrary history; here the quantification over the prefixes is explicit
  and the observation of each request is part of the statement.  (The dictionary semantics of the
  RESOLVED values along the history is `E2EM.DictRun`, part of `heap_exact_after_disposal`; the
  list-of-observations form is FX5's `C02.run_refines`.)
-/
namespace Atree.C09Map
open Atree Gen St
open Atree.E2EM (MSSlab MOp mstored)
open Atree.E2EMD (runD live AnswerOk)

variable {β : Type} {r : Nat}

/-- the answer of a request in a good state is the dictionary's answer -/
theorem answer_ok (T : Nat) (hT : legalThreshold T = true) (D : DigestFn (r + 1)) (cfg : MCfg)
    (st : OMap r × Ctx) (hcfg : CfgOk cfg T st.1) (h : MapInv T D st.1) (hc : CtxOk st.1 st.2)
    (op : MOp) (hop : op.Ok T D) : AnswerOk cfg st op := by
  obtain ⟨m, c⟩ := st
  cases op with
  | set k v =>
    rcases C02.set_refines T hT D cfg m hcfg h k hop.1 v hop.2 c hc with
      ⟨old, m', c', heq, hold, _⟩ | ⟨herr, hnone⟩
    · exact Or.inl ⟨m', c', by rw [heq, hold]⟩
    · exact Or.inr ⟨herr, hnone⟩
  | remove k =>
    have := C02.remove_refines T hT D cfg m hcfg h k hop c hc
    show match dictLookup m.toList k with
      | none => m.remove cfg k c = .error .keyNotFound
      | some w => ∃ k0 m' c', m.remove cfg k c = .ok (k0, w, m', c') ∧ k0.same k = true
    cases hd : dictLookup m.toList k with
    | none => rw [hd] at this; exact this
    | some w =>
      rw [hd] at this
      obtain ⟨k0, m', c', heq, hk0, _⟩ := this
      exact ⟨k0, m', c', heq, hk0⟩
  | popIterate => exact (C02.pop_refines T hT D m h c hc).1
  | setType ty => trivial

/-- EVERY PREFIX.  For every history `ops` (set / remove / popIterate / setType; refused requests
    included) issued to a new map on an empty storage by a caller that disposes of every reference
    handed back, and EVERY split `ops = pre ++ suf`: in the state after `pre`
    * the model state is `runM … pre`, the root id is the one allocated by `NewMap`,
    * `MapInv`, `MIdsOk`, `MRefsOk`, `CtxOk`, `MAddrOk`, the storage invariant `Inv` hold,
    * for EVERY id of the owner's address the storage's view is the tree slab with that id, else the
      large-value slab referenced by a CURRENT pair, else nothing (`live` characterised as in
      `E2EMD.heap_exact_after_disposal`),
    * the answer of the NEXT request (the head of `suf`) is the dictionary's answer (`AnswerOk`). -/
theorem history_heap_exact_every_prefix (c : Codec (MSSlab r) β) (hc : RoundTrip c) (T : Nat)
    (hT : legalThreshold T = true) (D : DigestFn (r + 1)) (cfg : MCfg) (hcT : cfg.T = T)
    (hcL : cfg.L = r + 1) (haddr : cfg.addr ≠ 0) (ty : Nat) (seedOf : SlabID → Nat)
    (ops : List MOp) (hops : ∀ op ∈ ops, op.Ok T D) (pre suf : List MOp) (hsplit : ops = pre ++ suf) :
    let x := runD c cfg (E2EM.newS c cfg.addr ty seedOf) pre
    let m := x.1.1
    let ctx := x.1.2
    let s := x.2
    x.1 = E2EM.runM cfg (OMap.new (r := r) cfg.addr ty seedOf ⟨0, [], []⟩) pre ∧
    m.rootID = ⟨cfg.addr, 1⟩ ∧
    MapInv T D m ∧ MIdsOk m ∧ MRefsOk m ctx.ctr ∧ CtxOk m ctx ∧ E2EM.MAddrOk m ∧ Inv c s ∧
    (∀ id, id.addr = cfg.addr → s.view c id = mstored m (live x.1) id) ∧
    (∀ id v, live x.1 id = some v ↔
      (∃ p ∈ m.toList, p.2.pay = .ref id) ∧ AList.find? ctx.created id = some v) ∧
    (∀ p ∈ m.toList, ∀ id, p.2.pay = .ref id → (live x.1 id).isSome) ∧
    (∀ op rest, suf = op :: rest → AnswerOk cfg x.1 op) := by
  intro x m ctx s
  have hpre : ∀ op ∈ pre, op.Ok T D := fun op hop => hops op (by rw [hsplit]; exact List.mem_append.2 (Or.inl hop))
  obtain ⟨h1, _, h3, h4, h5, h6, h7, h8, h9, h10, h11, h12⟩ :=
    E2EMD.heap_exact_after_disposal c hc T hT D cfg hcT hcL haddr ty seedOf pre hpre
  refine ⟨h1, h9, h3, h4, h5, h6, h7, h8, h10, h11, h12, ?_⟩
  intro op rest hsuf
  have hop : op.Ok T D := hops op (by rw [hsplit, hsuf]; simp)
  have g := E2EMD.mgoodD_runD c hc T hT D cfg pre _
    (E2EMD.mgoodD_new c hc T hT D cfg hcT hcL haddr ty seedOf) hpre
  exact answer_ok T hT D cfg x.1 g.cfg g.inv g.ctx op hop

/-! ### Non-vacuity: the history `E2EMD.dhist ++ [popIterate]`, every prefix -/
section NonVacuity
open MapExample Atree.E2EM Atree.E2EMD

example (pre suf : List MOp) (h : dhist ++ [MOp.popIterate] = pre ++ suf) :=
  history_heap_exact_every_prefix idCodecM idCodecM_roundTrip 256 legal256 D2 cfg2 rfl rfl (by decide) 0
    (fun id => id.idx) (dhist ++ [MOp.popIterate]) dhist_ok pre suf h

/-- the slabs in storage (indices 1..5 of address 7) after each prefix of the history:
    new; set big (7.2); overwrite (7.3 in, 7.2 disposed); set big (7.4); set small; remove (7.4
    disposed); refused remove; pop (7.3 disposed) -/
example : (List.range 8).map (fun n =>
      [1, 2, 3, 4, 5].filter (fun i =>
        ((runD idCodecM cfg2 (newS idCodecM cfg2.addr 0 (fun id => id.idx))
          ((dhist ++ [MOp.popIterate]).take n)).2.view idCodecM ⟨7, i⟩).isSome))
    = [[1], [1, 2], [1, 3], [1, 3, 4], [1, 3, 4], [1, 3], [1, 3], [1]] := by decide

end NonVacuity

end Atree.C09Map
