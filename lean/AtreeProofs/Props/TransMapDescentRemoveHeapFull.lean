import AtreeProofs.Props.TransMapDescentRemoveFull2
import AtreeProofs.Props.TransMapDescentSetHeapFull
import AtreeProofs.Map.TreeRemove
/-
  MAP DESCENT, round 4 (WP13): THE FINAL ASSEMBLY FOR `Remove`: the model-side hypotheses of
  `Ob_OrderedMap_remove_heap_of_tailsH` from `MapInv` (`MTree.remove_spec`), and the tails of `rsOf` plugged in.
-/
namespace Atree.TransEq
open Atree Atree.Gen.TransMapD

section
variable {r : Nat} {T : Nat} {D : DigestFn (r + 1)} {cfg : MCfg}

/-- a successful model removal satisfies `TRemPost`, and the key was present -/
theorem mfr_post (hT : legalThreshold T = true) (hc : CfgFor cfg T (r + 1)) {k : MKey} (hk : KeyOk T (r + 1) D k)
    (d : Nat) (top : Bool) (t t' : MTree r d) (c c' : Ctx) (rk : MKey) (rv : Elem) (h : MTreeInv T D d top t)
    (hq : MTree.remove cfg d t k c = .ok (rk, rv, t', c')) :
    TRemPost T D d top t t' k rv c c' ∧ (k, rv) ∈ MTree.toList d t := by
  obtain ⟨h1, h2⟩ := MTree.remove_spec hT hc hk d top t c h
  by_cases hex : ∃ v, (k, v) ∈ MTree.toList d t
  · obtain ⟨v, hv⟩ := hex
    obtain ⟨t'', c'', heq, hp⟩ := h2 v hv
    rw [heq] at hq
    cases hq
    exact ⟨hp, hv⟩
  · have hne : ∀ p ∈ MTree.toList d t, p.1 ≠ k := fun p hp e => hex ⟨p.2, by rw [← e]; exact hp⟩
    rw [h1 hne] at hq; cases hq

theorem mfr_post_zero (hT : legalThreshold T = true) (hc : CfgFor cfg T (r + 1)) {k : MKey} (hk : KeyOk T (r + 1) D k)
    (top : Bool) (s s' : MDataSlab r) (c c' : Ctx) (rk : MKey) (rv : Elem) (h : MDataLoose T D top s)
    (hq : MTree.remove cfg 0 s k c = .ok (rk, rv, s', c')) : TRemPost T D 0 top s s' k rv c c' := by
  obtain ⟨h1, h2⟩ := remove_spec_zero hT hc s h hk c
  by_cases hex : ∃ v, (k, v) ∈ MTree.toList 0 s
  · obtain ⟨v, hv⟩ := hex
    obtain ⟨t'', c'', heq, hp⟩ := h2 v hv
    rw [heq] at hq
    cases hq
    exact hp
  · have hne : ∀ p ∈ MTree.toList 0 s, p.1 ≠ k := fun p hp e => hex ⟨p.2, by rw [← e]; exact hp⟩
    rw [h1 hne] at hq; cases hq

/-- `hQrem` for tight inputs -/
theorem mfr_remove_MQ (hT : legalThreshold T = true) (hc : CfgFor cfg T (r + 1)) {k : MKey} (hk : KeyOk T (r + 1) D k)
    (d : Nat) (t t' : MTree r d) (rk : MKey) (rv : Elem) (c c' : Ctx) (h : mfi_Qin T D d t)
    (hq : MTree.remove cfg d t k c = .ok (rk, rv, t', c')) : MQ T D d t' := by
  obtain ⟨hp, _⟩ := mfr_post hT hc hk d false t t' c c' rk rv h.1 hq
  refine ⟨hp.sinv, ?_, fun x hx => h.2 x (hp.digs x hx)⟩
  have := hp.size_le; have := slack1_le T d; have := MTreeInv.le_max d false t h.1; omega

theorem mfr_mono (hT : legalThreshold T = true) (hc : CfgFor cfg T (r + 1)) {k : MKey} (hk : KeyOk T (r + 1) D k)
    (sl : MDataSlab r) (c : Ctx) (rk : MKey) (rv : Elem) (sl' : MDataSlab r) (c' : Ctx) (hL : mfi_L T D sl)
    (hq : MDataSlab.remove cfg sl k c = .ok (rk, rv, sl', c')) : c.ctr ≤ c'.ctr := by
  obtain ⟨top, hl⟩ := hL
  exact (mfr_post_zero hT hc hk top sl sl' c c' rk rv hl hq).ctr

/-- `hQRrem`: the handle after the tree-level removal satisfies the loose root invariant `MQR1` -/
theorem mfr_QRrem1 (hT : legalThreshold T = true) (hc : CfgFor cfg T (r + 1)) {k : MKey} (hk : KeyOk T (r + 1) D k)
    (m : OMap r) (hinv : MapInv T D m) (hdig : ∀ x ∈ MTree.digests0 m.d m.root, x < 2^64) (c : Ctx) (rk : MKey)
    (rv : Elem) (root' : MTree r m.d) (c1 : Ctx) (hq : MTree.remove cfg m.d m.root k c = .ok (rk, rv, root', c1)) :
    MQR1 T D ({ m with root := root', count := m.count - 1 } : OMap r) ∧ 0 < m.count := by
  obtain ⟨d, root, ty, cnt, seed⟩ := m
  have hq' : MTree.remove cfg d root k c = .ok (rk, rv, root', c1) := hq
  obtain ⟨hp, hmem⟩ := mfr_post hT hc hk d true root root' c c1 rk rv hinv.tree hq'
  refine ⟨⟨hp.sinv, ?_, ?_, fun x hx => hdig x (hp.digs x hx)⟩, ?_⟩
  · show treeInl d root' = false
    rw [hp.inl, ← isInlined_eq d root ty cnt seed]; exact hinv.standalone
  · show (MTree.hdr d root').size ≤ maxThr T + slack1 T d
    have := hp.size_le; have := MTreeInv.le_max d true root hinv.tree; omega
  · have hcnt : cnt = (MTree.toList d root).length := hinv.count_eq
    show 0 < cnt
    rw [hcnt]
    exact List.length_pos_of_mem hmem

/-- `mdsr_Path` from the tree invariant -/
theorem mfr_path (hT : legalThreshold T = true) (hc : CfgFor cfg T (r + 1)) {k : MKey} (hk : KeyOk T (r + 1) D k)
    (P : DG r → Prop) :
    ∀ (d : Nat) (top : Bool) (t : MTree r d) (c : Ctx), MTreeInv T D d top t →
      (∀ x ∈ MTree.digests0 d t, x < 2^64) → (MTree.hdr d t).id.addr = cfg.addr → treeInl d t = false →
      (∀ sl ∈ MTree.leaves d t, P sl.elems) →
      mdsr_Path cfg k P (mfi_L T D) (mfi_Qin T D) d t c
  | 0, top, s, c, h, _, haddr, hinl, hP =>
    ⟨hP s (List.mem_singleton.mpr rfl), haddr, hinl, ⟨top, ((mtreeInv_zero_iff T D _ _).mp h).loose⟩⟩
  | d + 1, top, (m : MMetaSlab (MTree r d)), c, h, hdig, haddr, _, hP => by
    obtain ⟨hm, h2, hle⟩ := MTreeInv.two_children hT h
    have hroute := route hT hm (by omega) (k.dig 0)
    have hsubd : ∀ (c' : MTree r d), c' ∈ m.children → ∀ x ∈ MTree.digests0 d c', x ∈ MTree.digests0 (d + 1) m :=
      fun c' hc' x hx => List.mem_flatMap.mpr ⟨c', hc', hx⟩
    have hQinC : ∀ c' ∈ m.children, mfi_Qin T D d c' :=
      fun c' hc' => ⟨hm.2.2.2.2.1 c' hc', fun x hx => hdig x (hsubd c' hc' x hx)⟩
    refine ⟨?_, ?_, ?_, hm.2.1, hQinC, fun i hfind => ?_⟩
    · intro hd hhd
      rw [hm.2.1] at hhd
      obtain ⟨c', hc', rfl⟩ := List.mem_map.mp hhd
      rw [hm.2.2.2.2.2.2.1 c' hc']
      exact mfi_headD_lt _ (hQinC c' hc').2
    · have hsz : m.hdr.size = 12 + 18 * m.children.length := hm.2.2.1
      have hl : m.childHdrs.length = m.children.length := by rw [hm.2.1, List.length_map]
      have hb := map_legal_bounds hT
      rw [hl]
      rw [map_maxThr_eq] at hle
      omega
    · have hsz : m.hdr.size = 12 + 18 * m.children.length := hm.2.2.1
      show 18 ≤ m.hdr.size
      omega
    · rw [hfind] at hroute
      obtain ⟨A, child, B, hrt, _⟩ := hroute
      have hci : m.children[i]? = some child := by rw [hrt.ch]; exact zip_get' hrt.len
      have hmem : child ∈ m.children := List.mem_of_getElem? hci
      refine ⟨child, hci, mfi_rootFlag_false d child (hQinC child hmem).1, ?_, ?_⟩
      · exact mfr_path hT hc hk P d false child c (hQinC child hmem).1 (hQinC child hmem).2
          (by rw [hm.2.2.2.2.2.1 child hmem]; exact haddr) (mfi_inl_false d child (hQinC child hmem).1)
          (fun sl hsl => hP sl (List.mem_flatMap.mpr ⟨child, hmem, hsl⟩))
      · intro rk rv child' c1 hq
        exact (mfr_remove_MQ hT hc hk d child child' rk rv c c1 (hQinC child hmem) hq).size_lt hT

end

section
variable {r : Nat}

/-- **`OrderedMap.remove` over a heap = `OMap.remove`**, every depth, every restructuring, WITH THE GENERATED
    RESTRUCTURING CODE (`rsOf cfg.T`; its three tails `MSplitTail_rsOf`, `MMorTail_rsOf_partial`, `MRootTailR_rsOf1` are
    plugged in), for any element layer `eb` that is the model's on the leaves (`ElemsSpec`; `v` is a dummy value): for a map
    satisfying `MapInv` whose tree the heap holds, the generated `OrderedMap.remove` returns
    `(removed key, removed value, nil, md_map m' s')` for the model's `OMap.remove cfg m k s.ctx = .ok (rk, rv, m', c')`,
    with `s'.ctx = c'`, the handle invariant over the heap re-established and the heap changed as `mds_Delta` says; a
    model error (`KeyNotFound` ..) comes back as that error value. -/
theorem Ob_OrderedMap_Remove_heap_full (cfg : MCfg) (D : DigestFn (r + 1)) (k : MKey) (v : Elem)
    (P : DG r → Prop) (eb : DEnvB r)
    (hLT : legalThreshold cfg.T = true) (hL : cfg.L = r + 1) (hk : KeyOk cfg.T (r + 1) D k)
    (hhk : k.dig 0 < 2^64) (hE : ElemsSpec cfg k v P eb)
    (m : OMap r) (hinv : MapInv cfg.T D m) (hdig : ∀ x ∈ MTree.digests0 m.d m.root, x < 2^64)
    (hPl : ∀ sl ∈ MTree.leaves m.d m.root, P sl.elems)
    (s : MHSt r) (x0 : Option DX) (depth : Nat) (hd : m.d ≤ depth)
    (hheld : MHolds s.heap m.d m.root x0) (hnd : (md_ids m.d m.root).Nodup)
    (haddr : ∀ id ∈ md_ids m.d m.root, id.addr = cfg.addr) (hff : mds_FreshFree cfg.addr s) :
    match OMap.remove cfg m k s.ctx with
    | .ok (rk, rv, m', c') =>
      ∃ s' x', OrderedMap_remove (envD cfg.T eb (rsOf cfg.T)) depth (md_map m s) (.key k) =
          some (some (.key rk), some (.val rv), none, md_map m' s') ∧
        s'.ctx = c' ∧ s'.popped = s.popped ∧ mds_RootPreR (MQR1 cfg.T D) cfg.addr s' m' x' ∧
        mds_Delta s.heap s'.heap (md_ids m.d m.root) (md_ids m'.d m'.root)
    | .error e =>
      ∃ M', OrderedMap_remove (envD cfg.T eb (rsOf cfg.T)) depth (md_map m s) (.key k) = some (none, none, some e, M') := by
  have hc : CfgFor cfg cfg.T (r + 1) := ⟨rfl, hL⟩
  have hb := map_legal_bounds hLT
  have hT1 : maxThr cfg.T < 2^32 := by rw [map_maxThr_eq]; omega
  have hT2 : minThr cfg.T < 2^32 := by simp only [minThr]; omega
  exact Ob_OrderedMap_remove_heap_of_tailsH eb (rsOf cfg.T) (MQ cfg.T D) (MQR1 cfg.T D) (mfi_Qin cfg.T D) cfg k v P
    (mfi_L cfg.T D) hE (MSplitTail_rsOf D hLT) (MMorTail_rsOf_partial hLT) (MRootTailR_rsOf1 cfg.T D hLT)
    (mfi_Qin_MQ hLT) (mfr_remove_MQ hLT hc hk) mfi_QRhdrs1
    (fun sl c rk rv sl' c' hl hq => mfr_mono hLT hc hk sl c rk rv sl' c' hl hq) hT1 hT2 hhk m s x0 depth hd hheld
    hnd haddr hff (mfi_rootFlag_true m.d m.root hinv.tree)
    (mfr_path hLT hc hk P m.d true m.root s.ctx hinv.tree hdig
      (haddr _ (mfi_root_id_mem m.d m.root)) (mfi_inl_root m hinv.standalone) hPl)
    (fun rk rv root' c1 hq => (mfr_QRrem1 hLT hc hk m hinv hdig s.ctx rk rv root' c1 hq).2)
    (fun rk rv root' c1 hq => (mfr_QRrem1 hLT hc hk m hinv hdig s.ctx rk rv root' c1 hq).1)
    (fun rk rv root' c1 hq => mfi_promote_size_lt1 hLT _ c1 (mfr_QRrem1 hLT hc hk m hinv hdig s.ctx rk rv root' c1 hq).1)

/-- the same with the CLOSED generated element layer: no hypothesis about any generated code -/
theorem Ob_OrderedMap_Remove_heap_full_closed (cfg : MCfg) (D : DigestFn (r + 1)) (k : MKey) (v : Elem)
    (retr : mcl_Retrs DX)
    (hLT : legalThreshold cfg.T = true) (hL : cfg.L = r + 1) (hL64 : cfg.L < 2^64) (hT32 : cfg.T < 2^32)
    (hTe : maxInlineMapElem cfg.T < 2^32) (hcl : cfg.climit < 2^32) (hkd : ∀ lvl, k.dig lvl < 2^64)
    (hk : KeyOk cfg.T (r + 1) D k)
    (m : OMap r) (hinv : MapInv cfg.T D m) (hdig : ∀ x ∈ MTree.digests0 m.d m.root, x < 2^64)
    (hPl : ∀ sl ∈ MTree.leaves m.d m.root, mcl_PLeaf cfg k v retr D sl.elems)
    (s : MHSt r) (x0 : Option DX) (depth : Nat) (hd : m.d ≤ depth)
    (hheld : MHolds s.heap m.d m.root x0) (hnd : (md_ids m.d m.root).Nodup)
    (haddr : ∀ id ∈ md_ids m.d m.root, id.addr = cfg.addr) (hff : mds_FreshFree cfg.addr s) :
    match OMap.remove cfg m k s.ctx with
    | .ok (rk, rv, m', c') =>
      ∃ s' x', OrderedMap_remove (envD cfg.T (clEnvB cfg retr (r + 1)) (rsOf cfg.T)) depth (md_map m s) (.key k) =
          some (some (.key rk), some (.val rv), none, md_map m' s') ∧
        s'.ctx = c' ∧ s'.popped = s.popped ∧ mds_RootPreR (MQR1 cfg.T D) cfg.addr s' m' x' ∧
        mds_Delta s.heap s'.heap (md_ids m.d m.root) (md_ids m'.d m'.root)
    | .error e =>
      ∃ M', OrderedMap_remove (envD cfg.T (clEnvB cfg retr (r + 1)) (rsOf cfg.T)) depth (md_map m s) (.key k) =
        some (none, none, some e, M') :=
  Ob_OrderedMap_Remove_heap_full cfg D k v (mcl_PLeaf cfg k v retr D) (clEnvB cfg retr (r + 1)) hLT hL hk (hkd 0)
    (clEnvB_elemsSpec cfg k v retr D hL hL64 hT32 hTe hcl hkd hLT) m hinv hdig hPl s x0 depth hd hheld hnd haddr hff

end

end Atree.TransEq
