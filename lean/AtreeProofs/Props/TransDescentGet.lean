import AtreeProofs.Trans.Descent
import AtreeProofs.Props.TransSlabs
import AtreeProofs.Props.TransSafe
/-
  TRANSLATION EQUIVALENCE, the DESCENT (WP12), part 1: `ArrayMetaDataSlab.Get` and `Array.Get`.

  The generated `ArrayMetaDataSlab_Get` (Gen/TransSlabs.lean, regenerated from array_metadata_slab.go on every run)
  routes the index (`childSlabIndexInfo`), reads the child slab from the storage (`getArraySlab`) and calls `Get` on it
  through dynamic dispatch; it recurses on a depth argument.  On a heap that HOLDS a model tree (`Holds`,
  Trans/Descent.lean) and with a depth argument at least the depth of the tree it returns what the model's `ATree.get`
  returns on the embedded tree - the element, or the error class - and leaves the storage untouched.
-/
namespace Atree.TransEq
open Atree Atree.Gen

/-- Go's routing (`childSlabIndexInfo`, as translated by the stateless engine) agrees with the model's at every index
    slab on the path of index `i`, the header copies are the children's headers, and the numbers of the leaf fit.
    `RouteOk.of_inv` derives this from the tree invariant. -/
def RouteOk : (d : Nat) → ATree d → Nat → Prop
  | 0, (s : DataSlab), i => i < 2^64 ∧ s.elems.length < 2^63
  | d + 1, (m : MetaSlab (ATree d)), i =>
    m.childHdrs = m.children.map (ATree.hdr d) ∧
    match m.childSlabIndexInfo i with
    | .ok (k, adj) =>
      Trans.ArrayMetaDataSlab_childSlabIndexInfo (u32 m.hdr.count) (u32s m.countSum) (u32s (countsOf m.childHdrs))
        (u64 i) = some (Int.ofNat k, u64 adj) ∧ ∀ child, m.children[k]? = some child → RouteOk d child adj
    | .error .indexOutOfBounds =>
      Trans.ArrayMetaDataSlab_childSlabIndexInfo (u32 m.hdr.count) (u32s m.countSum) (u32s (countsOf m.childHdrs))
        (u64 i) = none
    | .error _ => False

theorem trMeta_counts {α : Type} (m : MetaSlab α) :
    (trMeta m).childrenHeaders.map (·.count) = u32s (countsOf m.childHdrs) := by
  simp [trMeta, u32s, countsOf, trHdr, List.map_map, Function.comp_def]

/-- the routing parameter on the translation of a model index slab: the model's child position and adjusted index, and
    the identifier in the header copy at that position -/
theorem childInfoOf_trMeta_ok {α : Type} (m : MetaSlab α) (i k adj : Nat) (ioob : Option AErr)
    (h : Trans.ArrayMetaDataSlab_childSlabIndexInfo (u32 m.hdr.count) (u32s m.countSum) (u32s (countsOf m.childHdrs))
      (u64 i) = some (Int.ofNat k, u64 adj)) :
    childInfoOf ioob (trMeta m) (u64 i) =
      (Int.ofNat k, u64 adj, ((m.childHdrs.map trHdr).getD k TransSl.ArraySlabHeader.zero).slabID, none) := by
  unfold childInfoOf
  rw [trMeta_counts]
  simp only [trMeta_header, trHdr_count, trMeta_childrenCountSum]
  have : m.countSum.map u32 = u32s m.countSum := rfl
  rw [this, h]
  simp

theorem childInfoOf_trMeta_none {α : Type} (m : MetaSlab α) (i : Nat) (ioob : Option AErr)
    (h : Trans.ArrayMetaDataSlab_childSlabIndexInfo (u32 m.hdr.count) (u32s m.countSum) (u32s (countsOf m.childHdrs))
      (u64 i) = none) :
    childInfoOf ioob (trMeta m) (u64 i) = (0, 0, SlabID.undef, ioob) := by
  unfold childInfoOf
  rw [trMeta_counts]
  simp only [trMeta_header, trHdr_count, trMeta_childrenCountSum]
  have : m.countSum.map u32 = u32s m.countSum := rfl
  rw [this, h]

/-- the header copy at position `k` names the child at position `k` -/
theorem childID_of_hdrs {d : Nat} (m : MetaSlab (ATree d)) (k : Nat) (child : ATree d)
    (hh : m.childHdrs = m.children.map (ATree.hdr d)) (hc : m.children[k]? = some child) :
    ((m.childHdrs.map trHdr).getD k TransSl.ArraySlabHeader.zero).slabID = (ATree.hdr d child).id := by
  rw [hh]
  simp [List.getD_eq_getElem?_getD, List.getElem?_map, hc, trHdr]

/-- `ArrayDataSlab.Get` over the heap environment (the function does not touch the storage) -/
theorem Sl_ArrayDataSlab_Get_envH (T : Nat) (s : DataSlab) (i : Nat) (hi : i < 2^64) (hlen : s.elems.length < 2^63) :
    TransSl.ArrayDataSlab_Get (envH T) (trData s) (u64 i) =
      some (match s.get i with
        | .ok e => (some e, none)
        | .error e => (none, some e)) :=
  Sl_ArrayDataSlab_Get_eq_model T (fun _ => none) s i hi hlen

/-- the statement for the dispatcher at depth `d` -/
def GetDisp (T d : Nat) : Prop :=
  ∀ (t : ATree d) (i : Nat) (s : HSt) (depth : Nat), d ≤ depth → Holds s.heap d t → RouteOk d t i →
    TransSl.ArraySlab_Get (envH T) (TransSl.ArrayMetaDataSlab_Get (envH T) depth) (trTree d t) s (u64 i) =
      some (match ATree.get d t i with
        | .ok e => (some e, none, s)
        | .error e => (none, some e, s))

/-- the statement for an index slab whose children have depth `d` -/
def GetMeta (T d : Nat) : Prop :=
  ∀ (m : MetaSlab (ATree d)) (i : Nat) (s : HSt) (depth : Nat), d ≤ depth → HoldsChildren s.heap m →
    RouteOk (d + 1) m i →
    TransSl.ArrayMetaDataSlab_Get (envH T) (depth + 1) (trMeta m) s (u64 i) =
      some (match ATree.get (d + 1) m i with
        | .ok e => (some e, none, s)
        | .error e => (none, some e, s))

theorem getDisp_zero (T : Nat) : GetDisp T 0 := by
  intro t i s depth _ _ hr
  obtain ⟨hi, hlen⟩ := hr
  have := Sl_ArrayDataSlab_Get_envH T t i hi hlen
  simp only [trTree, TransSl.ArraySlab_Get, this, ATree.get]
  cases DataSlab.get t i <;> rfl

theorem getMeta_of_disp (T d : Nat) (ih : GetDisp T d) : GetMeta T d := by
  intro m i s depth hd' hh hr
  obtain ⟨hhdrs, hr⟩ := hr
  cases hinfo : m.childSlabIndexInfo i with
  | error e =>
    rw [hinfo] at hr
    cases e <;> simp only at hr
    have e1 := childInfoOf_trMeta_none m i (some .indexOutOfBounds) hr
    simp [TransSl.ArrayMetaDataSlab_Get, envH_childInfo, e1, ATree.get, bind, Except.bind, hinfo]
  | ok res =>
    obtain ⟨k, adj⟩ := res
    rw [hinfo] at hr
    obtain ⟨hroute, hrec⟩ := hr
    have e1 := childInfoOf_trMeta_ok m i k adj (some .indexOutOfBounds) hroute
    -- position k is inside the header copies, hence inside the children
    have hk : k < m.children.length := by
      have : k < m.childHdrs.length := by
        simp only [MetaSlab.childSlabIndexInfo] at hinfo
        split at hinfo
        · cases hinfo
        · split at hinfo
          · rename_i h1 _
            have := (List.getElem?_eq_some_iff.1 h1).1
            simp only [Except.ok.injEq, Prod.mk.injEq] at hinfo
            omega
          · cases hinfo
      rw [hhdrs] at this; simpa using this
    have hc : m.children[k]? = some m.children[k] := List.getElem?_eq_getElem hk
    have hmem : m.children[k] ∈ m.children := List.getElem_mem hk
    have hchild : Holds s.heap d m.children[k] := hh _ hmem
    have e2 := childID_of_hdrs m k _ hhdrs hc
    have e3 := ih m.children[k] adj s depth hd' hchild (hrec _ hc)
    simp only [TransSl.ArrayMetaDataSlab_Get, envH_childInfo, e1, e2, envH_getArraySlab,
      hchild.root, Option.isSome_none, Bool.false_eq_true, if_false, e3, ATree.get, bind, Except.bind, hinfo, hc]

theorem getDisp_succ (T d : Nat) (ih : GetMeta T d) : GetDisp T (d + 1) := by
  intro t i s depth hd hh hr
  obtain ⟨depth, rfl⟩ : ∃ n, depth = n + 1 := ⟨depth - 1, by omega⟩
  have := ih t i s depth (by omega) hh.2 hr
  show TransSl.ArraySlab_Get (envH T) _ (.metaSlab (trMeta t)) s (u64 i) = _
  simp only [TransSl.ArraySlab_Get, this]

theorem getDisp_all (T : Nat) : ∀ d, GetDisp T d
  | 0 => getDisp_zero T
  | d + 1 => getDisp_succ T d (getMeta_of_disp T d (getDisp_all T d))

/-- **`ArraySlab.Get` over a heap** (dynamic dispatch; an index slab descends through the storage): on a heap that
    holds the tree, with a depth argument that covers the tree, the generated code returns the model's `ATree.get` -
    the element or the error - and the storage is untouched. -/
theorem Sl_ArraySlab_Get_heap (T : Nat) (d : Nat) (t : ATree d) (i : Nat) (s : HSt) (depth : Nat) (hd : d ≤ depth)
    (hh : Holds s.heap d t) (hr : RouteOk d t i) :
    TransSl.ArraySlab_Get (envH T) (TransSl.ArrayMetaDataSlab_Get (envH T) depth) (trTree d t) s (u64 i) =
      some (match ATree.get d t i with
        | .ok e => (some e, none, s)
        | .error e => (none, some e, s)) :=
  getDisp_all T d t i s depth hd hh hr

/-- **`ArrayMetaDataSlab.Get` over a heap**: the receiver is the translation of a model index slab (passed by value),
    its children are held by the heap; depth argument `depth + 1` for children of depth `d ≤ depth`. -/
theorem Sl_ArrayMetaDataSlab_Get_heap (T : Nat) (d : Nat) (m : MetaSlab (ATree d)) (i : Nat) (s : HSt) (depth : Nat)
    (hd : d ≤ depth) (hh : HoldsChildren s.heap m) (hr : RouteOk (d + 1) m i) :
    TransSl.ArrayMetaDataSlab_Get (envH T) (depth + 1) (trMeta m) s (u64 i) =
      some (match ATree.get (d + 1) m i with
        | .ok e => (some e, none, s)
        | .error e => (none, some e, s)) :=
  getMeta_of_disp T d (getDisp_all T d) m i s depth hd hh hr

/-- **where the heap version differs from the embedded model**: the header copy at the routed position names a slab
    that the storage does not hold.  Go returns `SlabNotFoundError` (from `getArraySlab`), nothing is touched; the
    model's children are embedded, so `ATree.get` has no such case (`Holds` excludes it). -/
theorem Sl_ArrayMetaDataSlab_Get_notFound_differs_at (T : Nat) {α : Type} (m : MetaSlab α) (i k adj : Nat) (s : HSt)
    (depth : Nat)
    (hroute : Trans.ArrayMetaDataSlab_childSlabIndexInfo (u32 m.hdr.count) (u32s m.countSum)
      (u32s (countsOf m.childHdrs)) (u64 i) = some (Int.ofNat k, u64 adj))
    (hmiss : s.heap ((m.childHdrs.map trHdr).getD k TransSl.ArraySlabHeader.zero).slabID = none) :
    TransSl.ArrayMetaDataSlab_Get (envH T) (depth + 1) (trMeta m) s (u64 i) = some (none, some .slabNotFound, s) := by
  have e1 := childInfoOf_trMeta_ok m i k adj (some .indexOutOfBounds) hroute
  simp only [TransSl.ArrayMetaDataSlab_Get, envH_childInfo, e1, envH_getArraySlab, hmiss, Option.isSome_none,
    Option.isSome_some, Bool.false_eq_true, if_false, if_true]

/-- the depth argument is exhausted (the tree is deeper): the generated code leaves the modelled fragment -/
theorem Sl_ArrayMetaDataSlab_Get_depth0 (T : Nat) (a : GMeta) (s : HSt) (i : UInt64) :
    TransSl.ArrayMetaDataSlab_Get (envH T) 0 a s i = none := rfl

end Atree.TransEq
