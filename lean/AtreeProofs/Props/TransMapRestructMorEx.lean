import AtreeProofs.Props.TransMapRestructPromote
import AtreeProofs.Props.TransMapRestructMorHeap
/-
  Non-vacuity of `Ob_MergeOrRebalanceChildSlab_heap` and `Ob_promote_heap` (Props/TransMapRestructMor.lean,
  TransMapRestructPromote.lean): concrete small slabs over a concrete heap meet every hypothesis, and the generated code
  evaluated on them gives the expected heap.  T = 100 (`minThreshold` = 50), r = 0.
-/
namespace Atree.TransEq
open Atree Atree.Gen.TransMap

section examples

/-- grandchild header `i` -/
private def mrx_hdrG (i : Nat) : MHdr := { id := ⟨1, 100 + i⟩, size := 60, firstKey := 10 * i }

/-- an index slab (a subtree root of depth 1) with slab ID (1, id) and the child headers `is` -/
private def mrx_sib (id : Nat) (is : List Nat) : MTree 0 1 :=
  ({ hdr := { id := ⟨1, id⟩, size := 12 + 18 * is.length, firstKey := 10 * is.headD 0 },
     childHdrs := is.map mrx_hdrG, children := [], root := false } : MMetaSlab (MTree 0 0))

/-- the parent (1, 9) of the children `cs` -/
private def mrx_parent (cs : List (MTree 0 1)) : MMetaSlab (MTree 0 1) :=
  { hdr := { id := ⟨1, 9⟩, size := 12 + 18 * cs.length, firstKey := ((cs.map (MTree.hdr 1)).headD default).firstKey },
    childHdrs := cs.map (MTree.hdr 1), children := cs, root := true }

private def mrx_l := mrx_sib 1 [1, 2, 3, 4, 5]
private def mrx_c := mrx_sib 2 [6]
private def mrx_r := mrx_sib 3 [7, 8, 9]

/-- the heap holds the two siblings (and a STALE version of the child, which is never read) -/
private def mrx_s (l rr : MTree 0 1) : MHSt 0 :=
  { heap := fun id => if id = ⟨1, 1⟩ then some (md_tree 1 l none) else if id = ⟨1, 3⟩ then some (md_tree 1 rr none)
      else if id = ⟨1, 2⟩ then some (md_tree 1 (mrx_sib 2 [6, 7]) none) else none,
    ctx := ⟨40, [], []⟩ }

private def mrx_x : Option DX := some (7, 3, 5)

/-- child 1 of 3 underflows by 20; the left sibling (5 children, 102 bytes) can lend, the right one (3 children, 66 bytes)
    cannot: every hypothesis of `Ob_MergeOrRebalanceChildSlab_heap` holds ... -/
example : (rsOf 100).mergeOrRebalance (md_meta (mrx_parent [mrx_l, mrx_c, mrx_r]) mrx_x) (mrx_s mrx_l mrx_r)
      (md_tree 1 mrx_c none) (Int.ofNat 1) (u32 20) =
    match MMetaSlab.mergeOrRebalanceChildSlab 100 (mrx_parent [mrx_l, mrx_c, mrx_r]) mrx_c 1 20 (mrx_s mrx_l mrx_r).ctx with
    | .error e => (some e, md_meta (mrx_parent [mrx_l, mrx_c, mrx_r]) mrx_x, mrx_s mrx_l mrx_r, md_tree 1 mrx_c none)
    | .ok (m', _) =>
      (none, md_meta m' mrx_x, mrm_morHeap 100 1 (mrx_parent [mrx_l, mrx_c, mrx_r]) mrx_x mrx_c 1 20 (mrx_s mrx_l mrx_r),
        md_tree 1 (msl_morChild 100 1 (mrx_parent [mrx_l, mrx_c, mrx_r]) mrx_c 1 20) none) := by
  refine Ob_MergeOrRebalanceChildSlab_heap 100 1 _ mrx_x mrx_c 1 20 (mrx_s mrx_l mrx_r)
    (by decide) (by decide) (by decide) ?_ ?_ trivial ?_ ?_ ?_ ?_ ?_
  · intro i t h hi ht hh
    rcases hi with hi | hi
    · obtain rfl : i = 0 := by omega
      cases ht; cases hh; rfl
    · subst hi
      cases ht; cases hh; rfl
  · exact ⟨by decide, fun _ _ _ _ => trivial, fun _ _ _ => ⟨trivial, trivial⟩, fun _ _ => ⟨trivial, trivial⟩,
      fun _ _ _ => trivial, fun _ _ => trivial⟩
  · intro i t hi ht
    rcases hi with hi | hi
    · obtain rfl : i = 0 := by omega
      cases ht; decide
    · subst hi; cases ht; decide
  · intro t _ ht _; cases ht; exact ⟨by decide, by decide⟩
  · intro t ht hc; cases ht; exact absurd hc (by decide)
  · intro t _ ht; cases ht; exact (by decide : (12 : Nat) ≤ 30)
  · intro t ht; cases ht; exact (by decide : (12 : Nat) ≤ 66)

/-- what the examples look at: the error, the parent's child IDs and sizes, the effects, which of the slabs 1, 2, 3, 9 the
    heap holds afterwards (with the number of child headers of each), the returned child's ID and number of headers -/
private def mrx_obs (q : Option GE × Gen.TransMapD.MapMetaDataSlab DX × MHSt 0 × DSlab 0) :
    Option GE × List (Nat × Nat) × List Eff × List (Option Nat) × Option (Nat × Nat) :=
  let n : DSlab 0 → Option (Nat × Nat) := fun v => match v with
    | .metaSlab o => some (o.header.slabID.idx, o.childrenHeaders.length)
    | _ => none
  (q.1, q.2.1.childrenHeaders.map (fun h => (h.slabID.idx, h.size.toNat)), q.2.2.1.ctx.eff,
    [1, 2, 3, 9].map (fun i => ((q.2.2.1.heap ⟨1, i⟩).bind n).map (·.2)), n q.2.2.2)

/-- ... and the generated code evaluated: rebalance with the left sibling 5 + 1 -> 3 + 3, the three `Store`s; the heap
    now holds slab 1 with 3 headers, slab 2 (the child, FRESH: 3 headers, the stale 2-header version is overwritten),
    slab 3 untouched, the parent 9 with its 3 children; the returned child is slab 2 with 3 headers -/
example : mrx_obs ((rsOf 100).mergeOrRebalance (md_meta (mrx_parent [mrx_l, mrx_c, mrx_r]) mrx_x) (mrx_s mrx_l mrx_r)
      (md_tree 1 mrx_c none) (Int.ofNat 1) (u32 20)) =
    (none, [(1, 66), (2, 66), (3, 66)], [.store ⟨1, 1⟩, .store ⟨1, 2⟩, .store ⟨1, 9⟩],
      [some 3, some 3, some 3, some 3], some (2, 3)) := by
  rfl

/-- neither sibling can lend (left: 2 children, 48 bytes; right: 3 children, 66 bytes): the child is merged INTO its
    smaller left sibling; `Store` merged - `Store` parent - `Remove` child: slab 2 is gone from the heap, slab 1 has 3
    headers, the parent 2 children; the returned child object is unchanged -/
example : mrx_obs ((rsOf 100).mergeOrRebalance (md_meta (mrx_parent [mrx_sib 1 [1, 2], mrx_c, mrx_r]) mrx_x)
      (mrx_s (mrx_sib 1 [1, 2]) mrx_r) (md_tree 1 mrx_c none) (Int.ofNat 1) (u32 20)) =
    (none, [(1, 66), (3, 66)], [.store ⟨1, 1⟩, .store ⟨1, 9⟩, .remove ⟨1, 2⟩],
      [some 3, none, some 3, some 2], some (2, 1)) := by
  rfl

/-! ### promote -/

/-- a data slab (1, 2) with an empty element group: the single child of the root index slab (1, 9) -/
private def mrx_d : MDataSlab 0 :=
  { hdr := { id := ⟨1, 2⟩, size := 26, firstKey := 0 }, next := ⟨0, 0⟩,
    elems := { hkeys := [], elems := [], size := 8, level := 0 }, root := false, inlined := false }

private def mrx_root : MMetaSlab (MTree 0 0) :=
  { hdr := { id := ⟨1, 9⟩, size := 30, firstKey := 0 }, childHdrs := [mrx_d.hdr], children := [mrx_d], root := true }

private def mrx_sp : MHSt 0 :=
  { heap := fun id => if id = ⟨1, 2⟩ then some (md_tree 0 mrx_d none) else none, ctx := ⟨40, [], []⟩ }

/-- every hypothesis of `Ob_promote_heap` holds for a root index slab whose single child is a data slab held by the heap -/
example : (rsOf 100).promote (md_map (⟨1, mrx_root, 7, 0, 5⟩ : OMap 0) mrx_sp) mrx_d.hdr.id =
    (none, md_map (OMap.promoteIfSingleChild (⟨1, mrx_root, 7, 0, 5⟩ : OMap 0) mrx_sp.ctx).1
      (mrm_promoteHeap (OMap.promoteIfSingleChild (⟨1, mrx_root, 7, 0, 5⟩ : OMap 0) mrx_sp.ctx).1 mrx_sp mrx_d.hdr.id)) :=
  (Ob_promote_heap 100 0 mrx_root 7 0 5 mrx_sp mrx_d.hdr mrx_d rfl rfl rfl (fun _ => by decide)
    ⟨by decide, by decide, by intro h hh; cases hh⟩).1

/-- ... evaluated: no error, the effects `Store` root - `Remove` child, the heap holds a DATA slab under the root
    identifier (1, 9) with the root size 26 - 18 + 2 = 10 and the extra data, nothing under (1, 2) -/
example : (let q := (rsOf 100).promote (md_map (⟨1, mrx_root, 7, 0, 5⟩ : OMap 0) mrx_sp) mrx_d.hdr.id
    (q.1, q.2.Storage.ctx.eff, (q.2.Storage.heap ⟨1, 2⟩).isNone,
      match q.2.Storage.heap ⟨1, 9⟩ with
      | some (.dataSlab o) => some (o.header.size.toNat, o.extraData)
      | _ => none)) =
    (none, [.store ⟨1, 9⟩, .remove ⟨1, 2⟩], true, some (10, some (7, 0, 5))) := by
  rfl

/-! ### the hypothesis of `Ob_MergeOrRebalanceChildSlab_heapPost` is met by the state of the first example -/

private theorem mrx_at (j : Nat) (c : MTree 0 1)
    (hj : mrm_at (mrx_parent [mrx_l, mrx_c, mrx_r]) mrx_c 1 j = some c) :
    (j = 0 ∧ c = mrx_l) ∨ (j = 1 ∧ c = mrx_c) ∨ (j = 2 ∧ c = mrx_r) := by
  rcases j with _ | _ | _ | j
  · have e : some mrx_l = some c := hj
    cases e; exact Or.inl ⟨rfl, rfl⟩
  · have e : some mrx_c = some c := hj
    cases e; exact Or.inr (Or.inl ⟨rfl, rfl⟩)
  · have e : some mrx_r = some c := hj
    cases e; exact Or.inr (Or.inr ⟨rfl, rfl⟩)
  · simp [mrm_at, mrx_parent] at hj

private theorem mrx_i1 : md_ids 1 mrx_l = [⟨1, 1⟩] := rfl
private theorem mrx_i2 : md_ids 1 mrx_c = [⟨1, 2⟩] := rfl
private theorem mrx_i3 : md_ids 1 mrx_r = [⟨1, 3⟩] := rfl
private theorem mrx_k1 : mrm_kidIds 1 mrx_l = [] := rfl
private theorem mrx_k2 : mrm_kidIds 1 mrx_c = [] := rfl
private theorem mrx_k3 : mrm_kidIds 1 mrx_r = [] := rfl
private theorem mrx_pid : (mrx_parent [mrx_l, mrx_c, mrx_r]).hdr.id = ⟨1, 9⟩ := rfl

example : mrm_MorHeld (mrx_s mrx_l mrx_r) 1 (mrx_parent [mrx_l, mrx_c, mrx_r]) mrx_c 1 where
  kidsChild := fun c hc => absurd hc List.not_mem_nil
  others := by
    intro j c hj hc
    rcases j with _ | _ | _ | j
    · have e : some mrx_l = some c := hc
      cases e; exact ⟨rfl, fun c hc => absurd hc List.not_mem_nil⟩
    · exact absurd rfl hj
    · have e : some mrx_r = some c := hc
      cases e; exact ⟨rfl, fun c hc => absurd hc List.not_mem_nil⟩
    · simp [mrx_parent] at hc
  parent := by
    intro j c hj
    rcases mrx_at j c hj with ⟨_, rfl⟩ | ⟨_, rfl⟩ | ⟨_, rfl⟩ <;> simp [mrx_i1, mrx_i2, mrx_i3, mrx_pid]
  disj := by
    intro i j a b hij hi hj
    rcases mrx_at i a hi with ⟨rfl, rfl⟩ | ⟨rfl, rfl⟩ | ⟨rfl, rfl⟩ <;>
      rcases mrx_at j b hj with ⟨rfl, rfl⟩ | ⟨rfl, rfl⟩ | ⟨rfl, rfl⟩ <;>
      first | exact absurd rfl hij | simp [mrx_i1, mrx_i2, mrx_i3]
  acyc := by
    intro j c hj
    rcases mrx_at j c hj with ⟨_, rfl⟩ | ⟨_, rfl⟩ | ⟨_, rfl⟩ <;> simp [mrx_k1, mrx_k2, mrx_k3]

end examples

end Atree.TransEq
