import AtreeProofs.Codec.Fuel
/-
  C19 — fuel irrelevance of the nested decoders (audit item B4).

  The mutually recursive decoders of nested storables and map elements
  (`AtreeModel/Codec/Decode.lean`, second part) recurse on a fuel argument; exhausted fuel is `fail`,
  which cannot be told from a decoding error.  `C19.validator_fuel_irrelevant` covers the CBOR
  validator `wfRun` only.  The theorems here say that for the decoders, too, the fuel is never what
  makes an input invalid: for every fuel at or above the bound `unread bytes + c` (c = 1, 2 or 3,
  see `Codec/Fuel.lean`) the outcome — value, error kind, allocation counter, panic — is the one of
  the bound, and the fuel the callers supply (`data.length + 1`) is at or above the bound at every
  call site, so it can be replaced by any larger number without changing `DecodeSlab`
  (`decodeSlab_fuel_irrelevant`).  Below the bound fuel DOES matter (`fuel_matters_below_bound`): the
  statement is not vacuous.

  What this is about: the MODEL's termination device.  The Go decoders have no fuel; they recurse on
  the nesting of the input.  The theorem removes the one way in which the model could reject an
  input for a reason the Go code does not have.
-/
namespace Atree.C19
open Atree Atree.Codec Atree.Gen

/-! ### the eleven mutually recursive decoders -/

/-- `hx.decodeStorable`: any fuel above the number of unread bytes gives the same outcome. -/
theorem decStG_fuel_irrelevant (fuel depth : Nat) (d : Dec) (addr : Nat) (xs : List XD) (n : Nat)
    (h : d.data.length + 1 ≤ fuel) :
    decStG fuel depth d addr xs n = decStG (d.data.length + 1) depth d addr xs n := by
  rw [decStG_fuel_eq fuel depth d addr xs h]

/-- two sufficient fuels agree -/
theorem decStG_fuel_irrelevant₂ (f1 f2 depth : Nat) (d : Dec) (addr : Nat) (xs : List XD) (n : Nat)
    (h1 : d.data.length + 1 ≤ f1) (h2 : d.data.length + 1 ≤ f2) :
    decStG f1 depth d addr xs n = decStG f2 depth d addr xs n := by
  rw [decStG_fuel_eq f1 depth d addr xs h1, decStG_fuel_eq f2 depth d addr xs h2]

/-- the element loop of the array decoders -/
theorem decStsG_fuel_irrelevant (fuel k cdepth : Nat) (d : Dec) (addr : Nat) (xs : List XD) (size n : Nat)
    (h : d.data.length + 2 ≤ fuel) :
    decStsG fuel k cdepth d addr xs size n = decStsG (d.data.length + 2) k cdepth d addr xs size n := by
  rw [decStsG_fuel_eq fuel k cdepth d addr xs size h]

/-- `DecodeInlinedArrayStorable` -/
theorem decInlArr_fuel_irrelevant (fuel cdepth : Nat) (d : Dec) (addr : Nat) (xs : List XD) (n : Nat)
    (h : d.data.length + 1 ≤ fuel) :
    decInlArr fuel cdepth d addr xs n = decInlArr (d.data.length + 1) cdepth d addr xs n := by
  rw [decInlArr_fuel_eq fuel cdepth d addr xs h]

/-- `DecodeInlinedMapStorable` -/
theorem decInlMap_fuel_irrelevant (fuel cdepth : Nat) (d : Dec) (addr : Nat) (xs : List XD) (n : Nat)
    (h : d.data.length + 1 ≤ fuel) :
    decInlMap fuel cdepth d addr xs n = decInlMap (d.data.length + 1) cdepth d addr xs n := by
  rw [decInlMap_fuel_eq fuel cdepth d addr xs h]

/-- `DecodeInlinedCompactMapStorable` -/
theorem decInlCMap_fuel_irrelevant (fuel cdepth : Nat) (d : Dec) (addr : Nat) (xs : List XD) (n : Nat)
    (h : d.data.length + 1 ≤ fuel) :
    decInlCMap fuel cdepth d addr xs n = decInlCMap (d.data.length + 1) cdepth d addr xs n := by
  rw [decInlCMap_fuel_eq fuel cdepth d addr xs h]

/-- the value loop of `DecodeInlinedCompactMapStorable` -/
theorem decCVals_fuel_irrelevant (fuel : Nat) (ks : List (Nat × Nat)) (cdepth : Nat) (d : Dec) (addr : Nat)
    (xs : List XD) (size n : Nat) (h : d.data.length + 2 ≤ fuel) :
    decCVals fuel ks cdepth d addr xs size n = decCVals (d.data.length + 2) ks cdepth d addr xs size n := by
  rw [decCVals_fuel_eq fuel ks cdepth d addr xs size h]

/-- `newElementsFromData` -/
theorem decMElsG_fuel_irrelevant (fuel cdepth : Nat) (d : Dec) (addr : Nat) (xs : List XD) (n : Nat)
    (h : d.data.length + 1 ≤ fuel) :
    decMElsG fuel cdepth d addr xs n = decMElsG (d.data.length + 1) cdepth d addr xs n := by
  rw [decMElsG_fuel_eq fuel cdepth d addr xs h]

/-- `newSingleElementFromData` -/
theorem decSElG_fuel_irrelevant (fuel cdepth : Nat) (d : Dec) (addr : Nat) (xs : List XD) (n : Nat)
    (h : d.data.length + 1 ≤ fuel) :
    decSElG fuel cdepth d addr xs n = decSElG (d.data.length + 1) cdepth d addr xs n := by
  rw [decSElG_fuel_eq fuel cdepth d addr xs h]

/-- the loop over `newSingleElementFromData` -/
theorem decSElsG_fuel_irrelevant (fuel k cdepth : Nat) (d : Dec) (addr : Nat) (xs : List XD) (size n : Nat)
    (h : d.data.length + 2 ≤ fuel) :
    decSElsG fuel k cdepth d addr xs size n = decSElsG (d.data.length + 2) k cdepth d addr xs size n := by
  rw [decSElsG_fuel_eq fuel k cdepth d addr xs size h]

/-- `newElementFromData` -/
theorem decMElG_fuel_irrelevant (fuel cdepth : Nat) (d : Dec) (addr : Nat) (xs : List XD) (n : Nat)
    (h : d.data.length + 2 ≤ fuel) :
    decMElG fuel cdepth d addr xs n = decMElG (d.data.length + 2) cdepth d addr xs n := by
  rw [decMElG_fuel_eq fuel cdepth d addr xs h]

/-- the loop over `newElementFromData` -/
theorem decMElListG_fuel_irrelevant (fuel k cdepth : Nat) (d : Dec) (addr : Nat) (xs : List XD) (size n : Nat)
    (h : d.data.length + 3 ≤ fuel) :
    decMElListG fuel k cdepth d addr xs size n = decMElListG (d.data.length + 3) k cdepth d addr xs size n := by
  rw [decMElListG_fuel_eq fuel k cdepth d addr xs size h]

/-! ### the inlined-extra-data section (fuel constant along the loops; `T` = length of the section's
    input, `DecInv T d` = `d` is a decoder state over that input) -/

/-- the key loop of `newCompactMapExtraData` -/
theorem decCompactKeys_fuel_irrelevant {T : Nat} (fuel k : Nat) (d : Dec) (n : Nat) (hi : DecInv T d)
    (h : T + 1 ≤ fuel) : decCompactKeys fuel k d n = decCompactKeys (T + 1) k d n := by
  rw [decCompactKeys_fuel_eq h k hi]

/-- `newCompactMapExtraData` -/
theorem newCompactMapExtraData_fuel_irrelevant {T : Nat} (fuel : Nat) (tis : List TyInfo) (d : Dec) (n : Nat)
    (hi : DecInv T d) (h : T + 1 ≤ fuel) :
    newCompactMapExtraData fuel tis d n = newCompactMapExtraData (T + 1) tis d n := by
  rw [newCompactMapExtraData_fuel_eq h tis hi]

/-- one extra-data entry -/
theorem decXD_fuel_irrelevant {T : Nat} (fuel : Nat) (tis : List TyInfo) (d : Dec) (n : Nat)
    (hi : DecInv T d) (h : T + 1 ≤ fuel) : decXD fuel tis d n = decXD (T + 1) tis d n := by
  rw [decXD_fuel_eq h tis hi]

/-- the loop over the extra-data entries -/
theorem decXDs_fuel_irrelevant {T : Nat} (fuel : Nat) (tis : List TyInfo) (k : Nat) (d : Dec) (n : Nat)
    (hi : DecInv T d) (h : T + 1 ≤ fuel) : decXDs fuel tis k d n = decXDs (T + 1) tis k d n := by
  rw [decXDs_fuel_eq h tis k hi]

/-! ### the callers -/

/-- `newInlinedExtraDataFromData` with any fuel schedule at or above the model's -/
theorem newInlinedExtraDataFromData_fuel_irrelevant (φ : Nat → Nat) (hφ : ∀ L, L + 1 ≤ φ L) (data : Bytes) (n : Nat) :
    newInlinedExtraDataFromDataF φ data n = newInlinedExtraDataFromData data n := by
  rw [newInlinedExtraDataFromDataF_eq hφ]

/-- map data slabs from "Decode elements" on -/
theorem mapDataContent_fuel_irrelevant (φ : Nat → Nat) (hφ : ∀ L, L + 1 ≤ φ L) (id : SlabID) (h : SlabHead)
    (extra : Option MapExtra) (next : SlabID) (xs : List XD) (data : Bytes) (n : Nat) :
    mapDataContentF φ id h extra next xs data n = mapDataContent id h extra next xs data n := by
  rw [mapDataContentF_eq hφ]

/-- array data slabs from the element head on -/
theorem arrDataContentG_fuel_irrelevant (φ : Nat → Nat) (hφ : ∀ L, L + 1 ≤ φ L) (id : SlabID) (isRoot : Bool)
    (ty : Option TyInfo) (next : SlabID) (checkEOF : Bool) (xs : List XD) (data : Bytes) (n : Nat) :
    arrDataContentGF φ id isRoot ty next checkEOF xs data n = arrDataContentG id isRoot ty next checkEOF xs data n := by
  rw [arrDataContentGF_eq hφ]

/-- The second part of `DecodeSlab` under ANY fuel schedule `φ` (length of the byte string being
    decoded ↦ fuel handed to the nested decoders) that gives at least the model's `L + 1` is the
    model's `decodeSlabGen`: every `data.length + 1` in `decodeSlabGen` and its callees may be replaced
    by any larger number, independently at each call site and for each input length. -/
theorem decodeSlabGen_fuel_irrelevant (φ : Nat → Nat) (hφ : ∀ L, L + 1 ≤ φ L) (id : SlabID) (bytes : Bytes) (n : Nat) :
    decodeSlabGenF φ id bytes n = decodeSlabGen id bytes n := by
  rw [decodeSlabGenF_eq hφ]

/-- The same for the whole `DecodeSlab`: the fuel is never what makes a register invalid. -/
theorem decodeSlab_fuel_irrelevant (φ : Nat → Nat) (hφ : ∀ L, L + 1 ≤ φ L) (id : SlabID) (bytes : Bytes) (n : Nat) :
    decodeSlabF φ id bytes n = decodeSlab id bytes n := by
  rw [decodeSlabF_eq hφ]

/-- The form of the task statement: adding `extra` to every fuel argument changes nothing. -/
theorem decodeSlab_fuel_irrelevant_extra (extra : Nat) (id : SlabID) (bytes : Bytes) (n : Nat) :
    decodeSlabF (fun L => L + 1 + extra) id bytes n = decodeSlab id bytes n :=
  decodeSlab_fuel_irrelevant _ (fun L => by omega) id bytes n

/-- `decodeSlabF` with the model's schedule is `decodeSlab` by definition (the `…F` functions are
    copies of the model's functions with the fuel expression abstracted, nothing else). -/
theorem decodeSlabF_is_decodeSlab : decodeSlabF (fun L => L + 1) = decodeSlab := rfl

/-! ### non-vacuity: a nested register decoded with different fuels -/

/-- A root array data slab (version 1, has-inlined-slabs) with two elements: an inlined array
    `[Some(v), v']` and a doubly wrapped value `Some(Some(v''))` — nesting depth 3 below the slab. -/
def nestedSlab : Slab :=
  Slab.adata
    { id := ⟨1, 1⟩, next := SlabID.undef, ty := Option.some (TyInfo.plain 1),
      elems := [Stor.arr (TyInfo.plain 2) 7 [Stor.some (Stor.val 4 5), Stor.val 2 9],
                Stor.some (Stor.some (Stor.val 2 3))] }

/-- its 45-byte register -/
def nestedReg : Bytes :=
  [17, 128, 129, 1, 130, 128, 129, 216, 247, 129, 2, 153, 0, 2, 216, 250, 131, 24, 0, 72, 0, 0, 0, 0, 0, 0, 0, 7,
   153, 0, 2, 216, 165, 67, 0, 0, 5, 65, 9, 216, 165, 216, 165, 65, 3]

theorem nestedReg_is_encoding : encodeSlab nestedSlab = nestedReg := by decide

/-- with the model's fuel (46) the register decodes to the nested slab, allocating 5 slice elements -/
theorem nestedReg_decodes : decodeSlab ⟨1, 1⟩ nestedReg 0 = .ok nestedSlab 5 := by with_unfolding_all rfl

/-- … and with two other schedules (constant 6 is NOT covered by the theorem — it is below
    `L + 1` — but happens to be the least fuel that suffices for this register; `2·L + 7` is covered) -/
theorem nestedReg_decodes_fuel6 : decodeSlabF (fun _ => 6) ⟨1, 1⟩ nestedReg 0 = .ok nestedSlab 5 := by with_unfolding_all rfl
theorem nestedReg_decodes_fuel2L7 : decodeSlabF (fun L => 2 * L + 7) ⟨1, 1⟩ nestedReg 0 = .ok nestedSlab 5 := by
  rw [decodeSlab_fuel_irrelevant _ (fun L => by omega)]
  exact nestedReg_decodes

/-- Below the bound the fuel matters: with fuel 5 the same register is "invalid" (an `error`
    indistinguishable from a decoding error), so the irrelevance theorems are not vacuous. -/
theorem fuel_matters_below_bound :
    decodeSlabF (fun _ => 5) ⟨1, 1⟩ nestedReg 0 = .error .decoding 5 := by with_unfolding_all rfl

/-- the entry point `decStG` on the wrapped value `Some(Some(v))` (6 bytes): fuel 2 fails, fuel 3 … 7
    and every larger one succeed with the same result -/
def wrappedBytes : Bytes := [0xd8, 165, 0xd8, 165, 0x41, 7]

theorem wrapped_fuel2 : decStG 2 0 (Dec.new wrappedBytes) 0 [] 0 = .error .decoding 0 := by with_unfolding_all rfl

theorem wrapped_fuel3 : ∃ d', decStG 3 0 (Dec.new wrappedBytes) 0 [] 0 =
    .ok (Stor.some (Stor.some (Stor.val 2 7)), d') 0 := ⟨_, by with_unfolding_all rfl⟩

theorem wrapped_any_fuel (fuel : Nat) (h : 7 ≤ fuel) : ∃ d', decStG fuel 0 (Dec.new wrappedBytes) 0 [] 0 =
    .ok (Stor.some (Stor.some (Stor.val 2 7)), d') 0 := by
  rw [decStG_fuel_irrelevant fuel 0 (Dec.new wrappedBytes) 0 [] 0 h]
  exact ⟨_, by with_unfolding_all rfl⟩

end Atree.C19
