import AtreeProofs.Props.C10
import AtreeProofs.Props.C11
/-
  C10 — handles obtained by LOOKUP or MUTABLE ITERATION, and after reopening the storage.
  PROPERTY THEOREMS.  `Array.Get` / `OrderedMap.Get` and the mutable iterators install on the new
  handle exactly the closure that `notify_updates_array_parent` (and its map analogue) assume:
  the recorded parent, slot (index in `mutableElementIndex`, or key), wrapper depth and the inline
  budget recomputed by the parent's `set`.  They change nothing else: containers, elements and the
  closures / indexes of all other children are untouched, and no storage effect is produced.
-/
namespace Atree.C10Get
open Atree Gen World

/-- `Array.Get(i)` that yields a child container `x`: -/
theorem arrGet_installs_callback (w : World) (p : SlabID) (i : Nat) (el : Elem) (w' : World)
    (h : w.arrGet p i = .ok (el, w')) (x : SlabID) (hx : el.pay = .ref x) (c : Cont)
    (hc : w.cont? x = some c) :
    ∃ a, w.cont? p = some (.arr a) ∧ a.get i = .ok el ∧
      -- the closure: parent, no key, wrapper depth, and the budget `Array.set` recomputes (`hmax`)
      AList.find? w'.hinfo x =
        some { parent := p, key := none, maxInline := maxInlineArr w.T - 2 * wrapDepth c el, wrap := wrapDepth c el } ∧
      -- the index is recorded (`hidx`)
      AList.find? (w'.idxOf p) x = some i ∧
      -- nothing else changes
      w'.conts = w.conts ∧ w'.T = w.T ∧
      (∀ y, y ≠ x → AList.find? w'.hinfo y = AList.find? w.hinfo y) ∧
      (∀ q, q ≠ p → w'.idxOf q = w.idxOf q) ∧
      (∀ y, y ≠ x → AList.find? (w'.idxOf p) y = AList.find? (w.idxOf p) y) := by
  unfold arrGet at h
  split at h
  · rename_i a hpa
    split at h
    · cases h
    · rename_i el' hget
      split at h
      · rename_i vid hpay
        split at h
        · rename_i hnone
          cases h
          rw [hx] at hpay; cases hpay
          rw [hc] at hnone; cases hnone
        · rename_i c' hc'
          cases h
          rw [hx] at hpay; cases hpay
          rw [hc] at hc'; cases hc'
          refine ⟨a, hpa, hget, ?_, ?_, rfl, rfl, ?_, ?_, ?_⟩
          · simp [setCallbackArr, AList.find?_insert]
          · simp [setCallbackArr, idxOf, setIdx, AList.find?_insert]
          · intro y hy
            have hy' : ¬ x = y := fun e => hy e.symm
            simp [setCallbackArr, AList.find?_insert, hy']
          · intro q hq
            have hq' : ¬ p = q := fun e => hq e.symm
            simp [setCallbackArr, idxOf, setIdx, AList.find?_insert, hq']
          · intro y hy
            have hy' : ¬ x = y := fun e => hy e.symm
            simp [setCallbackArr, idxOf, setIdx, AList.find?_insert, hy']
      · rename_i hnot
        cases h
        exact absurd hx (by intro hh; exact hnot x hh)
  · cases h

/-- `Array.Get(i)` that yields a plain value (or a reference to a large-value slab) changes nothing. -/
theorem arrGet_plain_noop (w : World) (p : SlabID) (i : Nat) (el : Elem) (w' : World)
    (h : w.arrGet p i = .ok (el, w')) (hx : ∀ x, el.pay = .ref x → w.cont? x = none) : w' = w := by
  unfold arrGet at h
  split at h
  · split at h
    · cases h
    · split at h
      · rename_i vid hpay
        split at h
        · cases h; rfl
        · rename_i c' hc'
          cases h
          rw [hx vid hpay] at hc'; cases hc'
      · cases h; rfl
  · cases h

/-- `OrderedMap.Get(key)` that yields a child container `x`: the closure records the parent, the
    key, the wrapper depth and the budget `OrderedMap.set` recomputes from the STORED key's size. -/
theorem mapGet_installs_callback (w : World) (p : SlabID) (k : MKey) (el : Elem) (w' : World)
    (h : w.mapGet p k = .ok (el, w')) (x : SlabID) (hx : el.pay = .ref x) (c : Cont)
    (hc : w.cont? x = some c) :
    ∃ m k', w.cont? p = some (.map m) ∧ m.get w.mcfg k = .ok (k', el) ∧
      AList.find? w'.hinfo x =
        some { parent := p, key := some k', maxInline := maxInlineMapValue w.T k'.size - 2 * wrapDepth c el,
               wrap := wrapDepth c el } ∧
      w'.conts = w.conts ∧ w'.T = w.T ∧ w'.mutIdx = w.mutIdx ∧
      (∀ y, y ≠ x → AList.find? w'.hinfo y = AList.find? w.hinfo y) := by
  unfold mapGet at h
  split at h
  · rename_i m hpm
    split at h
    · cases h
    · rename_i k' el' hget
      split at h
      · rename_i vid hpay
        split at h
        · rename_i hnone
          cases h
          rw [hx] at hpay; cases hpay
          rw [hc] at hnone; cases hnone
        · rename_i c' hc'
          cases h
          rw [hx] at hpay; cases hpay
          rw [hc] at hc'; cases hc'
          refine ⟨m, k', hpm, hget, ?_, rfl, rfl, rfl, ?_⟩
          · simp [setCallbackMap, AList.find?_insert]
          · intro y hy
            have hy' : ¬ x = y := fun e => hy e.symm
            simp [setCallbackMap, AList.find?_insert, hy']
      · rename_i hnot
        cases h
        exact absurd hx (by intro hh; exact hnot x hh)
  · cases h

/-- Reopening on a fresh storage keeps every container and drops every closure and index: until a
    child is fetched again, mutating it through a handle opened by its own root ID notifies nobody. -/
theorem reopen_spec (w : World) :
    w.reopen.conts = w.conts ∧ w.reopen.T = w.T ∧ w.reopen.hinfo = [] ∧ (∀ p, w.reopen.idxOf p = []) ∧
    (∀ fuel x cx, notifyParent (fuel + 1) w.reopen x cx = .ok (w.reopen, cx)) := by
  refine ⟨rfl, rfl, rfl, fun p => rfl, fun fuel x cx => ?_⟩
  rw [notifyParent]
  simp [reopen]

/-- nothing kept = everything handed out is disposed of -/
theorem disposed_nil (es : List Elem) : disposed [] es = es := by
  unfold disposed
  apply List.filter_eq_self.mpr
  intro e _
  cases e.pay <;> simp

/-- The bulk pop with kept containers generalises the plain one (about which `C10Pop` speaks). -/
theorem arrPopKeep_nil (w : World) (h : SlabID) (cx : Ctx) : w.arrPopKeep h [] cx = w.arrPop h cx := by
  unfold arrPopKeep arrPop
  simp only [disposed_nil]

theorem mapPopKeep_nil (w : World) (h : SlabID) (cx : Ctx) : w.mapPopKeep h [] cx = w.mapPop h cx := by
  unfold mapPopKeep mapPop
  simp only [disposed_nil]

/-- A popped INLINED child that the caller keeps still names its former parent `h` in its closure;
    `h` (an array) has forgotten every index, so the child's next notification finds nothing,
    changes no container and only drops the closure (C11 for containers handed out by a bulk pop). -/
theorem kept_child_notification_is_noop (fuel : Nat) (w : World) (x h : SlabID) (hi : HInfo) (cx : Ctx)
    (c : Cont) (pa : Arr)
    (hh : AList.find? w.hinfo x = some hi) (hp : hi.parent = h) (hc : w.cont? x = some c)
    (hpa : w.cont? h = some (.arr pa)) (hidx : w.idxOf h = []) :
    notifyParent (fuel + 1) w x cx = .ok (w, cx) ∨
    notifyParent (fuel + 1) w x cx = .ok ({ w with hinfo := AList.erase w.hinfo x }, cx) := by
  subst hp
  exact C11.detached_array_child_leaves_parent_unchanged fuel w x hi cx c pa hh hc hpa (by rw [hidx]; rfl)

/-! ### Non-vacuity: the scenario world of `World/Scenario.lean` (root array `R` holding child array
    `X`, standalone after six inserts), reopened and fetched again through `R`. -/
section NonVacuity
open Atree.Scenario

/-- after reopening, the lookup `R.Get(0)` hands out `X` and installs exactly the closure and index
    that the insertion had installed (budget 117 = `maxInlineArr 256`, no wrapper) -/
example : ∃ el w', s9.1.reopen.arrGet R 0 = .ok (el, w') ∧ el.pay = .ref X ∧
    AList.find? w'.hinfo X = some ⟨R, none, 117, 0⟩ ∧ AList.find? (w'.idxOf R) X = some 0 ∧
    AList.find? s9.1.hinfo X = some ⟨R, none, 117, 0⟩ := by
  refine ⟨_, _, rfl, by decide, by decide, by decide, by decide⟩

example : (s9.1.reopen.hinfo = []) ∧ (s9.1.reopen.conts = s9.1.conts) := ⟨rfl, rfl⟩

end NonVacuity

end Atree.C10Get
