import AtreeProofs.Props.TransMapSlabsData
import AtreeProofs.Props.TransMapSlabsMeta
/-
  The tree level of the map slab restructuring code (map_metadata_slab.go: `SplitChildSlab`, `rebalanceChildren`,
  `mergeChildren`, `MergeOrRebalanceChildSlab`; map_slab.go / storage.go: the `MapSlab` dispatchers, `storeSlab`,
  `getMapSlab`), REGENERATED from the Go sources (`AtreeModel/Gen/TransMapSlabs.lean`), against the hand-written model
  (`AtreeModel/Map/Tree.lean`: `MTree.*`, `MMetaSlab.splitChildSlab / rebalanceChildren / mergeChildren /
  mergeOrRebalanceChildSlab`).  In Go the children live in the storage and the operands are objects that are mutated;
  the model embeds the children and returns new values.  So every theorem gives, for the generated function applied to
  the translations (`cMeta`, `cTree`) of the model's arguments: the error class, the parent slab IN FULL (header,
  children headers), the storage state (= the model's `Ctx`: every effect in order) and the state of each operand
  object after the call (`msl_splitLeft`, `msl_rebalanced`, `MTree.merge`, `msl_morChild`).
  The range / consistency hypotheses of the slab-level theorems (TransMapSlabsData / TransMapSlabsMeta) differ between
  data and index slabs; they are collected per operation in `msl_SplitOK`, `msl_MergeOK`, `msl_LendOK`, `msl_BorrowOK`
  (`msl_RebalanceOK`), by cases on the depth.
-/
namespace Atree.TransEq
open Atree Atree.Gen.TransMap

/-! ## small list / index helpers -/

theorem msl_intOfNat_toNat (k : Nat) : (Int.ofNat k).toNat = k := rfl

theorem msl_goInRange_ofNat {β : Type} (l : List β) (i : Nat) (h : i < l.length) : goInRange l (Int.ofNat i) = true := by
  simp only [goInRange, Bool.and_eq_true, decide_eq_true_eq, Int.ofNat_eq_natCast]
  omega

theorem msl_take_cons_drop_eq_insertIdx {β : Type} (l : List β) (i : Nat) (v : β) (h : i ≤ l.length) :
    l.take i ++ v :: l.drop i = l.insertIdx i v := by
  induction l generalizing i with
  | nil =>
    have : i = 0 := by simpa using h
    subst this; simp
  | cons a t ih =>
    cases i with
    | zero => simp
    | succ i => simp [List.insertIdx_succ_cons, ih i (by simpa using h)]

theorem msl_cmap_insertIdx {β γ : Type} (f : β → γ) (l : List β) (i : Nat) (v : β) :
    (l.insertIdx i v).map f = (l.map f).insertIdx i (f v) := by
  induction l generalizing i with
  | nil => cases i <;> simp
  | cons a t ih =>
    cases i with
    | zero => simp
    | succ i => simp [List.insertIdx_succ_cons, ih i]

theorem msl_goSlicesInsert_one {β : Type} (l : List β) (i : Nat) (v : β) (h : i ≤ l.length) :
    goSlicesInsert l (Int.ofNat i) [v] = some (l.insertIdx i v) := by
  have hd : (0 : Int) ≤ Int.ofNat i ∧ Int.ofNat i ≤ Int.ofNat l.length := by
    simp only [Int.ofNat_eq_natCast]; omega
  simp only [goSlicesInsert, if_pos hd, msl_intOfNat_toNat]
  rw [← msl_take_cons_drop_eq_insertIdx l i v h]
  simp

theorem msl_intOfNat_succ (k : Nat) : Int.ofNat k + (1 : Int) = Int.ofNat (k + 1) := by simp


section tree
variable {r : Nat} {V W X : Type} (T : Nat) (env : Env (MElemF (MElems r)) V W X Ctx GE)

/-! ## what a subtree root must satisfy for each operation (the hypotheses of the slab-level theorems) -/

/-- `Split`: data slab = the hypotheses of `MapDataSlab_Split_full_eq_model`; index slab = the header size covers the
    child headers that stay left -/
def msl_SplitOK : (d : Nat) → MTree r d → Prop
  | 0, (s : MDataSlab r) =>
    s.elems.elems.length < 2^32 ∧ s.elems.size + Gen.mapDataSlabPrefixSize < 2^32 ∧
    Gen.hkeyElementsPrefixSize + (dg (rawSizes (MDataSlab.eops r) s.elems)).sum ≤ s.elems.size ∧
    s.elems.elems.length ≤ s.elems.hkeys.length
  | _ + 1, (m : MMetaSlab _) =>
    2 ≤ m.childHdrs.length → (m.childHdrs.length + 1) / 2 * Gen.mapSlabHeaderSize ≤ m.hdr.size

/-- `Merge`: data slabs = the right element size covers its prefix, the new size fits uint32; index slabs = the right
    header size covers the prefix -/
def msl_MergeOK : (d : Nat) → MTree r d → MTree r d → Prop
  | 0, (l : MDataSlab r), (rr : MDataSlab r) =>
    Gen.hkeyElementsPrefixSize ≤ rr.elems.size ∧ l.elems.size + rr.elems.size + 10 < 2^32
  | _ + 1, (_ : MMetaSlab _), (rr : MMetaSlab _) => Gen.mapMetaDataSlabPrefixSize ≤ rr.hdr.size

/-- `LendToRight`: the hypotheses of `MapDataSlab_LendToRight_full_eq_model` / `MapMetaDataSlab_LendToRight_full_eq_model` -/
def msl_LendOK (T : Nat) : (d : Nat) → MTree r d → MTree r d → Prop
  | 0, (l : MDataSlab r), (rr : MDataSlab r) =>
    minThr T < 2^32 ∧ Gen.mapDataSlabPrefixSize + Gen.hkeyElementsPrefixSize ≤ minThr T ∧
    l.elems.level < 2^64 ∧ rr.elems.level < 2^64 ∧ l.elems.size + rr.elems.size + 10 < 2^32 ∧
    Gen.hkeyElementsPrefixSize ≤ rr.elems.size ∧
    Gen.hkeyElementsPrefixSize + (dg (rawSizes (MDataSlab.eops r) l.elems)).sum ≤ l.elems.size ∧
    l.elems.hkeys.length = l.elems.elems.length
  | _ + 1, (l : MMetaSlab _), (rr : MMetaSlab _) =>
    rr.childHdrs.length ≤ l.childHdrs.length + 1 ∧ 0 < l.childHdrs.length + rr.childHdrs.length

/-- `BorrowFromRight`: the hypotheses of `MapDataSlab_BorrowFromRight_full_eq_model` /
    `MapMetaDataSlab_BorrowFromRight_full_eq_model` -/
def msl_BorrowOK (T : Nat) : (d : Nat) → MTree r d → MTree r d → Prop
  | 0, (l : MDataSlab r), (rr : MDataSlab r) =>
    minThr T < 2^32 ∧ Gen.mapDataSlabPrefixSize + Gen.hkeyElementsPrefixSize ≤ minThr T ∧
    l.elems.level < 2^64 ∧ rr.elems.level < 2^64 ∧ l.elems.size + rr.elems.size + 10 < 2^32 ∧
    Gen.hkeyElementsPrefixSize ≤ l.elems.size ∧
    Gen.hkeyElementsPrefixSize + (dg (rawSizes (MDataSlab.eops r) rr.elems)).sum ≤ rr.elems.size ∧
    rr.elems.elems.length ≤ rr.elems.hkeys.length
  | _ + 1, (l : MMetaSlab _), (rr : MMetaSlab _) =>
    l.childHdrs.length ≤ rr.childHdrs.length ∧ 0 < rr.childHdrs.length

/-- the rebalance `MMetaSlab.rebalanceChildren` does, by its flag -/
def msl_RebalanceOK (T : Nat) (d : Nat) (l rr : MTree r d) (leftBorrowFromRight : Bool) : Prop :=
  if leftBorrowFromRight then msl_BorrowOK T d l rr else msl_LendOK T d l rr

/-! ## the state of the operands after the call (Go mutates the objects; the model returns new values) -/

/-- the child object after `Split`: the left half; unchanged when the split fails -/
def msl_splitLeft (d : Nat) (t : MTree r d) (c : Ctx) : MTree r d :=
  match MTree.split d t c with
  | .ok (l, _, _) => l
  | .error _ => t

/-- both operands after `BorrowFromRight` / `LendToRight`; unchanged when the operation fails -/
def msl_rebalanced (T : Nat) (d : Nat) (l rr : MTree r d) (leftBorrowFromRight : Bool) : MTree r d × MTree r d :=
  match (if leftBorrowFromRight then MTree.borrowFromRight T d l rr else MTree.lendToRight T d l rr) with
  | .ok p => p
  | .error _ => (l, rr)

/-! ## the dispatchers of the closed interface `MapSlab` on a subtree root -/

theorem msl_cTree_isNil (d : Nat) (t : MTree r d) : (cTree (V := V) (X := X) d t).isNil = false := by
  cases d <;> rfl

theorem MapSlab_Header_cTree (d : Nat) (t : MTree r d) :
    MapSlab_Header env (cTree d t) = some (cHdr (MTree.hdr d t)) := by
  cases d <;> rfl

theorem MapSlab_SlabID_cTree (d : Nat) (t : MTree r d) :
    MapSlab_SlabID env (cTree d t) = some (MTree.hdr d t).id := by
  cases d <;> rfl

theorem MapSlab_ByteSize_cTree (d : Nat) (t : MTree r d) :
    MapSlab_ByteSize env (cTree d t) = some (u32 (MTree.hdr d t).size) := by
  cases d <;> rfl

theorem MapSlab_IsData_cTree (d : Nat) (t : MTree r d) :
    MapSlab_IsData env (cTree d t) = some (decide (d = 0)) := by
  cases d <;> rfl

theorem MapSlab_SetSlabID_cTree (d : Nat) (t : MTree r d) (id : SlabID) :
    MapSlab_SetSlabID env (cTree d t) id = some (cTree d (MTree.setId d t id)) := by
  cases d <;> rfl

/-- `storeSlab` on a subtree root: the store effect, no error -/
theorem msl_storeSlab_cTree (hS : EnvS env) (c : Ctx) (d : Nat) (t : MTree r d) :
    storeSlab env c (cTree d t) = some (none, c.emit (.store (MTree.hdr d t).id)) := by
  simp only [storeSlab, MapSlab_SlabID_cTree, hS.store, Option.isNone_none, Bool.not_true, Bool.false_eq_true, if_false]

/-- `storeSlab` on an index slab (the parent) -/
theorem msl_storeSlab_meta (hS : EnvS env) (c : Ctx) (m : MapMetaDataSlab X) :
    storeSlab env c (.metaSlab m) = some (none, c.emit (.store m.header.slabID)) := by
  simp only [storeSlab, MapSlab_SlabID, MapMetaDataSlab_SlabID, hS.store, Option.isNone_none, Bool.not_true,
    Bool.false_eq_true, if_false]

theorem msl_storeSlab_cMeta (hS : EnvS env) (c : Ctx) {α : Type} (m : MMetaSlab α) (x : Option X) :
    storeSlab env c (.metaSlab (cMeta m x)) = some (none, c.emit (.store m.hdr.id)) :=
  msl_storeSlab_meta env hS c _

/-! ## Split / Merge / LendToRight / BorrowFromRight through the dispatchers -/

theorem MDataSlab.msl_split_error (s : MDataSlab r) (c : Ctx) (e : MErr) (h : MDataSlab.split s c = .error e) :
    e = .slabSplit := by
  simp only [MDataSlab.split] at h
  split at h
  · cases h; rfl
  · cases h

theorem MDataSlab.msl_lendToRight_error (l rr : MDataSlab r) (e : MErr) (h : MDataSlab.lendToRight T l rr = .error e) :
    e = .slabRebalance := by
  simp only [MDataSlab.lendToRight, HkeyElems.lendToRight, bind, Except.bind] at h
  split at h
  · rename_i h2; split at h2
    · cases h2; cases h; rfl
    · cases h2
  · cases h

theorem MDataSlab.msl_borrowFromRight_error (l rr : MDataSlab r) (e : MErr)
    (h : MDataSlab.borrowFromRight T l rr = .error e) : e = .slabRebalance := by
  simp only [MDataSlab.borrowFromRight, HkeyElems.borrowFromRight, bind, Except.bind] at h
  split at h
  · rename_i h2; split at h2
    · cases h2; cases h; rfl
    · cases h2
  · cases h

/-- `MapSlab.Split` on a subtree root = `MTree.split`: the error with the slab and the storage untouched, else both
    halves (the left one is the receiver object) and the storage after the allocation -/
theorem MapSlab_Split_eq_model (hE : EnvH (MDataSlab.eops r) T env) (hS : EnvS env) (d : Nat) (t : MTree r d) (c : Ctx)
    (h : msl_SplitOK d t) :
    MapSlab_Split env (cTree d t) c =
      match MTree.split d t c with
      | .error e => some (.nil, .nil, some e, cTree d t, c)
      | .ok (l, rr, c') => some (cTree d l, cTree d rr, none, cTree d l, c') := by
  cases d with
  | zero =>
    obtain ⟨h1, h2, h3, h4⟩ := h
    have hd := MapDataSlab_Split_full_eq_model T env hE hS t none c h1 h2 h3 h4
    have he := MDataSlab.msl_split_error t c
    simp only [MapSlab_Split, cTree, MTree.split, hd]
    cases hsp : MDataSlab.split t c with
    | error e => rw [he e hsp]
    | ok p => obtain ⟨l, rr, c'⟩ := p; rfl
  | succ d =>
    have hd := MapMetaDataSlab_Split_full_eq_model (V := V) env hS hE.eSplit t none c h
    simp only [MapSlab_Split, cTree, MTree.split, hd]
    cases hsp : MMetaSlab.split t c with
    | error e => rfl
    | ok p => obtain ⟨l, rr, c'⟩ := p; rfl

/-- `MapSlab.Merge` on two subtree roots of the same depth = `MTree.merge`; never an error -/
theorem MapSlab_Merge_eq_model (d : Nat) (l rr : MTree r d) (h : msl_MergeOK d l rr) :
    MapSlab_Merge env (cTree d l) (cTree d rr) = some (none, cTree d (MTree.merge d l rr)) := by
  cases d with
  | zero =>
    have hd := MapDataSlab_Merge_full_eq_model env l rr none none h.1 h.2
    simp only [MapSlab_Merge, cTree, MTree.merge, hd]
  | succ d =>
    have hd := MapMetaDataSlab_Merge_full_eq_model (V := V) env l rr (none : Option X) none h
    simp only [MapSlab_Merge, cTree, MTree.merge, hd]

/-- `MapSlab.LendToRight` = `MTree.lendToRight`: the error (data slabs of different hash levels) with both slabs
    untouched, else both slabs -/
theorem MapSlab_LendToRight_eq_model (hE : EnvH (MDataSlab.eops r) T env) (d : Nat) (l rr : MTree r d)
    (h : msl_LendOK T d l rr) :
    MapSlab_LendToRight env (cTree d l) (cTree d rr) =
      match MTree.lendToRight T d l rr with
      | .error e => some (some e, cTree d l, cTree d rr)
      | .ok (l', r') => some (none, cTree d l', cTree d r') := by
  cases d with
  | zero =>
    obtain ⟨h1, h2, h3, h4, h5, h6, h7, h8⟩ := h
    have hd := MapDataSlab_LendToRight_full_eq_model T env hE l rr none none h1 h2 h3 h4 h5 h6 h7 h8
    have he := MDataSlab.msl_lendToRight_error T l rr
    simp only [MapSlab_LendToRight, cTree, MTree.lendToRight, hd]
    cases hsp : MDataSlab.lendToRight T l rr with
    | error e => rw [he e hsp]
    | ok p => obtain ⟨l', r'⟩ := p; rfl
  | succ d =>
    have hd := MapMetaDataSlab_LendToRight_full_eq_model (V := V) env l rr (none : Option X) none h.1 h.2
    simp only [MapSlab_LendToRight, cTree, MTree.lendToRight, hd]

/-- `MapSlab.BorrowFromRight` = `MTree.borrowFromRight`, likewise -/
theorem MapSlab_BorrowFromRight_eq_model (hE : EnvH (MDataSlab.eops r) T env) (d : Nat) (l rr : MTree r d)
    (h : msl_BorrowOK T d l rr) :
    MapSlab_BorrowFromRight env (cTree d l) (cTree d rr) =
      match MTree.borrowFromRight T d l rr with
      | .error e => some (some e, cTree d l, cTree d rr)
      | .ok (l', r') => some (none, cTree d l', cTree d r') := by
  cases d with
  | zero =>
    obtain ⟨h1, h2, h3, h4, h5, h6, h7, h8⟩ := h
    have hd := MapDataSlab_BorrowFromRight_full_eq_model T env hE l rr none none h1 h2 h3 h4 h5 h6 h7 h8
    have he := MDataSlab.msl_borrowFromRight_error T l rr
    simp only [MapSlab_BorrowFromRight, cTree, MTree.borrowFromRight, hd]
    cases hsp : MDataSlab.borrowFromRight T l rr with
    | error e => rw [he e hsp]
    | ok p => obtain ⟨l', r'⟩ := p; rfl
  | succ d =>
    have hd := MapMetaDataSlab_BorrowFromRight_full_eq_model (V := V) env l rr (none : Option X) none h.1 h.2
    simp only [MapSlab_BorrowFromRight, cTree, MTree.borrowFromRight, hd]

/-! ## `SplitChildSlab` -/

/-- the translation of the headers commutes with `childrenHeaders[i] = h` -/
theorem msl_cHdr_set (l : List MHdr) (i : Nat) (h : MHdr) : (l.map cHdr).set i (cHdr h) = (l.set i h).map cHdr := by
  rw [List.map_set]

/-- `MapMetaDataSlab.SplitChildSlab` = `MMetaSlab.splitChildSlab`.  The error of the child's `Split`: parent, storage
    and child untouched.  Otherwise the parent in full (child header `k` := the left half's, the right half's inserted
    at `k + 1`, header size + 18), the storage after the allocation and the three `Store`s (left, right, parent, in
    this order), and the child object, which is now the left half. -/
theorem MapMetaDataSlab_SplitChildSlab_eq_model (hE : EnvH (MDataSlab.eops r) T env) (hS : EnvS env) (d : Nat)
    (m : MMetaSlab (MTree r d)) (x : Option X) (child : MTree r d) (k : Nat) (c : Ctx)
    (hk : k < m.childHdrs.length) (hok : msl_SplitOK d child) :
    MapMetaDataSlab_SplitChildSlab env (cMeta m x) c (cTree d child) (Int.ofNat k) =
      match MMetaSlab.splitChildSlab m child k c with
      | .error e => some (some e, cMeta m x, c, cTree d child)
      | .ok (m', c') => some (none, cMeta m' x, c', cTree d (msl_splitLeft d child c)) := by
  have hsp := MapSlab_Split_eq_model T env hE hS d child c hok
  simp only [MapMetaDataSlab_SplitChildSlab, MMetaSlab.splitChildSlab, msl_splitLeft, hsp]
  cases hres : MTree.split d child c with
  | error e => simp only [bind, Except.bind, Option.isNone_some, Bool.not_false, if_true]
  | ok p =>
    obtain ⟨l, rr, c1⟩ := p
    have hr : goInRange (cMeta m x).childrenHeaders (Int.ofNat k) = true :=
      msl_goInRange_ofNat _ _ (by simp only [cMeta, List.length_map]; exact hk)
    have hins : k + 1 ≤ ((m.childHdrs.set k (MTree.hdr d l)).map cHdr).length := by
      rw [List.length_map, List.length_set]; omega
    simp only [bind, Except.bind, pure, Except.pure, Option.isNone_none, Bool.not_true, Bool.false_eq_true, if_false,
      msl_cTree_isNil, Bool.not_false, if_true, MapSlab_Header_cTree, hr, msl_intOfNat_toNat, msl_intOfNat_succ]
    simp only [cMeta, msl_cHdr_set, msl_goSlicesInsert_one _ _ _ hins, ← msl_cmap_insertIdx, msl_storeSlab_cTree env hS,
      msl_storeSlab_meta env hS, Option.isNone_none, Bool.not_true, Bool.false_eq_true, if_false]
    simp only [cHdr, u32, UInt32.ofNat_add]

/-! ## `rebalanceChildren` -/

theorem MTree.msl_lendToRight_error (d : Nat) (l rr : MTree r d) (e : MErr) (h : MTree.lendToRight T d l rr = .error e) :
    e = .slabRebalance := by
  cases d with
  | zero => exact MDataSlab.msl_lendToRight_error T l rr e h
  | succ d => cases h

theorem MTree.msl_borrowFromRight_error (d : Nat) (l rr : MTree r d) (e : MErr)
    (h : MTree.borrowFromRight T d l rr = .error e) : e = .slabRebalance := by
  cases d with
  | zero => exact MDataSlab.msl_borrowFromRight_error T l rr e h
  | succ d => cases h

/-- the rebalance step of `rebalanceChildren` through the dispatchers, both directions at once -/
theorem msl_rebalance_step (hE : EnvH (MDataSlab.eops r) T env) (d : Nat) (l rr : MTree r d) (b : Bool)
    (hok : msl_RebalanceOK T d l rr b) :
    (if b then MapSlab_BorrowFromRight env (cTree d l) (cTree d rr) else MapSlab_LendToRight env (cTree d l) (cTree d rr)) =
      match (if b then MTree.borrowFromRight T d l rr else MTree.lendToRight T d l rr) with
      | .error e => some (some e, cTree d l, cTree d rr)
      | .ok (l', r') => some (none, cTree d l', cTree d r') := by
  cases b with
  | true => exact MapSlab_BorrowFromRight_eq_model T env hE d l rr hok
  | false => exact MapSlab_LendToRight_eq_model T env hE d l rr hok

/-- `MapMetaDataSlab.rebalanceChildren` = `MMetaSlab.rebalanceChildren`.  The error of the rebalance step (data slabs
    of different hash levels): parent, storage and both children untouched.  Otherwise the parent in full (both child
    headers, the first key when the left child is child 0), the storage after the three `Store`s (left, right, parent)
    and both child objects.  (Nothing needs `ri = li + 1`.) -/
theorem MapMetaDataSlab_rebalanceChildren_eq_model (hE : EnvH (MDataSlab.eops r) T env) (hS : EnvS env) (d : Nat)
    (m : MMetaSlab (MTree r d)) (x : Option X) (l rr : MTree r d) (li ri : Nat) (b : Bool) (c : Ctx)
    (hli : li < m.childHdrs.length) (hri : ri < m.childHdrs.length) (hok : msl_RebalanceOK T d l rr b) :
    MapMetaDataSlab_rebalanceChildren env (cMeta m x) c (cTree d l) (cTree d rr) (Int.ofNat li) (Int.ofNat ri) b =
      match MMetaSlab.rebalanceChildren T m l rr li ri b c with
      | .error e => some (some e, cMeta m x, c, cTree d l, cTree d rr)
      | .ok (m', c') =>
        some (none, cMeta m' x, c', cTree d (msl_rebalanced T d l rr b).1, cTree d (msl_rebalanced T d l rr b).2) := by
  have hstep := msl_rebalance_step T env hE d l rr b hok
  have hl : goInRange (cMeta m x).childrenHeaders (Int.ofNat li) = true :=
    msl_goInRange_ofNat _ _ (by simp only [cMeta, List.length_map]; exact hli)
  simp only [MapMetaDataSlab_rebalanceChildren, MMetaSlab.rebalanceChildren, msl_rebalanced]
  cases b with
  | true =>
    simp only [↓reduceIte] at hstep ⊢
    rw [hstep]
    cases hres : MTree.borrowFromRight T d l rr with
    | error e => simp only [bind, Except.bind, Option.isNone_some, Bool.not_false, if_true]
    | ok p =>
      obtain ⟨l', r'⟩ := p
      have hr : goInRange ((m.childHdrs.set li (MTree.hdr d l')).map cHdr) (Int.ofNat ri) = true :=
        msl_goInRange_ofNat _ _ (by rw [List.length_map, List.length_set]; exact hri)
      simp only [bind, Except.bind, pure, Except.pure, Option.isNone_none, Bool.not_true, Bool.false_eq_true, if_false,
        MapSlab_Header_cTree, hl, if_true, msl_intOfNat_toNat, int_deq_zero]
      simp only [cMeta, msl_cHdr_set, hr, if_true]
      by_cases h0 : li = 0
      · simp only [h0, decide_true, if_true, msl_storeSlab_cTree env hS, msl_storeSlab_meta env hS, Option.isNone_none,
          Bool.not_true, Bool.false_eq_true, if_false, beq_self_eq_true]
        simp only [cHdr]
      · simp only [h0, decide_false, Bool.false_eq_true, if_false, msl_storeSlab_cTree env hS, msl_storeSlab_meta env hS,
          Option.isNone_none, Bool.not_true, beq_iff_eq]
        simp only [cHdr]
  | false =>
    simp only [Bool.false_eq_true, ↓reduceIte] at hstep ⊢
    rw [hstep]
    cases hres : MTree.lendToRight T d l rr with
    | error e => simp only [bind, Except.bind, Option.isNone_some, Bool.not_false, if_true]
    | ok p =>
      obtain ⟨l', r'⟩ := p
      have hr : goInRange ((m.childHdrs.set li (MTree.hdr d l')).map cHdr) (Int.ofNat ri) = true :=
        msl_goInRange_ofNat _ _ (by rw [List.length_map, List.length_set]; exact hri)
      simp only [bind, Except.bind, pure, Except.pure, Option.isNone_none, Bool.not_true, Bool.false_eq_true, if_false,
        MapSlab_Header_cTree, hl, if_true, msl_intOfNat_toNat, int_deq_zero]
      simp only [cMeta, msl_cHdr_set, hr, if_true]
      by_cases h0 : li = 0
      · simp only [h0, decide_true, if_true, msl_storeSlab_cTree env hS, msl_storeSlab_meta env hS, Option.isNone_none,
          Bool.not_true, Bool.false_eq_true, if_false, beq_self_eq_true]
        simp only [cHdr]
      · simp only [h0, decide_false, Bool.false_eq_true, if_false, msl_storeSlab_cTree env hS, msl_storeSlab_meta env hS,
          Option.isNone_none, Bool.not_true, beq_iff_eq]
        simp only [cHdr]

/-! ## `mergeChildren` -/

/-- `MapMetaDataSlab.mergeChildren` = `MMetaSlab.mergeChildren`: never an error; the parent in full (child header `li`
    := the merged slab's, child header `ri` deleted, header size - 18, the first key when the left child is child 0),
    the storage after `Store` merged, `Store` parent, `Remove` right (in this order), and the left child object, which
    is now the merged slab.  Needs: the parent's header size covers one child header (otherwise Go's
    `m.header.size -= mapSlabHeaderSize` wraps around and the model's truncated subtraction gives 0).
    (Nothing needs `ri = li + 1`.) -/
theorem MapMetaDataSlab_mergeChildren_eq_model (hS : EnvS env) (d : Nat)
    (m : MMetaSlab (MTree r d)) (x : Option X) (l rr : MTree r d) (li ri : Nat) (c : Ctx)
    (hli : li < m.childHdrs.length) (hri : ri < m.childHdrs.length)
    (hsz : Gen.mapSlabHeaderSize ≤ m.hdr.size) (hok : msl_MergeOK d l rr) :
    MapMetaDataSlab_mergeChildren env (cMeta m x) c (cTree d l) (cTree d rr) (Int.ofNat li) (Int.ofNat ri) =
      some (none, cMeta (MMetaSlab.mergeChildren m l rr li ri c).1 x, (MMetaSlab.mergeChildren m l rr li ri c).2,
        cTree d (MTree.merge d l rr)) := by
  have hm := MapSlab_Merge_eq_model env d l rr hok
  have hu := MapMetaDataSlab_updateChildrenHeadersAfterMerge_eq' (V := V) env m x (MTree.hdr d (MTree.merge d l rr)) li ri
    hli hri
  simp only [MapMetaDataSlab_mergeChildren, MMetaSlab.mergeChildren, hm, Option.isNone_none, Bool.not_true,
    Bool.false_eq_true, if_false, MapSlab_Header_cTree, hu, int_deq_zero, MapSlab_SlabID_cTree]
  by_cases h0 : li = 0
  · simp only [h0, decide_true, if_true, msl_storeSlab_cTree env hS, msl_storeSlab_meta env hS, Option.isNone_none,
      Bool.not_true, Bool.false_eq_true, if_false, beq_self_eq_true, hS.remove]
    simp only [cMeta, cHdr, u32, UInt32.ofNat_sub hsz]
  · simp only [h0, decide_false, Bool.false_eq_true, if_false, msl_storeSlab_cTree env hS, msl_storeSlab_meta env hS,
      Option.isNone_none, Bool.not_true, beq_iff_eq, hS.remove]
    simp only [cMeta, cHdr, u32, UInt32.ofNat_sub hsz]

/-! ## `MergeOrRebalanceChildSlab` -/

theorem msl_goIdx_map_ofNat {β γ : Type} (f : β → γ) (l : List β) (i : Nat) :
    goIdx (l.map f) (Int.ofNat i) = (l[i]?).map f := by
  have h : ¬ (Int.ofNat i < 0) := by simp only [Int.ofNat_eq_natCast]; omega
  simp only [goIdx, if_neg h, msl_intOfNat_toNat, List.getElem?_map]

theorem msl_int_dgt0 (k : Nat) : decide (Int.ofNat k > (0 : Int)) = decide (k > 0) := by
  simp only [Int.ofNat_eq_natCast, gt_iff_lt, Int.natCast_pos]

theorem msl_int_dlt_pred (k n : Nat) : decide (Int.ofNat k < Int.ofNat n - (1 : Int)) = decide (k + 1 < n) := by
  simp only [Int.ofNat_eq_natCast, decide_eq_decide]; omega

theorem msl_intOfNat_pred (k : Nat) (h : 0 < k) : Int.ofNat k - (1 : Int) = Int.ofNat (k - 1) := by
  simp only [Int.ofNat_eq_natCast]; omega

/-- `getMapSlab` when the storage has the slab: the slab, no error, the storage as `Retrieve` leaves it -/
theorem msl_getMapSlab_cTree (c : Ctx) (id : SlabID) (d : Nat) (t : MTree r d)
    (h : env.SlabStorage_Retrieve c id = (cTree d t, true, none, c)) :
    getMapSlab env c id = (cTree d t, none, c) := by
  simp only [getMapSlab, h, Option.isNone_none, Bool.not_true, Bool.false_eq_true, if_false, msl_cTree_isNil, Bool.not_false]

/-- merging with the nil interface value: the type assertion panics -/
theorem MapSlab_Merge_nil (d : Nat) (t : MTree r d) : MapSlab_Merge env (cTree d t) .nil = none := by
  cases d <;> rfl

theorem MMetaSlab.msl_rebalanceChildren_error (d : Nat) (m : MMetaSlab (MTree r d)) (l rr : MTree r d) (li ri : Nat) (b : Bool)
    (c : Ctx) (e : MErr) (h : MMetaSlab.rebalanceChildren T m l rr li ri b c = .error e) : e = .slabRebalance := by
  cases b with
  | true =>
    simp only [MMetaSlab.rebalanceChildren, ↓reduceIte] at h
    cases hres : MTree.borrowFromRight T d l rr with
    | error e' =>
      rw [hres] at h; cases h
      exact MTree.msl_borrowFromRight_error T d l rr e hres
    | ok p => rw [hres] at h; cases h
  | false =>
    simp only [MMetaSlab.rebalanceChildren, Bool.false_eq_true, ↓reduceIte] at h
    cases hres : MTree.lendToRight T d l rr with
    | error e' =>
      rw [hres] at h; cases h
      exact MTree.msl_lendToRight_error T d l rr e hres
    | ok p => rw [hres] at h; cases h

/-- the child object after `MergeOrRebalanceChildSlab`: the left slab when the child is the left operand (of the
    rebalance or of the merge), the updated right slab in a rebalance with the left sibling, and UNCHANGED when it is
    merged into its left sibling (the merged slab is the left sibling's object) -/
def msl_morChild (T : Nat) (d : Nat) (m : MMetaSlab (MTree r d)) (child : MTree r d) (k u : Nat) : MTree r d :=
  let leftSib : Option (MTree r d) := if k > 0 then m.children[k - 1]? else none
  let rightSib : Option (MTree r d) := if k + 1 < m.childHdrs.length then m.children[k + 1]? else none
  let leftCanLend := match leftSib with | some l => MTree.canLendToRight T d l u | none => false
  let rightCanLend := match rightSib with | some x => MTree.canLendToLeft T d x u | none => false
  if leftCanLend || rightCanLend then
    match leftSib, rightSib with
    | some l, some x =>
      if !leftCanLend then (msl_rebalanced T d child x true).1
      else if !rightCanLend then (msl_rebalanced T d l child false).2
      else if (MTree.hdr d l).size > (MTree.hdr d x).size then (msl_rebalanced T d l child false).2
      else (msl_rebalanced T d child x true).1
    | some l, none => (msl_rebalanced T d l child false).2
    | none, some x => (msl_rebalanced T d child x true).1
    | none, none => child
  else
    match leftSib, rightSib with
    | none, some x => MTree.merge d child x
    | some _, none => child
    | some l, some x => if (MTree.hdr d l).size < (MTree.hdr d x).size then child else MTree.merge d child x
    | none, none => child

/-- closes a rebalance leaf of `MergeOrRebalanceChildSlab`: rewrite the call of the generated `rebalanceChildren` with
    its theorem, then both sides are matches on the model's result (whose only error is `slabRebalance`) -/
local macro "mor_rebalance " thm:term ", " mdl:term ", " herr:term : tactic =>
  `(tactic| (rw [$thm:term]; cases hres : $mdl:term with
      | error e => rw [$herr:term e hres]
      | ok p => rfl))

set_option linter.unusedSimpArgs false in
/-- `MapMetaDataSlab.MergeOrRebalanceChildSlab` = `MMetaSlab.mergeOrRebalanceChildSlab`, the whole 3 x 3 decision table
    (which siblings exist x who can lend): the error class, the parent IN FULL, the storage state (every effect, in
    order) and the child object (`msl_morChild`).  The model's `.error .goPanic` ("no sibling at all") is the generated
    `none` (Go: `Merge` of the child with the nil interface value, a failed type assertion); the only other error is
    the `SlabRebalanceError` of the data-slab rebalance, which leaves parent, storage and child untouched.
    Hypotheses:
    * `hlen`, `hk`: the model's embedded children match the headers; the child index is in range;
    * `hsz`: the parent's header size covers one child header (FORCED, merges only: Go's `size -= 18` wraps around,
      the model's truncated subtraction gives 0);
    * `hret`: the storage returns the SIBLINGS `k - 1`, `k + 1` (not child `k`: its stored version is stale) and is
      left unchanged by `Retrieve`;
    * `hcr`, `hcl`: the two untranslated decision methods `CanLendToRight` (left sibling) / `CanLendToLeft` (right
      sibling) decide as the model does;
    * `hsize`: the siblings' header sizes fit `uint32` (the two `ByteSize` comparisons);
    * `hLend`, `hBorrow`: the hypotheses of the slab-level rebalance theorems, only for a sibling that can lend;
      `hMergeL`, `hMergeR`: those of the merge theorems. -/
theorem MapMetaDataSlab_MergeOrRebalanceChildSlab_eq_model (hE : EnvH (MDataSlab.eops r) T env) (hS : EnvS env) (d : Nat)
    (m : MMetaSlab (MTree r d)) (x : Option X) (child : MTree r d) (k u : Nat) (c : Ctx)
    (hlen : m.children.length = m.childHdrs.length) (hk : k < m.childHdrs.length)
    (hsz : Gen.mapSlabHeaderSize ≤ m.hdr.size)
    (hret : ∀ i t h, (i + 1 = k ∨ i = k + 1) → m.children[i]? = some t → m.childHdrs[i]? = some h →
      env.SlabStorage_Retrieve c h.id = (cTree d t, true, none, c))
    (hcr : ∀ t, 0 < k → m.children[k - 1]? = some t →
      env.MapSlab_CanLendToRight (cTree d t) (u32 u) = MTree.canLendToRight T d t u)
    (hcl : ∀ t, m.children[k + 1]? = some t →
      env.MapSlab_CanLendToLeft (cTree d t) (u32 u) = MTree.canLendToLeft T d t u)
    (hsize : ∀ i t, (i + 1 = k ∨ i = k + 1) → m.children[i]? = some t → (MTree.hdr d t).size < 2^32)
    (hLend : ∀ t, 0 < k → m.children[k - 1]? = some t → MTree.canLendToRight T d t u = true → msl_LendOK T d t child)
    (hBorrow : ∀ t, m.children[k + 1]? = some t → MTree.canLendToLeft T d t u = true → msl_BorrowOK T d child t)
    (hMergeL : ∀ t, 0 < k → m.children[k - 1]? = some t → msl_MergeOK d t child)
    (hMergeR : ∀ t, m.children[k + 1]? = some t → msl_MergeOK d child t) :
    MapMetaDataSlab_MergeOrRebalanceChildSlab env (cMeta m x) c (cTree d child) (Int.ofNat k) (u32 u) =
      match MMetaSlab.mergeOrRebalanceChildSlab T m child k u c with
      | .error .goPanic => none
      | .error e => some (some e, cMeta m x, c, cTree d child)
      | .ok (m', c') => some (none, cMeta m' x, c', cTree d (msl_morChild T d m child k u)) := by
  have hcm : (cMeta m x).childrenHeaders = m.childHdrs.map cHdr := rfl
  have isNil_nil : (MapSlab.nil : MapSlab (MElemF (MElems r)) V X).isNil = true := rfl
  simp only [MapMetaDataSlab_MergeOrRebalanceChildSlab, MMetaSlab.mergeOrRebalanceChildSlab, msl_morChild, hcm,
    List.length_map, msl_int_dgt0, msl_int_dlt_pred, msl_intOfNat_succ]
  by_cases hk0 : 0 < k
  · have hp := msl_intOfNat_pred k hk0
    have hlc' : k - 1 < m.children.length := by omega
    have hlh' : k - 1 < m.childHdrs.length := by omega
    have hls : m.children[k - 1]? = some (m.children[k - 1]) := List.getElem?_eq_getElem hlc'
    have hlh : m.childHdrs[k - 1]? = some (m.childHdrs[k - 1]) := List.getElem?_eq_getElem hlh'
    generalize m.children[k - 1] = ls at hls
    generalize m.childHdrs[k - 1] = lh at hlh
    have hgl : getMapSlab env c (cHdr lh).slabID = (cTree d ls, none, c) :=
      msl_getMapSlab_cTree env c _ d ls (hret (k - 1) ls lh (Or.inl (by omega)) hls hlh)
    have hcr' := hcr ls hk0 hls
    by_cases hkr : k + 1 < m.childHdrs.length
    · -- both siblings
      have hxc : k + 1 < m.children.length := by omega
      have hxs : m.children[k + 1]? = some (m.children[k + 1]) := List.getElem?_eq_getElem hxc
      have hxh : m.childHdrs[k + 1]? = some (m.childHdrs[k + 1]) := List.getElem?_eq_getElem hkr
      generalize m.children[k + 1] = xs at hxs
      generalize m.childHdrs[k + 1] = xh at hxh
      have hgx : getMapSlab env c (cHdr xh).slabID = (cTree d xs, none, c) :=
        msl_getMapSlab_cTree env c _ d xs (hret (k + 1) xs xh (Or.inr rfl) hxs hxh)
      have hcl' := hcl xs hxs
      have hsl := hsize (k - 1) ls (Or.inl (by omega)) hls
      have hsx := hsize (k + 1) xs (Or.inr rfl) hxs
      simp only [gt_iff_lt, hk0, hkr, decide_true, decide_false, if_true, if_false, Bool.false_eq_true, msl_goIdx_map_ofNat, Option.map_some, Option.isNone_none, Bool.not_true, Bool.not_false, isNil_nil, msl_cTree_isNil, Bool.true_and, Bool.false_and, hp, hlh, hls, hgl, hcr', hxh, hxs, hgx, hcl', MapSlab_ByteSize_cTree, u32_dgt hsl hsx,
        u32_dlt hsl hsx]
      cases hlc : MTree.canLendToRight T d ls u <;> cases hrc : MTree.canLendToLeft T d xs u <;>
        simp only [Bool.or_false, Bool.or_true, Bool.false_or, Bool.true_or, Bool.not_true, Bool.not_false, if_true, if_false, Bool.false_eq_true]
      · -- neither can lend: merge with the smaller sibling
        by_cases hlt : (MTree.hdr d ls).size < (MTree.hdr d xs).size
        · simp only [hlt, decide_true, if_true]
          rw [MapMetaDataSlab_mergeChildren_eq_model env hS d m x ls child (k - 1) k c hlh' hk hsz (hMergeL ls hk0 hls)]
        · simp only [hlt, decide_false, if_false, Bool.false_eq_true]
          rw [MapMetaDataSlab_mergeChildren_eq_model env hS d m x child xs k (k + 1) c hk hkr hsz (hMergeR xs hxs)]
      · mor_rebalance (MapMetaDataSlab_rebalanceChildren_eq_model T env hE hS d m x child xs k (k + 1) true c hk hkr
            (hBorrow xs hxs hrc)), (MMetaSlab.rebalanceChildren T m child xs k (k + 1) true c),
            (MMetaSlab.msl_rebalanceChildren_error T d m child xs k (k + 1) true c)
      · mor_rebalance (MapMetaDataSlab_rebalanceChildren_eq_model T env hE hS d m x ls child (k - 1) k false c hlh' hk
            (hLend ls hk0 hls hlc)), (MMetaSlab.rebalanceChildren T m ls child (k - 1) k false c),
            (MMetaSlab.msl_rebalanceChildren_error T d m ls child (k - 1) k false c)
      · -- both can lend: rebalance with the bigger sibling
        by_cases hgt : (MTree.hdr d ls).size > (MTree.hdr d xs).size
        · simp only [hgt, decide_true, if_true]
          mor_rebalance (MapMetaDataSlab_rebalanceChildren_eq_model T env hE hS d m x ls child (k - 1) k false c hlh' hk
            (hLend ls hk0 hls hlc)), (MMetaSlab.rebalanceChildren T m ls child (k - 1) k false c),
            (MMetaSlab.msl_rebalanceChildren_error T d m ls child (k - 1) k false c)
        · simp only [hgt, decide_false, if_false, Bool.false_eq_true]
          mor_rebalance (MapMetaDataSlab_rebalanceChildren_eq_model T env hE hS d m x child xs k (k + 1) true c hk hkr
            (hBorrow xs hxs hrc)), (MMetaSlab.rebalanceChildren T m child xs k (k + 1) true c),
            (MMetaSlab.msl_rebalanceChildren_error T d m child xs k (k + 1) true c)
    · -- only the left sibling
      simp only [gt_iff_lt, hk0, hkr, decide_true, decide_false, if_true, if_false, Bool.false_eq_true, msl_goIdx_map_ofNat, Option.map_some, Option.isNone_none, Bool.not_true, Bool.not_false, isNil_nil, msl_cTree_isNil, Bool.true_and, Bool.false_and, hp, hlh, hls, hgl, hcr']
      cases hlc : MTree.canLendToRight T d ls u <;> simp only [Bool.or_false, Bool.or_true, Bool.false_or, Bool.true_or, Bool.not_true, Bool.not_false, if_true, if_false, Bool.false_eq_true]
      · rw [MapMetaDataSlab_mergeChildren_eq_model env hS d m x ls child (k - 1) k c hlh' hk hsz (hMergeL ls hk0 hls)]
      · mor_rebalance (MapMetaDataSlab_rebalanceChildren_eq_model T env hE hS d m x ls child (k - 1) k false c hlh' hk
            (hLend ls hk0 hls hlc)), (MMetaSlab.rebalanceChildren T m ls child (k - 1) k false c),
            (MMetaSlab.msl_rebalanceChildren_error T d m ls child (k - 1) k false c)
  · by_cases hkr : k + 1 < m.childHdrs.length
    · -- only the right sibling
      have hxc : k + 1 < m.children.length := by omega
      have hxs : m.children[k + 1]? = some (m.children[k + 1]) := List.getElem?_eq_getElem hxc
      have hxh : m.childHdrs[k + 1]? = some (m.childHdrs[k + 1]) := List.getElem?_eq_getElem hkr
      generalize m.children[k + 1] = xs at hxs
      generalize m.childHdrs[k + 1] = xh at hxh
      have hgx : getMapSlab env c (cHdr xh).slabID = (cTree d xs, none, c) :=
        msl_getMapSlab_cTree env c _ d xs (hret (k + 1) xs xh (Or.inr rfl) hxs hxh)
      have hcl' := hcl xs hxs
      simp only [gt_iff_lt, hk0, hkr, decide_true, decide_false, if_true, if_false, Bool.false_eq_true, msl_goIdx_map_ofNat, Option.map_some, Option.isNone_none, Bool.not_true, Bool.not_false, isNil_nil, msl_cTree_isNil, Bool.true_and, Bool.false_and, hxh, hxs, hgx, hcl']
      cases hrc : MTree.canLendToLeft T d xs u <;> simp only [Bool.or_false, Bool.or_true, Bool.false_or, Bool.true_or, Bool.not_true, Bool.not_false, if_true, if_false, Bool.false_eq_true]
      · rw [MapMetaDataSlab_mergeChildren_eq_model env hS d m x child xs k (k + 1) c hk hkr hsz (hMergeR xs hxs)]
      · mor_rebalance (MapMetaDataSlab_rebalanceChildren_eq_model T env hE hS d m x child xs k (k + 1) true c hk hkr
            (hBorrow xs hxs hrc)), (MMetaSlab.rebalanceChildren T m child xs k (k + 1) true c),
            (MMetaSlab.msl_rebalanceChildren_error T d m child xs k (k + 1) true c)
    · -- no sibling at all: `Merge` with the nil interface value panics
      simp only [gt_iff_lt, hk0, hkr, decide_true, decide_false, if_true, if_false, Bool.false_eq_true, msl_goIdx_map_ofNat, Option.map_some, Option.isNone_none, Bool.not_true, Bool.not_false, isNil_nil, msl_cTree_isNil, Bool.true_and, Bool.false_and, Bool.or_false, MapMetaDataSlab_mergeChildren, MapSlab_Merge_nil]

/-- "no sibling at all" (a parent with a single child): the generated code panics (`none`), the model reports
    `.goPanic` - no further hypothesis -/
theorem MapMetaDataSlab_MergeOrRebalanceChildSlab_no_sibling (d : Nat)
    (m : MMetaSlab (MTree r d)) (x : Option X) (child : MTree r d) (u : Nat) (c : Ctx)
    (hone : m.childHdrs.length = 1) :
    MapMetaDataSlab_MergeOrRebalanceChildSlab env (cMeta m x) c (cTree d child) (Int.ofNat 0) (u32 u) = none ∧
    MMetaSlab.mergeOrRebalanceChildSlab T m child 0 u c = .error .goPanic := by
  have hcm : (cMeta m x).childrenHeaders = m.childHdrs.map cHdr := rfl
  have isNil_nil : (MapSlab.nil : MapSlab (MElemF (MElems r)) V X).isNil = true := rfl
  constructor
  · simp only [MapMetaDataSlab_MergeOrRebalanceChildSlab, hcm, List.length_map, msl_int_dgt0, msl_int_dlt_pred, hone,
      gt_iff_lt, Nat.lt_irrefl, decide_false, Bool.false_eq_true, if_false, isNil_nil, Bool.not_true, Bool.false_and,
      Bool.or_false, if_true, MapMetaDataSlab_mergeChildren, MapSlab_Merge_nil]
  · simp only [MMetaSlab.mergeOrRebalanceChildSlab, hone, gt_iff_lt, Nat.lt_irrefl, if_false, Bool.or_false,
      Bool.false_eq_true]

end tree

/-! ## non-vacuity: a parent with three index-slab children (depth 1), T = 100 (`minThreshold` = 50) -/

section examples

/-- grandchild header `i` -/
private def msl_hdrG (i : Nat) : MHdr := { id := ⟨1, 100 + i⟩, size := 60, firstKey := 10 * i }

/-- an index slab (a subtree root of depth 1) with slab ID (1, id) and the child headers `is`; the model's embedded
    grandchildren play no role at this level -/
private def msl_sibEx (id : Nat) (is : List Nat) : MTree 0 1 :=
  ({ hdr := { id := ⟨1, id⟩, size := 12 + 18 * is.length, firstKey := 10 * is.headD 0 },
     childHdrs := is.map msl_hdrG, children := [], root := false } : MMetaSlab (MTree 0 0))

/-- the parent (1, 9) of the children `cs` -/
private def msl_parentEx (cs : List (MTree 0 1)) : MMetaSlab (MTree 0 1) :=
  { hdr := { id := ⟨1, 9⟩, size := 12 + 18 * cs.length, firstKey := ((cs.map (MTree.hdr 1)).headD default).firstKey },
    childHdrs := cs.map (MTree.hdr 1), children := cs, root := true }

/-- Go's `MapMetaDataSlab.CanLendToLeft / CanLendToRight` on an index slab (threshold 100) -/
private def msl_canLendEx (s : MapSlab (MElemF (MElems 0)) Unit Unit) (w : UInt32) : Bool :=
  match s with
  | .metaSlab o =>
    let n := (w.toNat + 17) / 18
    if o.header.size.toNat ≥ 18 * n then o.header.size.toNat - 18 * n > 50 else false
  | _ => false

/-- the model's environment with a storage that holds the slabs `heap` -/
private def msl_envT (heap : List (MTree 0 1)) : Env (MElemF (MElems 0)) Unit Unit Unit Ctx GE :=
  { envMap (MDataSlab.eops 0) 100 1 with
    SlabStorage_Retrieve := fun c id =>
      match heap.find? (fun t => (MTree.hdr 1 t).id == id) with
      | some t => (cTree 1 t, true, none, c)
      | none => (.nil, false, none, c)
    MapSlab_CanLendToLeft := msl_canLendEx
    MapSlab_CanLendToRight := msl_canLendEx }

private theorem msl_envT_EnvH (heap : List (MTree 0 1)) : EnvH (MDataSlab.eops 0) 100 (msl_envT heap) :=
  ⟨fun _ => rfl, rfl, rfl, rfl, rfl, rfl, rfl⟩
private theorem msl_envT_EnvS (heap : List (MTree 0 1)) : EnvS (msl_envT heap) := ⟨fun _ _ => rfl, fun _ _ _ => rfl, fun _ _ => rfl, rfl⟩

/-- what the examples look at: error, the parent's size / first key / child IDs and sizes, the effects, the child's
    slab ID and number of child headers -/
private def msl_obsR (res : Option (Option GE × MapMetaDataSlab Unit × Ctx × MapSlab (MElemF (MElems 0)) Unit Unit)) :
    Option (Option GE × Nat × Nat × List (Nat × Nat) × List Eff × Option (Nat × Nat)) :=
  res.map fun p =>
    (p.1, p.2.1.header.size.toNat, p.2.1.header.firstKey.toNat,
      p.2.1.childrenHeaders.map (fun h => (h.slabID.idx, h.size.toNat)), p.2.2.1.eff,
      match p.2.2.2 with
      | .metaSlab o => some (o.header.slabID.idx, o.childrenHeaders.length)
      | _ => none)

private def msl_lEx := msl_sibEx 1 [1, 2, 3, 4, 5]
private def msl_cEx := msl_sibEx 2 [6]
private def msl_rEx := msl_sibEx 3 [7, 8, 9]
private def msl_c0 : Ctx := ⟨40, [], []⟩

/-- child 1 of 3 underflows by 20; the left sibling (5 children, 102 bytes) can lend, the right one (3 children, 66
    bytes) cannot: rebalance with the left sibling, 5 + 1 -> 3 + 3; the returned child is the updated right operand.
    The theorem applies (all its hypotheses hold) ... -/
example : MapMetaDataSlab_MergeOrRebalanceChildSlab (msl_envT [msl_lEx, msl_rEx]) (cMeta (msl_parentEx [msl_lEx, msl_cEx, msl_rEx]) none) msl_c0
      (cTree 1 msl_cEx) (Int.ofNat 1) (u32 20) =
    match MMetaSlab.mergeOrRebalanceChildSlab 100 (msl_parentEx [msl_lEx, msl_cEx, msl_rEx]) msl_cEx 1 20 msl_c0 with
    | .error .goPanic => none
    | .error e => some (some e, cMeta (msl_parentEx [msl_lEx, msl_cEx, msl_rEx]) none, msl_c0, cTree 1 msl_cEx)
    | .ok (m', c') => some (none, cMeta m' none, c', cTree 1 (msl_morChild 100 1 (msl_parentEx [msl_lEx, msl_cEx, msl_rEx]) msl_cEx 1 20)) := by
  refine MapMetaDataSlab_MergeOrRebalanceChildSlab_eq_model 100 _ (msl_envT_EnvH _) (msl_envT_EnvS _) 1 _ none msl_cEx 1 20 msl_c0
    (by decide) (by decide) (by decide) ?_ ?_ ?_ ?_ ?_ ?_ ?_ ?_
  · intro i t h hi ht hh
    rcases hi with hi | hi
    · obtain rfl : i = 0 := by omega
      cases ht; cases hh; rfl
    · subst hi
      cases ht; cases hh; rfl
  · intro t _ ht; cases ht; decide
  · intro t ht; cases ht; decide
  · intro i t hi ht
    rcases hi with hi | hi
    · obtain rfl : i = 0 := by omega
      cases ht; decide
    · subst hi; cases ht; decide
  · intro t _ ht _; cases ht; exact ⟨by decide, by decide⟩
  · intro t ht hc; cases ht; exact absurd hc (by decide)
  · intro t _ ht; cases ht; exact (by decide : (12 : Nat) ≤ 30)
  · intro t ht; cases ht; exact (by decide : (12 : Nat) ≤ 66)

/-- ... and the generated code evaluated: parent size unchanged (66), children (1, 66) (2, 66) (3, 66), the three
    `Store`s left - right - parent, the child is slab 2 with 3 child headers now -/
example : msl_obsR (MapMetaDataSlab_MergeOrRebalanceChildSlab (msl_envT [msl_lEx, msl_rEx]) (cMeta (msl_parentEx [msl_lEx, msl_cEx, msl_rEx]) none) msl_c0
      (cTree 1 msl_cEx) (Int.ofNat 1) (u32 20)) =
    some (none, 66, 10, [(1, 66), (2, 66), (3, 66)], [.store ⟨1, 1⟩, .store ⟨1, 2⟩, .store ⟨1, 9⟩], some (2, 3)) := by
  rfl

/-- neither sibling can lend (left: 2 children, 48 bytes; right: 3 children, 66 bytes): the child is merged INTO its
    smaller left sibling - parent size 66 - 18, children (1, 66) (3, 66), effects `Store` merged - `Store` parent -
    `Remove` child, and the returned child object is UNCHANGED (slab 2, 1 child header), in Go as in the model -/
example : msl_obsR (MapMetaDataSlab_MergeOrRebalanceChildSlab (msl_envT [msl_sibEx 1 [1, 2], msl_rEx])
      (cMeta (msl_parentEx [msl_sibEx 1 [1, 2], msl_cEx, msl_rEx]) none) msl_c0 (cTree 1 msl_cEx) (Int.ofNat 1) (u32 20)) =
    some (none, 48, 10, [(1, 66), (3, 66)], [.store ⟨1, 1⟩, .store ⟨1, 9⟩, .remove ⟨1, 2⟩], some (2, 1)) ∧
    (match MMetaSlab.mergeOrRebalanceChildSlab 100 (msl_parentEx [msl_sibEx 1 [1, 2], msl_cEx, msl_rEx]) msl_cEx 1 20 msl_c0 with
     | .ok (m', c') => some (m'.hdr.size, m'.childHdrs.map (fun h => (h.id.idx, h.size)), c'.eff)
     | .error _ => none) =
    some (48, [(1, 66), (3, 66)], [.store ⟨1, 1⟩, .store ⟨1, 9⟩, .remove ⟨1, 2⟩]) ∧
    (msl_morChild 100 1 (msl_parentEx [msl_sibEx 1 [1, 2], msl_cEx, msl_rEx]) msl_cEx 1 20 : MMetaSlab (MTree 0 0)).childHdrs.length = 1 :=
  ⟨by rfl, by rfl, by rfl⟩

/-- a parent with a single child: the generated code panics, the model says `.goPanic` -/
example : MapMetaDataSlab_MergeOrRebalanceChildSlab (msl_envT []) (cMeta (msl_parentEx [msl_cEx]) none) msl_c0 (cTree 1 msl_cEx)
      (Int.ofNat 0) (u32 20) = none ∧
    MMetaSlab.mergeOrRebalanceChildSlab 100 (msl_parentEx [msl_cEx]) msl_cEx 0 20 msl_c0 = .error .goPanic :=
  MapMetaDataSlab_MergeOrRebalanceChildSlab_no_sibling 100 _ 1 _ none msl_cEx 20 msl_c0 rfl

/-! ### where the code and the model part outside the hypotheses (concrete input) -/

/-- `mergeChildren` with a parent header size below one child header (here 10, hypothesis `hsz` violated): Go's
    `10 - 18` wraps around to `2^32 - 8`, the model's truncated subtraction gives 0 -/
example :
    let p : MMetaSlab (MTree 0 1) := { msl_parentEx [msl_cEx, msl_rEx] with hdr := { id := ⟨1, 9⟩, size := 10, firstKey := 60 } }
    (MapMetaDataSlab_mergeChildren (msl_envT []) (cMeta p none) msl_c0 (cTree 1 msl_cEx) (cTree 1 msl_rEx) (Int.ofNat 0)
      (Int.ofNat 1)).map (fun q => q.2.1.header.size.toNat) = some (2 ^ 32 - 8) ∧
    (MMetaSlab.mergeChildren p msl_cEx msl_rEx 0 1 msl_c0).1.hdr.size = 0 :=
  ⟨by rfl, by rfl⟩

end examples

end Atree.TransEq
