import AtreeProofs.Props.TransDescentExDefs
/-
  TRANSLATION EQUIVALENCE, the DESCENT (WP12): END-TO-END INSTANCES, checked by the kernel (`rfl`).

  For concrete arrays (slab size 256: min 128, max 384, elements up to 117 bytes inline) the GENERATED top-level
  operations `Array_Get / Array_set / Array_Insert / Array_Append / Array_remove` and `ArrayMetaDataSlab_PopIterate`
  (Gen/TransSlabs.lean, regenerated on every run) are run on the heap of a model array (`heapOf`), and what comes back -
  the Go results, the root of the handle, the `Ctx` (allocation counter, effects in order), the heap at every identifier
  in play - is compared with the model operation (`Arr.get / set / insert / append / remove`, `ATree.popIterate`) on the
  EMBEDDED tree: `heapOf` of the model's result.  The instances are chosen so that every branch of the descent runs:
  plain store, `SplitChildSlab`, rebalance, merge, merge + `promoteChildAsNewRoot`, `splitRoot`, the append path of
  `Insert`, the out-of-range exits.  They are the non-vacuity witnesses of `Props/TransDescent*.lean` and, being
  evaluations of the generated code, they break under a semantic change of the Go source on these paths.
-/
namespace Atree.TransEq
open Atree Atree.Gen

/-! ### Get -/

example : obs3 (TransSl.Array_Get (envH 256) 1 (trArrH exA (exSt exA)) 5) =
    some (some ⟨60, .val 11⟩, none, some (trTree 1 exA.root), ⟨5, [], []⟩, exIds.map (heapOf 1 exA.root)) := by rfl
example : exA.get 5 = .ok ⟨60, .val 11⟩ := by rfl
/-- out of range: `IndexOutOfBoundsError`, nothing touched -/
example : obs3 (TransSl.Array_Get (envH 256) 1 (trArrH exA (exSt exA)) 8) =
    some (none, some .indexOutOfBounds, some (trTree 1 exA.root), ⟨5, [], []⟩, exIds.map (heapOf 1 exA.root)) := by rfl
/-- the depth argument does not cover the tree: the generated code gives up -/
example : TransSl.Array_Get (envH 256) 0 (trArrH exA (exSt exA)) 5 = none := by rfl

/-! ### set -/

/-- plain store: the leaf and the root are stored -/
theorem Sl_Array_set_heap_ex_store :
    obs3 (TransSl.Array_set (envH 256) 1 (trArrH exA (exSt exA)) 5 (some ⟨70, .val 99⟩)) =
      exp3 (exA.set 256 5 ⟨70, .val 99⟩ (exSt exA).ctx) := by rfl
example : (exA.set 256 5 ⟨70, .val 99⟩ (exSt exA).ctx).toOption.map (fun r => (r.1, r.2.2.eff)) =
    some (⟨60, .val 11⟩, [.store ⟨1, 3⟩, .store ⟨1, 1⟩]) := by rfl
/-- the leaf becomes full: `SplitChildSlab` (a new slab `(1,6)`) -/
theorem Sl_Array_set_heap_ex_split :
    obs3 (TransSl.Array_set (envH 256) 1 (trArrH exB (exSt exB)) 3 (some ⟨110, .val 99⟩)) =
      exp3 (exB.set 256 3 ⟨110, .val 99⟩ (exSt exB).ctx) := by rfl
example : (exB.set 256 3 ⟨110, .val 99⟩ (exSt exB).ctx).toOption.map (fun r => (r.2.1.d, r.2.2.eff)) =
    some (1, [.store ⟨1, 2⟩, .alloc 1 ⟨1, 6⟩, .store ⟨1, 2⟩, .store ⟨1, 6⟩, .store ⟨1, 1⟩]) := by rfl
/-- the leaf underflows, its sibling cannot lend: merge, the root is left with one child: `promoteChildAsNewRoot` -/
theorem Sl_Array_set_heap_ex_merge_promote :
    obs3 (TransSl.Array_set (envH 256) 1 (trArrH exC (exSt exC)) 0 (some ⟨1, .val 99⟩)) =
      exp3 (exC.set 256 0 ⟨1, .val 99⟩ (exSt exC).ctx) := by rfl
example : (exC.set 256 0 ⟨1, .val 99⟩ (exSt exC).ctx).toOption.map (fun r => (r.2.1.d, r.2.2.eff)) =
    some (0, [.store ⟨1, 2⟩, .store ⟨1, 2⟩, .store ⟨1, 1⟩, .remove ⟨1, 3⟩, .store ⟨1, 1⟩, .remove ⟨1, 2⟩]) := by rfl
/-- a root data slab becomes full: `splitRoot` (depth 0 -> 1) -/
theorem Sl_Array_set_heap_ex_splitRoot :
    obs3 (TransSl.Array_set (envH 256) 0 (trArrH exD (exSt exD)) 3 (some ⟨110, .val 99⟩)) =
      exp3 (exD.set 256 3 ⟨110, .val 99⟩ (exSt exD).ctx) := by rfl
example : (exD.set 256 3 ⟨110, .val 99⟩ (exSt exD).ctx).toOption.map (fun r => r.2.1.d) = some 1 := by rfl
/-- an oversized value is externalised by `Value.Storable` (a reference is stored; the slab is recorded in `Ctx`) -/
theorem Sl_Array_set_heap_ex_external :
    obs3 (TransSl.Array_set (envH 256) 1 (trArrH exA (exSt exA)) 0 (some ⟨500, .val 99⟩)) =
      exp3 (exA.set 256 0 ⟨500, .val 99⟩ (exSt exA).ctx) := by rfl

/-! ### Insert / Append -/

/-- plain store -/
theorem Sl_Array_Insert_heap_ex_store :
    obs2 (TransSl.Array_Insert (envH 256) 1 (trArrH exA (exSt exA)) 5 (some ⟨70, .val 99⟩)) =
      exp2 (exA.insert 256 5 ⟨70, .val 99⟩ (exSt exA).ctx) := by rfl
/-- the leaf becomes full: `SplitChildSlab` -/
theorem Sl_Array_Insert_heap_ex_split :
    obs2 (TransSl.Array_Insert (envH 256) 1 (trArrH exB (exSt exB)) 1 (some ⟨100, .val 99⟩)) =
      exp2 (exB.insert 256 1 ⟨100, .val 99⟩ (exSt exB).ctx) := by rfl
/-- the append path (`index == count`: the last child, no routing) -/
theorem Sl_Array_Append_heap_ex :
    obs2 (TransSl.Array_Append (envH 256) 1 (trArrH exA (exSt exA)) (some ⟨70, .val 99⟩)) =
      exp2 (exA.append 256 ⟨70, .val 99⟩ (exSt exA).ctx) := by rfl
example : (exA.append 256 ⟨70, .val 99⟩ (exSt exA).ctx).toOption.map (fun r => (r.1.count, r.2.eff)) =
    some (9, [.store ⟨1, 4⟩, .store ⟨1, 1⟩]) := by rfl
/-- a root data slab becomes full: `splitRoot` -/
theorem Sl_Array_Insert_heap_ex_splitRoot :
    obs2 (TransSl.Array_Insert (envH 256) 0 (trArrH exD (exSt exD)) 2 (some ⟨100, .val 99⟩)) =
      exp2 (exD.insert 256 2 ⟨100, .val 99⟩ (exSt exD).ctx) := by rfl
/-- past the end: `IndexOutOfBoundsError`, nothing touched -/
example : obs2 (TransSl.Array_Insert (envH 256) 1 (trArrH exA (exSt exA)) 9 (some ⟨70, .val 99⟩)) =
    some (some .indexOutOfBounds, some (trTree 1 exA.root), ⟨5, [], []⟩, exIds.map (heapOf 1 exA.root)) := by rfl

/-! ### remove -/

/-- the leaf underflows, the left sibling lends: rebalance -/
theorem Sl_Array_remove_heap_ex_rebalance :
    obs3 (TransSl.Array_remove (envH 256) 1 (trArrH exA (exSt exA)) 4) = exp3 (exA.remove 256 4 (exSt exA).ctx) := by rfl
example : (exA.remove 256 4 (exSt exA).ctx).toOption.map (fun r => (r.1, r.2.2.eff)) =
    some (⟨60, .val 10⟩, [.store ⟨1, 3⟩, .store ⟨1, 2⟩, .store ⟨1, 3⟩, .store ⟨1, 1⟩, .store ⟨1, 1⟩]) := by rfl
/-- no underflow: plain store -/
theorem Sl_Array_remove_heap_ex_store :
    obs3 (TransSl.Array_remove (envH 256) 1 (trArrH exA (exSt exA)) 0) = exp3 (exA.remove 256 0 (exSt exA).ctx) := by rfl
/-- merge, then the single child is promoted to root (depth 1 -> 0) -/
theorem Sl_Array_remove_heap_ex_merge_promote :
    obs3 (TransSl.Array_remove (envH 256) 1 (trArrH exC (exSt exC)) 0) = exp3 (exC.remove 256 0 (exSt exC).ctx) := by rfl
example : (exC.remove 256 0 (exSt exC).ctx).toOption.map (fun r => r.2.1.d) = some 0 := by rfl

/-! ### PopIterate -/

/-- every leaf is popped (last to first) and removed; the emptied index slab is NOT stored (its caller replaces it) -/
theorem Sl_ArrayMetaDataSlab_PopIterate_heap_ex :
    (TransSl.ArrayMetaDataSlab_PopIterate (envH 256) 1 (trMeta exA.root) (exSt exA) []).map
        (fun r => (r.1, r.2.1, r.2.2.1.ctx, exIds.map r.2.2.1.heap, r.2.2.2)) =
      (let r := ATree.popIterate 1 exA.root (exSt exA).ctx
       some (none, trMeta (r.2.1 : MetaSlab (ATree 0)), r.2.2,
         exIds.map (fun id => if id = ⟨1, 1⟩ then some (.metaSlab (trMeta exA.root)) else none), r.1.map some)) := by rfl
example : (ATree.popIterate 1 exA.root (exSt exA).ctx).1.map (·.pay) =
    [.val 21, .val 20, .val 11, .val 10, .val 3, .val 2, .val 1, .val 0] := by rfl
example : (ATree.popIterate 1 exA.root (exSt exA).ctx).2.2.eff = [.remove ⟨1, 4⟩, .remove ⟨1, 3⟩, .remove ⟨1, 2⟩] := by rfl

/-- `Array.PopIterate` at the top level: the elements last to first, every slab below the root removed, the root replaced
    by an EMPTY root data slab under the same identifier, which is stored -/
theorem Sl_Array_PopIterate_heap_ex :
    (TransSl.Array_PopIterate (envH 256) 1 (trArrH exA (exSt exA)) []).map
        (fun r => (r.1, r.2.1.root, r.2.1.Storage.ctx, exIds.map r.2.1.Storage.heap, r.2.2)) =
      (let r := exA.popIterate (exSt exA).ctx
       some (none, some (trTree r.2.1.d r.2.1.root), r.2.2, exIds.map (heapOf r.2.1.d r.2.1.root), r.1.map some)) := by rfl
example : (exA.popIterate (exSt exA).ctx).2.2.eff = [.remove ⟨1, 4⟩, .remove ⟨1, 3⟩, .remove ⟨1, 2⟩, .store ⟨1, 1⟩] := by rfl

/-- the descent targets are in the table of the translator (and translated: `Sl_all_translated`) -/
theorem Sl_descent_targets :
    ["ArrayMetaDataSlab_Get", "ArrayMetaDataSlab_Set", "ArrayMetaDataSlab_Insert", "ArrayMetaDataSlab_Remove",
     "ArrayMetaDataSlab_PopIterate", "Array_Count", "Array_Get", "Array_set", "Array_Insert", "Array_Append",
     "Array_remove", "Array_Inlined", "Array_PopIterate"].all (TransSl.translatedTargets.contains ·) = true := by decide

end Atree.TransEq
