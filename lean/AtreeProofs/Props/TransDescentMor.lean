import AtreeProofs.Trans.Descent
import AtreeProofs.Props.TransSlabsGlue
/-
  TRANSLATION EQUIVALENCE, the DESCENT (WP12): the MERGE / REBALANCE side of the restructuring of an index slab
  (`ArrayMetaDataSlab_rebalanceChildren`, `_mergeChildren`, `_MergeOrRebalanceChildSlab` of Gen/TransSlabs.lean) over the
  HEAP environment `envH T` (Trans/Descent.lean), with the heap after the call given EXPLICITLY (`rebalHeap`, `mergeHeap`,
  `morHeap`).  Ports of `Props/TransSlabsTree.lean` / `TransSlabsGlue.lean` (WP9, environment `envA T look`).

  * transfer: the child operations `ArraySlab_Merge / _LendToRight / _BorrowFromRight / _CanLendToLeft / _CanLendToRight /
    _Header / _ByteSize / _SlabID` do not take the storage; on `envH T` they ARE the functions on `envA T look`
    (`Merge_envH` ..: `rfl`, or an induction over the fuel of the loops).  So `RebalAgreesH`, `MergeAgreesH`, `MorPreH`
    (the WP9 hypotheses over `envH`) follow from the WP9 ones (`RebalAgreesH_iff`, `MergeAgreesH_iff`,
    `MorPreH.of_MorPre`) for ANY `look`.
  * `Sl_rebalanceChildren_heap`: store left, store right, store parent.
  * `Sl_mergeChildren_heap(_wit)`: store merged, store parent, remove right.
  * `Sl_MergeOrRebalanceChildSlab_heap`: the siblings are READ from the heap (`getArraySlab`, which leaves the storage
    alone); the heap afterwards is `morHeap`, the table of `morTable` with `rebalHeap` / `mergeHeap` in the cells;
    `_data_heap`, `_meta_heap`: no hypothesis about generated code.
-/
set_option linter.unusedSimpArgs false
set_option linter.unusedVariables false
namespace Atree.TransEq
open Atree Atree.Gen

section transfer
variable (T : Nat) (look : SlabID → Option GSlab)

theorem dLend_loop_envH (a : GData) (size mid : UInt32) (fuel : Nat) (i : Int) (lc ls : UInt32) :
    TransSl.ArrayDataSlab_LendToRight.loop1 (envH T) a size mid fuel i lc ls =
      TransSl.ArrayDataSlab_LendToRight.loop1 (envA T look) a size mid fuel i lc ls := by
  induction fuel generalizing i lc ls with
  | zero => rfl
  | succ n ih => simp only [TransSl.ArrayDataSlab_LendToRight.loop1, ih]; rfl

theorem dBorrow_loop_envH (size mid : UInt32) (l : List (Option Elem)) (lc ls : UInt32) :
    (TransSl.ArrayDataSlab_BorrowFromRight.loop1 (envH T) size mid l lc ls :
      TransSl.Loop (Option (Option AErr × GData × Option GSlab)) (UInt32 × UInt32)) =
      TransSl.ArrayDataSlab_BorrowFromRight.loop1 (envA T look) size mid l lc ls := by
  induction l generalizing lc ls with
  | nil => rfl
  | cons e rest ih => simp only [TransSl.ArrayDataSlab_BorrowFromRight.loop1, ih]; rfl

theorem dCanL_loop_envH (a : GData) (size : UInt32) (fuel : Nat) (i : Int) (ls : UInt32) :
    TransSl.ArrayDataSlab_CanLendToLeft.loop1 (envH T) a size fuel i ls =
      TransSl.ArrayDataSlab_CanLendToLeft.loop1 (envA T look) a size fuel i ls := by
  induction fuel generalizing i ls with
  | zero => rfl
  | succ n ih => simp only [TransSl.ArrayDataSlab_CanLendToLeft.loop1, ih]; rfl

theorem dCanR_loop_envH (a : GData) (size : UInt32) (fuel : Nat) (i : Int) (ls : UInt32) :
    TransSl.ArrayDataSlab_CanLendToRight.loop1 (envH T) a size fuel i ls =
      TransSl.ArrayDataSlab_CanLendToRight.loop1 (envA T look) a size fuel i ls := by
  induction fuel generalizing i ls with
  | zero => rfl
  | succ n ih => simp only [TransSl.ArrayDataSlab_CanLendToRight.loop1, ih]; rfl

theorem mMerge_loop_envH (fuel : Nat) (i : Int) (a : GMeta) (b : UInt32) :
    (TransSl.ArrayMetaDataSlab_Merge.loop1 (envH T) fuel i a b :
      TransSl.Loop (Option (Option AErr × GMeta × Option GSlab)) (GMeta × UInt32)) =
      TransSl.ArrayMetaDataSlab_Merge.loop1 (envA T look) fuel i a b := by
  induction fuel generalizing i a b with
  | zero => rfl
  | succ n ih => simp only [TransSl.ArrayMetaDataSlab_Merge.loop1, ih]

theorem mLend_loop1_envH (fuel : Nat) (i : Int) (s : Option GSlab) (r : GMeta) (b : UInt32) :
    (TransSl.ArrayMetaDataSlab_LendToRight.loop1 (envH T) fuel i s r b :
      TransSl.Loop (Option (Option AErr × GMeta × Option GSlab)) (Option GSlab × GMeta × UInt32)) =
      TransSl.ArrayMetaDataSlab_LendToRight.loop1 (envA T look) fuel i s r b := by
  induction fuel generalizing i s r b with
  | zero => rfl
  | succ n ih => simp only [TransSl.ArrayMetaDataSlab_LendToRight.loop1, ih]

theorem mLend_loop2_envH (fuel : Nat) (i : Int) (s : Option GSlab) (r : GMeta) :
    (TransSl.ArrayMetaDataSlab_LendToRight.loop2 (envH T) fuel i s r :
      TransSl.Loop (Option (Option AErr × GMeta × Option GSlab)) (Option GSlab × GMeta)) =
      TransSl.ArrayMetaDataSlab_LendToRight.loop2 (envA T look) fuel i s r := by
  induction fuel generalizing i s r with
  | zero => rfl
  | succ n ih => simp only [TransSl.ArrayMetaDataSlab_LendToRight.loop2, ih]

theorem mLend_loop3_envH (fuel : Nat) (i : Int) (a : GMeta) :
    (TransSl.ArrayMetaDataSlab_LendToRight.loop3 (σ := Elem) (envH T) fuel i a :
      TransSl.Loop (Option (Option AErr × GMeta × Option GSlab)) GMeta) =
      TransSl.ArrayMetaDataSlab_LendToRight.loop3 (envA T look) fuel i a := by
  induction fuel generalizing i a with
  | zero => rfl
  | succ n ih => simp only [TransSl.ArrayMetaDataSlab_LendToRight.loop3, ih]

theorem mBorrow_loop1_envH (fuel : Nat) (i : Int) (a : GMeta) (b : UInt32) :
    (TransSl.ArrayMetaDataSlab_BorrowFromRight.loop1 (envH T) fuel i a b :
      TransSl.Loop (Option (Option AErr × GMeta × Option GSlab)) (GMeta × UInt32)) =
      TransSl.ArrayMetaDataSlab_BorrowFromRight.loop1 (envA T look) fuel i a b := by
  induction fuel generalizing i a b with
  | zero => rfl
  | succ n ih => simp only [TransSl.ArrayMetaDataSlab_BorrowFromRight.loop1, ih]

theorem mBorrow_loop2_envH (fuel : Nat) (i : Int) (s : Option GSlab) (r : GMeta) (b : UInt32) :
    (TransSl.ArrayMetaDataSlab_BorrowFromRight.loop2 (envH T) fuel i s r b :
      TransSl.Loop (Option (Option AErr × GMeta × Option GSlab)) (Option GSlab × GMeta × UInt32)) =
      TransSl.ArrayMetaDataSlab_BorrowFromRight.loop2 (envA T look) fuel i s r b := by
  induction fuel generalizing i s r b with
  | zero => rfl
  | succ n ih => simp only [TransSl.ArrayMetaDataSlab_BorrowFromRight.loop2, ih]

theorem Merge_envH (x : GSlab) (y : Option GSlab) :
    TransSl.ArraySlab_Merge (envH T) x y = TransSl.ArraySlab_Merge (envA T look) x y := by
  cases x with
  | dataSlab a => rfl
  | metaSlab a =>
    simp only [TransSl.ArraySlab_Merge, TransSl.ArrayMetaDataSlab_Merge, mMerge_loop_envH T look]
    rfl

theorem LendToRight_envH (x : GSlab) (y : Option GSlab) :
    TransSl.ArraySlab_LendToRight (envH T) x y = TransSl.ArraySlab_LendToRight (envA T look) x y := by
  cases x with
  | dataSlab a =>
    simp only [TransSl.ArraySlab_LendToRight, TransSl.ArrayDataSlab_LendToRight, dLend_loop_envH T look]
    rfl
  | metaSlab a =>
    simp only [TransSl.ArraySlab_LendToRight, TransSl.ArrayMetaDataSlab_LendToRight, mLend_loop1_envH T look,
      mLend_loop2_envH T look, mLend_loop3_envH T look]
    rfl

theorem BorrowFromRight_envH (x : GSlab) (y : Option GSlab) :
    TransSl.ArraySlab_BorrowFromRight (envH T) x y = TransSl.ArraySlab_BorrowFromRight (envA T look) x y := by
  cases x with
  | dataSlab a =>
    simp only [TransSl.ArraySlab_BorrowFromRight, TransSl.ArrayDataSlab_BorrowFromRight, dBorrow_loop_envH T look]
    rfl
  | metaSlab a =>
    simp only [TransSl.ArraySlab_BorrowFromRight, TransSl.ArrayMetaDataSlab_BorrowFromRight, mBorrow_loop1_envH T look,
      mBorrow_loop2_envH T look]
    rfl

theorem CanLendToLeft_envH (x : GSlab) (u : UInt32) :
    TransSl.ArraySlab_CanLendToLeft (envH T) x u = TransSl.ArraySlab_CanLendToLeft (envA T look) x u := by
  cases x with
  | dataSlab a =>
    simp only [TransSl.ArraySlab_CanLendToLeft, TransSl.ArrayDataSlab_CanLendToLeft, dCanL_loop_envH T look]
    rfl
  | metaSlab a => rfl

theorem CanLendToRight_envH (x : GSlab) (u : UInt32) :
    TransSl.ArraySlab_CanLendToRight (envH T) x u = TransSl.ArraySlab_CanLendToRight (envA T look) x u := by
  cases x with
  | dataSlab a =>
    simp only [TransSl.ArraySlab_CanLendToRight, TransSl.ArrayDataSlab_CanLendToRight, dCanR_loop_envH T look]
    rfl
  | metaSlab a => rfl

theorem Header_envH (x : GSlab) :
    TransSl.ArraySlab_Header (envH T) x = TransSl.ArraySlab_Header (envA T look) x := rfl
theorem ByteSize_envH (x : GSlab) :
    TransSl.ArraySlab_ByteSize (envH T) x = TransSl.ArraySlab_ByteSize (envA T look) x := rfl
theorem SlabID_envH (x : GSlab) :
    TransSl.ArraySlab_SlabID (envH T) x = TransSl.ArraySlab_SlabID (envA T look) x := rfl
theorem updHdrs_envH (a : GMeta) (h : GHdr) (i j : Int) :
    TransSl.ArrayMetaDataSlab_updateChildrenHeadersAfterMerge (envH T) a h i j =
      TransSl.ArrayMetaDataSlab_updateChildrenHeadersAfterMerge (envA T look) a h i j := rfl
end transfer

/-- `RebalAgrees` over the heap environment -/
def RebalAgreesH (T : Nat) (d : Nat) (l r : ATree d) (flag : Bool) : Prop :=
  (if flag then TransSl.ArraySlab_BorrowFromRight (envH T) (trTree d l) (some (trTree d r))
   else TransSl.ArraySlab_LendToRight (envH T) (trTree d l) (some (trTree d r))) =
    some (none, trTree d (rebalOp T d l r flag).1, some (trTree d (rebalOp T d l r flag).2))

theorem RebalAgreesH_iff (T : Nat) (look) (d : Nat) (l r : ATree d) (flag : Bool) :
    RebalAgreesH T d l r flag ↔ RebalAgrees T look d l r flag := by
  unfold RebalAgreesH RebalAgrees
  rw [BorrowFromRight_envH T look, LendToRight_envH T look]

theorem disp_Header_envH (T : Nat) (d : Nat) (t : ATree d) :
    TransSl.ArraySlab_Header (envH T) (trTree d t) = trHdr (ATree.hdr d t) := by
  cases d <;> rfl

theorem disp_ByteSize_envH (T : Nat) (d : Nat) (t : ATree d) :
    TransSl.ArraySlab_ByteSize (envH T) (trTree d t) = u32 (ATree.hdr d t).size := by
  cases d <;> rfl

/-- the heap after `rebalanceChildren` -/
def rebalHeap (T : Nat) {d : Nat} (m : MetaSlab (ATree d)) (left right : ATree d) (li ri : Nat) (flag : Bool)
    (s : HSt) : HSt :=
  ((s.store (ATree.hdr d (rebalOp T d left right flag).1).id (some (trTree d (rebalOp T d left right flag).1))).store
      (ATree.hdr d (rebalOp T d left right flag).2).id (some (trTree d (rebalOp T d left right flag).2))).store
    m.hdr.id (some (.metaSlab (trMeta (m.rebalanceChildren T left right li ri flag s.ctx).1)))

theorem rebalHeap_ctx (T : Nat) {d : Nat} (m : MetaSlab (ATree d)) (left right : ATree d) (li ri : Nat) (flag : Bool)
    (s : HSt) : (rebalHeap T m left right li ri flag s).ctx = (m.rebalanceChildren T left right li ri flag s.ctx).2 := by
  cases flag <;> rfl

theorem Sl_rebalanceChildren_heap (T : Nat) {d : Nat} (m : MetaSlab (ATree d)) (left right : ATree d)
    (li ri : Nat) (flag : Bool) (s : HSt) (hop : RebalAgreesH T d left right flag)
    (hli : li < m.countSum.length) (hli' : li < m.childHdrs.length) (hri : ri < m.childHdrs.length)
    (hbase : (ATree.hdr d left).count ≤ m.countSum.getD li 0) :
    TransSl.ArrayMetaDataSlab_rebalanceChildren (envH T) (trMeta m) s (some (trTree d left)) (some (trTree d right))
        (Int.ofNat li) (Int.ofNat ri) flag =
      some (none, trMeta (m.rebalanceChildren T left right li ri flag s.ctx).1, rebalHeap T m left right li ri flag s,
            some (trTree d (rebalOp T d left right flag).1), some (trTree d (rebalOp T d left right flag).2)) := by
  unfold RebalAgreesH at hop
  have hget : m.countSum[li]? = some (m.countSum.getD li 0) := by
    simp [List.getD_eq_getElem?_getD, List.getElem?_eq_getElem hli]
  cases flag
  all_goals
    simp only [Bool.false_eq_true, if_false, if_true] at hop
    simp only [TransSl.ArrayMetaDataSlab_rebalanceChildren, TransSl.ArrayMetaDataSlab_rebalanceChildren.k1, trMeta_childrenCountSum, goIdx_map, hget, Option.map_some,
      hop, Bool.false_eq_true, if_false, if_true, Option.isSome_none, disp_Header_envH, trHdr_count, trMeta_childrenHeaders,
      goSet_map, hli', List.length_set, hri, u32_sub' hbase, u32_add', hli, storeSlab_envH, slabID_trTree_envH,
      MetaSlab.rebalanceChildren, rebalHeap]
    simp [trMeta, trHdr, TransSl.ArraySlab_SlabID, TransSl.ArrayMetaDataSlab_SlabID, rebalOp]


/-- the heap after `rebalanceChildren`, pointwise -/
theorem rebalHeap_heap (T : Nat) {d : Nat} (m : MetaSlab (ATree d)) (left right : ATree d) (li ri : Nat) (flag : Bool)
    (s : HSt) (i : SlabID) :
    (rebalHeap T m left right li ri flag s).heap i =
      if i = m.hdr.id then some (.metaSlab (trMeta (m.rebalanceChildren T left right li ri flag s.ctx).1))
      else if i = (ATree.hdr d (rebalOp T d left right flag).2).id then some (trTree d (rebalOp T d left right flag).2)
      else if i = (ATree.hdr d (rebalOp T d left right flag).1).id then some (trTree d (rebalOp T d left right flag).1)
      else s.heap i := rfl

/-! ### mergeChildren -/

/-- `MergeAgrees` over the heap environment -/
def MergeAgreesH (T : Nat) (d : Nat) (l r : ATree d) : Prop :=
  ∃ r' : GSlab, TransSl.ArraySlab_SlabID (envH T) r' = (ATree.hdr d r).id ∧
    TransSl.ArraySlab_Merge (envH T) (trTree d l) (some (trTree d r)) =
      some (none, trTree d (ATree.merge d l r), some r')

theorem MergeAgreesH_iff (T : Nat) (look) (d : Nat) (l r : ATree d) :
    MergeAgreesH T d l r ↔ MergeAgrees T look d l r := by
  unfold MergeAgreesH MergeAgrees
  simp only [Merge_envH T look, SlabID_envH T look]

/-- the heap after `mergeChildren`: store merged, store parent, remove right -/
def mergeHeap {d : Nat} (m : MetaSlab (ATree d)) (left right : ATree d) (li ri : Nat) (s : HSt) : HSt :=
  ((s.store (ATree.hdr d (ATree.merge d left right)).id (some (trTree d (ATree.merge d left right)))).store
      m.hdr.id (some (.metaSlab (trMeta (m.mergeChildren left right li ri s.ctx).1)))).remove (ATree.hdr d right).id

theorem mergeHeap_ctx {d : Nat} (m : MetaSlab (ATree d)) (left right : ATree d) (li ri : Nat) (s : HSt) :
    (mergeHeap m left right li ri s).ctx = (m.mergeChildren left right li ri s.ctx).2 := rfl

/-- the heap after `mergeChildren`, pointwise -/
theorem mergeHeap_heap {d : Nat} (m : MetaSlab (ATree d)) (left right : ATree d) (li ri : Nat) (s : HSt) (i : SlabID) :
    (mergeHeap m left right li ri s).heap i =
      if i = (ATree.hdr d right).id then none
      else if i = m.hdr.id then some (.metaSlab (trMeta (m.mergeChildren left right li ri s.ctx).1))
      else if i = (ATree.hdr d (ATree.merge d left right)).id then some (trTree d (ATree.merge d left right))
      else s.heap i := rfl

theorem Sl_updateChildrenHeadersAfterMerge_envH (T : Nat) {α : Type} (m : MetaSlab α) (h : Hdr) (li ri : Nat)
    (hli : li < m.childHdrs.length) (hri : ri < m.childHdrs.length)
    (hli' : li < m.countSum.length) (hri' : ri < m.countSum.length) :
    TransSl.ArrayMetaDataSlab_updateChildrenHeadersAfterMerge (envH T) (trMeta m) (trHdr h) (Int.ofNat li) (Int.ofNat ri) =
      some { trMeta m with childrenHeaders := ((m.childHdrs.set li h).eraseIdx ri).map trHdr,
                           childrenCountSum := ((m.countSum.set li (m.countSum.getD ri 0)).eraseIdx ri).map u32 } :=
  Sl_updateChildrenHeadersAfterMerge_spec T (fun _ => none) m h li ri hli hri hli' hri'

theorem Sl_mergeChildren_heap_wit (T : Nat) {d : Nat} (m : MetaSlab (ATree d)) (left right : ATree d)
    (li ri : Nat) (s : HSt) (r' : GSlab)
    (hid : TransSl.ArraySlab_SlabID (envH T) r' = (ATree.hdr d right).id)
    (hop : TransSl.ArraySlab_Merge (envH T) (trTree d left) (some (trTree d right)) =
      some (none, trTree d (ATree.merge d left right), some r'))
    (hli : li < m.childHdrs.length) (hri : ri < m.childHdrs.length)
    (hli' : li < m.countSum.length) (hri' : ri < m.countSum.length)
    (hsz : arraySlabHeaderSize ≤ m.hdr.size) :
    TransSl.ArrayMetaDataSlab_mergeChildren (envH T) (trMeta m) s (some (trTree d left)) (some (trTree d right))
        (Int.ofNat li) (Int.ofNat ri) =
      some (none, trMeta (m.mergeChildren left right li ri s.ctx).1, mergeHeap m left right li ri s,
            some (trTree d (ATree.merge d left right)), some r') := by
  have hupd := Sl_updateChildrenHeadersAfterMerge_envH T m (ATree.hdr d (ATree.merge d left right)) li ri hli hri hli' hri'
  simp only [TransSl.ArrayMetaDataSlab_mergeChildren, hop, Option.isSome_none, Bool.false_eq_true, if_false, disp_Header_envH,
    hupd, storeSlab_envH, slabID_trTree_envH, hid, envH_remove, envH_wrap, MetaSlab.mergeChildren, mergeHeap]
  have e14 : UInt32.ofNat arraySlabHeaderSize = u32 arraySlabHeaderSize := rfl
  rw [trMeta_header, trHdr_size, e14, u32_sub' hsz]
  simp [trMeta, trHdr, TransSl.ArraySlab_SlabID, TransSl.ArrayMetaDataSlab_SlabID]

theorem Sl_mergeChildren_heap (T : Nat) {d : Nat} (m : MetaSlab (ATree d)) (left right : ATree d)
    (li ri : Nat) (s : HSt) (hop : MergeAgreesH T d left right)
    (hli : li < m.childHdrs.length) (hri : ri < m.childHdrs.length)
    (hli' : li < m.countSum.length) (hri' : ri < m.countSum.length)
    (hsz : arraySlabHeaderSize ≤ m.hdr.size) :
    ∃ r' : GSlab, TransSl.ArraySlab_SlabID (envH T) r' = (ATree.hdr d right).id ∧
    TransSl.ArrayMetaDataSlab_mergeChildren (envH T) (trMeta m) s (some (trTree d left)) (some (trTree d right))
        (Int.ofNat li) (Int.ofNat ri) =
      some (none, trMeta (m.mergeChildren left right li ri s.ctx).1, mergeHeap m left right li ri s,
            some (trTree d (ATree.merge d left right)), some r') := by
  obtain ⟨r', hid, hop⟩ := hop
  exact ⟨r', hid, Sl_mergeChildren_heap_wit T m left right li ri s r' hid hop hli hri hli' hri' hsz⟩


/-! ### MergeOrRebalanceChildSlab -/

/-- the heap after `MergeOrRebalanceChildSlab`, by the case of the decision table taken (mirrors `morTable`) -/
def morHeap (T : Nat) {d : Nat} (m : MetaSlab (ATree d)) (child : ATree d) (k underflow : Nat) (s : HSt)
    (leftSib rightSib : Option (ATree d)) : HSt :=
  let leftCanLend := match leftSib with | some l => ATree.canLendToRight T d l underflow | none => false
  let rightCanLend := match rightSib with | some r => ATree.canLendToLeft T d r underflow | none => false
  if leftCanLend || rightCanLend then
    match leftSib, rightSib with
    | some l, some r =>
      if !leftCanLend then rebalHeap T m child r k (k + 1) true s
      else if !rightCanLend then rebalHeap T m l child (k - 1) k false s
      else if (ATree.hdr d l).size > (ATree.hdr d r).size then rebalHeap T m l child (k - 1) k false s
      else rebalHeap T m child r k (k + 1) true s
    | some l, none => rebalHeap T m l child (k - 1) k false s
    | none, some r => rebalHeap T m child r k (k + 1) true s
    | none, none => s
  else
    match leftSib, rightSib with
    | none, some r => mergeHeap m child r k (k + 1) s
    | some l, none => mergeHeap m l child (k - 1) k s
    | some l, some r =>
      if (ATree.hdr d l).size < (ATree.hdr d r).size then mergeHeap m l child (k - 1) k s
      else mergeHeap m child r k (k + 1) s
    | none, none => s

/-- `MorPre` over the heap environment -/
structure MorPreH (T : Nat) {d : Nat} (m : MetaSlab (ATree d)) (child : ATree d)
    (k u : Nat) (lsib rsib : Option (ATree d)) : Prop where
  hk : k < m.childHdrs.length
  hlen : m.countSum.length = m.childHdrs.length
  hsz : arraySlabHeaderSize ≤ m.hdr.size
  posL : ∀ l, lsib = some l → 0 < k
  posR : ∀ r, rsib = some r → k + 1 < m.childHdrs.length
  lendL : ∀ l, lsib = some l →
    TransSl.ArraySlab_CanLendToRight (envH T) (trTree d l) (u32 u) = some (ATree.canLendToRight T d l u)
  lendR : ∀ r, rsib = some r →
    TransSl.ArraySlab_CanLendToLeft (envH T) (trTree d r) (u32 u) = some (ATree.canLendToLeft T d r u)
  szL : ∀ l, lsib = some l → (ATree.hdr d l).size < 2^32
  szR : ∀ r, rsib = some r → (ATree.hdr d r).size < 2^32
  rebR : ∀ r, rsib = some r → RebalAgreesH T d child r true ∧ (ATree.hdr d child).count ≤ m.countSum.getD k 0
  rebL : ∀ l, lsib = some l → RebalAgreesH T d l child false ∧ (ATree.hdr d l).count ≤ m.countSum.getD (k - 1) 0
  mrgR : ∀ r, rsib = some r → MergeAgreesH T d child r
  mrgL : ∀ l, lsib = some l → MergeAgreesH T d l child

theorem MorPreH.of_MorPre {T : Nat} {look : SlabID → Option GSlab} {d : Nat} {m : MetaSlab (ATree d)} {child : ATree d}
    {k u : Nat} {lsib rsib : Option (ATree d)} (hp : MorPre T look m child k u lsib rsib) :
    MorPreH T m child k u lsib rsib where
  hk := hp.hk
  hlen := hp.hlen
  hsz := hp.hsz
  posL := hp.posL
  posR := hp.posR
  lendL := fun l h => (CanLendToRight_envH T look _ _).trans (hp.lendL l h)
  lendR := fun r h => (CanLendToLeft_envH T look _ _).trans (hp.lendR r h)
  szL := hp.szL
  szR := hp.szR
  rebR := fun r h => ⟨(RebalAgreesH_iff T look d child r true).2 (hp.rebR r h).1, (hp.rebR r h).2⟩
  rebL := fun l h => ⟨(RebalAgreesH_iff T look d l child false).2 (hp.rebL l h).1, (hp.rebL l h).2⟩
  mrgR := fun r h => (MergeAgreesH_iff T look d child r).2 (hp.mrgR r h)
  mrgL := fun l h => (MergeAgreesH_iff T look d l child).2 (hp.mrgL l h)

theorem disp_Merge_nil_envH (T : Nat) (v : GSlab) : TransSl.ArraySlab_Merge (envH T) v none = none :=
  (Merge_envH T (fun _ => none) v none).trans (disp_Merge_nil T (fun _ => none) v)

attribute [local simp] rebalHeap_ctx mergeHeap_ctx

theorem Sl_mor_k1_heap (T : Nat) {d : Nat} (m : MetaSlab (ATree d)) (child : ATree d) (k u : Nat) (s : HSt)
    (lsib rsib : Option (ATree d)) (hp : MorPreH T m child k u lsib rsib) :
    match morTable T m child k u s.ctx lsib rsib with
    | .ok (m', c') => (∃ child', TransSl.ArrayMetaDataSlab_MergeOrRebalanceChildSlab.k1 (envH T) (trMeta m) s
        (some (trTree d child)) (Int.ofNat k) (u32 u) (lsib.map (trTree d)) (rsib.map (trTree d)) =
          some (none, trMeta m', morHeap T m child k u s lsib rsib, child')) ∧
        (morHeap T m child k u s lsib rsib).ctx = c'
    | .error _ => TransSl.ArrayMetaDataSlab_MergeOrRebalanceChildSlab.k1 (envH T) (trMeta m) s
        (some (trTree d child)) (Int.ofNat k) (u32 u) (lsib.map (trTree d)) (rsib.map (trTree d)) = none := by
  have hkc : k < m.countSum.length := by rw [hp.hlen]; exact hp.hk
  cases lsib with
  | none =>
    cases rsib with
    | none =>
      simp [morTable, TransSl.ArrayMetaDataSlab_MergeOrRebalanceChildSlab.k1, TransSl.ArrayMetaDataSlab_mergeChildren,
        disp_Merge_nil_envH]
    | some r =>
      obtain ⟨hreb, hbase⟩ := hp.rebR r rfl
      have hr1 := hp.posR r rfl
      have hrc : k + 1 < m.countSum.length := by rw [hp.hlen]; exact hr1
      have hR := Sl_rebalanceChildren_heap T m child r k (k + 1) true s hreb hkc hp.hk hr1 hbase
      obtain ⟨r', hid, hM⟩ := Sl_mergeChildren_heap T m child r k (k + 1) s (hp.mrgR r rfl) hp.hk hr1 hkc hrc hp.hsz
      simp only [morTable, morHeap, TransSl.ArrayMetaDataSlab_MergeOrRebalanceChildSlab.k1, Option.map_none, Option.map_some,
        Option.isSome_none, Option.isSome_some, Option.isNone_none, Bool.false_eq_true, if_false, if_true, hp.lendR r rfl,
        Bool.false_or, ofNat_succ', hR, hM]
      cases hc : ATree.canLendToLeft T d r u <;> simp
  | some l =>
    obtain ⟨hrebL, hbaseL⟩ := hp.rebL l rfl
    have hl0 := hp.posL l rfl
    have hl1 : k - 1 < m.childHdrs.length := by have := hp.hk; omega
    have hlc : k - 1 < m.countSum.length := by rw [hp.hlen]; exact hl1
    have hRL := Sl_rebalanceChildren_heap T m l child (k - 1) k false s hrebL hlc hl1 hp.hk hbaseL
    obtain ⟨l', hidL, hML⟩ := Sl_mergeChildren_heap T m l child (k - 1) k s (hp.mrgL l rfl) hl1 hp.hk hlc hkc hp.hsz
    cases rsib with
    | none =>
      simp only [morTable, morHeap, TransSl.ArrayMetaDataSlab_MergeOrRebalanceChildSlab.k1, Option.map_none, Option.map_some,
        Option.isSome_none, Option.isSome_some, Option.isNone_none, Option.isNone_some, Bool.false_eq_true, if_false, if_true,
        hp.lendL l rfl, Bool.or_false, ofNat_pred' k hl0, hRL, hML]
      cases hc : ATree.canLendToRight T d l u <;> simp
    | some r =>
      obtain ⟨hreb, hbase⟩ := hp.rebR r rfl
      have hr1 := hp.posR r rfl
      have hrc : k + 1 < m.countSum.length := by rw [hp.hlen]; exact hr1
      have hR := Sl_rebalanceChildren_heap T m child r k (k + 1) true s hreb hkc hp.hk hr1 hbase
      obtain ⟨r', hid, hM⟩ := Sl_mergeChildren_heap T m child r k (k + 1) s (hp.mrgR r rfl) hp.hk hr1 hkc hrc hp.hsz
      have hgt : decide (u32 (ATree.hdr d l).size > u32 (ATree.hdr d r).size) =
          decide ((ATree.hdr d l).size > (ATree.hdr d r).size) := u32_dgt (hp.szL l rfl) (hp.szR r rfl)
      have hlt : decide (u32 (ATree.hdr d l).size < u32 (ATree.hdr d r).size) =
          decide ((ATree.hdr d l).size < (ATree.hdr d r).size) := u32_dlt (hp.szL l rfl) (hp.szR r rfl)
      cases hcl : ATree.canLendToRight T d l u <;> cases hcr : ATree.canLendToLeft T d r u <;>
        simp only [morTable, morHeap, TransSl.ArrayMetaDataSlab_MergeOrRebalanceChildSlab.k1, Option.map_none, Option.map_some,
          Option.isSome_none, Option.isSome_some, Option.isNone_none, Option.isNone_some, Bool.false_eq_true, if_false,
          if_true, hp.lendL l rfl, hp.lendR r rfl, ofNat_pred' k hl0, ofNat_succ', hRL, hML, hR, hM, disp_ByteSize_envH,
          hgt, hlt, hcl, hcr, Bool.or_false, Bool.or_true, Bool.not_false, Bool.not_true, decide_eq_true_eq]
      · by_cases h : (ATree.hdr d l).size < (ATree.hdr d r).size <;> simp [h]
      · simp
      · simp
      · by_cases h : (ATree.hdr d l).size > (ATree.hdr d r).size <;> simp [h]


/-- the siblings the model selects -/
abbrev morLeftSib {d : Nat} (m : MetaSlab (ATree d)) (k : Nat) : Option (ATree d) :=
  if k > 0 then m.children[k - 1]? else none
abbrev morRightSib {d : Nat} (m : MetaSlab (ATree d)) (k : Nat) : Option (ATree d) :=
  if k + 1 < m.childHdrs.length then m.children[k + 1]? else none

theorem Sl_MergeOrRebalanceChildSlab_heap (T : Nat) {d : Nat} (m : MetaSlab (ATree d)) (child : ATree d)
    (k u : Nat) (s : HSt)
    (hp : MorPreH T m child k u (morLeftSib m k) (morRightSib m k))
    (hheapL : k > 0 → ∃ h l, m.childHdrs[k - 1]? = some h ∧ m.children[k - 1]? = some l ∧
      s.heap h.id = some (trTree d l))
    (hheapR : k + 1 < m.childHdrs.length →
      ∃ h r, m.childHdrs[k + 1]? = some h ∧ m.children[k + 1]? = some r ∧ s.heap h.id = some (trTree d r)) :
    match m.mergeOrRebalanceChildSlab T child k u s.ctx with
    | .ok (m', c') => (∃ child', TransSl.ArrayMetaDataSlab_MergeOrRebalanceChildSlab (envH T) (trMeta m) s
        (some (trTree d child)) (Int.ofNat k) (u32 u) =
          some (none, trMeta m', morHeap T m child k u s (morLeftSib m k) (morRightSib m k), child')) ∧
        (morHeap T m child k u s (morLeftSib m k) (morRightSib m k)).ctx = c'
    | .error _ => TransSl.ArrayMetaDataSlab_MergeOrRebalanceChildSlab (envH T) (trMeta m) s
        (some (trTree d child)) (Int.ofNat k) (u32 u) = none := by
  rw [mor_eq_table]
  have hk1 := Sl_mor_k1_heap T m child k u s _ _ hp
  have hd0 : decide (Int.ofNat k > (0 : Int)) = decide (k > 0) := by
    have : (Int.ofNat k > (0 : Int)) ↔ k > 0 := by simp
    exact decide_eq_decide.mpr this
  have hd1 : decide (Int.ofNat k < Int.ofNat (trMeta m).childrenHeaders.length - 1) = decide (k + 1 < m.childHdrs.length) := by
    have : (Int.ofNat k < Int.ofNat (trMeta m).childrenHeaders.length - 1) ↔ k + 1 < m.childHdrs.length := by
      simp only [trMeta_childrenHeaders, List.length_map, Int.ofNat_eq_natCast]
      constructor <;> intro hh <;> omega
    exact decide_eq_decide.mpr this
  -- the generated function is `k1` on the translated siblings, on the unchanged storage
  have hgen : TransSl.ArrayMetaDataSlab_MergeOrRebalanceChildSlab (envH T) (trMeta m) s
        (some (trTree d child)) (Int.ofNat k) (u32 u) =
      TransSl.ArrayMetaDataSlab_MergeOrRebalanceChildSlab.k1 (envH T) (trMeta m) s
        (some (trTree d child)) (Int.ofNat k) (u32 u)
        ((morLeftSib m k).map (trTree d)) ((morRightSib m k).map (trTree d)) := by
    have hk2 : ∀ ls : Option GSlab,
        TransSl.ArrayMetaDataSlab_MergeOrRebalanceChildSlab.k2 (envH T) (trMeta m) s (some (trTree d child))
          (Int.ofNat k) (u32 u) ls none =
        TransSl.ArrayMetaDataSlab_MergeOrRebalanceChildSlab.k1 (envH T) (trMeta m) s (some (trTree d child))
          (Int.ofNat k) (u32 u) ls ((morRightSib m k).map (trTree d)) := by
      intro ls
      simp only [TransSl.ArrayMetaDataSlab_MergeOrRebalanceChildSlab.k2]
      rw [hd1]
      simp only [trMeta_childrenHeaders, morRightSib]
      by_cases h1 : k + 1 < m.childHdrs.length
      · obtain ⟨h, r, hh, hr, hl⟩ := hheapR h1
        simp only [h1, decide_true, if_true, ofNat_succ', goIdx_map, hh, Option.map_some, envH_getArraySlab,
          trHdr_slabID, hl, Option.isSome_none, Bool.false_eq_true, if_false, hr]
      · simp only [h1, decide_false, Bool.false_eq_true, if_false, Option.map_none]
    simp only [TransSl.ArrayMetaDataSlab_MergeOrRebalanceChildSlab]
    rw [hd0]
    simp only [trMeta_childrenHeaders, morLeftSib]
    by_cases h0 : k > 0
    · obtain ⟨h, l, hh, hl, hlk⟩ := hheapL h0
      simp only [h0, decide_true, if_true, ofNat_pred' k h0, goIdx_map, hh, Option.map_some, envH_getArraySlab,
        trHdr_slabID, hlk, Option.isSome_none, Bool.false_eq_true, if_false, hl, hk2]
    · simp only [h0, decide_false, Bool.false_eq_true, if_false, Option.map_none, hk2]
  rw [hgen]
  exact hk1


/-! ### data-slab / index-slab children: no hypothesis about generated code -/

/-- `MergeOrRebalanceChildSlab` of a DATA-slab child over a heap (NO hypothesis on generated code): the siblings are
    `DataWork` slabs that the heap holds under the identifiers of the header copies (`hheapL`, `hheapR`).  `hbase`,
    `hbaseL`: see `MorPre.of_data`. -/
theorem Sl_MergeOrRebalanceChildSlab_data_heap (T : Nat) (m : MetaSlab (ATree 0)) (child : DataSlab)
    (k u : Nat) (s : HSt) (hT : legalThreshold T = true) (hu : u + Gen.arraySlabHeaderSize ≤ 2^32)
    (hwc : DataWork T child)
    (hwL : ∀ l : DataSlab, 0 < k → m.children[k - 1]? = some l → DataWork T l)
    (hwR : ∀ r : DataSlab, k + 1 < m.childHdrs.length → m.children[k + 1]? = some r → DataWork T r)
    (hk : k < m.childHdrs.length) (hlen : m.countSum.length = m.childHdrs.length)
    (hsz : arraySlabHeaderSize ≤ m.hdr.size)
    (hbase : k + 1 < m.childHdrs.length → child.hdr.count ≤ m.countSum.getD k 0)
    (hbaseL : ∀ l : DataSlab, 0 < k → m.children[k - 1]? = some l → l.hdr.count ≤ m.countSum.getD (k - 1) 0)
    (hheapL : k > 0 → ∃ h l, m.childHdrs[k - 1]? = some h ∧ m.children[k - 1]? = some l ∧
      s.heap h.id = some (.dataSlab (trData l)))
    (hheapR : k + 1 < m.childHdrs.length →
      ∃ h r, m.childHdrs[k + 1]? = some h ∧ m.children[k + 1]? = some r ∧ s.heap h.id = some (.dataSlab (trData r))) :
    match m.mergeOrRebalanceChildSlab T child k u s.ctx with
    | .ok (m', c') => (∃ child', TransSl.ArrayMetaDataSlab_MergeOrRebalanceChildSlab (envH T) (trMeta m) s
        (some (.dataSlab (trData child))) (Int.ofNat k) (u32 u) =
          some (none, trMeta m', morHeap T m child k u s (morLeftSib m k) (morRightSib m k), child')) ∧
        (morHeap T m child k u s (morLeftSib m k) (morRightSib m k)).ctx = c'
    | .error _ => TransSl.ArrayMetaDataSlab_MergeOrRebalanceChildSlab (envH T) (trMeta m) s
        (some (.dataSlab (trData child))) (Int.ofNat k) (u32 u) = none := by
  have hp : MorPre T (fun _ => none) m child k u (morLeftSib m k) (morRightSib m k) := by
    refine MorPre.of_data T _ m child k u _ _ hT hu hwc ?_ ?_ hk hlen hsz ?_ ?_ ?_ ?_
    · intro l h; by_cases h0 : k > 0
      · rw [morLeftSib, if_pos h0] at h; exact hwL l h0 h
      · rw [morLeftSib, if_neg h0] at h; cases h
    · intro r h; by_cases h1 : k + 1 < m.childHdrs.length
      · rw [morRightSib, if_pos h1] at h; exact hwR r h1 h
      · rw [morRightSib, if_neg h1] at h; cases h
    · intro l h; by_cases h0 : k > 0
      · exact h0
      · rw [morLeftSib, if_neg h0] at h; cases h
    · intro r h; by_cases h1 : k + 1 < m.childHdrs.length
      · exact h1
      · rw [morRightSib, if_neg h1] at h; cases h
    · intro r h; by_cases h1 : k + 1 < m.childHdrs.length
      · exact hbase h1
      · rw [morRightSib, if_neg h1] at h; cases h
    · intro l h; by_cases h0 : k > 0
      · rw [morLeftSib, if_pos h0] at h; exact hbaseL l h0 h
      · rw [morLeftSib, if_neg h0] at h; cases h
  have h := Sl_MergeOrRebalanceChildSlab_heap T m child k u s (MorPreH.of_MorPre hp) hheapL hheapR
  simp only [trTree] at h
  cases hm : m.mergeOrRebalanceChildSlab T child k u s.ctx with
  | error e => rw [hm] at h; exact h
  | ok res => rw [hm] at h; obtain ⟨m', c'⟩ := res; exact h

/-- `MergeOrRebalanceChildSlab` of an INDEX-slab child over a heap (`MetaSibOK`: TransSlabsGlue.lean) -/
theorem Sl_MergeOrRebalanceChildSlab_meta_heap (T : Nat) {d : Nat} (m : MetaSlab (ATree (d + 1)))
    (child : MetaSlab (ATree d)) (k u : Nat) (s : HSt) (hminT : minThr T < 2^32)
    (hu : u + Gen.arraySlabHeaderSize ≤ 2^32)
    (hlenC : child.countSum.length = child.childHdrs.length) (hneC : child.countSum ≠ [])
    (hpreC : arrayMetaDataSlabPrefixSize ≤ child.hdr.size)
    (hokL : ∀ l : MetaSlab (ATree d), 0 < k → m.children[k - 1]? = some l → MetaSibOK child l)
    (hokR : ∀ r : MetaSlab (ATree d), k + 1 < m.childHdrs.length → m.children[k + 1]? = some r → MetaSibOK child r)
    (hk : k < m.childHdrs.length) (hlen : m.countSum.length = m.childHdrs.length)
    (hsz : arraySlabHeaderSize ≤ m.hdr.size)
    (hbase : k + 1 < m.childHdrs.length → child.hdr.count ≤ m.countSum.getD k 0)
    (hbaseL : ∀ l : MetaSlab (ATree d), 0 < k → m.children[k - 1]? = some l → l.hdr.count ≤ m.countSum.getD (k - 1) 0)
    (hheapL : k > 0 → ∃ h l, m.childHdrs[k - 1]? = some h ∧ m.children[k - 1]? = some l ∧
      s.heap h.id = some (.metaSlab (trMeta l)))
    (hheapR : k + 1 < m.childHdrs.length →
      ∃ h r, m.childHdrs[k + 1]? = some h ∧ m.children[k + 1]? = some r ∧ s.heap h.id = some (.metaSlab (trMeta r))) :
    match m.mergeOrRebalanceChildSlab T child k u s.ctx with
    | .ok (m', c') => (∃ child', TransSl.ArrayMetaDataSlab_MergeOrRebalanceChildSlab (envH T) (trMeta m) s
        (some (.metaSlab (trMeta child))) (Int.ofNat k) (u32 u) =
          some (none, trMeta m', morHeap T m child k u s (morLeftSib m k) (morRightSib m k), child')) ∧
        (morHeap T m child k u s (morLeftSib m k) (morRightSib m k)).ctx = c'
    | .error _ => TransSl.ArrayMetaDataSlab_MergeOrRebalanceChildSlab (envH T) (trMeta m) s
        (some (.metaSlab (trMeta child))) (Int.ofNat k) (u32 u) = none := by
  have hp : MorPre T (fun _ => none) m child k u (morLeftSib m k) (morRightSib m k) := by
    refine MorPre.of_meta T _ m child k u _ _ hminT hu hlenC hneC hpreC ?_ ?_ hk hlen hsz ?_ ?_ ?_ ?_
    · intro l h; by_cases h0 : k > 0
      · rw [morLeftSib, if_pos h0] at h; exact hokL l h0 h
      · rw [morLeftSib, if_neg h0] at h; cases h
    · intro r h; by_cases h1 : k + 1 < m.childHdrs.length
      · rw [morRightSib, if_pos h1] at h; exact hokR r h1 h
      · rw [morRightSib, if_neg h1] at h; cases h
    · intro l h; by_cases h0 : k > 0
      · exact h0
      · rw [morLeftSib, if_neg h0] at h; cases h
    · intro r h; by_cases h1 : k + 1 < m.childHdrs.length
      · exact h1
      · rw [morRightSib, if_neg h1] at h; cases h
    · intro r h; by_cases h1 : k + 1 < m.childHdrs.length
      · exact hbase h1
      · rw [morRightSib, if_neg h1] at h; cases h
    · intro l h; by_cases h0 : k > 0
      · rw [morLeftSib, if_pos h0] at h; exact hbaseL l h0 h
      · rw [morLeftSib, if_neg h0] at h; cases h
  have h := Sl_MergeOrRebalanceChildSlab_heap T m child k u s (MorPreH.of_MorPre hp) hheapL hheapR
  simp only [trTree] at h
  cases hm : m.mergeOrRebalanceChildSlab T child k u s.ctx with
  | error e => rw [hm] at h; exact h
  | ok res => rw [hm] at h; obtain ⟨m', c'⟩ := res; exact h


/-! ### non-vacuity (T = 256: min 128, max 384; the slabs of TransSlabsGlue.lean) -/

section examples

/-- a heap that holds the two siblings of the middle leaf of `exIdx3` -/
def exHeap3 : HSt := ⟨exLook3, ⟨5, [], []⟩⟩

/-- `MergeOrRebalanceChildSlab` of the middle leaf over the heap: `Sl_MergeOrRebalanceChildSlab_data_heap` applies; only
    the left sibling can lend, so it lends one element; the heap afterwards is `morHeap ..` -/
theorem exMor3 : ∃ child',
    TransSl.ArrayMetaDataSlab_MergeOrRebalanceChildSlab (envH 256) (trMeta exIdx3) exHeap3
      (some (.dataSlab (trData (exData 3 4 [60])))) (Int.ofNat 1) (u32 47) =
    some (none,
      trMeta ({ exIdx3 with
        childHdrs := [⟨⟨1, 2⟩, 201, 3⟩, ⟨⟨1, 3⟩, 141, 2⟩, ⟨⟨1, 4⟩, 141, 2⟩], countSum := [3, 5, 7],
        children := [{ exData 2 3 [60, 60, 60] with hdr := ⟨⟨1, 2⟩, 201, 3⟩ },
                     { exData 3 4 [] with hdr := ⟨⟨1, 3⟩, 141, 2⟩, elems := [⟨60, .val 3⟩, ⟨60, .val 0⟩] },
                     exData 4 0 [60, 60]] } : MetaSlab (ATree 0)),
      morHeap 256 exIdx3 (exData 3 4 [60]) 1 47 exHeap3 (morLeftSib exIdx3 1) (morRightSib exIdx3 1), child') :=
  (Sl_MergeOrRebalanceChildSlab_data_heap 256 exIdx3 (exData 3 4 [60]) 1 47 exHeap3 (by decide) (by decide)
    (exOne_work 3 4)
    (fun l _ h => by cases h; exact exData_work 2 3)
    (fun r _ h => by cases h; exact exTwo_work 4 0)
    (by decide) rfl (by decide) (fun _ => by decide)
    (fun l _ h => by cases h; decide)
    (fun _ => ⟨_, _, rfl, rfl, rfl⟩) (fun _ => ⟨_, _, rfl, rfl, rfl⟩)).1

/-- .. and that heap, explicitly: the left sibling `(1,2)` with three elements, the child `(1,3)` with two, the parent
    `(1,1)` with the new headers; `(1,4)` untouched; effects: three `store`s -/
example :
    let h := morHeap 256 exIdx3 (exData 3 4 [60]) 1 47 exHeap3 (morLeftSib exIdx3 1) (morRightSib exIdx3 1)
    h.heap ⟨1, 2⟩ = some (.dataSlab (trData { exData 2 3 [60, 60, 60] with hdr := ⟨⟨1, 2⟩, 201, 3⟩ })) ∧
    h.heap ⟨1, 3⟩ = some (.dataSlab (trData
      { exData 3 4 [] with hdr := ⟨⟨1, 3⟩, 141, 2⟩, elems := [⟨60, .val 3⟩, ⟨60, .val 0⟩] })) ∧
    h.heap ⟨1, 1⟩ = some (.metaSlab
      { header := { slabID := ⟨1, 1⟩, size := 54, count := 7 },
        childrenHeaders := [{ slabID := ⟨1, 2⟩, size := 201, count := 3 }, { slabID := ⟨1, 3⟩, size := 141, count := 2 },
                            { slabID := ⟨1, 4⟩, size := 141, count := 2 }],
        childrenCountSum := [3, 5, 7], extraData := none }) ∧
    h.heap ⟨1, 4⟩ = exLook3 ⟨1, 4⟩ ∧
    h.ctx = ⟨5, [.store ⟨1, 2⟩, .store ⟨1, 3⟩, .store ⟨1, 1⟩], []⟩ := by
  refine ⟨by rfl, by rfl, by rfl, by rfl, by rfl⟩

/-- `mergeChildren` of the two leaves of `exIdx` over a heap (direct evaluation of the generated code): the merged leaf
    is stored under `(1,2)`, the parent under `(1,1)`, and `(1,3)` is removed from the heap -/
example :
    let r := TransSl.ArrayMetaDataSlab_mergeChildren (envH 256) (trMeta exIdx) ⟨fun _ => none, ⟨5, [], []⟩⟩
      (some (.dataSlab (trData (exData 2 3 [100, 150, 200])))) (some (.dataSlab (trData (exData 3 0 [60, 60]))))
      (Int.ofNat 0) (Int.ofNat 1)
    (r.map (fun x => x.2.2.1.heap ⟨1, 3⟩)) = some none ∧
    (r.map (fun x => x.2.2.1.heap ⟨1, 1⟩)) = some (some (.metaSlab
      { header := { slabID := ⟨1, 1⟩, size := 26, count := 5 },
        childrenHeaders := [{ slabID := ⟨1, 2⟩, size := 591, count := 5 }],
        childrenCountSum := [5], extraData := none })) ∧
    (r.map (fun x => x.2.2.1.ctx)) = some ⟨5, [.store ⟨1, 2⟩, .store ⟨1, 1⟩, .remove ⟨1, 3⟩], []⟩ := by
  refine ⟨by rfl, by rfl, by rfl⟩

end examples

end Atree.TransEq
