import AtreeProofs.MapInv
import AtreeProofs.MapLemmas
import AtreeProofs.Map.TreeBasics
import AtreeProofs.Map.Limit
import AtreeProofs.Map.Example
/-
  C12 — Maps stay correct under arbitrary hash collisions and enforce the limit.
  C02's theorems already hold for EVERY digest function; this file adds the collision-limit
  behaviour and the shape of collision groups (which is part of `ElemsInv`).
-/
namespace Atree.C12
open Atree Gen

variable {r : Nat}

/-- number of entries with distinct second-level digests that share the first-level digest of `k`:
    the element count of the first-level element holding that digest (0 if there is none) -/
def firstLevelGroupCount (m : OMap r) (k : MKey) : Nat :=
  match (MTree.leaves m.d m.root).findSome? (fun s =>
      (s.elems.hkeys.zip s.elems.elems).find? (fun p => p.1 == k.dig 0)) with
  | some (_, el) => MElemF.count (MElems.ops r) el
  | none => 0

/-- Inserting a NEW key whose first-level digest is already shared by more than the limit of
    entries is refused with a collision-limit error (and, the operation being an error, the map is
    unchanged: `OMap.set` returns no new state). -/
theorem limit_refuses_new_key (T : Nat) (hT : legalThreshold T = true) (D : DigestFn (r + 1)) (cfg : MCfg)
    (m : OMap r) (hcfg : CfgOk cfg T m) (h : MapInv T D m) (k : MKey) (hk : KeyOk T (r + 1) D k)
    (v : Elem) (hv : ValueOkM v) (c : Ctx) (hc : CtxOk m c)
    (habsent : dictLookup m.toList k = none)
    (hfull : firstLevelGroupCount m k ≥ cfg.climit + 1) :
    m.set cfg k v c = .error .collisionLimit := by
  have _ := hc
  have hs := OMap.set_spec hT hcfg h hk hv c
  apply hs.1
  rw [tlimited_iff hT h.tree h.sinv]
  exact ⟨(dictLookup_none_iff h.allKeyOk hk).mp habsent, hfull⟩

/-- … and is accepted when the group is not yet over the limit, or the key is present (update). -/
theorem limit_allows_update_and_room (T : Nat) (hT : legalThreshold T = true) (D : DigestFn (r + 1)) (cfg : MCfg)
    (m : OMap r) (hcfg : CfgOk cfg T m) (h : MapInv T D m) (k : MKey) (hk : KeyOk T (r + 1) D k)
    (v : Elem) (hv : ValueOkM v) (c : Ctx) (hc : CtxOk m c)
    (hroom : (dictLookup m.toList k).isSome ∨ firstLevelGroupCount m k < cfg.climit + 1) :
    ∃ old m' c', m.set cfg k v c = .ok (old, m', c') := by
  have _ := hc
  have hs := OMap.set_spec hT hcfg h hk hv c
  have hnl : ¬ TLimited cfg m.d m.root k := by
    intro hl
    rw [tlimited_iff hT h.tree h.sinv] at hl
    obtain ⟨habs, hcnt⟩ := hl
    rcases hroom with h1 | h1
    · rw [(dictLookup_none_iff h.allKeyOk hk).mpr habs] at h1; simp at h1
    · have : firstLevelGroupCount m k = groupCount m.d m.root (k.dig 0) := rfl
      omega
  obtain ⟨old, m', c', heq, _⟩ := hs.2 hnl
  exact ⟨old, m', c', heq⟩

/-- Iteration order is canonical: ascending lexicographic order of the digest vectors (pairwise: equal
    vectors or strictly ascending).  THIS theorem does not say in which order pairs with IDENTICAL digest
    vectors (full collisions) appear; that they keep their order of insertion is
    `C12.full_collisions_keep_insertion_order` / `C12.new_colliding_key_is_appended`
    (Props/C12Shape.lean). -/
theorem order_canonical (T : Nat) (D : DigestFn (r + 1)) (m : OMap r) (h : MapInv T D m) :
    (m.toList.map (fun p => p.1.digs)).Pairwise (fun a b => a = b ∨ List.Lex (· < ·) a b) :=
  MTreeInv.ordered m.d true m.root h.tree

/-! ### Non-vacuity

The concrete map `MapExample.run` (see C02: built by running the model with collision limit 1,
two digest levels, a digest function with a tiny alphabet) satisfies `MapInv`; the first-level
element under digest 3 is an external collision group holding two second-level digests (one of
them a last-level list of four fully colliding keys), so a NEW key with first-level digest 3
meets the hypotheses of `limit_refuses_new_key`. -/
section NonVacuity
open MapExample

example : MapInv 256 D2 run.1 := run_good.inv
example : cfg2.climit = 1 := rfl

/-- key 331: first-level digest 3, second-level digest 3 (new), absent -/
example : dictLookup run.1.toList (key 331) = none := by decide
example : firstLevelGroupCount run.1 (key 331) = 2 := by decide

/-- all hypotheses of `limit_refuses_new_key` hold, hence the insertion is refused -/
example : run.1.set cfg2 (key 331) (val 0) run.2 = .error .collisionLimit :=
  limit_refuses_new_key 256 legal256 D2 cfg2 run.1 run_good.cfgok run_good.inv (key 331) (key_ok _) (val 0)
    (val_ok _) run.2 run_good.ctx (by decide) (by decide)

/-- an update of a present key of the same group is accepted, and so is a key under a fresh digest -/
example : ∃ old m' c', run.1.set cfg2 (key 312) (val 0) run.2 = .ok (old, m', c') :=
  limit_allows_update_and_room 256 legal256 D2 cfg2 run.1 run_good.cfgok run_good.inv (key 312) (key_ok _) (val 0)
    (val_ok _) run.2 run_good.ctx (Or.inl (by decide))
example : ∃ old m' c', run.1.set cfg2 (key 411) (val 0) run.2 = .ok (old, m', c') :=
  limit_allows_update_and_room 256 legal256 D2 cfg2 run.1 run_good.cfgok run_good.inv (key 411) (key_ok _) (val 0)
    (val_ok _) run.2 run_good.ctx (Or.inr (by decide))

example := order_canonical 256 D2 run.1 run_good.inv

end NonVacuity

end Atree.C12
