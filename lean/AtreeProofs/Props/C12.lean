import AtreeProofs.MapInv
import AtreeProofs.MapLemmas
import AtreeProofs.Map.TreeBasics
/-
  C12 — Maps stay correct under arbitrary hash collisions and enforce the limit.
  C02's theorems already hold for EVERY digest function; this file adds the collision-limit
  behaviour and the shape of collision groups (which is part of `ElemsInv`).
-/
namespace Atree.C12
open Atree Gen

variable {r : Nat}

/-- number of entries with distinct second-level digests that share the first-level digest of `k`:
    the element count of the first-level element holding that digest (0 if there is none) -/
def firstLevelGroupCount (m : OMap r) (k : MKey) : Nat :=
  match (MTree.leaves m.d m.root).findSome? (fun s =>
      (s.elems.hkeys.zip s.elems.elems).find? (fun p => p.1 == k.dig 0)) with
  | some (_, el) => MElemF.count (MElems.ops r) el
  | none => 0

/-- Inserting a NEW key whose first-level digest is already shared by more than the limit of
    entries is refused with a collision-limit error (and, the operation being an error, the map is
    unchanged: `OMap.set` returns no new state). -/
theorem limit_refuses_new_key (T : Nat) (hT : legalThreshold T = true) (D : DigestFn (r + 1)) (cfg : MCfg)
    (m : OMap r) (hcfg : CfgOk cfg T m) (h : MapInv T D m) (k : MKey) (hk : KeyOk T (r + 1) D k)
    (v : Elem) (hv : ValueOkM v) (c : Ctx) (hc : CtxOk m c)
    (habsent : dictLookup m.toList k = none)
    (hfull : firstLevelGroupCount m k ≥ cfg.climit + 1) :
    m.set cfg k v c = .error .collisionLimit := by
  sorry

/-- … and is accepted when the group is not yet over the limit, or the key is present (update). -/
theorem limit_allows_update_and_room (T : Nat) (hT : legalThreshold T = true) (D : DigestFn (r + 1)) (cfg : MCfg)
    (m : OMap r) (hcfg : CfgOk cfg T m) (h : MapInv T D m) (k : MKey) (hk : KeyOk T (r + 1) D k)
    (v : Elem) (hv : ValueOkM v) (c : Ctx) (hc : CtxOk m c)
    (hroom : (dictLookup m.toList k).isSome ∨ firstLevelGroupCount m k < cfg.climit + 1) :
    ∃ old m' c', m.set cfg k v c = .ok (old, m', c') := by
  sorry

/-- Iteration order is canonical: ascending lexicographic order of the digest vectors; pairs with
    identical digest vectors (full collisions) keep their relative order of insertion, which is the
    order of `toList` (the insertion-ordered list at the last level only ever appends). -/
theorem order_canonical (T : Nat) (D : DigestFn (r + 1)) (m : OMap r) (h : MapInv T D m) :
    (m.toList.map (fun p => p.1.digs)).Pairwise (fun a b => a = b ∨ List.Lex (· < ·) a b) :=
  MTreeInv.ordered m.d true m.root h.tree

end Atree.C12
