import AtreeModel.Gen.Facts
/-
  Source-level premises of the storage properties (C03, C04, C16), regenerated from the Go sources
  by harness/cmd/extract (poolfacts.go) on every check run.  Each theorem pins what the extractor
  must find; a source change that invalidates a premise makes the theorem fail to check, and the
  property is reported as no longer established (the harness then searches for a failing input).

  What these facts are and are not: they are syntactic (go/ast, no type information), per function,
  flow-insensitive.  They do not prove absence of deadlocks or races; they tie the ASSUMPTIONS of the
  message-passing pool model (`AtreeModel/Commit.lean`: a result queue that never blocks, workers
  that only compute) and of `only_commit_touches_ledger` to the code as it is now.
-/
namespace Atree

namespace C03

/-- Nothing but the three commit functions can write the ledger, aliases included: the only
    expressions that denote the base storage are the field `baseStorage`, calls of `getBaseStorage`
    and parameters / variables / local aliases of them; the functions that select `Store` or
    `Remove` on ANY such expression are the three commit functions; such an expression is handed on
    (stored, returned, passed as an argument) only by the constructor and by the getter itself, and
    no function of the package calls the getter. -/
theorem base_storage_reachable_only_from_commit :
    Gen.baseStorageFields = ["baseStorage"] ∧
    Gen.baseStorageGetters = ["getBaseStorage"] ∧
    Gen.baseStorageEscapes = ["NewPersistentSlabStorage", "PersistentSlabStorage.getBaseStorage"] ∧
    Gen.baseStorageGetterCallers = [] ∧
    Gen.baseStorageMethodUses = [
      ("PersistentSlabStorage.BatchPreload", ["Retrieve"]),
      ("PersistentSlabStorage.Count", ["SegmentCounts"]),
      ("PersistentSlabStorage.FastCommit", ["Remove", "Store"]),
      ("PersistentSlabStorage.GenerateSlabID", ["GenerateSlabID"]),
      ("PersistentSlabStorage.NondeterministicFastCommit", ["Remove", "Store"]),
      ("PersistentSlabStorage.RetrieveIgnoringDeltas", ["Retrieve"]),
      ("PersistentSlabStorage.commit", ["Remove", "Store"])] := by
  exact ⟨rfl, rfl, rfl, rfl, rfl⟩

end C03

namespace C04

/-- Pool reuse cannot influence a result: every `put*` helper resets the very object it returns to
    its pool, and the pooled digester's `Reset` assigns every field that any other method of the
    type reads (the only field it leaves alone is the scratch buffer, which is handed to the
    caller's hash-input provider as writable space and never read by the digester). -/
theorem source_premises_pools :
    Gen.putResetsBeforePool = true ∧
    Gen.putResetsTheObjectItPuts = true ∧
    Gen.pooledDigesterType = "basicDigester" ∧
    Gen.pooledDigesterFieldsRead.all (fun f => Gen.pooledDigesterResetClears.contains f) = true ∧
    Gen.pooledDigesterFields.filter (fun f => !Gen.pooledDigesterResetClears.contains f) = ["scratch"] := by
  decide

end C04

namespace C16

/-- The premises of the worker-pool model, for all three pools (FastCommit,
    NondeterministicFastCommit, BatchPreload):
    * the result queue's capacity is the job count (the capacity expression of `results` is that
      of `jobs`, into which every job is put without blocking), so a worker's send never blocks,
      also after the collecting goroutine has returned early (`pool_results_bounded`);
    * `results` is closed exactly once, in the deferred cleanup, after `wg.Wait()`, and every worker
      signals `wg.Done()` on exit: no send on a closed channel;
    * the worker closures do nothing through the storage receiver but read fields: no assignment /
      delete / clear on its state, no method call rooted at it outside the read-only list, no use of
      the receiver as a value, no address of a field (all map writes happen on the calling goroutine). -/
theorem source_premises :
    Gen.poolResultsCapacityIsJobCount = true ∧
    Gen.poolChannelCapacities = [
      ("PersistentSlabStorage.FastCommit", "len(keysWithOwners)", "len(keysWithOwners)"),
      ("PersistentSlabStorage.NondeterministicFastCommit", "modifiedSlabCount", "modifiedSlabCount"),
      ("PersistentSlabStorage.BatchPreload", "len(ids)", "len(ids)")] ∧
    Gen.poolCleanupWaitsBeforeClose = true ∧
    Gen.workerClosuresWriteFree = true ∧ Gen.workerClosureCount = 3 ∧
    Gen.workerClosureReceiverUses = [
      ("PersistentSlabStorage.FastCommit", []),
      ("PersistentSlabStorage.NondeterministicFastCommit", []),
      ("PersistentSlabStorage.BatchPreload", [])] := by
  exact ⟨rfl, rfl, rfl, rfl, rfl, rfl⟩

end C16

end Atree
