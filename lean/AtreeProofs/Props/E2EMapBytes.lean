import AtreeProofs.E2EMapBytesSpec
import AtreeProofs.E2EMap.Bytes
import AtreeProofs.E2EMap.BytesStored
import AtreeProofs.E2EMap.BytesHistory
import AtreeProofs.Props.E2EMapFull
/-
  E2EMapBytes — the END-TO-END theorems for ordered maps with the BYTE-LEVEL codec
  (`AtreeModel/Codec`, C06 / C07 / C19) in place of the abstract one: the hypotheses `RoundTrip c`
  and `NoEncodeFailure c s` are discharged.

  COVERED (see `AtreeProofs/E2EMapBytesSpec.lean`): maps of plain keys and plain values of any size
  (the `OMap` model) with any digest function of at most nine levels: map data slabs (root with
  extra data / non-root, with / without sibling link) whose elements are single elements, inline
  collision groups nested down to last-level element lists, and references to external collision
  groups; map index slabs; the slabs of external collision groups; large-value slabs.
  NOT COVERED: nested containers / inlined children / wrapped values as keys or values (World
  model; `Stor.arr`, `Stor.map`, `Stor.some`, `storableG`).

  The keyed codec (`E2EM.keyedCodecM D`): a register is the ledger entry `(key, bytes)`, as for
  arrays; the decoder's output is completed with what the bytes do not contain – sizes, first keys,
  flags, and the digests of the keys, re-computed with the digest function `D`.
-/
namespace Atree.E2EM
open Atree Atree.Codec Gen St

variable {r : Nat}

/-- ROUND TRIP AT THE OWN KEY (maps).  `DecodeSlab(id, EncodeSlab(slab))`, completed with the digest
    function, is the slab, for a stored slab of a map that meets the encoder's preconditions, `id`
    being the slab's own ID (C07 `decode_encode_mdata` / `decode_encode_mindex` /
    `decode_encode_storable`). -/
theorem map_bytes_roundtrip_own_key (D : DigestFn (r + 1)) (v : MSSlab r) (ok : OkM D v) (id : SlabID)
    (hid : ownIdM v = id ∨ ∃ e, v = .large e) : decM D id (encM v) = some v :=
  decM_encM D v ok id hid

/-- The keyed byte codec for maps satisfies the abstract round-trip law assumed by C15 / C03 / C14 /
    C08 and by the E2E theorems. -/
theorem map_keyed_codec_roundtrip (D : DigestFn (r + 1)) : RoundTrip (keyedCodecM D) :=
  keyedCodecM_roundTrip D

/-- the encoder's preconditions on the model side imply those of the codec model (C07's
    hypotheses), for each of the three kinds of map slabs -/
theorem map_okM_gives_codec_ok (D : DigestFn (r + 1)) :
    (∀ (s : MDataSlab r) x, OkM D (.tree (.data s) x) →
      MapDataOK { id := s.hdr.id, next := s.next, extra := mextra x, els := toMEls (r + 1) s.elems,
                  anySize := false, group := false }) ∧
    (∀ (g : GroupSlab (MElems r)) x, OkM D (.tree (.group g) x) →
      MapDataOK { id := g.hdr.id, next := SlabID.undef, extra := mextra x, els := toMEls r g.elems,
                  anySize := true, group := true }) ∧
    (∀ (h : MHdr) (chs : List MHdr) (root : Bool) x, OkM D (.tree (.index h chs root) x : MSSlab r) →
      MapMetaOK { id := h.id, extra := mextra x, childHdrs := chs.map toMChildHdr }) :=
  ⟨mapDataOK_data D, mapDataOK_group D, mapMetaOK_index D⟩

/-- STORED SLABS ARE ENCODABLE (maps).  Every slab that the representation of a map (satisfying
    `MapInv`, with distinct slab IDs owned by the map's address and below the counter, encodable keys
    and values, and the field-width bounds `MEncOk`) puts into the storage – data slab with its
    external groups stripped to references, index slab, external collision-group slab, large-value
    slab – meets the encoder's preconditions (no `uint16` / `uint32` truncation, sizes and first keys
    as the decoder recomputes them, children at the parent's address, valid sibling link, nesting
    within the CBOR limit, keys carrying the digests of `D`, …) and is filed under its own ID. -/
theorem map_stored_slabs_encodable (T : Nat) (hT : legalThreshold T = true) (D : DigestFn (r + 1))
    (m : OMap r) (extra : SlabID → Option Elem) (ctr : Nat) (hinv : MapInv T D m) (hids : MIdsOk m)
    (haok : MAddrOk m) (hle : ∀ id ∈ AList.keys (MTree.slabs m.d m.root), id.idx ≤ ctr)
    (henc : MEncOk D m extra ctr) (id : SlabID) (v : MSSlab r) (hv : mstored m extra id = some v) :
    OkM D v ∧ (ownIdM v = id ∨ ∃ e, v = .large e) :=
  mstored_ok hT m extra ctr hinv hids haok hle henc id v hv

/-- A map whose external collision groups are smaller than 64 KiB satisfies the field-width
    hypothesis `GroupsFit`. -/
theorem map_small_groups_fit (T : Nat) (D : DigestFn (r + 1)) (m : OMap r) (hinv : MapInv T D m)
    (h : ∀ p ∈ MTree.slabs m.d m.root, SmallView p.2) : GroupsFit m :=
  groupsFit_of_small m hinv h

/-- the state after a history -/
abbrev runB (D : DigestFn (r + 1)) (cfg : MCfg) (ty : Nat) (seedOf : SlabID → Nat) (ops : List MOp) :
    (OMap r × Ctx) × St (MSSlab r) (SlabID × Bytes) :=
  runS (keyedCodecM D) cfg (newS (keyedCodecM D) cfg.addr ty seedOf) ops

theorem runB_good (T : Nat) (hT : legalThreshold T = true) (D : DigestFn (r + 1)) (cfg : MCfg)
    (hcT : cfg.T = T) (hcL : cfg.L = r + 1) (haddr : cfg.addr ≠ 0) (ty : Nat) (seedOf : SlabID → Nat)
    (ops : List MOp) (hops : ∀ op ∈ ops, op.Ok T D) :
    MGoodF (keyedCodecM D) T D cfg (runB D cfg ty seedOf ops) ∧
    (runB D cfg ty seedOf ops).1.1.rootID = ⟨cfg.addr, 1⟩ := by
  obtain ⟨g0, r0, _⟩ := mgoodF_new (keyedCodecM D) (keyedCodecM_roundTrip D) T hT D cfg hcT hcL haddr ty seedOf
  obtain ⟨g, _, r1, _⟩ := mgoodF_runS (keyedCodecM D) (keyedCodecM_roundTrip D) T hT D cfg ops _ g0 hops
  exact ⟨g, r1.trans r0⟩

/-- NO ENCODING FAILURE ALONG HISTORIES (maps).  After any history of requests with encodable keys
    and values, every slab pending in the storage can be encoded by the byte codec (given the
    field-width bounds `MWidths` on the final state). -/
theorem map_bytes_history_no_encode_failure (T : Nat) (hT : legalThreshold T = true) (D : DigestFn (r + 1))
    (cfg : MCfg) (hcT : cfg.T = T) (hcL : cfg.L = r + 1) (haddr : cfg.addr ≠ 0) (ty : Nat) (hty : ty < 2 ^ 64)
    (seedOf : SlabID → Nat) (ops : List MOp) (hops : ∀ op ∈ ops, op.Ok T D) (henc : ∀ op ∈ ops, op.Enc)
    (hw : MWidths D (runB D cfg ty seedOf ops).1) :
    NoEncodeFailure (keyedCodecM D) (runB D cfg ty seedOf ops).2 := by
  obtain ⟨g, _⟩ := runB_good T hT D cfg hcT hcL haddr ty seedOf ops hops
  obtain ⟨g0, _⟩ := mgoodF_new (keyedCodecM D) (keyedCodecM_roundTrip D) T hT D cfg hcT hcL haddr ty seedOf
  have he := mencSt_runS (keyedCodecM D) (keyedCodecM_roundTrip D) T hT D cfg ops _ g0
    (mencSt_new (keyedCodecM D) cfg.addr ty seedOf hty) hops henc
  exact noEncodeFailure_of_goodF T hT D cfg _ g he hw

/-- END-TO-END WITH THE BYTE CODEC (maps).  Every history of map requests (keys with any digests of at
    most nine levels, keys and values of any size ≥ 1 that the harness can encode), run against the
    storage state machine, followed by a fault-free commit of either kind (any worker orders) and a
    reopen on a fresh storage, yields – by `DecodeSlab` on the registers, through `Retrieve` or any
    transparent fetch – exactly the same map: same slabs, same external collision groups, same
    entries, same root ID, type info, count and seed; and the dictionary of resolved values is the
    dictionary semantics of the history.  No hypothesis on the codec. -/
theorem map_bytes_commit_reopen_identity (T : Nat) (hT : legalThreshold T = true) (D : DigestFn (r + 1))
    (cfg : MCfg) (hcT : cfg.T = T) (hcL : cfg.L = r + 1) (haddr : cfg.addr ≠ 0) (ty : Nat) (hty : ty < 2 ^ 64)
    (seedOf : SlabID → Nat) (ops : List MOp) (hops : ∀ op ∈ ops, op.Ok T D) (henc : ∀ op ∈ ops, op.Enc)
    (hw : MWidths D (runB D cfg ty seedOf ops).1)
    (kind : CommitKind) (mo dlo : List SlabID)
    (fetch : MFetch r (St (MSSlab r) (SlabID × Bytes))) (hf : MFetchOk (keyedCodecM D) fetch) (fuel : Nat) :
    let x := runB D cfg ty seedOf ops
    x.1.1.d < fuel →
    (St.step (keyedCodecM D) x.2 (.commit kind [] mo dlo)).2 = .unit ∧
    let reopened := St.run (keyedCodecM D) x.2 [.commit kind [] mo dlo, .recreate]
    ∃ s', loadMapSt fetch reopened ⟨cfg.addr, 1⟩ fuel = .ok (some x.1.1, s') ∧
      DictRun T D (fun _ => none) ops (lookupR x.1) := by
  intro x hfuel
  obtain ⟨g, hroot⟩ := runB_good T hT D cfg hcT hcL haddr ty seedOf ops hops
  have hne := map_bytes_history_no_encode_failure T hT D cfg hcT hcL haddr ty hty seedOf ops hops henc hw
  obtain ⟨_, _, _, _, _, _, _, _, _, hdict, _⟩ :=
    map_rep_history (keyedCodecM D) (keyedCodecM_roundTrip D) T hT D cfg hcT hcL haddr ty seedOf ops hops
  obtain ⟨h1, h2⟩ := map_commit_reopen_identity (keyedCodecM D) (keyedCodecM_roundTrip D) T hT D x.2 x.1.1 _ _
    g.inv g.ids g.aok g.addr g.rep g.st hne kind mo dlo fetch hf fuel hfuel
  refine ⟨h1, ?_⟩
  intro reopened
  obtain ⟨_, _, _, s', h3, _⟩ := h2
  have hroot' : x.1.1.rootID = ⟨cfg.addr, 1⟩ := hroot
  rw [hroot'] at h3
  exact ⟨s', h3, hdict⟩

theorem runS_cache (c : Codec (MSSlab r) (SlabID × Bytes)) (cfg : MCfg) :
    ∀ (ops : List MOp) (y : (OMap r × Ctx) × St (MSSlab r) (SlabID × Bytes)),
      (runS c cfg y ops).2.cache = y.2.cache
  | [], _ => rfl
  | op :: ops, y => by
    show (runS c cfg (stepS c cfg y op) ops).2.cache = y.2.cache
    rw [runS_cache c cfg ops]
    exact (applyEffs_frame c y.2 _ _).1

/-- THE LEDGER READ BY `DecodeSlab(id, bytes)` (maps).  After the history and the commit, decoding the
    bytes of every register of the owner with the REAL `DecodeSlab`, under the register's key (and
    re-hashing the keys), gives exactly the stored form of the slab of the map (data slab with
    references to its external groups, index slab, external group slab) or the large value that
    belongs there – and nothing where no slab belongs. -/
theorem map_ledger_read_by_decodeSlab (T : Nat) (hT : legalThreshold T = true) (D : DigestFn (r + 1))
    (cfg : MCfg) (hcT : cfg.T = T) (hcL : cfg.L = r + 1) (haddr : cfg.addr ≠ 0) (ty : Nat) (hty : ty < 2 ^ 64)
    (seedOf : SlabID → Nat) (ops : List MOp) (hops : ∀ op ∈ ops, op.Ok T D) (henc : ∀ op ∈ ops, op.Enc)
    (hw : MWidths D (runB D cfg ty seedOf ops).1)
    (kind : CommitKind) (mo dlo : List SlabID) :
    let x := runB D cfg ty seedOf ops
    let committed := (St.step (keyedCodecM D) x.2 (.commit kind [] mo dlo)).1
    ∀ id, id.addr = cfg.addr →
      (AList.find? committed.base id).bind (fun p => decM D id p.2)
        = mstored x.1.1 (AList.find? x.1.2.created) id := by
  intro x committed id hid
  obtain ⟨g, hroot⟩ := runB_good T hT D cfg hcT hcL haddr ty seedOf ops hops
  have ha : x.1.1.addr = cfg.addr := by
    show x.1.1.rootID.addr = cfg.addr
    rw [hroot]
  have hne := map_bytes_history_no_encode_failure T hT D cfg hcT hcL haddr ty hty seedOf ops hops henc hw
  obtain ⟨g0, _⟩ := mgoodF_new (keyedCodecM D) (keyedCodecM_roundTrip D) T hT D cfg hcT hcL haddr ty seedOf
  have he := mencSt_runS (keyedCodecM D) (keyedCodecM_roundTrip D) T hT D cfg ops _ g0
    (mencSt_new (keyedCodecM D) cfg.addr ty seedOf hty) hops henc
  have hok := mencOk_of_goodF (keyedCodecM D) T D cfg x g he hw
  have hfp : ∀ n, faultPlan [] n = false := fun n => by simp [faultPlan]
  obtain ⟨_, _, g3⟩ := commitW_complete (keyedCodecM D) (keyedCodecM_roundTrip D) kind (faultPlan []) hfp mo dlo
    x.2 g.st hne
  have hcm : committed = (commitW (keyedCodecM D) kind (faultPlan []) mo dlo x.2).st := by
    show (St.step (keyedCodecM D) x.2 (.commit kind [] mo dlo)).1 = _
    rw [step_commit]
  rw [hcm, g3 id]
  have hida : id.addr = x.1.1.addr := by rw [ha]; exact hid
  have hnt : id.isTemp = false := E2E.isTemp_of_addr hid haddr
  have hbase : x.2.base = [] := by
    have := runS_base (keyedCodecM D) cfg ops (newS (keyedCodecM D) cfg.addr ty seedOf)
    show (runS (keyedCodecM D) cfg (newS (keyedCodecM D) cfg.addr ty seedOf) ops).2.base = []
    rw [this]
    exact (applyEffs_frame (keyedCodecM D) St.init _ _).2
  have hcache : x.2.cache = [] := by
    show (runS (keyedCodecM D) cfg (newS (keyedCodecM D) cfg.addr ty seedOf) ops).2.cache = []
    rw [runS_cache]
    exact (applyEffs_frame (keyedCodecM D) St.init _ _).1
  have hview := g.rep.view id hida
  unfold target
  cases hd : AList.find? x.2.deltas id with
  | none =>
    simp only
    have hv0 : x.2.view (keyedCodecM D) id = none := by simp [St.view, hd, hbase, hcache]
    have hb0 : AList.find? x.2.base id = none := by rw [hbase]; rfl
    rw [hb0]
    exact hv0.symm.trans hview
  | some ov =>
    cases ov with
    | none =>
      simp only [hnt]
      rw [← hview, view_of_deltas (keyedCodecM D) x.2 id none hd]
      rfl
    | some v =>
      simp only [hnt]
      have hv : mstored x.1.1 (AList.find? x.1.2.created) id = some v := by
        rw [← hview, view_of_deltas (keyedCodecM D) x.2 id (some v) hd]
      obtain ⟨ok, hown⟩ := mstored_ok hT x.1.1 _ _ g.inv g.ids g.aok
        (keys_le_of_goodF (keyedCodecM D) T D cfg x g) hok id v hv
      rw [hv]
      simp only [keyedCodecM, ok, if_true, Bool.false_eq_true, if_false, Option.bind_some]
      exact decM_encM D v ok id hown

/-! ### Non-vacuity

The history `mhist` of `Props/E2EMap.lean` (two digest levels, T = 256: index-slab root over two data
slabs, inline collision groups, an EXTERNAL collision group, a rejected removal, `SetType`) with a
large value of 300 bytes (so that the registers stay small enough for kernel evaluation), run with
the byte codec: keys and values are encodable, the bounds hold, the theorems are instantiated; the
registers are evaluated (`decide`), and `DecodeSlab` on them gives the slabs back. -/
section NonVacuity
open MapExample

def mhistB : List MOp :=
  [.set (key 211) (val 1), .set (key 111) (val 2), .set (key 112) (val 3), .set (key 121) (val 4),
   .set (key 311) (val 5), .set (key 312) (val 6), .set (key 313) (val 7), .set (key 314) (val 8),
   .set (key 321) (val 9), .set (key 411) (val 10), .set (key 511) (val 11), .set (key 611) (val 12),
   .remove (key 411), .set (key 711) (val 13), .set (key 811) (val 14), .set (key 911) (val 15),
   .set (key 11) (val 16), .set (key 521) (val 17), .set (key 621) (val 18), .set (key 221) (val 19),
   .set (key 999) ⟨300, .val 7⟩, .remove (key 12345), .setType 9]

theorem mhistB_ok : ∀ op ∈ mhistB, op.Ok 256 D2 := by
  intro op hop
  simp only [mhistB, List.mem_cons, List.not_mem_nil, or_false] at hop
  rcases hop with rfl | rfl | rfl | rfl | rfl | rfl | rfl | rfl | rfl | rfl | rfl | rfl | rfl | rfl | rfl | rfl | rfl | rfl | rfl | rfl | rfl | rfl | rfl
  all_goals first
    | exact ⟨key_ok _, val_ok _⟩
    | exact key_ok _
    | exact ⟨key_ok _, ⟨by decide, 7, rfl⟩⟩
    | trivial

theorem mhistB_enc : ∀ op ∈ mhistB, op.Enc := by decide

/-- the state after the history, with registers of bytes -/
def xB : (OMap 1 × Ctx) × St (MSSlab 1) (SlabID × Bytes) := runB D2 cfg2 0 (fun id => id.idx) mhistB

theorem D2_digests : ∀ p, ∀ h ∈ D2.dg p, h < 2 ^ 64 := by
  intro p h hh
  simp only [D2, List.mem_cons, List.not_mem_nil, or_false] at hh
  rcases hh with rfl | rfl <;> omega

/-- the field-width bounds hold for the final state (the external group 7.2 has 139 bytes) -/
theorem xB_widths : MWidths D2 xB.1 :=
  ⟨by decide, D2_digests, by decide, by decide, by decide, by decide, by decide⟩

example : (msummary xB.1.1).d = 1 ∧ (msummary xB.1.1).ids = [⟨7, 1⟩, ⟨7, 3⟩, ⟨7, 2⟩, ⟨7, 4⟩] ∧
    (msummary xB.1.1).count = 19 ∧ (msummary xB.1.1).l.getLast? = some (999, ⟨19, .ref ⟨7, 5⟩⟩) := by decide
example : xB.1.2.created = [(⟨7, 5⟩, ⟨300, .val 7⟩)] := by decide
example : kinds xB.1.1
    = ["single", "inline", "inline", "external", "inline", "inline", "single", "single", "inline"] := by
  decide

example := map_bytes_history_no_encode_failure 256 legal256 D2 cfg2 rfl rfl (by decide) 0 (by decide)
  (fun id => id.idx) mhistB mhistB_ok mhistB_enc xB_widths
example := map_bytes_commit_reopen_identity 256 legal256 D2 cfg2 rfl rfl (by decide) 0 (by decide)
  (fun id => id.idx) mhistB mhistB_ok mhistB_enc xB_widths .det [] []
  _ (map_retrieve_is_fetch (keyedCodecM D2)) 2 (by decide)
example := map_ledger_read_by_decodeSlab 256 legal256 D2 cfg2 rfl rfl (by decide) 0 (by decide)
  (fun id => id.idx) mhistB mhistB_ok mhistB_enc xB_widths .nondet [⟨7, 3⟩] []

/-- the ledger after the commit: five registers, each filed under its own ID (the large-value slab
    carries none): the large value 7.5, the data slabs 7.4 and 7.3, the EXTERNAL collision group 7.2,
    the root index slab 7.1 -/
def reopenedB : St (MSSlab 1) (SlabID × Bytes) :=
  St.run (keyedCodecM D2) xB.2 [.commit .det [] [] [], .recreate]

set_option maxRecDepth 100000 in
example : reopenedB.base.map (fun p => (p.1, p.2.1, p.2.2.length))
    = [(⟨7, 5⟩, SlabID.undef, 302), (⟨7, 4⟩, ⟨7, 4⟩, 305), (⟨7, 3⟩, ⟨7, 3⟩, 265), (⟨7, 2⟩, ⟨7, 2⟩, 139),
       (⟨7, 1⟩, ⟨7, 1⟩, 52)] := by
  decide +kernel

-- the head bytes of the registers: version 1; flags: large value (0x3f: storable, any size); map data
-- slab with pointers (0x48: the reference to the large value 7.5); map data slab with sibling link
-- (0x12) and pointers (the reference to the external group 7.2); collision group of any size
-- (0x2b); map index slab, root (0x89)
set_option maxRecDepth 100000 in
example : reopenedB.base.map (fun p => p.2.2.take 2)
    = [[0x10, 0x3f], [0x10, 0x48], [0x12, 0x48], [0x10, 0x2b], [0x10, 0x89]] := by
  decide +kernel

def msummaryRB (x : Except StErr (Option (OMap 1) × St (MSSlab 1) (SlabID × Bytes))) : Option MSum :=
  match x with
  | .ok (some m, _) => some (msummary m)
  | _ => none

-- loading through `Retrieve` (= `DecodeSlab` on the registers, keys re-hashed) gives the map back,
-- external collision group included
set_option maxRecDepth 100000 in
example : msummaryRB (loadMapSt (fun s id => s.retrieve (keyedCodecM D2) id) reopenedB ⟨7, 1⟩ 2)
    = some (msummary xB.1.1) := by decide +kernel

def slabKindM (v : Option (MSSlab 1)) : Nat :=
  match v with
  | some (.tree (.data _) _) => 1
  | some (.tree (.index _ _ _) _) => 2
  | some (.tree (.group _) _) => 3
  | some (.large _) => 4
  | none => 0

-- `DecodeSlab(id, bytes)` itself on the registers: large value, two data slabs, external group,
-- index slab; and re-encoding what was decoded gives the registers back
set_option maxRecDepth 100000 in
example : (reopenedB.base.map (fun p => slabKindM (decM D2 p.1 p.2.2))) = [4, 1, 1, 3, 2] := by
  decide +kernel
set_option maxRecDepth 100000 in
example : (reopenedB.base.map (fun p => (decM D2 p.1 p.2.2).map encM)) = reopenedB.base.map (fun p => some p.2.2) := by
  decide +kernel

/- the stored data slab 7.3 is decoded with a REFERENCE to the external group 7.2 (placeholder,
    0 entries) and is `OkM`; the map model's data slab (which embeds the group) is NOT the stored form:
    the keyed codec refuses it (an encoding error) -/
set_option maxRecDepth 100000 in
example : extGroupSizes (decM D2 ⟨7, 3⟩ ((AList.find? reopenedB.base ⟨7, 3⟩).map (·.2)).get!) = [0] := by
  decide +kernel
example : (match xB.1.1.slabAt ⟨7, 3⟩ with
    | some (v, x) => (keyedCodecM D2).enc (.tree v x) |>.isSome
    | none => true) = false := by decide

/-- the preconditions are not trivially true: a key that does not carry the digests of `D2` is
    refused, and so is a slab whose size field disagrees with its elements -/
def badKeySlab : MSSlab 1 :=
  .tree (.data ⟨⟨⟨7, 1⟩, 39, 5⟩, SlabID.undef,
    ⟨[5], [.single ⟨⟨10, 1, [5, 6]⟩, val 1, 21⟩], 37, 0⟩, true, false⟩) (some (0, 1, 1))
def goodKeySlab : MSSlab 1 :=
  .tree (.data ⟨⟨⟨7, 1⟩, 39, 0⟩, SlabID.undef,
    ⟨[0], [.single ⟨⟨10, 1, [0, 0]⟩, val 1, 21⟩], 37, 0⟩, true, false⟩) (some (0, 1, 1))
def badSizeSlab : MSSlab 1 :=
  .tree (.data ⟨⟨⟨7, 1⟩, 40, 0⟩, SlabID.undef,
    ⟨[0], [.single ⟨⟨10, 1, [0, 0]⟩, val 1, 21⟩], 37, 0⟩, true, false⟩) (some (0, 1, 1))
example : ((keyedCodecM D2).enc goodKeySlab).isSome = true ∧ (keyedCodecM D2).enc badKeySlab = none ∧
    (keyedCodecM D2).enc badSizeSlab = none := by decide

end NonVacuity

end Atree.E2EM
