import AtreeProofs.WorldOkPop
import AtreeProofs.World.WPopMid
import AtreeProofs.World.WPopCont
import AtreeProofs.World.WPopForget
import AtreeProofs.World.WPopKeep
import AtreeProofs.Props.C10W
import AtreeProofs.Props.C10Get
/-
  C10 — THE GLOBAL INVARIANT of nested containers survives the BULK POPS through a handle
  (`World.arrPop`, `World.mapPop`, and their variants `arrPopKeep` / `mapPopKeep` where the caller
  keeps some of the popped child containers alive) and the DISPOSAL of containers (`World.forget`).
  PROPERTY THEOREMS.  This closes the gap left by `Props/C10W.lean`, whose operation theorems cover
  every operation except the pops ("`idxLive` and `hinfoLive` assume that containers are never
  forgotten").

  The invariant.  `WorldOk` as defined cannot survive a pop: its clause `hinfoLive` ("the parent
  recorded by every closure is live") is FALSE after popping a container that has a nested
  container `F` whose former element `X` was handed back to the caller earlier — the stale closure
  of the live `X` still names `F`, which the pop disposes of (`hinfoLive_fails_after_pop`, a run of
  the model).  All other clauses survive.  `WorldOk'` (AtreeProofs/WorldOkPop.lean) replaces
  `hinfoLive` by `hinfoBelow` ("the recorded parent has been allocated") and keeps every other
  clause verbatim; `WorldOk → WorldOk'` (`worldOk'_of_worldOk`), `WorldOk'` is `WorldOk` of the
  world without the closures whose parent is gone (`worldOk'_iff_prune`), it yields all the
  extraction lemmas of `C10W` (`worldOk'_idsOk`, …), and it is preserved by EVERY operation
  (`Props/C10WPopOps.lean`: the `C10W` operation theorems transported along the simulation
  `World.Sim`; non-vacuity and the counterexample: `Props/C10WPopEx.lean`).

  Hypotheses of the operation theorems: `WorldOk'`, and `HandleOk w h` — the pop goes through a
  current handle — exactly as in `C10W`.
-/
namespace Atree.C10W
open Atree Gen World

/-! ### 1. `WorldOk'` -/

/-- the weakening is a weakening -/
theorem worldOk'_of_worldOk {D : SlabID → DigestFn 4} {w : World} {ctr : Nat} (H : WorldOk D w ctr) :
    WorldOk' D w ctr := by
  obtain ⟨rank, H0⟩ := H
  exact ⟨rank, WorldOkPK.of_gen H0⟩

/-- … and what is lost is exactly `hinfoLive`: a world that satisfies `WorldOk'` and whose closures
    all name live parents satisfies `WorldOk` -/
theorem worldOk_of_worldOk' {D : SlabID → DigestFn 4} {w : World} {ctr : Nat} (H : WorldOk' D w ctr)
    (hl : HinfoLive w) : WorldOk D w ctr := by
  obtain ⟨rank, H0⟩ := H
  exact ⟨rank, H0.to_sim (Sim.refl ctr w) hl⟩

/-- `WorldOk'` is `WorldOk` up to the closures whose recorded parent has been disposed of -/
theorem worldOk'_iff_prune {D : SlabID → DigestFn 4} {w : World} {ctr : Nat} :
    WorldOk' D w ctr ↔ WorldOk D w.prune ctr ∧ HinfoBelow w ctr := by
  constructor
  · rintro ⟨rank, H0⟩
    exact ⟨⟨rank, H0.prune⟩, H0.hinfoBelow⟩
  · rintro ⟨⟨rank, H0⟩, hb⟩
    exact ⟨rank, WorldOkPK.of_sim H0 (sim_prune hb) (Nat.le_refl _) H0.mutIdx (fun _ h => absurd h id)⟩

/-- the kept containers all being standalone (or gone), `WorldOkKept` is `WorldOk'` -/
theorem worldOk'_of_kept {D : SlabID → DigestFn 4} {K : SlabID → Prop} {w : World} {ctr : Nat}
    (H : WorldOkKept D K w ctr) (hK : ∀ x c, K x → w.cont? x = some c → c.isInlined = false) :
    WorldOk' D w ctr := by
  obtain ⟨rank, H0⟩ := H
  refine ⟨rank, H0.legal, H0.ids, H0.addr, H0.conts, H0.slots, H0.band, H0.unique, ?_, H0.mutIdx, H0.closure,
    H0.rank, H0.below, H0.idxLive, H0.hinfoBelow⟩
  intro x c hx hi _
  refine H0.inlRef x c hx hi (fun hk => ?_)
  rw [hK x c hk hx] at hi; cases hi

/-- every container is filed under its value ID -/
theorem worldOk'_idsOk {D : SlabID → DigestFn 4} {w : World} {ctr : Nat} (H : WorldOk' D w ctr) : World.IdsOk w := by
  obtain ⟨_, H0⟩ := H; exact H0.ids

/-- `ElemSync` is part of `WorldOk'` -/
theorem worldOk'_elemSync {D : SlabID → DigestFn 4} {w : World} {ctr : Nat} (H : WorldOk' D w ctr) : ElemSync w :=
  (worldOk_elemSync (worldOk'_iff_prune.mp H).1 : ElemSync w.prune)

/-- `MutIdxOk` is part of `WorldOk'` -/
theorem worldOk'_mutIdxOk {D : SlabID → DigestFn 4} {w : World} {ctr : Nat} (H : WorldOk' D w ctr) : MutIdxOk w :=
  (worldOk_mutIdxOk (worldOk'_iff_prune.mp H).1 : MutIdxOk w.prune)

/-- every container is structurally valid in its form -/
theorem worldOk'_contOk {D : SlabID → DigestFn 4} {w : World} {ctr : Nat} (H : WorldOk' D w ctr) (x : SlabID) (c : Cont)
    (hc : w.cont? x = some c) : ContOk w.T (D x) ctr c ∧ c.vid = x :=
  worldOk_contOk (worldOk'_iff_prune.mp H).1 x c hc

/-- "a child is stored inline exactly when it occupies one slab that fits the slot's limit" -/
theorem worldOk'_inline_iff_fits {D : SlabID → DigestFn 4} {w : World} {ctr : Nat} (H : WorldOk' D w ctr)
    (p : SlabID) (pc : Cont) (hp : w.cont? p = some pc) (lim : Nat) (e : Elem) (hle : (lim, e) ∈ pc.slots w.T)
    (x : SlabID) (c : Cont) (hx : e.pay = .ref x) (hc : w.cont? x = some c) :
    ∃ wrap, slabIDStorableSize + 2 * wrap ≤ lim ∧ e.size = slotSize c wrap ∧
      c.isInlined = c.inlinable (lim - 2 * wrap) :=
  worldOk_inline_iff_fits (worldOk'_iff_prune.mp H).1 p pc hp lim e hle x c hx hc

/-- an inlined container is referenced by exactly one element of one live container -/
theorem worldOk'_inlined_referenced_once {D : SlabID → DigestFn 4} {w : World} {ctr : Nat} (H : WorldOk' D w ctr)
    (x : SlabID) (c : Cont) (hc : w.cont? x = some c) (hi : c.isInlined = true) :
    (∃ p, Holds w p x) ∧
    ∀ p p' pc pc' (i j : Nat), w.cont? p = some pc → w.cont? p' = some pc' →
      pc.pays[i]? = some (Pay.ref x) → pc'.pays[j]? = some (Pay.ref x) → p = p' ∧ i = j :=
  worldOk_inlined_referenced_once (worldOk'_iff_prune.mp H).1 x c hc hi

/-! ### 2. The bulk pops keep the invariant -/

private theorem arrPopKeep_unfold {w : World} {h : SlabID} {keep : List SlabID} {cx : Ctx} {a : Arr}
    {es : List Elem} {w' : World} {cx' : Ctx}
    (hc : w.cont? h = some (.arr a)) (hp : w.arrPopKeep h keep cx = .ok (es, w', cx')) :
    es = (a.popIterate cx).1 ∧
    ∃ fuel, notifyParent fuel
      (((w.setCont h (.arr (a.popIterate cx).2.1)).setIdx h []).forgetElems (disposed keep (a.popIterate cx).1))
      h (a.popIterate cx).2.2 = .ok (w', cx') := by
  unfold arrPopKeep at hp
  rw [hc] at hp
  simp only at hp
  split at hp
  · cases hp
  · rename_i w1 cx1 hn
    cases hp
    exact ⟨rfl, _, hn⟩

/-- `mapPopKeep` = emptying in place, disposal of what is not kept, ordinary parent notification -/
private theorem mapPopKeep_unfold {w : World} {h : SlabID} {keep : List SlabID} {cx : Ctx} {m : OMap 3}
    {kvs : List (MKey × Elem)} {w' : World} {cx' : Ctx}
    (hc : w.cont? h = some (.map m)) (hp : w.mapPopKeep h keep cx = .ok (kvs, w', cx')) :
    kvs = (m.popIterate cx).1 ∧
    ∃ fuel, notifyParent fuel
      ((w.setCont h (.map (m.popIterate cx).2.1)).forgetElems (disposed keep ((m.popIterate cx).1.map (·.2))))
      h (m.popIterate cx).2.2 = .ok (w', cx') := by
  unfold mapPopKeep at hp
  rw [hc] at hp
  simp only at hp
  split at hp
  · cases hp
  · rename_i w1 cx1 hn
    cases hp
    exact ⟨rfl, _, hn⟩

/-- a legal threshold is at least 256 -/
private theorem legal_ge {T : Nat} (h : legalThreshold T = true) : 256 ≤ T := by
  simp only [legalThreshold, minSlabSize, Bool.and_eq_true, decide_eq_true_eq] at h
  exact of_decide_eq_true h.1

/-- `Array.PopIterate` THROUGH A CURRENT HANDLE `h`, the caller keeping the popped child containers
    `keep` (`[]`: `worldOk_arrPop`).  Afterwards:
    * the invariant holds, except that a kept popped child that was inlined is an in-memory slab
      referenced by nobody (`WorldOkKept`: only the clause "every inlined container is referenced"
      is relaxed, and only for the kept popped children);
    * the popped elements are the array's, last to first; the emptied array is still filed under
      `h` (`PoppedAt`);
    * every container reachable from a disposed element is gone, every other container keeps its
      content, the kept children are detached roots (`PopFrame`);
    * the handle used, and every current handle of a container that is still there, is current. -/
theorem worldOk_arrPopKeep (D : SlabID → DigestFn 4) (w : World) (h : SlabID) (keep : List SlabID) (cx : Ctx)
    (es : List Elem) (w' : World) (cx' : Ctx) (H : WorldOk' D w cx.ctr) (hh : HandleOk w h)
    (hpop : w.arrPopKeep h keep cx = .ok (es, w', cx')) :
    ∃ a, w.cont? h = some (.arr a) ∧ es = a.toList.reverse ∧
      WorldOkKept D (KeptOf keep (.arr a)) w' cx'.ctr ∧ cx.ctr ≤ cx'.ctr ∧
      PoppedAt w' h (.arr a) ∧ PopFrame w w' h (.arr a) keep ∧ HandleOk w' h ∧
      (∀ z, HandleOk w z → (w'.cont? z).isSome → HandleOk w' z) := by
  obtain ⟨rank, H0⟩ := H
  obtain ⟨a, hc⟩ : ∃ a, w.cont? h = some (.arr a) := by
    unfold arrPopKeep at hpop
    split at hpop
    · exact ⟨_, by assumption⟩
    · cases hpop
  obtain ⟨hes, fuel, hn⟩ := arrPopKeep_unfold hc hpop
  obtain ⟨k1, k2, k3, k4, k5, k6⟩ := contOk_arr_pop H0.legal a cx (H0.conts h _ hc)
  have hfst : (a.popIterate cx).1 = a.toList.reverse := (arr_popIterate_refines a cx).1
  obtain ⟨g1, g2, ⟨c'', hc'', hsd⟩, g4, g5, g6, _⟩ := pop_core (keep := keep) (es := (a.popIterate cx).1) H0 hh hc
    (emptied_arr hc cx) (fun x => by simp) (fun e => by rw [hfst]; exact List.mem_reverse)
    k1 rfl k3 k4 (fun hi => by rw [k6 hi]; have := legal_ge H0.legal; simp [inlinedArrayDataSlabPrefixSize]; omega)
    (by rw [k2]; exact Nat.le_refl _) hn
  obtain ⟨a'', rfl, hl, hid, _⟩ := hsd.arr
  have hl' : a''.toList = [] := hl
  refine ⟨a, hc, hes.trans hfst, ⟨rank, g1.mono_K (fun x hx _ => hx.1)⟩, by rw [k2] at g2; exact g2,
    ⟨_, hc'', ?_, hl', ?_⟩, g4, g5, g6⟩
  · simp [Cont.sig, hl']
  · show a''.rootID = h
    rw [hid]; exact H0.ids h _ hc

/-- `OrderedMap.PopIterate` through a current handle, the caller keeping the popped child
    containers `keep`: as `worldOk_arrPopKeep` (the popped elements are the VALUES of the map). -/
theorem worldOk_mapPopKeep (D : SlabID → DigestFn 4) (w : World) (h : SlabID) (keep : List SlabID) (cx : Ctx)
    (kvs : List (MKey × Elem)) (w' : World) (cx' : Ctx) (H : WorldOk' D w cx.ctr) (hh : HandleOk w h)
    (hpop : w.mapPopKeep h keep cx = .ok (kvs, w', cx')) :
    ∃ m, w.cont? h = some (.map m) ∧ kvs = m.toList.reverse ∧
      WorldOkKept D (KeptOf keep (.map m)) w' cx'.ctr ∧ cx.ctr ≤ cx'.ctr ∧
      PoppedAt w' h (.map m) ∧ PopFrame w w' h (.map m) keep ∧ HandleOk w' h ∧
      (∀ z, HandleOk w z → (w'.cont? z).isSome → HandleOk w' z) := by
  obtain ⟨rank, H0⟩ := H
  obtain ⟨m, hc⟩ : ∃ m, w.cont? h = some (.map m) := by
    unfold mapPopKeep at hpop
    split at hpop
    · exact ⟨_, by assumption⟩
    · cases hpop
  obtain ⟨hes, fuel, hn⟩ := mapPopKeep_unfold hc hpop
  obtain ⟨k1, k2, k3, k4, k5, k6⟩ := contOk_map_pop H0.legal m cx (H0.conts h _ hc)
  have hfst : (m.popIterate cx).1 = m.toList.reverse := MTree.popIterate_fst m.d m.root cx
  have hidx : ∀ x, AList.find? ((w.setCont h (.map (m.popIterate cx).2.1)).idxOf h) x = none := by
    intro x
    cases hx : AList.find? ((w.setCont h (.map (m.popIterate cx).2.1)).idxOf h) x with
    | none => rfl
    | some i =>
      obtain ⟨_, a, ha⟩ := H0.idxLive h x i hx
      rw [hc] at ha; cases ha
  obtain ⟨g1, g2, ⟨c'', hc'', hsd⟩, g4, g5, g6, _⟩ := pop_core (keep := keep) (es := (m.popIterate cx).1.map (·.2)) H0 hh hc
    (emptied_map hc cx) hidx
    (fun e => by
      rw [hfst, List.map_reverse]
      exact List.mem_reverse)
    k1 rfl k3 k4 (fun hi => by
      rw [k6 hi]; have := legal_ge H0.legal
      simp [inlinedMapDataSlabPrefixSize, hkeyElementsPrefixSize]; omega)
    (by rw [k2]; exact Nat.le_refl _) hn
  obtain ⟨m'', rfl, hl, hid, _⟩ := hsd.map
  have hl' : m''.toList = [] := hl
  refine ⟨m, hc, hes.trans hfst, ⟨rank, g1.mono_K (fun x hx _ => hx.1)⟩, by rw [k2] at g2; exact g2,
    ⟨_, hc'', ?_, ?_, ?_⟩, g4, g5, g6⟩
  · simp [Cont.sig, hl']
  · simp [Cont.storedElems, hl']
  · show m''.rootID = h
    rw [hid]; exact H0.ids h _ hc

/-- `Array.PopIterate` through a current handle keeps the global invariant: every popped element is
    handed out (last to first), the emptied array is still filed under `h`, every container
    reachable from a popped element is gone and every other container keeps its content. -/
theorem worldOk_arrPop (D : SlabID → DigestFn 4) (w : World) (h : SlabID) (cx : Ctx)
    (es : List Elem) (w' : World) (cx' : Ctx) (H : WorldOk' D w cx.ctr) (hh : HandleOk w h)
    (hpop : w.arrPop h cx = .ok (es, w', cx')) :
    ∃ a, w.cont? h = some (.arr a) ∧ es = a.toList.reverse ∧
      WorldOk' D w' cx'.ctr ∧ cx.ctr ≤ cx'.ctr ∧
      PoppedAt w' h (.arr a) ∧ PopFrame w w' h (.arr a) [] ∧ HandleOk w' h ∧
      (∀ z, HandleOk w z → (w'.cont? z).isSome → HandleOk w' z) := by
  rw [← C10Get.arrPopKeep_nil] at hpop
  obtain ⟨a, g1, g2, g3, g4, g5, g6, g7, g8⟩ := worldOk_arrPopKeep D w h [] cx es w' cx' H hh hpop
  refine ⟨a, g1, g2, worldOk'_of_kept g3 (fun x c hk _ => ?_), g4, g5, g6, g7, g8⟩
  exact absurd hk.1 (by simp)

/-- `OrderedMap.PopIterate` through a current handle keeps the global invariant. -/
theorem worldOk_mapPop (D : SlabID → DigestFn 4) (w : World) (h : SlabID) (cx : Ctx)
    (kvs : List (MKey × Elem)) (w' : World) (cx' : Ctx) (H : WorldOk' D w cx.ctr) (hh : HandleOk w h)
    (hpop : w.mapPop h cx = .ok (kvs, w', cx')) :
    ∃ m, w.cont? h = some (.map m) ∧ kvs = m.toList.reverse ∧
      WorldOk' D w' cx'.ctr ∧ cx.ctr ≤ cx'.ctr ∧
      PoppedAt w' h (.map m) ∧ PopFrame w w' h (.map m) [] ∧ HandleOk w' h ∧
      (∀ z, HandleOk w z → (w'.cont? z).isSome → HandleOk w' z) := by
  rw [← C10Get.mapPopKeep_nil] at hpop
  obtain ⟨m, g1, g2, g3, g4, g5, g6, g7, g8⟩ := worldOk_mapPopKeep D w h [] cx kvs w' cx' H hh hpop
  refine ⟨m, g1, g2, worldOk'_of_kept g3 (fun x c hk _ => ?_), g4, g5, g6, g7, g8⟩
  exact absurd hk.1 (by simp)

/-- `WorldOkPK` for another rank function of the same world -/
private theorem pk_with_rank {D : SlabID → DigestFn 4} {rank rank' : SlabID → Nat} {K : SlabID → Prop}
    {w : World} {ctr : Nat} (H : WorldOkPK D rank K w ctr) (hr : CRank rank' w) : WorldOkPK D rank' K w ctr :=
  ⟨H.legal, H.ids, H.addr, H.conts, H.slots, H.band, H.unique, H.inlRef, H.mutIdx, H.closure, hr, H.below,
    H.idxLive, H.hinfoBelow⟩

/-- THE STRONG FRAME of `Array.PopIterate` through a current handle `h` (the caller keeping the popped
    containers `keep`): a container that is neither `h`, nor one of the containers `h` is nested in,
    nor below a popped element that is disposed of, is UNTOUCHED — same entry in the container table
    (content, sizes, form).  (`PopFrame` only says that kinds, keys and payloads are unchanged.) -/
theorem arrPopKeep_strong_frame (D : SlabID → DigestFn 4) (w : World) (h : SlabID) (keep : List SlabID) (cx : Ctx)
    (es : List Elem) (w' : World) (cx' : Ctx) (H : WorldOk' D w cx.ctr) (hh : HandleOk w h)
    (hpop : w.arrPopKeep h keep cx = .ok (es, w', cx')) :
    ∃ a, w.cont? h = some (.arr a) ∧
      ∀ z, ¬ Anc w z h → NotBelow w (disposedOf keep (.arr a)) z → w'.cont? z = w.cont? z := by
  obtain ⟨rank0, R0⟩ := H
  obtain ⟨a, hc⟩ : ∃ a, w.cont? h = some (.arr a) := by
    unfold arrPopKeep at hpop
    split at hpop
    · exact ⟨_, by assumption⟩
    · cases hpop
  refine ⟨a, hc, fun z hz hnb => ?_⟩
  obtain ⟨rank, hr, hle⟩ := rank_raise R0.rank h
  have H0 := pk_with_rank R0 hr
  obtain ⟨hes, fuel, hn⟩ := arrPopKeep_unfold hc hpop
  obtain ⟨k1, k2, k3, k4, k5, k6⟩ := contOk_arr_pop H0.legal a cx (H0.conts h _ hc)
  have hfst : (a.popIterate cx).1 = a.toList.reverse := (arr_popIterate_refines a cx).1
  have := pop_core (keep := keep) (es := (a.popIterate cx).1) H0 hh hc
    (emptied_arr hc cx) (fun x => by simp) (fun e => by rw [hfst]; exact List.mem_reverse)
    k1 rfl k3 k4 (fun hi => by rw [k6 hi]; have := legal_ge H0.legal; simp [inlinedArrayDataSlabPrefixSize]; omega)
    (by rw [k2]; exact Nat.le_refl _) hn
  exact this.2.2.2.2.2.2 z (fun he => hz (he ▸ Anc.refl)) (hle z hz) hnb

/-- THE STRONG FRAME of `OrderedMap.PopIterate` -/
theorem mapPopKeep_strong_frame (D : SlabID → DigestFn 4) (w : World) (h : SlabID) (keep : List SlabID) (cx : Ctx)
    (kvs : List (MKey × Elem)) (w' : World) (cx' : Ctx) (H : WorldOk' D w cx.ctr) (hh : HandleOk w h)
    (hpop : w.mapPopKeep h keep cx = .ok (kvs, w', cx')) :
    ∃ m, w.cont? h = some (.map m) ∧
      ∀ z, ¬ Anc w z h → NotBelow w (disposedOf keep (.map m)) z → w'.cont? z = w.cont? z := by
  obtain ⟨rank0, R0⟩ := H
  obtain ⟨m, hc⟩ : ∃ m, w.cont? h = some (.map m) := by
    unfold mapPopKeep at hpop
    split at hpop
    · exact ⟨_, by assumption⟩
    · cases hpop
  refine ⟨m, hc, fun z hz hnb => ?_⟩
  obtain ⟨rank, hr, hle⟩ := rank_raise R0.rank h
  have H0 := pk_with_rank R0 hr
  obtain ⟨hes, fuel, hn⟩ := mapPopKeep_unfold hc hpop
  obtain ⟨k1, k2, k3, k4, k5, k6⟩ := contOk_map_pop H0.legal m cx (H0.conts h _ hc)
  have hfst : (m.popIterate cx).1 = m.toList.reverse := MTree.popIterate_fst m.d m.root cx
  have hidx : ∀ x, AList.find? ((w.setCont h (.map (m.popIterate cx).2.1)).idxOf h) x = none := by
    intro x
    cases hx : AList.find? ((w.setCont h (.map (m.popIterate cx).2.1)).idxOf h) x with
    | none => rfl
    | some i =>
      obtain ⟨_, a, ha⟩ := H0.idxLive h x i hx
      rw [hc] at ha; cases ha
  have := pop_core (keep := keep) (es := (m.popIterate cx).1.map (·.2)) H0 hh hc
    (emptied_map hc cx) hidx
    (fun e => by
      rw [hfst, List.map_reverse]
      exact List.mem_reverse)
    k1 rfl k3 k4 (fun hi => by
      rw [k6 hi]; have := legal_ge H0.legal
      simp [inlinedMapDataSlabPrefixSize, hkeyElementsPrefixSize]; omega)
    (by rw [k2]; exact Nat.le_refl _) hn
  exact this.2.2.2.2.2.2 z (fun he => hz (he ▸ Anc.refl)) (hle z hz) hnb

/-! ### 3. Disposal of containers -/

/-- `World.forget` applied to ANY container `k` of ANY world removes exactly the containers reachable
    from `k` (through element references) from the three tables and touches nothing else. -/
theorem forget_removes_exactly_the_subtree (w : World) (k : SlabID) :
    ForgetFrame w (World.forget w.fuelOf w k) k :=
  forget_frame w k

/-- Disposing of a DETACHED ROOT `k` — a live container that no element refers to (a container
    handed back by `Remove` / `Set`, a popped child that was kept, a root the caller drops) — keeps
    the global invariant, and removes exactly the containers reachable from `k`. -/
theorem worldOk_forget (D : SlabID → DigestFn 4) (w : World) (k : SlabID) (ctr : Nat) (H : WorldOk' D w ctr)
    (hk : DetachedRoot w k) :
    WorldOk' D (World.forget w.fuelOf w k) ctr ∧ ForgetFrame w (World.forget w.fuelOf w k) k := by
  obtain ⟨rank, H0⟩ := H
  obtain ⟨h1, h2⟩ := forget_ok H0 hk
  exact ⟨⟨rank, h1.mono_K (fun x hx _ => hx.1)⟩, h2⟩

/-- The same while other popped containers are still kept by the caller: the disposed container
    leaves the set of relaxed containers. -/
theorem worldOk_forget_kept (D : SlabID → DigestFn 4) (K : SlabID → Prop) (w : World) (k : SlabID) (ctr : Nat)
    (H : WorldOkKept D K w ctr) (hk : DetachedRoot w k) :
    WorldOkKept D (fun x => K x ∧ x ≠ k) (World.forget w.fuelOf w k) ctr ∧
      ForgetFrame w (World.forget w.fuelOf w k) k := by
  obtain ⟨rank, H0⟩ := H
  obtain ⟨h1, h2⟩ := forget_ok H0 hk
  exact ⟨⟨rank, h1⟩, h2⟩

/-! ### 4. Popped containers kept by the caller (C11 for containers handed out by a bulk pop)

After `arrPopKeep` / `mapPopKeep` a kept popped child `k` is a DETACHED ROOT: live, with everything
below it, and referenced by nobody (`PopFrame`).  If it was standalone the invariant simply holds.
If it was INLINED it is now an in-memory slab outside every parent: the state violates exactly the
clause "every inlined container is referenced" of the invariant, at `k` and nowhere else
(`WorldOkKept`); the caller's disposal `World.forget … k` restores the invariant — also when `k` has
been mutated through its handle in between, a mutation that changes no other container. -/

/-- One kept popped child `k` (say of the array or map `c` filed under `h`), after the pop:
    * `k` is a detached root, and it and everything below it are unchanged (also in form);
    * if `k` is standalone, the invariant holds;
    * if `k` is inlined, the invariant does NOT hold — no element refers to the inlined `k` —
      and that is the only defect (`H`);
    * in both cases disposing of `k` gives the invariant back and removes exactly what was below
      `k`. -/
theorem kept_child_after_pop (D : SlabID → DigestFn 4) (w w' : World) (h k : SlabID) (c ck : Cont) (ctr : Nat)
    (H : WorldOkKept D (KeptOf [k] c) w' ctr) (hF : PopFrame w w' h c [k])
    (hkc : Pay.ref k ∈ c.pays) (hck : w.cont? k = some ck) :
    w'.cont? k = some ck ∧ DetachedRoot w' k ∧ (∀ z, Reach w k z → w'.cont? z = w.cont? z) ∧
    (ck.isInlined = false → WorldOk' D w' ctr) ∧
    (ck.isInlined = true → (¬ ∃ p, Holds w' p k) ∧ ∀ ctr', ¬ WorldOk' D w' ctr') ∧
    WorldOk' D (World.forget w'.fuelOf w' k) ctr ∧ ForgetFrame w' (World.forget w'.fuelOf w' k) k := by
  have hK : KeptOf [k] c k := ⟨by simp, hkc⟩
  have hkl : (w.cont? k).isSome := by rw [hck]; rfl
  obtain ⟨hroot, hsub⟩ := hF.2.2.1 k hK hkl
  have hk' : w'.cont? k = some ck := by rw [hsub k (Reach.refl hkl)]; exact hck
  obtain ⟨f1, f2⟩ := worldOk_forget_kept D _ w' k ctr H hroot
  refine ⟨hk', hroot, hsub, fun hst => ?_, fun hinl => ⟨fun ⟨p, hp⟩ => hroot.2 p hp, fun ctr' H' => ?_⟩, ?_, f2⟩
  · refine worldOk'_of_kept H (fun x cx hx hcx => ?_)
    have : x = k := by simpa using hx.1
    subst this
    rw [hk'] at hcx; cases hcx; exact hst
  · obtain ⟨⟨p, hp⟩, _⟩ := worldOk'_inlined_referenced_once H' k ck hk' hinl
    exact hroot.2 p hp
  · obtain ⟨rank, F1⟩ := f1
    refine ⟨rank, F1.mono_K (fun x hx _ => ?_)⟩
    have : x = k := by simpa using hx.1.1
    exact hx.2 this

/-- The notification of a detached root (its closure still names the container it was popped or
    removed from) finds nothing: no container, index table or storage effect changes; at most the
    stale closure is dropped.  (`C10Get.kept_child_notification_is_noop` and the `C11` theorems
    assume that the recorded slot is empty; here this follows from the invariant.) -/
theorem detached_root_notification_is_noop (D : SlabID → DigestFn 4) (K : SlabID → Prop) (fuel : Nat)
    (w : World) (k : SlabID) (cx : Ctx) (w' : World) (cx' : Ctx) (ctr : Nat)
    (H : WorldOkKept D K w ctr) (hk : DetachedRoot w k) (h : notifyParent fuel w k cx = .ok (w', cx')) :
    cx' = cx ∧ (w' = w ∨ w' = { w with hinfo := AList.erase w.hinfo k }) := by
  obtain ⟨rank, H0⟩ := H
  obtain ⟨r1, r2⟩ := H0.root_closure_finds_nothing hk.2
  exact notify_finds_nothing r1 r2 h

/-- `Array.Insert` of a plain value through the handle of a kept popped child `k` (inlined or not)
    — more generally of any detached root — inserts the element and changes NO other container,
    closure or index table; and disposing of `k` afterwards restores the global invariant (when `k`
    is the only kept container) and removes exactly what is below `k`. -/
theorem kept_child_arrInsert (D : SlabID → DigestFn 4) (K : SlabID → Prop) (w : World) (k : SlabID) (i : Nat)
    (e : Elem) (cx : Ctx) (w'' : World) (cx'' : Ctx)
    (H : WorldOkKept D K w cx.ctr) (hk : DetachedRoot w k) (hv : ValueOk e ∧ e.size ≤ maxInlineArr w.T)
    (h : w.arrInsert k i (.plain e) cx = .ok (w'', cx'')) :
    (∃ a a'', w.cont? k = some (.arr a) ∧ w''.cont? k = some (.arr a'') ∧ i ≤ a.toList.length ∧
      a''.toList = a.toList.insertIdx i e) ∧
    SigFrame w w'' k ∧
    (∀ z, z ≠ k → w''.cont? z = w.cont? z ∧ AList.find? w''.hinfo z = AList.find? w.hinfo z ∧
      AList.find? w''.mutIdx z = AList.find? w.mutIdx z) ∧
    cx.ctr ≤ cx''.ctr ∧
    ((∀ x, K x → x = k) → WorldOk' D (World.forget w''.fuelOf w'' k) cx''.ctr) ∧
    ForgetFrame w'' (World.forget w''.fuelOf w'' k) k := by
  obtain ⟨rank, H0⟩ := H
  obtain ⟨a, a'', hc, hc2, hi, hl, hT, ha, hctr, hoth⟩ := root_arrInsert_plain H0 hk ⟨hv.1.1, hv.2⟩ h
  refine ⟨⟨a, a'', hc, hc2, hi, hl⟩, SigFrame.of_conts (fun z hz => (hoth z hz).1), hoth, hctr, fun hK => ?_,
    forget_frame w'' k⟩
  have hrefs : ∀ y, (w.cont? y).isSome → (Pay.ref y ∈ (Cont.arr a'').pays ↔ Pay.ref y ∈ (Cont.arr a).pays) := by
    intro y _
    obtain ⟨n, hn⟩ := hv.1.2
    simp only [Cont.pays, Cont.storedElems, hl, List.mem_map]
    constructor
    · rintro ⟨e', he', hp'⟩
      rcases (List.mem_insertIdx hi).mp he' with rfl | hm
      · rw [hn] at hp'; cases hp'
      · exact ⟨e', hm, hp'⟩
    · rintro ⟨e', he', hp'⟩
      exact ⟨e', (List.mem_insertIdx hi).mpr (Or.inr he'), hp'⟩
  have := forget_after_mutation H0 hk hT ha hoth hc hc2 hrefs
  exact ⟨rank, (this.mono_K (fun x hx _ => hx.2 (hK x hx.1))).mono_ctr hctr⟩

/-- `OrderedMap.Set` of a plain value through the handle of a kept popped child `k` (a map): no
    other container's content changes.  `hself`: the closure of `k` does not name `k` itself. -/
theorem kept_child_mapSet_frame (D : SlabID → DigestFn 4) (K : SlabID → Prop) (w : World) (k : SlabID) (key : MKey)
    (e : Elem) (cx : Ctx) (old : Option Elem) (w'' : World) (cx'' : Ctx) (ctr : Nat)
    (H : WorldOkKept D K w ctr) (hk : DetachedRoot w k)
    (hself : ∀ hi, AList.find? w.hinfo k = some hi → hi.parent ≠ k)
    (h : w.mapSet k key (.plain e) cx = .ok (old, w'', cx'')) : SigFrame w w'' k := by
  obtain ⟨rank, H0⟩ := H
  exact root_mapSet_plain_frame H0 hk hself h

end Atree.C10W
