import AtreeProofs.Props.C17Ids
import AtreeProofs.Batch.ArrayRefsBuild
import AtreeProofs.BatchRefsSpec
import AtreeProofs.E2ESpec
/-
  C17 — large values in a bulk build (audit a1 F9, FX9H).  PROPERTY THEOREMS.

  `C17.batch_map_content` / `batch_array_content` say that a value above the inline limit is held
  as "the stored form under some storage context", i.e. as SOME 19-byte reference.  Here: the
  reference RESOLVES — in the table of created large-value slabs of the context after the call
  (`Ctx.created`, what `Value.Storable` stored) — to the input value; its identifier was allocated
  during the call, is different from every other reference of the result and is not a slab of the
  result tree (`MRefsOk` / `ARefsOk`, the invariants single operations preserve, `Props/C09MapRefs`,
  `Props/C09Refs`).  `E2E.values`-style: the resolved content of the result is the input stream.

  Hypothesis `CreatedTableOk addr c` on the context the call starts from: the created-slab table
  holds no identifier of the owner above the allocation counter (every context reached by running
  operations from an empty table satisfies it; without it a stale table entry under the next
  identifier would shadow the slab the call creates).
-/
namespace Atree.C17
open Atree Gen

variable {T r : Nat}

theorem keysDistinct_unique {l : List (MKey × Elem)} (h : KeysDistinct l) {k : MKey} {v v' : Elem}
    (h1 : (k, v) ∈ l) (h2 : (k, v') ∈ l) : v = v' := by
  induction l with
  | nil => simp at h1
  | cons a l ih =>
    unfold KeysDistinct at h
    rw [List.pairwise_cons] at h
    simp only [List.mem_cons] at h1 h2
    rcases h1 with h1 | h1 <;> rcases h2 with h2 | h2
    · rw [← h1] at h2; exact (Prod.mk.inj h2).2.symm
    · have := h.1 _ h2
      rw [← h1] at this
      simp [MKey.same_self] at this
    · have := h.1 _ h1
      rw [← h2] at this
      simp [MKey.same_self] at this
    · exact ih h.2 h1 h2

theorem keysDistinct_nodup {l : List (MKey × Elem)} (h : KeysDistinct l) : l.Nodup := by
  unfold KeysDistinct at h
  refine h.imp ?_
  intro a b hab he
  rw [he, MKey.same_self] at hab
  cases hab

theorem mem_zipWith_of_mem {α β γ : Type} (f : α → β → γ) : ∀ (l : List α) (cs : List β), cs.length = l.length →
    ∀ a ∈ l, ∃ b, f a b ∈ List.zipWith f l cs
  | [], _, _, a, ha => by simp at ha
  | x :: l, [], h, _, _ => by simp at h
  | x :: l, b :: cs, h, a, ha => by
    simp only [List.mem_cons] at ha
    rcases ha with rfl | ha
    · exact ⟨b, by simp⟩
    · obtain ⟨b', hb'⟩ := mem_zipWith_of_mem f l cs (by simpa using h) a ha
      exact ⟨b', by simp [hb']⟩

/-- `Represents` read through `E2E.resolve` (plain input value) -/
theorem resolve_of_represents {T : Nat} {created : List (SlabID × Elem)} {k : MKey} {v e : Elem} (hv : ValueOkM v)
    (h : Represents T created k v e) : E2E.resolve created e = v := by
  obtain ⟨_, n, hn⟩ := hv
  rcases h with ⟨_, rfl⟩ | ⟨_, id, rfl, hf⟩
  · simp [E2E.resolve, hn]
  · simp [E2E.resolve, hf]

/-- Large values of a bulk-built MAP.  If `NewMapFromBatchData` succeeds on a stream of pairs with
    keys within the key limit and plain values of any size ≥ 1, started in a context with a sound
    created-slab table, then
    * the references of the result are well formed (`MRefsOk`: pairwise different, no slab of the
      result tree, owner address, index ≥ 1 and ≤ the counter after the call) and every one was
      allocated during the call (index above the counter before it);
    * for every input pair whose value is ABOVE the inline limit for its key the result holds
      `(key, ⟨19, .ref id⟩)` and `id` resolves to the input value in the created-slab table;
    * every input pair whose value is within the limit is held as it is;
    * the resolved pair sequence of the result is the input stream (as a multiset; the order
      inside a first-level collision group follows the deeper digests, `C17.batch_map_content`). -/
theorem batch_map_refs_resolve (D : DigestFn (r + 1)) (hT : legalThreshold T = true) (cfg : MCfg)
    (hcT : cfg.T = T) (hcL : cfg.L = r + 1) (ty seed : Nat) (kvs : List (MKey × Elem))
    (hkv : ∀ p ∈ kvs, KeyOk T (r + 1) D p.1 ∧ ValueOkM p.2) (c : Ctx) (hcr : CreatedTableOk cfg.addr c)
    (m : OMap r) (c' : Ctx) (h : OMap.fromBatchData cfg ty seed kvs c = .ok (m, c')) :
    MRefsOk m c'.ctr ∧ (∀ id ∈ m.refIds, c.ctr < id.idx) ∧ CreatedTableOk cfg.addr c' ∧
    (∀ p ∈ kvs, maxInlineMapValue T p.1.size < p.2.size →
      ∃ id, (p.1, (⟨slabIDStorableSize, .ref id⟩ : Elem)) ∈ m.toList ∧ AList.find? c'.created id = some p.2 ∧
        id ∈ m.refIds) ∧
    (∀ p ∈ kvs, p.2.size ≤ maxInlineMapValue T p.1.size → p ∈ m.toList) ∧
    (m.toList.map (resolvePair c'.created)).Perm kvs := by
  obtain ⟨hF, _, hrest⟩ := fromBatchData_ids (D := D) hT ⟨hcT, hcL⟩ ty seed kvs hkv c m c' h
  obtain ⟨hcr', hrepr⟩ := hrest hcr
  rw [hcT] at hrepr
  obtain ⟨hdist, ⟨cs, hcs, hperm⟩, hdistm⟩ := batch_map_content D hT cfg hcT hcL ty seed kvs hkv c m c' h
  have haddr : m.addr = cfg.addr := (hF.2.2 m.rootID (List.mem_append.mpr (Or.inl m.rootID_mem_slabIds))).1
  -- every input pair has a stored pair under its key, which represents it
  have hstored : ∀ p ∈ kvs, ∃ e, (p.1, e) ∈ m.toList ∧ Represents T c'.created p.1 p.2 e := by
    intro p hp
    obtain ⟨c1, hc1⟩ := mem_zipWith_of_mem (fun p c => (p.1, storedValue cfg p.1 p.2 c)) kvs cs hcs p hp
    have hm := hperm.mem_iff.mpr hc1
    obtain ⟨v, hv, hr⟩ := hrepr _ hm
    have : v = p.2 := keysDistinct_unique hdist hv (by exact hp)
    subst this
    exact ⟨_, hm, hr⟩
  refine ⟨?_, ?_, hcr', ?_, ?_, ?_⟩
  · have hnd := hF.2.1
    rw [List.nodup_append] at hnd
    refine ⟨hnd.2.1, ?_⟩
    intro id hid
    have hf := hF.2.2 id (List.mem_append.mpr (Or.inr hid))
    refine ⟨?_, by rw [haddr]; exact hf.1, by have := hf.2.1; omega, hf.2.2⟩
    rw [← OMap.slabIds_eq_keys]
    intro hin
    exact hnd.2.2 id hin id hid rfl
  · intro id hid
    exact (hF.2.2 id (List.mem_append.mpr (Or.inr hid))).2.1
  · intro p hp hbig
    obtain ⟨e, hm, hr⟩ := hstored p hp
    rcases hr with ⟨hs, _⟩ | ⟨_, id, rfl, hf⟩
    · omega
    · refine ⟨id, hm, hf, ?_⟩
      unfold OMap.refIds OMap.refsOf
      exact List.mem_filterMap.mpr ⟨_, hm, rfl⟩
  · intro p hp hsmall
    obtain ⟨e, hm, hr⟩ := hstored p hp
    rcases hr with ⟨_, rfl⟩ | ⟨hb, _⟩
    · exact hm
    · omega
  · have hlen : (m.toList.map (resolvePair c'.created)).length = kvs.length := by
      rw [List.length_map, hperm.length_eq, List.length_zipWith, hcs, Nat.min_self]
    have hsub : m.toList.map (resolvePair c'.created) ⊆ kvs := by
      intro q hq
      obtain ⟨p, hp, rfl⟩ := List.mem_map.mp hq
      obtain ⟨v, hv, hr⟩ := hrepr p hp
      have := resolve_of_represents (hkv _ hv).2 hr
      simp only [resolvePair]
      simp only at this
      rw [this]
      exact hv
    have hnd : (m.toList.map (resolvePair c'.created)).Nodup := by
      unfold List.Nodup
      rw [List.pairwise_map]
      refine (show m.toList.Pairwise (fun a b => a.1.same b.1 = false) from hdistm).imp ?_
      intro a b hab he
      have hk : (resolvePair c'.created a).1 = (resolvePair c'.created b).1 := congrArg Prod.fst he
      have hk' : a.1 = b.1 := hk
      rw [hk', MKey.same_self] at hab
      cases hab
    exact (List.subperm_of_subset hnd hsub).perm_of_length_le (by omega)

/-! ## Arrays -/

theorem resolve_of_reprA {T : Nat} {created : List (SlabID × Elem)} {v e : Elem} (hv : ValueOk v)
    (h : ReprA T created v e) : E2E.resolve created e = v := by
  obtain ⟨_, n, hn⟩ := hv
  rcases h with ⟨_, rfl⟩ | ⟨_, id, rfl, hf⟩
  · simp [E2E.resolve, hn]
  · simp [E2E.resolve, hf]

theorem forall2_reprA_resolve {T : Nat} {created : List (SlabID × Elem)} {vs es : List Elem}
    (hvs : ∀ v ∈ vs, ValueOk v) (h : List.Forall₂ (ReprA T created) vs es) :
    es.map (E2E.resolve created) = vs := by
  induction h with
  | nil => rfl
  | cons h1 _ ih =>
    rw [List.map_cons, resolve_of_reprA (hvs _ (by simp)) h1, ih (fun v hv => hvs v (by simp [hv]))]

/-- Large values of a bulk-built ARRAY.  If `NewArrayFromBatchData` succeeds on plain values of
    any size ≥ 1, started in a context with a sound created-slab table, then
    * the references of the result are well formed (`ARefsOk`: pairwise different, no slab of the
      result tree, owner address, index ≥ 1 and ≤ the counter after the call) and every one was
      allocated during the call;
    * POSITION BY POSITION (`List.Forall₂`) the element stored for an input value within the
      inline limit is the value, and the element stored for a value above the limit is
      `⟨19, .ref id⟩` with `id` resolving to that input value in the created-slab table;
    * the value sequence the result represents (`E2E.values`: references resolved) IS the input. -/
theorem batch_array_refs_resolve (T addr ty : Nat) (hT : legalThreshold T = true) (vs : List Elem)
    (hvs : ∀ v ∈ vs, ValueOk v) (c : Ctx) (hcr : CreatedTableOk addr c)
    (a : Arr) (c' : Ctx) (h : Arr.fromBatchData T addr ty vs c = .ok (a, c')) :
    ARefsOk a c'.ctr ∧ (∀ id ∈ a.refIds, c.ctr < id.idx) ∧ CreatedTableOk addr c' ∧
    List.Forall₂ (ReprA T c'.created) vs a.toList ∧
    E2E.values (a, c') = vs := by
  obtain ⟨hF, hrest⟩ := arr_fromBatchData_refs hT addr ty vs hvs c a c' h
  obtain ⟨hcr', hrepr⟩ := hrest hcr
  have haddr : a.addr = addr :=
    (hF.2.2 (ATree.hdr a.d a.root).id (List.mem_append.mpr (Or.inl (hdr_id_mem_slabIds a.d a.root)))).1
  have hnd := hF.2.1
  rw [List.nodup_append] at hnd
  refine ⟨⟨hnd.2.1, ?_, ?_⟩, ?_, hcr', hrepr, ?_⟩
  · intro id hid hin
    exact hnd.2.2 id hin id hid rfl
  · intro id hid
    have hf := hF.2.2 id (List.mem_append.mpr (Or.inr hid))
    exact ⟨by rw [haddr]; exact hf.1, by have := hf.2.1; omega, hf.2.2⟩
  · intro id hid
    exact (hF.2.2 id (List.mem_append.mpr (Or.inr hid))).2.1
  · exact forall2_reprA_resolve hvs hrepr

/-! ## Non-vacuity

Maps: the two-level build `idsBuilt` of Props/C17Ids.lean (24 pairs, external collision group, the
value of key 500 has 300 bytes): it starts from an empty created-slab table; the result holds one
reference and it resolves to the 300-byte value.
Arrays: 40 values at threshold 256 from counter 40, the values at positions 3 and 30 have 300
bytes: two levels, two references. -/
section NonVacuity
open MapExample

theorem idsCtx_created : CreatedTableOk cfg2.addr idsCtx := by
  intro p hp; cases hp

theorem idsBuilt_refs :
    (match idsBuilt with
     | .ok (m, c') => decide (m.refIds.map (AList.find? c'.created) = [some ⟨300, .val 500⟩]) &&
         decide (m.d = 1)
     | .error _ => false) = true := by
  decide

example : ∃ (m : OMap 1) (c' : Ctx), idsBuilt = .ok (m, c') ∧ MRefsOk m c'.ctr ∧ m.refIds.length = 1 ∧
    (m.toList.map (resolvePair c'.created)).Perm idsKvs := by
  obtain ⟨m, c', h1, _⟩ := batch_map_invI D2 (T := 256) (by decide) cfg2 rfl rfl 0 12345
    (by decide) idsKvs idsKvs_ok (by decide) (by unfold KeysDistinct; decide) idsCtx
  obtain ⟨g1, _, _, _, _, g6⟩ := batch_map_refs_resolve D2 (T := 256) (by decide) cfg2 rfl rfl 0 12345 idsKvs idsKvs_ok
    idsCtx idsCtx_created m c' h1
  have hb : idsBuilt = .ok (m, c') := h1
  have hs := idsBuilt_shape
  rw [hb] at hs
  simp only [Bool.and_eq_true, decide_eq_true_eq] at hs
  exact ⟨m, c', hb, g1, hs.1.1.2, g6⟩

def arrVals : List Elem :=
  (List.range 40).map (fun i => if i = 3 ∨ i = 30 then ({ size := 300, pay := .val i } : Elem) else { size := 20, pay := .val i })

def arrBuilt : BRes (Arr × Ctx) := Arr.fromBatchData 256 7 0 arrVals { ctr := 40, eff := [] }

theorem arrVals_ok : ∀ v ∈ arrVals, ValueOk v := by
  intro v hv
  obtain ⟨n, _, rfl⟩ := List.mem_map.mp hv
  split
  · exact ⟨(by decide : 1 ≤ 300), _, rfl⟩
  · exact ⟨(by decide : 1 ≤ 20), _, rfl⟩

theorem arrBuilt_shape :
    (match arrBuilt with
     | .ok (a, c') => decide (a.d = 1) && decide (a.refIds.length = 2) && decide (40 < c'.ctr) &&
         decide (a.refIds.map (AList.find? c'.created) = [some ⟨300, .val 3⟩, some ⟨300, .val 30⟩])
     | .error _ => false) = true := by
  decide

example : ∃ (a : Arr) (c' : Ctx), arrBuilt = .ok (a, c') ∧ a.d = 1 ∧ a.refIds.length = 2 ∧ ARefsOk a c'.ctr ∧
    E2E.values (a, c') = arrVals := by
  obtain ⟨a, c', h1, _⟩ := batch_array_inv 256 7 0 (by decide) arrVals { ctr := 40, eff := [] } arrVals_ok (by decide)
  obtain ⟨g1, _, _, _, g5⟩ := batch_array_refs_resolve 256 7 0 (by decide) arrVals arrVals_ok { ctr := 40, eff := [] }
    (by intro p hp; cases hp) a c' h1
  have hb : arrBuilt = .ok (a, c') := h1
  have hs := arrBuilt_shape
  rw [hb] at hs
  simp only [Bool.and_eq_true, decide_eq_true_eq] at hs
  exact ⟨a, c', hb, hs.1.1.1, hs.1.1.2, g1, g5⟩

end NonVacuity

end Atree.C17
