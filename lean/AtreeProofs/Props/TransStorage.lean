import AtreeProofs.Trans.Storage
import AtreeProofs.StorageLemmas2
import AtreeModel.StorageOps
import AtreeProofs.OrderLemmas
/-
  C15 / C03 / C08 / C14: the SEQUENTIAL part of `PersistentSlabStorage` (storage.go), REGENERATED from the Go
  source on every run (`Gen/TransStorage.lean`, harness/cmd/gotrans/stateful*.go), computes what the hand-written
  state machine `AtreeModel/Storage.lean` (namespace `Atree.St`) computes.

  Shape of the statements: for EVERY generated state `s` (no invariant), every identifier / slab / key list,
  every codec `c`, fault plan, `ByteSize` function and every choice `j` of the values Go leaves unspecified,

      generated function (envM c fault sz j) s args  =  (observation, conc (model function (abs s) args) n log)

  where `abs` / `conc` translate states (`Trans/Storage.lean`; `conc (abs s) n log = s`), the observation is
  spelled out in full (slab, found flag, error value), and the error value has the model's error class.
  The state after a failing call is part of the statement (Go mutates before it returns an error).

  The only hypotheses: `GenerateSlabID` for the temporary address needs `tempSlabIndex + 1 < 2^64` for the
  returned identifier (Go wraps, the model does not: `St_generateSlabID_differs_at`); the counters are equal
  modulo 2^64 (`uint` / `uint64` results).  Maps: `WF` (distinct keys) is preserved by every function
  (`St_wf_*`) and is needed by NO equivalence below; it is what makes `len` / `range` of the association
  list Go's.  The functions that range over a Go map are invariant under permutation of the association
  list (`*_order_insensitive`), `sortedOwnedDeltaKeys` because it sorts distinct keys by a strict total order.
-/
namespace Atree.TransEq
open Atree Atree.Gen.TransSt

/-- every whitelisted storage function was translated (none fell back to `Untranslatable`) -/
theorem all_translated_storage : untranslatedFunctions = [] := by decide

variable {σ β : Type} (c : Codec σ β) (fault : Nat → Bool) (sz : σ → UInt32) (j : Junk σ β)

/-! ### Store / Remove -/

/-- `Store(id, slab)` with a non-nil slab is the model's `store`; the rejected call leaves the state alone. -/
theorem St_store_eq_model (s : GSt σ β) (id : SlabID) (v : σ) :
    PersistentSlabStorage_Store (envM c fault sz j) s id (some v) =
      match (abs s).store id v with
      | .ok m' => (none, conc m' s.baseStorage.n s.baseStorage.log)
      | .error e => (some (GErr.ofSt e), s) := by
  unfold PersistentSlabStorage_Store St.store
  by_cases h : id = SlabID.undef
  · simp [h, envM, GErr.ofSt]
  · have h' : ¬ SlabID.undef = id := fun e => h e.symm
    cases s with
    | mk b cch d t => cases b; simp [h, h', conc, abs]

/-- `Store(id, nil)` records a deletion, exactly as `Remove(id)` does. -/
theorem St_store_nil_eq_remove (s : GSt σ β) (id : SlabID) :
    PersistentSlabStorage_Store (envM c fault sz j) s id none =
      PersistentSlabStorage_Remove (envM c fault sz j) s id := rfl

/-- `Remove(id)` is the model's `remove`. -/
theorem St_remove_eq_model (s : GSt σ β) (id : SlabID) :
    PersistentSlabStorage_Remove (envM c fault sz j) s id =
      match (abs s).remove id with
      | .ok m' => (none, conc m' s.baseStorage.n s.baseStorage.log)
      | .error e => (some (GErr.ofSt e), s) := by
  unfold PersistentSlabStorage_Remove St.remove
  by_cases h : id = SlabID.undef
  · simp [h, envM, GErr.ofSt]
  · have h' : ¬ SlabID.undef = id := fun e => h e.symm
    cases s with
    | mk b cch d t => cases b; simp [h, h', conc, abs]

/-! ### Retrieve -/

/-- `RetrieveIgnoringDeltas(id, cache)`: cached entry (incl. the cached deletion: `found = false`), missing
    register (`nil, false, nil`), decoding error (`nil, true, err` - state untouched), cache fill iff `cache`. -/
theorem St_retrieveIgnoringDeltas_eq_model (s : GSt σ β) (id : SlabID) (doCache : Bool) :
    PersistentSlabStorage_RetrieveIgnoringDeltas (envM c fault sz j) s id doCache =
      match (abs s).retrieveIgnoringDeltas c id doCache with
      | .ok (v, m') => ((v, v.isSome, none), conc m' s.baseStorage.n s.baseStorage.log)
      | .error e => ((none, true, some (GErr.ofSt e)), s) := by
  unfold PersistentSlabStorage_RetrieveIgnoringDeltas St.retrieveIgnoringDeltas GoMap.get2
  rcases Option.eq_none_or_eq_some (AList.find? s.cache id) with hc | ⟨v, hc⟩
  · simp only [abs, hc, envM]
    rcases Option.eq_none_or_eq_some (AList.find? s.baseStorage.regs id) with hb | ⟨d, hb⟩
    · simp [hb]
    · simp only [hb]
      rcases Option.eq_none_or_eq_some (c.dec id d) with hd | ⟨v, hd⟩
      · simp [hd, GErr.ofSt]
      · cases doCache
        · simp [hd]
        · simp only [hd, Bool.false_eq_true, ↓reduceIte, Option.isSome_none, Bool.not_true, Option.isSome_some]
          conv => lhs; rw [← conc_abs s]
          simp [conc, abs]
  · simp [abs, hc]

/-- what the model does not have: a failing `BaseStorage.Retrieve` (ANY environment).  The result is
    `nil`, the `found` flag the base storage returned, and the wrapped error; only the base storage's own
    state changes. -/
theorem St_retrieveIgnoringDeltas_baseError {σ β B ε : Type} (env : PersistentSlabStorage_Env σ β B ε)
    (s : PersistentSlabStorage σ B) (id : SlabID) (doCache : Bool) (d : β) (ok : Bool) (e : ε) (b' : B)
    (hc : AList.find? s.cache id = none)
    (hb : env.BaseStorage_Retrieve s.baseStorage id = ((d, ok, some e), b')) :
    PersistentSlabStorage_RetrieveIgnoringDeltas env s id doCache =
      ((none, ok, env.wrapErrorfAsExternalErrorIfNeeded (some e)), { s with baseStorage := b' }) := by
  unfold PersistentSlabStorage_RetrieveIgnoringDeltas GoMap.get2
  simp [hc, hb]

/-- `Retrieve(id)`: pending entry first (a pending deletion is `nil, false, nil`), else
    `RetrieveIgnoringDeltas(id, true)` - the cache IS filled. -/
theorem St_retrieve_eq_model (s : GSt σ β) (id : SlabID) :
    PersistentSlabStorage_Retrieve (envM c fault sz j) s id =
      match (abs s).retrieve c id with
      | .ok (v, m') => ((v, v.isSome, none), conc m' s.baseStorage.n s.baseStorage.log)
      | .error e => ((none, true, some (GErr.ofSt e)), s) := by
  unfold PersistentSlabStorage_Retrieve St.retrieve GoMap.get2
  cases hd : AList.find? s.deltas id with
  | some v => simp [abs, hd]
  | none =>
    have h := St_retrieveIgnoringDeltas_eq_model c fault sz j s id true
    simp only [abs, hd] at h ⊢
    rw [h]
    rfl

/-- `RetrieveIfLoaded(id)`: deltas, then cache, never the base storage. -/
theorem St_retrieveIfLoaded_eq_model (s : GSt σ β) (id : SlabID) :
    PersistentSlabStorage_RetrieveIfLoaded (envM c fault sz j) s id = (abs s).retrieveIfLoaded id := by
  unfold PersistentSlabStorage_RetrieveIfLoaded St.retrieveIfLoaded GoMap.get2
  cases hd : AList.find? s.deltas id <;> cases hc : AList.find? s.cache id <;> simp [abs, hd, hc]

/-! ### DropDeltas / DropCache -/

theorem St_dropDeltas_eq_model (s : GSt σ β) :
    PersistentSlabStorage_DropDeltas (envM c fault sz j) s =
      conc (abs s).dropDeltas s.baseStorage.n s.baseStorage.log := by
  conv => lhs; rw [← conc_abs s]
  simp [PersistentSlabStorage_DropDeltas, St.dropDeltas, conc, abs]

theorem St_dropCache_eq_model (s : GSt σ β) :
    PersistentSlabStorage_DropCache (envM c fault sz j) s =
      conc (abs s).dropCache s.baseStorage.n s.baseStorage.log := by
  conv => lhs; rw [← conc_abs s]
  simp [PersistentSlabStorage_DropCache, St.dropCache, conc, abs]

/-! ### GenerateSlabID -/

theorem ofNat_succ (x : UInt64) : UInt64.ofNat (x.toNat + 1) = x + 1 := by
  apply UInt64.toNat_inj.mp
  simp [UInt64.toNat_add]

/-- `GenerateSlabID(address)`: the temporary address uses the storage's own counter, any other address the
    base storage's; never an error with this base storage.  The new STATE is the model's for every input
    (the wrap-around of `tempSlabIndex++` is what `conc` does to the model's counter); the returned
    IDENTIFIER is the model's unless the 64-bit counter wraps. -/
theorem St_generateSlabID_eq_model (s : GSt σ β) (addr : Nat)
    (h : addr = 0 → s.tempSlabIndex.toNat + 1 < 2 ^ 64) :
    PersistentSlabStorage_GenerateSlabID (envM c fault sz j) s addr =
      ((((abs s).generateSlabID addr).1, none),
        conc ((abs s).generateSlabID addr).2 s.baseStorage.n s.baseStorage.log) := by
  unfold PersistentSlabStorage_GenerateSlabID St.generateSlabID
  by_cases ha : addr = 0
  · have h' := h ha
    subst ha
    have h1 : (s.tempSlabIndex + 1).toNat = s.tempSlabIndex.toNat + 1 := by
      rw [UInt64.toNat_add]
      simp only [UInt64.reduceToNat]
      exact Nat.mod_eq_of_lt h'
    cases s with
    | mk b cch d t => cases b; simp [conc, abs, h1, ofNat_succ]
  · cases s with
    | mk b cch d t => cases b; simp [ha, envM, conc, abs]

/-- the state part of the previous theorem needs no hypothesis -/
theorem St_generateSlabID_state (s : GSt σ β) (addr : Nat) :
    (PersistentSlabStorage_GenerateSlabID (envM c fault sz j) s addr).2 =
      conc ((abs s).generateSlabID addr).2 s.baseStorage.n s.baseStorage.log := by
  unfold PersistentSlabStorage_GenerateSlabID St.generateSlabID
  by_cases ha : addr = 0
  · subst ha
    cases s with
    | mk b cch d t => cases b; simp [conc, abs, ofNat_succ]
  · cases s with
    | mk b cch d t => cases b; simp [ha, envM, conc, abs]

/-- after 2^64 - 1 temporary identifiers Go hands out index 0 (= the undefined identifier), the model 2^64 -/
theorem St_generateSlabID_differs_at :
    let s : GSt Unit Unit := conc { (St.init : St Unit Unit) with tempIx := 2 ^ 64 - 1 } 0 []
    (PersistentSlabStorage_GenerateSlabID (envM ⟨fun _ => none, fun _ _ => none, fun _ => 0⟩ (fun _ => false)
        (fun _ => 0) ⟨(), fun _ _ => none, ((), none)⟩) s 0).1.1 = SlabID.undef
    ∧ ((abs s).generateSlabID 0).1 = ⟨0, 2 ^ 64⟩ := by
  decide

/-- an error of the base storage's `GenerateSlabID` comes back wrapped, with the zero identifier (ANY environment) -/
theorem St_generateSlabID_baseError {σ β B ε : Type} (env : PersistentSlabStorage_Env σ β B ε)
    (s : PersistentSlabStorage σ B) (addr : Nat) (ha : addr ≠ 0) (i : SlabID) (e : ε) (b' : B)
    (hb : env.BaseStorage_GenerateSlabID s.baseStorage addr = ((i, some e), b')) :
    PersistentSlabStorage_GenerateSlabID env s addr =
      ((SlabID.undef, env.wrapErrorfAsExternalErrorIfNeeded (some e)), { s with baseStorage := b' }) := by
  unfold PersistentSlabStorage_GenerateSlabID
  simp [ha, hb]

/-! ### Counters over the write set (ranges over a Go map) -/

/-- `Deltas()` = `uint(len(s.deltas))`: the model's count modulo 2^64 -/
theorem St_deltas_eq_model (s : GSt σ β) :
    (PersistentSlabStorage_Deltas (envM c fault sz j) s).toNat = (abs s).deltasCount % 2 ^ 64 := by
  simp [PersistentSlabStorage_Deltas, GoMap.len, St.deltasCount, abs, UInt64.ofInt]
  omega

theorem countLoop_eq (env : PersistentSlabStorage_Env σ β (MBase β) GErr) (l : List (SlabID × Option σ)) (a : UInt64) :
    PersistentSlabStorage_DeltasWithoutTempAddresses.loop1 env l a =
      a + UInt64.ofNat (l.filter (fun p => !p.1.isTemp)).length := by
  induction l generalizing a with
  | nil => simp [PersistentSlabStorage_DeltasWithoutTempAddresses.loop1]
  | cons p l ih =>
    obtain ⟨k, v⟩ := p
    unfold PersistentSlabStorage_DeltasWithoutTempAddresses.loop1
    by_cases hk : k.addr = 0
    · simp [hk, ih, SlabID.isTemp]
    · simp only [ne_eq, hk, not_false_eq_true, decide_true, ↓reduceIte, ih, SlabID.isTemp, beq_iff_eq,
        Bool.not_false, List.filter_cons_of_pos, List.length_cons, Bool.not_eq_eq_eq_not, Bool.not_true,
        beq_eq_false_iff_ne]
      apply UInt64.toNat_inj.mp
      simp [UInt64.toNat_add]
      omega

/-- `DeltasWithoutTempAddresses()`: the model's count modulo 2^64 -/
theorem St_deltasWithoutTemp_eq_model (s : GSt σ β) :
    (PersistentSlabStorage_DeltasWithoutTempAddresses (envM c fault sz j) s).toNat =
      (abs s).deltasWithoutTemp % 2 ^ 64 := by
  simp [PersistentSlabStorage_DeltasWithoutTempAddresses, countLoop_eq, St.deltasWithoutTemp, abs]

/-- one step of the model's sum -/
def sizeStep (c : Codec σ β) (acc : Nat) (p : SlabID × Option σ) : Nat :=
  match p.2 with
  | some v => if p.1.isTemp then acc else acc + c.size v
  | none => acc

theorem deltasSize_unfold (c : Codec σ β) (m : St σ β) :
    m.deltasSizeWithoutTemp c = m.deltas.foldl (sizeStep c) 0 := rfl

theorem sizeStep_add (c : Codec σ β) (a : Nat) (p : SlabID × Option σ) :
    sizeStep c a p = a + sizeStep c 0 p := by
  unfold sizeStep
  cases p.2 with
  | none => simp
  | some v => by_cases h : p.1.isTemp = true <;> simp [h]

/-- the model's sum, from an arbitrary start -/
theorem sizeFold_eq (c : Codec σ β) (l : List (SlabID × Option σ)) (a : Nat) :
    l.foldl (sizeStep c) a = a + l.foldl (sizeStep c) 0 := by
  induction l generalizing a with
  | nil => simp
  | cons p l ih =>
    simp only [List.foldl_cons]
    rw [ih, ih (sizeStep c 0 p), sizeStep_add]
    omega

theorem sizeLoop_eq (env : PersistentSlabStorage_Env σ β (MBase β) GErr) (c : Codec σ β)
    (hsz : ∀ v, c.size v = (env.Slab_ByteSize v).toNat) (l : List (SlabID × Option σ)) (a : UInt64) :
    ∃ r, PersistentSlabStorage_DeltasSizeWithoutTempAddresses.loop1 env l a = .done r ∧
      r.toNat = (a.toNat + l.foldl (sizeStep c) 0) % 2 ^ 64 := by
  induction l generalizing a with
  | nil => exact ⟨a, by simp [PersistentSlabStorage_DeltasSizeWithoutTempAddresses.loop1, Nat.mod_eq_of_lt a.toNat_lt]⟩
  | cons p l ih =>
    obtain ⟨k, v⟩ := p
    unfold PersistentSlabStorage_DeltasSizeWithoutTempAddresses.loop1
    rw [List.foldl_cons, sizeFold_eq]
    cases v with
    | none =>
      obtain ⟨r, h1, h2⟩ := ih a
      exact ⟨r, by simpa using h1, by simpa [sizeStep] using h2⟩
    | some v =>
      by_cases hk : k.addr = 0
      · obtain ⟨r, h1, h2⟩ := ih a
        exact ⟨r, by simpa [hk] using h1, by simpa [sizeStep, hk, SlabID.isTemp] using h2⟩
      · obtain ⟨r, h1, h2⟩ := ih (a + (env.Slab_ByteSize v).toUInt64)
        refine ⟨r, by simpa [hk] using h1, ?_⟩
        rw [h2]
        have hs : sizeStep c 0 (k, some v) = (env.Slab_ByteSize v).toNat := by
          simp [sizeStep, SlabID.isTemp, hk, hsz]
        rw [hs]
        simp only [UInt64.toNat_add, UInt32.toNat_toUInt64]
        omega

/-- `DeltasSizeWithoutTempAddresses()` never dereferences a nil slab (`some`), and returns the model's sum of
    the `ByteSize` of the owned, non-deleted pending slabs modulo 2^64 -/
theorem St_deltasSizeWithoutTemp_eq_model (hsz : ∀ v, c.size v = (sz v).toNat) (s : GSt σ β) :
    ∃ r, PersistentSlabStorage_DeltasSizeWithoutTempAddresses (envM c fault sz j) s = some r ∧
      r.toNat = (abs s).deltasSizeWithoutTemp c % 2 ^ 64 := by
  obtain ⟨r, h1, h2⟩ := sizeLoop_eq (envM c fault sz j) c hsz s.deltas 0
  refine ⟨r, ?_, ?_⟩
  · simp [PersistentSlabStorage_DeltasSizeWithoutTempAddresses, h1]
  · rw [deltasSize_unfold, h2]
    simp [abs]

theorem unsavedLoop_eq (env : PersistentSlabStorage_Env σ β (MBase β) GErr) (addr : Nat) (l : List (SlabID × Option σ)) :
    PersistentSlabStorage_HasUnsavedChanges.loop1 env addr l =
      bif l.any (fun p => p.1.addr == addr) then .ret true else .done () := by
  induction l with
  | nil => simp [PersistentSlabStorage_HasUnsavedChanges.loop1]
  | cons p l ih =>
    obtain ⟨k, v⟩ := p
    unfold PersistentSlabStorage_HasUnsavedChanges.loop1
    by_cases hk : k.addr = addr
    · simp [hk]
    · have hb : (k.addr == addr) = false := by simpa using hk
      simp [hk, hb, ih]

/-- `HasUnsavedChanges(address)`: some pending identifier has that address (the temporary address included) -/
theorem St_hasUnsavedChanges_eq_model (s : GSt σ β) (addr : Nat) :
    PersistentSlabStorage_HasUnsavedChanges (envM c fault sz j) s addr = (abs s).hasUnsavedChanges addr := by
  unfold PersistentSlabStorage_HasUnsavedChanges St.hasUnsavedChanges
  rw [unsavedLoop_eq]
  simp only [abs]
  cases h : s.deltas.any (fun p => p.1.addr == addr) <;> simp

/-! ### sortedOwnedDeltaKeys -/

theorem keysLoop_eq (env : PersistentSlabStorage_Env σ β (MBase β) GErr) (l : List (SlabID × Option σ)) (acc : List SlabID) :
    PersistentSlabStorage_sortedOwnedDeltaKeys.loop1 env l acc =
      acc ++ (AList.keys l).filter (fun k => !k.isTemp) := by
  induction l generalizing acc with
  | nil => simp [PersistentSlabStorage_sortedOwnedDeltaKeys.loop1, AList.keys]
  | cons p l ih =>
    obtain ⟨k, v⟩ := p
    unfold PersistentSlabStorage_sortedOwnedDeltaKeys.loop1
    by_cases hk : k.addr = 0 <;> simp [hk, ih, AList.keys, SlabID.isTemp]

/-- the translated `less` closure of `sort.Slice` is the model's order `SlabID.lt` -/
theorem goInsertBy_lt (k : SlabID) (l : List SlabID) :
    goInsertBy (fun a b => if decide (a.addr = b.addr) then decide (a.idx < b.idx) else decide (a.addr < b.addr)) k l =
      St.insertSorted k l := by
  induction l with
  | nil => rfl
  | cons x xs ih =>
    simp only [goInsertBy, St.insertSorted, ih, SlabID.lt]
    by_cases h : k.addr = x.addr <;> simp [h]

/-- `sortedOwnedDeltaKeys()`: the owned pending identifiers in the model's order (the sort by its specification) -/
theorem St_sortedOwnedDeltaKeys_eq_model (s : GSt σ β) :
    PersistentSlabStorage_sortedOwnedDeltaKeys (envM c fault sz j) s = (abs s).sortedOwnedDeltaKeys := by
  unfold PersistentSlabStorage_sortedOwnedDeltaKeys St.sortedOwnedDeltaKeys
  simp only [keysLoop_eq, List.nil_append, goSortSlice, St.sortIDs, abs]
  congr 1
  funext k l
  exact goInsertBy_lt k l

/-! ### commit(keys) -/

/-- the model's commit state at the start of a Go `commit` call in state `s` -/
def res0 (s : GSt σ β) : St.CommitRes σ β :=
  { st := abs s, err := none, log := s.baseStorage.log, n := s.baseStorage.n }

theorem foldl_commitKey_err (keys : List SlabID) (r : St.CommitRes σ β) (h : r.err.isSome) :
    keys.foldl (St.commitKey c fault) r = r := by
  induction keys with
  | nil => rfl
  | cons k ks ih =>
    obtain ⟨e, he⟩ := Option.isSome_iff_exists.mp h
    have : St.commitKey c fault r k = r := by simp [St.commitKey, he]
    rw [List.foldl_cons, this, ih]

/-- what one Go loop (`for _, id := range keys`) does, against the model's fold from the same state:
    an early `return` happens exactly when the model records an error, with an error value of that class;
    either way the Go state is the translation of the model's (base-storage call log and fault position
    included, and whatever was stored / removed / cached / deleted before the failing call stays so). -/
theorem commitLoop_eq (keys : List SlabID) (s : GSt σ β) (err0 : Option GErr) :
    match PersistentSlabStorage_commit.loop1 (envM c fault sz j) keys s err0 with
    | .ret (e, s') =>
      let r := keys.foldl (St.commitKey c fault) (res0 s)
      s' = conc r.st r.n r.log ∧ e.bind GErr.cls = r.err ∧ e.isSome
    | .done (s', _) =>
      let r := keys.foldl (St.commitKey c fault) (res0 s)
      s' = conc r.st r.n r.log ∧ r.err = none := by
  induction keys generalizing s err0 with
  | nil => simp [PersistentSlabStorage_commit.loop1, res0, conc_abs]
  | cons id rest ih =>
    unfold PersistentSlabStorage_commit.loop1
    simp only [List.foldl_cons, GoMap.get, GoMap.get2]
    rcases Option.eq_none_or_eq_some (AList.find? s.deltas id) with hd | ⟨ov, hd⟩
    · -- not pending: reads as nil, handled as a deletion
      by_cases hf : fault s.baseStorage.n = true
      · have hm : St.commitKey c fault (res0 s) id =
            { res0 s with err := some .external, log := s.baseStorage.log ++ [.remove id], n := s.baseStorage.n + 1 } := by
          simp [St.commitKey, res0, abs, hd, hf]
        rw [hm, foldl_commitKey_err c fault rest _ (by simp)]
        simp only [hd, envM, hf, ↓reduceIte, Option.isSome_none, Option.isSome_some, wrapExt, GErr.categorised,
          Bool.false_eq_true, res0, Option.bind_some, GErr.cls, and_self, and_true]
        cases s with
        | mk b cch d t => cases b; simp [conc, abs, GErr.cls]
      · have hm : St.commitKey c fault (res0 s) id = res0 { s with
              baseStorage := { s.baseStorage with regs := AList.erase s.baseStorage.regs id,
                                                  n := s.baseStorage.n + 1, log := s.baseStorage.log ++ [.remove id] },
              cache := AList.insert s.cache id none, deltas := AList.erase s.deltas id } := by
          simp [St.commitKey, res0, abs, hd, hf]
        rw [hm]
        simp only [hd, envM, hf, Bool.false_eq_true, ↓reduceIte, Option.isSome_none]
        exact ih _ _
    · cases ov with
      | none =>
        by_cases hf : fault s.baseStorage.n = true
        · have hm : St.commitKey c fault (res0 s) id =
              { res0 s with err := some .external, log := s.baseStorage.log ++ [.remove id], n := s.baseStorage.n + 1 } := by
            simp [St.commitKey, res0, abs, hd, hf]
          rw [hm, foldl_commitKey_err c fault rest _ (by simp)]
          simp only [hd, envM, hf, ↓reduceIte, Option.isSome_none, Option.isSome_some, wrapExt, GErr.categorised,
            Bool.false_eq_true, res0, Option.bind_some, GErr.cls, and_self, and_true]
          cases s with
          | mk b cch d t => cases b; simp [conc, abs, GErr.cls]
        · have hm : St.commitKey c fault (res0 s) id = res0 { s with
                baseStorage := { s.baseStorage with regs := AList.erase s.baseStorage.regs id,
                                                    n := s.baseStorage.n + 1, log := s.baseStorage.log ++ [.remove id] },
                cache := AList.insert s.cache id none, deltas := AList.erase s.deltas id } := by
            simp [St.commitKey, res0, abs, hd, hf]
          rw [hm]
          simp only [hd, envM, hf, Bool.false_eq_true, ↓reduceIte, Option.isSome_none]
          exact ih _ _
      | some v =>
        rcases Option.eq_none_or_eq_some (c.enc v) with he | ⟨b, he⟩
        · have hm : St.commitKey c fault (res0 s) id = { res0 s with err := some .encoding } := by
            simp [St.commitKey, res0, abs, hd, he]
          rw [hm, foldl_commitKey_err c fault rest _ (by simp)]
          simp [hd, envM, he, res0, GErr.cls, conc_abs]
        · by_cases hf : fault s.baseStorage.n = true
          · have hm : St.commitKey c fault (res0 s) id =
                { res0 s with err := some .external, log := s.baseStorage.log ++ [.store id b], n := s.baseStorage.n + 1 } := by
              simp [St.commitKey, res0, abs, hd, he, hf]
            rw [hm, foldl_commitKey_err c fault rest _ (by simp)]
            simp only [hd, envM, he, hf, ↓reduceIte, Option.isSome_none, Option.isSome_some, wrapExt, GErr.categorised,
              Bool.false_eq_true, res0, Option.bind_some, GErr.cls, and_self, and_true]
            cases s with
            | mk b cch d t => cases b; simp [conc, abs, GErr.cls]
          · have hm : St.commitKey c fault (res0 s) id = res0 { s with
                  baseStorage := { s.baseStorage with regs := AList.insert s.baseStorage.regs id b,
                                                      n := s.baseStorage.n + 1, log := s.baseStorage.log ++ [.store id b] },
                  cache := AList.insert s.cache id (some v), deltas := AList.erase s.deltas id } := by
              simp [St.commitKey, res0, abs, hd, he, hf]
            rw [hm]
            simp only [hd, envM, he, hf, Bool.false_eq_true, ↓reduceIte, Option.isSome_none, Option.isSome_some]
            exact ih _ _

/-- `commit(keys)`, the serial commit loop, for EVERY key list (also keys that are not pending, repeated keys,
    temporary identifiers), from any position of the fault plan: the resulting state is the translation of
    the model's `CommitRes` (state, call log, number of calls issued) and the returned error has the class
    the model records (`nil` iff none). -/
theorem St_commit_eq_model (s : GSt σ β) (keys : List SlabID) :
    let r := keys.foldl (St.commitKey c fault) (res0 s)
    (PersistentSlabStorage_commit (envM c fault sz j) s keys).2 = conc r.st r.n r.log ∧
    (PersistentSlabStorage_commit (envM c fault sz j) s keys).1.bind GErr.cls = r.err := by
  have h := commitLoop_eq c fault sz j keys s none
  unfold PersistentSlabStorage_commit
  split at h
  · next e s' heq => simp [heq, h.1, h.2.1]
  · next s' e heq => simp [heq, h.1, h.2]

/-- the same from a fresh base storage (no call issued yet): the model's `commitKeys` -/
theorem St_commit_eq_commitKeys (s : GSt σ β) (keys : List SlabID)
    (h0 : s.baseStorage.n = 0) (hl : s.baseStorage.log = []) :
    let r := (abs s).commitKeys c fault keys
    (PersistentSlabStorage_commit (envM c fault sz j) s keys).2 = conc r.st r.n r.log ∧
    (PersistentSlabStorage_commit (envM c fault sz j) s keys).1.bind GErr.cls = r.err := by
  have h := St_commit_eq_model c fault sz j s keys
  simpa [St.commitKeys, res0, h0, hl] using h

/-- the sequential path of `NondeterministicFastCommit` (fewer than two modified owned slabs): it calls
    `commit(modified ++ deleted)`, which is the model's `nondetCommit` on those orders -/
theorem St_commit_eq_nondetCommit_small (s : GSt σ β) (mo dlo : List SlabID) (hm : mo.length < 2)
    (h0 : s.baseStorage.n = 0) (hl : s.baseStorage.log = []) :
    let r := (abs s).nondetCommit c fault mo dlo
    (PersistentSlabStorage_commit (envM c fault sz j) s (mo ++ dlo)).2 = conc r.st r.n r.log ∧
    (PersistentSlabStorage_commit (envM c fault sz j) s (mo ++ dlo)).1.bind GErr.cls = r.err := by
  have h := St_commit_eq_commitKeys c fault sz j s (mo ++ dlo) h0 hl
  simpa [St.nondetCommit, hm] using h

/-! ### The representation invariant of the maps (distinct keys) is preserved - by every environment -/

section wf
variable {B ε : Type} (env : PersistentSlabStorage_Env σ β B ε)

theorem St_wf_store (s : PersistentSlabStorage σ B) (id : SlabID) (slab : Option σ) (h : WF s) :
    WF (PersistentSlabStorage_Store env s id slab).2 := by
  unfold PersistentSlabStorage_Store
  simp only
  split
  · exact h
  · exact ⟨AList.nodup_keys_insert _ _ _ h.1, h.2⟩

theorem St_wf_remove (s : PersistentSlabStorage σ B) (id : SlabID) (h : WF s) :
    WF (PersistentSlabStorage_Remove env s id).2 :=
  St_wf_store env s id none h

theorem St_wf_retrieveIgnoringDeltas (s : PersistentSlabStorage σ B) (id : SlabID) (ch : Bool) (h : WF s) :
    WF (PersistentSlabStorage_RetrieveIgnoringDeltas env s id ch).2 := by
  unfold PersistentSlabStorage_RetrieveIgnoringDeltas
  simp only
  repeat' split
  all_goals first
    | exact h
    | exact ⟨h.1, h.2⟩
    | exact ⟨h.1, AList.nodup_keys_insert _ _ _ h.2⟩

theorem St_wf_retrieve (s : PersistentSlabStorage σ B) (id : SlabID) (h : WF s) :
    WF (PersistentSlabStorage_Retrieve env s id).2 := by
  unfold PersistentSlabStorage_Retrieve
  simp only
  split
  · exact h
  · exact St_wf_retrieveIgnoringDeltas env s id true h

theorem St_wf_dropDeltas (s : PersistentSlabStorage σ B) (h : WF s) :
    WF (PersistentSlabStorage_DropDeltas env s) := ⟨List.nodup_nil, h.2⟩

theorem St_wf_dropCache (s : PersistentSlabStorage σ B) (h : WF s) :
    WF (PersistentSlabStorage_DropCache env s) := ⟨h.1, List.nodup_nil⟩

theorem St_wf_generateSlabID (s : PersistentSlabStorage σ B) (a : Nat) (h : WF s) :
    WF (PersistentSlabStorage_GenerateSlabID env s a).2 := by
  unfold PersistentSlabStorage_GenerateSlabID
  simp only
  repeat' split
  all_goals exact ⟨h.1, h.2⟩

theorem wf_commitLoop (keys : List SlabID) (s : PersistentSlabStorage σ B) (e : Option ε) (h : WF s) :
    match PersistentSlabStorage_commit.loop1 env keys s e with
    | .ret (_, s') => WF s'
    | .done (s', _) => WF s' := by
  induction keys generalizing s e with
  | nil => simpa [PersistentSlabStorage_commit.loop1] using h
  | cons id rest ih =>
    unfold PersistentSlabStorage_commit.loop1
    simp only
    by_cases h1 : (GoMap.get s.deltas id none).isNone = true
    · simp only [h1, ↓reduceIte]
      by_cases h2 : (env.BaseStorage_Remove s.baseStorage id).1.isSome = true
      · simp only [h2, ↓reduceIte]
        exact ⟨h.1, h.2⟩
      · simp only [h2, Bool.false_eq_true, ↓reduceIte]
        exact ih _ _ ⟨AList.nodup_keys_erase _ _ h.1, AList.nodup_keys_insert _ _ _ h.2⟩
    · simp only [h1, Bool.false_eq_true, ↓reduceIte]
      by_cases h2 : (env.EncodeSlab (GoMap.get s.deltas id none)).2.isSome = true
      · simp only [h2, ↓reduceIte]
        exact h
      · simp only [h2, Bool.false_eq_true, ↓reduceIte]
        by_cases h3 : (env.BaseStorage_Store s.baseStorage id (env.EncodeSlab (GoMap.get s.deltas id none)).1).1.isSome = true
        · simp only [h3, ↓reduceIte]
          exact ⟨h.1, h.2⟩
        · simp only [h3, Bool.false_eq_true, ↓reduceIte]
          exact ih _ _ ⟨AList.nodup_keys_erase _ _ h.1, AList.nodup_keys_insert _ _ _ h.2⟩

theorem St_wf_commit (s : PersistentSlabStorage σ B) (keys : List SlabID) (h : WF s) :
    WF (PersistentSlabStorage_commit env s keys).2 := by
  have hl := wf_commitLoop env keys s none h
  unfold PersistentSlabStorage_commit
  split at hl
  · next e s' heq => simpa [heq] using hl
  · next s' e heq => simpa [heq] using hl

end wf

/-! ### The ranges over a Go map do not depend on the iteration order -/

section order
variable {B ε : Type} (env : PersistentSlabStorage_Env σ β B ε)

theorem countLoop_perm {l₁ l₂ : List (SlabID × Option σ)} (h : l₁.Perm l₂) (a : UInt64) :
    PersistentSlabStorage_DeltasWithoutTempAddresses.loop1 env l₁ a =
      PersistentSlabStorage_DeltasWithoutTempAddresses.loop1 env l₂ a := by
  induction h generalizing a with
  | nil => rfl
  | cons x _ ih =>
    obtain ⟨k, v⟩ := x
    unfold PersistentSlabStorage_DeltasWithoutTempAddresses.loop1
    split <;> exact ih _
  | swap x y l =>
    obtain ⟨k, v⟩ := x
    obtain ⟨k', v'⟩ := y
    simp only [PersistentSlabStorage_DeltasWithoutTempAddresses.loop1]
    split <;> split <;> rfl
  | trans _ _ ih₁ ih₂ => exact (ih₁ a).trans (ih₂ a)

/-- `DeltasWithoutTempAddresses` gives the same count for every iteration order of `s.deltas` -/
theorem St_deltasWithoutTemp_order_insensitive (s s' : PersistentSlabStorage σ B) (h : s.deltas.Perm s'.deltas) :
    PersistentSlabStorage_DeltasWithoutTempAddresses env s = PersistentSlabStorage_DeltasWithoutTempAddresses env s' := by
  simp only [PersistentSlabStorage_DeltasWithoutTempAddresses, countLoop_perm env h]

theorem sizeLoop_perm {l₁ l₂ : List (SlabID × Option σ)} (h : l₁.Perm l₂) (a : UInt64) :
    PersistentSlabStorage_DeltasSizeWithoutTempAddresses.loop1 env l₁ a =
      PersistentSlabStorage_DeltasSizeWithoutTempAddresses.loop1 env l₂ a := by
  induction h generalizing a with
  | nil => rfl
  | cons x _ ih =>
    obtain ⟨k, v⟩ := x
    unfold PersistentSlabStorage_DeltasSizeWithoutTempAddresses.loop1
    split
    · exact ih _
    · split
      · rfl
      · exact ih _
  | swap x y l =>
    obtain ⟨k, v⟩ := x
    obtain ⟨k', v'⟩ := y
    have hc : ∀ a x y : UInt64, a + x + y = a + y + x := by
      intro a x y
      rw [UInt64.add_assoc, UInt64.add_comm x y, ← UInt64.add_assoc]
    cases v <;> cases v' <;> by_cases hk : k.addr = 0 <;> by_cases hk' : k'.addr = 0 <;>
      simp [PersistentSlabStorage_DeltasSizeWithoutTempAddresses.loop1, hk, hk']
    rw [hc]
  | trans _ _ ih₁ ih₂ => exact (ih₁ a).trans (ih₂ a)

/-- `DeltasSizeWithoutTempAddresses` gives the same sum for every iteration order of `s.deltas` -/
theorem St_deltasSizeWithoutTemp_order_insensitive (s s' : PersistentSlabStorage σ B) (h : s.deltas.Perm s'.deltas) :
    PersistentSlabStorage_DeltasSizeWithoutTempAddresses env s =
      PersistentSlabStorage_DeltasSizeWithoutTempAddresses env s' := by
  simp only [PersistentSlabStorage_DeltasSizeWithoutTempAddresses, sizeLoop_perm env h]

theorem unsavedLoop_any (addr : Nat) (l : List (SlabID × Option σ)) :
    PersistentSlabStorage_HasUnsavedChanges.loop1 env addr l =
      bif l.any (fun p => p.1.addr == addr) then .ret true else .done () := by
  induction l with
  | nil => simp [PersistentSlabStorage_HasUnsavedChanges.loop1]
  | cons p l ih =>
    obtain ⟨k, v⟩ := p
    unfold PersistentSlabStorage_HasUnsavedChanges.loop1
    by_cases hk : k.addr = addr
    · simp [hk]
    · have hb : (k.addr == addr) = false := by simpa using hk
      simp [hk, hb, ih]

/-- `HasUnsavedChanges` gives the same answer for every iteration order of `s.deltas` -/
theorem St_hasUnsavedChanges_order_insensitive (s s' : PersistentSlabStorage σ B) (addr : Nat)
    (h : s.deltas.Perm s'.deltas) :
    PersistentSlabStorage_HasUnsavedChanges env s addr = PersistentSlabStorage_HasUnsavedChanges env s' addr := by
  simp only [PersistentSlabStorage_HasUnsavedChanges, unsavedLoop_any, h.any_eq]

theorem keysLoop_any (l : List (SlabID × Option σ)) (acc : List SlabID) :
    PersistentSlabStorage_sortedOwnedDeltaKeys.loop1 env l acc =
      acc ++ (AList.keys l).filter (fun k => !k.isTemp) := by
  induction l generalizing acc with
  | nil => simp [PersistentSlabStorage_sortedOwnedDeltaKeys.loop1, AList.keys]
  | cons p l ih =>
    obtain ⟨k, v⟩ := p
    unfold PersistentSlabStorage_sortedOwnedDeltaKeys.loop1
    by_cases hk : k.addr = 0 <;> simp [hk, ih, AList.keys, SlabID.isTemp]

/-- sorting distinct identifiers by the strict total order `SlabID.lt` forgets the order they came in -/
theorem sortIDs_perm_eq {l₁ l₂ : List SlabID} (h : l₁.Perm l₂) (hn : l₁.Nodup) :
    St.sortIDs l₁ = St.sortIDs l₂ := by
  have hn2 : l₂.Nodup := h.nodup_iff.mp hn
  refine List.Perm.eq_of_pairwise (le := fun a b => SlabID.lt a b = true) ?_
    (St.pairwise_sortIDs l₁ hn) (St.pairwise_sortIDs l₂ hn2)
    ((St.sortIDs_perm l₁).trans (h.trans (St.sortIDs_perm l₂).symm))
  intro a b _ _ hab hba
  have := SlabID.lt_trans hab hba
  rw [SlabID.lt_irrefl] at this
  exact absurd this (by simp)

/-- `sortedOwnedDeltaKeys` returns the same list for every iteration order of `s.deltas` (distinct keys) -/
theorem St_sortedOwnedDeltaKeys_order_insensitive (s s' : PersistentSlabStorage σ B)
    (h : s.deltas.Perm s'.deltas) (hw : WF s) :
    PersistentSlabStorage_sortedOwnedDeltaKeys env s = PersistentSlabStorage_sortedOwnedDeltaKeys env s' := by
  unfold PersistentSlabStorage_sortedOwnedDeltaKeys
  simp only [keysLoop_any, List.nil_append, goSortSlice]
  have hl : (fun (k : SlabID) (l : List SlabID) => goInsertBy (fun a_ b_ =>
      if decide (a_.addr = b_.addr) then decide (a_.idx < b_.idx) else decide (a_.addr < b_.addr)) k l) = St.insertSorted := by
    funext k l
    exact goInsertBy_lt k l
  have hp : ((AList.keys s.deltas).filter (fun k => !k.isTemp)).Perm ((AList.keys s'.deltas).filter (fun k => !k.isTemp)) :=
    (h.map _).filter _
  have := sortIDs_perm_eq hp (hw.1.sublist List.filter_sublist)
  simpa [St.sortIDs, ← hl] using this

end order

/-! ### The model's step function (`St.step`, what the C15 theorems and the trace replay are about) on the generated code -/

section step

/-- what the trace shows of a Go error value -/
def obsOfErr {σ : Type} (e : Option GErr) : Obs σ :=
  match e with
  | none => .unit
  | some g => match g.cls with
    | some x => .err x
    | none => .unit

/-- one request served by the GENERATED functions (the requests whose Go function is translated and sequential) -/
def gstep (s : GSt σ β) : Op σ → Option (GSt σ β × Obs σ)
  | .store id v =>
    let r := PersistentSlabStorage_Store (envM c fault sz j) s id (some v)
    some (r.2, obsOfErr r.1)
  | .remove id =>
    let r := PersistentSlabStorage_Remove (envM c fault sz j) s id
    some (r.2, obsOfErr r.1)
  | .retrieve id =>
    let r := PersistentSlabStorage_Retrieve (envM c fault sz j) s id
    some (r.2, match r.1.2.2 with | none => .slab r.1.1 | some e => obsOfErr (some e))
  | .retrieveIfLoaded id => some (s, .slab (PersistentSlabStorage_RetrieveIfLoaded (envM c fault sz j) s id))
  | .retrieveIgnoringDeltas id ch =>
    let r := PersistentSlabStorage_RetrieveIgnoringDeltas (envM c fault sz j) s id ch
    some (r.2, match r.1.2.2 with | none => .slab r.1.1 | some e => obsOfErr (some e))
  | .dropDeltas => some (PersistentSlabStorage_DropDeltas (envM c fault sz j) s, .unit)
  | .dropCache => some (PersistentSlabStorage_DropCache (envM c fault sz j) s, .unit)
  | .genID a =>
    let r := PersistentSlabStorage_GenerateSlabID (envM c fault sz j) s a
    some (r.2, match r.1.2 with | none => .id r.1.1 | some e => obsOfErr (some e))
  | _ => none

theorem abs_conc_of (s : GSt σ β) (m : St σ β) (n : Nat) (log : List (St.BaseCall β))
    (h : m.tempIx = s.tempSlabIndex.toNat) : abs (conc m n log) = m :=
  abs_conc m n log (by rw [h]; exact s.tempSlabIndex.toNat_lt)

/-- `St.step` on the model state of `s` is what the generated functions do to `s` and return: for store, remove,
    retrieve, retrieve-if-loaded, cache-bypassing retrieve, drop-deltas, drop-cache and generate-id (the latter
    unless the 64-bit temporary counter wraps).  So every theorem about `St.step` / `St.run` histories of these
    requests is a theorem about the regenerated code. -/
theorem St_step_eq_generated (s s' : GSt σ β) (op : Op σ) (o : Obs σ)
    (hg : ∀ a, op = .genID a → a = 0 → s.tempSlabIndex.toNat + 1 < 2 ^ 64)
    (h : gstep c fault sz j s op = some (s', o)) :
    St.step c (abs s) op = (abs s', o) := by
  cases op with
  | store id v =>
    simp only [gstep, Option.some.injEq, Prod.mk.injEq] at h
    obtain ⟨h1, h2⟩ := h
    subst h1 h2
    rw [St_store_eq_model]
    simp only [St.step]
    cases hm : (abs s).store id v with
    | ok m' =>
      have : m'.tempIx = s.tempSlabIndex.toNat := by
        unfold St.store at hm; split at hm <;> simp at hm; rw [← hm]; rfl
      simp [obsOfErr, abs_conc_of s m' _ _ this]
    | error e => simp [obsOfErr, GErr.cls_ofSt]
  | remove id =>
    simp only [gstep, Option.some.injEq, Prod.mk.injEq] at h
    obtain ⟨h1, h2⟩ := h
    subst h1 h2
    rw [St_remove_eq_model]
    simp only [St.step]
    cases hm : (abs s).remove id with
    | ok m' =>
      have : m'.tempIx = s.tempSlabIndex.toNat := by
        unfold St.remove at hm; split at hm <;> simp at hm; rw [← hm]; rfl
      simp [obsOfErr, abs_conc_of s m' _ _ this]
    | error e => simp [obsOfErr, GErr.cls_ofSt]
  | retrieve id =>
    simp only [gstep, Option.some.injEq, Prod.mk.injEq] at h
    obtain ⟨h1, h2⟩ := h
    subst h1 h2
    rw [St_retrieve_eq_model]
    simp only [St.step]
    cases hm : (abs s).retrieve c id with
    | ok r =>
      obtain ⟨v, m'⟩ := r
      have : m'.tempIx = s.tempSlabIndex.toNat := by
        unfold St.retrieve St.retrieveIgnoringDeltas at hm
        repeat' split at hm
        all_goals simp at hm
        all_goals (try (rw [← hm.2]; rfl))
      simp [abs_conc_of s m' _ _ this]
    | error e => simp [obsOfErr, GErr.cls_ofSt]
  | retrieveIfLoaded id =>
    simp only [gstep, Option.some.injEq, Prod.mk.injEq] at h
    obtain ⟨h1, h2⟩ := h
    subst h1 h2
    simp [St.step, St_retrieveIfLoaded_eq_model]
  | retrieveIgnoringDeltas id ch =>
    simp only [gstep, Option.some.injEq, Prod.mk.injEq] at h
    obtain ⟨h1, h2⟩ := h
    subst h1 h2
    rw [St_retrieveIgnoringDeltas_eq_model]
    simp only [St.step]
    cases hm : (abs s).retrieveIgnoringDeltas c id ch with
    | ok r =>
      obtain ⟨v, m'⟩ := r
      have : m'.tempIx = s.tempSlabIndex.toNat := by
        unfold St.retrieveIgnoringDeltas at hm
        repeat' split at hm
        all_goals simp at hm
        all_goals (try (rw [← hm.2]; rfl))
      simp [abs_conc_of s m' _ _ this]
    | error e => simp [obsOfErr, GErr.cls_ofSt]
  | dropDeltas =>
    simp only [gstep, Option.some.injEq, Prod.mk.injEq] at h
    obtain ⟨h1, h2⟩ := h
    subst h1 h2
    rw [St_dropDeltas_eq_model]
    simp [St.step, abs_conc_of s (abs s).dropDeltas _ _ rfl]
  | dropCache =>
    simp only [gstep, Option.some.injEq, Prod.mk.injEq] at h
    obtain ⟨h1, h2⟩ := h
    subst h1 h2
    rw [St_dropCache_eq_model]
    simp [St.step, abs_conc_of s (abs s).dropCache _ _ rfl]
  | genID a =>
    simp only [gstep, Option.some.injEq, Prod.mk.injEq] at h
    obtain ⟨h1, h2⟩ := h
    subst h1 h2
    have hw := hg a rfl
    rw [St_generateSlabID_eq_model c fault sz j s a hw]
    simp only [St.step]
    have : abs (conc ((abs s).generateSlabID a).2 s.baseStorage.n s.baseStorage.log) = ((abs s).generateSlabID a).2 := by
      apply abs_conc
      unfold St.generateSlabID
      by_cases ha : a = 0
      · simpa [ha, abs] using hw ha
      · simp only [ha, ↓reduceIte, abs]
        exact s.tempSlabIndex.toNat_lt
    simp [this]
  | commit _ _ _ _ => simp [gstep] at h
  | preload _ => simp [gstep] at h
  | recreate => simp [gstep] at h

end step

/-! ### Non-vacuity: the generated functions on a concrete storage -/

section example_
/-- slabs are numbers, registers are numbers; encoding fails for 13, decoding fails for register 99 -/
def exCodec : Codec Nat Nat :=
  { enc := fun v => if v = 13 then none else some (v + 100), dec := fun _ b => if b = 99 then none else some (b - 100), size := fun v => v }
def exJunk : Junk Nat Nat := ⟨7, fun _ _ => some 5, (8, none)⟩
def exEnv (faults : List Nat) := envM exCodec (St.faultPlan faults) (fun v => UInt32.ofNat v) exJunk
def exS : GSt Nat Nat :=
  { baseStorage := { regs := [(⟨1, 1⟩, 101), (⟨1, 2⟩, 99)], alloc := [(1, 2)], n := 0, log := [] },
    cache := [(⟨1, 4⟩, none)], deltas := [(⟨1, 3⟩, some 30), (⟨0, 1⟩, some 40), (⟨1, 1⟩, none)], tempSlabIndex := 1 }

example : WF exS := ⟨by decide, by decide⟩
-- Retrieve fills the cache; a pending deletion / a cached deletion read as (nil, false, nil); a register that does
-- not decode is (nil, true, err) and leaves no trace
example : (PersistentSlabStorage_Retrieve (exEnv []) (PersistentSlabStorage_DropDeltas (exEnv []) exS) ⟨1, 1⟩).1 = (some 1, true, none) := by decide
example : (PersistentSlabStorage_Retrieve (exEnv []) (PersistentSlabStorage_DropDeltas (exEnv []) exS) ⟨1, 1⟩).2.cache = [(⟨1, 1⟩, some 1), (⟨1, 4⟩, none)] := by decide
example : (PersistentSlabStorage_Retrieve (exEnv []) exS ⟨1, 1⟩).1 = (none, false, none) := by decide
example : (PersistentSlabStorage_Retrieve (exEnv []) exS ⟨1, 4⟩).1 = (none, false, none) := by decide
example : PersistentSlabStorage_Retrieve (exEnv []) exS ⟨1, 2⟩ = ((none, true, some (.codec false)), exS) := by rfl
example : (PersistentSlabStorage_Store (exEnv []) exS SlabID.undef (some 1)) = (some (.ctor "NewSlabIDError"), exS) := by rfl
example : PersistentSlabStorage_sortedOwnedDeltaKeys (exEnv []) exS = [⟨1, 1⟩, ⟨1, 3⟩] := by decide
example : PersistentSlabStorage_DeltasSizeWithoutTempAddresses (exEnv []) exS = some 30 := by decide
example : PersistentSlabStorage_HasUnsavedChanges (exEnv []) exS 0 = true := by decide
-- a commit whose second base-storage call fails: the first key is written, cached and no longer pending, the
-- second stays pending, the error is External
example : (PersistentSlabStorage_commit (exEnv [1]) exS [⟨1, 1⟩, ⟨1, 3⟩]).1 = some (.external (.base 1)) := by decide
example : (PersistentSlabStorage_commit (exEnv [1]) exS [⟨1, 1⟩, ⟨1, 3⟩]).2.deltas = [(⟨1, 3⟩, some 30), (⟨0, 1⟩, some 40)] := by decide
example : (PersistentSlabStorage_commit (exEnv [1]) exS [⟨1, 1⟩, ⟨1, 3⟩]).2.baseStorage.regs = [(⟨1, 2⟩, 99)] := by decide
example : (PersistentSlabStorage_commit (exEnv []) exS [⟨1, 1⟩, ⟨1, 3⟩]).2.baseStorage.regs = [(⟨1, 3⟩, 130), (⟨1, 2⟩, 99)] := by decide
-- `gstep` serves the request (hypothesis of `St_step_eq_generated`), here the read of the undecodable register
example : ∃ s' o, gstep exCodec (St.faultPlan []) (fun v => UInt32.ofNat v) exJunk exS (.retrieve ⟨1, 2⟩) = some (s', o) :=
  ⟨_, _, rfl⟩
end example_

end Atree.TransEq
