import AtreeProofs.Props.TransMapDescentInv
/-
  MAP DESCENT, round 3 (WP13): the ROOT-level provider invariant and root tail predicate.
  `MQ T D d t` (TransMapDescentInv.lean) contains `SInv T D d false t`, whose `root_eq` says the slab is NOT a root: it
  can never hold of `m.root`.  The root tails (`rs.promote`, `rs.splitRoot`) therefore get their own handle-level
  predicate `QR : OMap r → Prop` (instantiated with `MQR`): `mds_RootPreR`, `MRootTailR` are `mds_RootPre`, `MRootTail` of
  TransMapDescentTopSetFull.lean with `inv : Q m.d m.root` replaced by `inv : QR m`.  DEFINITIONS ONLY.
-/
namespace Atree.TransEq
open Atree Atree.Gen.TransMapD

section
variable {r : Nat}

/-- the LOOSE ROOT invariant: what `MTree.set_spec` (top := true) gives for the root of a map satisfying `MapInv`, and
    what promotion / root split / doing nothing preserve: structural invariant of a root, not inlined, at most one entry /
    header over the band, first-level digests are `uint64` values -/
def MQR (T : Nat) (D : DigestFn (r + 1)) (m : OMap r) : Prop :=
  SInv T D m.d true m.root ∧ treeInl m.d m.root = false ∧ (MTree.hdr m.d m.root).size ≤ maxThr T + slack T m.d ∧
    ∀ x ∈ MTree.digests0 m.d m.root, x < 2^64

/-- the state invariant of a map handle over the heap, with a handle-level provider invariant `QR` -/
structure mds_RootPreR (QR : OMap r → Prop) (addr : Nat) (s : MHSt r) (m : OMap r) (x0 : Option DX) : Prop where
  held : MHolds s.heap m.d m.root x0
  nodup : (md_ids m.d m.root).Nodup
  addrOk : ∀ id ∈ md_ids m.d m.root, id.addr = addr
  ff : mds_FreshFree addr s
  inv : QR m

/-- TAIL hypotheses on `rs.promote` / `rs.splitRoot` (as `MRootTail`, over `mds_RootPreR QR`) -/
structure MRootTailR (T : Nat) (rs : DRestruct r) (QR : OMap r → Prop) : Prop where
  promote : ∀ (addr d : Nat) (xr : MMetaSlab (MTree r d)) (ty cnt seed : Nat) (h : MHdr) (s1 : MHSt r) (x0 : Option DX),
    xr.childHdrs = [h] → xr.childHdrs = xr.children.map (MTree.hdr d) →
    mds_RootPreR QR addr s1 ⟨d + 1, xr, ty, cnt, seed⟩ x0 →
    ∃ s2, rs.promote (md_map ⟨d + 1, xr, ty, cnt, seed⟩ s1) h.id =
        (none, md_map (OMap.promoteIfSingleChild ⟨d + 1, xr, ty, cnt, seed⟩ s1.ctx).1 s2) ∧
      s2.ctx = (OMap.promoteIfSingleChild ⟨d + 1, xr, ty, cnt, seed⟩ s1.ctx).2 ∧ s2.popped = s1.popped ∧
      mds_RootPreR QR addr s2 (OMap.promoteIfSingleChild ⟨d + 1, xr, ty, cnt, seed⟩ s1.ctx).1
        (some (md_extra (OMap.promoteIfSingleChild ⟨d + 1, xr, ty, cnt, seed⟩ s1.ctx).1)) ∧
      mds_Delta s1.heap s2.heap (md_ids (d + 1) xr)
        (md_ids _ (OMap.promoteIfSingleChild ⟨d + 1, xr, ty, cnt, seed⟩ s1.ctx).1.root)
  splitRoot : ∀ (addr : Nat) (m2 : OMap r) (s2 : MHSt r) (x0 : Option DX),
    mds_RootPreR QR addr s2 m2 x0 → MTree.isFull T m2.d m2.root = true →
    match m2.splitRoot s2.ctx with
    | .ok (m3, c3) =>
      ∃ s3, rs.splitRoot (md_map m2 s2) = (none, md_map m3 s3) ∧ s3.ctx = c3 ∧ s3.popped = s2.popped ∧
        mds_RootPreR QR addr s3 m3 (some (md_extra m3)) ∧
        mds_Delta s2.heap s3.heap (md_ids m2.d m2.root) (md_ids m3.d m3.root)
    | .error e => ∃ M', rs.splitRoot (md_map m2 s2) = (some e, M')

end

end Atree.TransEq
