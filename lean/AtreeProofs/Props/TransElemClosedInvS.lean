import AtreeProofs.Props.TransElemClosedInvR
import AtreeProofs.Map.HkeySpec
/-
  WP13, part 8: the guard `mcl_QS` of the closed `Set` follows from the map element invariant `ElemsInv` and RANGE
  conditions on model values (`mcl_FitS`; `mcl_FitG` for the collision-limit probe), giving the FULL statements
  `elements_Set_eq_model_closed`, `MapDataSlab_Set_eq_model_closed`.  Derived from the invariant: table well-formedness,
  the model's `newWith` succeeds on a collision and its result satisfies the invariant (`MElems.opsSpec`), the storage
  returns the first-level group slabs, `SingleElems.set` never says `.goPanic`.
-/
namespace Atree.TransEq
open Atree

/-- the model's last-level `set` never reports a Go panic -/
theorem mcl_single_set_noPanic (cfg : MCfg) (g : SingleElems) (lvl : Nat) (k : MKey) (v : Elem) (c : Ctx) :
    SingleElems.set cfg g lvl k v c ≠ .error .goPanic := by
  unfold SingleElems.set
  split
  · simp
  · cases hf : g.elems.findIdx? (fun x => x.key.same k) with
    | none => simp
    | some j =>
      obtain ⟨x, hx, _⟩ := msl_findIdx?_getElem? _ _ _ hf
      simp [hx]

/-- RANGE condition of the closed `Set` (argument and model results), by recursion on the levels left -/
def mcl_FitS (cfg : MCfg) (k : MKey) (v : Elem) : (r : Nat) → MElems r → Nat → Ctx → Prop
  | 0, (g : SingleElems), lvl, c =>
    mcl_SFit g ∧ k.size < 2^32 ∧
    ∀ ks old g' c', SingleElems.set cfg g lvl k v c = .ok (ks, old, g', c') → mcl_SFit g'
  | r + 1, (g : HkeyElems (MElems r)), lvl, c =>
    mcl_HFit g ∧ g.hkeys.length < 2^62 ∧ (∀ el ∈ g.elems, el.count (MElems.ops r) < 2^32) ∧
    (newSingleElement cfg.T cfg.addr k v c).1.size < 2^32 ∧
    (∀ ks old g' c', HkeyElems.set (MElems.ops r) cfg g lvl k v c = .ok (ks, old, g', c') → mcl_HFit g') ∧
    ∀ el ∈ g.elems,
      (∀ g0, (mei_nested el = some g0 ∨ ∃ x, el = .single x ∧ (MElems.ops r).newWith cfg (lvl + 1) x = .ok g0) →
        mcl_FitS cfg k v r g0 (lvl + 1) c ∧ mcl_FitG r g0 ∧
        ∀ ks old g' c', (MElems.ops r).set cfg g0 (lvl + 1) k v c = .ok (ks, old, g', c') → (MElems.ops r).size g' + 2 < 2^32) ∧
      (∀ x, el = .single x → x.key.size < 2^32 ∧ x.size < 2^32 ∧ mcl_QN r (lvl + 1) x) ∧
      (∀ id sz s, el = .ext id sz s → s.hdr.id.addr = cfg.addr) ∧
      (∀ el' ks old c', el.set (MElems.ops r) cfg lvl k v c = .ok (el', ks, old, c') → mcl_ElFit el')

section inv
variable {X : Type} (cfg : MCfg) (k : MKey) (v : Elem) (retr : mcl_Retrs X) (T L : Nat) (D : DigestFn L)

theorem mcl_QS_of_inv (hT : legalThreshold T = true) (hc : CfgFor cfg T L) (hkd : ∀ lvl, k.dig lvl < 2^64)
    (hL : L < 2^64) (c : Ctx) :
    ∀ (r level : Nat) (path : List Nat) (e : MElems r), ElemsInv T L D r level path e → mcl_FitS cfg k v r e level c →
      mcl_FitG r e → (level = 0 → mcl_RetrOk retr c r e) → mcl_QS cfg k v retr r e level c
  | 0, level, _, (e : SingleElems), _, hfit, _, _ => by
    show mcl_QS0 cfg k v e level c
    exact ⟨hfit.1, hfit.2.1, hfit.2.2, mcl_single_set_noPanic cfg e level k v c⟩
  | r + 1, level, path, (e : HkeyElems (MElems r)), hinv, hfit, hfitG, hret => by
    have hG := mcl_QG_of_inv k retr T L D hkd hL c (r + 1) level path e hinv hfitG hret
    obtain ⟨hLr, _, hlen, _, _, hel⟩ := hinv
    obtain ⟨hf, hshort, hcnt, hnsz, hres, hels⟩ := hfit
    show mcl_QsH (MElems.ops r) cfg k v (mcl_Pg (retr r) (mcl_QG k retr r))
      (mcl_Ps (MElems.ops r) cfg k v (retr r) (mcl_QS cfg k v retr r) (mcl_QN r)) e level c
    refine ⟨⟨hlen.symm, hf.dig, hshort⟩, hf, hkd level, hcnt, hnsz, hres, hG.elems, ?_⟩
    intro i el hi
    have hmem : el ∈ e.elems := List.mem_of_getElem? hi
    have hlt : i < e.hkeys.length := by
      have := (List.getElem?_eq_some_iff.mp hi).1; omega
    have hhk : e.hkeys[i]? = some (e.hkeys[i]) := List.getElem?_eq_getElem hlt
    have h := hel i _ el hhk hi
    obtain ⟨hnest, hsingle, haddr, hresEl⟩ := hels el hmem
    have S := MElems.opsSpec D hT hc r
    refine ⟨by omega, ?_, fun x hx => (hsingle x hx).2.2, ?_, fun g hg => (hnest g hg).2.2, ?_, hresEl⟩
    · intro g hg
      obtain ⟨hfS, hfG, _⟩ := hnest g hg
      rcases hg with hg | ⟨x, hx, hnw⟩
      · cases el with
        | single x => simp [mei_nested] at hg
        | inl g' =>
          have hg' : g' = g := Option.some.inj hg
          subst hg'
          exact mcl_QS_of_inv hT hc hkd hL c r (level + 1) _ g' h.1 hfS hfG (fun h0 => by omega)
        | ext id sz s =>
          have hg' : s.elems = g := Option.some.inj hg
          subst hg'
          exact mcl_QS_of_inv hT hc hkd hL c r (level + 1) _ s.elems h.2.2.2.2.2.1 hfS hfG (fun h0 => by omega)
      · subst hx
        obtain ⟨g1, hg1, hinv1, _⟩ := S.newWith (ℓ := level + 1) (path := path ++ [e.hkeys[i]]) (x := x) (by omega) h.1 h.2
        rw [hnw] at hg1
        have hg' : g = g1 := Except.ok.inj hg1
        subst hg'
        exact mcl_QS_of_inv hT hc hkd hL c r (level + 1) _ g hinv1 hfS hfG (fun h0 => by omega)
    · intro id sz s hs
      subst hs
      exact ⟨haddr id sz s rfl, hret h.1 id sz s hmem⟩
    · intro x hx
      subst hx
      obtain ⟨h1, h2, _⟩ := hsingle x rfl
      refine ⟨h1, h2, fun _ => ?_⟩
      obtain ⟨g1, hg1, _, _⟩ := S.newWith (ℓ := level + 1) (path := path ++ [e.hkeys[i]]) (x := x) (by omega) h.1 h.2
      exact ⟨g1, hg1⟩

end inv

section final
variable {X : Type} (cfg : MCfg) (k : MKey) (v : Elem) (retr : mcl_Retrs X) (D : DigestFn cfg.L)

/-- **CLOSED `Set`.**  For every level index `r`: under the map element invariant (threshold `cfg.T` legal), the range
    conditions `mcl_FitS` (sizes / counts `< 2^32`, levels / digests `< 2^64`, fewer than 2^62 entries per table - of the
    argument and of the model's results; owner address of the group slabs) and `mcl_FitG`, digests of the key in `uint64`
    range, and a storage that returns the slabs of the first-level external groups, the closed generated `elements.Set`
    applied to `e` equals the model's `(MElems.ops r).set`: Go results, the receiver's new state, the storage state.  No
    hypothesis about generated code or an environment. -/
theorem elements_Set_eq_model_closed (hLT : legalThreshold cfg.T = true) (hL : cfg.L < 2^64) (hT : cfg.T < 2^32)
    (hTe : maxInlineMapElem cfg.T < 2^32) (hcl : cfg.climit < 2^32) (hkd : ∀ lvl, k.dig lvl < 2^64)
    (r level : Nat) (path : List Nat) (e : MElems r) (c : Ctx)
    (hinv : ElemsInv cfg.T cfg.L D r level path e) (hfit : mcl_FitS cfg k v r e level c) (hfitG : mcl_FitG r e)
    (hret : level = 0 → mcl_RetrOk retr c r e) :
    clElements_Set cfg retr r e c cfg.addr () k (u64 level) (u64 (k.dig level)) (.key k) (.val v) =
      mei_rGSet e c ((MElems.ops r).set cfg e level k v c) := by
  have hl : level < 2^64 := by
    cases r with
    | zero => have := hinv.1; omega
    | succ r => have := hinv.1; omega
  exact elements_Set_eq_model_closed_of_guard cfg k v retr hL hT hTe hcl r e level c hl
    (mcl_QS_of_inv cfg k v retr cfg.T cfg.L D hLT ⟨rfl, rfl⟩ hkd hL c r level path e hinv hfit hfitG hret)

/-- **CLOSED `MapDataSlab.Set`** on a data slab of the tree = the model's `MDataSlab.set` -/
theorem MapDataSlab_Set_eq_model_closed {r : Nat} (hr : cfg.L = r + 1) (D' : DigestFn (r + 1))
    (hLT : legalThreshold cfg.T = true) (hL : cfg.L < 2^64) (hT : cfg.T < 2^32) (hTe : maxInlineMapElem cfg.T < 2^32)
    (hcl : cfg.climit < 2^32) (hkd : ∀ lvl, k.dig lvl < 2^64) (top : Bool)
    (s : MDataSlab r) (x : Option X) (hx : x.isSome = s.root) (c : Ctx) (ha : s.hdr.id.addr = cfg.addr)
    (hinv : MDataInv cfg.T D' top s)
    (hfit : mcl_FitS cfg k v (r + 1) s.elems 0 c) (hfitG : mcl_FitG (r + 1) s.elems)
    (hret : mcl_RetrOk retr c (r + 1) s.elems) :
    Gen.TransElem.MapDataSlab_Set (clEnvB cfg retr (r + 1)) (mei_cData s x) c () k (u64 0) (u64 (k.dig 0)) (.key k) (.val v) =
      match MDataSlab.set cfg s k v c with
      | .ok (ks, old, s', c') => some (some (.key ks), old.map .val, none, mei_cData s' x, c')
      | .error err => some (none, none, some err, mei_cData s x, c) :=
  MapDataSlab_Set_eq_model_closed_of_guard cfg k v retr hL hT hTe hcl s x hx c ha
    (mcl_QS_of_inv cfg k v retr cfg.T (r + 1) D' hLT ⟨rfl, hr⟩ hkd (hr ▸ hL) c (r + 1) 0 [] s.elems hinv.elems_inv hfit hfitG
      (fun _ => hret))

end final
end Atree.TransEq
