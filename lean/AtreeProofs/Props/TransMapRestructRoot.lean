import AtreeProofs.Props.TransMapRestructSplit
import AtreeProofs.Props.TransMapSlabsRoot
/-
  WP13 step 3, the SPLIT side, root level: the GENERATED `OrderedMap.splitRoot` (`Gen/TransMapSlabs.lean`) run over the
  HEAP of the map descent (`(rsOf T).splitRoot`, Trans/MapRestruct.lean) = the model's `OMap.splitRoot`, with the heap
  after the call as an explicit chain: the two allocations only change the `Ctx`, then `Store` left, `Store` right,
  `Store` new root (with the extra data of the handle).  Port of `OrderedMap_splitRoot_eq_model` (WP10,
  Props/TransMapSlabsRoot.lean) to the storage `MHSt r`.  Helper names carry the prefix `mrs_`.
-/
namespace Atree.TransEq
open Atree Atree.Gen.TransMap

section root
variable {r : Nat} (T : Nat)

/-- a model handle as the generated `OrderedMap` of the restructuring unit over the heap -/
def mrs_cMapH (m : OMap r) (x : Option DX) (s : MHSt r) : OrderedMap (ME r) SV DX (MHSt r) :=
  { Storage := s, root := root_cTree m.d m.root x }

theorem mrs_toM_md_tree (d : Nat) (t : MTree r d) (x : Option DX) : mr_toM (md_tree d t x) = root_cTree d t x := by
  cases d with
  | zero => rfl
  | succ d => exact mr_toM_meta (t : MMetaSlab (MTree r d)) x

theorem mrs_mapM_md_map (m : OMap r) (s : MHSt r) : mr_mapM (md_map m s) = mrs_cMapH m (some (md_extra m)) s := by
  simp only [mr_mapM, md_map, mrs_cMapH, mrs_toM_md_tree]

/-! ## the model's `splitRoot` by its steps -/

/-- the old root as the model's `splitRoot` hands it to `split`: non-root size (data slab), root flag off, the fresh
    identifier -/
def mrs_rootOld (m : OMap r) (c : Ctx) : MTree r m.d :=
  let root0 : MTree r m.d :=
    match m with
    | ⟨0, (s : MDataSlab r), _, _, _⟩ =>
      ({ s with hdr := { s.hdr with size := s.hdr.size - Gen.mapRootDataSlabPrefixSize + Gen.mapDataSlabPrefixSize } } : MDataSlab r)
    | ⟨_ + 1, x, _, _, _⟩ => x
  MTree.setId m.d (MTree.setRoot m.d root0 false) (c.alloc m.rootID.addr).1

/-- the new root index slab over the two halves -/
def mrs_newRoot (m : OMap r) (l rr : MTree r m.d) : MMetaSlab (MTree r m.d) :=
  { hdr := { id := m.rootID, size := Gen.mapMetaDataSlabPrefixSize + Gen.mapSlabHeaderSize * 2, firstKey := (MTree.hdr m.d l).firstKey },
    childHdrs := [MTree.hdr m.d l, MTree.hdr m.d rr], children := [l, rr], root := true }

/-- the handle after `splitRoot` -/
def mrs_rootNew (m : OMap r) (l rr : MTree r m.d) : OMap r := { m with d := m.d + 1, root := mrs_newRoot m l rr }

/-- `OMap.splitRoot` = allocate, `split` the old root, build the new root, three `Store` effects -/
theorem mrs_splitRoot_model (m : OMap r) (c : Ctx) :
    OMap.splitRoot m c =
      match MTree.split m.d (mrs_rootOld m c) (c.alloc m.rootID.addr).2 with
      | .ok (l, rr, c2) =>
        .ok (mrs_rootNew m l rr,
          ((c2.emit (.store (MTree.hdr m.d l).id)).emit (.store (MTree.hdr m.d rr).id)).emit (.store m.rootID))
      | .error e => .error e := by
  obtain ⟨d, root, ty, cnt, seed⟩ := m
  cases d with
  | zero =>
    simp only [OMap.splitRoot, mrs_rootOld, OMap.rootID, OMap.rootHdr, MTree.hdr, bind, Except.bind, pure, Except.pure]
    split <;> rename_i h1 <;> split <;> rename_i h2 <;> rw [h1] at h2 <;> cases h2 <;> rfl
  | succ d =>
    simp only [OMap.splitRoot, mrs_rootOld, OMap.rootID, OMap.rootHdr, MTree.hdr, bind, Except.bind, pure, Except.pure]
    split <;> rename_i h1 <;> split <;> rename_i h2 <;> rw [h1] at h2 <;> cases h2 <;> rfl

/-- the state the generated `splitRoot` leaves behind when the old root cannot be split (as WP10's `root_splitFail`):
    the identifier is allocated, the root is the OLD root slab under the NEW identifier without its extra data -/
def mrs_splitFail (m : OMap r) (s : MHSt r) : OrderedMap (ME r) SV DX (MHSt r) :=
  { Storage := s.withCtx (s.ctx.alloc m.rootID.addr).2,
    root := cTree m.d (root_deroot m.d m.root (s.ctx.alloc m.rootID.addr).1) }

/-! ## the generated `splitRoot` over the heap -/

/-- `splitRoot`, the root is an index slab (port of `OrderedMap_splitRoot_meta_eq_model`) -/
theorem mrs_splitRoot_meta_heap (d : Nat) (mm : MMetaSlab (MTree r d)) (ty cnt seed : Nat) (x : Option DX) (s : MHSt r)
    (hcov : 2 ≤ mm.childHdrs.length → (mm.childHdrs.length + 1) / 2 * Gen.mapSlabHeaderSize ≤ mm.hdr.size) :
    OrderedMap_splitRoot (envMH T) (mrs_cMapH (⟨d + 1, mm, ty, cnt, seed⟩ : OMap r) x s) =
      match MTree.split (d + 1) (mrs_rootOld (⟨d + 1, mm, ty, cnt, seed⟩ : OMap r) s.ctx)
          (s.ctx.alloc (OMap.rootID (⟨d + 1, mm, ty, cnt, seed⟩ : OMap r)).addr).2 with
      | .ok (l, rr, c2) =>
        some (none, mrs_cMapH (mrs_rootNew (⟨d + 1, mm, ty, cnt, seed⟩ : OMap r) l rr) x
          (mrs_splitChildSt s (mrs_newRoot (⟨d + 1, mm, ty, cnt, seed⟩ : OMap r) l rr) x l rr c2))
      | .error e => some (some e, mrs_splitFail ⟨d + 1, mm, ty, cnt, seed⟩ s) := by
  rcases ha : s.ctx.alloc mm.hdr.id.addr with ⟨sid, c1⟩
  have hsp := mrs_MapMetaDataSlab_Split_heap (r := r) T
    ({ mm with hdr := { mm.hdr with id := sid }, root := false } : MMetaSlab (MTree r d)) (none : Option DX) (s.withCtx c1) hcov
  simp only [cMeta, cHdr, MHSt.withCtx_ctx, MHSt.withCtx_withCtx] at hsp
  simp only [OrderedMap_splitRoot, mrs_cMapH, root_cTree, mrs_splitFail, root_deroot, cTree, OMap.rootID, OMap.rootHdr,
    MTree.hdr, MapSlab_IsData, MapMetaDataSlab_IsData,
    Bool.false_eq_true, if_false, MapSlab_RemoveExtraData, MapMetaDataSlab_RemoveExtraData, MapSlab_SlabID,
    MapMetaDataSlab_SlabID, OrderedMap_Address, cMeta, cHdr, envMH_gen, ha, Option.isNone_none, Bool.not_true,
    MapSlab_SetSlabID, MapMetaDataSlab_SetSlabID, MapSlab_Split, hsp,
    mrs_rootOld, MTree.setRoot, MTree.setId, MTree.split]
  cases hres : MMetaSlab.split ({ mm with hdr := { mm.hdr with id := sid }, root := false } : MMetaSlab (MTree r d)) c1 with
  | error e => simp only [Option.isNone_some, Bool.not_false, if_true]
  | ok p =>
    obtain ⟨l, rr, c2⟩ := p
    simp only [Option.isNone_none, Bool.not_true, Bool.false_eq_true, if_false, MapSlab.isNil, Bool.not_false, if_true,
      MapSlab_Header, MapMetaDataSlab_Header, storeSlab, MapSlab_SlabID, MapMetaDataSlab_SlabID, envMH_store,
      List.map_cons, List.map_nil, cHdr, u32, mrs_rootNew, mrs_newRoot, mrs_splitChildSt, mr_fromM, mr_metaD, md_tree,
      md_meta, mr_hdrD, md_hdr, List.map_map, Function.comp_def, MTree.hdr, OMap.rootID, OMap.rootHdr]
    rfl

/-- `splitRoot`, the root is a data slab (port of `OrderedMap_splitRoot_data_eq_model`); `hfit`: the element groups of
    the two halves are in the `uint` ranges (they are stored and read back) -/
theorem mrs_splitRoot_data_heap (sd : MDataSlab r) (ty cnt seed : Nat) (x : Option DX) (s : MHSt r)
    (hcnt : sd.elems.elems.length < 2^32)
    (hs : sd.elems.size + Gen.mapDataSlabPrefixSize < 2^32)
    (hpre : Gen.hkeyElementsPrefixSize + (dg (rawSizes (MDataSlab.eops r) sd.elems)).sum ≤ sd.elems.size)
    (hlen : sd.elems.elems.length ≤ sd.elems.hkeys.length)
    (hfit : ¬ sd.elems.elems.length < 2 → mr_HFit (HkeyElems.split (MDataSlab.eops r) sd.elems).1 ∧
      mr_HFit (HkeyElems.split (MDataSlab.eops r) sd.elems).2) :
    OrderedMap_splitRoot (envMH T) (mrs_cMapH (⟨0, sd, ty, cnt, seed⟩ : OMap r) x s) =
      match MTree.split 0 (mrs_rootOld (⟨0, sd, ty, cnt, seed⟩ : OMap r) s.ctx)
          (s.ctx.alloc (OMap.rootID (⟨0, sd, ty, cnt, seed⟩ : OMap r)).addr).2 with
      | .ok (l, rr, c2) =>
        some (none, mrs_cMapH (mrs_rootNew (⟨0, sd, ty, cnt, seed⟩ : OMap r) l rr) x
          (mrs_splitChildSt s (mrs_newRoot (⟨0, sd, ty, cnt, seed⟩ : OMap r) l rr) x l rr c2))
      | .error e => some (some e, mrs_splitFail ⟨0, sd, ty, cnt, seed⟩ s) := by
  rcases ha : s.ctx.alloc sd.hdr.id.addr with ⟨sid, c1⟩
  have hsp := mrs_MapDataSlab_Split_heap T
    ({ sd with hdr := { id := sid, size := sd.hdr.size + 16, firstKey := sd.hdr.firstKey } } : MDataSlab r)
    (none : Option DX) (s.withCtx c1) hcnt hs hpre hlen
  simp only [cData, cHdr, MDataSlab.split, MHSt.withCtx_ctx, MHSt.withCtx_withCtx] at hsp
  simp only [OrderedMap_splitRoot, mrs_cMapH, root_cTree, mrs_splitFail, root_deroot, cTree, OMap.rootID, OMap.rootHdr,
    MTree.hdr, MapSlab_IsData, MapDataSlab_IsData, if_true, cData, cHdr, root_u32_adjust,
    MapSlab_RemoveExtraData, MapDataSlab_RemoveExtraData, MapSlab_SlabID,
    MapDataSlab_SlabID, OrderedMap_Address, envMH_gen, ha, Option.isNone_none, Bool.not_true, Bool.false_eq_true, if_false,
    MapSlab_SetSlabID, MapDataSlab_SetSlabID, MapSlab_Split, hsp,
    mrs_rootOld, MTree.setRoot, MTree.setId, MTree.split, MDataSlab.split]
  by_cases h2 : sd.elems.elems.length < 2
  · simp only [h2, if_true, Option.isNone_some, Bool.not_false]
  · have hf := hfit h2
    rcases hsplit : HkeyElems.split (MDataSlab.eops r) sd.elems with ⟨le, re⟩
    rcases ha2 : c1.alloc sid.addr with ⟨sid2, c2⟩
    rw [hsplit] at hf
    simp only [h2, if_false,
      Option.isNone_none, Bool.not_true, Bool.false_eq_true, MapSlab.isNil, Bool.not_false, if_true,
      MapSlab_Header, MapDataSlab_Header, storeSlab, MapSlab_SlabID, MapDataSlab_SlabID, MapMetaDataSlab_SlabID,
      envMH_store, cMeta, List.map_cons, List.map_nil, cHdr, u32, mrs_rootNew, mrs_newRoot, mrs_splitChildSt, mr_fromM,
      mr_dataD, mr_dH_cH le hf.1, mr_dH_cH re hf.2, mr_metaD, md_tree, md_meta, md_data, mr_hdrD, md_hdr, MTree.hdr,
      OMap.rootID, OMap.rootHdr]

theorem mrs_data_split_elems (sd l rr : MDataSlab r) (c c2 : Ctx) (h : MDataSlab.split sd c = .ok (l, rr, c2)) :
    ¬ sd.elems.elems.length < 2 ∧ l.elems = (HkeyElems.split (MDataSlab.eops r) sd.elems).1 ∧
      rr.elems = (HkeyElems.split (MDataSlab.eops r) sd.elems).2 := by
  simp only [MDataSlab.split] at h
  split at h
  · cases h
  · rename_i h2
    cases h
    exact ⟨h2, rfl, rfl⟩

theorem mrs_data_split_ok (sd : MDataSlab r) (c : Ctx) (h2 : ¬ sd.elems.elems.length < 2) :
    ∃ l rr c2, MDataSlab.split sd c = .ok (l, rr, c2) := by
  simp only [MDataSlab.split, if_neg h2]
  exact ⟨_, _, _, rfl⟩

/-- the generated `splitRoot` over the heap, any depth (port of `OrderedMap_splitRoot_eq_model`) -/
theorem mrs_splitRoot_heap (m : OMap r) (x : Option DX) (s : MHSt r) (hm : root_splitHyp m)
    (hfit : ∀ l rr c2, MTree.split m.d (mrs_rootOld m s.ctx) (s.ctx.alloc m.rootID.addr).2 = .ok (l, rr, c2) →
      mr_RootFit m.d l ∧ mr_RootFit m.d rr) :
    OrderedMap_splitRoot (envMH T) (mrs_cMapH m x s) =
      match MTree.split m.d (mrs_rootOld m s.ctx) (s.ctx.alloc m.rootID.addr).2 with
      | .ok (l, rr, c2) =>
        some (none, mrs_cMapH (mrs_rootNew m l rr) x (mrs_splitChildSt s (mrs_newRoot m l rr) x l rr c2))
      | .error e => some (some e, mrs_splitFail m s) := by
  obtain ⟨d, root, ty, cnt, seed⟩ := m
  cases d with
  | zero =>
    obtain ⟨h1, h2, h3, h4⟩ := hm
    have hf : ¬ (root : MDataSlab r).elems.elems.length < 2 →
        mr_HFit (HkeyElems.split (MDataSlab.eops r) (root : MDataSlab r).elems).1 ∧
        mr_HFit (HkeyElems.split (MDataSlab.eops r) (root : MDataSlab r).elems).2 := by
      intro hn
      obtain ⟨l, rr, c2, hsp⟩ := mrs_data_split_ok
        (mrs_rootOld (⟨0, root, ty, cnt, seed⟩ : OMap r) s.ctx : MDataSlab r)
        (s.ctx.alloc (OMap.rootID (⟨0, root, ty, cnt, seed⟩ : OMap r)).addr).2 hn
      obtain ⟨_, el, er⟩ := mrs_data_split_elems _ l rr _ c2 hsp
      obtain ⟨fl, fr⟩ := hfit l rr c2 hsp
      have fl' : mr_HFit (l : MDataSlab r).elems := fl
      have fr' : mr_HFit (rr : MDataSlab r).elems := fr
      rw [el] at fl'
      rw [er] at fr'
      exact ⟨fl', fr'⟩
    have h := mrs_splitRoot_data_heap T root ty cnt seed x s h1 h2 h3 h4 hf
    dsimp only
    rw [h]
    generalize MTree.split 0 (mrs_rootOld (⟨0, root, ty, cnt, seed⟩ : OMap r) s.ctx)
      (s.ctx.alloc (OMap.rootID (⟨0, root, ty, cnt, seed⟩ : OMap r)).addr).2 = X
    cases X with
    | error e => rfl
    | ok p => obtain ⟨l, rr, c2⟩ := p; rfl
  | succ d =>
    have h := mrs_splitRoot_meta_heap T d root ty cnt seed x s hm
    dsimp only
    rw [h]
    generalize MTree.split (d + 1) (mrs_rootOld (⟨d + 1, root, ty, cnt, seed⟩ : OMap r) s.ctx)
      (s.ctx.alloc (OMap.rootID (⟨d + 1, root, ty, cnt, seed⟩ : OMap r)).addr).2 = X
    cases X with
    | error e => rfl
    | ok p => obtain ⟨l, rr, c2⟩ := p; rfl

/-! ## the restructuring record of the descent -/

theorem mrs_md_extra_rootNew (m : OMap r) (l rr : MTree r m.d) : md_extra (mrs_rootNew m l rr) = md_extra m := rfl

/-- **`OrderedMap.splitRoot` of the restructuring record over the heap** = the model's `OMap.splitRoot`: no error, the
    handle of the model's result `mp'` (= `mrs_rootNew mp l rr`: the new root index slab under the OLD root identifier
    over the two halves, with the extra data of the handle) over the heap after: the two allocations (only the `Ctx`
    changes: `withCtx c2`), `Store` left, `Store` right, `Store` new root; the `Ctx` of that storage is the model's. -/
theorem Ob_splitRoot_heap (mp : OMap r) (s : MHSt r) (hm : root_splitHyp mp) {mp' : OMap r} {c' : Ctx}
    (hmodel : OMap.splitRoot mp s.ctx = .ok (mp', c')) {l rr : MTree r mp.d} {c2 : Ctx}
    (hsp : MTree.split mp.d (mrs_rootOld mp s.ctx) (s.ctx.alloc mp.rootID.addr).2 = .ok (l, rr, c2))
    (hfl : mr_RootFit mp.d l) (hfr : mr_RootFit mp.d rr) :
    (rsOf T).splitRoot (md_map mp s) =
      (none, md_map mp'
        ((((s.withCtx c2).store (MTree.hdr mp.d l).id (md_tree mp.d l none)).store (MTree.hdr mp.d rr).id
          (md_tree mp.d rr none)).store mp.rootID (.metaSlab (md_meta (mrs_newRoot mp l rr) (some (md_extra mp)))))) ∧
    ((((s.withCtx c2).store (MTree.hdr mp.d l).id (md_tree mp.d l none)).store (MTree.hdr mp.d rr).id
          (md_tree mp.d rr none)).store mp.rootID (.metaSlab (md_meta (mrs_newRoot mp l rr) (some (md_extra mp))))).ctx = c' ∧
    mp' = mrs_rootNew mp l rr := by
  have hmod := mrs_splitRoot_model mp s.ctx
  simp only [hsp] at hmod
  rw [hmod] at hmodel
  cases hmodel
  have hfit' : ∀ l' rr' c2', MTree.split mp.d (mrs_rootOld mp s.ctx) (s.ctx.alloc mp.rootID.addr).2 = .ok (l', rr', c2') →
      mr_RootFit mp.d l' ∧ mr_RootFit mp.d rr' := by
    intro l' rr' c2' h
    rw [hsp] at h
    cases h
    exact ⟨hfl, hfr⟩
  have h := mrs_splitRoot_heap T mp (some (md_extra mp)) s hm hfit'
  simp only [hsp] at h
  refine ⟨?_, rfl, rfl⟩
  simp only [rsOf, mrs_mapM_md_map, h]
  simp only [mr_mapD, mrs_cMapH, md_map, mrs_splitChildSt, mrs_rootNew, root_cTree, mr_fromM, mr_metaD_cMeta, md_tree]
  rfl

/-- the error case (the root has fewer than 2 elements / children): the model's error class; the handle is left in
    the state WP10's `root_splitFail` describes - the identifier is allocated (`withCtx`), the heap is untouched, the root
    of the handle is the OLD root slab under the NEW identifier, without its extra data, a data root with the non-root
    size (`root_deroot`); `mr_RootFit`: the root object goes through `mr_toM` / `mr_fromM` -/
theorem Ob_splitRoot_heap_error (mp : OMap r) (s : MHSt r) (hm : root_splitHyp mp) {e : MErr}
    (hmodel : OMap.splitRoot mp s.ctx = .error e) (hfroot : mr_RootFit mp.d mp.root) :
    (rsOf T).splitRoot (md_map mp s) =
      (some e, { Storage := s.withCtx (s.ctx.alloc mp.rootID.addr).2,
                 root := md_tree mp.d (root_deroot mp.d mp.root (s.ctx.alloc mp.rootID.addr).1) none,
                 digesterBuilder := () }) := by
  have hmod := mrs_splitRoot_model mp s.ctx
  cases hsp : MTree.split mp.d (mrs_rootOld mp s.ctx) (s.ctx.alloc mp.rootID.addr).2 with
  | ok p =>
    obtain ⟨l, rr, c2⟩ := p
    simp only [hsp] at hmod
    rw [hmod] at hmodel
    cases hmodel
  | error e' =>
    simp only [hsp] at hmod
    rw [hmod] at hmodel
    cases hmodel
    have hfit' : ∀ l' rr' c2', MTree.split mp.d (mrs_rootOld mp s.ctx) (s.ctx.alloc mp.rootID.addr).2 = .ok (l', rr', c2') →
        mr_RootFit mp.d l' ∧ mr_RootFit mp.d rr' := by
      intro l' rr' c2' h
      rw [hsp] at h
      cases h
    have h := mrs_splitRoot_heap T mp (some (md_extra mp)) s hm hfit'
    simp only [hsp] at h
    have hfd : mr_RootFit mp.d (root_deroot mp.d mp.root (s.ctx.alloc mp.rootID.addr).1) := by
      obtain ⟨d, root, ty, cnt, seed⟩ := mp
      cases d with
      | zero => exact hfroot
      | succ d => trivial
    simp only [rsOf, mrs_mapM_md_map, h, mr_mapD, mrs_splitFail, mr_fromM_cTree _ _ hfd]

/-! ## what the heap holds after `splitRoot` -/

/-- the old root as `splitRoot` hands it to `split`: the fresh identifier, the children of the root -/
theorem mrs_rootOld_shape (mp : OMap r) (c : Ctx) :
    (MTree.hdr mp.d (mrs_rootOld mp c)).id = (c.alloc mp.rootID.addr).1 ∧
    mrs_kidIds mp.d (mrs_rootOld mp c) = mrs_kidIds mp.d mp.root ∧
    (∀ h, mrs_KidsHeld h mp.d mp.root → mrs_KidsHeld h mp.d (mrs_rootOld mp c)) := by
  obtain ⟨d, root, ty, cnt, seed⟩ := mp
  cases d with
  | zero => exact ⟨rfl, rfl, fun _ h => h⟩
  | succ d => exact ⟨rfl, rfl, fun _ h => h⟩

/-- **the heap after `splitRoot`**: if the slabs below the old root were held, the two fresh identifiers (of the left
    half = the re-identified old root, and of the right half) are different from each other, from the root identifier
    and from every identifier below the root, and the root identifier is not below the root, then the heap holds the
    whole new tree (the new root index slab with the extra data under the OLD root identifier, both halves and
    everything below them), and every other identifier is untouched -/
theorem Ob_splitRoot_heapPost (mp : OMap r) (s : MHSt r) {l rr : MTree r mp.d} {c2 : Ctx}
    (hsp : MTree.split mp.d (mrs_rootOld mp s.ctx) (s.ctx.alloc mp.rootID.addr).2 = .ok (l, rr, c2))
    (hkids : mrs_KidsHeld s.heap mp.d mp.root)
    (hl : (MTree.hdr mp.d l).id ∉ mrs_kidIds mp.d mp.root) (hr : (MTree.hdr mp.d rr).id ∉ mrs_kidIds mp.d mp.root)
    (hlr : (MTree.hdr mp.d rr).id ≠ (MTree.hdr mp.d l).id)
    (hrootl : mp.rootID ≠ (MTree.hdr mp.d l).id) (hrootr : (MTree.hdr mp.d rr).id ≠ mp.rootID)
    (hrootk : mp.rootID ∉ mrs_kidIds mp.d mp.root) :
    let s' := (((s.withCtx c2).store (MTree.hdr mp.d l).id (md_tree mp.d l none)).store (MTree.hdr mp.d rr).id
      (md_tree mp.d rr none)).store mp.rootID (.metaSlab (md_meta (mrs_newRoot mp l rr) (some (md_extra mp))))
    MHolds s'.heap (mp.d + 1) (mrs_newRoot mp l rr) (some (md_extra mp)) ∧
    (∀ id, id ≠ (MTree.hdr mp.d l).id → id ≠ (MTree.hdr mp.d rr).id → id ≠ mp.rootID → s'.heap id = s.heap id) := by
  intro s'
  obtain ⟨hoid, hokids, hoheld⟩ := mrs_rootOld_shape mp s.ctx
  obtain ⟨hlid, _, _, _⟩ := mrs_split_shape mp.d (mrs_rootOld mp s.ctx) l rr _ c2 hsp
  have hids : md_ids mp.d (mrs_rootOld mp s.ctx) = (MTree.hdr mp.d l).id :: mrs_kidIds mp.d mp.root := by
    rw [mrs_md_ids_eq, hokids, hlid]
  have hp := mrs_splitSt_heapPost mp.d (mrs_newRoot mp l rr) (some (md_extra mp)) (mrs_rootOld mp s.ctx) l rr _ c2 s hsp
    (hoheld _ hkids)
    (by rw [hids]; intro h; rcases List.mem_cons.mp h with h | h
        · exact hlr h
        · exact hr h)
    hrootr
    (by rw [hids]; intro h; rcases List.mem_cons.mp h with h | h
        · exact hrootl h
        · exact hrootk h)
    (by rw [hokids, ← hlid]; exact hl)
  obtain ⟨h1, h2, h3, h4⟩ := hp
  refine ⟨⟨h3, ?_⟩, h4⟩
  intro c hc
  rcases List.mem_cons.mp hc with hc | hc
  · subst hc; exact h1
  · rcases List.mem_cons.mp hc with hc | hc
    · subst hc; exact h2
    · cases hc

end root

/-! ## non-vacuity: a data slab with the keys 5, 9 (T = 1024), as a root and as the only child of an index slab -/

section examples

private def mrs_exElem (k sz : Nat) : MElemF (MElems 0) :=
  .single { key := ⟨1, k, [k]⟩, val := ⟨1, .val k⟩, size := sz }

/-- a data slab with slab id (1, id), header size `size` and one element of size 12 + 8 per key -/
private def mrs_exData (id size : Nat) (ks : List Nat) (isRoot : Bool) : MDataSlab 0 :=
  { hdr := ⟨⟨1, id⟩, size, ks.headD 0⟩, next := ⟨0, 0⟩,
    elems := { hkeys := ks, elems := ks.map (mrs_exElem · 12), size := 8 + 20 * ks.length, level := 0 },
    root := isRoot, inlined := false }

/-- an empty heap, allocation counter 40 -/
private def mrs_exSt : MHSt 0 := { heap := fun _ => none, ctx := ⟨40, [], []⟩ }

/-- a root data slab (1, 7) with the keys 5, 9 -/
private def mrs_exMap : OMap 0 := ⟨0, mrs_exData 7 50 [5, 9] true, 0, 2, 0⟩

/-- the hypotheses of `Ob_splitRoot_heap` / `Ob_splitRoot_heapPost` hold for it (the model splits the root; both halves
    are in range; the fresh identifiers are distinct) -/
private theorem mrs_exMap_hyps : ∃ (mp' : OMap 0) (c' : Ctx) (l rr : MTree 0 mrs_exMap.d) (c2 : Ctx),
    root_splitHyp mrs_exMap ∧ OMap.splitRoot mrs_exMap mrs_exSt.ctx = .ok (mp', c') ∧
    MTree.split mrs_exMap.d (mrs_rootOld mrs_exMap mrs_exSt.ctx) (mrs_exSt.ctx.alloc mrs_exMap.rootID.addr).2 = .ok (l, rr, c2) ∧
    mr_RootFit mrs_exMap.d l ∧ mr_RootFit mrs_exMap.d rr ∧
    mrs_KidsHeld mrs_exSt.heap mrs_exMap.d mrs_exMap.root ∧
    (MTree.hdr mrs_exMap.d l).id ∉ mrs_kidIds mrs_exMap.d mrs_exMap.root ∧
    (MTree.hdr mrs_exMap.d rr).id ∉ mrs_kidIds mrs_exMap.d mrs_exMap.root ∧
    (MTree.hdr mrs_exMap.d rr).id ≠ (MTree.hdr mrs_exMap.d l).id ∧
    mrs_exMap.rootID ≠ (MTree.hdr mrs_exMap.d l).id ∧ (MTree.hdr mrs_exMap.d rr).id ≠ mrs_exMap.rootID ∧
    mrs_exMap.rootID ∉ mrs_kidIds mrs_exMap.d mrs_exMap.root := by
  refine ⟨_, _, _, _, _, by simp only [root_splitHyp, mrs_exMap]; decide, rfl, rfl, ?_, ?_, trivial,
    List.not_mem_nil, List.not_mem_nil, by decide, by decide, by decide, List.not_mem_nil⟩
  · exact ⟨by decide, by decide, by decide⟩
  · exact ⟨by decide, by decide, by decide⟩

/-- ... so, by the theorems, the heap holds the whole new tree afterwards -/
example : ∃ (l rr : MTree 0 mrs_exMap.d),
    MHolds ((rsOf 1024).splitRoot (md_map mrs_exMap mrs_exSt)).2.Storage.heap (mrs_exMap.d + 1) (mrs_newRoot mrs_exMap l rr)
      (some (md_extra mrs_exMap)) := by
  obtain ⟨mp', c', l, rr, c2, h1, h2, h3, h4, h5, h6, h7, h8, h9, h10, h11, h12⟩ := mrs_exMap_hyps
  refine ⟨l, rr, ?_⟩
  rw [(Ob_splitRoot_heap 1024 mrs_exMap mrs_exSt h1 h2 h3 h4 h5).1]
  exact (Ob_splitRoot_heapPost mrs_exMap mrs_exSt h3 h6 h7 h8 h9 h10 h11 h12).1

/-- ... so, by the theorem, the call returns no error and the heap holds three slabs afterwards: the halves under
    (1, 41) / (1, 42) and the new root under the old root identifier (1, 7); the effects are the model's -/
example : ((rsOf 1024).splitRoot (md_map mrs_exMap mrs_exSt)).1 = none := by
  obtain ⟨mp', c', l, rr, c2, h1, h2, h3, h4, h5, _⟩ := mrs_exMap_hyps
  rw [(Ob_splitRoot_heap 1024 mrs_exMap mrs_exSt h1 h2 h3 h4 h5).1]

example : (let q := (rsOf 1024).splitRoot (md_map mrs_exMap mrs_exSt)
    (q.1, (q.2.Storage.heap ⟨1, 41⟩).isSome, (q.2.Storage.heap ⟨1, 42⟩).isSome, (q.2.Storage.heap ⟨1, 7⟩).isSome,
      (q.2.Storage.heap ⟨1, 8⟩).isSome, q.2.Storage.ctx.eff)) =
    (none, true, true, true, false,
      [.alloc 1 ⟨1, 41⟩, .alloc 1 ⟨1, 42⟩, .store ⟨1, 41⟩, .store ⟨1, 42⟩, .store ⟨1, 7⟩]) := by rfl

/-- the error case: a root with ONE element -/
example : ((rsOf 1024).splitRoot (md_map (⟨0, mrs_exData 7 30 [5] true, 0, 1, 0⟩ : OMap 0) mrs_exSt)).1 = some .slabSplit := by
  rw [Ob_splitRoot_heap_error 1024 (⟨0, mrs_exData 7 30 [5] true, 0, 1, 0⟩ : OMap 0) mrs_exSt
    (by simp only [root_splitHyp]; decide) (e := .slabSplit) rfl ⟨by decide, by decide, by decide⟩]

/-- an index slab (1, 7) whose only child is the data slab (1, 9) with the keys 5, 9 -/
private def mrs_exChild : MTree 0 0 := mrs_exData 9 66 [5, 9] false
private def mrs_exParent : MMetaSlab (MTree 0 0) :=
  { hdr := ⟨⟨1, 7⟩, 12 + 18, 5⟩, childHdrs := [(mrs_exData 9 66 [5, 9] false).hdr], children := [mrs_exChild], root := true }

/-- the hypotheses of `Ob_SplitChildSlab_heap` / `Ob_SplitChildSlab_heapPost` hold -/
private theorem mrs_exChild_hyps : ∃ (m' : MMetaSlab (MTree 0 0)) (c' : Ctx) (l rr : MTree 0 0) (c1 : Ctx),
    0 < mrs_exParent.childHdrs.length ∧ msl_SplitOK 0 mrs_exChild ∧
    MMetaSlab.splitChildSlab mrs_exParent mrs_exChild 0 mrs_exSt.ctx = .ok (m', c') ∧
    MTree.split 0 mrs_exChild mrs_exSt.ctx = .ok (l, rr, c1) ∧ mr_RootFit 0 l ∧ mr_RootFit 0 rr ∧
    mrs_KidsHeld mrs_exSt.heap 0 mrs_exChild ∧ (MTree.hdr 0 rr).id ∉ md_ids 0 mrs_exChild ∧
    (MTree.hdr 0 rr).id ≠ mrs_exParent.hdr.id ∧ mrs_exParent.hdr.id ∉ md_ids 0 mrs_exChild ∧
    (MTree.hdr 0 mrs_exChild).id ∉ mrs_kidIds 0 mrs_exChild := by
  refine ⟨_, _, _, _, _, by decide, ?_, rfl, rfl, ?_, ?_, trivial, ?_, by decide, ?_, ?_⟩
  · simp only [msl_SplitOK, mrs_exChild]; decide
  · exact ⟨by decide, by decide, by decide⟩
  · exact ⟨by decide, by decide, by decide⟩
  · exact fun h => absurd (List.mem_singleton.mp h) (by decide)
  · exact fun h => absurd (List.mem_singleton.mp h) (by decide)
  · exact fun h => nomatch h

/-- ... so, by the theorems: no error, and the heap holds both halves and the parent afterwards -/
example : ((rsOf 1024).splitChild (md_meta mrs_exParent none) mrs_exSt (md_tree 0 mrs_exChild none) (Int.ofNat 0)).1 = none := by
  obtain ⟨m', c', l, rr, c1, h1, h2, h3, h4, h5, h6, _⟩ := mrs_exChild_hyps
  rw [(Ob_SplitChildSlab_heap 1024 0 mrs_exParent none mrs_exChild 0 mrs_exSt h1 h2 h3 h4 h5 h6).1]

example : ∃ (m' : MMetaSlab (MTree 0 0)) (l rr : MTree 0 0),
    let s' := ((rsOf 1024).splitChild (md_meta mrs_exParent none) mrs_exSt (md_tree 0 mrs_exChild none) (Int.ofNat 0)).2.2.1
    MHolds s'.heap 0 l none ∧ MHolds s'.heap 0 rr none ∧ s'.heap m'.hdr.id = some (.metaSlab (md_meta m' none)) := by
  obtain ⟨m', c', l, rr, c1, h1, h2, h3, h4, h5, h6, h7, h8, h9, h10, h11⟩ := mrs_exChild_hyps
  refine ⟨m', l, rr, ?_⟩
  rw [(Ob_SplitChildSlab_heap 1024 0 mrs_exParent none mrs_exChild 0 mrs_exSt h1 h2 h3 h4 h5 h6).1]
  have hp := Ob_SplitChildSlab_heapPost 0 mrs_exParent m' none mrs_exChild l rr 0 c' c1 mrs_exSt h3 h4 h7 h8 h9 h10 h11
  exact ⟨hp.1, hp.2.1, hp.2.2.1⟩

example : (let q := (rsOf 1024).splitChild (md_meta mrs_exParent none) mrs_exSt (md_tree 0 mrs_exChild none) (Int.ofNat 0)
    (q.1, q.2.1.childrenHeaders.map (fun h => (h.slabID, h.size.toNat)), q.2.1.header.size.toNat,
      (q.2.2.1.heap ⟨1, 9⟩).isSome, (q.2.2.1.heap ⟨1, 41⟩).isSome, (q.2.2.1.heap ⟨1, 7⟩).isSome, q.2.2.1.ctx.eff)) =
    (none, [(⟨1, 9⟩, 46), (⟨1, 41⟩, 46)], 48, true, true, true,
      [.alloc 1 ⟨1, 41⟩, .store ⟨1, 9⟩, .store ⟨1, 41⟩, .store ⟨1, 7⟩]) := by rfl

end examples

end Atree.TransEq
