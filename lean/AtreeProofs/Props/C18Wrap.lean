import AtreeModel.Gen.Facts
/-
  C18, last sentence - "An error raised by a caller-supplied component (ledger read, key comparator,
  hash-input provider) ... is reported as an external error": the CALL SITES, as a regenerated fact.

  `Gen.errWrapSites` is regenerated from the Go sources by harness/cmd/extract (errwrapfacts.go) on
  every check run.  It has one row for every call in package atree
    * through a value whose declared type is an INTERFACE type of the package (`SlabStorage`, `Value`,
      `Storable`, `MapKey`, `Digester`, `DigesterBuilder`, `TypeInfo`, `BaseStorage`, `Ledger`, ... and the
      package-internal ones alike),
    * through a value of FUNCTION type (comparator, hash-input provider, iteration and pop callbacks,
      bulk-build element providers, decoder callbacks),
    * through a receiver whose type the extractor cannot resolve (`unresolved`, never dropped),
  whose last result is an `error`: (enclosing function, interface | "func" | "unresolved", method |
  function type, what the enclosing function does with the error).  The last column is
  `wrapError[f]AsExternalErrorIfNeeded` when every return guarded by the error hands it to that
  function, `raw` when a return hands it on as it is, `ctor:<New…Error>`, `ignored`, `unguarded`,
  `other:…` otherwise (the worst treatment is reported when there are several returns).

  Which interfaces are the CALLER's is decided here, in the statement: a row is about a component
  of the library itself exactly when its interface is CLOSED, i.e. has an unexported method
  (`Gen.pkgClosedInterfaceTypes`, regenerated and pinned below: ArraySlab, MapSlab, element,
  elements, elementGroup, ExtraData, mutableValueNotifier - no type outside package atree can
  implement them).  Every other row that is not wrapped must be on the reviewed list
  `reviewedUnwrapped`, each entry with its justification; `requiredWrapped` pins the rows that ARE
  wrapped (a wrap that is removed moves its row to the first list, a call that disappears empties a
  row of the second).

  The 27 surviving map mutants of sweep s4 (i07 i08 x07 x08 x10 x15-x36: one
  `wrapError…(err, …)` replaced by `err`) and the array ones of sweep s3 (E03-E09, E14-E16, E18-E20,
  E25) each change exactly one row from `wrapError…` to `raw` (E16: to `ctor:NewFatalError`) and make
  `caller_errors_are_wrapped` fail: see INTEGRATION-fx13.md.
-/
namespace Atree.C18
open Atree

/-- a row of `Gen.errWrapSites` -/
abbrev WrapRow := String × String × String × String

/-- the error is handed to one of the two wrap functions of errors.go -/
def isWrapped (how : String) : Bool :=
  how == "wrapErrorfAsExternalErrorIfNeeded" || how == "wrapErrorAsExternalErrorIfNeeded"

/-- the interfaces no type outside package atree can implement (they have an unexported method) -/
def closedInterfaces : List String :=
  ["ArraySlab", "ExtraData", "MapSlab", "element", "elementGroup", "elements", "mutableValueNotifier"]

/-- the rows about a component that a caller of the package can supply whose error is not handed
    to a wrap function -/
def unwrappedCallerSites (closed : List String) (rows : List WrapRow) : List WrapRow :=
  rows.filter (fun r => !closed.contains r.2.1 && !isWrapped r.2.2.2)

/-- THE REVIEWED LIST: every call through an open interface / a function value / an unresolved
    receiver whose error is NOT wrapped, with the reason why that is right (or the note that it is not). -/
def reviewedUnwrapped : List WrapRow := [
  -- debug printer: the iterator is the library's own (`a.ReadOnlyIterator()`), its errors are categorised; the text of the error is returned as the string
  ("Array.String", "ArrayIterator", "Next", "other:err.Error()"),
  -- not a caller's function: `parentUpdater` closures are built by the library (setCallbackWithChild), their errors are categorised
  ("Array.notifyParentIfNeeded", "func", "parentUpdater", "raw"),
  -- exported helper that the CALLER's StorableDecoder calls for the compact-map tag; the error goes back through the caller's decoder to a library call site of `StorableDecoder`, all of which wrap (rows below). Its twins DecodeInlinedArrayStorable / DecodeInlinedMapStorable wrap at once (observation: inconsistent, harmless)
  ("DecodeInlinedCompactMapStorable", "func", "StorableDecoder", "raw"),
  -- as Array.String
  ("OrderedMap.String", "MapIterator", "Next", "other:err.Error()"),
  -- as Array.notifyParentIfNeeded
  ("OrderedMap.notifyParentIfNeeded", "func", "parentUpdater", "raw"),
  -- not a caller's function: closures `appendChildStorables` / `appendSlab` defined in the same function; their bodies wrap what they get from the storage
  ("PersistentSlabStorage.SlabIterator", "func", "func(slab Slab) error", "raw"),
  -- not a caller's function: closures `appendChildStorables` / `appendSlab` defined in the same function; their bodies wrap what they get from the storage
  ("PersistentSlabStorage.SlabIterator", "func", "func(id SlabID, slab Slab) error", "raw"),
  -- not a caller's function: closures `appendChildStorables` / `appendSlab` defined in the same function; their bodies wrap what they get from the storage
  ("PersistentSlabStorage.SlabIterator", "func", "func(id SlabID, slab Slab) error", "raw"),
  -- the enclosing closure is itself handed out as a `TypeInfoDecoder`; every call site of a `TypeInfoDecoder` wraps (rows below)
  ("decodeTypeInfoRefIfNeeded", "func", "TypeInfoDecoder", "raw"),
  -- the function is used as an `encodeTypeInfo` value only; both call sites of `encodeTypeInfo` wrap (ArrayExtraData.Encode, MapExtraData.Encode)
  ("defaultEncodeTypeInfo", "TypeInfo", "Encode", "raw"),
  -- NOT JUSTIFIED - the code as it is: `hkey, _ := digester.Digest(level)`; the error of a caller-supplied Digester at level >= 1 is DROPPED inside collision groups (observation W2 of INTEGRATION-fx13.md; the library's own digester cannot fail below Levels(), which is checked just before)
  ("externalCollisionGroup.Get", "Digester", "Digest", "ignored"),
  -- as externalCollisionGroup.Get (W2)
  ("externalCollisionGroup.Remove", "Digester", "Digest", "ignored"),
  -- as externalCollisionGroup.Get (W2)
  ("externalCollisionGroup.Set", "Digester", "Digest", "ignored"),
  -- as externalCollisionGroup.Get (W2)
  ("externalCollisionGroup.getElementAndNextKey", "Digester", "Digest", "ignored"),
  -- as externalCollisionGroup.Get (W2)
  ("inlineCollisionGroup.Get", "Digester", "Digest", "ignored"),
  -- as externalCollisionGroup.Get (W2)
  ("inlineCollisionGroup.Remove", "Digester", "Digest", "ignored"),
  -- as externalCollisionGroup.Get (W2)
  ("inlineCollisionGroup.Set", "Digester", "Digest", "ignored"),
  -- as externalCollisionGroup.Get (W2)
  ("inlineCollisionGroup.getElementAndNextKey", "Digester", "Digest", "ignored"),
  -- the iterator is one of the library's own (every caller passes `a.Iterator()` / `a.ReadOnlyIterator…()` results); their `Next` categorises
  ("iterateArray", "ArrayIterator", "Next", "raw"),
  -- as iterateArray
  ("iterateMap", "MapIterator", "Next", "raw"),
  -- as iterateArray
  ("iterateMapKeys", "MapIterator", "NextKey", "raw"),
  -- as iterateArray
  ("iterateMapValues", "MapIterator", "NextValue", "raw"),
  -- debug verifier (VerifyArraySerialization); `actual` has just been compared equal to a `SlabIDStorable`, whose StoredValue categorises
  ("serializationVerifier.compareStorable", "Storable", "StoredValue", "raw")]

/-- the rows that hand the error to a wrap function today: each must still be there -/
def requiredWrapped : List WrapRow := [
  ("Array.CopyNonRefSimple", "SlabStorage", "GenerateSlabID", "wrapErrorfAsExternalErrorIfNeeded"),
  ("Array.Get", "Storable", "StoredValue", "wrapErrorfAsExternalErrorIfNeeded"),
  ("Array.IterateReadOnlyLoadedValues", "func", "ArrayIterationFunc", "wrapErrorAsExternalErrorIfNeeded"),
  ("Array.promoteChildAsNewRoot", "SlabStorage", "Remove", "wrapErrorfAsExternalErrorIfNeeded"),
  ("Array.splitRoot", "SlabStorage", "GenerateSlabID", "wrapErrorfAsExternalErrorIfNeeded"),
  ("ArrayDataSlab.Inline", "SlabStorage", "Remove", "wrapErrorfAsExternalErrorIfNeeded"),
  ("ArrayDataSlab.Insert", "Value", "Storable", "wrapErrorfAsExternalErrorIfNeeded"),
  ("ArrayDataSlab.Set", "Value", "Storable", "wrapErrorfAsExternalErrorIfNeeded"),
  ("ArrayDataSlab.Split", "SlabStorage", "GenerateSlabID", "wrapErrorfAsExternalErrorIfNeeded"),
  ("ArrayDataSlab.copyWithNewSlabID", "Storable", "CopyNonRefSimple", "wrapErrorAsExternalErrorIfNeeded"),
  ("ArrayDataSlab.encodeElements", "Storable", "Encode", "wrapErrorfAsExternalErrorIfNeeded"),
  ("ArrayExtraData.Encode", "func", "encodeTypeInfo", "wrapErrorfAsExternalErrorIfNeeded"),
  ("ArrayMetaDataSlab.PopIterate", "SlabStorage", "Remove", "wrapErrorfAsExternalErrorIfNeeded"),
  ("ArrayMetaDataSlab.Split", "SlabStorage", "GenerateSlabID", "wrapErrorfAsExternalErrorIfNeeded"),
  ("ArrayMetaDataSlab.mergeChildren", "SlabStorage", "Remove", "wrapErrorfAsExternalErrorIfNeeded"),
  ("CheckStorageHealth", "SlabStorage", "SlabIterator", "wrapErrorfAsExternalErrorIfNeeded"),
  ("CheckStorageHealth", "SlabStorage", "Retrieve", "wrapErrorfAsExternalErrorIfNeeded"),
  ("DecodeInlinedArrayStorable", "func", "StorableDecoder", "wrapErrorfAsExternalErrorIfNeeded"),
  ("DecodeInlinedCompactMapStorable", "ComparableStorable", "CopyNonRefSimple", "wrapErrorAsExternalErrorIfNeeded"),
  ("DecodeSlab", "func", "StorableDecoder", "wrapErrorfAsExternalErrorIfNeeded"),
  ("DumpArraySlabs", "SlabStorage", "Retrieve", "wrapErrorfAsExternalErrorIfNeeded"),
  ("DumpMapSlabs", "SlabStorage", "Retrieve", "wrapErrorfAsExternalErrorIfNeeded"),
  ("EncodeSlab", "Slab", "Encode", "wrapErrorfAsExternalErrorIfNeeded"),
  ("LedgerBaseStorage.GenerateSlabID", "Ledger", "AllocateSlabIndex", "wrapErrorfAsExternalErrorIfNeeded"),
  ("LedgerBaseStorage.Remove", "Ledger", "SetValue", "wrapErrorfAsExternalErrorIfNeeded"),
  ("LedgerBaseStorage.Retrieve", "Ledger", "GetValue", "wrapErrorfAsExternalErrorIfNeeded"),
  ("LedgerBaseStorage.Store", "Ledger", "SetValue", "wrapErrorfAsExternalErrorIfNeeded"),
  ("MapDataSlab.Inline", "SlabStorage", "Remove", "wrapErrorfAsExternalErrorIfNeeded"),
  ("MapDataSlab.Split", "SlabStorage", "GenerateSlabID", "wrapErrorfAsExternalErrorIfNeeded"),
  ("MapExtraData.Encode", "func", "encodeTypeInfo", "wrapErrorfAsExternalErrorIfNeeded"),
  ("MapMetaDataSlab.PopIterate", "SlabStorage", "Remove", "wrapErrorfAsExternalErrorIfNeeded"),
  ("MapMetaDataSlab.Split", "SlabStorage", "GenerateSlabID", "wrapErrorfAsExternalErrorIfNeeded"),
  ("MapMetaDataSlab.mergeChildren", "SlabStorage", "Remove", "wrapErrorfAsExternalErrorIfNeeded"),
  ("NewArray", "SlabStorage", "GenerateSlabID", "wrapErrorfAsExternalErrorIfNeeded"),
  ("NewArrayFromBatchData", "SlabStorage", "GenerateSlabID", "wrapErrorfAsExternalErrorIfNeeded"),
  ("NewArrayFromBatchData", "func", "ArrayElementProvider", "wrapErrorAsExternalErrorIfNeeded"),
  ("NewArrayFromBatchData", "Value", "Storable", "wrapErrorfAsExternalErrorIfNeeded"),
  ("NewMap", "SlabStorage", "GenerateSlabID", "wrapErrorfAsExternalErrorIfNeeded"),
  ("NewMapFromBatchData", "SlabStorage", "GenerateSlabID", "wrapErrorfAsExternalErrorIfNeeded"),
  ("NewMapFromBatchData", "func", "MapElementProvider", "wrapErrorAsExternalErrorIfNeeded"),
  ("NewMapFromBatchData", "DigesterBuilder", "Digest", "wrapErrorfAsExternalErrorIfNeeded"),
  ("NewMapFromBatchData", "Digester", "Digest", "wrapErrorfAsExternalErrorIfNeeded"),
  ("NewStorableSlab", "SlabStorage", "GenerateSlabID", "wrapErrorfAsExternalErrorIfNeeded"),
  ("OrderedMap.CopyNonRefSimple", "SlabStorage", "GenerateSlabID", "wrapErrorfAsExternalErrorIfNeeded"),
  ("OrderedMap.Get", "Storable", "StoredValue", "wrapErrorfAsExternalErrorIfNeeded"),
  -- was finding F7 (returned raw until the `fix:` commit that wraps it in /repo)
  ("OrderedMap.Iterator", "MapKey", "StoredValue", "wrapErrorfAsExternalErrorIfNeeded"),
  ("OrderedMap.IterateReadOnlyLoadedValues", "func", "MapEntryIterationFunc", "wrapErrorAsExternalErrorIfNeeded"),
  ("OrderedMap.get", "DigesterBuilder", "Digest", "wrapErrorfAsExternalErrorIfNeeded"),
  ("OrderedMap.get", "Digester", "Digest", "wrapErrorfAsExternalErrorIfNeeded"),
  ("OrderedMap.getElementAndNextKey", "DigesterBuilder", "Digest", "wrapErrorfAsExternalErrorIfNeeded"),
  ("OrderedMap.getElementAndNextKey", "Digester", "Digest", "wrapErrorfAsExternalErrorIfNeeded"),
  ("OrderedMap.getElementAndNextKey", "MapKey", "StoredValue", "wrapErrorfAsExternalErrorIfNeeded"),
  ("OrderedMap.getElementAndNextKey", "MapValue", "StoredValue", "wrapErrorfAsExternalErrorIfNeeded"),
  ("OrderedMap.getNextKey", "DigesterBuilder", "Digest", "wrapErrorfAsExternalErrorIfNeeded"),
  ("OrderedMap.getNextKey", "Digester", "Digest", "wrapErrorfAsExternalErrorIfNeeded"),
  ("OrderedMap.getNextKey", "MapKey", "StoredValue", "wrapErrorfAsExternalErrorIfNeeded"),
  ("OrderedMap.promoteChildAsNewRoot", "SlabStorage", "Remove", "wrapErrorfAsExternalErrorIfNeeded"),
  ("OrderedMap.remove", "DigesterBuilder", "Digest", "wrapErrorfAsExternalErrorIfNeeded"),
  ("OrderedMap.remove", "Digester", "Digest", "wrapErrorfAsExternalErrorIfNeeded"),
  ("OrderedMap.set", "DigesterBuilder", "Digest", "wrapErrorfAsExternalErrorIfNeeded"),
  ("OrderedMap.set", "Digester", "Digest", "wrapErrorfAsExternalErrorIfNeeded"),
  ("OrderedMap.splitRoot", "SlabStorage", "GenerateSlabID", "wrapErrorfAsExternalErrorIfNeeded"),
  ("PersistentSlabStorage.BatchPreload", "BaseStorage", "Retrieve", "wrapErrorfAsExternalErrorIfNeeded"),
  ("PersistentSlabStorage.FastCommit", "BaseStorage", "Remove", "wrapErrorfAsExternalErrorIfNeeded"),
  ("PersistentSlabStorage.FastCommit", "BaseStorage", "Store", "wrapErrorfAsExternalErrorIfNeeded"),
  ("PersistentSlabStorage.GenerateSlabID", "BaseStorage", "GenerateSlabID", "wrapErrorfAsExternalErrorIfNeeded"),
  ("PersistentSlabStorage.NondeterministicFastCommit", "BaseStorage", "Remove", "wrapErrorfAsExternalErrorIfNeeded"),
  ("PersistentSlabStorage.NondeterministicFastCommit", "BaseStorage", "Store", "wrapErrorfAsExternalErrorIfNeeded"),
  ("PersistentSlabStorage.RetrieveIgnoringDeltas", "BaseStorage", "Retrieve", "wrapErrorfAsExternalErrorIfNeeded"),
  ("PersistentSlabStorage.commit", "BaseStorage", "Remove", "wrapErrorfAsExternalErrorIfNeeded"),
  ("PersistentSlabStorage.commit", "BaseStorage", "Store", "wrapErrorfAsExternalErrorIfNeeded"),
  ("SlabIDStorable.StoredValue", "SlabStorage", "Retrieve", "wrapErrorfAsExternalErrorIfNeeded"),
  ("SlabIDStorable.StoredValue", "Slab", "StoredValue", "wrapErrorfAsExternalErrorIfNeeded"),
  ("StorableSlab.Encode", "Storable", "Encode", "wrapErrorfAsExternalErrorIfNeeded"),
  ("StorableSlab.StoredValue", "Storable", "StoredValue", "wrapErrorfAsExternalErrorIfNeeded"),
  ("arrayVerifier.verifyDataSlab", "Storable", "StoredValue", "wrapErrorfAsExternalErrorIfNeeded"),
  ("arrayVerifier.verifySlab", "SlabStorage", "Retrieve", "wrapErrorAsExternalErrorIfNeeded"),
  ("basicDigesterBuilder.Digest", "func", "HashInputProvider", "wrapErrorfAsExternalErrorIfNeeded"),
  ("compactMapExtraData.Encode", "ComparableStorable", "Encode", "wrapErrorfAsExternalErrorIfNeeded"),
  ("encodeCompactMapValues", "Storable", "Encode", "wrapErrorfAsExternalErrorIfNeeded"),
  ("externalCollisionGroup.PopIterate", "SlabStorage", "Remove", "wrapErrorfAsExternalErrorIfNeeded"),
  ("externalCollisionGroup.Remove", "SlabStorage", "Retrieve", "wrapErrorfAsExternalErrorIfNeeded"),
  ("externalCollisionGroup.Remove", "SlabStorage", "Remove", "wrapErrorfAsExternalErrorIfNeeded"),
  ("getArraySlab", "SlabStorage", "Retrieve", "wrapErrorAsExternalErrorIfNeeded"),
  ("getEncodedTypeInfo", "TypeInfo", "Encode", "wrapErrorfAsExternalErrorIfNeeded"),
  ("getLoadedValue", "Slab", "StoredValue", "wrapErrorfAsExternalErrorIfNeeded"),
  ("getLoadedValue", "WrapperStorable", "StoredValue", "wrapErrorfAsExternalErrorIfNeeded"),
  ("getLoadedValue", "unresolved", "storable.StoredValue", "wrapErrorfAsExternalErrorIfNeeded"),
  ("getMapSlab", "SlabStorage", "Retrieve", "wrapErrorfAsExternalErrorIfNeeded"),
  ("inlineCollisionGroup.Set", "SlabStorage", "GenerateSlabID", "wrapErrorfAsExternalErrorIfNeeded"),
  ("iterateArray", "func", "ArrayIterationFunc", "wrapErrorAsExternalErrorIfNeeded"),
  ("iterateMap", "func", "MapEntryIterationFunc", "wrapErrorAsExternalErrorIfNeeded"),
  ("iterateMapKeys", "func", "MapElementIterationFunc", "wrapErrorAsExternalErrorIfNeeded"),
  ("iterateMapValues", "func", "MapElementIterationFunc", "wrapErrorAsExternalErrorIfNeeded"),
  ("mapVerifier.verifySingleElement", "MapKey", "StoredValue", "wrapErrorfAsExternalErrorIfNeeded"),
  ("mapVerifier.verifySingleElement", "MapValue", "StoredValue", "wrapErrorfAsExternalErrorIfNeeded"),
  ("mapVerifier.verifySingleElement", "DigesterBuilder", "Digest", "wrapErrorfAsExternalErrorIfNeeded"),
  ("mapVerifier.verifySingleElement", "Digester", "DigestPrefix", "wrapErrorfAsExternalErrorIfNeeded"),
  ("mapVerifier.verifySlab", "SlabStorage", "Retrieve", "wrapErrorAsExternalErrorIfNeeded"),
  ("newArrayDataSlabFromDataV0", "func", "StorableDecoder", "wrapErrorfAsExternalErrorIfNeeded"),
  ("newArrayDataSlabFromDataV1", "func", "StorableDecoder", "wrapErrorfAsExternalErrorIfNeeded"),
  ("newArrayExtraData", "func", "TypeInfoDecoder", "wrapErrorfAsExternalErrorIfNeeded"),
  ("newCompactMapExtraData", "func", "StorableDecoder", "wrapErrorfAsExternalErrorIfNeeded"),
  ("newExternalCollisionGroupFromData", "func", "StorableDecoder", "wrapErrorfAsExternalErrorIfNeeded"),
  ("newInlinedExtraDataFromData", "func", "TypeInfoDecoder", "wrapErrorfAsExternalErrorIfNeeded"),
  ("newMapExtraData", "func", "TypeInfoDecoder", "wrapErrorfAsExternalErrorIfNeeded"),
  ("newSingleElement", "Value", "Storable", "wrapErrorfAsExternalErrorIfNeeded"),
  ("newSingleElementFromData", "func", "StorableDecoder", "wrapErrorfAsExternalErrorIfNeeded"),
  ("nextLevelArraySlabs", "SlabStorage", "GenerateSlabID", "wrapErrorfAsExternalErrorIfNeeded"),
  ("nextLevelMapSlabs", "SlabStorage", "GenerateSlabID", "wrapErrorfAsExternalErrorIfNeeded"),
  ("readOnlyArrayIterator.Next", "SlabStorage", "Retrieve", "wrapErrorfAsExternalErrorIfNeeded"),
  ("readOnlyArrayIterator.Next", "Storable", "StoredValue", "wrapErrorfAsExternalErrorIfNeeded"),
  ("readOnlyMapIterator.Next", "Storable", "StoredValue", "wrapErrorfAsExternalErrorIfNeeded"),
  ("readOnlyMapIterator.NextKey", "Storable", "StoredValue", "wrapErrorfAsExternalErrorIfNeeded"),
  ("readOnlyMapIterator.NextValue", "Storable", "StoredValue", "wrapErrorfAsExternalErrorIfNeeded"),
  ("readOnlyMapIterator.advance", "SlabStorage", "Retrieve", "wrapErrorfAsExternalErrorIfNeeded"),
  ("singleElement.Encode", "MapKey", "Encode", "wrapErrorfAsExternalErrorIfNeeded"),
  ("singleElement.Encode", "MapValue", "Encode", "wrapErrorfAsExternalErrorIfNeeded"),
  ("singleElement.Get", "func", "ValueComparator", "wrapErrorfAsExternalErrorIfNeeded"),
  ("singleElement.Iterate", "func", "func(key MapKey, value MapValue) error", "wrapErrorAsExternalErrorIfNeeded"),
  ("singleElement.Remove", "func", "ValueComparator", "wrapErrorfAsExternalErrorIfNeeded"),
  ("singleElement.Set", "func", "ValueComparator", "wrapErrorfAsExternalErrorIfNeeded"),
  ("singleElement.Set", "Value", "Storable", "wrapErrorfAsExternalErrorIfNeeded"),
  ("singleElement.Set", "MapKey", "StoredValue", "wrapErrorfAsExternalErrorIfNeeded"),
  ("singleElement.Set", "DigesterBuilder", "Digest", "wrapErrorfAsExternalErrorIfNeeded"),
  ("singleElement.Set", "Digester", "Digest", "wrapErrorfAsExternalErrorIfNeeded"),
  ("singleElement.copyNonRefSimple", "MapKey", "CopyNonRefSimple", "wrapErrorAsExternalErrorIfNeeded"),
  ("singleElement.copyNonRefSimple", "MapValue", "CopyNonRefSimple", "wrapErrorAsExternalErrorIfNeeded"),
  ("singleElements.Remove", "func", "ValueComparator", "wrapErrorfAsExternalErrorIfNeeded"),
  ("singleElements.Set", "func", "ValueComparator", "wrapErrorfAsExternalErrorIfNeeded"),
  ("singleElements.Set", "Value", "Storable", "wrapErrorfAsExternalErrorIfNeeded"),
  ("singleElements.get", "func", "ValueComparator", "wrapErrorfAsExternalErrorIfNeeded"),
  ("storeSlab", "SlabStorage", "Store", "wrapErrorfAsExternalErrorIfNeeded")]

/-- the Boolean the theorem evaluates -/
def wrapOk (closed : List String) (rows : List WrapRow) : Bool :=
  closed == closedInterfaces &&
  unwrappedCallerSites closed rows == reviewedUnwrapped &&
  requiredWrapped.all (fun r => rows.contains r)

set_option maxRecDepth 100000 in
/-- ERRORS OF CALLER-SUPPLIED COMPONENTS ARE WRAPPED AT EVERY CALL SITE (source, regenerated on every
    run).  Among all calls of package atree through an interface value, a function value or an
    unresolved receiver that return an error,
      (1) the interfaces with an unexported method - which only the library implements - are exactly
          `closedInterfaces`;
      (2) the calls through any OTHER interface (SlabStorage incl. GenerateSlabID / Remove / Retrieve /
          Store, BaseStorage, Ledger, Value.Storable, Storable / MapKey / MapValue StoredValue / Encode /
          CopyNonRefSimple, DigesterBuilder, Digester, TypeInfo, Slab) or through a function value
          (ValueComparator, HashInputProvider, the iteration callbacks, the bulk-build element
          providers, the decoder callbacks) whose error is not handed to
          `wrapError[f]AsExternalErrorIfNeeded` are exactly the entries of `reviewedUnwrapped`, in
          source order, with multiplicity;
      (3) every row of `requiredWrapped` (133 call sites, among them every site the sweeps s3 / s4
          mutated) is present and wrapped. -/
theorem caller_errors_are_wrapped : wrapOk Gen.pkgClosedInterfaceTypes Gen.errWrapSites = true := by decide

/-- clause (2) in logical form: a row about an open interface / a function value is wrapped or reviewed -/
theorem caller_errors_are_wrapped_spec :
    ∀ r ∈ Gen.errWrapSites, r.2.1 ∈ closedInterfaces ∨ isWrapped r.2.2.2 = true ∨ r ∈ reviewedUnwrapped := by
  have h := caller_errors_are_wrapped
  simp only [wrapOk, Bool.and_eq_true, beq_iff_eq] at h
  intro r hr
  by_cases hc : r.2.1 ∈ closedInterfaces
  · exact Or.inl hc
  by_cases hw : isWrapped r.2.2.2 = true
  · exact Or.inr (Or.inl hw)
  refine Or.inr (Or.inr ?_)
  rw [← h.1.2]
  simp only [unwrappedCallerSites, List.mem_filter, Bool.and_eq_true, Bool.not_eq_eq_eq_not, Bool.not_true]
  refine ⟨hr, ?_, by simpa using hw⟩
  rw [h.1.1]
  simpa [List.contains_iff_mem] using hc

/-! ### the statement has teeth: surviving mutants of the sweeps, as data -/

set_option maxRecDepth 100000 in
/-- s4 x19 (`value.Storable` of a new map element returned as it is): the row leaves `requiredWrapped`
    and enters the unwrapped list -/
example : wrapOk closedInterfaces
    (Gen.errWrapSites.map (fun r => if r == ("newSingleElement", "Value", "Storable", "wrapErrorfAsExternalErrorIfNeeded")
      then ("newSingleElement", "Value", "Storable", "raw") else r)) = false := by decide

/-- s3 E16 (`Retrieve` failure during read-only array iteration reported through NewFatalError) -/
example : (unwrappedCallerSites closedInterfaces
    [("readOnlyArrayIterator.Next", "SlabStorage", "Retrieve", "ctor:NewFatalError")]).length = 1 := by decide

set_option maxRecDepth 100000 in
/-- a wrapped call that disappears altogether is noticed by clause (3) -/
example : wrapOk closedInterfaces (Gen.errWrapSites.filter (fun r => r.1 != "ArrayDataSlab.Split")) = false := by decide

set_option maxRecDepth 100000 in
/-- non-vacuity: the fact has rows of every family the property names -/
example : (Gen.errWrapSites.filter (fun r => r.2.1 == "SlabStorage")).length ≥ 40 ∧
    (Gen.errWrapSites.filter (fun r => r.2.1 == "Value" && r.2.2.1 == "Storable")).length = 7 ∧
    (Gen.errWrapSites.filter (fun r => r.2.1 == "func")).length ≥ 30 := by decide

end Atree.C18
