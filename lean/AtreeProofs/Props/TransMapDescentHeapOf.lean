import AtreeProofs.Props.TransMapDescentFull
/-
  MAP DESCENT (WP13): the heap a model tree occupies (`md_heapOf`, Trans/MapDescent.lean) HOLDS that tree when its
  identifiers are pairwise distinct, so the read theorems can be stated on `md_heapOf` itself, without any hypothesis about
  the storage (as `Sl_Array_Get_heapOf` for arrays).
-/
namespace Atree.TransEq
open Atree Atree.Gen.TransMapD

section
variable {r : Nat}

/-- `MHolds` only looks at the identifiers of the tree -/
theorem MHolds.congr {h h' : SlabID → Option (DSlab r)} :
    ∀ {d : Nat} {t : MTree r d} {x : Option DX}, MHolds h d t x → (∀ id ∈ md_ids d t, h' id = h id) → MHolds h' d t x
  | 0, (s : MDataSlab r), x, hh, heq => by
    have : h' s.hdr.id = h s.hdr.id := heq _ (List.mem_singleton.2 rfl)
    exact this.trans hh
  | d + 1, (m : MMetaSlab (MTree r d)), x, hh, heq => by
    obtain ⟨h1, h2⟩ := hh
    have hroot : m.hdr.id ∈ md_ids (d + 1) (m : MTree r (d + 1)) := List.mem_cons_self
    refine ⟨(heq _ hroot).trans h1, fun c hc => MHolds.congr (h2 c hc) (fun id hid => heq id ?_)⟩
    exact List.mem_cons_of_mem _ (List.mem_flatMap.2 ⟨c, hc, hid⟩)

/-- outside the identifiers of the tree its heap is empty -/
theorem md_heapOf_none : ∀ (d : Nat) (t : MTree r d) (x : Option DX) (id : SlabID), id ∉ md_ids d t → md_heapOf d t x id = none
  | 0, (s : MDataSlab r), x, id, h => by
    have : id ≠ s.hdr.id := fun e => h (by rw [e]; exact List.mem_singleton.2 rfl)
    simp [md_heapOf, this]
  | d + 1, (m : MMetaSlab (MTree r d)), x, id, h => by
    have h : id ∉ m.hdr.id :: m.children.flatMap (md_ids d) := h
    simp only [List.mem_cons, List.mem_flatMap, not_or, not_exists, not_and] at h
    simp only [md_heapOf, h.1, if_false]
    rw [List.findSome?_eq_none_iff]
    intro c hc
    exact md_heapOf_none d c none id (h.2 c hc)

theorem mdh_findSome? {d : Nat} (cs : List (MTree r d)) (hnd : (cs.flatMap (md_ids d)).Nodup)
    (c : MTree r d) (hc : c ∈ cs) (id : SlabID) (hid : id ∈ md_ids d c) :
    cs.findSome? (fun c' => md_heapOf d c' none id) = md_heapOf d c none id := by
  induction cs with
  | nil => cases hc
  | cons y ys ih =>
    rw [List.flatMap_cons, List.nodup_append] at hnd
    obtain ⟨_, hys, hdis⟩ := hnd
    rw [List.findSome?_cons]
    by_cases hy : id ∈ md_ids d y
    · have hnot : ∀ c' ∈ ys, id ∉ md_ids d c' := fun c' hc' hin =>
        hdis id hy id (List.mem_flatMap.2 ⟨c', hc', hin⟩) rfl
      have hcy : c = y := by
        rcases List.mem_cons.1 hc with e | e
        · exact e
        · exact absurd hid (hnot c e)
      subst hcy
      cases hh : md_heapOf d c none id with
      | some v => rfl
      | none =>
        simp only
        rw [List.findSome?_eq_none_iff]
        intro c' hc'
        exact md_heapOf_none d c' none id (hnot c' hc')
    · rw [md_heapOf_none d y none id hy]
      have hcy : c ∈ ys := by
        rcases List.mem_cons.1 hc with e | e
        · subst e; exact absurd hid hy
        · exact e
      exact ih hys hcy

/-- the heap of a tree without repeated identifiers holds the tree -/
theorem MHolds_md_heapOf : ∀ (d : Nat) (t : MTree r d) (x : Option DX), (md_ids d t).Nodup → MHolds (md_heapOf d t x) d t x
  | 0, (s : MDataSlab r), x, _ => by simp [MHolds, md_heapOf]
  | d + 1, (m : MMetaSlab (MTree r d)), x, hnd => by
    have hnd : (m.hdr.id :: m.children.flatMap (md_ids d)).Nodup := hnd
    rw [List.nodup_cons] at hnd
    obtain ⟨hroot, hkids⟩ := hnd
    refine ⟨by simp [md_heapOf], fun c hc => ?_⟩
    have hcn : (md_ids d c).Nodup := by
      obtain ⟨A, B, hAB⟩ := List.append_of_mem hc
      rw [hAB, List.flatMap_append, List.flatMap_cons] at hkids
      exact (List.nodup_append.1 (List.nodup_append.1 hkids).2.1).1
    refine (MHolds_md_heapOf d c none hcn).congr (fun id hid => ?_)
    have hne : id ≠ m.hdr.id := fun e => hroot (by rw [← e]; exact List.mem_flatMap.2 ⟨c, hc, hid⟩)
    simp only [md_heapOf, hne, if_false]
    exact mdh_findSome? m.children hkids c hc id hid

/-- **`OrderedMap.get` on the heap of a valid map** (no hypothesis left about the storage): the heap is `md_heapOf` of the map's
    tree, any `Ctx` -/
theorem Ob_OrderedMap_Get_heapOf (T : Nat) (eb : DEnvB r) (rs : DRestruct r) (D : DigestFn (r + 1)) (cfg : MCfg)
    (k : MKey) (v : Elem) (P : DG r → Prop) (hE : ElemsSpec cfg k v P eb) (hk : k.dig 0 < 2^64)
    (m : OMap r) (c : Ctx) (depth : Nat) (hd : m.d ≤ depth) (hinv : MapInv T D m)
    (hfit : MHdrsFit m.d m.root) (hnd : (md_ids m.d m.root).Nodup)
    (hP : ∀ sl ∈ MTree.leaves m.d m.root, P sl.elems) :
    OrderedMap_get (envD T eb rs) depth (md_map m ⟨md_heapOf m.d m.root (some (md_extra m)), c, []⟩) (.key k) =
      some (md_rMapGet m ⟨md_heapOf m.d m.root (some (md_extra m)), c, []⟩ (m.get cfg k)) :=
  Ob_OrderedMap_Get_heap_full T eb rs D cfg k v P hE hk m _ depth hd hinv hfit
    (MHolds_md_heapOf m.d m.root (some (md_extra m)) hnd) hP

end
end Atree.TransEq
