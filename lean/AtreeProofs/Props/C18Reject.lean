import AtreeProofs.Reject.MapAgree
import AtreeProofs.Props.C01
import AtreeProofs.Props.C02
import AtreeProofs.Props.C12
import AtreeProofs.Props.E2E
import AtreeProofs.Props.E2EMapFull
/-
  C18 — Rejected requests leave no trace: PROPERTY THEOREMS about the in-place programs of
  `AtreeModel/Reject.lean` (audit a2/F1).

  What is different from `Props/C18.lean`: there, `Arr.request` RETURNS THE INPUT STATE on an error
  by definition, so "the state is unchanged" holds for any code.  Here the operations are
  programs over slab objects whose state survives an error (`Prog σ ε α = σ → Except ε α × σ`),
  transcribed in Go statement order; "unchanged" is a property of that order:

    * `reject_leaves_no_trace`            arrays: Get / Set / Insert / Remove at every depth
    * `map_set_reject_leaves_no_trace`    maps: collision limit, at every digest level and depth
    * `map_remove_reject_leaves_no_trace` maps: key not found
    * `s06_program_leaves_a_trace`        the same statement is FALSE for the program of seeded
                                          change s06 (value.Storable before the bounds check)

  and the programs are tied to the functional model the other properties are about:

    * `inplace_request_agrees`, `map_set_inplace_agrees`, `map_remove_inplace_agrees`
                                          same error / same answer and same state

  Histories and commits:

    * `rejected_request_writes_nothing`, `history_with_rejections_commits_same_registers`  (arrays)
    * `map_history_with_rejections_commits_same_registers`                                 (maps)
      running a history in place, WITH its refused requests, against the storage state machine gives
      the same array/map, the same storage context and the same storage state (cache, pending
      write set, ledger) as running only the served requests – hence the same registers at the next
      commit – and is the run `E2E.rep_history` / `E2EM.map_rep_history` speak about.

  Ancestors: the World model's operations (`AtreeModel/World.lean`, C10/C11) are `Except`-valued
  functions of the whole world; they return `.error` WITHOUT a world, so "ancestors unchanged" is
  true of them by construction, exactly as `reject_is_noop` was (see the doc comment there).
  What this file adds for nested containers is the container-local fact the World model builds on:
  a refused request does not touch the container's own slab objects nor the storage, so there is
  nothing to notify the parent about (`notifyParentIfNeeded` is only reached after the root
  operation succeeded: `Array.set`, `OrderedMap.set` in `Gen.argCheckPrefix` order).
-/
namespace Atree.C18
open Atree Gen

/-! ### one request -/

/-- REJECT LEAVES NO TRACE (arrays, in place).  A `Get`/`Set`/`Insert`/`Remove` refused because of
    its arguments (index out of bounds; array full) leaves every slab object of the array and the
    storage context – allocation counter, log of `SlabStorage` calls (= pending write set), created
    large-value slabs – exactly as they were.  For every threshold, depth, state: no invariant is
    assumed. -/
theorem reject_leaves_no_trace (T : Nat) (r : AReq) (st st' : Arr × Ctx) (e : AErr)
    (h : Arr.requestP T r st = (.error e, st')) (harg : e.isArg = true) : st' = st :=
  Arr.requestP_reject T r st st' e h harg

/-- … and the in-place request is the request of `AtreeModel/Errors.lean`: a served request gives the
    same answer and the same state, a refused one the same error. -/
theorem inplace_request_agrees (T : Nat) (r : AReq) (s : Arr × Ctx) :
    match (Arr.request T s r).2 with
    | .err e => (Arr.requestP T r s).1 = .error e
    | resp => Arr.requestP T r s = (.ok resp, (Arr.request T s r).1) :=
  Arr.requestP_agrees T r s

/-- the two together: when the functional model refuses a request with an argument error, the
    in-place program returns that error and the untouched state -/
theorem reject_is_noop_inplace (T : Nat) (r : AReq) (s : Arr × Ctx) (e : AErr)
    (h : (Arr.request T s r).2 = .err e) (harg : e.isArg = true) : Arr.requestP T r s = (.error e, s) := by
  have ha := inplace_request_agrees T r s
  rw [h] at ha
  obtain ⟨s', hp⟩ := fst_error_cases ha
  rw [hp, reject_leaves_no_trace T r s s' e hp harg]

/-- THE STATEMENT HAS TEETH.  For the program of seeded change s06 (`value.Storable` hoisted above
    the bounds check of `ArrayDataSlab.Insert`) the same statement is false: an out-of-range insertion
    of a large value returns index-out-of-bounds and leaves an allocated, stored slab behind. -/
theorem s06_program_leaves_a_trace :
    ∃ (st : DataSlab × Ctx) (v : Elem),
      (DataSlab.insertP_s06 256 5 v st).1 = .error .indexOutOfBounds ∧
      (DataSlab.insertP_s06 256 5 v st).2.2.eff = [.alloc 1 ⟨1, 2⟩, .store ⟨1, 2⟩] ∧
      (DataSlab.insertP 256 5 v st).2.2.eff = [] :=
  ⟨(⟨⟨⟨1, 1⟩, 0, 0⟩, SlabID.undef, [], true, false⟩, ⟨1, [], []⟩), ⟨5000, .val 7⟩, rfl, rfl, rfl⟩

/-- REJECT LEAVES NO TRACE (maps, `Set`).  A `Set` refused by the collision limit leaves every
    element, collision group, group slab and tree slab object of the map, its count, and the storage
    context exactly as they were – at every digest level and tree depth, for every state. -/
theorem map_set_reject_leaves_no_trace {r : Nat} (cfg : MCfg) (k : MKey) (v : Elem) (st st' : OMap r × Ctx)
    (e : MErr) (h : OMap.setP cfg k v st = (.error e, st')) (harg : e.isArg = true) : st' = st :=
  OMap.setP_reject cfg k v st st' e h harg

/-- REJECT LEAVES NO TRACE (maps, `Remove`): key not found. -/
theorem map_remove_reject_leaves_no_trace {r : Nat} (cfg : MCfg) (k : MKey) (st st' : OMap r × Ctx)
    (e : MErr) (h : OMap.removeP cfg k st = (.error e, st')) (harg : e.isArg = true) : st' = st :=
  OMap.removeP_reject cfg k st st' e h harg

/-- the in-place `Set` is `OMap.set` (the function C02/C12 are about) -/
theorem map_set_inplace_agrees {r : Nat} (cfg : MCfg) (k : MKey) (v : Elem) (m : OMap r) (c : Ctx) :
    match m.set cfg k v c with
    | .ok (old, m', c') => OMap.setP cfg k v (m, c) = (.ok old, (m', c'))
    | .error e => (OMap.setP cfg k v (m, c)).1 = .error e := by
  have h := OMap.setP_agrees cfg k v m c
  cases hs : m.set cfg k v c with
  | error e => rw [hs] at h; exact h
  | ok res => obtain ⟨old, m', c'⟩ := res; rw [hs] at h; exact h

theorem map_remove_inplace_agrees {r : Nat} (cfg : MCfg) (k : MKey) (m : OMap r) (c : Ctx) :
    match m.remove cfg k c with
    | .ok (rk, rv, m', c') => OMap.removeP cfg k (m, c) = (.ok (rk, rv), (m', c'))
    | .error e => (OMap.removeP cfg k (m, c)).1 = .error e := by
  have h := OMap.removeP_agrees cfg k m c
  cases hs : m.remove cfg k c with
  | error e => rw [hs] at h; exact h
  | ok res => obtain ⟨rk, rv, m', c'⟩ := res; rw [hs] at h; exact h

/-! ### histories and commits: arrays -/

section ArrayHistory
open Atree.E2E

variable {β : Type}

def isErr {ε α : Type} : Except ε α → Bool
  | .error _ => true
  | .ok _ => false

/-- the in-place result of a request of `E2E.AOp` -/
def opResultP (T : Nat) (st : Arr × Ctx) : AOp → Bool × (Arr × Ctx)
  | .insert i v => let x := Arr.insertP T i v st; (isErr x.1, x.2)
  | .append v => let x := Arr.insertP T st.1.count v st; (isErr x.1, x.2)
  | .set i v => let x := Arr.setP T i v st; (isErr x.1, x.2)
  | .remove i => let x := Arr.removeP T i st; (isErr x.1, x.2)
  | .popIterate => (false, (st.1.popIterate st.2).2)
  | .setType ty => (false, st.1.setType ty st.2)

/-- the state the objects are in after the request, served or not (in-place counterpart of `E2E.stepA`,
    which returns the input state on an error BY DEFINITION) -/
def stepAP (T : Nat) (st : Arr × Ctx) (op : AOp) : Arr × Ctx := (opResultP T st op).2

/-- the request and its `SlabStorage` calls on the storage state machine -/
def stepSP (c : Codec SSlab β) (T : Nat) (x : (Arr × Ctx) × St SSlab β) (op : AOp) :
    (Arr × Ctx) × St SSlab β :=
  let st' := stepAP T x.1 op
  (st', applyEffs c x.2 (contentOf st') (newEffs x.1.2 st'.2))

def runSP (c : Codec SSlab β) (T : Nat) (x : (Arr × Ctx) × St SSlab β) (ops : List AOp) :
    (Arr × Ctx) × St SSlab β := ops.foldl (stepSP c T) x

/-- the sub-history of the requests that were served -/
def servedOps (T : Nat) : Arr × Ctx → List AOp → List AOp
  | _, [] => []
  | st, op :: ops =>
    let x := opResultP T st op
    if x.1 then servedOps T x.2 ops else op :: servedOps T x.2 ops

/-- under the array invariant the only refusals are argument errors (C01) -/
theorem insert_error_is_arg (T : Nat) (hT : legalThreshold T = true) (a : Arr) (c : Ctx) (i : Nat) (v : Elem)
    (hv : ValueOk v) (h : ArrInv T a c.ctr) (e : AErr) (he : a.insert T i v c = .error e) : e.isArg = true := by
  by_cases hcount : a.count = maxArrayElementCount
  · unfold Arr.insert at he
    rw [if_pos hcount] at he
    cases he; rfl
  · have hlt : a.count < maxArrayElementCount := by have := h.count_lt; omega
    obtain ⟨h1, h2⟩ := C01.insert_refines T hT a c i v hv h hlt
    by_cases hi : i ≤ a.toList.length
    · obtain ⟨a', c', heq, _⟩ := h1 hi
      rw [heq] at he; cases he
    · rw [h2 (by omega)] at he
      cases he; rfl

theorem set_error_is_arg (T : Nat) (hT : legalThreshold T = true) (a : Arr) (c : Ctx) (i : Nat) (v : Elem)
    (hv : ValueOk v) (h : ArrInv T a c.ctr) (e : AErr) (he : a.set T i v c = .error e) : e.isArg = true := by
  obtain ⟨h1, h2⟩ := C01.set_refines T hT a c i v hv h
  by_cases hi : i < a.toList.length
  · obtain ⟨a', c', heq, _⟩ := h1 hi
    rw [heq] at he; cases he
  · rw [h2 (by omega)] at he
    cases he; rfl

theorem remove_error_is_arg (T : Nat) (hT : legalThreshold T = true) (a : Arr) (c : Ctx) (i : Nat)
    (h : ArrInv T a c.ctr) (e : AErr) (he : a.remove T i c = .error e) : e.isArg = true := by
  obtain ⟨h1, h2⟩ := C01.remove_refines T hT a c i h
  by_cases hi : i < a.toList.length
  · obtain ⟨a', c', heq, _⟩ := h1 hi
    rw [heq] at he; cases he
  · rw [h2 (by omega)] at he
    cases he; rfl

/-- what an in-place program left behind, from its agreement with the functional model and the
    no-trace theorem -/
theorem inplace_state {σ ε α β' : Type} (isArg : ε → Bool) {p : Except ε α × σ} {f : Except ε β'}
    {g : β' → α × σ} {st : σ}
    (hag : Agrees p (f.map g))
    (hrej : ∀ e st', p = (.error e, st') → isArg e = true → st' = st)
    (harg : ∀ e, f = .error e → isArg e = true) :
    (∀ r, f = .ok r → (isErr p.1, p.2) = (false, (g r).2)) ∧
    (∀ e, f = .error e → (isErr p.1, p.2) = (true, st)) := by
  constructor
  · intro r hf
    rw [hf] at hag
    have hp : p = (.ok (g r).1, (g r).2) := hag
    rw [hp]; rfl
  · intro e hf
    have hag' := hag
    rw [hf] at hag'
    obtain ⟨st', hp⟩ := fst_error_cases hag'
    rw [hp, hrej e st' hp (harg e hf)]
    rfl

/-- IN PLACE = BY CONSTRUCTION.  Under the array invariant, the state the slab objects and the storage
    context are in after a request – served or refused – is the state `E2E.stepA` defines; and the
    request was refused exactly when the functional model returns an error. -/
theorem opResultP_eq (T : Nat) (hT : legalThreshold T = true) (st : Arr × Ctx) (h : ArrInv T st.1 st.2.ctr)
    (op : AOp) (hop : op.Ok) :
    (opResultP T st op).2 = stepA T st op ∧
    ((opResultP T st op).1 = true → stepA T st op = st) := by
  obtain ⟨a, c⟩ := st
  cases op with
  | insert i v =>
    obtain ⟨kok, kerr⟩ := inplace_state AErr.isArg (st := (a, c)) (Arr.insertP_agrees T i v a c)
      (fun e st' hp ha => Arr.insertP_reject T i v (a, c) st' e hp ha)
      (fun e he => insert_error_is_arg T hT a c i v hop h e he)
    simp only [opResultP, stepA]
    cases hf : a.insert T i v c with
    | error e =>
      have key := kerr e hf
      rw [Prod.ext_iff] at key
      exact ⟨key.2, fun _ => rfl⟩
    | ok r =>
      have key := kok r hf
      rw [Prod.ext_iff] at key
      exact ⟨key.2, fun hb => by have h2 : false = true := key.1.symm.trans hb; cases h2⟩
  | append v =>
    obtain ⟨kok, kerr⟩ := inplace_state AErr.isArg (st := (a, c)) (Arr.insertP_agrees T a.count v a c)
      (fun e st' hp ha => Arr.insertP_reject T a.count v (a, c) st' e hp ha)
      (fun e he => insert_error_is_arg T hT a c a.count v hop h e he)
    simp only [opResultP, stepA, Arr.append]
    cases hf : a.insert T a.count v c with
    | error e =>
      have key := kerr e hf
      rw [Prod.ext_iff] at key
      exact ⟨key.2, fun _ => rfl⟩
    | ok r =>
      have key := kok r hf
      rw [Prod.ext_iff] at key
      exact ⟨key.2, fun hb => by have h2 : false = true := key.1.symm.trans hb; cases h2⟩
  | set i v =>
    obtain ⟨kok, kerr⟩ := inplace_state AErr.isArg (st := (a, c)) (Arr.setP_agrees T i v a c)
      (fun e st' hp ha => Arr.setP_reject T i v (a, c) st' e hp ha)
      (fun e he => set_error_is_arg T hT a c i v hop h e he)
    simp only [opResultP, stepA]
    cases hf : a.set T i v c with
    | error e =>
      have key := kerr e hf
      rw [Prod.ext_iff] at key
      exact ⟨key.2, fun _ => rfl⟩
    | ok r =>
      have key := kok r hf
      rw [Prod.ext_iff] at key
      exact ⟨key.2, fun hb => by have h2 : false = true := key.1.symm.trans hb; cases h2⟩
  | remove i =>
    obtain ⟨kok, kerr⟩ := inplace_state AErr.isArg (st := (a, c)) (Arr.removeP_agrees T i a c)
      (fun e st' hp ha => Arr.removeP_reject T i (a, c) st' e hp ha)
      (fun e he => remove_error_is_arg T hT a c i h e he)
    simp only [opResultP, stepA]
    cases hf : a.remove T i c with
    | error e =>
      have key := kerr e hf
      rw [Prod.ext_iff] at key
      exact ⟨key.2, fun _ => rfl⟩
    | ok r =>
      have key := kok r hf
      rw [Prod.ext_iff] at key
      exact ⟨key.2, fun hb => by have h2 : false = true := key.1.symm.trans hb; cases h2⟩
  | popIterate => exact ⟨rfl, fun hb => by cases hb⟩
  | setType ty => exact ⟨rfl, fun hb => by cases hb⟩

theorem stepSP_eq_stepS (c : Codec SSlab β) (T : Nat) (hT : legalThreshold T = true)
    (x : (Arr × Ctx) × St SSlab β) (hg : Good c T x) (op : AOp) (hop : op.Ok) :
    stepSP c T x op = stepS c T x op := by
  simp only [stepSP, stepS, stepAP, (opResultP_eq T hT x.1 hg.inv op hop).1]

/-- A REFUSED REQUEST WRITES NOTHING.  Run in place against the storage state machine, a request that
    returns an error leaves the array, the storage context AND the storage state (cache, pending write
    set, ledger) exactly as they were. -/
theorem rejected_request_writes_nothing (c : Codec SSlab β) (T : Nat) (hT : legalThreshold T = true)
    (x : (Arr × Ctx) × St SSlab β) (hg : Good c T x) (op : AOp) (hop : op.Ok)
    (hfail : (opResultP T x.1 op).1 = true) : stepSP c T x op = x := by
  obtain ⟨h1, h2⟩ := opResultP_eq T hT x.1 hg.inv op hop
  have hst : stepAP T x.1 op = x.1 := by rw [stepAP, h1, h2 hfail]
  simp only [stepSP, hst, newEffs_self, applyEffs_nil]

/-- A HISTORY WITH REFUSED REQUESTS COMMITS THE SAME REGISTERS.  From any state satisfying the run
    invariant `Good` (e.g. `NewArray` on an empty storage, or the state after a commit), for every list
    of requests (any positions; values of any size ≥ 1): executing the whole history in place – refused
    requests included – ends in the same array, the same storage context and the same storage state
    (hence writes the same registers at the next commit, whichever commit function is used) as
    executing only the served requests; and it is the run of `E2E.rep_history` (`runS`), so everything
    proved there (array invariant, storage represents the array, List semantics) holds for it. -/
theorem history_with_rejections_commits_same_registers (c : Codec SSlab β) (hc : RoundTrip c) (T : Nat)
    (hT : legalThreshold T = true) :
    ∀ (ops : List AOp) (x : (Arr × Ctx) × St SSlab β), Good c T x → (∀ op ∈ ops, op.Ok) →
      runSP c T x ops = runSP c T x (servedOps T x.1 ops) ∧ runSP c T x ops = runS c T x ops
  | [], _, _, _ => ⟨rfl, rfl⟩
  | op :: ops, x, hg, hok => by
    have hop := hok op (by simp)
    have hstep := stepSP_eq_stepS c T hT x hg op hop
    have hg' : Good c T (stepSP c T x op) := by rw [hstep]; exact (good_stepS c hc T hT x hg op hop).1
    obtain ⟨ih1, ih2⟩ := history_with_rejections_commits_same_registers c hc T hT ops (stepSP c T x op) hg'
      (fun o ho => hok o (by simp [ho]))
    have hfst : (stepSP c T x op).1 = (opResultP T x.1 op).2 := rfl
    constructor
    · show runSP c T (stepSP c T x op) ops = _
      rw [ih1, hfst]
      simp only [servedOps]
      by_cases hfail : (opResultP T x.1 op).1 = true
      · rw [if_pos hfail]
        have hx := rejected_request_writes_nothing c T hT x hg op hop hfail
        have : (opResultP T x.1 op).2 = x.1 := by rw [← hfst, hx]
        rw [this, hx]
      · rw [if_neg hfail]
        rfl
    · show runSP c T (stepSP c T x op) ops = runS c T (stepS c T x op) ops
      rw [ih2, hstep]

end ArrayHistory

/-! ### histories and commits: maps -/

section MapHistory
open Atree.E2EM
open Atree.E2E (newEffs newEffs_self)

variable {β : Type} {r : Nat}

/-- the in-place result of a request of `E2EM.MOp` -/
def mopResultP (cfg : MCfg) (st : OMap r × Ctx) : MOp → Bool × (OMap r × Ctx)
  | .set k v => let x := OMap.setP cfg k v st; (isErr x.1, x.2)
  | .remove k => let x := OMap.removeP cfg k st; (isErr x.1, x.2)
  | .popIterate => (false, (st.1.popIterate st.2).2)
  | .setType ty => (false, st.1.setType ty st.2)

def stepMP (cfg : MCfg) (st : OMap r × Ctx) (op : MOp) : OMap r × Ctx := (mopResultP cfg st op).2

def mstepSP (c : Codec (MSSlab r) β) (cfg : MCfg) (x : (OMap r × Ctx) × St (MSSlab r) β) (op : MOp) :
    (OMap r × Ctx) × St (MSSlab r) β :=
  let st' := stepMP cfg x.1 op
  (st', applyEffs c x.2 (contentOf st') (newEffs x.1.2 st'.2))

def mrunSP (c : Codec (MSSlab r) β) (cfg : MCfg) (x : (OMap r × Ctx) × St (MSSlab r) β) (ops : List MOp) :
    (OMap r × Ctx) × St (MSSlab r) β := ops.foldl (mstepSP c cfg) x

def mservedOps (cfg : MCfg) : OMap r × Ctx → List MOp → List MOp
  | _, [] => []
  | st, op :: ops =>
    let x := mopResultP cfg st op
    if x.1 then mservedOps cfg x.2 ops else op :: mservedOps cfg x.2 ops

/-- IN PLACE = BY CONSTRUCTION (maps).  Under the map invariant the only refusals of `Set` / `Remove`
    are the collision limit / key-not-found (C02), and the state the objects are in after a request –
    served or refused – is the state `E2EM.stepM` defines. -/
theorem mopResultP_eq (T : Nat) (hT : legalThreshold T = true) (D : DigestFn (r + 1)) (cfg : MCfg)
    (st : OMap r × Ctx) (hcfg : CfgOk cfg T st.1) (h : MapInv T D st.1) (hc : CtxOk st.1 st.2)
    (op : MOp) (hop : op.Ok T D) :
    (mopResultP cfg st op).2 = stepM cfg st op ∧
    ((mopResultP cfg st op).1 = true → stepM cfg st op = st) := by
  obtain ⟨m, c⟩ := st
  cases op with
  | set k v =>
    have harg : ∀ e, m.set cfg k v c = .error e → e.isArg = true := by
      intro e he
      rcases C02.set_refines T hT D cfg m hcfg h k hop.1 v hop.2 c hc with ⟨_, _, _, heq, _⟩ | ⟨herr, _⟩
      · rw [heq] at he; cases he
      · rw [herr] at he; cases he; rfl
    obtain ⟨kok, kerr⟩ := inplace_state MErr.isArg (st := (m, c)) (OMap.setP_agrees cfg k v m c)
      (fun e st' hp ha => OMap.setP_reject cfg k v (m, c) st' e hp ha) harg
    simp only [mopResultP, stepM]
    cases hf : m.set cfg k v c with
    | error e =>
      have key := kerr e hf
      rw [Prod.ext_iff] at key
      exact ⟨key.2, fun _ => rfl⟩
    | ok res =>
      have key := kok res hf
      rw [Prod.ext_iff] at key
      exact ⟨key.2, fun hb => by have h2 : false = true := key.1.symm.trans hb; cases h2⟩
  | remove k =>
    have harg : ∀ e, m.remove cfg k c = .error e → e.isArg = true := by
      intro e he
      have href := C02.remove_refines T hT D cfg m hcfg h k hop c hc
      cases hd : dictLookup m.toList k with
      | none => rw [hd] at href; simp only at href; rw [href] at he; cases he; rfl
      | some v0 =>
        rw [hd] at href
        obtain ⟨_, _, _, heq, _⟩ := href
        rw [heq] at he; cases he
    obtain ⟨kok, kerr⟩ := inplace_state MErr.isArg (st := (m, c)) (OMap.removeP_agrees cfg k m c)
      (fun e st' hp ha => OMap.removeP_reject cfg k (m, c) st' e hp ha) harg
    simp only [mopResultP, stepM]
    cases hf : m.remove cfg k c with
    | error e =>
      have key := kerr e hf
      rw [Prod.ext_iff] at key
      exact ⟨key.2, fun _ => rfl⟩
    | ok res =>
      have key := kok res hf
      rw [Prod.ext_iff] at key
      exact ⟨key.2, fun hb => by have h2 : false = true := key.1.symm.trans hb; cases h2⟩
  | popIterate => exact ⟨rfl, fun hb => by cases hb⟩
  | setType ty => exact ⟨rfl, fun hb => by cases hb⟩

/-- A HISTORY WITH REFUSED REQUESTS COMMITS THE SAME REGISTERS (maps): as for arrays, from any state
    satisfying the run invariant `MGoodF` (e.g. `NewMap` on an empty storage), for every digest function
    and every list of requests. -/
theorem map_history_with_rejections_commits_same_registers (c : Codec (MSSlab r) β) (hc : RoundTrip c) (T : Nat)
    (hT : legalThreshold T = true) (D : DigestFn (r + 1)) (cfg : MCfg) :
    ∀ (ops : List MOp) (x : (OMap r × Ctx) × St (MSSlab r) β), MGoodF c T D cfg x → (∀ op ∈ ops, op.Ok T D) →
      mrunSP c cfg x ops = mrunSP c cfg x (mservedOps cfg x.1 ops) ∧ mrunSP c cfg x ops = runS c cfg x ops
  | [], _, _, _ => ⟨rfl, rfl⟩
  | op :: ops, x, hg, hok => by
    have hop := hok op (by simp)
    obtain ⟨h1, h2⟩ := mopResultP_eq T hT D cfg x.1 hg.cfg hg.inv hg.ctx op hop
    have hstep : mstepSP c cfg x op = stepS c cfg x op := by
      simp only [mstepSP, stepS, stepMP, h1]
    have hg' : MGoodF c T D cfg (mstepSP c cfg x op) := by
      rw [hstep]; exact (mgoodF_stepS c hc T hT D cfg x hg op hop).1
    obtain ⟨ih1, ih2⟩ := map_history_with_rejections_commits_same_registers c hc T hT D cfg ops
      (mstepSP c cfg x op) hg' (fun o ho => hok o (by simp [ho]))
    have hfst : (mstepSP c cfg x op).1 = (mopResultP cfg x.1 op).2 := rfl
    constructor
    · show mrunSP c cfg (mstepSP c cfg x op) ops = _
      rw [ih1, hfst]
      simp only [mservedOps]
      by_cases hfail : (mopResultP cfg x.1 op).1 = true
      · rw [if_pos hfail]
        have hst : stepMP cfg x.1 op = x.1 := by rw [stepMP, h1, h2 hfail]
        have hx : mstepSP c cfg x op = x := by
          simp only [mstepSP, hst, newEffs_self, E2EM.applyEffs_nil]
        have : (mopResultP cfg x.1 op).2 = x.1 := by rw [← hfst, hx]
        rw [this, hx]
      · rw [if_neg hfail]
        rfl
    · show mrunSP c cfg (mstepSP c cfg x op) ops = runS c cfg (stepS c cfg x op) ops
      rw [ih2, hstep]

end MapHistory

/-! ### Non-vacuity -/

section NonVacuity
open MapExample

/-- a concrete refused insertion (index 9 of an empty array) in place: error, state untouched -/
example : Arr.requestP 256 (.insert 9 ⟨5000, .val 1⟩) (Arr.new 1 0 ⟨0, [], []⟩) =
    (.error .indexOutOfBounds, Arr.new 1 0 ⟨0, [], []⟩) :=
  reject_is_noop_inplace 256 (.insert 9 ⟨5000, .val 1⟩) (Arr.new 1 0 ⟨0, [], []⟩) .indexOutOfBounds
    (by decide) rfl

/-- the collision-limit refusal of C12's example, in place: the map of `MapExample.run` (index slab,
    inline and external groups) and its context are untouched -/
example : ∃ st', OMap.setP cfg2 (key 331) (val 0) MapExample.run = (.error .collisionLimit, st') := by
  have h := map_set_inplace_agrees cfg2 (key 331) (val 0) MapExample.run.1 MapExample.run.2
  have hs : MapExample.run.1.set cfg2 (key 331) (val 0) MapExample.run.2 = .error .collisionLimit :=
    C12.limit_refuses_new_key 256 legal256 D2 cfg2 MapExample.run.1 run_good.cfgok run_good.inv (key 331) (key_ok _)
      (val 0) (val_ok _) MapExample.run.2 run_good.ctx (by decide) (by decide)
  rw [hs] at h
  exact fst_error_cases h

example (st' : OMap 1 × Ctx)
    (h : OMap.setP cfg2 (key 331) (val 0) MapExample.run = (.error .collisionLimit, st')) : st' = MapExample.run :=
  map_set_reject_leaves_no_trace cfg2 (key 331) (val 0) MapExample.run st' .collisionLimit h rfl

end NonVacuity

end Atree.C18
