import AtreeProofs.Props.C10WPop
import AtreeProofs.World.WPopOps
/-
  C10 — EVERY operation theorem of `Props/C10W.lean` holds for the invariant `WorldOk'`
  (AtreeProofs/WorldOkPop.lean: `WorldOk` with `hinfoLive` weakened to `hinfoBelow`), with the same
  hypotheses and the same conclusions.  PROPERTY THEOREMS.  Together with `Props/C10WPop.lean`
  (bulk pops, disposal) this makes `WorldOk'` an invariant of ALL the operations of the World
  model, from the empty world on.

  Proof: a world `w` that satisfies `WorldOk'` and the world `w.prune` without the closures whose
  recorded parent has been disposed of behave alike under every operation (`World.Sim`,
  `World/WPopSim.lean`, `World/WPopOps.lean`: such closures are inert — a notification through one
  of them finds no parent and drops it); `w.prune` satisfies `WorldOk`, to which the theorem of
  `C10W` applies; its conclusions are transported back.
-/
namespace Atree.C10W
open Atree Gen World

/-- the empty world -/
theorem worldOk'_new (D : SlabID → DigestFn 4) (T addr ctr : Nat) (hT : legalThreshold T = true) :
    WorldOk' D { T := T, addr := addr } ctr :=
  worldOk'_of_worldOk (worldOk_new D T addr ctr hT)

/-- `NewArray`: a new standalone array — fresh value ID, empty, current handle -/
theorem worldOk'_newArr (D : SlabID → DigestFn 4) (w : World) (ty : Nat) (cx : Ctx) (H : WorldOk' D w cx.ctr) :
    WorldOk' D (w.newArr ty cx).2.1 (w.newArr ty cx).2.2.ctr ∧ (w.newArr ty cx).2.2.ctr = cx.ctr + 1 ∧
      w.cont? (w.newArr ty cx).1 = none ∧
      (∃ a, (w.newArr ty cx).2.1.cont? (w.newArr ty cx).1 = some (.arr a) ∧ a.toList = [] ∧ a.isInlined = false) ∧
      (∀ z, z ≠ (w.newArr ty cx).1 → (w.newArr ty cx).2.1.cont? z = w.cont? z) ∧
      HandleOk (w.newArr ty cx).2.1 (w.newArr ty cx).1 := by
  obtain ⟨H0, S⟩ := H.down
  obtain ⟨g1, g2, g3, g4, g5, g6⟩ := newArr_ok (ty := ty) H0
  have S' : Sim cx.ctr (w.prune.newArr ty cx).2.1 (w.newArr ty cx).2.1 :=
    S.setCont_new (v := (w.newArr ty cx).1) (by show cx.ctr < cx.ctr + 1; omega) _
  have g2' : (w.newArr ty cx).2.2.ctr = cx.ctr + 1 := g2
  exact ⟨WorldOk'.up g1 S' (by rw [g2']; omega), g2, g3, g4, g5, S'.handleOk_up g6⟩

/-- `NewMap` -/
theorem worldOk'_newMap (D : SlabID → DigestFn 4) (w : World) (ty seed : Nat) (cx : Ctx) (H : WorldOk' D w cx.ctr) :
    WorldOk' D (w.newMap ty seed cx).2.1 (w.newMap ty seed cx).2.2.ctr ∧ (w.newMap ty seed cx).2.2.ctr = cx.ctr + 1 ∧
      w.cont? (w.newMap ty seed cx).1 = none ∧
      (∃ m, (w.newMap ty seed cx).2.1.cont? (w.newMap ty seed cx).1 = some (.map m) ∧ m.toList = [] ∧ m.isInlined = false) ∧
      (∀ z, z ≠ (w.newMap ty seed cx).1 → (w.newMap ty seed cx).2.1.cont? z = w.cont? z) ∧
      HandleOk (w.newMap ty seed cx).2.1 (w.newMap ty seed cx).1 := by
  obtain ⟨H0, S⟩ := H.down
  obtain ⟨g1, g2, g3, g4, g5, g6⟩ := newMap_ok (ty := ty) (seed := seed) H0
  have S' : Sim cx.ctr (w.prune.newMap ty seed cx).2.1 (w.newMap ty seed cx).2.1 :=
    S.setCont_new (v := (w.newMap ty seed cx).1) (by show cx.ctr < cx.ctr + 1; omega) _
  have g2' : (w.newMap ty seed cx).2.2.ctr = cx.ctr + 1 := g2
  exact ⟨WorldOk'.up g1 S' (by rw [g2']; omega), g2, g3, g4, g5, S'.handleOk_up g6⟩

/-- `Array.Insert` through a current handle keeps `WorldOk'` (as `C10W.worldOk_arrInsert`).
    (Projection of `worldOk'_arrInsert_all`, Props/C10WAll.lean — the DECIDING statement: it also
    concludes `HandlesKept` (all current handles stay current, so the theorems chain along a history,
    `C10Hist.history_invariant`) and the strong frame `AncFrame`; the same for `_arrSet`, `_arrRemove`,
    `_mapSet`, `_mapRemove`, `_setType` below.) -/
theorem worldOk'_arrInsert (D : SlabID → DigestFn 4) (w : World) (p : SlabID) (i : Nat) (v : WVal) (cx : Ctx)
    (w' : World) (cx' : Ctx) (H : WorldOk' D w cx.ctr) (hh : HandleOk w p)
    (hv : WValOk w p (maxInlineArr w.T) v) (h : w.arrInsert p i v cx = .ok (w', cx')) :
    WorldOk' D w' cx'.ctr ∧ cx.ctr ≤ cx'.ctr ∧ InsertedAt w w' p i v ∧ HandleOk w' p ∧ SigFrame w w' p := by
  obtain ⟨H0, S⟩ := H.down
  obtain ⟨w0', h0, S'⟩ := sim_arrInsert S h
  obtain ⟨g1, g2, g3, g4, g5⟩ := arrInsert_ok H0 (S.handleOk_down hh) (S.wValOk hv) h0
  exact ⟨WorldOk'.up g1 S' g2, g2, S.insertedAt S' g3, S'.handleOk_up g4, S.sigFrame S' g5⟩

/-- `Array.Set` -/
theorem worldOk'_arrSet (D : SlabID → DigestFn 4) (w : World) (p : SlabID) (i : Nat) (v : WVal) (cx : Ctx)
    (old : Elem) (w' : World) (cx' : Ctx) (H : WorldOk' D w cx.ctr) (hh : HandleOk w p)
    (hv : WValOk w p (maxInlineArr w.T) v) (h : w.arrSet p i v cx = .ok (old, w', cx')) :
    WorldOk' D w' cx'.ctr ∧ cx.ctr ≤ cx'.ctr ∧ SetAt w w' p i v old ∧ HandleOk w' p ∧ SigFrame w w' p := by
  obtain ⟨H0, S⟩ := H.down
  obtain ⟨w0', h0, S'⟩ := sim_arrSet S h
  obtain ⟨g1, g2, g3, g4, g5⟩ := arrSet_ok H0 (S.handleOk_down hh) (S.wValOk hv) h0
  exact ⟨WorldOk'.up g1 S' g2, g2, S.setAt S' g3, S'.handleOk_up g4, S.sigFrame S' g5⟩

/-- `Array.Remove` -/
theorem worldOk'_arrRemove (D : SlabID → DigestFn 4) (w : World) (p : SlabID) (i : Nat) (cx : Ctx)
    (old : Elem) (w' : World) (cx' : Ctx) (H : WorldOk' D w cx.ctr) (hh : HandleOk w p)
    (h : w.arrRemove p i cx = .ok (old, w', cx')) :
    WorldOk' D w' cx'.ctr ∧ cx.ctr ≤ cx'.ctr ∧ RemovedAt w w' p i old ∧ HandleOk w' p ∧ SigFrame w w' p := by
  obtain ⟨H0, S⟩ := H.down
  obtain ⟨w0', h0, S'⟩ := sim_arrRemove S h
  obtain ⟨g1, g2, g3, g4, g5⟩ := arrRemove_ok H0 (S.handleOk_down hh) h0
  exact ⟨WorldOk'.up g1 S' g2, g2, S.removedAt S' g3, S'.handleOk_up g4, S.sigFrame S' g5⟩

/-- `OrderedMap.Set` -/
theorem worldOk'_mapSet (D : SlabID → DigestFn 4) (w : World) (p : SlabID) (k : MKey) (v : WVal) (cx : Ctx)
    (old : Option Elem) (w' : World) (cx' : Ctx) (H : WorldOk' D w cx.ctr) (hh : HandleOk w p)
    (hk : KeyOk w.T 4 (D p) k) (hv : WValOk w p (maxInlineMapValue w.T k.size) v)
    (h : w.mapSet p k v cx = .ok (old, w', cx')) :
    WorldOk' D w' cx'.ctr ∧ cx.ctr ≤ cx'.ctr ∧ MapSetAt w w' p k v old ∧ HandleOk w' p ∧ SigFrame w w' p := by
  obtain ⟨H0, S⟩ := H.down
  obtain ⟨w0', h0, S'⟩ := sim_mapSet S h
  obtain ⟨g1, g2, g3, g4, g5⟩ := mapSet_ok H0 (S.handleOk_down hh) hk (S.wValOk hv) h0
  exact ⟨WorldOk'.up g1 S' g2, g2, S.mapSetAt S' g3, S'.handleOk_up g4, S.sigFrame S' g5⟩

/-- `OrderedMap.Remove` -/
theorem worldOk'_mapRemove (D : SlabID → DigestFn 4) (w : World) (p : SlabID) (k : MKey) (cx : Ctx)
    (rk : MKey) (rv : Elem) (w' : World) (cx' : Ctx) (H : WorldOk' D w cx.ctr) (hh : HandleOk w p)
    (hk : KeyOk w.T 4 (D p) k) (h : w.mapRemove p k cx = .ok (rk, rv, w', cx')) :
    WorldOk' D w' cx'.ctr ∧ cx.ctr ≤ cx'.ctr ∧ MapRemovedAt w w' p k rk rv ∧ HandleOk w' p ∧ SigFrame w w' p := by
  obtain ⟨H0, S⟩ := H.down
  obtain ⟨w0', h0, S'⟩ := sim_mapRemove S h
  obtain ⟨g1, g2, g3, g4, g5⟩ := mapRemove_ok H0 (S.handleOk_down hh) hk h0
  exact ⟨WorldOk'.up g1 S' g2, g2, S.mapRemovedAt S' g3, S'.handleOk_up g4, S.sigFrame S' g5⟩

/-- `Array.Get` (also: the mutable iterator arriving at index `i`) -/
theorem worldOk'_arrGet (D : SlabID → DigestFn 4) (w : World) (p : SlabID) (i : Nat) (el : Elem) (w' : World)
    (ctr : Nat) (H : WorldOk' D w ctr) (hh : HandleOk w p) (h : w.arrGet p i = .ok (el, w')) :
    WorldOk' D w' ctr ∧ (∀ z, w'.cont? z = w.cont? z) ∧
      (∃ a, w.cont? p = some (.arr a) ∧ a.toList[i]? = some el) ∧
      (∀ z, HandleOk w z → HandleOk w' z) ∧
      (∀ x, el.pay = .ref x → (w.cont? x).isSome → HandleOk w' x) := by
  obtain ⟨H0, S⟩ := H.down
  obtain ⟨w0', h0, S'⟩ := sim_arrGet S h
  obtain ⟨g1, g2, ⟨a, g3, g3'⟩, g4, g5⟩ := arrGet_ok H0 (S.handleOk_down hh) h0
  refine ⟨WorldOk'.up g1 S' (Nat.le_refl _), fun z => by rw [← S'.cont?, g2, S.cont?],
    ⟨a, by rw [← S.cont?]; exact g3, g3'⟩, fun z hz => S'.handleOk_up (g4 z (S.handleOk_down hz)),
    fun x hx hl => S'.handleOk_up (g5 x hx (by rw [S.cont?]; exact hl))⟩

/-- `OrderedMap.Get` -/
theorem worldOk'_mapGet (D : SlabID → DigestFn 4) (w : World) (p : SlabID) (k : MKey) (el : Elem) (w' : World)
    (ctr : Nat) (H : WorldOk' D w ctr) (hh : HandleOk w p) (hk : KeyOk w.T 4 (D p) k)
    (h : w.mapGet p k = .ok (el, w')) :
    WorldOk' D w' ctr ∧ (∀ z, w'.cont? z = w.cont? z) ∧
      (∃ m, w.cont? p = some (.map m) ∧ (k, el) ∈ m.toList) ∧
      (∀ z, HandleOk w z → HandleOk w' z) ∧
      (∀ x, el.pay = .ref x → (w.cont? x).isSome → HandleOk w' x) := by
  obtain ⟨H0, S⟩ := H.down
  obtain ⟨w0', h0, S'⟩ := sim_mapGet S h
  obtain ⟨g1, g2, ⟨m, g3, g3'⟩, g4, g5⟩ := mapGet_ok H0 (S.handleOk_down hh) hk h0
  refine ⟨WorldOk'.up g1 S' (Nat.le_refl _), fun z => by rw [← S'.cont?, g2, S.cont?],
    ⟨m, by rw [← S.cont?]; exact g3, g3'⟩, fun z hz => S'.handleOk_up (g4 z (S.handleOk_down hz)),
    fun x hx hl => S'.handleOk_up (g5 x hx (by rw [S.cont?]; exact hl))⟩

/-- reopening the storage: every closure is dropped, so the FULL invariant `WorldOk` holds again -/
theorem worldOk'_reopen (D : SlabID → DigestFn 4) (w : World) (ctr : Nat) (H : WorldOk' D w ctr) :
    WorldOk D w.reopen ctr ∧ (∀ z, w.reopen.cont? z = w.cont? z) ∧
      (∀ z, (∀ q, ¬ Holds w q z) → HandleOk w.reopen z) := by
  obtain ⟨H0, S⟩ := H.down
  obtain ⟨g1, g2, g3⟩ := reopen_ok H0
  have e : w.prune.reopen = w.reopen := rfl
  rw [e] at g1 g3
  exact ⟨g1, fun z => rfl, fun z hz => g3 z (fun q hq => hz q hq)⟩

/-- `SetType` through a current handle -/
theorem worldOk'_setType (D : SlabID → DigestFn 4) (w : World) (p : SlabID) (ty : Nat) (cx : Ctx) (w' : World)
    (cx' : Ctx) (H : WorldOk' D w cx.ctr) (hh : HandleOk w p) (h : w.setType p ty cx = .ok (w', cx')) :
    WorldOk' D w' cx'.ctr ∧ cx.ctr ≤ cx'.ctr ∧
      (∃ c c', w.cont? p = some c ∧ w'.cont? p = some c' ∧ c'.storedElems = c.storedElems ∧ c'.vid = c.vid) ∧
      HandleOk w' p := by
  obtain ⟨H0, S⟩ := H.down
  obtain ⟨w0', h0, S'⟩ := sim_setType S h
  obtain ⟨g1, g2, ⟨c, c', g3, g4, g5, g6⟩, g7⟩ := setType_ok H0 (S.handleOk_down hh) h0
  exact ⟨WorldOk'.up g1 S' g2, g2, ⟨c, c', by rw [← S.cont?]; exact g3, by rw [← S'.cont?]; exact g4, g5, g6⟩,
    S'.handleOk_up g7⟩

end Atree.C10W
