import AtreeProofs.Props.TransDescentTopInsert
import AtreeProofs.Props.TransDescentInsertFull
import AtreeProofs.Props.TransDescentTopRemove
import AtreeProofs.Props.TransDescentRemoveFull
import AtreeProofs.Props.TransDescentTopSet
import AtreeProofs.Props.TransDescentSetFull
/-
  TRANSLATION EQUIVALENCE, the DESCENT (WP12): the FINAL statements, without any hypothesis about generated code.

  `Array.Insert` / `Array.Append` / `Array.remove` / `Array.set` (array.go), regenerated from the Go source on every run (`Gen/TransSlabs.lean`), run on
  the handle of a valid model array (`ArrInv`) over a heap that holds its tree, with a depth argument that covers the
  tree: they return what the model's `Arr.insert` / `Arr.append` return on the EMBEDDED tree (`Arr.remove`, `Arr.set` likewise) - no error / the error class
  -, the handle is the translation of the model's new handle, the `Ctx` (allocation counter, effects in order) is the
  model's, and the heap holds the model's new tree, the rest untouched (`HeapPost`).  The tail hypotheses of
  `TransDescentInsert / Remove / Set.lean` are discharged by `insSplitTail_all`, `RemPath.of_inv`, `splitTailHyp_all`,
  `morTailHyp_all` (`TransDescent{Insert,Remove,Set}Full.lean`).
-/
namespace Atree.TransEq
open Atree Atree.Gen

/-- **`Array.Insert` over a heap = `Arr.insert` on the embedded tree** (any depth, any restructuring: child splits at
    every level, root split) -/
theorem Sl_Array_Insert_heap_full (T : Nat) (hT : legalThreshold T = true) (a : Arr) (i : Nat) (v : Elem) (s : HSt)
    (depth : Nat) (hd : a.d ≤ depth) (hinv : ArrInv T a s.ctx.ctr) (hv : ValueOk v) (hh : Holds s.heap a.d a.root)
    (hi : i < 2^64) :
    match a.insert T i v s.ctx with
    | .ok (a', c') => ∃ s', TransSl.Array_Insert (envH T) depth (trArrH a s) (u64 i) (some v) =
          some (none, trArrH a' s') ∧ s'.ctx = c' ∧ HeapPost s.heap s'.heap a.root a'.root
    | .error .indexOutOfBounds =>
        TransSl.Array_Insert (envH T) depth (trArrH a s) (u64 i) (some v) = some (some .indexOutOfBounds, trArrH a s)
    | .error .maxElementCount =>
        TransSl.Array_Insert (envH T) depth (trArrH a s) (u64 i) (some v) = some (some .maxElementCount, trArrH a s)
    | .error _ => True :=
  Sl_Array_Insert_heap_inv T hT a i v s depth hd hinv hv hh hi (Or.inl (fun d' _ => insSplitTail_all T hT d'))

/-- **`Array.Append` over a heap = `Arr.append` on the embedded tree** -/
theorem Sl_Array_Append_heap_full (T : Nat) (hT : legalThreshold T = true) (a : Arr) (v : Elem) (s : HSt)
    (depth : Nat) (hd : a.d ≤ depth) (hinv : ArrInv T a s.ctx.ctr) (hlt : a.count < maxArrayElementCount)
    (hv : ValueOk v) (hh : Holds s.heap a.d a.root) :
    ∃ a' c' s', a.append T v s.ctx = .ok (a', c') ∧
      TransSl.Array_Append (envH T) depth (trArrH a s) (some v) = some (none, trArrH a' s') ∧ s'.ctx = c' ∧
      HeapPost s.heap s'.heap a.root a'.root :=
  Sl_Array_Append_heap_ok T hT a v s depth hd hinv hlt hv hh (Or.inl (fun d' _ => insSplitTail_all T hT d'))

theorem nodup_of_mem_flatMap {α β : Type} (f : α → List β) : ∀ (l : List α), (l.flatMap f).Nodup → ∀ c ∈ l, (f c).Nodup
  | [], _, c, hc => by cases hc
  | x :: xs, h, c, hc => by
    rw [List.flatMap_cons, List.nodup_append] at h
    rcases List.mem_cons.1 hc with e | hin
    · subst e; exact h.1
    · exact nodup_of_mem_flatMap f xs h.2.1 c hin

/-- a heap that holds a tree with pairwise distinct identifiers agrees with `heapOf` on the identifiers of the tree -/
theorem Holds.eq_heapOf {h : SlabID → Option GSlab} : ∀ (d : Nat) (t : ATree d), Holds h d t →
    (ATree.slabIds d t).Nodup → ∀ id ∈ ATree.slabIds d t, h id = heapOf d t id
  | 0, t, hh, _, id, hid => by
    have e : id = (t : DataSlab).hdr.id := List.mem_singleton.1 hid
    subst e
    show h (t : DataSlab).hdr.id = (if (t : DataSlab).hdr.id = (t : DataSlab).hdr.id then _ else _)
    rw [if_pos rfl]
    exact hh
  | d + 1, t, hh, hnd, id, hid => by
    let m : MetaSlab (ATree d) := t
    have hnd' : (m.hdr.id :: m.children.flatMap (ATree.slabIds d)).Nodup := hnd
    have hid' : id ∈ m.hdr.id :: m.children.flatMap (ATree.slabIds d) := hid
    obtain ⟨hroot, hkids⟩ := List.nodup_cons.1 hnd'
    show h id = (if id = m.hdr.id then _ else _)
    rcases List.mem_cons.1 hid' with e | hin
    · rw [if_pos e, e]; exact hh.1
    · have hne : id ≠ m.hdr.id := fun e => hroot (e ▸ hin)
      rw [if_neg hne]
      obtain ⟨c, hc, hidc⟩ := List.mem_flatMap.1 hin
      rw [findSome?_heapOf m.children hkids c hc id hidc]
      have hndc : (ATree.slabIds d c).Nodup := nodup_of_mem_flatMap (ATree.slabIds d) m.children hkids c hc
      exact Holds.eq_heapOf d c (hh.2 c hc) hndc id hidc

/-- on the array's OWN heap (`heapOf`): the reading "generated function on `heapOf tree` = `heapOf (model function
    tree)`" - the heap after the call holds the model's new tree, every identifier that left the tree is gone -/
theorem Sl_Array_Insert_heapOf (T : Nat) (hT : legalThreshold T = true) (a : Arr) (i : Nat) (v : Elem) (c : Ctx)
    (depth : Nat) (hd : a.d ≤ depth) (hinv : ArrInv T a c.ctr) (hv : ValueOk v) (hi : i ≤ a.toList.length)
    (hlt : a.count < maxArrayElementCount) :
    ∃ a' c' s', a.insert T i v c = .ok (a', c') ∧
      TransSl.Array_Insert (envH T) depth (trArrH a ⟨heapOf a.d a.root, c⟩) (u64 i) (some v) =
        some (none, trArrH a' s') ∧ s'.ctx = c' ∧ ∀ id, s'.heap id = heapOf a'.d a'.root id := by
  obtain ⟨a', c', hok, hinv', _⟩ := arr_insert_ok hT a c i v hv hinv hlt hi
  have hlen : a.toList.length < 2^64 := by
    have h1 : a.count = a.toList.length := by
      obtain ⟨d, t, ty⟩ := a
      exact Shape.count_eq_length hinv.shape
    have h2 := hinv.count_lt
    simp only [maxArrayElementCount] at h2
    omega
  have h := Sl_Array_Insert_heap_full T hT a i v ⟨heapOf a.d a.root, c⟩ depth hd hinv hv
    (Holds_heapOf a.d a.root hinv.ids.1) (by omega)
  simp only at h
  rw [hok] at h
  obtain ⟨s', h1, h2, h3⟩ := h
  refine ⟨a', c', s', hok, h1, h2, ?_⟩
  intro id
  by_cases hnew : id ∈ ATree.slabIds a'.d a'.root
  · exact Holds.eq_heapOf a'.d a'.root h3.holds (h2 ▸ hinv').ids.1 id hnew
  · rw [heapOf_none a'.d a'.root id hnew]
    by_cases hold : id ∈ ATree.slabIds a.d a.root
    · exact h3.gone id hold hnew
    · rw [h3.frame id hold hnew]
      exact heapOf_none a.d a.root id hold

/-- **`Array.remove` over a heap = `Arr.remove` on the embedded tree** (any depth; rebalance, merge at every level,
    promotion of a single child to root): an index inside the array returns the removed element, the new handle, the
    model's `Ctx`, a heap that holds the new tree (no identifier is new) - and everything needed to run the next
    operation; an index past the end returns `IndexOutOfBoundsError`, nothing touched -/
theorem Sl_Array_remove_heap_full (T : Nat) (hT : legalThreshold T = true) (a : Arr) (i : Nat) (s : HSt) (depth : Nat)
    (hd : a.d ≤ depth) (hinv : ArrInv T a s.ctx.ctr) (hi : i < 2^64) (hh : Holds s.heap a.d a.root) :
    (i < a.toList.length → ∃ a' s',
      TransSl.Array_remove (envH T) depth (trArrH a s) (u64 i) =
        some (some (a.toList.getD i default), none, trArrH a' s') ∧
      a.remove T i s.ctx = .ok (a.toList.getD i default, a', s'.ctx) ∧
      HeapPost s.heap s'.heap a.root a'.root ∧
      (∀ id ∈ ATree.slabIds a'.d a'.root, id ∈ ATree.slabIds a.d a.root) ∧
      a'.d ≤ a.d ∧ ArrInv T a' s'.ctx.ctr ∧ a'.toList = a.toList.eraseIdx i ∧ a'.rootID = a.rootID ∧ a'.ty = a.ty) ∧
    (a.toList.length ≤ i →
      TransSl.Array_remove (envH T) depth (trArrH a s) (u64 i) = some (none, some .indexOutOfBounds, trArrH a s)) :=
  Sl_Array_remove_heap_arrInv T hT a i s depth hd hinv hi hh (RemPath.of_inv hT a.addr a.d a.root true i s.ctx hinv.tree)

/-- **`Array.set` over a heap = `Arr.set` on the embedded tree** (any depth; child split, rebalance, merge at every
    level, root split, promotion).  `FreshFree`: the storage holds nothing under identifiers beyond the allocation
    counter (what a real storage guarantees; it makes the frame clause of `HeapPost` meaningful for a slab that is
    allocated by a split further down and dropped by a merge higher up in the same operation). -/
theorem Sl_Array_set_heap_full (T : Nat) (hT : legalThreshold T = true) (a : Arr) (i : Nat) (v : Elem) (s : HSt)
    (depth : Nat) (hd : a.d ≤ depth) (hinv : ArrInv T a s.ctx.ctr) (hfree : FreshFree a.addr s)
    (hv : ValueOk v) (hh : Holds s.heap a.d a.root) (hi : i < 2^64) :
    match a.set T i v s.ctx with
    | .ok (old, a', c') => ∃ s', TransSl.Array_set (envH T) depth (trArrH a s) (u64 i) (some v) =
          some (some old, none, trArrH a' s') ∧ s'.ctx = c' ∧ HeapPost s.heap s'.heap a.root a'.root
    | .error e => e = .indexOutOfBounds ∧
        TransSl.Array_set (envH T) depth (trArrH a s) (u64 i) (some v) =
          some (none, some .indexOutOfBounds, trArrH a s) :=
  Sl_Array_set_heap_inv T hT a i v s depth hd hinv hfree hv hh hi
    (fun d' _ => ⟨splitTailHyp_all T hT d', morTailHyp_all T hT d'⟩)

/-- … in the chaining form: the result re-establishes every hypothesis -/
theorem Sl_Array_set_heap_full_ok (T : Nat) (hT : legalThreshold T = true) (a : Arr) (i : Nat) (v : Elem) (s : HSt)
    (depth : Nat) (hd : a.d ≤ depth) (hinv : ArrInv T a s.ctx.ctr) (hfree : FreshFree a.addr s)
    (hv : ValueOk v) (hh : Holds s.heap a.d a.root) (hlt : i < a.count) :
    ∃ a' c' s', a.set T i v s.ctx = .ok (a.toList.getD i default, a', c') ∧
      TransSl.Array_set (envH T) depth (trArrH a s) (u64 i) (some v) =
        some (some (a.toList.getD i default), none, trArrH a' s') ∧ s'.ctx = c' ∧
      HeapPost s.heap s'.heap a.root a'.root ∧
      ArrInv T a' s'.ctx.ctr ∧ a'.addr = a.addr ∧ FreshFree a'.addr s' ∧ Holds s'.heap a'.d a'.root ∧
      a'.toList = a.toList.set i (toStorable T a.addr v s.ctx).1 :=
  Sl_Array_set_heap_ok T hT a i v s depth hd hinv hfree hv hh hlt
    (setTailsOn_of_hyps T a.addr hT a.d a.root i v s.ctx
      (fun d' _ => ⟨splitTailHyp_all T hT d', morTailHyp_all T hT d'⟩))

/-- the array's own heap holds nothing beyond the allocation counter -/
theorem FreshFree_heapOf (T : Nat) (a : Arr) (c : Ctx) (hinv : ArrInv T a c.ctr) :
    FreshFree a.addr ⟨heapOf a.d a.root, c⟩ := by
  intro id _ hidx
  apply heapOf_none
  intro hmem
  have := (hinv.ids.2 id hmem).2.2
  exact absurd this (by simp only [HSt.ctx] at hidx ⊢; omega)

/-- from the array's own heap, `HeapPost` pins the heap after the call at EVERY identifier: it is `heapOf` of the new tree -/
theorem HeapPost.eq_heapOf {d d' : Nat} {t : ATree d} {t' : ATree d'} {h' : SlabID → Option GSlab}
    (hp : HeapPost (heapOf d t) h' t t') (hnd : (ATree.slabIds d' t').Nodup) : ∀ id, h' id = heapOf d' t' id := by
  intro id
  by_cases hnew : id ∈ ATree.slabIds d' t'
  · exact Holds.eq_heapOf d' t' hp.holds hnd id hnew
  · rw [heapOf_none d' t' id hnew]
    by_cases hold : id ∈ ATree.slabIds d t
    · exact hp.gone id hold hnew
    · rw [hp.frame id hold hnew]
      exact heapOf_none d t id hold

/-- **`Array.remove` on `heapOf tree` = `heapOf (Arr.remove tree)`** (at every identifier), same element, same `Ctx` -/
theorem Sl_Array_remove_heapOf (T : Nat) (hT : legalThreshold T = true) (a : Arr) (i : Nat) (c : Ctx) (depth : Nat)
    (hd : a.d ≤ depth) (hinv : ArrInv T a c.ctr) (hi : i < a.toList.length) :
    ∃ a' s', TransSl.Array_remove (envH T) depth (trArrH a ⟨heapOf a.d a.root, c⟩) (u64 i) =
        some (some (a.toList.getD i default), none, trArrH a' s') ∧
      a.remove T i c = .ok (a.toList.getD i default, a', s'.ctx) ∧ ∀ id, s'.heap id = heapOf a'.d a'.root id := by
  have hlen : a.toList.length < 2^64 := by
    have h1 : a.count = a.toList.length := by
      obtain ⟨d, t, ty⟩ := a
      exact Shape.count_eq_length hinv.shape
    have h2 := hinv.count_lt
    simp only [maxArrayElementCount] at h2
    omega
  obtain ⟨a', s', h1, h2, h3, _, _, hinv', _⟩ :=
    (Sl_Array_remove_heap_full T hT a i ⟨heapOf a.d a.root, c⟩ depth hd hinv (by omega)
      (Holds_heapOf a.d a.root hinv.ids.1)).1 hi
  exact ⟨a', s', h1, h2, HeapPost.eq_heapOf h3 hinv'.ids.1⟩

/-- **`Array.set` on `heapOf tree` = `heapOf (Arr.set tree)`** (at every identifier), same old element, same `Ctx` -/
theorem Sl_Array_set_heapOf (T : Nat) (hT : legalThreshold T = true) (a : Arr) (i : Nat) (v : Elem) (c : Ctx)
    (depth : Nat) (hd : a.d ≤ depth) (hinv : ArrInv T a c.ctr) (hv : ValueOk v) (hlt : i < a.count) :
    ∃ a' c' s', a.set T i v c = .ok (a.toList.getD i default, a', c') ∧
      TransSl.Array_set (envH T) depth (trArrH a ⟨heapOf a.d a.root, c⟩) (u64 i) (some v) =
        some (some (a.toList.getD i default), none, trArrH a' s') ∧ s'.ctx = c' ∧
      ∀ id, s'.heap id = heapOf a'.d a'.root id := by
  obtain ⟨a', c', s', h1, h2, h3, h4, hinv', _⟩ :=
    Sl_Array_set_heap_full_ok T hT a i v ⟨heapOf a.d a.root, c⟩ depth hd hinv (FreshFree_heapOf T a c hinv) hv
      (Holds_heapOf a.d a.root hinv.ids.1) hlt
  exact ⟨a', c', s', h1, h2, h3, HeapPost.eq_heapOf h4 hinv'.ids.1⟩

end Atree.TransEq
