import AtreeProofs.Props.TransDescentTopInsert
import AtreeProofs.Props.TransDescentInsertFull
/-
  TRANSLATION EQUIVALENCE, the DESCENT (WP12): the FINAL statements, without any hypothesis about generated code.

  `Array.Insert` / `Array.Append` (array.go), regenerated from the Go source on every run (`Gen/TransSlabs.lean`), run on
  the handle of a valid model array (`ArrInv`) over a heap that holds its tree, with a depth argument that covers the
  tree: they return what the model's `Arr.insert` / `Arr.append` return on the EMBEDDED tree - no error / the error class
  -, the handle is the translation of the model's new handle, the `Ctx` (allocation counter, effects in order) is the
  model's, and the heap holds the model's new tree, the rest untouched (`HeapPost`).  The tail hypotheses of
  `TransDescentInsert.lean` are discharged by `insSplitTail_all` (`TransDescentInsertFull.lean`).
-/
namespace Atree.TransEq
open Atree Atree.Gen

/-- **`Array.Insert` over a heap = `Arr.insert` on the embedded tree** (any depth, any restructuring: child splits at
    every level, root split) -/
theorem Sl_Array_Insert_heap_full (T : Nat) (hT : legalThreshold T = true) (a : Arr) (i : Nat) (v : Elem) (s : HSt)
    (depth : Nat) (hd : a.d ≤ depth) (hinv : ArrInv T a s.ctx.ctr) (hv : ValueOk v) (hh : Holds s.heap a.d a.root)
    (hi : i < 2^64) :
    match a.insert T i v s.ctx with
    | .ok (a', c') => ∃ s', TransSl.Array_Insert (envH T) depth (trArrH a s) (u64 i) (some v) =
          some (none, trArrH a' s') ∧ s'.ctx = c' ∧ HeapPost s.heap s'.heap a.root a'.root
    | .error .indexOutOfBounds =>
        TransSl.Array_Insert (envH T) depth (trArrH a s) (u64 i) (some v) = some (some .indexOutOfBounds, trArrH a s)
    | .error .maxElementCount =>
        TransSl.Array_Insert (envH T) depth (trArrH a s) (u64 i) (some v) = some (some .maxElementCount, trArrH a s)
    | .error _ => True :=
  Sl_Array_Insert_heap_inv T hT a i v s depth hd hinv hv hh hi (Or.inl (fun d' _ => insSplitTail_all T hT d'))

/-- **`Array.Append` over a heap = `Arr.append` on the embedded tree** -/
theorem Sl_Array_Append_heap_full (T : Nat) (hT : legalThreshold T = true) (a : Arr) (v : Elem) (s : HSt)
    (depth : Nat) (hd : a.d ≤ depth) (hinv : ArrInv T a s.ctx.ctr) (hlt : a.count < maxArrayElementCount)
    (hv : ValueOk v) (hh : Holds s.heap a.d a.root) :
    ∃ a' c' s', a.append T v s.ctx = .ok (a', c') ∧
      TransSl.Array_Append (envH T) depth (trArrH a s) (some v) = some (none, trArrH a' s') ∧ s'.ctx = c' ∧
      HeapPost s.heap s'.heap a.root a'.root :=
  Sl_Array_Append_heap_ok T hT a v s depth hd hinv hlt hv hh (Or.inl (fun d' _ => insSplitTail_all T hT d'))

theorem nodup_of_mem_flatMap {α β : Type} (f : α → List β) : ∀ (l : List α), (l.flatMap f).Nodup → ∀ c ∈ l, (f c).Nodup
  | [], _, c, hc => by cases hc
  | x :: xs, h, c, hc => by
    rw [List.flatMap_cons, List.nodup_append] at h
    rcases List.mem_cons.1 hc with e | hin
    · subst e; exact h.1
    · exact nodup_of_mem_flatMap f xs h.2.1 c hin

/-- a heap that holds a tree with pairwise distinct identifiers agrees with `heapOf` on the identifiers of the tree -/
theorem Holds.eq_heapOf {h : SlabID → Option GSlab} : ∀ (d : Nat) (t : ATree d), Holds h d t →
    (ATree.slabIds d t).Nodup → ∀ id ∈ ATree.slabIds d t, h id = heapOf d t id
  | 0, t, hh, _, id, hid => by
    have e : id = (t : DataSlab).hdr.id := List.mem_singleton.1 hid
    subst e
    show h (t : DataSlab).hdr.id = (if (t : DataSlab).hdr.id = (t : DataSlab).hdr.id then _ else _)
    rw [if_pos rfl]
    exact hh
  | d + 1, t, hh, hnd, id, hid => by
    let m : MetaSlab (ATree d) := t
    have hnd' : (m.hdr.id :: m.children.flatMap (ATree.slabIds d)).Nodup := hnd
    have hid' : id ∈ m.hdr.id :: m.children.flatMap (ATree.slabIds d) := hid
    obtain ⟨hroot, hkids⟩ := List.nodup_cons.1 hnd'
    show h id = (if id = m.hdr.id then _ else _)
    rcases List.mem_cons.1 hid' with e | hin
    · rw [if_pos e, e]; exact hh.1
    · have hne : id ≠ m.hdr.id := fun e => hroot (e ▸ hin)
      rw [if_neg hne]
      obtain ⟨c, hc, hidc⟩ := List.mem_flatMap.1 hin
      rw [findSome?_heapOf m.children hkids c hc id hidc]
      have hndc : (ATree.slabIds d c).Nodup := nodup_of_mem_flatMap (ATree.slabIds d) m.children hkids c hc
      exact Holds.eq_heapOf d c (hh.2 c hc) hndc id hidc

/-- on the array's OWN heap (`heapOf`): the reading "generated function on `heapOf tree` = `heapOf (model function
    tree)`" - the heap after the call holds the model's new tree, every identifier that left the tree is gone -/
theorem Sl_Array_Insert_heapOf (T : Nat) (hT : legalThreshold T = true) (a : Arr) (i : Nat) (v : Elem) (c : Ctx)
    (depth : Nat) (hd : a.d ≤ depth) (hinv : ArrInv T a c.ctr) (hv : ValueOk v) (hi : i ≤ a.toList.length)
    (hlt : a.count < maxArrayElementCount) :
    ∃ a' c' s', a.insert T i v c = .ok (a', c') ∧
      TransSl.Array_Insert (envH T) depth (trArrH a ⟨heapOf a.d a.root, c⟩) (u64 i) (some v) =
        some (none, trArrH a' s') ∧ s'.ctx = c' ∧ ∀ id, s'.heap id = heapOf a'.d a'.root id := by
  obtain ⟨a', c', hok, hinv', _⟩ := arr_insert_ok hT a c i v hv hinv hlt hi
  have hlen : a.toList.length < 2^64 := by
    have h1 : a.count = a.toList.length := by
      obtain ⟨d, t, ty⟩ := a
      exact Shape.count_eq_length hinv.shape
    have h2 := hinv.count_lt
    simp only [maxArrayElementCount] at h2
    omega
  have h := Sl_Array_Insert_heap_full T hT a i v ⟨heapOf a.d a.root, c⟩ depth hd hinv hv
    (Holds_heapOf a.d a.root hinv.ids.1) (by omega)
  simp only at h
  rw [hok] at h
  obtain ⟨s', h1, h2, h3⟩ := h
  refine ⟨a', c', s', hok, h1, h2, ?_⟩
  intro id
  by_cases hnew : id ∈ ATree.slabIds a'.d a'.root
  · exact Holds.eq_heapOf a'.d a'.root h3.holds (h2 ▸ hinv').ids.1 id hnew
  · rw [heapOf_none a'.d a'.root id hnew]
    by_cases hold : id ∈ ATree.slabIds a.d a.root
    · exact h3.gone id hold hnew
    · rw [h3.frame id hold hnew]
      exact heapOf_none a.d a.root id hold

end Atree.TransEq
