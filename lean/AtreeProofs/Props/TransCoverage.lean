import AtreeModel.Gen.TransCoverage
import AtreeProofs.Props.TransCoverageLits
/-
  COVERAGE of the translated layer (FX14; audit a6, findings F1 and F3).

  The `Atree.TransEq.*` theorems compare the definitions that harness/cmd/gotrans regenerates from the Go sources with the
  hand-written model, so a change of the Go code breaks a theorem only if it changes a generated definition.  What the
  engines do NOT read - statements left out by a `Skip` / `Until` / `SkipDefers` table, assignments to fields of dropped
  types, dropped arguments, `return` tuples replaced by `Outs`, calls that became environment parameters (instantiated by
  hand in every proof) or table views, and the bodies of the helpers behind those - is written, on every run, into
  `Gen/TransCoverage.lean`, unit by unit, and pinned:

    Props/TransCoverageStateless.lean   `skipped_Trans_pinned`, `envCalls_Trans_pinned`, `opaqueBodies_Trans_pinned`
    Props/TransCoverageStorage.lean     `.._TransSt_pinned`
    Props/TransCoverageSlabs.lean       `.._TransSl_pinned`
    Props/TransCoverageMaps.lean        `.._TransMap_pinned`, `.._TransMapD_pinned`, `.._TransElems_pinned`, `.._TransElem_pinned`

  (those four files and `TransCoverageLits.lean` hold the REVIEWED literals and are written by `gotrans -pin`; re-pinning
  is a review step: every changed line of their diff is Go text that no proof sees).  This file: the units themselves,
  the table patterns that match nothing, and the closed-world interfaces.
-/
namespace Atree.TransCov
open Atree

/-- the units of the four engines are the reviewed ones: a NEW unit (whose lists no theorem pins yet) is noticed -/
theorem unitLabels_pinned : Gen.TransCov.unitLabels = Reviewed.unitLabels := rfl

/-- every unit has its three pinning theorems: the reviewed units are exactly the seven that
    Props/TransCoverage{Stateless,Storage,Slabs,Maps}.lean cover -/
theorem unitLabels_covered :
    Reviewed.unitLabels = ["Trans", "TransSt", "TransSl", "TransMap", "TransMapD", "TransElems", "TransElem"] := rfl

/-- every `Skip` prefix of the stateless engine and every `SkipDefers` / `EnvConsts` entry of the object engine matches
    something in today's source (a pattern that matches nothing would silently stop protecting anything) -/
theorem unmatchedPatterns_none : Gen.TransCov.unmatchedPatterns = [] := rfl

/-- the closed interfaces (unit/interface, implementers the engine's tables assume, implementers found in the SOURCE:
    the types of package atree that have every method of the interface with the same parameter and result types) are
    the reviewed ones -/
theorem closedInterfaces_pinned : Gen.TransCov.closedInterfaces = Reviewed.closedInterfaces := rfl

/-- `Slab` is the one interface the engines deliberately narrow: the array unit reads slabs through `getArraySlab`, the
    map units through `getMapSlab` (both fail on any other dynamic type), so inside a unit every `Slab` is an `ArraySlab`
    resp. a `MapSlab`.  The generated / reviewed lists still show both sides. -/
def narrowed : List String := ["TransSl/Slab", "TransMap/Slab", "TransMapD/Slab", "TransElem/Slab"]

/-- are the two lists equal / is the first contained in the second (Bool, so that `decide` evaluates it in the kernel) -/
def sameList (a b : List String) : Bool := a == b
def subList (a b : List String) : Bool := a.all (fun x => b.contains x)

/-- CLOSED WORLD: for every closed interface the implementers the engine assumes are EXACTLY the implementers the
    source has (a new implementation of `elements`, `element`, `elementGroup`, `ArraySlab`, `MapSlab` is noticed);
    for the narrowed `Slab` the assumed ones are among the actual ones. -/
theorem closedInterfaces_coincide :
    Gen.TransCov.closedInterfaces.all
      (fun e => if narrowed.contains e.1 then subList e.2.1 e.2.2 else sameList e.2.1 e.2.2) = true := by
  decide

/-- the same on the reviewed literal, with the narrowed entries spelled out: the only difference between an assumed and
    an actual list anywhere is `Slab` ⊇ {array slabs | map slabs} -/
theorem closedInterfaces_differences :
    (Reviewed.closedInterfaces.filter (fun e => !(sameList e.2.1 e.2.2))).map (·.1) = narrowed := by
  decide

end Atree.TransCov
